package main

// Kernel `jsonrt`: the REAL js_parser.ParseJSON (strict JSON and TSConfigJSON flavours) on generated texts against
// the Lean model Impl/JsonLex.lean + Impl/Json.lean, and — op `js` — esbuild's whole JSON loader (api.Transform,
// loader json, format esm) executed by Node against the model's JavaScript value of the parsed expression and
// against Node's own JSON.parse.
//
//	op:        jsonrt\tparse\t<flavor>\t<objExt>\t<suppress>\t<source bytes hex>
//	expected:  ok=<0|1> <messages E<off>/W<off> in the order they were logged | -> <ast dump | ->
//	op:        jsonrt\tjs\t<source bytes hex>
//	expected:  <value dump in JavaScript property order> (Node: default export of the transformed module;
//	           the same line is also compared with Node's JSON.parse of the text on the Go side)
//
// Generators (all from the one PRNG): grammar-derived valid texts (deep nesting, every escape, surrogate escapes,
// numbers at the double boundaries, duplicate keys, __proto__, exotic white space), the tsconfig dialect (comments,
// trailing commas, JavaScript number and escape forms), mutations of valid texts, and token soup.

import (
	"fmt"
	"math"
	"sort"
	"strconv"
	"strings"
	"unicode/utf8"

	"github.com/evanw/esbuild/internal/compat"
	"github.com/evanw/esbuild/internal/js_ast"
	"github.com/evanw/esbuild/internal/js_lexer"
	"github.com/evanw/esbuild/internal/js_parser"
	"github.com/evanw/esbuild/internal/logger"
	"github.com/evanw/esbuild/verifharness/gen"
)

// ---------------------------------------------------------------- running the real parser

type jsonMsg struct {
	err  bool
	line int
	col  int
}

// classes of the messages of the last run (for the branch statistics only)
var jsonLastKinds []string

func jsonMsgClass(text string) string {
	for _, p := range []string{"Syntax error", "Unexpected end of file", "Unexpected", "Expected end of file", "Expected string", "Expected \"*/\"", "Expected", "Unterminated string",
		"JSON does not support comments", "JSON does not support trailing commas", "JSON strings must use double quotes", "Invalid identifier", "Unicode escape sequence is out of range",
		"Duplicate key", "Treating \"<!--\"", "Treating \"-->\""} {
		if strings.HasPrefix(text, p) {
			return p
		}
	}
	return "other:" + text
}

func jsonDumpExpr(sb *strings.Builder, e js_ast.Expr) {
	switch d := e.Data.(type) {
	case *js_ast.ENull:
		sb.WriteString("n")
	case *js_ast.EBoolean:
		if d.Value {
			sb.WriteString("t")
		} else {
			sb.WriteString("f")
		}
	case *js_ast.ENumber:
		fmt.Fprintf(sb, "#%016x", math.Float64bits(d.Value))
	case *js_ast.EString:
		sb.WriteString("s")
		sb.WriteString(hexU16(d.Value))
	case *js_ast.EArray:
		sb.WriteString("[")
		if d.IsSingleLine {
			sb.WriteString("S")
		} else {
			sb.WriteString("M")
		}
		for i, it := range d.Items {
			if i > 0 {
				sb.WriteString(",")
			}
			jsonDumpExpr(sb, it)
		}
		sb.WriteString("]")
	case *js_ast.EObject:
		sb.WriteString("{")
		if d.IsSingleLine {
			sb.WriteString("S")
		} else {
			sb.WriteString("M")
		}
		for i, p := range d.Properties {
			if i > 0 {
				sb.WriteString(",")
			}
			if k, ok := p.Key.Data.(*js_ast.EString); ok && p.Kind == js_ast.PropertyField {
				sb.WriteString(hexU16(k.Value))
			} else {
				sb.WriteString("?key")
			}
			if p.Flags.Has(js_ast.PropertyIsComputed) {
				sb.WriteString("*")
			}
			if p.Flags&^js_ast.PropertyIsComputed != 0 {
				sb.WriteString("?flags")
			}
			sb.WriteString(":")
			jsonDumpExpr(sb, p.ValueOrNil)
		}
		sb.WriteString("}")
	default:
		fmt.Fprintf(sb, "?%T", e.Data)
	}
}

// offsets of a text by (line, column) as the logger reports them; the largest offset wins (the offset between a CR
// and its LF and the offset after that LF get the same pair)
func jsonOffsetTable(text string) map[[2]int]int {
	src := logger.Source{Contents: text}
	tr := logger.MakeLineColumnTracker(&src)
	tab := map[[2]int]int{}
	for off := 0; ; {
		loc := tr.MsgLocationOrNil(logger.Range{Loc: logger.Loc{Start: int32(off)}})
		tab[[2]int{loc.Line, loc.Column}] = off
		if off >= len(text) {
			break
		}
		_, w := utf8.DecodeRuneInString(text[off:])
		off += w
	}
	return tab
}

func jsonReal(text string, flavor js_lexer.JSONFlavor, objExt bool, suppress bool) string {
	var msgs []jsonMsg
	jsonLastKinds = jsonLastKinds[:0]
	log := logger.Log{
		Level: logger.LevelInfo,
		AddMsg: func(m logger.Msg) {
			if m.Kind != logger.Error && m.Kind != logger.Warning {
				return
			}
			jsonLastKinds = append(jsonLastKinds, jsonMsgClass(m.Data.Text))
			jm := jsonMsg{err: m.Kind == logger.Error, line: -1}
			if m.Data.Location != nil {
				jm.line, jm.col = m.Data.Location.Line, m.Data.Location.Column
			}
			msgs = append(msgs, jm)
		},
		HasErrors: func() bool { return false },
		Peek:      func() []logger.Msg { return nil },
		Done:      func() []logger.Msg { return nil },
	}
	opts := js_parser.JSONOptions{Flavor: flavor}
	if !objExt {
		opts.UnsupportedJSFeatures = compat.ObjectExtensions
	}
	path := "/p/data.json"
	if suppress {
		path = "/p/node_modules/q/data.json"
	}
	src := logger.Source{Contents: text, KeyPath: logger.Path{Text: path, Namespace: "file"}}
	return guard(func() string {
		expr, ok := js_parser.ParseJSON(log, src, opts)
		var sb strings.Builder
		if ok {
			sb.WriteString("ok=1 ")
		} else {
			sb.WriteString("ok=0 ")
		}
		if len(msgs) == 0 {
			sb.WriteString("-")
		} else {
			tab := jsonOffsetTable(text)
			for i, m := range msgs {
				if i > 0 {
					sb.WriteString(",")
				}
				if m.err {
					sb.WriteString("E")
				} else {
					sb.WriteString("W")
				}
				if off, found := tab[[2]int{m.line, m.col}]; found {
					sb.WriteString(strconv.Itoa(off))
				} else {
					sb.WriteString("?")
				}
			}
		}
		sb.WriteString(" ")
		if ok {
			jsonDumpExpr(&sb, expr)
		} else {
			sb.WriteString("-")
		}
		return sb.String()
	})
}

// ---------------------------------------------------------------- code point menus

// every non-ASCII code point the generator emits; the model's driver knows their ID_Start / ID_Continue status
var jsonIDStart = []rune{0xE9, 0x3C0, 0x1D4B3, 0xAA, 0x4E2D}
var jsonIDContOnly = []rune{0x301, 0x660, 0x203F, 0x200C, 0x200D}
var jsonNeither = []rune{0x20AC, 0xD7, 0x1F600, 0xFFFD, 0x85, 0x200B}
var jsonSpace = []rune{0xA0, 0xFEFF, 0x2028, 0x2029, 0x3000, 0x1680, 0x2003, 0x202F, 0x205F, 0x0B, 0x0C}

var jsonMenu = func() map[rune]bool {
	m := map[rune]bool{}
	for _, l := range [][]rune{jsonIDStart, jsonIDContOnly, jsonNeither, jsonSpace} {
		for _, c := range l {
			m[c] = true
		}
	}
	return m
}()

func jsonAnyNonASCII(r *gen.Rand) rune {
	ls := [][]rune{jsonIDStart, jsonIDContOnly, jsonNeither, jsonSpace}
	l := ls[r.Intn(len(ls))]
	return l[r.Intn(len(l))]
}

// replace every well-formed non-ASCII code point outside the menu (a mutation can glue bytes of two characters
// together) by question marks: the driver's ID tables know the menu only
func jsonSanitize(b []byte) []byte {
	out := make([]byte, 0, len(b))
	for i := 0; i < len(b); {
		c, w := utf8.DecodeRune(b[i:])
		if c >= 0x80 && !(c == utf8.RuneError && w == 1) && !jsonMenu[c] {
			for k := 0; k < w; k++ {
				out = append(out, '?')
			}
		} else {
			out = append(out, b[i:i+w]...)
		}
		i += w
	}
	return out
}

var _ = sort.Strings

// ---------------------------------------------------------------- grammar-derived texts

type jsonGen struct {
	r     *gen.Rand
	e     *emitter
	ts    bool // tsconfig dialect extensions allowed (comments, trailing commas, JS numbers / escapes)
	exoWS bool // exotic white space and HTML comments allowed between tokens
	b     []byte
	first bool // nothing but white space written so far (a `-->` comment is legal)
}

func (g *jsonGen) ws() {
	n := 0
	switch g.r.Intn(6) {
	case 0, 1, 2:
		n = 0
	case 3:
		n = 1
	default:
		n = g.r.Intn(4)
	}
	for i := 0; i < n; i++ {
		k := g.r.Intn(20)
		switch {
		case k < 12:
			g.b = append(g.b, " \t\n\r"[g.r.Intn(4)])
		case k < 14 && g.exoWS:
			g.b = utf8.AppendRune(g.b, jsonSpace[g.r.Intn(len(jsonSpace))])
		case k < 15 && g.exoWS:
			g.b = append(g.b, "<!--"+g.commentBody(false)+"\n"...)
		case k < 16 && g.exoWS:
			g.b = append(g.b, "\n-->"+g.commentBody(false)+"\n"...)
		case k < 18 && g.ts:
			g.b = append(g.b, "//"+g.commentBody(false)+"\n"...)
		case k < 20 && g.ts:
			g.b = append(g.b, "/*"+g.commentBody(true)+"*/"...)
		default:
			g.b = append(g.b, ' ')
		}
	}
}

func (g *jsonGen) commentBody(multi bool) string {
	var sb strings.Builder
	n := g.r.Intn(8)
	for i := 0; i < n; i++ {
		switch g.r.Intn(12) {
		case 0:
			sb.WriteString([]string{"@__PURE__", "#__PURE__ ", "@license", "@preserve x", "@jsx h", "@jsxFrag  f ", "@jsxRuntime", "# sourceMappingURL=a.map", "!", "@__KEY__x", "#__NO_SIDE_EFFECTS__"}[g.r.Intn(11)])
		case 1:
			sb.WriteRune(jsonAnyNonASCII(g.r))
		case 2:
			sb.WriteString([]string{"*", "/", "* /", "\"", "'", "\\", "-->", "<!--", "//", "/*"}[g.r.Intn(10)])
		case 3:
			if multi {
				sb.WriteString([]string{"\n", "\r\n", "\r", " "}[g.r.Intn(4)])
			} else {
				sb.WriteString(" ")
			}
		default:
			sb.WriteByte("abc xyz{}[]:,0123456789"[g.r.Intn(23)])
		}
	}
	s := sb.String()
	if multi {
		s = strings.ReplaceAll(s, "*/", "* /")
		if strings.HasSuffix(s, "*") {
			s += " "
		}
	} else {
		s = strings.Map(func(c rune) rune {
			if c == '\n' || c == '\r' || c == 0x2028 || c == 0x2029 {
				return ' '
			}
			return c
		}, s)
	}
	return s
}

func (g *jsonGen) digits(n int, first string) {
	for i := 0; i < n; i++ {
		if i == 0 && first != "" {
			g.b = append(g.b, first[g.r.Intn(len(first))])
		} else {
			g.b = append(g.b, "0123456789"[g.r.Intn(10)])
		}
	}
}

// a JSON number (RFC 8259 grammar), biased to the places where rounding, the uint32 fast path (< 10 characters)
// and strconv.ParseFloat differ
func (g *jsonGen) number() {
	r := g.r
	if g.ts && r.Chance(1, 5) {
		xs := []string{"0x1F", "0XabcDEF", "0b101", "0B0", "0o17", "0O777", "1_000", "1_0.0_1e1_0", ".5", ".5e3", "5.", "5.e3", "0.", "017", "00", "089", "09.5", "0x1fffffffffffff8",
			"- 1", "-/*c*/2", "-\n3", "-//x\n4", "-\t.5", "-0x10", "- 017", "0x20000000000001", "1e1_0"}
		g.b = append(g.b, xs[r.Intn(len(xs))]...)
		g.e.stat("ts:js-number")
		return
	}
	if r.Chance(1, 3) {
		g.b = append(g.b, '-')
	}
	switch r.Intn(10) {
	case 0: // shortest / 17-digit / fixed renderings of boundary doubles
		f := math.Float64frombits(r.F64Bits() &^ (1 << 63))
		if math.IsNaN(f) || math.IsInf(f, 0) {
			f = 1.7976931348623157e308
		}
		var s string
		switch r.Intn(4) {
		case 0:
			s = strconv.FormatFloat(f, 'g', -1, 64)
		case 1:
			s = strconv.FormatFloat(f, 'e', 16+r.Intn(6), 64)
		case 2:
			s = strconv.FormatFloat(f, 'e', r.Intn(16), 64)
		default:
			if f < 1e25 && f > 1e-10 {
				s = strconv.FormatFloat(f, 'f', r.Intn(30), 64)
			} else {
				s = strconv.FormatFloat(f, 'E', -1, 64)
			}
		}
		if r.Chance(1, 4) && !strings.ContainsAny(s, "eE") { // halfway-ish tails
			if !strings.Contains(s, ".") {
				s += "."
				s += "5"
			}
			s += []string{"5", "50000000000000000001", "49999999999999999999", "0000000000000000000000001"}[r.Intn(4)]
		}
		s = strings.Replace(s, "e+", []string{"e+", "e", "E"}[r.Intn(3)], 1)
		if strings.HasSuffix(s, ".") {
			s += "0"
		}
		g.b = append(g.b, s...)
		g.e.stat("num:boundary")
		return
	case 1: // integers around 2^53, 2^32, 10 characters
		xs := []string{"9007199254740991", "9007199254740992", "9007199254740993", "9007199254740995", "18014398509481985",
			"4294967295", "4294967296", "999999999", "1000000000", "4294967297", "18446744073709551615", "18446744073709551616",
			"123456789012345678901234567890", "179769313486231570814527423731704356798070567525844996598917476803157260780028538760589558632766878171540458953514382464234321326889464182768467546703537516986049910576551282076245490090389328944075868508455133942304583236903222948165808559332123348274797826204144723168738177180919299881250404026184124858368",
			"179769313486231580793728971405303415079934132710037826936173778980444968292764750946649017977587207096330286416692887910946555547851940402630657488671505820681908902000708383676273854845817711531764475730270069855571366959622842914819860834936475292719074168444365510704342711559699508093042880177904174497791"}
		g.b = append(g.b, xs[r.Intn(len(xs))]...)
		g.e.stat("num:bigint")
		return
	case 2: // extreme exponents
		xs := []string{"1e308", "1.7976931348623157e308", "1.7976931348623158e308", "1.7976931348623159e308", "1e309", "1e400", "1e-400",
			"5e-324", "4.9e-324", "2.4703282292062327e-324", "2.4703282292062328e-324", "2.5e-324", "2.2250738585072014e-308",
			"2.2250738585072011e-308", "0e999999999", "0.0e-999", "1e0", "1E+0", "1e-0", "0.000000000000000000000000000000000001e36",
			"100000000000000000000000000000000000e-35", "1e23", "8.5e22", "9.5e22", "1e22", "1e-5000", "1e5000", "0E0"}
		g.b = append(g.b, xs[r.Intn(len(xs))]...)
		g.e.stat("num:extreme")
		return
	}
	// int
	if r.Chance(1, 5) {
		g.b = append(g.b, '0')
	} else {
		g.digits(1+r.Intn([]int{1, 3, 9, 10, 20, 40}[r.Intn(6)]), "123456789")
	}
	if r.Chance(1, 3) {
		g.b = append(g.b, '.')
		g.digits(1+r.Intn([]int{1, 3, 8, 25}[r.Intn(4)]), "")
	}
	if r.Chance(1, 3) {
		g.b = append(g.b, "eE"[r.Intn(2)])
		if r.Chance(1, 2) {
			g.b = append(g.b, "+-"[r.Intn(2)])
		}
		g.digits(1+r.Intn(3), "")
	}
	g.e.stat("num:plain")
}

const jsonPunct = " !#$%&'()*+,-./:;<=>?@[]^_`{|}~\x7f"

var jsonKeys = []string{"a", "b", "__proto__", "a", "x y", "", "1", "0", "10", "2", "constructor", "toString", "default", "if", "é", "中", "k", "__proto__ ", "-1", "01", "4294967295", "4294967294", "await", "eval", "arguments", "yield", "let", "static", "enum", "async", "x\U00010000"}

func (g *jsonGen) stringBody(key bool) {
	r := g.r
	if key && r.Chance(3, 4) {
		k := jsonKeys[r.Intn(len(jsonKeys))]
		if k == "__proto__" && r.Chance(1, 3) { // the same key through escapes
			k = []string{"\\u005f_proto__", "__pr\\u006fto__", "__proto_\\u005F"}[r.Intn(3)]
			g.e.stat("key:proto-escaped")
		}
		g.b = append(g.b, k...)
		return
	}
	n := r.Intn([]int{1, 3, 8, 20}[r.Intn(4)])
	for i := 0; i < n; i++ {
		if g.ts && r.Chance(1, 6) {
			xs := []string{"\\v", "\\x41", "\\xfF", "\\u{41}", "\\u{1F600}", "\\u{10FFFF}", "\\u{000000061}", "\\0", "\\00", "\\000", "\\1", "\\12", "\\123", "\\377", "\\400", "\\47", "\\08", "\\18", "\\8", "\\9",
				"\\\n", "\\\r\n", "\\\r", "\\\u2028", "\\\u2029", "\\a", "\\'", "\\ ", "\\\u00e9", "\\\U0001F600", "\t", "\x01", "\x00", "\x1f"}
			g.b = append(g.b, xs[r.Intn(len(xs))]...)
			g.e.stat("ts:js-escape")
			continue
		}
		switch r.Intn(12) {
		case 0:
			g.b = append(g.b, '\\', "\"\\/bfnrt"[r.Intn(8)])
		case 1:
			g.b = append(g.b, fmt.Sprintf([]string{"\\u%04x", "\\u%04X"}[r.Intn(2)], r.Intn(0x10000))...)
		case 2: // surrogates: pairs, lone, reversed
			hi, lo := 0xD800+r.Intn(0x400), 0xDC00+r.Intn(0x400)
			switch r.Intn(4) {
			case 0:
				g.b = append(g.b, fmt.Sprintf("\\u%04x\\u%04x", hi, lo)...)
			case 1:
				g.b = append(g.b, fmt.Sprintf("\\u%04x", hi)...)
			case 2:
				g.b = append(g.b, fmt.Sprintf("\\u%04x", lo)...)
			default:
				g.b = append(g.b, fmt.Sprintf("\\u%04x\\u%04x", lo, hi)...)
			}
		case 3:
			if c := jsonAnyNonASCII(r); c >= 0x20 {
				g.b = utf8.AppendRune(g.b, c)
			}
		case 4:
			g.b = append(g.b, []string{"\\u0000", "\\u001f", "\\u007f", "\\ud800", "\\udfff", "\\uffff", "\\u2028", "\\u0022", "\\u005c"}[r.Intn(9)]...)
		case 5:
			g.b = append(g.b, jsonPunct[r.Intn(len(jsonPunct))])
		default:
			g.b = append(g.b, "abcxyzABC0189 _-"[r.Intn(16)])
		}
	}
}

func (g *jsonGen) str(key bool) {
	g.b = append(g.b, '"')
	g.stringBody(key)
	g.b = append(g.b, '"')
}

func (g *jsonGen) value(depth int) {
	r := g.r
	k := r.Intn(12)
	if depth <= 0 && k >= 8 {
		k = r.Intn(8)
	}
	switch {
	case k < 1:
		g.b = append(g.b, []string{"true", "false", "null"}[r.Intn(3)]...)
	case k < 4:
		g.number()
	case k < 8:
		g.str(false)
	case k < 10:
		g.b = append(g.b, '[')
		n := r.Intn(4)
		if n == 0 {
			g.ws()
		}
		for i := 0; i < n; i++ {
			if i > 0 {
				g.b = append(g.b, ',')
			}
			g.ws()
			g.value(depth - 1)
			g.ws()
		}
		if n > 0 && g.ts && r.Chance(1, 4) {
			g.b = append(g.b, ',')
			g.ws()
			g.e.stat("ts:trailing-comma")
		}
		g.b = append(g.b, ']')
	default:
		g.b = append(g.b, '{')
		n := r.Intn(5)
		if n == 0 {
			g.ws()
		}
		for i := 0; i < n; i++ {
			if i > 0 {
				g.b = append(g.b, ',')
			}
			g.ws()
			g.str(true)
			g.ws()
			g.b = append(g.b, ':')
			g.ws()
			g.value(depth - 1)
			g.ws()
		}
		if n > 0 && g.ts && r.Chance(1, 4) {
			g.b = append(g.b, ',')
			g.ws()
			g.e.stat("ts:trailing-comma")
		}
		g.b = append(g.b, '}')
	}
}

// deep nesting: d opening brackets / braces around one value
func (g *jsonGen) deep(d int) {
	closers := make([]byte, 0, d)
	for i := 0; i < d; i++ {
		if g.r.Bool() {
			g.b = append(g.b, '[')
			closers = append(closers, ']')
		} else {
			g.b = append(g.b, "{\"k\":"...)
			closers = append(closers, '}')
		}
		if g.r.Chance(1, 8) {
			g.ws()
		}
	}
	g.value(1)
	for i := d - 1; i >= 0; i-- {
		g.b = append(g.b, closers[i])
	}
}

func (g *jsonGen) document(depth int) []byte {
	g.b = g.b[:0]
	g.ws()
	if g.r.Chance(1, 25) {
		g.deep(10 + g.r.Intn(60))
		g.e.stat("doc:deep")
	} else {
		g.value(depth)
	}
	g.ws()
	return append([]byte(nil), g.b...)
}

// ---------------------------------------------------------------- lexical forms outside RFC 8259

// number-like texts: the JavaScript forms the tsconfig flavour takes and strict JSON must refuse, and broken ones
func jsonOddNumber(r *gen.Rand) string {
	xs := []string{"08", "09", "089", "09.5", "08e1", "00", "01", "07", "010", "0_1", "1_0", "1__0", "1_", "1_.5", "1._5", "1e_5", "1e5_",
		"0x10", "0X1f", "0b101", "0B1", "0o17", "0O7", "0x", "0b2", "0o8", "0xg", "0x1_f", "0x_1", ".5", "5.", "5.e3", ".5e-3", ".", "..", "...", "1.e", "1e", "1e+", "1E-",
		"1n", "0n", "00n", "0x1fn", "1.5n", "1e3n", "08n", "1a", "1_a", "0x1g", "1\u00e9", "1\u20ac", "1\u0301", "- 1", "-\t1", "-\n1", "--1", "-+1", "+1", "-.5", "-5.", "-0x10", "-08", "-", "-a", "-/**/1", "-//\n1",
		"0.", "0.0", "-0", "-0.0", "0e0", "0e", "1.0.0", "1..2", "1e1.5", "1e1e1", "Infinity", "NaN", "-Infinity", "0789.5", "0789e1", "0x20000000000001", "0x7fffffffffffffff8",
		"0b11111111111111111111111111111111111111111111111111111", "9007199254740993.0", "0777", "0o777n", "1_000_000", "1_000.5e1_0"}
	return xs[r.Intn(len(xs))]
}

// string literals with escapes outside RFC 8259 (JavaScript forms, broken forms) and other quotes
func jsonOddString(r *gen.Rand) string {
	xs := []string{`"\v"`, `"\0"`, `"\00"`, `"\000"`, `"\1"`, `"\12"`, `"\123"`, `"\377"`, `"\400"`, `"\477"`, `"\08"`, `"\18"`, `"\8"`, `"\9"`, `"\89"`,
		`"\x41"`, `"\x4"`, `"\x"`, `"\xg1"`, `"\x4g"`, `"\u{41}"`, `"\u{1F600}"`, `"\u{10FFFF}"`, `"\u{110000}"`, `"\u{00000000041}"`, `"\u{FFFFFFFFFFFFFFFFFFFF}"`, `"\u{}"`, `"\u{4"`, `"\u{g}"`, `"\u{"`,
		`"\u41"`, `"\u"`, `"\u004"`, `"\u004g"`, `"\ug000"`, "\"\U0001f600\"", `"\a"`, `"\'"`, `"\ "`, "\"\\\n\"", "\"\\\r\n\"", "\"\\\r\"", "\"\\\r\nx\"", "\"\\\u2028\"", "\"\\\u2029\"", "\"\\\u00e9\"", "\"\\\U0001F600\"",
		"\"a\tb\"", "\"a\x00b\"", "\"a\x1fb\"", "\"a\nb\"", "\"a\rb\"", "\"a\u2028b\"", "\"a\x7fb\"", `"\`, `"\"`, `"abc`, `"`, `'a'`, `'a"b'`, `'\''`, `'`, "`a`", "`a${b}`", "`a\nb`", "`a\tb`", "`\\u{110000}`", "`",
		"\"\xff\"", "\"\xc3\"", "\"\xed\xa0\x80\"", "\"\xf0\x9f\x98\"", "\"\xc0\xaf\"", "\"\xf4\x90\x80\x80\"", "\"\\\xff\"", `"\u0041"`, `"\\u0041"`, `"\\"`, `"\\\"`, `"\/"`}
	return xs[r.Intn(len(xs))]
}

// tokens that are never part of a JSON text
func jsonOddToken(r *gen.Rand) string {
	xs := []string{"(", ")", ";", "@", "~", "?", "?.", "??", "??=", "?.5", "%", "%=", "&", "&&", "&&=", "&=", "|", "||", "||=", "^", "^=", "+", "++", "+=", "-=", "--", "-->", "*", "**", "**=", "*=", "/", "/=",
		"=", "==", "===", "=>", "<", "<<", "<<=", "<=", "<!", "<!-", "<!--", ">", ">>", ">>>", ">>>=", ">=", "!", "!=", "!==", "#", "#!", "#!x\n", "#a", "#a\\u0062", "#\\u0061", "#\\u{61}b", "#1", "#\u00e9", "#\u20ac", "# ",
		"a", "tru", "truex", "True", "nul", "nulll", "false0", "true\u0301", "tru\\u0065", "\\u0074rue", "\\u{74}rue", "n\\u0075ll", "a\\u", "a\\u00", "a\\u{", "a\\u{}", "a\\u{110000}", "a\\u{0}", "a\\u0020", "a\\x41", "\\", "\\a",
		"\u00e9", "\u00e9a", "\u00e9\\u0061", "\u20ac", "\u4e2d", "\U0001D4B3", "\u0301", "a\u0301", "a\u200c", "\u200c", "\ufffd", "\xff", "\x00", "\x01", "\x7f", "\x1b", "undefined", "var", "$", "_", "$1", "if", "{}", "[]", "[", "]", "{", "}", ",", ":", "\"k\"", "1", "true", "null"}
	return xs[r.Intn(len(xs))]
}

func jsonSeparator(r *gen.Rand) string {
	xs := []string{"", "", "", " ", " ", "\n", "\r\n", "\r", "\t", "\u00a0", "\ufeff", "\u2028", "\u2029", "\v", "\f", "\u3000", "\u200b", "\u0085",
		"//x\n", "//", "// c", "/**/", "/* c */", "/*\n*/", "/***/", "/*/", "/*", "/* *", "<!-- x\n", "<!--", "\n-->x\n", "-->", "\n-->", " -->\n", "/*\n*/-->x\n"}
	return xs[r.Intn(len(xs))]
}

// ---------------------------------------------------------------- mutations

func jsonMutate(r *gen.Rand, b []byte) []byte {
	if len(b) == 0 {
		return []byte(jsonOddToken(r))
	}
	b = append([]byte(nil), b...)
	n := 1
	if r.Chance(1, 4) {
		n = 2 + r.Intn(2)
	}
	for i := 0; i < n && len(b) > 0; i++ {
		p := r.Intn(len(b))
		switch r.Intn(9) {
		case 0: // delete a byte
			b = append(b[:p], b[p+1:]...)
		case 1: // delete a range
			q := p + 1 + r.Intn(4)
			if q > len(b) {
				q = len(b)
			}
			b = append(b[:p], b[q:]...)
		case 2: // truncate
			b = b[:p]
		case 3: // insert a structural / interesting ASCII byte
			const ins = "{}[],:\"\\'-+.eE0189 \t\n\r/*<!>#ntfu_x"
			c := ins[r.Intn(len(ins))]
			b = append(b[:p], append([]byte{c}, b[p:]...)...)
		case 4: // replace a byte
			const rep = "{}[],:\"\\'-.e0 \n/*ux8"
			b[p] = rep[r.Intn(len(rep))]
		case 5: // insert an odd lexical form
			var s string
			switch r.Intn(4) {
			case 0:
				s = jsonOddNumber(r)
			case 1:
				s = jsonOddString(r)
			case 2:
				s = jsonOddToken(r)
			default:
				s = jsonSeparator(r)
			}
			b = append(b[:p], append([]byte(s), b[p:]...)...)
		case 6: // duplicate a slice
			q := p + 1 + r.Intn(6)
			if q > len(b) {
				q = len(b)
			}
			b = append(b[:q], append(append([]byte(nil), b[p:q]...), b[q:]...)...)
		case 7: // a control or high byte
			c := []byte{0, 1, 8, 0x0b, 0x0c, 0x1f, 0x7f, 0x80, 0xbf, 0xc3, 0xe4, 0xf0, 0xff}[r.Intn(13)]
			b = append(b[:p], append([]byte{c}, b[p:]...)...)
		default: // swap two bytes
			q := r.Intn(len(b))
			b[p], b[q] = b[q], b[p]
		}
	}
	return jsonSanitize(b)
}

func jsonSoup(r *gen.Rand) []byte {
	var sb strings.Builder
	n := 1 + r.Intn(7)
	for i := 0; i < n; i++ {
		sb.WriteString(jsonSeparator(r))
		switch r.Intn(8) {
		case 0:
			sb.WriteString(jsonOddNumber(r))
		case 1:
			sb.WriteString(jsonOddString(r))
		case 2, 3:
			sb.WriteString(jsonOddToken(r))
		default:
			sb.WriteString([]string{"[", "]", "{", "}", ",", ":", "\"k\"", "1", "-1", "true", "false", "null", "\"\"", "1.5e3", "[]", "{}", "\"__proto__\"", "\"a\":"}[r.Intn(18)])
		}
	}
	sb.WriteString(jsonSeparator(r))
	return jsonSanitize([]byte(sb.String()))
}

// ---------------------------------------------------------------- the kernel

func jsonFlag(b bool) string {
	if b {
		return "1"
	}
	return "0"
}

func jsonEmitParse(e *emitter, text []byte, ts bool, objExt bool, suppress bool, class string) {
	flavor := js_lexer.JSON
	if ts {
		flavor = js_lexer.TSConfigJSON
	}
	res := jsonReal(string(text), flavor, objExt, suppress)
	e.stat("class:" + class)
	for _, k := range jsonLastKinds {
		e.stat("msg:" + k)
	}
	if ts {
		e.stat("flavor:tsconfig")
	} else {
		e.stat("flavor:json")
	}
	switch {
	case res == "PANIC":
		e.stat("result:PANIC")
	case strings.HasPrefix(res, "ok=1 -"):
		e.stat("result:accepted")
	case strings.HasPrefix(res, "ok=1 "):
		if strings.Contains(strings.Fields(res)[1], "E") {
			e.stat("result:ok-with-errors")
		} else {
			e.stat("result:accepted-with-warnings")
		}
	default:
		e.stat("result:panic-rejected")
	}
	e.emit(fmt.Sprintf("jsonrt\tparse\t%s\t%s\t%s\t%s", jsonFlag(ts), jsonFlag(objExt), jsonFlag(suppress), hexBytes(text)), res)
}

func init() {
	kernels["jsonrt"] = func(r *gen.Rand, e *emitter, tier string) {
		g := &jsonGen{r: r, e: e}
		jsCases := 0
		for !e.full() {
			objExt := !r.Chance(1, 6)
			suppress := r.Chance(1, 8)
			ts := r.Chance(1, 3)
			switch k := r.Intn(20); {
			case k < 6: // valid RFC 8259 text (strict generator), read by either flavour
				g.ts, g.exoWS = false, false
				jsonEmitParse(e, g.document(3+r.Intn(3)), ts, objExt, suppress, "valid-rfc")
			case k < 8: // valid RFC text with the white space / HTML comments esbuild also takes
				g.ts, g.exoWS = false, true
				jsonEmitParse(e, g.document(3), ts, objExt, suppress, "valid-exotic-ws")
			case k < 11: // tsconfig dialect: comments, trailing commas — read by either flavour
				g.ts, g.exoWS = true, r.Chance(1, 3)
				jsonEmitParse(e, g.document(3), r.Chance(2, 3), objExt, suppress, "tsconfig-dialect")
			case k < 16: // mutations of a valid text
				g.ts, g.exoWS = r.Chance(1, 3), r.Chance(1, 4)
				jsonEmitParse(e, jsonMutate(r, g.document(2+r.Intn(2))), ts, objExt, suppress, "mutated")
			case k < 17: // a value position filled with a lexical form outside RFC 8259
				var s string
				switch r.Intn(3) {
				case 0:
					s = jsonOddNumber(r)
				case 1:
					s = jsonOddString(r)
				default:
					s = jsonOddToken(r)
				}
				pre, post := []string{"", "[", "{\"a\":", "[1,", " ", "\n", "{\"a\":1,"}[r.Intn(7)], []string{"", "]", "}", ",2]", " ", "\n", ":1}"}[r.Intn(7)]
				jsonEmitParse(e, jsonSanitize([]byte(pre+s+post)), ts, objExt, suppress, "odd-lexeme")
			case k < 19:
				jsonEmitParse(e, jsonSoup(r), ts, objExt, suppress, "soup")
			default: // end-to-end through the loader and Node (batched at the end)
				if tier != "nojs" && jsCases < jsonJSLimit(e.limit) {
					jsCases++
					g.ts, g.exoWS = false, false
					jsonQueueJS(e, g.document(3))
				}
			}
		}
		jsonFlushJS(e)
	}
}
