package main

import (
	"fmt"
	"os"
	"path/filepath"
	"strconv"
	"strings"
	"sync"
	"time"

	"github.com/evanw/esbuild/pkg/api"
	"github.com/evanw/esbuild/verifharness/gen"
)

// kernel "ctxlock": scripted interleavings of Rebuild / Cancel / Dispose / Watch / Serve on one REAL build context.
// A plugin logs the start (on-start callback) and the end (on-end callback, with "was the build canceled") of every
// build and HOLDS every build inside its load callback until the script hands out a token, so that calls can be made
// while a build is running. Every call is logged before it is made and after it returned (with what it returned: the
// build whose result a Rebuild got, ok / err for Watch and Serve). The log (one global order) is the operation; the
// Lean driver decides whether it is a trace of the lock-level model (Impl/CtxLock*.lean). A call that has not
// returned 8 s after all builds were released is reported as DEADLOCK (expected line), which the model never accepts.

type clLog struct {
	mu     sync.Mutex
	events []string
	calls  int
}

func (l *clLog) add(e string) {
	l.mu.Lock()
	l.events = append(l.events, e)
	l.mu.Unlock()
}

func (l *clLog) call(m byte) int {
	l.mu.Lock()
	id := l.calls
	l.calls++
	l.events = append(l.events, fmt.Sprintf("c%d:%c", id, m))
	l.mu.Unlock()
	return id
}

func runCtxLockCase(r *gen.Rand, dir string, e *emitter) (string, string, bool) {
	os.RemoveAll(dir)
	os.MkdirAll(dir, 0755)
	entry := filepath.Join(dir, "entry.js")
	os.WriteFile(entry, []byte("console.log(0);\n"), 0644)
	log := &clLog{}
	var bmu sync.Mutex
	nbuilds := 0
	gate := make(chan struct{}, 64)
	ctx, err := api.Context(api.BuildOptions{AbsWorkingDir: dir, EntryPoints: []string{entry}, Bundle: true, Write: false, LogLevel: api.LogLevelSilent,
		Plugins: []api.Plugin{{Name: "hold", Setup: func(b api.PluginBuild) {
			b.OnStart(func() (api.OnStartResult, error) {
				bmu.Lock()
				log.add(fmt.Sprintf("s%d", nbuilds))
				nbuilds++
				bmu.Unlock()
				return api.OnStartResult{}, nil
			})
			b.OnLoad(api.OnLoadOptions{Filter: `entry\.js$`}, func(a api.OnLoadArgs) (api.OnLoadResult, error) {
				<-gate
				return api.OnLoadResult{}, nil
			})
			b.OnEnd(func(res *api.BuildResult) (api.OnEndResult, error) {
				bmu.Lock()
				k := nbuilds - 1
				bmu.Unlock()
				c := 0
				for _, m := range res.Errors {
					if strings.Contains(m.Text, "The build was canceled") {
						c = 1
					}
				}
				log.add(fmt.Sprintf("e%d:%d", k, c))
				return api.OnEndResult{Warnings: []api.Message{{Text: fmt.Sprintf("build#%d", k)}}}, nil
			})
		}}}})
	if err != nil {
		return "", "", false
	}
	var wg sync.WaitGroup
	doCall := func(m byte) {
		wg.Add(1)
		id := log.call(m)
		go func() {
			defer wg.Done()
			v := "-"
			switch m {
			case 'R':
				res := ctx.Rebuild()
				v = "e"
				for _, w := range res.Warnings {
					if strings.HasPrefix(w.Text, "build#") {
						v = "b" + strings.TrimPrefix(w.Text, "build#")
					}
				}
			case 'C':
				ctx.Cancel()
			case 'D':
				ctx.Dispose()
			case 'W':
				if ctx.Watch(api.WatchOptions{}) == nil {
					v = "ok"
				} else {
					v = "err"
				}
			case 'S':
				if _, err := ctx.Serve(api.ServeOptions{Host: "127.0.0.1", Port: 0}); err == nil {
					v = "ok"
				} else {
					v = "err"
				}
			}
			log.add(fmt.Sprintf("r%d:%s", id, v))
		}()
	}
	// ---- the script
	n := 3 + r.Intn(7)
	withWatch := r.Chance(1, 3)
	withServe := r.Chance(1, 10)
	if withWatch && n > 6 {
		n = 6 // the watcher's own threads multiply the schedules the model driver has to search
	}
	edits := 0
	if withWatch && r.Chance(1, 2) {
		// a WATCHER-started rebuild that is held in its load callback while the script goes on: Watch, let the initial
		// build pass, edit the entry file, give the polling loop (100 ms interval) time to find it
		doCall('W')
		e.stat("call:W")
		gate <- struct{}{}
		time.Sleep(time.Duration(30+r.Intn(30)) * time.Millisecond)
		edits++
		os.WriteFile(entry, []byte(fmt.Sprintf("console.log(%d);\n", edits)), 0644)
		time.Sleep(time.Duration(130+r.Intn(150)) * time.Millisecond)
		e.stat("script:watch-edit-prefix")
	}
	for i := 0; i < n; i++ {
		switch k := r.Intn(20); {
		case k < 6:
			doCall('R')
			e.stat("call:R")
		case k < 9:
			doCall('C')
			e.stat("call:C")
		case k < 10:
			doCall('D')
			e.stat("call:D")
		case k < 12 && withWatch:
			doCall('W')
			e.stat("call:W")
		case k < 13 && withServe:
			doCall('S')
			e.stat("call:S")
		case k < 16:
			select {
			case gate <- struct{}{}:
				e.stat("script:release-one-build")
			default:
			}
		case k < 17 && withWatch:
			edits++
			os.WriteFile(entry, []byte(fmt.Sprintf("console.log(%d);\n", edits)), 0644)
			time.Sleep(time.Duration(100+r.Intn(150)) * time.Millisecond)
			e.stat("script:edit")
		default:
			time.Sleep(time.Duration(r.Intn(3000)) * time.Microsecond)
			e.stat("script:pause")
		}
		if r.Chance(1, 2) {
			time.Sleep(time.Duration(r.Intn(800)) * time.Microsecond)
		}
	}
	if r.Chance(1, 2) {
		doCall('D')
		e.stat("call:D")
	}
	close(gate) // every held build continues
	done := make(chan struct{})
	go func() { wg.Wait(); close(done) }()
	deadlock := false
	select {
	case <-done:
	case <-time.After(8 * time.Second):
		deadlock = true
	}
	if !deadlock {
		// final clean-up, part of the history
		doCall('D')
		done2 := make(chan struct{})
		go func() { wg.Wait(); close(done2) }()
		select {
		case <-done2:
		case <-time.After(8 * time.Second):
			deadlock = true
		}
	}
	log.mu.Lock()
	evs := append([]string{}, log.events...)
	log.mu.Unlock()
	bmu.Lock()
	nb := nbuilds
	if nb > 4 {
		nb = 4
	}
	e.stat("builds=" + strconv.Itoa(nb))
	bmu.Unlock()
	op := "ctxlock\t" + strings.Join(evs, ",")
	if deadlock {
		e.stat("DEADLOCK")
		return op, "DEADLOCK: a call did not return within 8 s after every held build was released", true
	}
	joined, cancelled := false, false
	seen := map[string]bool{}
	for _, ev := range evs {
		if strings.HasPrefix(ev, "r") && strings.Contains(ev, ":b") {
			v := ev[strings.Index(ev, ":")+1:]
			if seen[v] {
				joined = true
			}
			seen[v] = true
		}
		if strings.HasPrefix(ev, "e") && strings.HasSuffix(ev, ":1") {
			cancelled = true
		}
	}
	if joined {
		e.stat("history:joined-rebuild")
	}
	if cancelled {
		e.stat("history:cancelled-build")
	}
	return op, "ok", true
}

func init() {
	kernels["ctxlock"] = func(r *gen.Rand, e *emitter, tier string) {
		root, err := os.MkdirTemp("", "verif-ctxlock-")
		if err != nil {
			panic(err)
		}
		defer os.RemoveAll(root)
		for !e.full() {
			op, exp, ok := runCtxLockCase(r, filepath.Join(root, "p"), e)
			if !ok {
				e.stat("context-error")
				continue
			}
			e.emit(op, exp)
			if strings.HasPrefix(exp, "DEADLOCK") {
				break // stuck goroutines stay; further cases in this process are not meaningful
			}
		}
	}
}
