package main

import (
	"fmt"
	"os"
	"path/filepath"
	"sort"
	"strings"

	"github.com/evanw/esbuild/verifharness/gen"
)

// realpath kernel: directory information and real paths of the resolver on REAL temporary directory trees
// with symbolic links (os.Symlink). One case = one tree (generated from the one PRNG, read back from the disk
// in the order the OS lists it) + a few operations:
//
//	eval / evalraw   realFS.EvalSymlinks (esbuild's fork of filepath.EvalSymlinks)   [cross-checked with Go's own]
//	kind             ReadDirectory(dir).Get(base) → Entry.Symlink / Entry.Kind        (realFS.kind, kindOfPath)
//	session          ONE resolver (one dirCache), a sequence of d: dirInfoCached  f: finalizeResolve
//	                 r: / b: Resolve of a relative / package import that names a file exactly
//
// The Lean side (Impl/RealPath.lean) gets the tree with ABSOLUTE paths (the chain of directories above the
// case directory is part of the tree), so ".." that climbs out of the case directory means the same in both.

type rpCase struct {
	root  string // real absolute path of the case directory
	names int
	clash bool // two siblings differ only by case
	abs   bool // some link target is absolute
}

var rpDirPool = []string{"src", "lib", "store", "shared", "node_modules", "p0", "p1", "dep", "a", "b", "util"}

func rpExists(p string) bool { _, err := os.Lstat(p); return err == nil }

// every pathname below root that the OS can reach (links followed), breadth first, bounded
func rpEnumerate(root string, maxDepth, maxCount int) (dirs, files, broken []string) {
	type item struct {
		p string
		d int
	}
	queue := []item{{root, 0}}
	dirs = append(dirs, root)
	for len(queue) > 0 && len(dirs)+len(files)+len(broken) < maxCount {
		it := queue[0]
		queue = queue[1:]
		ents, err := os.ReadDir(it.p)
		if err != nil {
			continue
		}
		names := []string{}
		for _, en := range ents {
			names = append(names, en.Name())
		}
		sort.Strings(names)
		for _, n := range names {
			p := filepath.Join(it.p, n)
			st, err := os.Stat(p)
			switch {
			case err != nil:
				broken = append(broken, p)
			case st.IsDir():
				dirs = append(dirs, p)
				if it.d+1 < maxDepth {
					queue = append(queue, item{p, it.d + 1})
				}
			default:
				files = append(files, p)
			}
		}
	}
	return
}

// the real directories (positions) of the tree, no link followed
func rpRealDirs(root string) []string {
	out := []string{}
	var walk func(p string)
	walk = func(p string) {
		out = append(out, p)
		ents, _ := os.ReadDir(p)
		names := []string{}
		for _, en := range ents {
			if en.Type()&os.ModeSymlink == 0 && en.IsDir() {
				names = append(names, en.Name())
			}
		}
		sort.Strings(names)
		for _, n := range names {
			walk(filepath.Join(p, n))
		}
	}
	walk(root)
	return out
}

func rpNoise(r *gen.Rand, e *emitter, t string, fromDir string) string {
	for k := 0; k < 2; k++ {
		switch r.Intn(9) {
		case 0:
			if !strings.HasPrefix(t, "/") {
				t = "./" + t
				e.stat("target:dot-slash")
			}
		case 1:
			if i := strings.Index(t, "/"); i > 0 {
				t = t[:i] + "/" + t[i:]
				e.stat("target:double-slash")
			}
		case 2:
			if !strings.HasSuffix(t, "/") {
				t += "/"
				e.stat("target:trailing-slash")
			}
		case 3: // "<name>/../" in front of a relative target: name may be a directory, a link, a file or missing
			if !strings.HasPrefix(t, "/") {
				ents, _ := os.ReadDir(fromDir)
				n := "nothing"
				if len(ents) > 0 && r.Chance(5, 6) {
					n = ents[r.Intn(len(ents))].Name()
				}
				t = n + "/../" + t
				e.stat("target:name-dotdot")
			}
		}
	}
	return t
}

// build one tree on the disk
func rpBuild(r *gen.Rand, e *emitter, c *rpCase) {
	root := c.root
	os.MkdirAll(root, 0755)
	fresh := func(dir string, pool []string) string {
		for try := 0; try < 8; try++ {
			n := pool[r.Intn(len(pool))]
			if !rpExists(filepath.Join(dir, n)) {
				return n
			}
		}
		c.names++
		return fmt.Sprintf("n%d", c.names)
	}
	// directories
	nd := 3 + r.Intn(6)
	for i := 0; i < nd; i++ {
		ds := rpRealDirs(root)
		parent := ds[r.Intn(len(ds))]
		if strings.Count(strings.TrimPrefix(parent, root), "/") >= 4 {
			parent = root
		}
		os.Mkdir(filepath.Join(parent, fresh(parent, rpDirPool)), 0755)
	}
	// files
	nf := 3 + r.Intn(6)
	for i := 0; i < nf; i++ {
		ds := rpRealDirs(root)
		parent := ds[r.Intn(len(ds))]
		os.WriteFile(filepath.Join(parent, fmt.Sprintf("f%d.js", r.Intn(3))), []byte("module.exports = 1;\n"), 0644)
	}
	// links, one at a time, each seeing what is already there (so links to links and through links arise)
	nl := 2 + r.Intn(7)
	for i := 0; i < nl; i++ {
		ds := rpRealDirs(root)
		parent := ds[r.Intn(len(ds))]
		pool := rpDirPool
		if r.Chance(1, 3) {
			pool = []string{"f0.js", "f1.js", "f2.js", "l0", "l1", "l2"}
		}
		name := fresh(parent, pool)
		var dest string // a pathname (possibly through links)
		dirs, files, broken := rpEnumerate(root, 4, 120)
		switch k := r.Intn(12); {
		case k < 5:
			dest = dirs[r.Intn(len(dirs))]
			e.stat("link:to-dir-pathname")
		case k < 8 && len(files) > 0:
			dest = files[r.Intn(len(files))]
			e.stat("link:to-file-pathname")
		case k < 9 && len(broken) > 0:
			dest = broken[r.Intn(len(broken))]
			e.stat("link:to-broken-link")
		case k < 10:
			dest = filepath.Join(dirs[r.Intn(len(dirs))], "missing")
			e.stat("link:dangling")
		case k < 11: // a cycle of two, or a link to itself
			if r.Bool() {
				other := fresh(parent, []string{"la", "lb", "lc"})
				os.Symlink(name, filepath.Join(parent, other))
				dest = filepath.Join(parent, other)
				e.stat("link:cycle-2")
			} else {
				dest = filepath.Join(parent, name)
				e.stat("link:cycle-1")
			}
		default: // an ancestor: the tree becomes infinitely deep as pathnames
			dest = filepath.Dir(parent)
			if !strings.HasPrefix(dest, root) {
				dest = root
			}
			e.stat("link:to-ancestor")
		}
		var target string
		if r.Chance(1, 4) {
			target = dest
			c.abs = true
			e.stat("target:absolute")
		} else {
			target, _ = filepath.Rel(parent, dest) // lexical: through a link it may mean something else, which is fine
			e.stat("target:relative")
			if strings.HasPrefix(target, "..") {
				e.stat("target:relative-dotdot")
			}
		}
		target = rpNoise(r, e, target, parent)
		if strings.HasPrefix(target, "/") {
			c.abs = true
		}
		os.Symlink(target, filepath.Join(parent, name))
	}
	// siblings that differ only by case
	if r.Chance(1, 8) {
		ds := rpRealDirs(root)
		parent := ds[r.Intn(len(ds))]
		ents, _ := os.ReadDir(parent)
		if len(ents) > 0 {
			n := ents[r.Intn(len(ents))].Name()
			up := strings.ToUpper(n[:1]) + n[1:]
			if up != n && !rpExists(filepath.Join(parent, up)) {
				switch r.Intn(3) {
				case 0:
					os.Mkdir(filepath.Join(parent, up), 0755)
					os.WriteFile(filepath.Join(parent, up, "f0.js"), []byte("module.exports = 2;\n"), 0644)
				case 1:
					os.WriteFile(filepath.Join(parent, up), []byte("module.exports = 2;\n"), 0644)
				default:
					dirs, _, _ := rpEnumerate(root, 3, 60)
					t, _ := filepath.Rel(parent, dirs[r.Intn(len(dirs))])
					os.Symlink(t, filepath.Join(parent, up))
				}
				c.clash = true
				e.stat("tree:case-clash")
			}
		}
	}
}
