package main

import (
	"fmt"
	"math"
	"strconv"
	"strings"

	"github.com/evanw/esbuild/internal/ast"
	"github.com/evanw/esbuild/internal/config"
	"github.com/evanw/esbuild/internal/js_ast"
	"github.com/evanw/esbuild/internal/js_parser"
	"github.com/evanw/esbuild/internal/logger"
	"github.com/evanw/esbuild/verifharness/gen"
)

type stmtSexper struct {
	nameOf func(ast.Ref) string
	src    string
}

// nameAt reads the identifier at a source offset (declared names and labels are bound symbols after the parse pass,
// not stored names, so nameOf cannot resolve them)
func (p stmtSexper) nameAt(loc logger.Loc) string {
	i := int(loc.Start)
	j := i
	for j < len(p.src) && (p.src[j] == '_' || p.src[j] == '$' || (p.src[j] >= '0' && p.src[j] <= '9') ||
		(p.src[j] >= 'a' && p.src[j] <= 'z') || (p.src[j] >= 'A' && p.src[j] <= 'Z')) {
		j++
	}
	return p.name(p.src[i:j])
}

func (p stmtSexper) name(s string) string {
	switch s {
	case "let":
		return "0"
	case "async":
		return "1"
	}
	if len(s) > 1 && s[0] == 'x' {
		if n, err := strconv.Atoi(s[1:]); err == nil {
			return strconv.Itoa(n)
		}
	}
	panic(precOutside{"name " + s})
}

func (p stmtSexper) expr(e js_ast.Expr) string {
	rec := p.expr
	switch x := e.Data.(type) {
	case *js_ast.EIdentifier:
		return "i" + p.name(p.nameOf(x.Ref))
	case *js_ast.EObject:
		if len(x.Properties) == 0 {
			return "i2"
		}
	case *js_ast.EFunction:
		if len(x.Fn.Args) == 0 && len(x.Fn.Body.Block.Stmts) == 0 && x.Fn.Name == nil && !x.Fn.IsGenerator {
			if x.Fn.IsAsync {
				return "i5"
			}
			return "i3"
		}
	case *js_ast.EClass:
		if len(x.Class.Properties) == 0 && x.Class.Name == nil && x.Class.ExtendsOrNil.Data == nil {
			return "i4"
		}
	case *js_ast.ENumber:
		v := x.Value
		if v != math.Trunc(v) || math.IsInf(v, 0) || math.Abs(v) > 1e15 {
			panic(precOutside{"number"})
		}
		if math.Signbit(v) {
			return fmt.Sprintf("(u UnOpNeg n%d)", int64(-v))
		}
		return fmt.Sprintf("n%d", int64(v))
	case *js_ast.EUnary:
		return "(u " + precOpNames[x.Op] + " " + rec(x.Value) + ")"
	case *js_ast.EBinary:
		return "(b " + precOpNames[x.Op] + " " + rec(x.Left) + " " + rec(x.Right) + ")"
	case *js_ast.EIf:
		return "(c " + rec(x.Test) + " " + rec(x.Yes) + " " + rec(x.No) + ")"
	case *js_ast.EDot:
		if x.OptionalChain == js_ast.OptionalChainNone {
			return "(d " + rec(x.Target) + " " + p.name(x.Name) + ")"
		}
	case *js_ast.EIndex:
		if x.OptionalChain == js_ast.OptionalChainNone {
			return "(x " + rec(x.Target) + " " + rec(x.Index) + ")"
		}
	case *js_ast.ECall:
		if x.OptionalChain == js_ast.OptionalChainNone {
			s := "(k " + rec(x.Target)
			for _, a := range x.Args {
				s += " " + rec(a)
			}
			return s + ")"
		}
	case *js_ast.ENew:
		s := "(w " + rec(x.Target)
		for _, a := range x.Args {
			s += " " + rec(a)
		}
		return s + ")"
	}
	panic(precOutside{fmt.Sprintf("%T", e.Data)})
}

func (p stmtSexper) kind(k js_ast.LocalKind) string {
	switch k {
	case js_ast.LocalVar:
		return "v"
	case js_ast.LocalLet:
		return "l"
	case js_ast.LocalConst:
		return "c"
	}
	panic(precOutside{"local kind"})
}

func (p stmtSexper) bind(b js_ast.Binding) string {
	if _, ok := b.Data.(*js_ast.BIdentifier); ok {
		return p.nameAt(b.Loc)
	}
	panic(precOutside{"binding"})
}

func (p stmtSexper) local(s *js_ast.SLocal) string {
	out := "(V " + p.kind(s.Kind)
	for _, d := range s.Decls {
		if d.ValueOrNil.Data == nil {
			out += " (" + p.bind(d.Binding) + ")"
		} else {
			out += " (" + p.bind(d.Binding) + " " + p.expr(d.ValueOrNil) + ")"
		}
	}
	return out + ")"
}

func (p stmtSexper) opt(e js_ast.Expr) string {
	if e.Data == nil {
		return "-"
	}
	return p.expr(e)
}

func (p stmtSexper) forHead(init js_ast.Stmt) string {
	switch i := init.Data.(type) {
	case *js_ast.SExpr:
		return "(E " + p.expr(i.Value) + ")"
	case *js_ast.SLocal:
		if len(i.Decls) == 1 && i.Decls[0].ValueOrNil.Data == nil {
			return "(V " + p.kind(i.Kind) + " " + p.bind(i.Decls[0].Binding) + ")"
		}
	}
	panic(precOutside{"for head"})
}

func (p stmtSexper) list(ss []js_ast.Stmt) string {
	out := ""
	for _, s := range ss {
		out += " " + p.stmt(s)
	}
	return out
}

func (p stmtSexper) stmt(st js_ast.Stmt) string {
	switch s := st.Data.(type) {
	case *js_ast.SExpr:
		return "(E " + p.expr(s.Value) + ")"
	case *js_ast.SEmpty:
		return "Z"
	case *js_ast.SBlock:
		return "(B" + p.list(s.Stmts) + ")"
	case *js_ast.SIf:
		if s.NoOrNil.Data == nil {
			return "(I " + p.expr(s.Test) + " " + p.stmt(s.Yes) + ")"
		}
		return "(J " + p.expr(s.Test) + " " + p.stmt(s.Yes) + " " + p.stmt(s.NoOrNil) + ")"
	case *js_ast.SFor:
		i := "N"
		switch x := s.InitOrNil.Data.(type) {
		case *js_ast.SExpr:
			i = "(E " + p.expr(x.Value) + ")"
		case *js_ast.SLocal:
			i = p.local(x)
		}
		return "(L (F " + i + " " + p.opt(s.TestOrNil) + " " + p.opt(s.UpdateOrNil) + ") " + p.stmt(s.Body) + ")"
	case *js_ast.SForIn:
		return "(L (G " + p.forHead(s.Init) + " " + p.expr(s.Value) + ") " + p.stmt(s.Body) + ")"
	case *js_ast.SForOf:
		aw := "0"
		if s.Await.Len > 0 {
			aw = "1"
		}
		return "(L (O " + aw + " " + p.forHead(s.Init) + " " + p.expr(s.Value) + ") " + p.stmt(s.Body) + ")"
	case *js_ast.SWhile:
		return "(L (W " + p.expr(s.Test) + ") " + p.stmt(s.Body) + ")"
	case *js_ast.SDoWhile:
		return "(D " + p.stmt(s.Body) + " " + p.expr(s.Test) + ")"
	case *js_ast.SLabel:
		return "(A " + p.nameAt(s.Name.Loc) + " " + p.stmt(s.Stmt) + ")"
	case *js_ast.SReturn:
		if s.ValueOrNil.Data == nil {
			return "R0"
		}
		return "(R " + p.expr(s.ValueOrNil) + ")"
	case *js_ast.SThrow:
		return "(T " + p.expr(s.Value) + ")"
	case *js_ast.SBreak:
		if s.Label == nil {
			return "K0"
		}
		return "(K " + p.nameAt(s.Label.Loc) + ")"
	case *js_ast.SContinue:
		if s.Label == nil {
			return "C0"
		}
		return "(C " + p.nameAt(s.Label.Loc) + ")"
	case *js_ast.SLocal:
		if !s.IsExport {
			return p.local(s)
		}
	case *js_ast.SExportDefault:
		if x, ok := s.Value.Data.(*js_ast.SExpr); ok {
			return "(X " + p.expr(x.Value) + ")"
		}
	}
	panic(precOutside{fmt.Sprintf("%T", st.Data)})
}

// stmtRealParse parses text with the real parser (first pass only for the tree) and renders the statements
func stmtRealParse(text string) (result string, firstError string) {
	source := logger.Source{Contents: text, KeyPath: logger.Path{Text: "/x.js", Namespace: "file"},
		PrettyPaths: logger.PrettyPaths{Abs: "/x.js", Rel: "x.js"}}
	opts := js_parser.OptionsFromConfig(&config.Options{})
	firstErr := func(log logger.Log) string {
		for _, m := range log.Done() {
			if m.Kind == logger.Error {
				return m.Data.Text
			}
		}
		return "?"
	}
	log := logger.NewDeferLog(logger.DeferLogAll, nil)
	if _, ok := js_parser.Parse(log, source, opts); !ok || log.HasErrors() {
		return "reject", firstErr(log)
	}
	log = logger.NewDeferLog(logger.DeferLogAll, nil)
	stmts, nameOf, ok := js_parser.VerifParseNoVisit(log, source, opts)
	if !ok || log.HasErrors() {
		return "reject", firstErr(log)
	}
	return "(P" + stmtSexper{nameOf, text}.list(stmts) + ")", ""
}

func init() {
	kernels["stmtprint"] = func(r *gen.Rand, e *emitter, tier string) {
		for !e.full() {
			g := &stmtGen{r: r, pg: &precGen{r: r}, next: 100}
			g.module = r.Chance(1, 4)
			g.wild = r.Chance(1, 6)
			depth := 1 + r.Intn(4)
			ss := g.list(depth, sctx{top: true, list: true}, 4)
			for len(ss) == 0 {
				ss = g.list(depth, sctx{top: true, list: true}, 4)
			}
			for _, s := range ss {
				s.stats(e)
			}
			var sb strings.Builder
			wireList(&sb, ss)
			wire := strings.TrimSpace(sb.String())
			minify := r.Chance(1, 2)
			mn := "0"
			if minify {
				mn = "1"
				e.stat("minify-whitespace")
			}
			text, pieces, ok := stmtRealPrint(ss, minify)
			e.emit("stmtprint\tprint\t"+mn+"\t"+wire, pieces)
			if !ok {
				e.stat("LEX-ERROR")
				continue
			}
			if g.wild {
				e.stat("wild-print-only")
				continue
			}
			want := "(P" + sexpList(ss) + ")"
			var back, firstErr string
			skipped := ""
			func() {
				defer func() {
					if p := recover(); p != nil {
						if o, ok := p.(precOutside); ok {
							skipped = o.what
							return
						}
						panic(p)
					}
				}()
				back, firstErr = stmtRealParse(text)
			}()
			switch {
			case skipped != "":
				e.stat("REPARSE-OUTSIDE-FRAGMENT " + skipped)
				e.emit("stmtprint\treparse-outside\t"+strconv.Quote(text), skipped)
			case back == "reject" && g.module:
				// strict-mode restrictions of modules (delete of an identifier, …) that the grammar model does not have
				e.stat("round-skip-module-strict-reject")
			case back == "reject":
				e.stat("REAL-PARSER-REJECTS-PRINTED-TEXT")
				e.emit("stmtprint\treal-reject\t"+strconv.Quote(text), firstErr)
			default:
				if back != want {
					// the real printer's text does not read back as the tree that was printed
					e.stat("REAL-ROUNDTRIP-FAILED")
					e.emit("stmtprint\treal-roundtrip-failed\t"+strconv.Quote(text), want+" => "+back)
				} else {
					e.stat("round-real-same-tree")
				}
				e.emit("stmtprint\tround\t"+mn+"\t"+wire, back)
			}
		}
	}
}
