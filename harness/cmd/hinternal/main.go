// hinternal: correspondence harness on /repo's internal packages (built with -tags verif).
//
//	hinternal <kernel> <seed> <count> <ops-file> <expected-file> [stats-file]
//
// For the given kernel it generates <count> operations from one PRNG, runs the REAL esbuild
// routine on each, and writes the operation lines (input of lean/modeldriver) and the canonical
// result lines. The check script pipes the ops to the model and diffs the two streams.
package main

import (
	"bufio"
	"encoding/json"
	"fmt"
	"os"
	"sort"
	"strconv"

	"github.com/evanw/esbuild/verifharness/gen"
)

type emitter struct {
	ops, exp *bufio.Writer
	wit      *bufio.Writer // optional third stream: one JSON line per operation ("" = none), see emitW
	n        int
	witN     int
	stats    map[string]int
	limit    int
}

func (e *emitter) emit(op string, expected string) {
	e.ops.WriteString(op)
	e.ops.WriteByte('\n')
	e.exp.WriteString(expected)
	e.exp.WriteByte('\n')
	e.n++
}

// emitW is emit plus an END-TO-END WITNESS for the operation: a case of one of the hapi searches
// ({"search": name, "case": {...}}) on which the PROPERTY ITSELF fails if the real routine is wrong on
// this operation. When the correspondence disagrees on the operation the check replays its witness; if
// the replay violates the property the violation is reported with that concrete input.
func (e *emitter) emitW(op string, expected string, search string, witnessCase interface{}) {
	if e.wit != nil {
		for e.witN < e.n {
			e.wit.WriteByte('\n')
			e.witN++
		}
		js, _ := json.Marshal(map[string]interface{}{"search": search, "case": witnessCase})
		e.wit.Write(js)
		e.wit.WriteByte('\n')
		e.witN++
	}
	e.emit(op, expected)
}

func (e *emitter) stat(key string) { e.stats[key]++ }
func (e *emitter) full() bool      { return e.n >= e.limit }

type kernelFn func(r *gen.Rand, e *emitter, tier string)

var kernels = map[string]kernelFn{}

// guard runs f and converts a Go panic into the string "PANIC" (models print PANIC too)
func guard(f func() string) (out string) {
	defer func() {
		if r := recover(); r != nil {
			out = "PANIC"
		}
	}()
	return f()
}

func main() {
	if len(os.Args) < 6 {
		names := []string{}
		for k := range kernels {
			names = append(names, k)
		}
		sort.Strings(names)
		fmt.Fprintln(os.Stderr, "usage: hinternal <kernel> <seed> <count> <ops> <expected> [stats [witnesses]]; kernels:", names)
		os.Exit(2)
	}
	k, ok := kernels[os.Args[1]]
	if !ok {
		fmt.Fprintln(os.Stderr, "unknown kernel", os.Args[1])
		os.Exit(2)
	}
	seed, _ := strconv.ParseUint(os.Args[2], 10, 64)
	count, _ := strconv.Atoi(os.Args[3])
	fo, err := os.Create(os.Args[4])
	if err != nil {
		panic(err)
	}
	fe, err := os.Create(os.Args[5])
	if err != nil {
		panic(err)
	}
	tier := os.Getenv("VERIF_TIER")
	e := &emitter{ops: bufio.NewWriterSize(fo, 1<<20), exp: bufio.NewWriterSize(fe, 1<<20), stats: map[string]int{}, limit: count}
	var fw *os.File
	if len(os.Args) > 7 {
		if fw, err = os.Create(os.Args[7]); err == nil {
			e.wit = bufio.NewWriterSize(fw, 1<<20)
		}
	}
	k(gen.New(seed), e, tier)
	e.ops.Flush()
	e.exp.Flush()
	if e.wit != nil {
		e.wit.Flush()
		fw.Close()
	}
	fo.Close()
	fe.Close()
	e.stats["_cases"] = e.n
	if len(os.Args) > 6 {
		js, _ := json.Marshal(e.stats)
		os.WriteFile(os.Args[6], js, 0644)
	}
}
