package main

import (
	"fmt"
	"strings"

	"github.com/evanw/esbuild/internal/compat"
	"github.com/evanw/esbuild/internal/js_printer"
	"github.com/evanw/esbuild/verifharness/gen"
)

// boundary alphabet of UTF-16 units for string literal bodies
var quoteUnits = []uint16{0, 7, 8, 9, 10, 11, 12, 13, 27, 32, '"', '$', '\'', '/', '0', '1', '9', '<', '>', 'A', 'S', 's', 'c', 'r', 'i', 'p', 't', 'T', '\\', '`', '{', '}', 0x7e, 0x7f, 0x80, 0xe9, 0xff, 0x100,
	0x2028, 0x2029, 0xd7ff, 0xd800, 0xd83d, 0xdbff, 0xdc00, 0xde00, 0xdfff, 0xe000, 0xfeff, 0xfffe, 0xffff}

func genUnits(r *gen.Rand, n int) []uint16 {
	u := make([]uint16, 0, n)
	for len(u) < n {
		switch r.Intn(12) {
		case 0:
			u = append(u, uint16(r.Intn(65536)))
		case 1:
			u = append(u, '<', '/')
			for _, ch := range "script" {
				if r.Bool() {
					ch -= 32
				}
				u = append(u, uint16(ch))
			}
		case 2:
			u = append(u, 0xd800+uint16(r.Intn(1024)), 0xdc00+uint16(r.Intn(1024)))
		case 3:
			u = append(u, '$', '{')
		case 4:
			u = append(u, 0, uint16('0'+r.Intn(10)))
		default:
			u = append(u, quoteUnits[r.Intn(len(quoteUnits))])
		}
	}
	return u
}

func init() {
	kernels["quote"] = func(r *gen.Rand, e *emitter, tier string) {
		for !e.full() {
			n := r.Intn(12)
			if r.Chance(1, 10) {
				n = 20 + r.Intn(60)
			}
			text := genUnits(r, n)
			flags := r.Intn(16)
			quote := []rune{'"', '\'', '`'}[r.Intn(3)]
			lineLimit := []int{0, 0, 1, 5, 10, 40}[r.Intn(6)]
			cur := r.Intn(50)
			var unsupported compat.JSFeature
			if flags/2%2 == 1 {
				unsupported |= compat.UnicodeEscapes
			}
			if flags/4%2 == 1 {
				unsupported |= compat.InlineScript
			}
			e.stat(fmt.Sprintf("quote-%c", quote))
			if lineLimit > 0 {
				e.stat("line-limit")
			}
			// end-to-end witness: the same string written with \u escapes, printed by esbuild under the same
			// charset / line limit, must have the same value when Node evaluates the output
			var lit strings.Builder
			for _, c := range text {
				fmt.Fprintf(&lit, "\\u%04x", c)
			}
			q := "\""
			if quote == '`' {
				q = "`"
			}
			opt := []string{"utf8", "ascii"}[flags%2]
			if lineLimit > 0 {
				opt += fmt.Sprintf(",ll%d", lineLimit)
			}
			if flags/4%2 == 1 {
				opt += ",platform=node"
			}
			src := "\"use strict\";\nconst s1 = " + q + lit.String() + q + ";\np(1, s1.length, Array.from(s1, (c) => c.charCodeAt(0)).join());\n"
			e.emitW(fmt.Sprintf("quote\tunquoted\t%d\t%d\t%d\t%d\t%s", flags, quote, lineLimit, cur, hexU16(text)), guard(func() string {
				return hexBytes(js_printer.VerifPrintUnquotedUTF16(text, quote, flags%2 == 1, unsupported, lineLimit, flags/8%2 == 1, cur))
			}), "c01-prog", map[string]string{"source": src, "opt_name": opt})
		}
	}
}
