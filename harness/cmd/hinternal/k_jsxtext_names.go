package main

// names of js_lexer.jsxEntity (tables.go), for the generator of kernel jsxtext
var jsxtextEntityNames = []string{
	"quot", "amp", "apos", "lt", "gt", "nbsp", "iexcl", "cent", "pound", "curren", "yen", "brvbar", "sect",
	"uml", "copy", "ordf", "laquo", "not", "shy", "reg", "macr", "deg", "plusmn", "sup2", "sup3", "acute",
	"micro", "para", "middot", "cedil", "sup1", "ordm", "raquo", "frac14", "frac12", "frac34", "iquest",
	"Agrave", "Aacute", "Acirc", "Atilde", "Auml", "Aring", "AElig", "Ccedil", "Egrave", "Eacute", "Ecirc",
	"Euml", "Igrave", "Iacute", "Icirc", "Iuml", "ETH", "Ntilde", "Ograve", "Oacute", "Ocirc", "Otilde", "Ouml",
	"times", "Oslash", "Ugrave", "Uacute", "Ucirc", "Uuml", "Yacute", "THORN", "szlig", "agrave", "aacute",
	"acirc", "atilde", "auml", "aring", "aelig", "ccedil", "egrave", "eacute", "ecirc", "euml", "igrave",
	"iacute", "icirc", "iuml", "eth", "ntilde", "ograve", "oacute", "ocirc", "otilde", "ouml", "divide",
	"oslash", "ugrave", "uacute", "ucirc", "uuml", "yacute", "thorn", "yuml", "OElig", "oelig", "Scaron",
	"scaron", "Yuml", "fnof", "circ", "tilde", "Alpha", "Beta", "Gamma", "Delta", "Epsilon", "Zeta", "Eta",
	"Theta", "Iota", "Kappa", "Lambda", "Mu", "Nu", "Xi", "Omicron", "Pi", "Rho", "Sigma", "Tau", "Upsilon",
	"Phi", "Chi", "Psi", "Omega", "alpha", "beta", "gamma", "delta", "epsilon", "zeta", "eta", "theta", "iota",
	"kappa", "lambda", "mu", "nu", "xi", "omicron", "pi", "rho", "sigmaf", "sigma", "tau", "upsilon", "phi",
	"chi", "psi", "omega", "thetasym", "upsih", "piv", "ensp", "emsp", "thinsp", "zwnj", "zwj", "lrm", "rlm",
	"ndash", "mdash", "lsquo", "rsquo", "sbquo", "ldquo", "rdquo", "bdquo", "dagger", "Dagger", "bull",
	"hellip", "permil", "prime", "Prime", "lsaquo", "rsaquo", "oline", "frasl", "euro", "image", "weierp",
	"real", "trade", "alefsym", "larr", "uarr", "rarr", "darr", "harr", "crarr", "lArr", "uArr", "rArr", "dArr",
	"hArr", "forall", "part", "exist", "empty", "nabla", "isin", "notin", "ni", "prod", "sum", "minus",
	"lowast", "radic", "prop", "infin", "ang", "and", "or", "cap", "cup", "int", "there4", "sim", "cong",
	"asymp", "ne", "equiv", "le", "ge", "sub", "sup", "nsub", "sube", "supe", "oplus", "otimes", "perp", "sdot",
	"lceil", "rceil", "lfloor", "rfloor", "lang", "rang", "loz", "spades", "clubs", "hearts", "diams",
}
