package main

import (
	"fmt"
	"regexp"
	"strconv"
	"strings"

	"github.com/evanw/esbuild/internal/ast"
	"github.com/evanw/esbuild/internal/config"
	"github.com/evanw/esbuild/internal/helpers"
	"github.com/evanw/esbuild/internal/js_ast"
	"github.com/evanw/esbuild/internal/js_parser"
	"github.com/evanw/esbuild/internal/logger"
)

// tcRecog turns the JavaScript text esbuild printed back into the wire form of Impl/TsClassWire.lean.  The text is
// parsed with the first pass of esbuild's parser only (no binding, no lowering); identifiers are names.  The
// `__super` names are resolved here the way JavaScript resolves them: a `var __super…` belongs to the constructor
// body it stands in and is visible in everything nested in that body, but not in the parameter defaults.
type tcRecog struct {
	ctorFrames map[*js_ast.EFunction]*tcFrame
	src        string
	nameOf     func(ast.Ref) string
	frames     []*tcFrame
	shims      map[string]int // canonical number by first appearance; key = frame pointer + name, or "unbound:" + name
	toks       []string
	err        string
}

type tcFrame struct {
	shimOnly bool // not a constructor activation: only identifies `__super` names (heritage expressions)
	params   []string
	shims    map[string]string // name -> key
}

var tcKeyRe = regexp.MustCompile(`^([xa])(\d+)$`)

func (rc *tcRecog) fail(format string, args ...interface{}) {
	if rc.err == "" {
		rc.err = fmt.Sprintf(format, args...)
	}
}

// the name of a declared binding: read from the text (bindings hold real symbols after the first pass)
func (rc *tcRecog) bindName(b js_ast.Binding) string {
	i := int(b.Loc.Start)
	j := i
	for j < len(rc.src) && (rc.src[j] == '_' || rc.src[j] == '$' || (rc.src[j] >= '0' && rc.src[j] <= '9') ||
		(rc.src[j] >= 'a' && rc.src[j] <= 'z') || (rc.src[j] >= 'A' && rc.src[j] <= 'Z')) {
		j++
	}
	return rc.src[i:j]
}

func (rc *tcRecog) emit(tok string) { rc.toks = append(rc.toks, tok) }

func (rc *tcRecog) key(name string) int {
	m := tcKeyRe.FindStringSubmatch(name)
	if m == nil {
		rc.fail("property name %q", name)
		return 0
	}
	n, _ := strconv.Atoi(m[2])
	if m[1] == "a" {
		return 100 + n
	}
	return n
}

func (rc *tcRecog) shimID(key string) int {
	if id, ok := rc.shims[key]; ok {
		return id
	}
	id := len(rc.shims)
	rc.shims[key] = id
	return id
}

func (rc *tcRecog) resolveShim(name string) int {
	for i := len(rc.frames) - 1; i >= 0; i-- {
		if k, ok := rc.frames[i].shims[name]; ok {
			return rc.shimID(k)
		}
	}
	return rc.shimID("unbound:" + name)
}

func (rc *tcRecog) ident(e js_ast.Expr) (string, bool) {
	if id, ok := e.Data.(*js_ast.EIdentifier); ok {
		return rc.nameOf(id.Ref), true
	}
	return "", false
}

func (rc *tcRecog) thisProp(e js_ast.Expr) (int, bool) {
	if d, ok := e.Data.(*js_ast.EDot); ok {
		if _, ok := d.Target.Data.(*js_ast.EThis); ok {
			return rc.key(d.Name), true
		}
	}
	return 0, false
}

func (rc *tcRecog) expr(e js_ast.Expr) {
	if rc.err != "" {
		return
	}
	switch x := e.Data.(type) {
	case *js_ast.ENumber:
		rc.emit(fmt.Sprintf("n%d", int(x.Value)))
	case *js_ast.EUndefined:
		rc.emit("u")
	case *js_ast.EUnary:
		if x.Op == js_ast.UnOpVoid {
			rc.emit("u")
		} else {
			rc.fail("unary operator")
		}
	case *js_ast.EIdentifier:
		name := rc.nameOf(x.Ref)
		if name == "undefined" {
			rc.emit("u")
			return
		}
		inner := len(rc.frames) - 1
		for inner >= 0 && rc.frames[inner].shimOnly {
			inner--
		}
		for i := len(rc.frames) - 1; i >= 0; i-- {
			for j, p := range rc.frames[i].params {
				if p == name {
					if i == inner {
						rc.emit(fmt.Sprintf("a%d", j))
					} else {
						rc.emit(fmt.Sprintf("captured-a%d", j))
					}
					return
				}
			}
		}
		if m := tcKeyRe.FindStringSubmatch(name); m != nil && m[1] == "a" {
			rc.emit("a" + m[2]) // not a parameter of any enclosing constructor: as unbound as in the source
			return
		}
		rc.fail("identifier %q", name)
	case *js_ast.EDot:
		if k, ok := rc.thisProp(e); ok {
			rc.emit(fmt.Sprintf("g%d", k))
		} else {
			rc.fail("property access")
		}
	case *js_ast.EBinary:
		switch x.Op {
		case js_ast.BinOpComma:
			// the printer does not keep the nesting of comma chains: canonical form = nested to the left
			items := tcCommaItems(e)
			for i := 1; i < len(items); i++ {
				rc.emit(",")
			}
			for _, it := range items {
				rc.expr(it)
			}
		case js_ast.BinOpAssign:
			if k, ok := rc.thisProp(x.Left); ok {
				rc.emit(fmt.Sprintf("=%d", k))
				rc.expr(x.Right)
			} else {
				rc.fail("assignment target")
			}
		default:
			rc.fail("binary operator")
		}
	case *js_ast.EIf:
		rc.emit("?")
		rc.expr(x.Test)
		rc.expr(x.Yes)
		rc.expr(x.No)
	case *js_ast.ECall:
		rc.call(x)
	default:
		rc.fail("expression %T", e.Data)
	}
}

// `var _a, _b;`: the temporaries of captured class expressions
func (rc *tcRecog) isTempDecl(s js_ast.Stmt) bool {
	x, ok := s.Data.(*js_ast.SLocal)
	if !ok {
		return false
	}
	for _, d := range x.Decls {
		if d.ValueOrNil.Data != nil || !strings.HasPrefix(rc.bindName(d.Binding), "_") || strings.HasPrefix(rc.bindName(d.Binding), "__") {
			return false
		}
	}
	return true
}

func tcCommaItems(e js_ast.Expr) []js_ast.Expr {
	if b, ok := e.Data.(*js_ast.EBinary); ok && b.Op == js_ast.BinOpComma {
		return append(tcCommaItems(b.Left), tcCommaItems(b.Right)...)
	}
	return []js_ast.Expr{e}
}

func (rc *tcRecog) args1(args []js_ast.Expr) {
	if len(args) != 1 {
		rc.fail("%d arguments", len(args))
		return
	}
	if sp, ok := args[0].Data.(*js_ast.ESpread); ok {
		if n, ok := rc.ident(sp.Value); ok && n == "arguments" {
			rc.emit("A")
		} else {
			rc.fail("spread argument")
		}
		return
	}
	rc.expr(args[0])
}

func (rc *tcRecog) call(x *js_ast.ECall) {
	if _, ok := x.Target.Data.(*js_ast.ESuper); ok {
		rc.emit("S")
		rc.args1(x.Args)
		return
	}
	if ar, ok := x.Target.Data.(*js_ast.EArrow); ok {
		body := ar.Body.Block.Stmts
		if len(body) == 2 && rc.isTempDecl(body[0]) {
			body = body[1:]
		}
		if len(x.Args) == 0 && len(ar.Args) == 0 && len(body) == 1 {
			if r, ok := body[0].Data.(*js_ast.SReturn); ok && r.ValueOrNil.Data != nil {
				rc.emit("w")
				rc.expr(r.ValueOrNil)
				return
			}
		}
		rc.fail("arrow call")
		return
	}
	name, ok := rc.ident(x.Target)
	if !ok {
		rc.fail("call target %T", x.Target.Data)
		return
	}
	switch {
	case name == "P":
		if len(x.Args) == 1 {
			if n, ok := x.Args[0].Data.(*js_ast.ENumber); ok {
				rc.emit(fmt.Sprintf("p%d", int(n.Value)))
				return
			}
		}
		rc.fail("probe call")
	case name == "M":
		if len(x.Args) == 1 {
			if nw, ok := x.Args[0].Data.(*js_ast.ENew); ok {
				if kc, ok := nw.Target.Data.(*js_ast.ECall); ok {
					if kn, ok := rc.ident(kc.Target); ok && kn == "K" && len(kc.Args) == 1 {
						rc.emit("N")
						rc.classExpr(kc.Args[0])
						rc.args1(nw.Args)
						return
					}
				}
			}
		}
		rc.fail("M(...) without new (K(class))(arg)")
	case name == "__publicField":
		if len(x.Args) >= 2 && len(x.Args) <= 3 {
			if _, ok := x.Args[0].Data.(*js_ast.EThis); ok {
				if s, ok := x.Args[1].Data.(*js_ast.EString); ok {
					k := rc.key(helpers.UTF16ToString(s.Value))
					if len(x.Args) == 3 {
						rc.emit(fmt.Sprintf("D%d", k))
						rc.expr(x.Args[2])
					} else {
						rc.emit(fmt.Sprintf("d%d", k))
					}
					return
				}
			}
		}
		rc.fail("__publicField call")
	case strings.HasPrefix(name, "__super"):
		rc.emit(fmt.Sprintf("H%d", rc.resolveShim(name)))
		rc.args1(x.Args)
	default:
		rc.fail("call of %q", name)
	}
}

// K's argument: `class …` or `(_a = class …, <afters>, _a)`
func (rc *tcRecog) classExpr(e js_ast.Expr) {
	if c, ok := e.Data.(*js_ast.EClass); ok {
		rc.class(&c.Class, nil, "")
		return
	}
	// in a parameter default the temporary is the parameter of an arrow: ((_a) => (_a = class …, …, _a))()
	if call, ok := e.Data.(*js_ast.ECall); ok && len(call.Args) == 0 {
		if ar, ok := call.Target.Data.(*js_ast.EArrow); ok && len(ar.Args) == 1 && len(ar.Body.Block.Stmts) == 1 {
			if r, ok := ar.Body.Block.Stmts[0].Data.(*js_ast.SReturn); ok && r.ValueOrNil.Data != nil {
				e = r.ValueOrNil
			}
		}
	}
	items := tcCommaItems(e)
	if len(items) < 2 {
		rc.fail("class expression %T", e.Data)
		return
	}
	first, ok := items[0].Data.(*js_ast.EBinary)
	if !ok || first.Op != js_ast.BinOpAssign {
		rc.fail("captured class: first element")
		return
	}
	tmp, ok1 := rc.ident(first.Left)
	cls, ok2 := first.Right.Data.(*js_ast.EClass)
	last, ok3 := rc.ident(items[len(items)-1])
	if !ok1 || !ok2 || !ok3 || last != tmp {
		rc.fail("captured class: shape")
		return
	}
	rc.class(&cls.Class, items[1:len(items)-1], tmp)
}

func (rc *tcRecog) class(c *js_ast.Class, afters []js_ast.Expr, tmp string) {
	rc.emit("C")
	// a `__super…` named in the heritage expression is identified with the declaration of THIS class's constructor
	// when it has one of that name (esbuild visits the heritage with the class's own p.superCtorRef)
	var ownShims map[string]string
	for _, p := range c.Properties {
		if p.Kind == js_ast.PropertyMethod {
			if s, ok := p.Key.Data.(*js_ast.EString); ok && helpers.UTF16ToString(s.Value) == "constructor" {
				if fn, ok := p.ValueOrNil.Data.(*js_ast.EFunction); ok {
					ownShims = rc.frameOf(fn).shims
				}
			}
		}
	}
	if c.ExtendsOrNil.Data == nil {
		rc.emit("-")
	} else {
		rc.emit("B")
		ext := c.ExtendsOrNil
		if b, ok := ext.Data.(*js_ast.EBinary); ok && b.Op == js_ast.BinOpComma {
			items := tcCommaItems(ext)
			for i := 2; i < len(items); i++ {
				rc.emit(",")
			}
			if ownShims != nil {
				rc.frames = append(rc.frames, &tcFrame{shimOnly: true, shims: ownShims})
			}
			for _, it := range items[:len(items)-1] {
				rc.expr(it)
			}
			if ownShims != nil {
				rc.frames = rc.frames[:len(rc.frames)-1]
			}
			ext = items[len(items)-1]
			_ = b
		} else {
			rc.emit("u")
		}
		kc, ok := ext.Data.(*js_ast.ECall)
		if !ok || len(kc.Args) != 1 {
			rc.fail("heritage")
			return
		}
		if kn, ok := rc.ident(kc.Target); !ok || kn != "K" {
			rc.fail("heritage call")
			return
		}
		rc.classExpr(kc.Args[0])
	}
	// setters, constructor, members
	setters := []string{}
	var ctor *js_ast.EFunction
	for _, p := range c.Properties {
		if p.Kind == js_ast.PropertySetter {
			if s, ok := p.Key.Data.(*js_ast.EString); ok {
				setters = append(setters, strconv.Itoa(rc.key(helpers.UTF16ToString(s.Value))))
			}
		}
		if p.Kind == js_ast.PropertyMethod {
			if s, ok := p.Key.Data.(*js_ast.EString); ok && helpers.UTF16ToString(s.Value) == "constructor" {
				ctor, _ = p.ValueOrNil.Data.(*js_ast.EFunction)
			}
		}
	}
	if len(setters) == 0 {
		rc.emit("s-")
	} else {
		rc.emit("s" + strings.Join(setters, ","))
	}
	if ctor == nil {
		rc.emit("-")
	} else {
		rc.ctor(ctor)
	}
	rc.emit("{")
	for _, p := range c.Properties {
		switch p.Kind {
		case js_ast.PropertySetter, js_ast.PropertyMethod:
		case js_ast.PropertyField:
			s, ok := p.Key.Data.(*js_ast.EString)
			if !ok {
				rc.fail("field key")
				return
			}
			k := rc.key(helpers.UTF16ToString(s.Value))
			pre := ""
			if p.Flags.Has(js_ast.PropertyIsStatic) {
				pre = "s"
			}
			if p.InitializerOrNil.Data != nil {
				rc.emit(fmt.Sprintf("%sF%d", pre, k))
				rc.expr(p.InitializerOrNil)
			} else {
				rc.emit(fmt.Sprintf("%sf%d", pre, k))
			}
		case js_ast.PropertyClassStaticBlock:
			stmts := p.ClassStaticBlock.Block.Stmts
			if len(stmts) != 1 {
				rc.fail("static block with %d statements", len(stmts))
				return
			}
			se, ok := stmts[0].Data.(*js_ast.SExpr)
			if !ok {
				rc.fail("static block statement")
				return
			}
			if b, ok := se.Value.Data.(*js_ast.EBinary); ok && b.Op == js_ast.BinOpAssign {
				if k, ok := rc.thisProp(b.Left); ok {
					rc.emit(fmt.Sprintf("sa%d", k))
					rc.expr(b.Right)
					continue
				}
			}
			rc.emit("sb")
			rc.expr(se.Value)
		default:
			rc.fail("class member kind %d", p.Kind)
		}
	}
	rc.emit("}")
	rc.emit("<")
	for _, a := range afters {
		if call, ok := a.Data.(*js_ast.ECall); ok {
			if n, ok := rc.ident(call.Target); ok && n == "__publicField" && len(call.Args) >= 2 {
				if t, ok := rc.ident(call.Args[0]); ok && t == tmp {
					if s, ok := call.Args[1].Data.(*js_ast.EString); ok {
						k := rc.key(helpers.UTF16ToString(s.Value))
						if len(call.Args) == 3 {
							rc.emit(fmt.Sprintf("D%d", k))
							rc.expr(call.Args[2])
						} else {
							rc.emit(fmt.Sprintf("d%d", k))
						}
						continue
					}
				}
			}
		}
		if b, ok := a.Data.(*js_ast.EBinary); ok && b.Op == js_ast.BinOpAssign {
			if d, ok := b.Left.Data.(*js_ast.EDot); ok {
				if t, ok := rc.ident(d.Target); ok && t == tmp {
					rc.emit(fmt.Sprintf("=%d", rc.key(d.Name)))
					rc.expr(b.Right)
					continue
				}
			}
		}
		rc.emit("e")
		rc.expr(a)
	}
	rc.emit(">")
}

// the frame of a constructor: its parameter names and the `var`s of its body
func (rc *tcRecog) frameOf(fn *js_ast.EFunction) *tcFrame {
	if fr, ok := rc.ctorFrames[fn]; ok {
		return fr
	}
	fr := &tcFrame{shims: map[string]string{}}
	for _, a := range fn.Fn.Args {
		if _, ok := a.Binding.Data.(*js_ast.BIdentifier); !ok {
			rc.fail("parameter binding")
			return fr
		}
		fr.params = append(fr.params, rc.bindName(a.Binding))
	}
	for _, s := range fn.Fn.Body.Block.Stmts {
		if l, ok := s.Data.(*js_ast.SLocal); ok && len(l.Decls) == 1 {
			if _, ok := l.Decls[0].Binding.Data.(*js_ast.BIdentifier); ok {
				n := rc.bindName(l.Decls[0].Binding)
				fr.shims[n] = fmt.Sprintf("%p:%s", fr, n)
			}
		}
	}
	rc.ctorFrames[fn] = fr
	return fr
}

func (rc *tcRecog) ctor(fn *js_ast.EFunction) {
	fr := rc.frameOf(fn)
	rc.emit("K")
	rc.emit("(")
	// the defaults see the earlier parameters; a `__super` of the body named there is the same symbol (at run time
	// the `var` is not in scope of the defaults: the model's semantics says so too)
	vis := &tcFrame{shims: fr.shims}
	rc.frames = append(rc.frames, vis)
	for i, a := range fn.Fn.Args {
		if a.DefaultOrNil.Data != nil {
			rc.emit("P01")
			rc.expr(a.DefaultOrNil)
		} else {
			rc.emit("P00")
		}
		vis.params = fr.params[:i+1]
	}
	rc.frames = rc.frames[:len(rc.frames)-1]
	rc.emit(")")
	rc.frames = append(rc.frames, fr)
	rc.stmts(fn.Fn.Body.Block.Stmts)
	rc.frames = rc.frames[:len(rc.frames)-1]
}

func (rc *tcRecog) stmts(ss []js_ast.Stmt) {
	rc.emit("[")
	for _, s := range ss {
		rc.stmt(s)
	}
	rc.emit("]")
}

func (rc *tcRecog) block(s js_ast.Stmt) {
	if s.Data == nil {
		rc.emit("[")
		rc.emit("]")
		return
	}
	if b, ok := s.Data.(*js_ast.SBlock); ok {
		rc.stmts(b.Stmts)
		return
	}
	rc.stmts([]js_ast.Stmt{s})
}

func (rc *tcRecog) stmt(s js_ast.Stmt) {
	if rc.err != "" {
		return
	}
	switch x := s.Data.(type) {
	case *js_ast.SEmpty:
	case *js_ast.SExpr:
		rc.emit("e")
		rc.expr(x.Value)
	case *js_ast.SReturn:
		if x.ValueOrNil.Data == nil {
			rc.emit("r")
		} else {
			rc.emit("R")
			rc.expr(x.ValueOrNil)
		}
	case *js_ast.SThrow:
		rc.emit("t")
		rc.expr(x.Value)
	case *js_ast.SIf:
		rc.emit("i")
		rc.expr(x.Test)
		rc.block(x.Yes)
		rc.block(x.NoOrNil)
	case *js_ast.SLocal:
		if rc.isTempDecl(s) {
			return
		}
		// var __super = (...args) => { super(...args); <ins>; return this; }
		if len(x.Decls) == 1 {
			if _, ok := x.Decls[0].Binding.Data.(*js_ast.BIdentifier); ok {
				name := rc.bindName(x.Decls[0].Binding)
				if ar, ok := x.Decls[0].ValueOrNil.Data.(*js_ast.EArrow); ok && strings.HasPrefix(name, "__super") && ar.HasRestArg && len(ar.Args) == 1 {
					body := ar.Body.Block.Stmts
					argName := ""
					if _, ok := ar.Args[0].Binding.Data.(*js_ast.BIdentifier); ok {
						argName = rc.bindName(ar.Args[0].Binding)
					}
					okShape := len(body) >= 2
					if okShape {
						first, ok1 := body[0].Data.(*js_ast.SExpr)
						last, ok2 := body[len(body)-1].Data.(*js_ast.SReturn)
						okShape = ok1 && ok2
						if okShape {
							call, ok := first.Value.Data.(*js_ast.ECall)
							okShape = ok && len(call.Args) == 1
							if okShape {
								_, isSuper := call.Target.Data.(*js_ast.ESuper)
								sp, isSpread := call.Args[0].Data.(*js_ast.ESpread)
								okShape = isSuper && isSpread
								if okShape {
									n, _ := rc.ident(sp.Value)
									okShape = n == argName
								}
							}
							_, isThis := last.ValueOrNil.Data.(*js_ast.EThis)
							okShape = okShape && isThis
						}
					}
					if !okShape {
						rc.fail("shim arrow shape")
						return
					}
					rc.emit(fmt.Sprintf("h%d", rc.resolveShim(name)))
					rc.stmts(body[1 : len(body)-1])
					return
				}
			}
		}
		rc.fail("local declaration")
	default:
		rc.fail("statement %T", s.Data)
	}
}

// tcRecognise: the program statement is the last statement of the text (helpers of the runtime come first)
func tcRecognise(text string) (string, string) {
	source := logger.Source{Contents: text, KeyPath: logger.Path{Text: "/x.js", Namespace: "file"},
		PrettyPaths: logger.PrettyPaths{Abs: "/x.js", Rel: "x.js"}}
	opts := js_parser.OptionsFromConfig(&config.Options{})
	log := logger.NewDeferLog(logger.DeferLogAll, nil)
	stmts, nameOf, ok := js_parser.VerifParseNoVisit(log, source, opts)
	if !ok || log.HasErrors() {
		return "", "the output does not parse"
	}
	rc := &tcRecog{ctorFrames: map[*js_ast.EFunction]*tcFrame{}, src: text, nameOf: nameOf, shims: map[string]int{}}
	var prog *js_ast.SExpr
	for _, s := range stmts {
		if e, ok := s.Data.(*js_ast.SExpr); ok {
			prog = e
		}
	}
	if prog == nil {
		return "", "no program statement"
	}
	rc.expr(prog.Value)
	if rc.err != "" {
		return "", rc.err
	}
	return strings.Join(rc.toks, " "), ""
}
