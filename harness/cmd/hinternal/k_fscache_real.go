package main

// Kernel `fscache`, real-file parts: `probe` (fs.modKey through the verif hook) and `wd` (fs.RealFS with watch data
// + cache.FSCache on a temp directory). The real clock is involved: time stamps are set relative to time.Now() with
// margins of at least 100 ms (probe) / 1 s (wd) around every value where the answer could change, and an operation
// that took too long is thrown away and generated again (stat "…-retry").

import (
	"fmt"
	"os"
	"path/filepath"
	"strings"
	"syscall"
	"time"

	"github.com/evanw/esbuild/internal/cache"
	"github.com/evanw/esbuild/internal/fs"
	"github.com/evanw/esbuild/verifharness/gen"
)

var fcTmp string

func fcTmpDir() string {
	if fcTmp == "" {
		d, err := os.MkdirTemp("", "verif-fscache-")
		if err != nil {
			panic(err)
		}
		// the real FS resolves symlinks in paths it is given; use the resolved directory
		if r, err := filepath.EvalSymlinks(d); err == nil {
			d = r
		}
		fcTmp = d
	}
	return fcTmp
}

type fcStat struct {
	ok    bool
	ino   uint64
	mtime int64
	mode  uint32
	uid   uint32
	size  int64
}

func fcStatPath(path string) fcStat {
	var st syscall.Stat_t
	if err := syscall.Stat(path, &st); err != nil {
		return fcStat{}
	}
	return fcStat{true, st.Ino, st.Mtim.Sec*1000000000 + st.Mtim.Nsec, st.Mode, st.Uid, st.Size}
}

// offsets of mtime before now (negative = in the future); 3 s is where the real code must switch
var fcProbeD = []time.Duration{0, 1, time.Millisecond, 500 * time.Millisecond, time.Second, 2 * time.Second, 2900 * time.Millisecond,
	3100 * time.Millisecond, 3500 * time.Millisecond, 4 * time.Second, 10 * time.Second, time.Hour, 24 * 365 * time.Hour,
	-100 * time.Millisecond, -time.Second, -time.Hour}

func fcProbe(r *gen.Rand, e *emitter) {
	path := filepath.Join(fcTmpDir(), "probe")
	for try := 0; try < 20; try++ {
		contents := strings.Repeat("x", r.Intn(6))
		os.Remove(path)
		if err := os.WriteFile(path, []byte(contents), 0644); err != nil {
			panic(err)
		}
		os.Chmod(path, []os.FileMode{0644, 0600, 0755}[r.Intn(3)])
		var mt time.Time
		label := ""
		switch r.Intn(12) {
		case 0:
			mt, label = time.Unix(0, 0), "epoch-zero"
		case 1:
			mt, label = time.Unix(0, int64(1+r.Intn(999999999))), "first-second-of-1970"
		case 2:
			mt, label = time.Unix(-int64(1+r.Intn(1000000)), int64(r.Intn(1000000000))), "before-1970"
		case 3:
			mt, label = time.Unix(int64(1+r.Intn(1000000)), 0), "whole-second-1970s"
		default:
			d := fcProbeD[r.Intn(len(fcProbeD))]
			if r.Chance(1, 3) { // jitter that stays ≥ 100 ms away from 3 s
				d += time.Duration(r.Intn(80)) * time.Millisecond
			}
			mt = time.Now().Add(-d)
			if d < 3*time.Second {
				label = "younger-than-3s"
			} else {
				label = "older-than-3s"
			}
		}
		if err := os.Chtimes(path, mt, mt); err != nil {
			panic(err)
		}
		st := fcStatPath(path)
		t1 := time.Now()
		key, err := fs.VerifModKey(path)
		t2 := time.Now()
		if t2.Sub(t1) > 20*time.Millisecond {
			e.stat("probe-retry")
			continue
		}
		got := ""
		switch {
		case err == nil:
			ino, size, sec, nsec, mode, uid := fs.VerifModKeyFields(key)
			got = fmt.Sprintf("ok %d %d %d %d %d %d", ino, size, sec, nsec, mode, uid)
			e.stat("probe:ok:" + label)
		case err == fs.VerifModKeyUnusable():
			got = "unusable"
			e.stat("probe:unusable:" + label)
		default:
			got = "err"
		}
		e.emit(fmt.Sprintf("fscache\tprobe\t%d\t%d\t%d\t%d\t%d\t%d\t%d", int64(fs.VerifModKeySafetyGap), st.mtime, t1.UnixNano(), st.ino, st.size, st.mode, st.uid), got)
		return
	}
	panic("fscache probe: the machine is too slow for a 20 ms window")
}

// counts fs.ReadFile calls in front of the real FS (a hit of FSCache makes none)
type fcCounting struct {
	fs.FS
	nReads int
}

func (c *fcCounting) ReadFile(path string) (string, error, error) {
	c.nReads++
	return c.FS.ReadFile(path)
}

var fcSafeAges = []time.Duration{0, time.Second, 2 * time.Second, 4500 * time.Millisecond, 4500 * time.Millisecond, 10 * time.Second, 10 * time.Second, time.Hour}

// one real edit; returns its wire form as the model sees it (the file that is there afterwards, from stat)
func fcRealEdit(r *gen.Rand, e *emitter, dir string, p int) string {
	path := filepath.Join(dir, fmt.Sprintf("f%d", p))
	contents := fcContents[r.Intn(len(fcContents))]
	age := fcSafeAges[r.Intn(len(fcSafeAges))]
	setAge := func(target string) {
		if age > 0 {
			t := time.Now().Add(-age)
			os.Chtimes(target, t, t)
		}
	}
	switch r.Intn(6) {
	case 0, 1: // write in place (creates)
		os.WriteFile(path, []byte(contents), 0644)
		setAge(path)
		e.stat("wd:edit-write")
	case 2: // atomic replace
		tmp := path + ".tmp"
		os.WriteFile(tmp, []byte(contents), 0644)
		setAge(tmp)
		os.Rename(tmp, path)
		e.stat("wd:edit-replace")
	case 3:
		os.Remove(path)
		e.stat("wd:edit-delete")
	case 4:
		if fcStatPath(path).ok {
			setAge(path)
			if age == 0 {
				now := time.Now()
				os.Chtimes(path, now, now)
			}
		}
		e.stat("wd:edit-chtimes")
	default:
		os.Chmod(path, []os.FileMode{0644, 0600}[r.Intn(2)])
		e.stat("wd:edit-chmod")
	}
	st := fcStatPath(path)
	if !st.ok {
		return fmt.Sprintf("d,%d", p)
	}
	b, _ := os.ReadFile(path)
	return fmt.Sprintf("v,%d,%d,%d,%d,%d,%s", p, st.ino, st.mtime, st.mode, st.uid, hexBytes(b))
}

func fcWd(r *gen.Rand, e *emitter) {
	for try := 0; try < 20; try++ {
		dir, err := os.MkdirTemp(fcTmpDir(), "wd")
		if err != nil {
			panic(err)
		}
		t0 := time.Now()
		var setup []string
		for p := 0; p < 3; p++ {
			if r.Chance(2, 3) {
				path := filepath.Join(dir, fmt.Sprintf("f%d", p))
				os.WriteFile(path, []byte(fcContents[r.Intn(len(fcContents))]), 0644)
				if age := fcSafeAges[r.Intn(len(fcSafeAges))]; age > 0 {
					t := t0.Add(-age)
					os.Chtimes(path, t, t)
				}
				st := fcStatPath(path)
				b, _ := os.ReadFile(path)
				setup = append(setup, fmt.Sprintf("%d:%d:%d:%d:%d:%s", p, st.ino, st.mtime, st.mode, st.uid, hexBytes(b)))
			}
		}
		caches := cache.MakeCacheSet()
		newFS := func() *fcCounting {
			real, err := fs.RealFS(fs.RealFSOptions{AbsWorkingDir: dir, WantWatchData: true})
			if err != nil {
				panic(err)
			}
			return &fcCounting{FS: real}
		}
		cur := newFS()
		var ops, answers []string
		for i, n := 0, 3+r.Intn(9); i < n; i++ {
			p := r.Intn(2)
			if r.Chance(1, 5) {
				p = 2
			}
			path := filepath.Join(dir, fmt.Sprintf("f%d", p))
			switch k := r.Intn(24); {
			case k < 13:
				before := cur.nReads
				contents, err, _ := caches.FSCache.ReadFile(cur, path)
				hit := cur.nReads == before
				switch {
				case hit && err == nil:
					answers = append(answers, "h"+hexBytes([]byte(contents)))
					e.stat("wd:hit")
				case err == nil:
					answers = append(answers, "m"+hexBytes([]byte(contents)))
					e.stat("wd:miss-ok")
				default:
					answers = append(answers, "me")
					e.stat("wd:miss-err")
				}
				ops = append(ops, fmt.Sprintf("R,%d", p))
			case k < 15:
				contents, err, _ := cur.FS.ReadFile(path)
				if err == nil {
					answers = append(answers, "m"+hexBytes([]byte(contents)))
				} else {
					answers = append(answers, "me")
				}
				e.stat("wd:raw-read")
				ops = append(ops, fmt.Sprintf("X,%d", p))
			case k < 17:
				cur = newFS()
				e.stat("wd:new-build")
				ops = append(ops, "N")
			default:
				ops = append(ops, fcRealEdit(r, e, dir, p))
			}
		}
		wdata := cur.FS.WatchData()
		var acts []string
		for i, n := 0, r.Intn(3); i < n; i++ {
			acts = append(acts, fcRealEdit(r, e, dir, r.Intn(3)))
		}
		var polls []string
		for p := 0; p < 3; p++ {
			fn := wdata.Paths[filepath.Join(dir, fmt.Sprintf("f%d", p))]
			switch {
			case fn == nil:
				polls = append(polls, "-")
				e.stat("wd:poll-no-slot")
			case fn() != "":
				polls = append(polls, "1")
				e.stat("wd:poll-fires")
			default:
				polls = append(polls, "0")
				e.stat("wd:poll-quiet")
			}
		}
		elapsed := time.Since(t0)
		os.RemoveAll(dir)
		if elapsed > 500*time.Millisecond {
			e.stat("wd-retry")
			continue
		}
		join := func(xs []string, sep string) string {
			if len(xs) == 0 {
				return "-"
			}
			return strings.Join(xs, sep)
		}
		e.emit(fmt.Sprintf("fscache\twd\tunix\t%d\t1\t%d\t%s\t%s\t%s\t0,1,2", int64(fs.VerifModKeySafetyGap), t0.UnixNano(),
			join(setup, ","), join(ops, ";"), join(acts, ";")),
			join(answers, " ")+" | "+strings.Join(polls, " "))
		return
	}
	panic("fscache wd: the machine is too slow for a 500 ms window")
}

func removeAllQuiet(dir string) error { return os.RemoveAll(dir) }
