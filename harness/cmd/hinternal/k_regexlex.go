package main

// Kernel `regexlex`: the REAL js_lexer (NewLexer → Next → ScanRegExp), js_parser (parsePrefix → ScanRegExp,
// isUnsupportedRegularExpression, the `new RegExp(…)` rewriting), js_printer (ERegExp, printSpaceBeforeIdentifier) and
// api.Transform on generated regular-expression literals against the Lean model Impl/RegexLex.lean.
//
//	op:        regexlex\tscan\t<non-ASCII ID_Continue code points | ->\t<text: 6 hex digits per code point>
//	expected:  ok <len> <dups> [uv] | unterminated <pos> | syntax <pos> <dups> | comment | other        (byte offsets from the `/`)
//	op:        regexlex\tfeat\t<7 bits>\t<literal>
//	expected:  keep | keep-err <pos> | lower <pattern UTF-16> <flags UTF-16 | none> <why>
//	op:        regexlex\tprint\t<noInlineScript>\t<buffer before>\t<literal>\t<identifier follows>\t<text after>
//	expected:  <output text> <same | different: what re-parsing the output finds>
//
// `scan` runs the lexer directly and — for complete literals — also the parser (`x = <text>`): the two real paths must
// agree. `feat` runs js_parser.Parse with the given feature mask and — for masks that are an ES target — api.Transform
// with that target, re-parsing the output to read the string values back. `print` runs api.Transform with whitespace
// minification on fixed statement templates.

import (
	"fmt"
	"strings"
	"unicode/utf8"

	"github.com/evanw/esbuild/internal/compat"
	"github.com/evanw/esbuild/internal/config"
	"github.com/evanw/esbuild/internal/js_ast"
	"github.com/evanw/esbuild/internal/js_lexer"
	"github.com/evanw/esbuild/internal/js_parser"
	"github.com/evanw/esbuild/internal/logger"
	"github.com/evanw/esbuild/pkg/api"
	"github.com/evanw/esbuild/verifharness/gen"
)

func regexHexRunes(s string) string { return strlexHexRunes(s) }

// the non-ASCII code points of s that js_ast.IsIdentifierContinue accepts through the Unicode table
func regexIdna(s string) string {
	var out []string
	seen := map[rune]bool{}
	for _, r := range s {
		if r >= 0x7F && r != 0x200C && r != 0x200D && !seen[r] && js_ast.IsIdentifierContinue(r) {
			seen[r] = true
			out = append(out, fmt.Sprint(int(r)))
		}
	}
	if len(out) == 0 {
		return "-"
	}
	return strings.Join(out, ",")
}

// messages of a log as the model prints them; off = byte offset of the token start in src
func regexMsgs(src string, off int, msgs []logger.Msg) (fatal string, dups []string) {
	for _, m := range msgs {
		if m.Kind != logger.Error || m.Data.Location == nil {
			continue
		}
		pos := strlexOffset(src, m.Data.Location.Line, m.Data.Location.Column) - off
		switch {
		case m.Data.Text == "Unexpected \")\" in regular expression":
			// raised later, by the visitor (op `feat`), not by the scanner
		case m.Data.Text == "Unterminated regular expression":
			fatal = fmt.Sprintf("unterminated %d", pos)
		case strings.HasPrefix(m.Data.Text, "Syntax error ") || m.Data.Text == "Unexpected end of file":
			fatal = fmt.Sprintf("syntax %d", pos)
		case strings.HasPrefix(m.Data.Text, "The \"u\" and \"v\" flags cannot be used together"):
			if pos != 0 {
				fatal = fmt.Sprintf("uv-range-start %d", pos)
			}
			dups = append(dups, "uv")
		case strings.HasPrefix(m.Data.Text, "Duplicate flag "):
			note := -1
			if len(m.Notes) == 1 && m.Notes[0].Location != nil {
				note = strlexOffset(src, m.Notes[0].Location.Line, m.Notes[0].Location.Column) - off
			}
			dups = append(dups, fmt.Sprintf("%d:%d", pos, note))
		default:
			fatal = "err-other " + m.Data.Text
		}
	}
	return
}

// dups as the model prints them; the marker "uv" (the u/v error: logged last, but log.Done() sorts by location and
// its range starts at the token) becomes a trailing field
func regexDups(all []string) string {
	uv := ""
	var d []string
	for _, x := range all {
		if x == "uv" {
			uv = " uv"
		} else {
			d = append(d, x)
		}
	}
	if len(d) == 0 {
		return "-" + uv
	}
	return strings.Join(d, ",") + uv
}

// the lexer alone: NewLexer scans the first token; for `/` and `/=` the parser would call ScanRegExp
func regexScanLexer(prefix, text string) (out string) {
	if !strings.HasPrefix(text, "/") {
		return "other"
	}
	log := logger.NewDeferLog(logger.DeferLogAll, nil)
	src := prefix + text
	defer func() {
		if r := recover(); r != nil {
			if _, ok := r.(js_lexer.LexerPanic); !ok {
				out = "PANIC"
				return
			}
			if strings.HasPrefix(text, "/*") || strings.HasPrefix(text, "//") {
				out = "comment" // an unterminated comment, or an error in a later token: ScanRegExp is not reached for this `/`
				return
			}
			fatal, dups := regexMsgs(src, len(prefix), log.Done())
			if strings.HasPrefix(fatal, "syntax") {
				fatal += " " + regexDups(dups)
			}
			out = fatal
		}
	}()
	lx := js_lexer.NewLexer(log, logger.Source{Contents: src}, config.TSOptions{})
	if lx.Token != js_lexer.TSlash && lx.Token != js_lexer.TSlashEquals || int(lx.Range().Loc.Start) != len(prefix) {
		// a comment swallowed the `/` (or more): the first token starts later
		if strings.HasPrefix(text, "//") || strings.HasPrefix(text, "/*") {
			return "comment"
		}
		return "other"
	}
	lx.ScanRegExp()
	_, dups := regexMsgs(src, len(prefix), log.Done())
	return fmt.Sprintf("ok %d %s", lx.Range().Len, regexDups(dups))
}

func regexSource(src string) logger.Source {
	return logger.Source{Contents: src, KeyPath: logger.Path{Text: "/x.js", Namespace: "file"},
		PrettyPaths: logger.PrettyPaths{Abs: "/x.js", Rel: "x.js"}}
}

// first `x = <expr>` statement of a parsed file
func regexFindAssign(tree js_ast.AST) (js_ast.Expr, bool) {
	for _, part := range tree.Parts {
		for _, st := range part.Stmts {
			if se, ok := st.Data.(*js_ast.SExpr); ok {
				if b, ok := se.Value.Data.(*js_ast.EBinary); ok && b.Op == js_ast.BinOpAssign {
					return b.Right, true
				}
			}
		}
	}
	return js_ast.Expr{}, false
}

// the parser: `x = <text>` — parsePrefix sees TSlash / TSlashEquals and calls ScanRegExp. Only used for texts whose
// lexer verdict is `ok` with nothing but `;` after the token, or a fatal error.
func regexScanParser(text string) string {
	const pre = "x = "
	src := pre + text
	log := logger.NewDeferLog(logger.DeferLogAll, nil)
	tree, ok := js_parser.Parse(log, regexSource(src), js_parser.OptionsFromConfig(&config.Options{}))
	msgs := log.Done()
	fatal, dups := regexMsgs(src, len(pre), msgs)
	if fatal != "" {
		if strings.HasPrefix(fatal, "syntax") {
			fatal += " " + regexDups(dups)
		}
		return fatal
	}
	if !ok {
		return "parse-failed"
	}
	e, found := regexFindAssign(tree)
	if !found {
		return "no-assign"
	}
	re, isRe := e.Data.(*js_ast.ERegExp)
	if !isRe {
		return "not-regexp"
	}
	return fmt.Sprintf("ok %d %s", len(re.Value), regexDups(dups))
}

var regexFeatures = []compat.JSFeature{compat.RegexpLookbehindAssertions, compat.RegexpNamedCaptureGroups,
	compat.RegexpUnicodePropertyEscapes, compat.RegexpDotAllFlag, compat.RegexpStickyAndUnicodeFlags,
	compat.RegexpMatchIndices, compat.RegexpSetNotation}

func regexBits(mask compat.JSFeature) string {
	var b strings.Builder
	for _, f := range regexFeatures {
		if mask.Has(f) {
			b.WriteByte('1')
		} else {
			b.WriteByte('0')
		}
	}
	return b.String()
}

func regexWhy(msgs []logger.Msg) string {
	for _, m := range msgs {
		if m.ID != logger.MsgID_JS_UnsupportedRegExp {
			continue
		}
		t := m.Data.Text
		switch {
		case strings.HasPrefix(t, "Lookbehind assertions"):
			return "lookbehind"
		case strings.HasPrefix(t, "Named capture groups"):
			return "named"
		case strings.HasPrefix(t, "Unicode property escapes"):
			return "propescape"
		case strings.HasPrefix(t, "The regular expression flag \""):
			c, _ := utf8.DecodeRuneInString(t[len("The regular expression flag \""):])
			return fmt.Sprintf("flag:%d", c)
		}
		return "why-other"
	}
	return "why-missing"
}

// what the visited expression looks like
func regexDescribe(e js_ast.Expr) string {
	switch d := e.Data.(type) {
	case *js_ast.ERegExp:
		return "keep"
	case *js_ast.ENew:
		id, ok := d.Target.Data.(*js_ast.EIdentifier)
		_ = id
		if !ok || len(d.Args) < 1 || len(d.Args) > 2 {
			return "new-other"
		}
		p, ok := d.Args[0].Data.(*js_ast.EString)
		if !ok {
			return "new-other"
		}
		fl := "none"
		if len(d.Args) == 2 {
			f, ok := d.Args[1].Data.(*js_ast.EString)
			if !ok {
				return "new-other"
			}
			fl = strlexHex16(f.Value)
			if len(f.Value) == 0 {
				fl = "-"
			}
		}
		pat := strlexHex16(p.Value)
		if len(p.Value) == 0 {
			pat = "-"
		}
		return "lower " + pat + " " + fl
	}
	return "expr-other"
}

// js_parser.Parse of `x = <literal>;` with the feature mask
func regexFeatParser(value string, mask compat.JSFeature) string {
	const pre = "x = "
	src := pre + value + ";"
	log := logger.NewDeferLog(logger.DeferLogAll, nil)
	tree, ok := js_parser.Parse(log, regexSource(src), js_parser.OptionsFromConfig(&config.Options{UnsupportedJSFeatures: mask}))
	msgs := log.Done()
	errPos := -1
	for _, m := range msgs {
		if m.Kind == logger.Error {
			if m.Data.Text == "Unexpected \")\" in regular expression" && m.Data.Location != nil && errPos < 0 {
				errPos = strlexOffset(src, m.Data.Location.Line, m.Data.Location.Column) - len(pre)
			} else {
				return "err-other " + m.Data.Text
			}
		}
	}
	if !ok {
		return "parse-failed"
	}
	e, found := regexFindAssign(tree)
	if !found {
		return "no-assign"
	}
	d := regexDescribe(e)
	if d == "keep" {
		if errPos >= 0 {
			return fmt.Sprintf("keep-err %d", errPos)
		}
		return "keep"
	}
	if strings.HasPrefix(d, "lower ") {
		return d + " " + regexWhy(msgs)
	}
	return d
}

var regexTargets = []struct {
	t    api.Target
	year int
}{{api.ES5, 5}, {api.ES2015, 2015}, {api.ES2016, 2016}, {api.ES2017, 2017}, {api.ES2018, 2018}, {api.ES2019, 2019},
	{api.ES2020, 2020}, {api.ES2021, 2021}, {api.ES2022, 2022}, {api.ES2023, 2023}, {api.ES2024, 2024}, {api.ESNext, 0}}

func regexTargetMask(year int) compat.JSFeature {
	if year == 0 {
		return 0
	}
	return compat.UnsupportedJSFeatures(map[compat.Engine]compat.Semver{compat.ES: {Parts: []int{year}}})
}

// api.Transform with an ES target; the output is parsed again (everything supported) to read the values back
func regexFeatTransform(value string, target api.Target) string {
	res := api.Transform("x = "+value+";", api.TransformOptions{Target: target, LogLevel: api.LogLevelSilent})
	if len(res.Errors) > 0 {
		if res.Errors[0].Text == "Unexpected \")\" in regular expression" {
			return "keep-err"
		}
		return "err-other " + res.Errors[0].Text
	}
	log := logger.NewDeferLog(logger.DeferLogAll, nil)
	tree, ok := js_parser.Parse(log, regexSource(string(res.Code)), js_parser.OptionsFromConfig(&config.Options{}))
	if !ok || log.HasErrors() {
		return "reparse-failed " + string(res.Code)
	}
	e, found := regexFindAssign(tree)
	if !found {
		return "no-assign"
	}
	if re, isRe := e.Data.(*js_ast.ERegExp); isRe && re.Value != value {
		return "keep-changed " + re.Value
	}
	return regexDescribe(e)
}

// statement templates for the printer: source = Src with V replaced; with whitespace minification the regexp is
// printed when the buffer holds Pre; Ident: the next thing printed goes through printSpaceBeforeIdentifier; then Post
var regexTemplates = []struct {
	name, src, pre string
	ident          bool
	post           string
}{
	{"div", "x=a/ V ;", "x=a/", false, ";\n"},
	{"call-div", "x=f()/ V ;", "x=f()/", false, ";\n"},
	{"lt", "x=a< V ;", "x=a<", false, ";\n"},
	{"shl", "x=a<< V ;", "x=a<<", false, ";\n"},
	{"in", "x= V  in y;", "x=", true, "in y;\n"},
	{"instanceof", "x= V  instanceof y;", "x=", true, "instanceof y;\n"},
	{"arg", "x=f( V );", "x=f(", false, ");\n"},
	{"stmt-start", " V .test(s);", "", false, ".test(s);\n"},
	{"cond", "x= V ?1:2;", "x=", false, "?1:2;\n"},
	{"mod", "x=a% V ;", "x=a%", false, ";\n"},
	{"div-assign", "x=a/= V ;", "x=a/=", false, ";\n"},
	{"array", "x=[a, V ];", "x=[a,", false, "];\n"},
	{"after-paren", "if(a) V .test(s);", "if(a)", false, ".test(s);\n"},
	{"gt", "x=a> V ;", "x=a>", false, ";\n"},
	{"star", "x=a* V ;", "x=a*", false, ";\n"},
}

func regexPrintReal(src string, noInline bool, value string) string {
	opts := api.TransformOptions{MinifyWhitespace: true, LogLevel: api.LogLevelSilent}
	if noInline {
		opts.Supported = map[string]bool{"inline-script": false}
	}
	res := api.Transform(src, opts)
	if len(res.Errors) > 0 {
		return "err " + res.Errors[0].Text
	}
	out := string(res.Code)
	// re-parse: the output must contain the same literal
	verdict := "different"
	log := logger.NewDeferLog(logger.DeferLogAll, nil)
	if tree, ok := js_parser.Parse(log, regexSource(out), js_parser.OptionsFromConfig(&config.Options{})); ok && !log.HasErrors() {
		found := false
		var walk func(e js_ast.Expr)
		walk = func(e js_ast.Expr) {
			switch d := e.Data.(type) {
			case *js_ast.ERegExp:
				if d.Value == value {
					found = true
				}
			case *js_ast.EBinary:
				walk(d.Left)
				walk(d.Right)
			case *js_ast.ECall:
				walk(d.Target)
				for _, a := range d.Args {
					walk(a)
				}
			case *js_ast.EDot:
				walk(d.Target)
			case *js_ast.EArray:
				for _, a := range d.Items {
					walk(a)
				}
			case *js_ast.EIf:
				walk(d.Test)
			}
		}
		for _, part := range tree.Parts {
			for _, st := range part.Stmts {
				switch s := st.Data.(type) {
				case *js_ast.SExpr:
					walk(s.Value)
				case *js_ast.SIf:
					if se, ok := s.Yes.Data.(*js_ast.SExpr); ok {
						walk(se.Value)
					}
				}
			}
		}
		if found {
			verdict = "same"
		}
	}
	return regexHexRunes(out) + " " + verdict
}

var regexPlain = []string{"a", "b", ".", "*", "+", "?", "=", "!", "<", ">", "{", "}", "p", "P", "k", "$", "^", "|", "-", " ", "]", "0", "9", ",", ":", "u", "g", "\t", "\x00", "x"}
var regexNonASCII = []string{"\u00e9", "\u4e2d", "\U0001F600", "\u200d", "\ufeff", "\u03c0", "\u20ac", "\u0301", "\u017f", "\u212a", "\u200c", "\u0660"}
var regexLT = []string{"\n", "\r", "\u2028", "\u2029", "\r\n"}
var regexEscapes = []string{"\\/", "\\\\", "\\]", "\\[", "\\(", "\\)", "\\p{L}", "\\P{Lu}", "\\p{Script=Greek}", "\\k<n>", "\\\u00e9", "\\\U0001F600", "\\d", "\\p", "\\p{", "\\P{L", "\\u{1F600}", "\\1", "\\<", "\\?"}
var regexGroups = []string{"(?<=a)", "(?<!a)", "(?<n>a)", "(?:a)", "(a)", "(?=a)", "(?!a)", "(?<n", "(?<", "(", ")", "(?<\u00e9>b)", "((?<=a)b)", "(?<n>(?<m>a))", "()", "(?<=", "(?<!"}
var regexClassItems = []string{"/", "\\]", "\\\\", "(", ")", "[", "\\p{L}", "\\P{L}", "(?<=", "(?<n>", "a", "-", "^", "\u00e9", "\U0001F600", "\\/", "</script", "\\\u4e2d", "?<"}
var regexFlagSets = []string{"uvu", "guv", "uvx", "vgu", "dgimsuvy", "vyu", "uxv", "vv", "", "g", "i", "m", "s", "u", "v", "y", "d", "gi", "gim", "su", "uy", "dgimsuy", "dgimsvy", "uv", "vu", "gg", "gig", "uu", "dd", "ss", "ggg", "gigi", "ydy", "x", "gx", "xg", "G", "g1", "g_", "g$", "ig\u00e9", "g\u200d", "g\u0301", "gxg", "ggx", "A", "gmgmx", "g\u200cg", "\u03c0"}
var regexFollow = []string{"", ";", " ", ".test(s)", "\n", "\u20ac", "\\u0067", ")", "/", "/g", " g", "\u00e9", "[0]", ",1", "//c", "/*c*/", "\u2028", "\u200d"}
var regexPrefix = []string{"", " ", "\n", "/*c*/", "/*\u00e9*/ ", "// c\n", "\r\n", "\ufeff"}
var regexFirst = []string{"*", "/", "=", "=/", "*/", "/a", "=*"}
var regexScripty = []string{"script", "SCRIPT", "Script>", "scripT", "scrip", "\u017fcript", "script/", "scr\u0131pt", "\u212acript", "scripte", "s"}

func regexClass(r *gen.Rand, e *emitter) string {
	var b strings.Builder
	b.WriteString("[")
	n := r.Intn(5)
	for k := 0; k < n; k++ {
		switch r.Intn(12) {
		case 0:
			if r.Chance(1, 8) {
				b.WriteString(regexLT[r.Intn(len(regexLT))])
				e.stat("item:class-lt")
			}
		case 1:
			b.WriteString(regexPlain[r.Intn(len(regexPlain))])
		default:
			b.WriteString(regexClassItems[r.Intn(len(regexClassItems))])
		}
	}
	switch r.Intn(14) {
	case 0:
		e.stat("item:class-open") // no `]`
	case 1:
		b.WriteString("\\")
		e.stat("item:class-open-backslash")
	default:
		b.WriteString("]")
	}
	return b.String()
}

func regexItem(r *gen.Rand, e *emitter) string {
	switch r.Intn(24) {
	case 0, 1, 2, 3, 4, 5, 6:
		e.stat("item:plain")
		return regexPlain[r.Intn(len(regexPlain))]
	case 7, 8:
		e.stat("item:non-ascii")
		return regexNonASCII[r.Intn(len(regexNonASCII))]
	case 9:
		if r.Chance(1, 6) {
			e.stat("item:lt")
			return regexLT[r.Intn(len(regexLT))]
		}
		e.stat("item:plain")
		return "a"
	case 10, 11, 12, 13:
		e.stat("item:escape")
		return regexEscapes[r.Intn(len(regexEscapes))]
	case 14:
		if r.Chance(1, 8) {
			e.stat("item:escape-lt")
			return "\\" + regexLT[r.Intn(len(regexLT))]
		}
		e.stat("item:escape")
		return "\\/"
	case 15, 16, 17, 18:
		e.stat("item:group")
		return regexGroups[r.Intn(len(regexGroups))]
	default:
		e.stat("item:class")
		return regexClass(r, e)
	}
}

func regexFlags(r *gen.Rand) string {
	if r.Chance(1, 3) {
		return regexFlagSets[r.Intn(len(regexFlagSets))]
	}
	// a random multiset of the valid letters
	const letters = "dgimsuvy"
	var b strings.Builder
	n := r.Intn(5)
	for k := 0; k < n; k++ {
		b.WriteByte(letters[r.Intn(len(letters))])
	}
	return b.String()
}

func regexMutate(r *gen.Rand, s string) string {
	rs := []rune(s)
	if len(rs) == 0 {
		return s
	}
	k := r.Intn(len(rs))
	switch r.Intn(4) {
	case 0: // delete
		return string(rs[:k]) + string(rs[k+1:])
	case 1: // duplicate
		return string(rs[:k+1]) + string(rs[k:])
	case 2: // insert a structural character
		return string(rs[:k]) + []string{"/", "[", "]", "\\", "(", ")", "\n"}[r.Intn(7)] + string(rs[k:])
	default: // truncate
		return string(rs[:k])
	}
}

// hand-written boundary texts
var regexBoundary = []string{"/", "/=", "/=/", "/a", "/a/", "/a/g", "/\\", "/\\/", "/\\//", "/[", "/[]", "/[]/", "/[/]/", "/[\\]/]/g", "/[\\", "/a\\",
	"/a/uv", "/a/vu", "/a/uvu", "/a/uvx", "/[u]v/u", "/a/v;", "/=/vu", "/d/dd", "/a[d]/gdd", "/\u00e9d/dd", "/a/gg", "/a/\\u0067", "/a/g\u200d", "/[\\p{L}]/u", "/\\p{L}/u", "/\\p{L}/v", "/\\p{L}/",
	"/(?<=a)b/", "/(?<n>a)\\k<n>/", "/[(?<=a)]/", "/\\(?<=a)/", "/)/", "/())/", "/[)]/", "/a)/g", "/[</script]/", "/script/", "/SCRIPT>/i",
	"//", "/*", "/**/", "/*/", "/=*/", "/a\n/", "/a\u2028/", "/\\\n/", "/[\n]/", "/a/\n", "/a/g;", "/a/ g", "/]/", "/a]/", "/[[]/", "/[a]]/"}

func init() {
	kernels["regexlex"] = func(r *gen.Rand, e *emitter, tier string) {
		for !e.full() {
			// ---- the literal text
			var body strings.Builder
			if r.Chance(1, 10) {
				body.WriteString(regexFirst[r.Intn(len(regexFirst))])
				e.stat("gen:special-first")
			}
			if r.Chance(1, 8) {
				body.WriteString(regexScripty[r.Intn(len(regexScripty))])
				e.stat("gen:scripty")
			}
			n := 1 + r.Intn(5)
			if r.Chance(1, 8) {
				n = 6 + r.Intn(12)
			}
			if r.Chance(1, 20) {
				n = 0
			}
			for k := 0; k < n; k++ {
				body.WriteString(regexItem(r, e))
			}
			text := "/" + body.String()
			switch r.Intn(14) {
			case 0:
				e.stat("gen:no-close")
			case 1:
				text += "\\"
				e.stat("gen:ends-in-backslash")
			default:
				text += "/" + regexFlags(r) + regexFollow[r.Intn(len(regexFollow))]
			}
			if r.Chance(1, 8) {
				text = regexMutate(r, text)
				e.stat("gen:mutated")
			} else {
				e.stat("gen:grammar")
			}
			if r.Chance(1, 20) {
				text = regexBoundary[r.Intn(len(regexBoundary))]
				e.stat("gen:boundary")
			}
			// ---- scan
			prefix := regexPrefix[r.Intn(len(regexPrefix))]
			exp := regexScanLexer(prefix, text)
			f := strings.Fields(exp)
			tag := "scan:" + f[0]
			if (f[0] == "ok" || f[0] == "syntax") && f[2] != "-" {
				tag += ":dups"
			}
			if f[0] == "ok" && len(f) > 3 {
				tag += ":uv"
			}
			if strings.HasPrefix(text, "/=") && f[0] == "ok" {
				tag += ":slash-equals"
			}
			e.stat(tag)
			// the parser path must agree where it is comparable
			litLen := -1
			if f[0] == "ok" {
				fmt.Sscan(f[1], &litLen)
			}
			if f[0] == "unterminated" || f[0] == "syntax" || (f[0] == "ok" && (litLen == len(text) || text[litLen:] == ";")) {
				if viaParser := regexScanParser(text); viaParser != exp {
					exp = "real-paths-disagree lexer=" + exp + " parser=" + viaParser
					e.stat("scan:REAL-PATHS-DISAGREE")
				} else {
					e.stat("scan:parser-path-agrees")
				}
			}
			e.emit(fmt.Sprintf("regexlex\tscan\t%s\t%s", regexIdna(text), regexHexRunes(text)), exp)
			if f[0] != "ok" || f[2] != "-" || len(f) > 3 || e.full() {
				continue
			}
			value := text[:litLen]
			// ---- feature detection and the new RegExp(…) rewriting
			var mask compat.JSFeature
			viaTarget := -1
			if r.Chance(1, 2) {
				viaTarget = r.Intn(len(regexTargets))
				mask = regexTargetMask(regexTargets[viaTarget].year)
				e.stat("feat:mask-from-target")
			} else {
				for _, ft := range regexFeatures {
					if r.Chance(1, 2) {
						mask |= ft
					}
				}
				e.stat("feat:mask-random")
			}
			fexp := regexFeatParser(value, mask)
			if viaTarget >= 0 {
				t := regexFeatTransform(value, regexTargets[viaTarget].t)
				// the public API does not return the debug message: compare everything but the reason
				cmp := fexp
				if strings.HasPrefix(cmp, "lower ") {
					cmp = cmp[:strings.LastIndexByte(cmp, ' ')]
				} else if strings.HasPrefix(cmp, "keep-err") {
					cmp = "keep-err"
				}
				if t != cmp {
					fexp = "real-paths-disagree parser=" + fexp + " transform=" + t
					e.stat("feat:REAL-PATHS-DISAGREE")
				} else {
					e.stat("feat:transform-path-agrees")
				}
			}
			ff := strings.Fields(fexp)
			ftag := "feat:" + ff[0]
			if ff[0] == "lower" {
				why := ff[3]
				if strings.HasPrefix(why, "flag:") {
					why = "flag"
				}
				ftag += ":" + why
				if ff[2] == "none" {
					ftag += ":one-arg"
				}
			}
			e.stat(ftag)
			e.emit(fmt.Sprintf("regexlex\tfeat\t%s\t%s", regexBits(mask), regexHexRunes(value)), fexp)
			if e.full() {
				continue
			}
			if pf := regexFeatParser(value, 0); strings.HasPrefix(pf, "keep-err") {
				e.stat("print:skipped-paren-error") // the transform fails with "Unexpected )"
				continue
			}
			// ---- the printer
			t := regexTemplates[r.Intn(len(regexTemplates))]
			noInline := r.Chance(1, 4)
			pexp := regexPrintReal(strings.Replace(t.src, "V", value, 1), noInline, value)
			e.stat("print:" + t.name)
			if strings.HasPrefix(pexp, "err ") {
				e.stat("print:transform-error")
			} else {
				pf := strings.Fields(pexp)
				e.stat("print:reparse-" + pf[1])
				if pf[0] == regexHexRunes(t.pre+" "+value+map[bool]string{true: " ", false: ""}[t.ident]+t.post) {
					switch {
					case strings.HasSuffix(t.pre, "/"):
						e.stat("print:space-after-slash")
					case strings.HasSuffix(t.pre, "<"):
						e.stat("print:space-before-script")
					default:
						e.stat("print:space-UNEXPECTED")
					}
				} else if strings.HasSuffix(t.pre, "<") && len(value) >= 7 && strings.EqualFold(value[:7], "/script") {
					e.stat("print:script-not-spaced-inline-script-unsupported")
				}
			}
			ni, id := 0, 0
			if noInline {
				ni = 1
			}
			if t.ident {
				id = 1
			}
			e.emit(fmt.Sprintf("regexlex\tprint\t%d\t%s\t%s\t%d\t%s", ni, regexHexRunes(t.pre), regexHexRunes(value), id, regexHexRunes(t.post)), pexp)
		}
	}
}
