package main

import (
	"fmt"
	"strings"

	"github.com/evanw/esbuild/internal/js_ast"
	"github.com/evanw/esbuild/verifharness/gen"
)

// kernel "prec": parenthesisation of the expression printer and the expression grammar.
//
//	print: a generated expression tree is built as js_ast by hand, printed by the REAL js_printer (as an expression
//	       statement, or as the init of a `for(;;)` so that forbidIn is set), the output is cut into tokens by the
//	       REAL js_lexer; the Lean model `PrecPrint.print` must give the same token list.
//	parse: a token stream (real printer output, mutated output, or random tokens) is parsed by the REAL js_parser;
//	       the S-expression of its AST (or `reject`) must equal the Lean reference parser's answer. A sample of the
//	       streams is also given to V8 (`new Function`) to confirm acceptance / rejection.
type pexpr struct {
	kind byte // i n u b c d x k w
	// foldLeaf: build `-n` as ENumber{-n} and `void 0` as EUndefined (what the parser's second pass produces); the
	// printer has separate code for them (printNumber with a sign, printUndefined) that must print like the unary form
	foldLeaf bool
	op       js_ast.OpCode
	n        int
	kids     []*pexpr
}

var precOpNames = []string{
	"UnOpPos", "UnOpNeg", "UnOpCpl", "UnOpNot", "UnOpVoid", "UnOpTypeof", "UnOpDelete", "UnOpPreDec", "UnOpPreInc",
	"UnOpPostDec", "UnOpPostInc", "BinOpAdd", "BinOpSub", "BinOpMul", "BinOpDiv", "BinOpRem", "BinOpPow", "BinOpLt",
	"BinOpLe", "BinOpGt", "BinOpGe", "BinOpIn", "BinOpInstanceof", "BinOpShl", "BinOpShr", "BinOpUShr", "BinOpLooseEq",
	"BinOpLooseNe", "BinOpStrictEq", "BinOpStrictNe", "BinOpNullishCoalescing", "BinOpLogicalOr", "BinOpLogicalAnd",
	"BinOpBitwiseOr", "BinOpBitwiseAnd", "BinOpBitwiseXor", "BinOpComma", "BinOpAssign", "BinOpAddAssign",
	"BinOpSubAssign", "BinOpMulAssign", "BinOpDivAssign", "BinOpRemAssign", "BinOpPowAssign", "BinOpShlAssign",
	"BinOpShrAssign", "BinOpUShrAssign", "BinOpBitwiseOrAssign", "BinOpBitwiseAndAssign", "BinOpBitwiseXorAssign",
	"BinOpNullishCoalescingAssign", "BinOpLogicalOrAssign", "BinOpLogicalAndAssign",
}

func (x *pexpr) wire(sb *strings.Builder) {
	switch x.kind {
	case 'i', 'n':
		fmt.Fprintf(sb, "%c%d ", x.kind, x.n)
	case 'u', 'b':
		fmt.Fprintf(sb, "%c %s ", x.kind, precOpNames[x.op])
		for _, k := range x.kids {
			k.wire(sb)
		}
	case 'c', 'x':
		fmt.Fprintf(sb, "%c ", x.kind)
		for _, k := range x.kids {
			k.wire(sb)
		}
	case 'd':
		sb.WriteString("d ")
		x.kids[0].wire(sb)
		fmt.Fprintf(sb, "%d ", x.n)
	case 'k', 'w':
		fmt.Fprintf(sb, "%c ", x.kind)
		x.kids[0].wire(sb)
		fmt.Fprintf(sb, "%d ", len(x.kids)-1)
		for _, k := range x.kids[1:] {
			k.wire(sb)
		}
	}
}

// sexp is the canonical S-expression (same text as Lean's showExpr)
func (x *pexpr) sexp() string {
	switch x.kind {
	case 'i', 'n':
		return fmt.Sprintf("%c%d", x.kind, x.n)
	case 'u', 'b':
		s := fmt.Sprintf("(%c %s", x.kind, precOpNames[x.op])
		for _, k := range x.kids {
			s += " " + k.sexp()
		}
		return s + ")"
	case 'd':
		return fmt.Sprintf("(d %s %d)", x.kids[0].sexp(), x.n)
	default:
		s := fmt.Sprintf("(%c", x.kind)
		for _, k := range x.kids {
			s += " " + k.sexp()
		}
		return s + ")"
	}
}

type precGen struct {
	r *gen.Rand
	// illFormed: allow assignment / update targets that are not identifiers or member accesses (print ops only)
	illFormed bool
}

func (g *precGen) leaf() *pexpr {
	if g.r.Chance(1, 12) {
		if g.r.Bool() {
			return &pexpr{kind: 'u', op: js_ast.UnOpNeg, foldLeaf: true, kids: []*pexpr{{kind: 'n', n: []int{0, 1, 5, 10, 999}[g.r.Intn(5)]}}}
		}
		return &pexpr{kind: 'u', op: js_ast.UnOpVoid, foldLeaf: true, kids: []*pexpr{{kind: 'n', n: 0}}}
	}
	if g.r.Chance(1, 4) {
		if g.r.Chance(1, 8) {
			return &pexpr{kind: 'n', n: []int{10, 99, 100, 999, 42, 500}[g.r.Intn(6)]}
		}
		return &pexpr{kind: 'n', n: g.r.Intn(10)}
	}
	return &pexpr{kind: 'i', n: g.r.Intn(6)}
}

// target: identifier or member access (the only shapes the parser produces left of `=` / under `++`)
func (g *precGen) target(depth int) *pexpr {
	if g.illFormed && g.r.Chance(1, 3) {
		return g.expr(depth)
	}
	if depth <= 0 || g.r.Chance(1, 3) {
		return &pexpr{kind: 'i', n: g.r.Intn(6)}
	}
	if g.r.Bool() {
		return &pexpr{kind: 'd', n: g.r.Intn(6), kids: []*pexpr{g.expr(depth - 1)}}
	}
	return &pexpr{kind: 'x', kids: []*pexpr{g.expr(depth - 1), g.expr(depth - 1)}}
}

func (g *precGen) binOp() js_ast.OpCode {
	switch g.r.Intn(10) {
	case 0:
		return []js_ast.OpCode{js_ast.BinOpIn, js_ast.BinOpPow, js_ast.BinOpNullishCoalescing, js_ast.BinOpLogicalOr,
			js_ast.BinOpLogicalAnd, js_ast.BinOpComma, js_ast.BinOpAdd, js_ast.BinOpSub}[g.r.Intn(8)]
	case 1:
		return js_ast.BinOpAssign + js_ast.OpCode(g.r.Intn(int(js_ast.BinOpLogicalAndAssign-js_ast.BinOpAssign)+1))
	default:
		return js_ast.BinOpAdd + js_ast.OpCode(g.r.Intn(int(js_ast.BinOpComma-js_ast.BinOpAdd)+1))
	}
}

func (g *precGen) expr(depth int) *pexpr {
	if depth <= 0 || g.r.Chance(1, 6) {
		return g.leaf()
	}
	d := depth - 1
	if g.r.Chance(1, 8) {
		return g.special(d)
	}
	switch g.r.Intn(16) {
	case 0, 1, 2:
		op := js_ast.OpCode(g.r.Intn(int(js_ast.UnOpPostInc) + 1))
		if op.UnaryAssignTarget() != js_ast.AssignTargetNone {
			return &pexpr{kind: 'u', op: op, kids: []*pexpr{g.target(d)}}
		}
		return &pexpr{kind: 'u', op: op, kids: []*pexpr{g.expr(d)}}
	case 3, 4, 5, 6, 7, 8:
		op := g.binOp()
		if op.BinaryAssignTarget() != js_ast.AssignTargetNone {
			return &pexpr{kind: 'b', op: op, kids: []*pexpr{g.target(d), g.expr(d)}}
		}
		return &pexpr{kind: 'b', op: op, kids: []*pexpr{g.expr(d), g.expr(d)}}
	case 9, 10:
		return &pexpr{kind: 'c', kids: []*pexpr{g.expr(d), g.expr(d), g.expr(d)}}
	case 11:
		return &pexpr{kind: 'd', n: g.r.Intn(6), kids: []*pexpr{g.expr(d)}}
	case 12:
		return &pexpr{kind: 'x', kids: []*pexpr{g.expr(d), g.expr(d)}}
	default:
		kind := byte('k')
		if g.r.Chance(2, 5) {
			kind = 'w'
		}
		kids := []*pexpr{g.expr(d)}
		for n := g.r.Intn(4); n > 0; n-- {
			kids = append(kids, g.expr(d))
		}
		return &pexpr{kind: kind, kids: kids}
	}
}

// targetsOk: assignment and update targets are identifiers or member accesses (what the parser accepts)
func (x *pexpr) targetsOk() bool {
	for _, k := range x.kids {
		if !k.targetsOk() {
			return false
		}
	}
	simple := func(t *pexpr) bool { return t.kind == 'i' || t.kind == 'd' || t.kind == 'x' }
	switch x.kind {
	case 'u':
		if x.op.UnaryAssignTarget() != js_ast.AssignTargetNone && !simple(x.kids[0]) {
			return false
		}
	case 'b':
		if x.op.BinaryAssignTarget() != js_ast.AssignTargetNone && !simple(x.kids[0]) {
			return false
		}
	}
	return true
}

func (x *pexpr) isComma() bool { return x.kind == 'b' && x.op == js_ast.BinOpComma }

// normComma re-associates comma chains to the left (`a, (b, c)` is printed `a, b, c`, which parses as `(a, b), c`):
// the tree the printed form denotes (Lean: Expr.normComma)
func (x *pexpr) normComma() *pexpr {
	y := &pexpr{kind: x.kind, op: x.op, n: x.n, foldLeaf: x.foldLeaf}
	for _, k := range x.kids {
		y.kids = append(y.kids, k.normComma())
	}
	if y.isComma() {
		return appendComma(y.kids[0], y.kids[1])
	}
	return y
}

func appendComma(l, r *pexpr) *pexpr {
	if r.isComma() {
		return pb(js_ast.BinOpComma, appendComma(l, r.kids[0]), r.kids[1])
	}
	return pb(js_ast.BinOpComma, l, r)
}

func pb(op js_ast.OpCode, l, r *pexpr) *pexpr { return &pexpr{kind: 'b', op: op, kids: []*pexpr{l, r}} }
func pu(op js_ast.OpCode, v *pexpr) *pexpr    { return &pexpr{kind: 'u', op: op, kids: []*pexpr{v}} }

// special: the parent/child situations the printer treats specially (token gluing, `**`, `??`, `new`, `in`, comma)
func (g *precGen) special(d int) *pexpr {
	x, y := g.expr(d), g.expr(d)
	switch g.r.Intn(16) {
	case 0: // a + +b, a + ++b, a - -b, a - --b and the non-gluing mixes
		op := []js_ast.OpCode{js_ast.BinOpAdd, js_ast.BinOpSub}[g.r.Intn(2)]
		in := []js_ast.OpCode{js_ast.UnOpPos, js_ast.UnOpNeg, js_ast.UnOpPreInc, js_ast.UnOpPreDec}[g.r.Intn(4)]
		v := y
		if in.UnaryAssignTarget() != js_ast.AssignTargetNone {
			v = g.target(d)
		}
		return pb(op, x, pu(in, v))
	case 1: // + +a, - -a, + ++a, - --a, !--a
		out := []js_ast.OpCode{js_ast.UnOpPos, js_ast.UnOpNeg, js_ast.UnOpNot}[g.r.Intn(3)]
		in := []js_ast.OpCode{js_ast.UnOpPos, js_ast.UnOpNeg, js_ast.UnOpPreInc, js_ast.UnOpPreDec}[g.r.Intn(4)]
		v := y
		if in.UnaryAssignTarget() != js_ast.AssignTargetNone {
			v = g.target(d)
		}
		return pu(out, pu(in, v))
	case 2: // a < !--b, a << !--b (`<!--` would open a comment)
		op := []js_ast.OpCode{js_ast.BinOpLt, js_ast.BinOpShl, js_ast.BinOpLe}[g.r.Intn(3)]
		return pb(op, x, pu(js_ast.UnOpNot, pu(js_ast.UnOpPreDec, g.target(d))))
	case 3: // a-- > b, a++ + b
		post := []js_ast.OpCode{js_ast.UnOpPostDec, js_ast.UnOpPostInc}[g.r.Intn(2)]
		op := []js_ast.OpCode{js_ast.BinOpGt, js_ast.BinOpAdd, js_ast.BinOpSub, js_ast.BinOpGe, js_ast.BinOpShr}[g.r.Intn(5)]
		return pb(op, pu(post, g.target(d)), y)
	case 4: // 1 .x, 10 .x [y]
		n := &pexpr{kind: 'n', n: []int{0, 1, 10, 999}[g.r.Intn(4)]}
		if g.r.Bool() {
			return &pexpr{kind: 'd', n: g.r.Intn(6), kids: []*pexpr{n}}
		}
		return &pexpr{kind: 'x', kids: []*pexpr{n, y}}
	case 5: // ** with every kind of left operand
		var l *pexpr
		switch g.r.Intn(6) {
		case 5: // ENumber{-n} / EUndefined: printed with a unary operator, so they need the parentheses too
			l = &pexpr{kind: 'u', op: js_ast.UnOpNeg, foldLeaf: true, kids: []*pexpr{{kind: 'n', n: g.r.Intn(10)}}}
			if g.r.Bool() {
				l = &pexpr{kind: 'u', op: js_ast.UnOpVoid, foldLeaf: true, kids: []*pexpr{{kind: 'n', n: 0}}}
			}
		case 0:
			l = pu(js_ast.OpCode(g.r.Intn(int(js_ast.UnOpDelete)+1)), x)
		case 1:
			l = pu([]js_ast.OpCode{js_ast.UnOpPreDec, js_ast.UnOpPreInc, js_ast.UnOpPostDec, js_ast.UnOpPostInc}[g.r.Intn(4)], g.target(d))
		case 2:
			l = &pexpr{kind: 'n', n: g.r.Intn(10)}
		case 3:
			l = pb(js_ast.BinOpPow, x, g.expr(d))
		default:
			l = x
		}
		return pb(js_ast.BinOpPow, l, y)
	case 6: // ?? against || and &&
		inner := pb([]js_ast.OpCode{js_ast.BinOpLogicalOr, js_ast.BinOpLogicalAnd, js_ast.BinOpNullishCoalescing}[g.r.Intn(3)], x, g.expr(d))
		if g.r.Bool() {
			return pb(js_ast.BinOpNullishCoalescing, inner, y)
		}
		return pb(js_ast.BinOpNullishCoalescing, y, inner)
	case 7: // || / && over ??
		inner := pb(js_ast.BinOpNullishCoalescing, x, g.expr(d))
		op := []js_ast.OpCode{js_ast.BinOpLogicalOr, js_ast.BinOpLogicalAnd}[g.r.Intn(2)]
		if g.r.Bool() {
			return pb(op, inner, y)
		}
		return pb(op, y, inner)
	case 8: // new with a call / member-of-call / new as target
		var t *pexpr
		switch g.r.Intn(4) {
		case 0:
			t = &pexpr{kind: 'k', kids: []*pexpr{x}}
		case 1:
			t = &pexpr{kind: 'd', n: 1, kids: []*pexpr{{kind: 'k', kids: []*pexpr{x, y}}}}
		case 2:
			t = &pexpr{kind: 'w', kids: []*pexpr{x}}
		default:
			t = &pexpr{kind: 'x', kids: []*pexpr{{kind: 'w', kids: []*pexpr{x}}, y}}
		}
		return &pexpr{kind: 'w', kids: []*pexpr{t}}
	case 9: // argument-less new in every kind of position (its `()` is dropped under MinifyWhitespace below LPostfix)
		nw := &pexpr{kind: 'w', kids: []*pexpr{x}}
		switch g.r.Intn(6) {
		case 0:
			return pb(g.binOp(), nw, y)
		case 1:
			return &pexpr{kind: 'd', n: 2, kids: []*pexpr{nw}}
		case 2:
			return &pexpr{kind: 'k', kids: []*pexpr{nw, y}}
		case 3:
			return pu(js_ast.UnOpTypeof, nw)
		case 4:
			return &pexpr{kind: 'x', kids: []*pexpr{nw, y}}
		default:
			return &pexpr{kind: 'c', kids: []*pexpr{nw, y, nw}}
		}
	case 10: // `in` where forbidIn has to travel: under =, ?:, comma, other binaries
		in := pb(js_ast.BinOpIn, x, y)
		switch g.r.Intn(5) {
		case 0:
			return pb(js_ast.BinOpAssign, g.target(d), in)
		case 1:
			return &pexpr{kind: 'c', kids: []*pexpr{in, in, in}}
		case 2:
			return pb(js_ast.BinOpComma, in, in)
		case 3:
			return pb(js_ast.BinOpLogicalAnd, in, g.expr(d))
		default:
			return pu(js_ast.UnOpNot, in)
		}
	case 11: // comma inside arguments, branches, index
		c := pb(js_ast.BinOpComma, x, y)
		if g.r.Chance(1, 3) { // right-nested: printed without parentheses, read back left-nested
			c = pb(js_ast.BinOpComma, x, pb(js_ast.BinOpComma, y, g.expr(d)))
		}
		switch g.r.Intn(4) {
		case 0:
			return &pexpr{kind: 'k', kids: []*pexpr{g.expr(d), c, g.expr(d)}}
		case 1:
			return &pexpr{kind: 'c', kids: []*pexpr{c, c, c}}
		case 2:
			return &pexpr{kind: 'x', kids: []*pexpr{g.expr(d), c}}
		default:
			return pb(js_ast.BinOpAssign, g.target(d), c)
		}
	case 12: // keyword operators next to words and numbers
		kw := []js_ast.OpCode{js_ast.UnOpTypeof, js_ast.UnOpVoid, js_ast.UnOpDelete}[g.r.Intn(3)]
		inner := pu([]js_ast.OpCode{js_ast.UnOpTypeof, js_ast.UnOpVoid, js_ast.UnOpNeg, js_ast.UnOpNot}[g.r.Intn(4)], x)
		return pb([]js_ast.OpCode{js_ast.BinOpIn, js_ast.BinOpInstanceof}[g.r.Intn(2)], pu(kw, inner), g.leaf())
	case 13: // assignment chains and conditionals nested to the right and to the left
		return pb(js_ast.BinOpAssign, g.target(d), pb(js_ast.BinOpAddAssign, g.target(d), &pexpr{kind: 'c', kids: []*pexpr{x, pb(js_ast.BinOpAssign, g.target(d), y), &pexpr{kind: 'c', kids: []*pexpr{y, x, y}}}}))
	case 14: // conditional as test / under unary / as operand
		c := &pexpr{kind: 'c', kids: []*pexpr{x, y, g.expr(d)}}
		switch g.r.Intn(3) {
		case 0:
			return &pexpr{kind: 'c', kids: []*pexpr{c, c, c}}
		case 1:
			return pu(js_ast.UnOpNeg, c)
		default:
			return pb(g.binOp(), c, c)
		}
	default: // same-level chains on both sides
		op := js_ast.BinOpAdd + js_ast.OpCode(g.r.Intn(int(js_ast.BinOpBitwiseXor-js_ast.BinOpAdd)+1))
		return pb(op, pb(op, x, y), pb(op, g.expr(d), g.expr(d)))
	}
}

// fullParen renders the tree as JavaScript source with every sub-expression parenthesised (the INPUT of an
// end-to-end witness: esbuild must print it with enough parentheses to stay valid and stable)
func (x *pexpr) fullParen() string {
	switch x.kind {
	case 'i':
		return fmt.Sprintf("x%d", x.n)
	case 'n':
		return fmt.Sprint(x.n)
	case 'u':
		t := js_ast.OpTable[x.op].Text
		v := "(" + x.kids[0].fullParen() + ")"
		if x.kids[0].kind == 'i' || x.kids[0].kind == 'd' || x.kids[0].kind == 'x' {
			v = x.kids[0].fullParen() // update / delete targets must stay simple
		}
		if x.op == js_ast.UnOpPostDec || x.op == js_ast.UnOpPostInc {
			return v + t
		}
		return t + " " + v
	case 'b':
		l := "(" + x.kids[0].fullParen() + ")"
		if x.op.BinaryAssignTarget() != js_ast.AssignTargetNone {
			l = x.kids[0].fullParen()
		}
		return l + " " + js_ast.OpTable[x.op].Text + " (" + x.kids[1].fullParen() + ")"
	case 'c':
		return "(" + x.kids[0].fullParen() + ") ? (" + x.kids[1].fullParen() + ") : (" + x.kids[2].fullParen() + ")"
	case 'd':
		return "(" + x.kids[0].fullParen() + ")" + fmt.Sprintf(".x%d", x.n)
	case 'x':
		return "(" + x.kids[0].fullParen() + ")[" + x.kids[1].fullParen() + "]"
	case 'k', 'w':
		args := []string{}
		for _, k := range x.kids[1:] {
			args = append(args, "("+k.fullParen()+")")
		}
		pre := ""
		if x.kind == 'w' {
			pre = "new "
		}
		return pre + "(" + x.kids[0].fullParen() + ")(" + strings.Join(args, ", ") + ")"
	}
	return "0"
}
