package main

import (
	"fmt"
	"os"
	"path/filepath"
	"strings"

	esfs "github.com/evanw/esbuild/internal/fs"
	"github.com/evanw/esbuild/verifharness/gen"
)

func rpKindText(k esfs.EntryKind) string {
	switch k {
	case esfs.DirEntry:
		return "dir"
	case esfs.FileEntry:
		return "file"
	}
	return "0"
}

func init() {
	kernels["realpath"] = func(r *gen.Rand, e *emitter, tier string) {
		base, err := os.MkdirTemp(os.Getenv("VERIF_WORK"), "vrp")
		if err != nil {
			panic(err)
		}
		defer os.RemoveAll(base)
		if real, err := filepath.EvalSymlinks(base); err == nil {
			base = real
		}
		var batch []rpNodeCheck
		var pending []string
		flush := func() {
			rpNodeBatch(e, base, batch)
			batch = nil
			for _, p := range pending {
				os.RemoveAll(p)
			}
			pending = nil
		}
		for n := 0; !e.full(); n++ {
			// the tree sits below a private chain of directories, so that a link that climbs out of the tree with ".."
			// lands in a directory that the model knows completely (it holds nothing but the chain)
			caseDir := filepath.Join(base, fmt.Sprintf("c%d", n))
			c := &rpCase{root: filepath.Join(caseDir, "0/0/0/0/0/0")}
			rpBuild(r, e, c)
			pending = append(pending, caseDir)
			wire, rel, links := rpWire(c.root)
			dirs, files, broken := rpEnumerate(c.root, 5, 160)
			escaped := false
			for _, l := range [][]string{dirs, files} {
				for _, p := range l {
					if real, err := filepath.EvalSymlinks(p); err == nil && !strings.HasPrefix(real, caseDir+"/") {
						escaped = true
					}
				}
			}
			if escaped { // a pathname reaches directories that other processes own: not a closed world
				e.stat("tree:discarded-climbs-out-of-the-private-chain")
				continue
			}
			e.stat("tree")
			if len(broken) > 0 {
				e.stat("tree:has-broken-or-cyclic-link")
			}
			nops := 3 + r.Intn(6)
			for i := 0; i < nops && !e.full(); i++ {
				switch k := r.Intn(10); {
				case k < 2: // EvalSymlinks on a clean pathname
					p := rpPickPath(r, dirs, files, broken, r.Bool())
					rfs, _, _ := rpNewResolver(c.root, false)
					got, ok := rfs.EvalSymlinks(p)
					want, err := filepath.EvalSymlinks(p)
					if (err == nil) != ok || (ok && got != want) {
						e.stat("eval:STDLIB-DIFFERENT")
						e.emit(fmt.Sprintf("realpath\tnote\tEvalSymlinks of %s: esbuild %q, Go %q", p, got, want), "ok")
					}
					if ok {
						if got == p {
							e.stat("eval:already-real")
						} else {
							e.stat("eval:rewritten")
						}
					} else {
						e.stat("eval:error")
					}
					e.emit("realpath\teval\t"+wire+"\t"+p, rpOpt(got, ok))
					if r.Chance(1, 3) {
						batch = append(batch, rpNodeCheck{Path: p, Want: rpOpt(want, err == nil)})
					}
				case k < 3: // EvalSymlinks on a pathname with "." ".." "//" and a trailing slash
					p := rpPickPath(r, dirs, files, broken, r.Bool())
					comps := strings.Split(strings.TrimPrefix(p, "/"), "/")
					at := len(strings.Split(strings.TrimPrefix(c.root, "/"), "/")) + r.Intn(len(comps)-2)
					if at > len(comps) {
						at = len(comps)
					}
					ins := pickS(r, ".", "..", "", "absent/..", "f0.js/..", "lib/..")
					raw := "/" + strings.Join(comps[:at], "/") + "/" + ins + "/" + strings.Join(comps[at:], "/")
					if r.Chance(1, 4) && !strings.HasSuffix(raw, "/") {
						raw += "/"
					}
					rfs, _, _ := rpNewResolver(c.root, false)
					got, ok := rfs.EvalSymlinks(raw)
					want, err := filepath.EvalSymlinks(raw)
					if (err == nil) != ok || (ok && got != want) {
						e.stat("evalraw:STDLIB-DIFFERENT")
						e.emit(fmt.Sprintf("realpath\tnote\tEvalSymlinks of %s: esbuild %q, Go %q", raw, got, want), "ok")
					}
					if ok {
						e.stat("evalraw:ok")
					} else {
						e.stat("evalraw:error")
					}
					e.emit("realpath\tevalraw\t"+wire+"\t"+raw, rpOpt(got, ok))
					if r.Chance(1, 3) {
						batch = append(batch, rpNodeCheck{Path: raw, Want: rpOpt(want, err == nil)})
					}
				case k < 5: // realFS.kind through ReadDirectory + Get + Symlink / Kind
					dir := rpPickPath(r, dirs, files, broken, true)
					rfs, _, _ := rpNewResolver(c.root, false)
					entries, derr, _ := rfs.ReadDirectory(dir)
					baseName := pickS(r, "f0.js", "lib", "node_modules", "p0", "absent")
					if keys := entries.SortedKeys(); derr == nil && len(keys) > 0 && r.Chance(5, 6) {
						baseName = keys[r.Intn(len(keys))]
						if r.Chance(1, 8) {
							baseName = rpFlip(baseName)
						}
					}
					out := "nodir"
					if derr == nil {
						entry, _ := entries.Get(baseName)
						if entry == nil {
							out = "noentry"
							e.stat("kind:noentry")
						} else {
							sym := entry.Symlink(rfs)
							kd := entry.Kind(rfs)
							// the stored name is not exported: it is the real name whose lower-case form matches (last listed)
							stored := baseName
							if f, err := os.Open(dir); err == nil {
								names, _ := f.Readdirnames(-1)
								f.Close()
								for _, nm := range names {
									if strings.ToLower(nm) == strings.ToLower(baseName) {
										stored = nm
									}
								}
							}
							out = stored + " " + rpOpt(sym, true) + " " + rpKindText(kd)
							switch {
							case sym != "":
								e.stat("kind:link-" + rpKindText(kd))
							case kd == 0:
								e.stat("kind:skipped-entry")
							default:
								e.stat("kind:plain-" + rpKindText(kd))
							}
						}
					} else {
						e.stat("kind:nodir")
					}
					e.emit("realpath\tkind\t"+wire+"\t"+dir+"\t"+baseName, out)
				default:
					rpSession(r, e, c, wire, rel, links, dirs, files, broken)
				}
			}
			if len(pending) >= 150 {
				flush()
			}
		}
		flush()
		// malformed operations
		e.emit("realpath\teval\t-", "bad-op")
		e.emit("realpath\tsession\t/|a|x\t0\td:/a", "bad-op")
		e.emit("realpath\tsession\t/|a|d\t2\td:/a", "bad-op")
		e.emit("realpath\tsession\t/|a|d\t0\tq:/a", "bad-op")
		e.emit("realpath\teval\t/|a|d\ta/./b", "bad-op")
	}
}
