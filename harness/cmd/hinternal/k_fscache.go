package main

// Kernel `fscache` (work package fscache, C09): the file content cache `cache.FSCache.ReadFile`, the modification key
// (`fs.modKey` on real files), the watch-data states of files in `fs.realFS`, and the three parse caches of
// internal/cache/cache_ast.go — against lean/EsbuildModel/Impl/FsCache*.lean, AstCache.lean.
//
//   hist  : REAL FSCache.ReadFile over a scripted fs.FS (scripted stat data, scripted clock, edits between the
//           ModKey call and the ReadFile call); the scripted ModKey transcribes modkey_unix.go / modkey_other.go and is
//           itself checked against the real `modKey` by the probe operations.
//   probe : REAL fs.modKey (verif hook) on a real temp file whose mtime was set with os.Chtimes to now − d.
//   wd    : REAL fs.RealFS{WantWatchData} + FSCache on real temp files; WatchData(); edits; the predicates.
//   ast   : REAL JSCache / CSSCache / JSONCache request sequences; hit = the returned AST is a pointer seen before.
//
// This file: the scripted world and `hist`.

import (
	"fmt"
	"sort"
	"strings"
	"syscall"

	"github.com/evanw/esbuild/internal/cache"
	"github.com/evanw/esbuild/internal/fs"
	"github.com/evanw/esbuild/verifharness/gen"
)

type fcFile struct {
	ino      uint64
	mtime    int64
	mode     uint32
	uid      uint32
	contents string
}

func fcFloorDivMod(a, b int64) (int64, int64) {
	q, r := a/b, a%b
	if r < 0 {
		q--
		r += b
	}
	return q, r
}

// scripted fs.FS: everything but ModKey / ReadFile comes from the embedded mock and is never called by FSCache
type fcScripted struct {
	fs.FS
	plat   string
	gap    int64
	res    int64
	clock  int64
	world  map[int]*fcFile
	mids   []string // acts to perform when fs.ReadFile is reached
	nReads int
	st     func(string)
}

func fcPathNum(path string) int {
	var p int
	fmt.Sscanf(path, "/p%d", &p)
	return p
}

// transcription of modkey_unix.go / modkey_other.go over scripted stat data (validated by the probe operations)
func (s *fcScripted) ModKey(path string) (fs.ModKey, error) {
	f := s.world[fcPathNum(path)]
	if f == nil {
		s.st("hist:stat-enoent")
		return fs.ModKey{}, syscall.ENOENT
	}
	sec, nsec := fcFloorDivMod(f.mtime, 1000000000)
	nowSec, nowNsec := fcFloorDivMod(s.clock, 1000000000)
	if s.plat == "unix" {
		if sec == 0 && nsec == 0 {
			s.st("hist:unusable-zero")
			return fs.ModKey{}, fs.VerifModKeyUnusable()
		}
		m := sec + s.gap
		if m > nowSec || (m == nowSec && nsec > nowNsec) {
			s.st("hist:unusable-too-new")
			return fs.ModKey{}, fs.VerifModKeyUnusable()
		}
		s.st("hist:key-ok")
		return fs.VerifMakeModKey(f.ino, int64(len(f.contents)), sec, nsec, f.mode, f.uid), nil
	}
	if sec == 0 { // `mtime == zeroTime` (year 1) is not representable in int64 nanoseconds and never generated
		s.st("hist:unusable-zero")
		return fs.ModKey{}, fs.VerifModKeyUnusable()
	}
	if f.mtime+s.gap*1000000000 > s.clock {
		s.st("hist:unusable-too-new")
		return fs.ModKey{}, fs.VerifModKeyUnusable()
	}
	s.st("hist:key-ok")
	return fs.VerifMakeModKey(0, int64(len(f.contents)), sec, 0, f.mode, 0), nil
}

func (s *fcScripted) ReadFile(path string) (string, error, error) {
	s.nReads++
	for _, a := range s.mids {
		s.apply(a)
	}
	s.mids = nil
	f := s.world[fcPathNum(path)]
	if f == nil {
		return "", syscall.ENOENT, syscall.ENOENT
	}
	return f.contents, nil, nil
}

func (s *fcScripted) stamp() int64 {
	_, r := fcFloorDivMod(s.clock, s.res)
	return s.clock - r
}

func fcUnhex(h string) string {
	if h == "-" {
		return ""
	}
	var b []byte
	fmt.Sscanf(h, "%x", &b)
	return string(b)
}

// apply performs one act given in wire form (the world is spec side: Spec/StatCache.lean + Edit.result)
func (s *fcScripted) apply(act string) {
	f := strings.Split(act, ",")
	num := func(i int) int64 { var v int64; fmt.Sscanf(f[i], "%d", &v); return v }
	switch f[0] {
	case "k":
		s.clock += num(1)
		return
	case "s":
		s.clock = num(1)
		return
	}
	p := int(num(1))
	old := s.world[p]
	switch f[0] {
	case "w":
		if old != nil {
			s.world[p] = &fcFile{old.ino, s.stamp(), old.mode, old.uid, fcUnhex(f[2])}
		}
	case "c":
		if old != nil {
			s.world[p] = &fcFile{old.ino, s.stamp(), old.mode, old.uid, fcUnhex(f[5])}
		} else {
			s.world[p] = &fcFile{uint64(num(2)), s.stamp(), uint32(num(3)), uint32(num(4)), fcUnhex(f[5])}
		}
	case "r":
		s.world[p] = &fcFile{uint64(num(2)), s.stamp(), uint32(num(3)), uint32(num(4)), fcUnhex(f[5])}
	case "t":
		if old != nil {
			s.world[p] = &fcFile{old.ino, s.stamp(), old.mode, old.uid, old.contents}
		}
	case "m":
		if old != nil {
			s.world[p] = &fcFile{old.ino, old.mtime, uint32(num(2)), old.uid, old.contents}
		}
	case "o":
		if old != nil {
			s.world[p] = &fcFile{old.ino, old.mtime, old.mode, uint32(num(2)), old.contents}
		}
	case "d":
		delete(s.world, p)
	case "u":
		if old != nil {
			s.world[p] = &fcFile{old.ino, num(2), old.mode, old.uid, old.contents}
		}
	case "v":
		s.world[p] = &fcFile{uint64(num(2)), num(3), uint32(num(4)), uint32(num(5)), fcUnhex(f[6])}
	}
}

var fcContents = []string{"", "a", "b", "a", "b", "c", "ab", "ba", "abc"}
var fcAges = []int64{0, 1, 999, 1000000000, 2999999999, 3000000000, 3000000001, 4000000000, 10000000000, 1000000000000000}
var fcTicks = []int64{0, 1, 500000000, 1000000000, 2999999999, 3000000000, 3000000000, 3000000001, 4000000000, 10000000000}
var fcRes = []int64{1, 1, 1000, 1000000, 1000000000, 2000000000, 3000000000, 3000000001, 5000000000}

func fcPath(r *gen.Rand) int {
	if r.Chance(4, 5) {
		return r.Intn(2)
	}
	return r.Intn(4)
}

func fcGenEdit(r *gen.Rand, honest bool, clock int64) string {
	p := fcPath(r)
	c := hexBytes([]byte(fcContents[r.Intn(len(fcContents))]))
	ino := 1 + r.Intn(6)
	mode := []int{420, 493, 384}[r.Intn(3)]
	uid := []int{0, 1000}[r.Intn(2)]
	n := 9
	if honest {
		n = 7
	}
	switch r.Intn(n) {
	case 0:
		return fmt.Sprintf("w,%d,%s", p, c)
	case 1:
		return fmt.Sprintf("c,%d,%d,%d,%d,%s", p, ino, mode, uid, c)
	case 2:
		return fmt.Sprintf("r,%d,%d,%d,%d,%s", p, ino, mode, uid, c)
	case 3:
		return fmt.Sprintf("t,%d", p)
	case 4:
		return fmt.Sprintf("m,%d,%d", p, mode)
	case 5:
		return fmt.Sprintf("o,%d,%d", p, uid)
	case 6:
		return fmt.Sprintf("d,%d", p)
	case 7:
		return fmt.Sprintf("u,%d,%d", p, clock-fcAges[r.Intn(len(fcAges))])
	default:
		return fmt.Sprintf("v,%d,%d,%d,%d,%d,%s", p, ino, clock-fcAges[r.Intn(len(fcAges))], mode, uid, c)
	}
}

func fcGenAct(r *gen.Rand, honest bool, clock int64) string {
	switch r.Intn(10) {
	case 0, 1, 2:
		return fmt.Sprintf("k,%d", fcTicks[r.Intn(len(fcTicks))])
	case 3:
		if !honest && r.Chance(1, 2) {
			return fmt.Sprintf("s,%d", clock-fcAges[r.Intn(len(fcAges))]+fcTicks[r.Intn(len(fcTicks))])
		}
		return fmt.Sprintf("k,%d", fcTicks[r.Intn(len(fcTicks))])
	}
	return fcGenEdit(r, honest, clock)
}

func fcWorldWire(world map[int]*fcFile) string {
	var keys []int
	for k := range world {
		keys = append(keys, k)
	}
	sort.Ints(keys)
	if len(keys) == 0 {
		return "-"
	}
	var parts []string
	for _, k := range keys {
		f := world[k]
		parts = append(parts, fmt.Sprintf("%d:%d:%d:%d:%d:%s", k, f.ino, f.mtime, f.mode, f.uid, hexBytes([]byte(f.contents))))
	}
	return strings.Join(parts, ",")
}

func fcHist(r *gen.Rand, e *emitter) {
	honest := r.Chance(1, 2)
	plat := "unix"
	if r.Chance(1, 4) {
		plat = "other"
	}
	gap := []int64{3, 3, 3, 0, 1}[r.Intn(5)]
	res := fcRes[r.Intn(len(fcRes))]
	var clock int64
	switch r.Intn(5) {
	case 0:
		clock = int64(r.Intn(8)) * 1000000000 / 2 // near the epoch: stamps of 0, the zero rule
	case 1:
		clock = -int64(r.Intn(10000000000)) // before 1970
	default:
		clock = 1700000000000000000 + int64(r.Intn(2000000000))
	}
	s := &fcScripted{plat: plat, gap: gap, res: res, clock: clock, world: map[int]*fcFile{}, st: e.stat}
	for p := 0; p < 4; p++ {
		if r.Chance(3, 5) {
			mt := clock - fcAges[r.Intn(len(fcAges))]
			if r.Chance(1, 12) {
				mt = int64(r.Intn(3)) * 500000000
			}
			s.world[p] = &fcFile{uint64(1 + r.Intn(6)), mt, 420, 1000, fcContents[r.Intn(len(fcContents))]}
		}
	}
	world0, clock0 := fcWorldWire(s.world), clock
	c := cache.MakeCacheSet()
	var ops, answers []string
	nops := 4 + r.Intn(12)
	for i := 0; i < nops; i++ {
		if !honest && r.Chance(1, 8) {
			// the classic: new contents of the same length, then the old time stamp is put back
			p := fcPath(r)
			if f := s.world[p]; f != nil && len(f.contents) > 0 {
				c := []byte(f.contents)
				c[0] ^= 1
				for _, a := range []string{fmt.Sprintf("w,%d,%s", p, hexBytes(c)), fmt.Sprintf("u,%d,%d", p, f.mtime)} {
					s.apply(a)
					ops = append(ops, a)
				}
				e.stat("hist:restore-mtime")
			}
			continue
		}
		if r.Chance(9, 20) {
			p := fcPath(r)
			op := fmt.Sprintf("R,%d", p)
			if r.Chance(1, 4) {
				for j := 1 + r.Intn(2); j > 0; j-- {
					a := fcGenAct(r, honest, s.clock)
					s.mids = append(s.mids, a)
					op += "|" + a
				}
				e.stat("hist:read-with-mids")
			}
			before := s.nReads
			truthAtStat, okAtStat := "", false
			if f := s.world[p]; f != nil {
				truthAtStat, okAtStat = f.contents, true
			}
			contents, err, _ := c.FSCache.ReadFile(s, fmt.Sprintf("/p%d", p))
			hit := s.nReads == before
			s.mids = nil
			switch {
			case hit && err == nil:
				answers = append(answers, "h"+hexBytes([]byte(contents)))
				e.stat("hist:hit")
				if !okAtStat || truthAtStat != contents {
					e.stat("hist:hit-STALE(dishonest history or resolution > gap)")
				}
			case err == nil:
				answers = append(answers, "m"+hexBytes([]byte(contents)))
				e.stat("hist:miss-ok")
			case !hit:
				answers = append(answers, "me")
				e.stat("hist:miss-err")
			default:
				answers = append(answers, "he")
			}
			ops = append(ops, op)
		} else {
			a := fcGenAct(r, honest, s.clock)
			s.apply(a)
			ops = append(ops, a)
		}
	}
	if honest {
		e.stat("hist:honest-history")
	} else {
		e.stat("hist:any-history")
	}
	e.stat("hist:plat-" + plat)
	ans := "-"
	if len(answers) > 0 {
		ans = strings.Join(answers, " ")
	}
	e.emit(fmt.Sprintf("fscache\thist\t%s\t%d\t%d\t%d\t%s\t%s", plat, gap, res, clock0, world0, strings.Join(ops, ";")), ans)
}
