package main

import (
	"fmt"
	"strings"

	"github.com/evanw/esbuild/internal/js_parser"
	"github.com/evanw/esbuild/internal/logger"
	"github.com/evanw/esbuild/verifharness/gen"
)

// kernel "smsections": index source maps whose sections have missing, shorter and longer "sourcesContent"
// arrays, missing versions, empty mappings and empty sources are flattened by the real ParseSourceMap; the
// lengths of the aggregated arrays (or a recovered panic) are compared with the Lean model.
func init() {
	kernels["smsections"] = func(r *gen.Rand, e *emitter, tier string) {
		for !e.full() {
			n := r.Intn(6)
			secs := []string{}
			wire := []string{}
			flat := r.Chance(1, 8) && n == 1
			for i := 0; i < n; i++ {
				hasV, hasM := r.Chance(5, 6), r.Chance(5, 6)
				ns, nc := r.Intn(4), r.Intn(6)
				if r.Chance(1, 3) {
					nc = 0
				}
				srcs, cont := []string{}, []string{}
				for k := 0; k < ns; k++ {
					srcs = append(srcs, fmt.Sprintf("\"s%d_%d.js\"", i, k))
				}
				for k := 0; k < nc; k++ {
					if r.Chance(1, 5) {
						cont = append(cont, "null")
					} else {
						cont = append(cont, fmt.Sprintf("\"c%d_%d\"", i, k))
					}
				}
				props := []string{}
				if hasV {
					props = append(props, "\"version\": 3")
				}
				props = append(props, "\"sources\": ["+strings.Join(srcs, ", ")+"]")
				if nc > 0 || r.Bool() {
					props = append(props, "\"sourcesContent\": ["+strings.Join(cont, ", ")+"]")
				}
				if hasM {
					props = append(props, "\"mappings\": \"AAAA\"")
				} else {
					props = append(props, "\"mappings\": \"\"")
				}
				props = append(props, "\"names\": []")
				m := "{" + strings.Join(props, ", ") + "}"
				if flat {
					secs = append(secs, m)
				} else {
					secs = append(secs, fmt.Sprintf("{\"offset\": {\"line\": %d, \"column\": 0}, \"map\": %s}", i, m))
				}
				wire = append(wire, fmt.Sprintf("%s:%s:%d:%d", b01(hasV), b01(hasM), ns, nc))
			}
			text := "{\"version\": 3, \"sections\": [" + strings.Join(secs, ", ") + "]}"
			if flat {
				text = secs[0]
			}
			out := guard(func() string {
				log := logger.NewDeferLog(logger.DeferLogAll, nil)
				sm := js_parser.ParseSourceMap(log, logger.Source{Contents: text, KeyPath: logger.Path{Text: "/x.js.map", Namespace: "file"}, PrettyPaths: logger.PrettyPaths{Abs: "/x.js.map", Rel: "x.js.map"}})
				if sm == nil {
					return "nil"
				}
				return fmt.Sprintf("%d %d", len(sm.Sources), len(sm.SourcesContent))
			})
			op := "-"
			if len(wire) > 0 {
				op = strings.Join(wire, ",")
			}
			e.stat(fmt.Sprintf("sections=%d", n))
			if strings.Contains(out, " ") {
				e.stat("out:map")
			} else {
				e.stat("out:" + out)
			}
			e.emit("smsections\t"+op, out)
		}
	}
}
