package main

import (
	"encoding/json"
	"fmt"
	"os"
	"os/exec"
	"path/filepath"
	"strings"

	"github.com/evanw/esbuild/pkg/api"
	"github.com/evanw/esbuild/verifharness/gen"
)

// kernel "privlowersem": validates the two EVALUATORS the theorems of Props/C05Private.lean are about — the
// ECMA-262 semantics of private names (Spec/JsPrivate.lean) and the semantics of what esbuild emits, run-time
// helpers included (Impl/PrivLower.lean) — against Node 20: each generated class program (k_privlower_gen.go) is
// run (a) as written and (b) as pkg/api Transform emits it for target es2021, inside a deterministic
// pseudo-random world (probe functions f0..f2 that log their argument, may throw and may reassign v0..v3; two
// foreign objects; ToPrimitive of every object throws a TypeError). Expected line:
// "<events>|<result>|<v0..v3>" for (a) ## the same for (b), objects named R<k> by first appearance; the model
// prints runProgS and runProgT in the same world (semDriver).

const privlowersemRunner = `
'use strict';
const fs = require('fs');
function mix(a, b) { return (a * 1000003 + b * 7919 + 12345) % 1000000007; }
function makeWorld(seed) {
  const W = { log: [], res: null, skip: false };
  const names = new Map();
  const aliens = [{}, {}];
  let getv = null, setv = null;
  function pickVal(c) {
    const q = Math.floor(c / 12);
    switch (c % 12) {
      case 0: return undefined;
      case 1: return null;
      case 2: return 0;
      case 3: return 7;
      case 4: return '';
      case 5: return 'a';
      case 6: return aliens[q % 2];
      case 10: return true;
      case 11: return 1;
      default: return getv(q % 4);
    }
  }
  function pickInit(c) {
    switch (c % 6) {
      case 0: return undefined;
      case 1: return null;
      case 2: return 3;
      case 3: return 'a';
      case 4: return aliens[0];
      default: return aliens[1];
    }
  }
  function show(v) {
    if (v === undefined) return 'u';
    if (v === null) return 'n';
    if (typeof v === 'boolean') return v ? 'b1' : 'b0';
    if (typeof v === 'number') {
      if (v !== v) return 'NaN';
      if (!Number.isSafeInteger(v)) { W.skip = true; return 'N?'; }
      return 'N' + String(v);
    }
    if (typeof v === 'string') return 'S<' + v + '>';
    if (typeof v === 'object' || typeof v === 'function') {
      if (!names.has(v)) names.set(v, names.size);
      return 'R' + names.get(v);
    }
    W.skip = true;
    return '?';
  }
  W.show = show;
  W.init = function (i) { return pickInit(mix(seed, 900 + i)); };
  W.access = function (g, s) { getv = g; setv = s; };
  W.call = function (f, a) {
    const n = W.log.length;
    W.log.push('f' + f + '(' + show(a) + ')');
    const c = mix(seed, mix(n, 100 + f));
    if (Math.floor(c / 3) % 6 === 0) setv(Math.floor(c / 18) % 4, pickVal(Math.floor(c / 72)));
    if (c % 13 === 0) throw 99;
    return pickVal(Math.floor(c / 13));
  };
  W.error = function (e) {
    if (e instanceof TypeError) W.res = 'E:TypeError';
    else if (e instanceof ReferenceError) W.res = 'E:ReferenceError';
    else if (e instanceof Error) W.res = 'E:OTHER:' + e.name;
    else W.res = 'E:throw:' + show(e);
  };
  W.finish = function (vars) {
    const vs = vars.map(show).join(',');
    if (W.skip) return 'SKIP';
    return W.log.join(';') + '|' + W.res + '|' + vs;
  };
  return W;
}
const noPrim = function () { throw new TypeError('no primitive value'); };
function run(code, seed) {
  const W = makeWorld(seed);
  const body =
    'var v0 = W.init(0), v1 = W.init(1), v2 = W.init(2), v3 = W.init(3), r;\n' +
    'W.access(function (i) { return [v0, v1, v2, v3][i]; }, function (i, x) { if (i === 0) v0 = x; else if (i === 1) v1 = x; else if (i === 2) v2 = x; else v3 = x; });\n' +
    'function f0(a) { return W.call(0, a); } function f1(a) { return W.call(1, a); } function f2(a) { return W.call(2, a); }\n' +
    'class Stamp { constructor(o) { return o; } }\n' +
    'try {\n' + code + '\nW.res = "V:" + W.show(r); } catch (e) { W.error(e); }\n' +
    'return W.finish([v0, v1, v2, v3]);';
  Object.defineProperty(Object.prototype, Symbol.toPrimitive, { value: noPrim, configurable: true });
  Object.defineProperty(Function.prototype, Symbol.toPrimitive, { value: noPrim, configurable: true });
  try {
    return new Function('W', body)(W);
  } catch (e) {
    return 'HARNESS-ERROR:' + e.name;
  } finally {
    delete Object.prototype[Symbol.toPrimitive];
    delete Function.prototype[Symbol.toPrimitive];
  }
}
const cases = fs.readFileSync(process.argv[2], 'utf8').split('\n').filter(Boolean).map(JSON.parse);
const out = [];
for (const c of cases) out.push(run(c.src, c.seed) + ' ## ' + run(c.low, c.seed));
fs.writeFileSync(process.argv[3], out.join('\n') + '\n');
`

type plsemCase struct {
	Seed int    `json:"seed"`
	Src  string `json:"src"`
	Low  string `json:"low"`
	wire string
}

func init() {
	kernels["privlowersem"] = func(r *gen.Rand, e *emitter, tier string) {
		for !e.full() {
			want := e.limit - e.n
			if want > 400 {
				want = 400
			}
			cases := []plsemCase{}
			for len(cases) < want+want/4+4 {
				prog := genPrivProg(r, e)
				src := prog.js()
				res := api.Transform(src, api.TransformOptions{Target: api.ES2021, LogLevel: api.LogLevelSilent})
				if len(res.Errors) > 0 {
					e.stat("transform-error")
					continue
				}
				cases = append(cases, plsemCase{Seed: r.Intn(1000000), Src: src, Low: string(res.Code), wire: prog.wire()})
			}
			dir, err := os.MkdirTemp("", "privlowersem")
			if err != nil {
				panic(err)
			}
			var sb strings.Builder
			for _, c := range cases {
				js, _ := json.Marshal(c)
				sb.Write(js)
				sb.WriteByte('\n')
			}
			os.WriteFile(filepath.Join(dir, "runner.js"), []byte(privlowersemRunner), 0644)
			os.WriteFile(filepath.Join(dir, "cases.jsonl"), []byte(sb.String()), 0644)
			if dump := os.Getenv("PRIVLOWERSEM_DUMP"); dump != "" {
				os.WriteFile(dump, []byte(sb.String()), 0644)
			}
			cmd := exec.Command("node", filepath.Join(dir, "runner.js"), filepath.Join(dir, "cases.jsonl"), filepath.Join(dir, "out.txt"))
			if outb, err := cmd.CombinedOutput(); err != nil {
				panic(fmt.Sprintf("node failed: %v\n%s", err, outb))
			}
			outb, err := os.ReadFile(filepath.Join(dir, "out.txt"))
			if err != nil {
				panic(err)
			}
			os.RemoveAll(dir)
			lines := strings.Split(strings.TrimRight(string(outb), "\n"), "\n")
			if len(lines) != len(cases) {
				panic(fmt.Sprintf("node answered %d lines for %d cases", len(lines), len(cases)))
			}
			for i, c := range cases {
				if e.full() {
					break
				}
				line := lines[i]
				parts := strings.Split(line, " ## ")
				if strings.Contains(line, "SKIP") {
					e.stat("node:skip-number-out-of-range")
					continue
				}
				if strings.Contains(line, "HARNESS-ERROR") || strings.Contains(line, "E:OTHER") || len(parts) != 2 {
					e.stat("node:skip-harness-error-or-stack-overflow")
					continue
				}
				if parts[0] == parts[1] {
					e.stat("node:source-and-lowered-agree")
				} else {
					e.stat("node:source-and-lowered-differ")
				}
				f := strings.Split(parts[0], "|")
				if len(f) == 3 {
					switch {
					case strings.HasPrefix(f[1], "V:"):
						e.stat("node:result:value")
					case strings.HasPrefix(f[1], "E:TypeError"):
						e.stat("node:result:TypeError")
					case strings.HasPrefix(f[1], "E:ReferenceError"):
						e.stat("node:result:ReferenceError")
					case strings.HasPrefix(f[1], "E:throw"):
						e.stat("node:result:host-throw")
					}
					if f[0] != "" {
						e.stat("node:events:some")
					}
				}
				e.emitW(fmt.Sprintf("privlowersem\t%d\t%s", c.Seed, c.wire), line, "c05-prog", map[string]interface{}{"src": c.Src})
			}
		}
	}
}
