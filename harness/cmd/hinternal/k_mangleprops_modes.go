package main

import (
	"github.com/evanw/esbuild/internal/ast"
	"github.com/evanw/esbuild/verifharness/gen"
)

// symbols that were linked before mangleProps runs: every chain goes through extra symbols that no table and no
// other chain mentions (so that the result cannot depend on Go's map iteration order) and is acyclic (a cycle
// makes the real MergeSymbols overflow the stack, which cannot be recovered)
func mpPrelink(r *gen.Rand, e *emitter, c *mpCase) {
	seen := map[string]bool{}
	for fi := range c.files {
		active := c.files[fi].src != 0 && c.files[fi].isJS
		for _, en := range c.files[fi].mangled {
			first := !seen[en[0].(string)]
			if active {
				seen[en[0].(string)] = true
			}
			if !r.Chance(1, 3) {
				continue
			}
			if active && first {
				e.stat("prelinked:representative (MergeSymbols: new has a link)")
			} else if active {
				e.stat("prelinked:later symbol (MergeSymbols: old has a link)")
			}
			ref := en[1].(ast.Ref)
			row := uint32(r.Intn(len(c.syms)))
			x := ast.Ref{SourceIndex: row, InnerIndex: uint32(len(c.syms[row]))}
			c.syms[row] = append(c.syms[row], mpSym{name: "extra1", link: ast.InvalidRef, count: mpCount(r), pinned: r.Chance(1, 6)})
			if r.Chance(1, 3) {
				row2 := uint32(r.Intn(len(c.syms)))
				y := ast.Ref{SourceIndex: row2, InnerIndex: uint32(len(c.syms[row2]))}
				c.syms[row2] = append(c.syms[row2], mpSym{name: "extra2", link: ast.InvalidRef, count: mpCount(r)})
				c.syms[x.SourceIndex][x.InnerIndex].link = y
				e.stat("prelinked:chain-of-two")
			}
			c.syms[ref.SourceIndex][ref.InnerIndex].link = x
			e.stat("prelinked:table-symbol")
		}
	}
}

// tables the parser never produces but the routine accepts
func mpWeird(r *gen.Rand, e *emitter, c *mpCase) {
	if len(c.files) == 0 {
		return
	}
	switch r.Intn(4) {
	case 0: // the symbol's OriginalName differs from the key of the table
		for fi := range c.files {
			for _, en := range c.files[fi].mangled {
				if r.Chance(1, 3) {
					ref := en[1].(ast.Ref)
					c.syms[ref.SourceIndex][ref.InnerIndex].name = []string{"foo_", "renamed_", "bar_", "a"}[r.Intn(4)]
					e.stat("weird:name-differs-from-key")
				}
			}
		}
	case 1: // MustNotBeRenamed on some table symbols (MergeContentsWith copies name and flag)
		for fi := range c.files {
			for _, en := range c.files[fi].mangled {
				if r.Chance(1, 2) {
					ref := en[1].(ast.Ref)
					c.syms[ref.SourceIndex][ref.InnerIndex].pinned = true
					if r.Chance(1, 2) {
						c.syms[ref.SourceIndex][ref.InnerIndex].name += "P"
					}
					e.stat("weird:pinned")
				}
			}
		}
	case 2: // the same file reachable twice: MergeSymbols(ref, ref)
		c.files = append(c.files, c.files[r.Intn(len(c.files))])
		e.stat("weird:file-listed-twice")
	default: // one symbol under two names that occur in no other file
		f := &c.files[r.Intn(len(c.files))]
		ref := ast.Ref{SourceIndex: f.src, InnerIndex: uint32(len(c.syms[f.src]))}
		c.syms[f.src] = append(c.syms[f.src], mpSym{name: "dupA_", link: ast.InvalidRef, count: mpCount(r)})
		f.mangled = append(f.mangled, [2]interface{}{"dupA_", ref}, [2]interface{}{"dupB_", ref})
		e.stat("weird:one-symbol-two-names")
	}
}

// inputs on which the real routine panics
func mpMalform(r *gen.Rand, e *emitter, c *mpCase) {
	entries := [][2]int{}
	for fi := range c.files {
		for ei := range c.files[fi].mangled {
			entries = append(entries, [2]int{fi, ei})
		}
	}
	switch r.Intn(5) {
	case 0: // inner index out of range
		if len(entries) > 0 {
			p := entries[r.Intn(len(entries))]
			ref := c.files[p[0]].mangled[p[1]][1].(ast.Ref)
			ref.InnerIndex = uint32(len(c.syms[ref.SourceIndex]) + r.Intn(2))
			c.files[p[0]].mangled[p[1]][1] = ref
			e.stat("malformed:inner-index")
		}
	case 1: // source index out of range
		if len(entries) > 0 {
			p := entries[r.Intn(len(entries))]
			ref := c.files[p[0]].mangled[p[1]][1].(ast.Ref)
			ref.SourceIndex = uint32(len(c.syms) + r.Intn(2))
			c.files[p[0]].mangled[p[1]][1] = ref
			e.stat("malformed:source-index")
		}
	case 2: // StableSourceIndices too short
		c.stable = c.stable[:r.Intn(len(c.stable))]
		e.stat("malformed:stable-too-short")
	case 3: // a cache value that is neither a string nor false
		if !c.cacheNil {
			var v interface{} = true
			if r.Bool() {
				v = 1
			}
			c.cache = append(c.cache, [2]interface{}{"badvalue_", v})
			e.stat("malformed:cache-value")
		}
	default: // a table symbol linked to a ref that does not exist
		if len(entries) > 0 {
			p := entries[r.Intn(len(entries))]
			ref := c.files[p[0]].mangled[p[1]][1].(ast.Ref)
			c.syms[ref.SourceIndex][ref.InnerIndex].link = ast.Ref{SourceIndex: uint32(len(c.syms)), InnerIndex: 0}
			e.stat("malformed:dangling-link")
		}
	}
}

func init() {
	kernels["mangleprops"] = func(r *gen.Rand, e *emitter, tier string) {
		e.emit("mangleprops\tkeywords", mpKeywords())
		for !e.full() {
			c := mpGen(r, e)
			got := c.run()
			if got == "PANIC" {
				e.stat("result:panic")
			} else {
				e.stat("result:ok")
			}
			e.emit(c.opLine(), got)
		}
	}
}
