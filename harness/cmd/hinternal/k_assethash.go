package main

// Kernel `assethash` (property C18, assets): REAL api.Build runs (Write:false) on generated small projects whose
// inputs are loaded with the "file" and "copy" loaders: 1-4 asset sources with equal/different bytes and
// equal/different names in different directories, imported from JavaScript (static import, require(), import())
// and CSS (url()) with and without an ignored ?query/#fragment suffix, and/or listed as entry points (with and
// without a custom output path, possibly twice), entry / asset name templates with and without
// [hash] / [dir] / [name] / [ext] in different orders, public path on/off, outbase, outdir, outfile.
//
// The operation line carries the API options as given, the entry points {in, out, resolved file}, the reachable
// asset sources {path, ignored suffix, loader, bytes} and the references {chunk path relative to outdir, asset};
// the expected line is what the real build emitted: every non-chunk output file with its bytes, and the string
// each reference received (found in the chunk through a marker that the generator put beside the reference), or
// the paths of the error "Two output files share the same path but have different contents".
//
// Kernel `assethashfn` (k_assethash_fn.go) runs the same model functions one by one at high volume.

import (
	"os"
	"path/filepath"
	"regexp"
	"sort"
	"strconv"
	"strings"

	"github.com/evanw/esbuild/verifharness/gen"
)

// No two files differ in case only (the scanner keys files by the lower-cased path).
var ahAssetFiles = []string{
	"img/a.png", "img2/a.png", "img/b.png", "img/we ird.png", "img/[hash].png", "a.png",
	"data/a.bin", "data/sub/a.bin", "data/b.bin", "data/x.y.bin", "data/noext", "data/m.module.css",
	"data/t.txt", "img/t.txt", "../sib/s.png", "data/.hidden", "data/c-AAAAAAAA.bin",
}

var ahImporters = []string{"src/main.js", "src/other.js", "src/deep/page.js", "src/style.css", "src/deep/theme.css"}

var ahExts = []string{".png", ".bin", ".txt", "", ".module.css", ".hidden"}

type ahProj struct {
	root, cwd string
	bytes     map[string][]byte // asset file (relative to cwd) -> current contents
	written   map[string]string // importer file -> current contents
}

func newAhProj() *ahProj {
	root, err := os.MkdirTemp("", "verif-assethash-")
	if err != nil {
		panic(err)
	}
	if real, err := filepath.EvalSymlinks(root); err == nil {
		root = real
	}
	return &ahProj{root: root, cwd: filepath.Join(root, "d1/d2/proj"), bytes: map[string][]byte{}, written: map[string]string{}}
}

func (p *ahProj) close() { os.RemoveAll(p.root) }

func (p *ahProj) write(rel string, data []byte) {
	abs := filepath.Join(p.cwd, rel)
	os.MkdirAll(filepath.Dir(abs), 0755)
	if err := os.WriteFile(abs, data, 0644); err != nil {
		panic(err)
	}
}

// boundary lengths of the streaming digest: < 32 (no block), 32 (one block, empty tail), tails of 8 / 4 / 1 bytes
var ahLens = []int{0, 1, 3, 4, 5, 7, 8, 9, 12, 16, 31, 32, 33, 36, 40, 45, 63, 64, 65, 96, 100, 257}

func ahBytes(r *gen.Rand, e *emitter) []byte {
	n := ahLens[r.Intn(len(ahLens))]
	if r.Chance(1, 4) {
		n = r.Intn(80)
	}
	b := make([]byte, n)
	switch r.Intn(3) {
	case 0: // text (so that a witness can carry it)
		for i := range b {
			b[i] = "abcxyz 019\n{}"[r.Intn(13)]
		}
	case 1:
		for i := range b {
			b[i] = byte(r.Intn(256))
		}
	default:
		for i := range b {
			b[i] = byte(r.Intn(2)) * 255
		}
	}
	return b
}

// regen gives every asset file new contents from a small pool, so that equal bytes under different names (and
// different bytes under equal names) are frequent
func (p *ahProj) regen(r *gen.Rand, e *emitter) {
	pool := make([][]byte, 5)
	for i := range pool {
		pool[i] = ahBytes(r, e)
	}
	for _, f := range ahAssetFiles {
		b := pool[r.Intn(len(pool))]
		p.bytes[f] = b
		p.write(f, b)
	}
	e.stat("regen-asset-bytes")
}

type ahSource struct {
	rel, suffix string
}

type ahRefGen struct {
	marker   int
	importer int
	src      int // index into sources
}

func ahLoaderKey(rel string) string {
	b := filepath.Base(rel)
	if strings.HasSuffix(b, ".module.css") {
		return ".module.css"
	}
	if i := strings.LastIndex(b, "."); i >= 0 {
		return b[i:]
	}
	return ""
}

func ahRelImport(fromFile, to string) string {
	rel, err := filepath.Rel(filepath.Dir(fromFile), to)
	if err != nil {
		panic(err)
	}
	if !strings.HasPrefix(rel, "../") {
		rel = "./" + rel
	}
	return rel
}

var (
	ahReLogIdent = regexp.MustCompile(`console\.log\("K(\d+)", ([A-Za-z_$][\w$]*)\);`)
	ahReLogCall  = regexp.MustCompile(`console\.log\("K(\d+)", (?:__require|require|import)\(("(?:[^"\\]|\\.)*")\)\);`)
	ahReCSS      = regexp.MustCompile(`\.k(\d+) \{\s*background: url\(("(?:[^"\\]|\\.)*")\);\s*\}`)
)

func ahIsChunk(path string) bool {
	return strings.HasSuffix(path, ".js") || (strings.HasSuffix(path, ".css") && !strings.HasSuffix(path, ".module.css"))
}

// ahFindRefs: marker -> string received, for one chunk
func ahFindRefs(path string, text string) map[int]string {
	found := map[int]string{}
	unq := func(q string) string {
		s, err := strconv.Unquote(q)
		if err != nil {
			return "UNQUOTE-FAILED " + q
		}
		return s
	}
	if strings.HasSuffix(path, ".css") {
		for _, m := range ahReCSS.FindAllStringSubmatch(text, -1) {
			k, _ := strconv.Atoi(m[1])
			found[k] = unq(m[2])
		}
		return found
	}
	for _, m := range ahReLogCall.FindAllStringSubmatch(text, -1) {
		k, _ := strconv.Atoi(m[1])
		found[k] = unq(m[2])
	}
	for _, m := range ahReLogIdent.FindAllStringSubmatch(text, -1) {
		k, _ := strconv.Atoi(m[1])
		id := regexp.QuoteMeta(m[2])
		re := regexp.MustCompile(`(?m)^\s*(?:var ` + id + ` = |import ` + id + ` from )("(?:[^"\\]|\\.)*");$`)
		if d := re.FindStringSubmatch(text); d != nil {
			found[k] = unq(d[1])
		} else {
			found[k] = "DECLARATION-NOT-FOUND " + m[2]
		}
	}
	return found
}

func ahSortedUnique(xs []string) string {
	sort.Strings(xs)
	var out []string
	for i, x := range xs {
		if i == 0 || x != xs[i-1] {
			out = append(out, x)
		}
	}
	return strings.Join(out, " ")
}

func init() {
	kernels["assethash"] = func(r *gen.Rand, e *emitter, tier string) {
		p := newAhProj()
		defer p.close()
		for i := 0; !e.full(); i++ {
			if i%25 == 0 {
				p.regen(r, e)
			}
			p.one(r, e)
		}
	}
}
