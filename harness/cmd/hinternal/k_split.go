package main

import (
	"encoding/json"
	"fmt"
	"sort"
	"strconv"
	"strings"

	"github.com/evanw/esbuild/pkg/api"
	"github.com/evanw/esbuild/verifharness/gen"
)

// kernel "split": random module graphs (named / side-effect-only static imports, dynamic imports, several
// user entry points, cycles, self imports) are bundled with --splitting through the public API; the metafile
// tells which input file ended up in which chunk and which chunks import which statically. The Lean model
// (Impl/Split.lean) computes the same partition and edge set from the graph alone.

type splitGraph struct {
	n                int
	named, bare, dyn [][2]int
	user             []int
}

func genSplitGraph(r *gen.Rand, e *emitter) splitGraph {
	g := splitGraph{n: 2 + r.Intn(8)}
	dens := 1 + r.Intn(3)
	seen := map[[2]int]bool{}
	ne := r.Intn(g.n*dens + 1)
	acyclic := r.Bool()
	for i := 0; i < ne; i++ {
		a, b := r.Intn(g.n), r.Intn(g.n)
		if acyclic && a >= b {
			if a == b {
				continue
			}
			a, b = b, a
		}
		if a == b && !r.Chance(1, 4) {
			continue
		}
		if seen[[2]int{a, b}] {
			continue
		}
		seen[[2]int{a, b}] = true
		if r.Chance(2, 3) {
			g.named = append(g.named, [2]int{a, b})
		} else {
			g.bare = append(g.bare, [2]int{a, b})
		}
	}
	nd := 0
	if r.Chance(2, 3) {
		nd = 1 + r.Intn(3)
	}
	dseen := map[[2]int]bool{}
	for i := 0; i < nd; i++ {
		a, b := r.Intn(g.n), r.Intn(g.n)
		if a == b && !r.Chance(1, 5) {
			continue
		}
		if dseen[[2]int{a, b}] {
			continue
		}
		dseen[[2]int{a, b}] = true
		g.dyn = append(g.dyn, [2]int{a, b})
	}
	nu := 1 + r.Intn(3)
	useen := map[int]bool{}
	for i := 0; i < nu; i++ {
		u := r.Intn(g.n)
		if r.Chance(1, 2) {
			u = r.Intn((g.n + 1) / 2) // favour low indices: roots of the acyclic graphs
		}
		if !useen[u] {
			useen[u] = true
			g.user = append(g.user, u)
		}
	}
	if !acyclic {
		e.stat("graph:cyclic-allowed")
	}
	if len(g.dyn) > 0 {
		e.stat("graph:dynamic")
	}
	if len(g.user) > 1 {
		e.stat("graph:multi-entry")
	}
	return g
}

func (g splitGraph) sources() map[string]string {
	out := map[string]string{}
	for i := 0; i < g.n; i++ {
		var sb strings.Builder
		uses := []string{}
		for k, ed := range g.named {
			if ed[0] == i {
				fmt.Fprintf(&sb, "import { x%d as i%d } from \"./m%d.js\";\n", ed[1], k, ed[1])
				uses = append(uses, fmt.Sprintf("typeof i%d", k))
			}
		}
		for _, ed := range g.bare {
			if ed[0] == i {
				fmt.Fprintf(&sb, "import \"./m%d.js\";\n", ed[1])
			}
		}
		fmt.Fprintf(&sb, "export let x%d = %d;\n", i, i)
		fmt.Fprintf(&sb, "console.log(\"m%d\"%s);\n", i, func() string {
			if len(uses) == 0 {
				return ""
			}
			return ", " + strings.Join(uses, ", ")
		}())
		for _, ed := range g.dyn {
			if ed[0] == i {
				fmt.Fprintf(&sb, "import(\"./m%d.js\").then(() => {}, () => {});\n", ed[1])
			}
		}
		out[fmt.Sprintf("m%d.js", i)] = sb.String()
	}
	return out
}

func flatPairs(p [][2]int) string {
	if len(p) == 0 {
		return "-"
	}
	s := []string{}
	for _, e := range p {
		s = append(s, strconv.Itoa(e[0]), strconv.Itoa(e[1]))
	}
	return strings.Join(s, ",")
}

func modIndex(path string) int {
	// "v:m12.js" or "m12.js"
	i := strings.LastIndex(path, "m")
	j := strings.LastIndex(path, ".js")
	if i < 0 || j < i {
		return -1
	}
	n, err := strconv.Atoi(path[i+1 : j])
	if err != nil {
		return -1
	}
	return n
}

func realSplit(g splitGraph, minify bool) string {
	files := g.sources()
	plugin := api.Plugin{Name: "mem", Setup: func(b api.PluginBuild) {
		b.OnResolve(api.OnResolveOptions{Filter: `.*`}, func(a api.OnResolveArgs) (api.OnResolveResult, error) {
			p := strings.TrimPrefix(a.Path, "./")
			return api.OnResolveResult{Path: p, Namespace: "v"}, nil
		})
		b.OnLoad(api.OnLoadOptions{Filter: `.*`, Namespace: "v"}, func(a api.OnLoadArgs) (api.OnLoadResult, error) {
			c, ok := files[a.Path]
			if !ok {
				return api.OnLoadResult{}, fmt.Errorf("no such file %s", a.Path)
			}
			return api.OnLoadResult{Contents: &c, Loader: api.LoaderJS}, nil
		})
	}}
	eps := []string{}
	for _, u := range g.user {
		eps = append(eps, fmt.Sprintf("./m%d.js", u))
	}
	res := api.Build(api.BuildOptions{
		EntryPoints: eps, Bundle: true, Splitting: true, Format: api.FormatESModule, Outdir: "/out",
		Metafile: true, Write: false, Plugins: []api.Plugin{plugin}, LogLevel: api.LogLevelSilent,
		MinifyIdentifiers: minify, MinifySyntax: minify,
	})
	if len(res.Errors) > 0 {
		return "ERROR " + res.Errors[0].Text
	}
	var meta struct {
		Outputs map[string]struct {
			Imports []struct {
				Path     string `json:"path"`
				Kind     string `json:"kind"`
				External bool   `json:"external"`
			} `json:"imports"`
			Inputs     map[string]json.RawMessage `json:"inputs"`
			EntryPoint string                     `json:"entryPoint"`
		} `json:"outputs"`
	}
	if err := json.Unmarshal([]byte(res.Metafile), &meta); err != nil {
		return "ERROR metafile " + err.Error()
	}
	id := map[string]string{}
	groups := []string{}
	for path, o := range meta.Outputs {
		idx := []int{}
		for in := range o.Inputs {
			idx = append(idx, modIndex(in))
		}
		sort.Ints(idx)
		if len(idx) > 0 {
			id[path] = fmt.Sprintf("m%d", idx[0])
			s := []string{}
			for _, i := range idx {
				s = append(s, strconv.Itoa(i))
			}
			groups = append(groups, strings.Join(s, ","))
		} else if o.EntryPoint != "" {
			id[path] = fmt.Sprintf("e%d", modIndex(o.EntryPoint))
		} else {
			id[path] = "?" + path
		}
	}
	edges := map[string]bool{}
	for path, o := range meta.Outputs {
		for _, im := range o.Imports {
			if im.Kind == "import-statement" && !im.External {
				t, ok := id[im.Path]
				if !ok {
					t = "!" + im.Path
				}
				edges[id[path]+">"+t] = true
			}
		}
	}
	es := []string{}
	for k := range edges {
		es = append(es, k)
	}
	sort.Strings(es)
	sort.Strings(groups)
	return "groups=" + strings.Join(groups, "|") + " edges=" + strings.Join(es, ",")
}

func init() {
	kernels["split"] = func(r *gen.Rand, e *emitter, tier string) {
		for !e.full() {
			g := genSplitGraph(r, e)
			minify := r.Chance(1, 3)
			us := []string{}
			for _, u := range g.user {
				us = append(us, strconv.Itoa(u))
			}
			op := fmt.Sprintf("split\t%d\t%s\t%s\t%s\t%s", g.n, flatPairs(g.named), flatPairs(g.bare), flatPairs(g.dyn), strings.Join(us, ","))
			e.stat(fmt.Sprintf("n=%d", g.n))
			out := guard(func() string { return realSplit(g, minify) })
			if strings.Contains(out, "|") {
				e.stat("out:several-chunks-with-files")
			}
			if strings.Contains(out, ">") {
				e.stat("out:static-chunk-edges")
			}
			if strings.Contains(out, "e") && strings.Contains(out, ">") && strings.Contains(out[strings.Index(out, "edges="):], "e") {
				e.stat("out:facade-entry-chunk")
			}
			e.emit(op, out)
		}
	}
}
