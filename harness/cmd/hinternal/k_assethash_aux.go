package main

// branch statistics and the end-to-end witness of kernel `assethash` (see k_assethash.go)

import (
	"sort"
	"strings"
	"unicode/utf8"
)

func ahMin(a, b int) int {
	if a < b {
		return a
	}
	return b
}

func (p *ahProj) stats(e *emitter, c ahCase, assets []ahSource, entryNames, assetNames, publicPath, outbase string) {
	eh := strings.Contains(entryNames, "[hash]")
	ah := assetNames == "" || strings.Contains(assetNames, "[hash]")
	if eh {
		e.stat("template-entry-has-hash")
	}
	if ah {
		e.stat("template-asset-has-hash")
	} else {
		e.stat("template-asset-without-hash")
	}
	if publicPath != "" {
		e.stat("public-path")
	}
	if outbase != "" {
		e.stat("outbase-given")
	}
	for _, a := range assets {
		isEntry := false
		for _, x := range c.entries {
			isEntry = isEntry || (x.importer == -1 && x.rel == a.rel && a.suffix == "")
		}
		copyLoader := c.loaderOf[ahLoaderKey(a.rel)] == "copy"
		switch {
		case isEntry && copyLoader && eh && !ah:
			e.stat("copy-entry-point:entry-template-hash,asset-template-none")
		case isEntry && copyLoader && !eh && ah:
			e.stat("copy-entry-point:entry-template-none,asset-template-hash")
		case isEntry && copyLoader:
			e.stat("copy-entry-point:both-templates-alike")
		case isEntry:
			e.stat("file-entry-point(js stub)")
		case a.suffix != "":
			e.stat("asset-source-with-suffix")
		default:
			e.stat("asset-imported-only")
		}
		if len(p.bytes[a.rel]) == 0 {
			e.stat("asset-empty-bytes")
		}
	}
}

func (p *ahProj) witness(c ahCase, assets []ahSource, outdir, outbase, entryNames, assetNames, publicPath string) interface{} {
	if outdir != "out" || c.outfile != "" || outbase != "" || len(assets) == 0 {
		return nil
	}
	if strings.ContainsAny(entryNames+assetNames+publicPath, ",") {
		return nil
	}
	if strings.Contains(entryNames, "[hash]") && !strings.HasSuffix(entryNames, "[name]-[hash]") {
		return nil
	}
	var entries []string
	for _, x := range c.entries {
		if x.out != "" || x.in != x.rel {
			return nil
		}
		entries = append(entries, x.in)
	}
	files := map[string]string{}
	for k, v := range c.importerFiles {
		files[k] = v
	}
	for _, a := range assets {
		b := p.bytes[a.rel]
		if strings.HasPrefix(a.rel, "../") || !utf8.Valid(b) {
			return nil
		}
		files[a.rel] = string(b)
	}
	files2 := map[string]string{}
	for k, v := range files {
		files2[k] = v
	}
	files2[assets[0].rel] += "!"
	var names []string
	if entryNames != "" {
		names = append(names, "entrynames="+entryNames)
	}
	if assetNames != "" {
		names = append(names, "assetnames="+assetNames)
	}
	if publicPath != "" {
		names = append(names, "publicpath="+publicPath)
	}
	var exts []string
	for x := range c.loaderOf {
		exts = append(exts, x)
	}
	sort.Strings(exts)
	for _, x := range exts {
		names = append(names, "loader:"+x+"="+c.loaderOf[x])
	}
	return map[string]interface{}{"files": files, "files_after_edit": files2, "entries": entries,
		"opt_name": strings.Join(names, ","), "edit": "one byte appended to " + assets[0].rel}
}
