package main

// Kernel `fscache`, part `ast`: request sequences on the REAL JSCache / CSSCache / JSONCache of one CacheSet.
// A hit is recognised without looking inside the cache: a miss parses again and returns freshly allocated nodes,
// a hit returns the stored ones, so "the returned AST is a pointer that an earlier call returned" = hit.

import (
	"fmt"
	"strings"
	"unsafe"

	"github.com/evanw/esbuild/internal/cache"
	"github.com/evanw/esbuild/internal/compat"
	"github.com/evanw/esbuild/internal/config"
	"github.com/evanw/esbuild/internal/css_ast"
	"github.com/evanw/esbuild/internal/css_parser"
	"github.com/evanw/esbuild/internal/js_ast"
	"github.com/evanw/esbuild/internal/js_lexer"
	"github.com/evanw/esbuild/internal/js_parser"
	"github.com/evanw/esbuild/internal/logger"
	"github.com/evanw/esbuild/verifharness/gen"
)

// option variants; two requests get equal options (for Options.Equal / ==) iff they use the same variant. Every
// request builds its options afresh, so equal variants are different Go values with different slices inside.
func fcJSOptions(v int) js_parser.Options {
	o := config.Options{}
	switch v {
	case 1:
		o.MinifySyntax = true
	case 2:
		o.JSX.Factory = config.DefineExpr{Parts: []string{"h"}}
	case 3:
		o.JSX.Factory = config.DefineExpr{Parts: []string{"React", "createElement"}}
	case 4:
		o.DropLabels = []string{"DEV"}
	case 5:
		o.TS.Parse = true
	case 6:
		o.JSX.Factory = config.DefineExpr{Constant: &js_ast.EString{Value: []uint16{'x'}}}
	}
	return js_parser.OptionsFromConfig(&o)
}

func fcCSSOptions(v int) css_parser.Options {
	o := config.Options{}
	switch v {
	case 1:
		o.MinifySyntax = true
	case 2:
		o.MinifyWhitespace = true
	case 3:
		o.CSSPrefixData = map[css_ast.D]compat.CSSPrefix{css_ast.DAppearance: compat.WebkitPrefix}
	case 4:
		o.CSSPrefixData = map[css_ast.D]compat.CSSPrefix{css_ast.DAppearance: compat.MozPrefix}
	case 5:
		o.CSSPrefixData = map[css_ast.D]compat.CSSPrefix{css_ast.DAppearance: compat.WebkitPrefix, css_ast.DMask: compat.WebkitPrefix}
	}
	l := config.LoaderCSS
	if v == 6 {
		l = config.LoaderLocalCSS
	}
	return css_parser.OptionsFromConfig(l, &o)
}

func fcJSONOptions(v int) js_parser.JSONOptions {
	switch v {
	case 1:
		return js_parser.JSONOptions{Flavor: js_lexer.TSConfigJSON}
	case 2:
		return js_parser.JSONOptions{IsForDefine: true}
	case 3:
		return js_parser.JSONOptions{ErrorSuffix: " in x"}
	}
	return js_parser.JSONOptions{}
}

var fcASTContents = map[string][]string{
	"js":   {"a", "b", "a;b", "1", "a//c"},
	"css":  {"a{color:blue}", "b{color:red}", "a{color:red}", "a{top:0}b{top:0}"},
	"json": {"[1]", "[2]", "{}", "{\"a\":1}", "[1,2]"},
}

func fcAst(r *gen.Rand, e *emitter) {
	kind := []string{"js", "css", "json"}[r.Intn(3)]
	caches := cache.MakeCacheSet()
	log := logger.NewDeferLog(logger.DeferLogAll, nil)
	seen := map[unsafe.Pointer]bool{}
	var reqs []string
	var flags strings.Builder
	nvar := 7
	if kind == "json" {
		nvar = 4
	}
	// a sticky "current request" that is mutated a little each time, so that hits are common
	index, keyPath, pretty, ident, ci, opt := 1, 0, 0, 0, 0, 0
	pool := fcASTContents[kind]
	for i, n := 0, 3+r.Intn(9); i < n; i++ {
		switch r.Intn(9) {
		case 0:
			index = 1 + r.Intn(2)
			e.stat("ast:change-index")
		case 1:
			keyPath = r.Intn(2)
			e.stat("ast:change-keypath")
		case 2:
			pretty = r.Intn(2)
			e.stat("ast:change-pretty")
		case 3:
			ident = r.Intn(2)
			e.stat("ast:change-ident")
		case 4, 5:
			ci = r.Intn(len(pool))
			e.stat("ast:change-contents")
		case 6:
			opt = r.Intn(nvar)
			e.stat("ast:change-options")
		default:
			e.stat("ast:same-request")
		}
		src := logger.Source{
			Index:          uint32(index),
			KeyPath:        logger.Path{Text: fmt.Sprintf("/k%d.%s", keyPath, kind), Namespace: "file"},
			PrettyPaths:    logger.PrettyPaths{Rel: fmt.Sprintf("k%d-%d.%s", keyPath, pretty, kind), Abs: fmt.Sprintf("/k%d.%s", keyPath, kind)},
			IdentifierName: fmt.Sprintf("id%d", ident),
			Contents:       string(append([]byte(nil), pool[ci]...)), // a fresh string with equal bytes
		}
		var ptr unsafe.Pointer
		switch kind {
		case "js":
			ast, _ := caches.JSCache.Parse(log, src, fcJSOptions(opt))
			ptr = unsafe.Pointer(&ast.Parts[0])
		case "css":
			ast := caches.CSSCache.Parse(log, src, fcCSSOptions(opt))
			ptr = unsafe.Pointer(&ast.Rules[0])
		default:
			expr, _ := caches.JSONCache.Parse(log, src, fcJSONOptions(opt))
			switch d := expr.Data.(type) {
			case *js_ast.EArray:
				ptr = unsafe.Pointer(d)
			case *js_ast.EObject:
				ptr = unsafe.Pointer(d)
			default:
				panic("fscache ast: unexpected JSON root")
			}
		}
		if seen[ptr] {
			flags.WriteByte('1')
			e.stat("ast:hit-" + kind)
		} else {
			flags.WriteByte('0')
			e.stat("ast:miss-" + kind)
		}
		seen[ptr] = true
		reqs = append(reqs, fmt.Sprintf("%d,%d,%d,%d,%s,%d", index, keyPath, pretty, ident, hexBytes([]byte(pool[ci])), opt))
	}
	log.Done()
	e.emit("fscache\tast\t"+strings.Join(reqs, ";"), flags.String())
}

func init() {
	kernels["fscache"] = func(r *gen.Rand, e *emitter, tier string) {
		defer func() {
			if fcTmp != "" {
				_ = removeAllQuiet(fcTmp)
			}
		}()
		// malformed operations first
		for _, bad := range []string{"fscache\thist\tunix\t3\t0\t0\t-\t-", "fscache\thist\tvms\t3\t1\t0\t-\t-", "fscache\thist\tunix\t3\t1\t0\t-\tR,zz",
			"fscache\tprobe\t3\tx\t0\t0\t0\t0\t0", "fscache\tast\t1,2", "fscache\tnope"} {
			if !e.full() {
				e.stat("malformed")
				e.emit(bad, "bad-op")
			}
		}
		for !e.full() {
			switch k := r.Intn(100); {
			case k < 80:
				fcHist(r, e)
			case k < 86:
				fcProbe(r, e)
			case k < 92:
				fcWd(r, e)
			default:
				fcAst(r, e)
			}
		}
	}
}
