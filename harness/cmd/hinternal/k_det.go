package main

import (
	"fmt"
	"sort"
	"strconv"
	"strings"
	"sync"
	"time"

	"github.com/evanw/esbuild/internal/helpers"
	"github.com/evanw/esbuild/internal/logger"
	"github.com/evanw/esbuild/verifharness/gen"
)

// kernel "det":
//   msgsort     random diagnostics (few distinct files/lines/texts so that ties on every prefix of the
//               comparison occur, many without a location) are sorted with sort.Stable(logger.SortableMsgs)
//               — exactly what pkg/api does — and the resulting order of arrival indices is compared with
//               the model's stable merge sort.  Strings are sent as their rank in Go's string order.
//   serializer  n goroutines run Enter(i) / log / Leave(i) on a real helpers.Serializer with random delays;
//               the order in which they got in is compared with the model run under a random schedule.

func init() {
	kernels["det"] = func(r *gen.Rand, e *emitter, tier string) {
		pool := []string{"", "a", "a.js", "b.js", "/p/a.js", "/p/b.js", "/p/a", "src/x.ts", "src/x.tsx", "Z", "z", "é", "\x00", "aa", "ab"}
		for !e.full() {
			if r.Chance(1, 12) {
				n := 1 + r.Intn(6)
				s := helpers.MakeSerializer(n)
				var mu sync.Mutex
				order := []string{}
				var wg sync.WaitGroup
				delays := make([]int, n)
				for i := range delays {
					delays[i] = r.Intn(300)
				}
				for i := 0; i < n; i++ {
					wg.Add(1)
					go func(i int) {
						defer wg.Done()
						time.Sleep(time.Duration(delays[i]) * time.Microsecond)
						s.Enter(i)
						mu.Lock()
						order = append(order, strconv.Itoa(i))
						mu.Unlock()
						s.Leave(i)
					}(i)
				}
				wg.Wait()
				// a random schedule long enough for every worker to get through in the model: random picks
				// followed by two fair sweeps
				sched := []string{}
				for k := 0; k < 3*n; k++ {
					sched = append(sched, strconv.Itoa(r.Intn(n)))
				}
				for k := 0; k < 2*n; k++ {
					sched = append(sched, strconv.Itoa(k/2))
				}
				done := []string{}
				for i := 0; i < n; i++ {
					done = append(done, "2")
				}
				e.stat("serializer")
				e.emit(fmt.Sprintf("det\tserializer\t%d\t%s", n, strings.Join(sched, ",")), strings.Join(order, ",")+" "+strings.Join(done, ","))
				continue
			}
			n := r.Intn(9)
			msgs := make(logger.SortableMsgs, n)
			strs := map[string]bool{}
			type raw struct {
				hasLoc         bool
				abs, rel, text string
				line, col      int
				kind           int
			}
			raws := make([]raw, n)
			for i := 0; i < n; i++ {
				w := raw{hasLoc: r.Chance(2, 3), abs: pool[r.Intn(len(pool))], rel: pool[r.Intn(len(pool))], text: pool[r.Intn(6)], line: r.Intn(3), col: r.Intn(3), kind: r.Intn(3)}
				if r.Chance(1, 2) && i > 0 { // copy a prefix of the previous key to force ties
					p := raws[r.Intn(i)]
					switch r.Intn(5) {
					case 0:
						w.hasLoc, w.abs, w.rel = p.hasLoc, p.abs, p.rel
					case 1:
						w.hasLoc, w.abs, w.rel, w.line = p.hasLoc, p.abs, p.rel, p.line
					case 2:
						w.hasLoc, w.abs, w.rel, w.line, w.col = p.hasLoc, p.abs, p.rel, p.line, p.col
					case 3:
						w.hasLoc, w.abs, w.rel, w.line, w.col, w.kind = p.hasLoc, p.abs, p.rel, p.line, p.col, p.kind
					default:
						w = p
					}
				}
				raws[i] = w
				strs[w.abs], strs[w.rel], strs[w.text] = true, true, true
			}
			sorted := []string{}
			for s := range strs {
				sorted = append(sorted, s)
			}
			sort.Strings(sorted)
			rank := map[string]int{}
			for i, s := range sorted {
				rank[s] = i
			}
			items := []string{}
			for i, w := range raws {
				m := logger.Msg{Kind: logger.MsgKind(w.kind), Data: logger.MsgData{Text: w.text}, ID: logger.MsgID(0)}
				m.PluginName = strconv.Itoa(i) // carries the arrival index through the sort
				if w.hasLoc {
					m.Data.Location = &logger.MsgLocation{File: logger.PrettyPaths{Abs: w.abs, Rel: w.rel}, Line: w.line, Column: w.col}
					items = append(items, fmt.Sprintf("%d,%d,%d,%d,%d,%d", rank[w.abs], rank[w.rel], w.line, w.col, w.kind, rank[w.text]))
					e.stat("msg:located")
				} else {
					items = append(items, fmt.Sprintf("n,%d,%d", w.kind, rank[w.text]))
					e.stat("msg:no-location")
				}
				msgs[i] = m
			}
			sort.Stable(msgs)
			out := []string{}
			for _, m := range msgs {
				out = append(out, m.PluginName)
			}
			op, ex := "-", "-"
			if n > 0 {
				op, ex = strings.Join(items, ";"), strings.Join(out, ",")
			}
			e.stat("msgsort")
			e.emit("det\tmsgsort\t"+op, ex)
		}
	}
}
