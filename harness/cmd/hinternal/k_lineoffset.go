package main

// Kernel `lineoffset`: the REAL sourcemap.GenerateLineOffsetTables, the lookup at the top of
// ChunkBuilder.AddSourceMapping (observed through GenerateChunk().EndState of a builder without input source
// map), LineColumnOffset.AdvanceString / AdvanceBytes and updateGeneratedLineAndColumn (observed through
// EndState.GeneratedLine / FinalGeneratedColumn) against lean/EsbuildModel/Impl/LineOffset.lean.

import (
	"fmt"
	"strconv"
	"strings"

	"github.com/evanw/esbuild/internal/logger"
	"github.com/evanw/esbuild/internal/sourcemap"
	"github.com/evanw/esbuild/verifharness/gen"
)

var loTerminators = []string{"\n", "\r", "\r\n", "\u2028", "\u2029"}
var loAscii = []string{"a", "b", "z", " ", ";", "\t", "0", "{", "\x00", "\x7f", "\x0b", "\x0c"}
var loTwo = []string{"\u00e9", "\u0080", "\u07ff", "\u0085", "\u00a0"}
var loThree = []string{"\u20ac", "\u0800", "\ufffd", "\uffff", "\u2027", "\u202a", "\ud7ff", "\ue000", "\ufeff"}
var loFour = []string{"\U0001F600", "\U00010000", "\U0010FFFF", "\U0002A6DF"}
var loInvalid = []string{
	"\x80", "\xbf", "\xc0\x80", "\xc1\xbf", "\xc3", "\xe2\x80", "\xe2", "\xf0\x9f\x98", "\xf0\x9f", "\xf0",
	"\xed\xa0\x80", "\xed\xbf\xbf", "\xf4\x90\x80\x80", "\xf5\x80\x80\x80", "\xf8\x88\x80\x80\x80", "\xff", "\xfe",
	"\xe0\x80\x80", "\xe0\x9f\xbf", "\xf0\x80\x80\x80", "\xf0\x8f\xbf\xbf", "\xe2\x80\x0a", "\xe2\x0d\x0a", "\xc3\x0a",
	"\xe2\x80\xe2\x80\xa8", "\xf0\x9f\xe2\x80\xa9",
}

// loPiece appends one generated piece to sb
func loPiece(r *gen.Rand, sb *strings.Builder, e *emitter) {
	switch r.Intn(16) {
	case 0, 1, 2, 3, 4:
		sb.WriteString(loAscii[r.Intn(len(loAscii))])
	case 5, 6, 7:
		sb.WriteString(loTerminators[r.Intn(len(loTerminators))])
	case 8:
		sb.WriteString(loTwo[r.Intn(len(loTwo))])
	case 9, 10:
		sb.WriteString(loThree[r.Intn(len(loThree))])
	case 11:
		sb.WriteString(loFour[r.Intn(len(loFour))])
	case 12:
		sb.WriteString(loInvalid[r.Intn(len(loInvalid))])
	case 13: // arbitrary byte
		sb.WriteByte(byte(r.Intn(256)))
	case 14: // arbitrary scalar value, properly encoded
		cp := rune(r.Intn(0x110000))
		if cp >= 0xD800 && cp <= 0xDFFF {
			cp = 0x2028 + rune(r.Intn(2))
		}
		sb.WriteString(string(cp))
	default: // a run (long lines when repeated)
		n := 1 + r.Intn(12)
		if r.Chance(1, 12) {
			n = 200 + r.Intn(2500)
		}
		var unit string
		switch r.Intn(4) {
		case 0:
			unit = loTwo[r.Intn(len(loTwo))]
		case 1:
			unit = loFour[r.Intn(len(loFour))]
		default:
			unit = loAscii[r.Intn(len(loAscii))]
		}
		for k := 0; k < n; k++ {
			sb.WriteString(unit)
		}
	}
}

// loText generates a text: style 0 ASCII only, 1 mixed, 2 heavy on terminators / empty lines
func loText(r *gen.Rand, e *emitter) string {
	var sb strings.Builder
	n := r.Intn(14)
	style := r.Intn(4)
	for k := 0; k < n; k++ {
		switch {
		case style == 0:
			if r.Chance(1, 4) {
				sb.WriteString([]string{"\n", "\r", "\r\n"}[r.Intn(3)])
			} else {
				sb.WriteString(loAscii[r.Intn(len(loAscii))])
			}
		case style == 2 && r.Bool():
			sb.WriteString(loTerminators[r.Intn(len(loTerminators))])
		default:
			loPiece(r, &sb, e)
		}
	}
	s := sb.String()
	// classify for the evidence
	hasNL, hasNonASCII, hasInvalid, hasAstral, hasCRLF, hasLSPS := false, false, false, false, strings.Contains(s, "\r\n"), false
	for i, c := range s {
		switch {
		case c == '\n' || c == '\r':
			hasNL = true
		case c == 0x2028 || c == 0x2029:
			hasLSPS = true
		case c == 0xFFFD && (i+3 > len(s) || s[i:i+3] != "\ufffd"):
			hasInvalid = true
		case c > 0xFFFF:
			hasAstral = true
		case c > 0x7F:
			hasNonASCII = true
		}
	}
	for k, v := range map[string]bool{"text-nl": hasNL, "text-lsps": hasLSPS, "text-invalid": hasInvalid, "text-astral": hasAstral,
		"text-nonascii": hasNonASCII, "text-crlf": hasCRLF, "text-empty": len(s) == 0, "text-long": len(s) > 200,
		"text-cr-at-end": strings.HasSuffix(s, "\r")} {
		if v {
			e.stat(k)
		}
	}
	return s
}

func loLookup(tables []sourcemap.LineOffsetTable, loc int32, e *emitter) string {
	return guard(func() string {
		b := sourcemap.MakeChunkBuilder(nil, tables, false)
		// a name and a non-empty output, so that the duplicate test cannot skip the call (a fresh builder has
		// prevOriginalLoc = -1, prevGeneratedLen = 0, prevOriginalName = "")
		b.AddSourceMapping(logger.Loc{Start: loc}, "x", []byte{'a'})
		end := b.GenerateChunk([]byte{'a'}).EndState
		return fmt.Sprintf("%d:%d", end.OriginalLine, end.OriginalColumn)
	})
}

func loShowTables(ts []sourcemap.LineOffsetTable, e *emitter) string {
	parts := make([]string, len(ts))
	for k, t := range ts {
		cols, first, start := sourcemap.VerifLineOffsetTableFields(t)
		cs := "nil"
		if cols != nil {
			xs := make([]string, len(cols))
			for j, c := range cols {
				xs[j] = strconv.Itoa(int(c))
			}
			cs = "[" + strings.Join(xs, ",") + "]"
			e.stat("table-with-columns")
		} else {
			e.stat("table-ascii")
		}
		parts[k] = fmt.Sprintf("%d/%d/%s", start, first, cs)
	}
	return strings.Join(parts, " ")
}

func init() {
	kernels["lineoffset"] = func(r *gen.Rand, e *emitter, tier string) {
		names := []string{"", "a", "b"}
		for !e.full() {
			switch r.Intn(8) {
			case 0, 1: // the tables themselves
				s := loText(r, e)
				approx := int32(r.Intn(6))
				if r.Chance(1, 40) {
					approx = -1 - int32(r.Intn(3))
					e.stat("tables-negative-capacity")
				}
				e.stat("tables")
				e.emit(fmt.Sprintf("lineoffset\ttables\t%s\t%d", hexBytes([]byte(s)), approx), guard(func() string {
					return loShowTables(sourcemap.GenerateLineOffsetTables(s, approx), e)
				}))
			case 2, 3, 4: // lookups
				s := loText(r, e)
				tables := sourcemap.GenerateLineOffsetTables(s, int32(strings.Count(s, "\n")))
				var locs []int32
				if len(s) <= 48 || r.Chance(1, 6) { // every offset, and a little beyond
					for i := -1; i <= len(s)+2; i++ {
						locs = append(locs, int32(i))
					}
					e.stat("lookup-every-offset")
				} else {
					for k := 0; k < 24; k++ {
						locs = append(locs, int32(r.Intn(len(s)+1)))
					}
					locs = append(locs, 0, int32(len(s)), int32(len(s))-1, int32(len(s))+1+int32(r.Intn(1000)), -1-int32(r.Intn(5)))
					e.stat("lookup-sampled")
				}
				outs := make([]string, len(locs))
				ls := make([]string, len(locs))
				boundary := map[int]bool{len(s): true}
				for i := range s {
					boundary[i] = true
				}
				for k, loc := range locs {
					outs[k] = loLookup(tables, loc, e)
					ls[k] = strconv.Itoa(int(loc))
					switch {
					case outs[k] == "PANIC" && loc < 0:
						e.stat("lookup-panic-negative")
					case outs[k] == "PANIC" && int(loc) > len(s):
						e.stat("lookup-panic-beyond-end")
					case outs[k] == "PANIC":
						e.stat("lookup-panic-inside-ls-ps")
					case int(loc) > len(s):
						e.stat("lookup-beyond-end-no-panic")
					case boundary[int(loc)]:
						e.stat("lookup-ok-boundary")
					default:
						e.stat("lookup-ok-inside-multibyte-char")
					}
				}
				e.emit(fmt.Sprintf("lineoffset\tlookup\t%s\t%s", hexBytes([]byte(s)), strings.Join(ls, ",")), strings.Join(outs, " "))
			case 5: // AdvanceString / AdvanceBytes
				s := loText(r, e)
				l0, c0 := r.Intn(4), r.Intn(50)
				if r.Bool() {
					e.stat("advance-string")
					o := sourcemap.LineColumnOffset{Lines: l0, Columns: c0}
					o.AdvanceString(s)
					e.emit(fmt.Sprintf("lineoffset\tadv\t%d\t%d\t%s", l0, c0, hexBytes([]byte(s))), fmt.Sprintf("%d:%d", o.Lines, o.Columns))
				} else {
					e.stat("advance-bytes")
					o := sourcemap.LineColumnOffset{Lines: l0, Columns: c0}
					o.AdvanceBytes([]byte(s))
					e.emit(fmt.Sprintf("lineoffset\tadv\t%d\t%d\t%s", l0, c0, hexBytes([]byte(s))), fmt.Sprintf("%d:%d", o.Lines, o.Columns))
				}
			default: // one builder, several AddSourceMapping calls on growing (sometimes shrinking) output
				src := loText(r, e)
				out := []byte(loText(r, e) + loText(r, e))
				tables := sourcemap.GenerateLineOffsetTables(src, 0)
				b := sourcemap.MakeChunkBuilder(nil, tables, false)
				n := 1 + r.Intn(6)
				cut := 0
				dead := false
				prevLoc, prevLen, prevName := int32(-1), 0, 0
				calls := make([]string, n)
				outs := make([]string, n)
				for k := 0; k < n; k++ {
					if r.Chance(1, 25) && cut > 0 {
						cut = r.Intn(cut) // shrinking output: slice bounds panic
						e.stat("builder-output-shrinks")
					} else if !r.Chance(1, 6) {
						cut += r.Intn(len(out) - cut + 1)
					}
					loc := int32(r.Intn(len(src) + 1))
					switch r.Intn(12) {
					case 0:
						loc = -1
					case 1:
						loc = int32(len(src)) + int32(r.Intn(3))
					case 2, 3:
						if k > 0 { // same location again: duplicate test
							prev := strings.SplitN(calls[k-1], "/", 2)[0]
							v, _ := strconv.Atoi(prev)
							loc = int32(v)
						}
					}
					name := r.Intn(3)
					calls[k] = fmt.Sprintf("%d/%d/%d", loc, name, cut)
					if dead {
						outs[k] = "PANIC"
						continue
					}
					prefix := out[:cut]
					if loc == prevLoc && (prevLen == cut || prevName == name) {
						e.stat("builder-duplicate-skipped")
					} else {
						prevLoc, prevLen, prevName = loc, cut, name
					}
					outs[k] = guard(func() string {
						b.AddSourceMapping(logger.Loc{Start: loc}, names[name], prefix)
						c := b.GenerateChunk(prefix)
						return fmt.Sprintf("%d:%d:%d:%d:%d", c.EndState.GeneratedLine, c.EndState.GeneratedColumn,
							c.EndState.OriginalLine, c.EndState.OriginalColumn, c.FinalGeneratedColumn)
					})
					if outs[k] == "PANIC" {
						dead = true
						e.stat("builder-panic")
					} else {
						e.stat("builder-call-ok")
					}
				}
				e.stat("builder")
				e.emit(fmt.Sprintf("lineoffset\tbuilder\t%s\t%s\t%s", hexBytes([]byte(src)), hexBytes(out), strings.Join(calls, ",")), strings.Join(outs, " "))
			}
		}
	}
}
