package main

import (
	"fmt"
	"strings"

	"github.com/evanw/esbuild/verifharness/gen"
)

// Generator for the kernels "tsclass" and "tsclasssem": programs of the class language of
// lean/EsbuildModel/Spec/TsClass.lean, their wire form (Impl/TsClassWire.lean) and their TypeScript text.
//
// Everything the model does NOT represent is kept out: conditions are never literals (esbuild would mark a branch
// as dead code), nothing follows a return / throw, `this` is not used at top level or in static initialisers,
// field and static initialisers do not mention constructor parameters, parameter references are in range.

type tcExpr struct {
	k       byte // n u p a g = S , ? w N
	n       int
	a, b, c *tcExpr
	cls     *tcClass
}

type tcStmt struct {
	k    byte // e r R t i
	e    *tcExpr
	t, f []*tcStmt
}

type tcParam struct {
	isProp, hasD bool
	d            *tcExpr
	mod          string
}

type tcMember struct {
	k string // f F c sf sF sb
	x int
	e *tcExpr
}

type tcClass struct {
	base    *tcClass
	pre     *tcExpr // nil: no prefix expression in the heritage
	setters []int
	hasCtor bool
	params  []tcParam
	body    []*tcStmt
	members []tcMember
	ctorPos int // where the constructor is printed among the members
}

// ---------------------------------------------------------------- wire form

func (e *tcExpr) wire(sb *strings.Builder) {
	switch e.k {
	case 'n':
		fmt.Fprintf(sb, "n%d ", e.n)
	case 'u':
		sb.WriteString("u ")
	case 'p':
		fmt.Fprintf(sb, "p%d ", e.n)
	case 'a':
		fmt.Fprintf(sb, "a%d ", e.n)
	case 'g':
		fmt.Fprintf(sb, "g%d ", e.n)
	case '=':
		fmt.Fprintf(sb, "=%d ", e.n)
		e.a.wire(sb)
	case 'S':
		sb.WriteString("S ")
		e.a.wire(sb)
	case ',':
		sb.WriteString(", ")
		e.a.wire(sb)
		e.b.wire(sb)
	case '?':
		sb.WriteString("? ")
		e.c.wire(sb)
		e.a.wire(sb)
		e.b.wire(sb)
	case 'w':
		sb.WriteString("w ")
		e.a.wire(sb)
	case 'N':
		sb.WriteString("N ")
		e.cls.wire(sb)
		e.a.wire(sb)
	}
}

func tcStmtsWire(ss []*tcStmt, sb *strings.Builder) {
	sb.WriteString("[ ")
	for _, s := range ss {
		switch s.k {
		case 'e':
			sb.WriteString("e ")
			s.e.wire(sb)
		case 'r':
			sb.WriteString("r ")
		case 'R':
			sb.WriteString("R ")
			s.e.wire(sb)
		case 't':
			sb.WriteString("t ")
			s.e.wire(sb)
		case 'i':
			sb.WriteString("i ")
			s.e.wire(sb)
			tcStmtsWire(s.t, sb)
			tcStmtsWire(s.f, sb)
		}
	}
	sb.WriteString("] ")
}

func (c *tcClass) wire(sb *strings.Builder) {
	sb.WriteString("C ")
	if c.base == nil {
		sb.WriteString("- ")
	} else {
		sb.WriteString("B ")
		if c.pre == nil {
			sb.WriteString("u ")
		} else {
			c.pre.wire(sb)
		}
		c.base.wire(sb)
	}
	sb.WriteString("s")
	if len(c.setters) == 0 {
		sb.WriteString("-")
	}
	for i, x := range c.setters {
		if i > 0 {
			sb.WriteString(",")
		}
		fmt.Fprintf(sb, "%d", x)
	}
	sb.WriteString(" ")
	if !c.hasCtor {
		sb.WriteString("- ")
	} else {
		sb.WriteString("K ( ")
		for _, p := range c.params {
			b2i := func(b bool) int {
				if b {
					return 1
				}
				return 0
			}
			fmt.Fprintf(sb, "P%d%d ", b2i(p.isProp), b2i(p.hasD))
			if p.hasD {
				p.d.wire(sb)
			}
		}
		sb.WriteString(") ")
		tcStmtsWire(c.body, sb)
	}
	sb.WriteString("{ ")
	for _, m := range c.members {
		switch m.k {
		case "f", "c", "sf":
			fmt.Fprintf(sb, "%s%d ", m.k, m.x)
		case "F", "sF":
			fmt.Fprintf(sb, "%s%d ", m.k, m.x)
			m.e.wire(sb)
		case "sb":
			sb.WriteString("sb ")
			m.e.wire(sb)
		}
	}
	sb.WriteString("} < > ")
}

func tcWire(e *tcExpr) string {
	var sb strings.Builder
	e.wire(&sb)
	return strings.TrimSpace(sb.String())
}

// ---------------------------------------------------------------- TypeScript text

func tcKeyName(x int) string {
	if x >= 100 {
		return fmt.Sprintf("a%d", x-100)
	}
	return fmt.Sprintf("x%d", x)
}

// ts: TypeScript syntax (modifiers, declare); otherwise the same program as plain JavaScript (only valid when it has
// no parameter properties and no declare fields)
func (e *tcExpr) text(sb *strings.Builder, ts bool) {
	switch e.k {
	case 'n':
		fmt.Fprintf(sb, "%d", e.n)
	case 'u':
		sb.WriteString("undefined")
	case 'p':
		fmt.Fprintf(sb, "P(%d)", e.n)
	case 'a':
		fmt.Fprintf(sb, "a%d", e.n)
	case 'g':
		fmt.Fprintf(sb, "this.%s", tcKeyName(e.n))
	case '=':
		fmt.Fprintf(sb, "(this.%s = ", tcKeyName(e.n))
		e.a.text(sb, ts)
		sb.WriteString(")")
	case 'S':
		sb.WriteString("super(")
		e.a.text(sb, ts)
		sb.WriteString(")")
	case ',':
		sb.WriteString("(")
		e.a.text(sb, ts)
		sb.WriteString(", ")
		e.b.text(sb, ts)
		sb.WriteString(")")
	case '?':
		sb.WriteString("(")
		e.c.text(sb, ts)
		sb.WriteString(" ? ")
		e.a.text(sb, ts)
		sb.WriteString(" : ")
		e.b.text(sb, ts)
		sb.WriteString(")")
	case 'w':
		sb.WriteString("(() => ")
		e.a.text(sb, ts)
		sb.WriteString(")()")
	case 'N':
		sb.WriteString("M(new (K(")
		e.cls.text(sb, ts)
		sb.WriteString("))(")
		e.a.text(sb, ts)
		sb.WriteString("))")
	}
}

func tcStmtsText(ss []*tcStmt, sb *strings.Builder, ts bool) {
	sb.WriteString("{ ")
	for _, s := range ss {
		switch s.k {
		case 'e':
			s.e.text(sb, ts)
			sb.WriteString("; ")
		case 'r':
			sb.WriteString("return; ")
		case 'R':
			sb.WriteString("return ")
			s.e.text(sb, ts)
			sb.WriteString("; ")
		case 't':
			sb.WriteString("throw ")
			s.e.text(sb, ts)
			sb.WriteString("; ")
		case 'i':
			sb.WriteString("if (")
			s.e.text(sb, ts)
			sb.WriteString(") ")
			tcStmtsText(s.t, sb, ts)
			sb.WriteString("else ")
			tcStmtsText(s.f, sb, ts)
		}
	}
	sb.WriteString("} ")
}

func (c *tcClass) text(sb *strings.Builder, ts bool) {
	sb.WriteString("class ")
	if c.base != nil {
		sb.WriteString("extends ")
		if c.pre == nil {
			sb.WriteString("K(")
			c.base.text(sb, ts)
			sb.WriteString(") ")
		} else {
			sb.WriteString("(")
			c.pre.text(sb, ts)
			sb.WriteString(", K(")
			c.base.text(sb, ts)
			sb.WriteString(")) ")
		}
	}
	sb.WriteString("{ ")
	ctor := func() {
		if !c.hasCtor {
			return
		}
		sb.WriteString("constructor(")
		for i, p := range c.params {
			if i > 0 {
				sb.WriteString(", ")
			}
			if p.isProp && ts {
				sb.WriteString(p.mod + " ")
			}
			fmt.Fprintf(sb, "a%d", i)
			if ts {
				sb.WriteString(": any")
			}
			if p.hasD {
				sb.WriteString(" = ")
				p.d.text(sb, ts)
			}
		}
		sb.WriteString(") ")
		tcStmtsText(c.body, sb, ts)
	}
	for _, x := range c.setters {
		fmt.Fprintf(sb, "set %s(v) { T(\"%s\", v); } ", tcKeyName(x), tcKeyName(x))
	}
	for i, m := range c.members {
		if i == c.ctorPos {
			ctor()
		}
		switch m.k {
		case "f":
			fmt.Fprintf(sb, "%s; ", tcKeyName(m.x))
		case "F":
			fmt.Fprintf(sb, "%s = ", tcKeyName(m.x))
			m.e.text(sb, ts)
			sb.WriteString("; ")
		case "c":
			fmt.Fprintf(sb, "declare %s: any; ", tcKeyName(m.x))
		case "sf":
			fmt.Fprintf(sb, "static %s; ", tcKeyName(m.x))
		case "sF":
			fmt.Fprintf(sb, "static %s = ", tcKeyName(m.x))
			m.e.text(sb, ts)
			sb.WriteString("; ")
		case "sb":
			sb.WriteString("static { ")
			m.e.text(sb, ts)
			sb.WriteString("; } ")
		}
	}
	if c.ctorPos >= len(c.members) {
		ctor()
	}
	sb.WriteString("}")
}

func tcText(e *tcExpr, ts bool) string {
	var sb strings.Builder
	e.text(&sb, ts)
	return sb.String() + ";\n"
}

// plain: the program is also a JavaScript program (no TypeScript-only syntax)
func (e *tcExpr) plain() bool {
	if e == nil {
		return true
	}
	if e.cls != nil && !e.cls.plain() {
		return false
	}
	return e.a.plain() && e.b.plain() && e.c.plain()
}

func tcStmtsPlain(ss []*tcStmt) bool {
	for _, s := range ss {
		if !s.e.plain() || !tcStmtsPlain(s.t) || !tcStmtsPlain(s.f) {
			return false
		}
	}
	return true
}

func (c *tcClass) plain() bool {
	if c.base != nil && (!c.base.plain() || !c.pre.plain()) {
		return false
	}
	for _, p := range c.params {
		if p.isProp || !p.d.plain() {
			return false
		}
	}
	for _, m := range c.members {
		if m.k == "c" || !m.e.plain() {
			return false
		}
	}
	return tcStmtsPlain(c.body)
}

// ---------------------------------------------------------------- random programs

type tcGen struct {
	r         *gen.Rand
	plainOnly bool // no TypeScript-only syntax
	safe      bool // only shapes inside the hypotheses of the theorems (none of the four recorded defects)
	classes   int  // budget
	stat      func(string)
}

type tcCtx struct {
	superOK bool // super(...) is syntactically allowed here
	superP  int  // percent
	thisOK  bool
	nparams int
}

var tcKeys = []int{1, 2, 3, 100, 101}

func (g *tcGen) key() int { return tcKeys[g.r.Intn(len(tcKeys))] }

func (g *tcGen) leaf(c tcCtx) *tcExpr {
	for {
		switch g.r.Intn(10) {
		case 0:
			return &tcExpr{k: 'n', n: g.r.Intn(3)}
		case 1:
			return &tcExpr{k: 'u'}
		case 2, 3, 4, 5:
			return &tcExpr{k: 'p', n: g.r.Intn(10)}
		case 6, 7:
			if c.nparams > 0 {
				return &tcExpr{k: 'a', n: g.r.Intn(c.nparams)}
			}
		default:
			if c.thisOK {
				return &tcExpr{k: 'g', n: g.key()}
			}
		}
	}
}

func (g *tcGen) expr(c tcCtx, size int) *tcExpr {
	if size <= 0 || g.r.Chance(3, 10) {
		return g.leaf(c)
	}
	if c.superOK && g.r.Intn(100) < c.superP {
		return &tcExpr{k: 'S', a: g.expr(c, size-1)}
	}
	for {
		switch g.r.Intn(7) {
		case 0:
			if c.thisOK {
				return &tcExpr{k: '=', n: g.key(), a: g.expr(c, size-1)}
			}
		case 1, 2:
			return &tcExpr{k: ',', a: g.expr(c, size-1), b: g.expr(c, size-1)}
		case 3:
			return &tcExpr{k: '?', c: g.test(c, size-1), a: g.expr(c, size-1), b: g.expr(c, size-1)}
		case 4:
			return &tcExpr{k: 'w', a: g.expr(c, size-1)}
		case 5:
			if g.classes > 0 {
				return g.newC(c, size-1)
			}
		default:
			return g.leaf(c)
		}
	}
}

// esbuild drops the statement `undefined;`
func (g *tcGen) stmtExpr(c tcCtx, size int) *tcExpr {
	e := g.expr(c, size)
	if e.k == 'u' {
		return &tcExpr{k: 'p', n: g.r.Intn(10)}
	}
	return e
}

// esbuild knows the truth value of these (ToBooleanWithSideEffects) and would mark a branch as dead code
func tcConstTest(e *tcExpr) bool {
	switch e.k {
	case 'n', 'u':
		return true
	case ',':
		return tcConstTest(e.b)
	}
	return false
}

func (g *tcGen) test(c tcCtx, size int) *tcExpr {
	e := g.expr(c, size)
	if tcConstTest(e) {
		return &tcExpr{k: ',', a: e, b: &tcExpr{k: 'p', n: g.r.Intn(3)}}
	}
	return e
}

func (g *tcGen) newC(c tcCtx, size int) *tcExpr {
	cls := g.class(c)
	return &tcExpr{k: 'N', cls: cls, a: g.expr(c, size)}
}

// stmts without a jump in the middle; `last`: a return / throw may end the list
func (g *tcGen) stmts(c tcCtx, n int, last bool) []*tcStmt {
	out := []*tcStmt{}
	for i := 0; i < n; i++ {
		if g.r.Chance(1, 6) {
			out = append(out, &tcStmt{k: 'i', e: g.test(c, 1), t: g.stmts(c, g.r.Intn(2), last && g.r.Chance(1, 3)), f: g.stmts(c, g.r.Intn(2), last && g.r.Chance(1, 3))})
		} else {
			out = append(out, &tcStmt{k: 'e', e: g.stmtExpr(c, 2)})
		}
	}
	if last && g.r.Chance(1, 5) {
		switch g.r.Intn(4) {
		case 0:
			out = append(out, &tcStmt{k: 'r'})
		case 1, 2:
			out = append(out, &tcStmt{k: 'R', e: g.retExpr(g.expr(c, 1))})
		default:
			out = append(out, &tcStmt{k: 't', e: g.expr(c, 1)})
		}
	}
	return out
}

func tcHasSuper(e *tcExpr) bool {
	if e == nil {
		return false
	}
	if e.k == 'S' {
		return true
	}
	if e.cls != nil && tcClassPreHasSuper(e.cls) {
		return true
	}
	return tcHasSuper(e.a) || tcHasSuper(e.b) || tcHasSuper(e.c)
}

func tcClassPreHasSuper(c *tcClass) bool {
	if c.base == nil {
		return false
	}
	return tcHasSuper(c.pre) || tcClassPreHasSuper(c.base)
}

// the value is a primitive for certain
func tcEndsPrimitive(e *tcExpr) bool {
	switch e.k {
	case 'n', 'u', 'p':
		return true
	case ',':
		return tcEndsPrimitive(e.b)
	case '?':
		return tcEndsPrimitive(e.a) && tcEndsPrimitive(e.b)
	}
	return false
}

// the model's objects all have the prototype chain of new.target: a constructor must not return an object of another
// class; returned values are primitives or the value of super(...) (= this)
func (g *tcGen) retExpr(e *tcExpr) *tcExpr {
	if tcEndsPrimitive(e) || tcEndsInSuper(e) {
		return e
	}
	return &tcExpr{k: ',', a: e, b: &tcExpr{k: 'p', n: g.r.Intn(10)}}
}

func tcEndsInSuper(e *tcExpr) bool {
	return e.k == 'S' || (e.k == ',' && tcEndsInSuper(e.b))
}

// a top-level return / throw / if whose expression ends in super(...): the shape of recorded defect 1
func tcJumpEndsInSuper(ss []*tcStmt) bool {
	for _, s := range ss {
		if (s.k == 'R' || s.k == 't' || s.k == 'i') && tcEndsInSuper(s.e) {
			return true
		}
	}
	return false
}

func tcStmtsHaveSuper(ss []*tcStmt) bool {
	for _, s := range ss {
		if tcHasSuper(s.e) || tcStmtsHaveSuper(s.t) || tcStmtsHaveSuper(s.f) {
			return true
		}
	}
	return false
}

// outer: the context of the code around the class expression (its heritage prefix is evaluated there)
func (g *tcGen) class(outer tcCtx) *tcClass {
	g.classes--
	c := &tcClass{}
	if g.classes > 0 && g.r.Chance(11, 20) {
		if g.r.Chance(1, 5) {
			po := outer
			if g.safe {
				po.superOK = false
			}
			c.pre = g.expr(po, 1)
			if c.pre.k == 'u' {
				c.pre = nil
			} else {
				g.stat("gen:heritage-prefix")
				if tcHasSuper(c.pre) {
					g.stat("gen:UNSAFE-super-in-heritage-prefix")
				}
			}
		}
		c.base = g.class(outer)
	}
	for i := g.r.Intn(3); i > 0 && g.r.Chance(1, 2); i-- {
		c.setters = append(c.setters, g.key())
	}
	init := tcCtx{thisOK: true}
	sinit := tcCtx{}
	nm := g.r.Intn(5)
	for i := 0; i < nm; i++ {
		switch g.r.Intn(12) {
		case 0, 1:
			c.members = append(c.members, tcMember{k: "f", x: g.key()})
		case 2, 3, 4, 5:
			c.members = append(c.members, tcMember{k: "F", x: g.key(), e: g.expr(init, 2)})
		case 6:
			if !g.plainOnly {
				c.members = append(c.members, tcMember{k: "c", x: g.key()})
			}
		case 7:
			c.members = append(c.members, tcMember{k: "sf", x: g.key()})
		case 8, 9:
			c.members = append(c.members, tcMember{k: "sF", x: g.key(), e: g.expr(sinit, 2)})
		default:
			c.members = append(c.members, tcMember{k: "sb", x: 0, e: g.stmtExpr(sinit, 2)})
		}
	}
	c.ctorPos = g.r.Intn(len(c.members) + 1)
	if !g.r.Chance(3, 4) {
		g.stat("gen:implicit-ctor")
		return c
	}
	c.hasCtor = true
	derived := c.base != nil
	np := g.r.Intn(4)
	shape := g.r.Intn(100)
	superInDefault := derived && !g.safe && shape >= 96
	for i := 0; i < np; i++ {
		p := tcParam{isProp: !g.plainOnly && g.r.Chance(2, 5), hasD: g.r.Chance(2, 5)}
		p.mod = g.r.Pick([]string{"public", "private", "protected", "readonly", "public readonly", "override", "private readonly"})
		if p.hasD {
			pc := tcCtx{thisOK: true, nparams: i}
			if superInDefault {
				pc.superOK, pc.superP = true, 40
			}
			p.d = g.expr(pc, 2)
		}
		c.params = append(c.params, p)
	}
	bc := tcCtx{thisOK: true, nparams: np}
	if !derived {
		c.body = g.stmts(bc, g.r.Intn(4), true)
		return c
	}
	sup := func() *tcExpr { return &tcExpr{k: 'S', a: g.expr(bc, 1)} }
	x := func() *tcExpr { return g.expr(bc, 1) }
	comma := func(a, b *tcExpr) *tcExpr { return &tcExpr{k: ',', a: a, b: b} }
	before := g.stmts(bc, g.r.Intn(3), false)
	switch {
	case shape < 36: // one top-level super() statement
		g.stat("gen:shape:single-top-level-statement")
		c.body = append(append(before, &tcStmt{k: 'e', e: sup()}), g.stmts(bc, g.r.Intn(3), true)...)
	case shape < 46: // in a comma chain of an expression statement
		g.stat("gen:shape:comma-statement")
		var e *tcExpr
		switch g.r.Intn(7) {
		case 5:
			e = comma(comma(sup(), x()), x())
		case 6:
			e = comma(comma(comma(x(), sup()), x()), comma(x(), x()))
		case 0:
			e = comma(x(), sup())
		case 1:
			e = comma(sup(), x())
		case 2:
			e = comma(comma(x(), sup()), x())
		case 3:
			e = comma(x(), comma(sup(), x()))
		default:
			e = comma(comma(x(), x()), comma(sup(), comma(x(), x())))
		}
		c.body = append(append(before, &tcStmt{k: 'e', e: e}), g.stmts(bc, g.r.Intn(3), true)...)
	case shape < 55: // return / throw / if with something after the call
		g.stat("gen:shape:jump-with-rest")
		var e *tcExpr
		switch g.r.Intn(3) {
		case 0:
			e = comma(sup(), g.test(bc, 1))
		case 1:
			e = comma(comma(x(), sup()), g.test(bc, 1))
		default:
			e = comma(comma(sup(), x()), g.test(bc, 1))
		}
		switch g.r.Intn(4) {
		case 0:
			c.body = append(before, &tcStmt{k: 'R', e: g.retExpr(e)})
		case 1:
			c.body = append(before, &tcStmt{k: 't', e: e})
		default:
			c.body = append(append(before, &tcStmt{k: 'i', e: e, t: g.stmts(bc, g.r.Intn(2), true), f: g.stmts(bc, g.r.Intn(2), true)}), g.stmts(bc, g.r.Intn(2), true)...)
		}
	case shape < 61 && !g.safe: // the call is the last thing the return / throw / if evaluates
		g.stat("gen:shape:UNSAFE-jump-ends-in-call")
		e := sup()
		if g.r.Bool() {
			e = comma(x(), e)
		}
		switch g.r.Intn(4) {
		case 0:
			c.body = append(before, &tcStmt{k: 'R', e: e})
		case 1:
			c.body = append(before, &tcStmt{k: 't', e: e})
		default:
			c.body = append(append(before, &tcStmt{k: 'i', e: e, t: g.stmts(bc, g.r.Intn(2), true), f: g.stmts(bc, g.r.Intn(2), true)}), g.stmts(bc, g.r.Intn(2), true)...)
		}
	case shape < 68: // twice at top level
		g.stat("gen:shape:two-top-level-statements")
		c.body = append(append(append(before, &tcStmt{k: 'e', e: sup()}), g.stmts(bc, g.r.Intn(2), false)...), &tcStmt{k: 'e', e: sup()})
	case shape < 76: // in the branches of an if statement
		g.stat("gen:shape:inside-if-branches")
		t := []*tcStmt{{k: 'e', e: sup()}}
		f := []*tcStmt{{k: 'e', e: sup()}}
		if g.r.Chance(1, 3) {
			f = g.stmts(bc, 1, true)
		}
		c.body = append(append(before, &tcStmt{k: 'i', e: g.test(bc, 1), t: t, f: f}), g.stmts(bc, g.r.Intn(2), true)...)
	default: // anywhere (arrows, conditions, arguments, several times, or not at all)
		g.stat("gen:shape:free")
		fc := bc
		fc.superOK, fc.superP = true, 30
		c.body = g.stmts(fc, 1+g.r.Intn(3), true)
		for g.safe && tcJumpEndsInSuper(c.body) {
			c.body = g.stmts(fc, 1+g.r.Intn(3), true)
		}
		if !tcStmtsHaveSuper(c.body) {
			if g.safe || g.r.Chance(1, 2) {
				c.body = append([]*tcStmt{{k: 'e', e: sup()}}, c.body...)
			} else {
				g.stat("gen:shape:UNSAFE-derived-ctor-without-super")
			}
		}
	}
	if superInDefault {
		g.stat("gen:UNSAFE-super-in-parameter-default")
	}
	return c
}

func (g *tcGen) program() *tcExpr {
	g.classes = 1 + g.r.Intn(4)
	top := tcCtx{}
	e := g.newC(top, 1)
	if g.r.Chance(1, 6) {
		g.classes = 1 + g.r.Intn(2)
		e = &tcExpr{k: ',', a: e, b: g.newC(top, 1)}
	}
	return e
}
