package main

import (
	"fmt"
	"os"
	"regexp"
	"sort"
	"strconv"
	"strings"

	"github.com/evanw/esbuild/internal/linker"
	"github.com/evanw/esbuild/pkg/api"
	"github.com/evanw/esbuild/verifharness/gen"
)

// kernel "crosschunk": real --splitting builds run with the cross-chunk observation hook installed
// (internal/linker/verif_observe_crosschunk.go). The hook reports what computeCrossChunkDependencies read
// (chunks, live parts with symbol uses and top-level declarations, symbols, ImportsToBind, entry export
// tables) and what it produced (Symbol.ChunkIndex, importsFromOtherChunks, exportsToOtherChunks, the generated
// import/export clauses, crossChunkImports) plus the entry point tails printed with refs as names. The inputs
// go to the Lean model (Impl/CrossChunk.lean), which recomputes all outputs.

type natw struct{ sb strings.Builder }

func (w *natw) n(x uint64) {
	if w.sb.Len() > 0 {
		w.sb.WriteByte(',')
	}
	w.sb.WriteString(strconv.FormatUint(x, 10))
}
func (w *natw) b(x bool) {
	if x {
		w.n(1)
	} else {
		w.n(0)
	}
}
func (w *natw) ref(r [2]uint32) { w.n(uint64(r[0])); w.n(uint64(r[1])) }
func (w *natw) name(s string) {
	rs := []rune(s)
	w.n(uint64(len(rs)))
	for _, c := range rs {
		w.n(uint64(c))
	}
}
func (w *natw) optref(has bool, r [2]uint32) {
	if has {
		w.n(1)
		w.ref(r)
	} else {
		w.n(0)
	}
}
func (w *natw) String() string { return w.sb.String() }

func ccRef(r [2]uint32) string { return fmt.Sprintf("%d_%d", r[0], r[1]) }

func ccItems(items []linker.VerifCCItem) string {
	s := make([]string, len(items))
	for i, it := range items {
		s[i] = ccRef(it.Ref) + "=" + it.Alias
	}
	return strings.Join(s, "+")
}

func ccImports(ims []linker.VerifCCImport) string {
	if len(ims) == 0 {
		return "-"
	}
	s := make([]string, len(ims))
	for i, im := range ims {
		s[i] = strconv.Itoa(im.Chunk) + ":" + ccItems(im.Items)
	}
	return strings.Join(s, ";")
}

func ccDash(s string) string {
	if s == "" {
		return "-"
	}
	return s
}

var ccTailRe = regexp.MustCompile(`(var\s+)?__vref_(\d+)_(\d+)__(\s+as\s+([^\s,;{}]+))?`)

// the tail text as tokens: `a_b` a mention, `va_b` a declaration, `a_b=alias` an export clause item
func ccTail(text string, ms func(uint32) uint32) string {
	toks := []string{}
	for _, m := range ccTailRe.FindAllStringSubmatch(text, -1) {
		src, _ := strconv.ParseUint(m[2], 10, 32)
		t := strconv.FormatUint(uint64(ms(uint32(src))), 10) + "_" + m[3]
		if m[1] != "" {
			t = "v" + t
		} else if m[4] != "" {
			alias := m[5]
			if len(alias) >= 2 && (alias[0] == '"' || alias[0] == '\'') {
				alias = alias[1 : len(alias)-1]
			}
			t += "=" + alias
		}
		toks = append(toks, t)
	}
	return ccDash(strings.Join(toks, ","))
}

// ccCanon renumbers source indices by the linker's stable source index (the bundler hands out source indices in
// a racy order, the stable index is the DFS order over the entry points) and re-sorts what was sorted by ref, so
// that an operation depends on the seed only.
func ccCanon(d *linker.VerifCCDump) func(uint32) uint32 {
	perm := map[uint32]uint32{}
	for _, f := range d.Files {
		perm[f.Src] = f.Stable
	}
	ms := func(s uint32) uint32 {
		if t, ok := perm[s]; ok {
			return t
		}
		return s
	}
	mr := func(r [2]uint32) [2]uint32 { return [2]uint32{ms(r[0]), r[1]} }
	less := func(a, b [2]uint32) bool { return a[0] < b[0] || (a[0] == b[0] && a[1] < b[1]) }
	for i := range d.Syms {
		s := &d.Syms[i]
		s.Ref, s.Ns, s.Link = mr(s.Ref), mr(s.Ns), mr(s.Link)
	}
	sort.Slice(d.Syms, func(i, j int) bool { return less(d.Syms[i].Ref, d.Syms[j].Ref) })
	for i := range d.Files {
		f := &d.Files[i]
		f.Src, f.WrapperRef, f.ExportsRef = ms(f.Src), mr(f.WrapperRef), mr(f.ExportsRef)
		for k := range f.Binds {
			f.Binds[k] = [2][2]uint32{mr(f.Binds[k][0]), mr(f.Binds[k][1])}
		}
		sort.Slice(f.Binds, func(a, b int) bool { return less(f.Binds[a][0], f.Binds[b][0]) })
		for k := range f.Exports {
			f.Exports[k].Src, f.Exports[k].Ref = ms(f.Exports[k].Src), mr(f.Exports[k].Ref)
		}
		for k := range f.Copies {
			f.Copies[k] = mr(f.Copies[k])
		}
		for k := range f.Parts {
			p := &f.Parts[k]
			for j := range p.Declared {
				p.Declared[j] = mr(p.Declared[j])
			}
			for j := range p.Uses {
				p.Uses[j] = mr(p.Uses[j])
			}
			sort.Slice(p.Uses, func(a, b int) bool { return less(p.Uses[a], p.Uses[b]) })
			for j := range p.Dyn {
				p.Dyn[j] = int(ms(uint32(p.Dyn[j])))
			}
		}
	}
	items := func(l []linker.VerifCCItem) {
		for k := range l {
			l[k].Ref = mr(l[k].Ref)
		}
	}
	for i := range d.Chunks {
		c := &d.Chunks[i]
		for k := range c.Files {
			c.Files[k] = ms(c.Files[k])
		}
		sort.Slice(c.Files, func(a, b int) bool { return c.Files[a] < c.Files[b] })
		c.EntrySrc = ms(c.EntrySrc)
		for k := range c.ImportsFrom {
			items(c.ImportsFrom[k].Items)
		}
		for k := range c.Prefix {
			items(c.Prefix[k].Items)
		}
		items(c.ExportStmt)
		items(c.ExportsMap)
		sort.Slice(c.ExportsMap, func(a, b int) bool { return less(c.ExportsMap[a].Ref, c.ExportsMap[b].Ref) })
	}
	return ms
}

func crossChunkOpAndExpected(d linker.VerifCCDump) (string, string) {
	ms := ccCanon(&d)
	var ws, wf, wc natw
	ws.n(uint64(len(d.Syms)))
	decl := []string{}
	for _, s := range d.Syms {
		ws.ref(s.Ref)
		ws.b(s.Unbound)
		ws.b(s.Missing)
		ws.optref(s.HasNs, s.Ns)
		ws.name(s.Name)
		ws.optref(s.HasLink, s.Link)
		if s.ChunkIndex >= 0 {
			decl = append(decl, fmt.Sprintf("%s:%d", ccRef(s.Ref), s.ChunkIndex))
		}
	}
	wf.n(uint64(len(d.Files)))
	for _, f := range d.Files {
		wf.n(uint64(f.Src))
		wf.n(uint64(f.Stable))
		wf.b(f.IsJS)
		wf.n(uint64(f.Wrap))
		wf.ref(f.WrapperRef)
		wf.ref(f.ExportsRef)
		wf.b(f.ForceExports)
		wf.n(uint64(f.EntryChunk))
		wf.n(uint64(len(f.Binds)))
		for _, b := range f.Binds {
			wf.ref(b[0])
			wf.ref(b[1])
		}
		wf.n(uint64(len(f.Exports)))
		for _, x := range f.Exports {
			wf.name(x.Alias)
			wf.n(uint64(x.Src))
			wf.ref(x.Ref)
		}
		wf.n(uint64(len(f.Copies)))
		for _, r := range f.Copies {
			wf.ref(r)
		}
		wf.n(uint64(len(f.Parts)))
		for _, p := range f.Parts {
			wf.b(p.Live)
			wf.n(uint64(len(p.Declared)))
			for _, r := range p.Declared {
				wf.ref(r)
			}
			wf.n(uint64(len(p.Uses)))
			for _, r := range p.Uses {
				wf.ref(r)
			}
			wf.n(uint64(len(p.Dyn)))
			for _, t := range p.Dyn {
				wf.n(uint64(t))
			}
		}
	}
	wc.n(uint64(len(d.Chunks)))
	outs := []string{"hyp=ok decl=" + ccDash(strings.Join(decl, ","))}
	for _, c := range d.Chunks {
		wc.b(c.IsJS)
		wc.n(uint64(len(c.Files)))
		for _, s := range c.Files {
			wc.n(uint64(s))
		}
		wc.b(c.IsEntry)
		wc.n(uint64(c.EntrySrc))
		wc.n(uint64(c.EntryBit))
		wc.n(uint64(len(c.Bits)))
		for _, b := range c.Bits {
			wc.n(uint64(b))
		}
		cci := []string{}
		for _, x := range c.CrossImports {
			cci = append(cci, []string{"s", "d", "?"}[x[0]]+strconv.Itoa(x[1]))
		}
		imp := ccImports(c.ImportsFrom)
		if pre := ccImports(c.Prefix); pre != imp {
			imp += "!prefix-statements-differ:" + pre
		}
		outs = append(outs, "imp="+imp+" exp="+ccDash(ccItems(c.ExportStmt))+" map="+ccDash(ccItems(c.ExportsMap))+
			" cci="+ccDash(strings.Join(cci, ","))+" tail="+ccTail(c.Tail, ms))
	}
	op := "crosschunk\t" + b01(d.Minify) + "\t" + ws.String() + "\t" + wf.String() + "\t" + wc.String()
	return op, strings.Join(outs, " | ")
}

// ccGraph: module graphs aimed at the branches of computeCrossChunkDependencies: several entry points, shared ES
// modules whose top-level symbols have colliding original names (x, x2, x1, bump), shared CommonJS modules
// (wrapper symbol, namespace aliases), ES modules that are also require()d (ESM wrappers), barrels private to
// one entry (named re-export, export star, re-exported namespace, re-exported CommonJS binding), namespace
// imports with computed access (exports object crosses chunks) and missing properties, dynamic imports of
// entries / shared modules / a leaf, CommonJS entry points.
func ccGraph(r *gen.Rand, e *emitter) (map[string]string, []string) {
	files := map[string]string{}
	nEnt := 2 + r.Intn(3)
	nSh := 1 + r.Intn(4)
	nCj := r.Intn(3)
	hasDefault := make([]bool, nSh)
	cjsRe := make([]int, nSh)
	uid := 0
	id := func(p string) string { uid++; return fmt.Sprintf("%s%d", p, uid) }
	for i := 0; i < nSh; i++ {
		var sb strings.Builder
		uses := []string{}
		if i+1 < nSh && r.Chance(1, 3) {
			j := i + 1 + r.Intn(nSh-i-1)
			fmt.Fprintf(&sb, "import { x_%d as dep } from \"./s%d.js\";\n", j, j)
			uses = append(uses, "dep")
		}
		if nCj > 0 && r.Chance(1, 4) {
			j := r.Intn(nCj)
			fmt.Fprintf(&sb, "import { a_%d as cdep } from \"./c%d.cjs\";\n", j, j)
			uses = append(uses, "cdep")
			e.stat("gen:shared-imports-cjs")
		}
		cjsRe[i] = -1
		if nCj > 0 && r.Chance(1, 3) {
			cjsRe[i] = r.Intn(nCj)
			fmt.Fprintf(&sb, "export { a_%d as ca_%d } from \"./c%d.cjs\";\n", cjsRe[i], i, cjsRe[i])
			e.stat("gen:shared-reexports-cjs-binding")
		}
		if i+1 < nSh && r.Chance(1, 4) {
			j := i + 1 + r.Intn(nSh-i-1)
			fmt.Fprintf(&sb, "const rq = require(\"./s%d.js\");\n", j)
			uses = append(uses, "rq")
			e.stat("gen:shared-requires-esm")
		}
		fmt.Fprintf(&sb, "let x = %d;\n", i)
		second := []string{"x2", "x1", "x3", "x22"}[r.Intn(4)]
		fmt.Fprintf(&sb, "let %s = %d;\n", second, i*10)
		fmt.Fprintf(&sb, "function bump() { x++; %s += 2; return x; }\n", second)
		fmt.Fprintf(&sb, "export { x as x_%d, %s as y_%d, bump as bump_%d };\n", i, second, i, i)
		if r.Bool() {
			hasDefault[i] = true
			sb.WriteString([]string{"export default function () { return x; }\n", "export default class bump2 {}\n", "export default x + 1;\n"}[r.Intn(3)])
		}
		if r.Chance(1, 6) {
			// a redeclared `var`: the parser links the first symbol to the second one
			// (always with a use inside the module: without one esbuild drops BOTH declarations although another
			// module imports the binding -- the export names the first symbol, the parts are filed under the
			// second; reported as a finding of this work package, not generated here)
			fmt.Fprintf(&sb, "export var rv_%d = 1;\nvar rv_%d = 2;\n", i, i)
			uses = append(uses, fmt.Sprintf("rv_%d", i))
			e.stat("gen:redeclared-exported-var")
		}
		if r.Chance(1, 6) {
			fmt.Fprintf(&sb, "import { ext as ext_%d } from \"ext-pkg\";\nexport { ext_%d, ext2 as extre_%d } from \"ext-pkg\";\n", i, i, i)
			uses = append(uses, fmt.Sprintf("ext_%d", i))
			e.stat("gen:external-import-and-reexport")
		}
		fmt.Fprintf(&sb, "console.log(\"s%d\"%s);\n", i, func() string {
			if len(uses) == 0 {
				return ""
			}
			return ", " + strings.Join(uses, ", ")
		}())
		files[fmt.Sprintf("s%d.js", i)] = sb.String()
	}
	for i := 0; i < nCj; i++ {
		files[fmt.Sprintf("c%d.cjs", i)] = fmt.Sprintf("exports.a_%d = %d;\nexports.f_%d = function () { return %d; };\nconsole.log(\"c%d\");\n", i, i, i, i, i)
	}
	files["leaf.js"] = "export let lx = 1;\nconsole.log(\"leaf\");\n"
	entries := []string{}
	entPath := func(j int) string { return fmt.Sprintf("e%d.js", j) }
	// Family "wrapped re-exporter": an ES module that an entry loads with require() (so it is wrapped with __esm)
	// and that only re-exports, by name or with `export *`, bindings of a shared module which ANOTHER entry point
	// reaches directly (so the defining module sits in another chunk). Its generated namespace-export part lists
	// the resolved targets of the re-exports directly in SymbolUses, without an ImportsToBind entry: the one place
	// where the `Wrap == WrapCJS && ref != WrapperRef` test of computeCrossChunkDependencies decides about a symbol
	// of another chunk. For contrast: a wrapped ES module that imports the binding normally and uses it.
	wrapFam := make([][][2]int, nEnt) // per entry: (shared module, kind)
	direct := make([][]int, nEnt)     // per entry: shared modules it must import directly
	for j := 0; j < nEnt; j++ {
		if r.Chance(1, 3) {
			for k := 0; k < 1+r.Intn(2); k++ {
				i := r.Intn(nSh)
				wrapFam[j] = append(wrapFam[j], [2]int{i, r.Intn(4)})
				if o := (j + 1 + r.Intn(nEnt-1)) % nEnt; r.Chance(4, 5) {
					direct[o] = append(direct[o], i)
				}
			}
		}
	}
	for j := 0; j < nEnt; j++ {
		if r.Chance(1, 8) {
			// CommonJS entry point
			var sb strings.Builder
			if nCj > 0 {
				fmt.Fprintf(&sb, "const q = require(\"./c%d.cjs\");\n", r.Intn(nCj))
			}
			fmt.Fprintf(&sb, "const w = require(\"./s%d.js\");\nmodule.exports = { w };\n", r.Intn(nSh))
			files[entPath(j)] = sb.String()
			entries = append(entries, entPath(j))
			e.stat("gen:cjs-entry")
			continue
		}
		var sb, body strings.Builder
		nb := 0
		barrel := func() string {
			// a barrel private to this entry
			name := fmt.Sprintf("b%d_%d.js", j, nb)
			nb++
			var bb strings.Builder
			for k := 0; k < 1+r.Intn(3); k++ {
				i := r.Intn(nSh)
				switch r.Intn(7) {
				case 0:
					fmt.Fprintf(&bb, "export { x_%d as %s, bump_%d as %s } from \"./s%d.js\";\n", i, id("bx"), i, id("bb"), i)
					e.stat("gen:barrel-named-reexport")
				case 1:
					fmt.Fprintf(&bb, "export * from \"./s%d.js\";\n", i)
					e.stat("gen:barrel-star")
				case 2:
					n := id("ns")
					fmt.Fprintf(&bb, "import * as %s from \"./s%d.js\";\nexport { %s };\n", n, i, n)
					e.stat("gen:barrel-namespace")
				case 3:
					if nCj > 0 {
						c := r.Intn(nCj)
						fmt.Fprintf(&bb, "export { a_%d as %s } from \"./c%d.cjs\";\n", c, id("ca"), c)
						e.stat("gen:barrel-cjs-reexport")
					}
				case 4:
					l := id("loc")
					fmt.Fprintf(&bb, "import { y_%d as %s } from \"./s%d.js\";\nexport { %s as %s };\n", i, l, i, l, id("ren"))
					e.stat("gen:barrel-import-then-export")
				case 5:
					if hasDefault[i] {
						fmt.Fprintf(&bb, "export { default as %s } from \"./s%d.js\";\n", id("dflt"), i)
						e.stat("gen:barrel-default-reexport")
					}
				default:
					fmt.Fprintf(&bb, "export const %s = %d;\n", id("own"), k)
				}
			}
			fmt.Fprintf(&bb, "console.log(\"%s\");\n", name)
			files[name] = bb.String()
			return name
		}
		for k := 0; k < 1+r.Intn(5); k++ {
			i := r.Intn(nSh)
			switch r.Intn(18) {
			case 0, 1:
				a, b := id("x"), id("bump")
				fmt.Fprintf(&sb, "import { x_%d as %s, bump_%d as %s } from \"./s%d.js\";\n", i, a, i, b, i)
				fmt.Fprintf(&body, "console.log(%s, %s());\n", a, b)
			case 2:
				n := id("n")
				fmt.Fprintf(&sb, "import * as %s from \"./s%d.js\";\n", n, i)
				fmt.Fprintf(&body, "console.log(%s[globalThis.k], %s.nope);\n", n, n)
				e.stat("gen:namespace-computed+missing")
			case 3:
				if hasDefault[i] {
					d := id("d")
					fmt.Fprintf(&sb, "import %s from \"./s%d.js\";\n", d, i)
					fmt.Fprintf(&body, "console.log(%s);\n", d)
				}
			case 4:
				if nCj > 0 {
					c := r.Intn(nCj)
					a := id("a")
					fmt.Fprintf(&sb, "import { a_%d as %s } from \"./c%d.cjs\";\n", c, a, c)
					fmt.Fprintf(&body, "console.log(%s);\n", a)
					e.stat("gen:cjs-named-import")
				}
			case 5:
				if nCj > 0 {
					c := r.Intn(nCj)
					cj := id("cj")
					fmt.Fprintf(&sb, "import %s from \"./c%d.cjs\";\n", cj, c)
					fmt.Fprintf(&body, "console.log(%s);\n", cj)
				}
			case 6:
				fmt.Fprintf(&body, "console.log(require(\"./s%d.js\"));\n", i)
				e.stat("gen:require-esm")
				if cjsRe[i] >= 0 {
					a := id("ca")
					fmt.Fprintf(&sb, "import { ca_%d as %s } from \"./s%d.js\";\n", i, a, i)
					fmt.Fprintf(&body, "console.log(%s);\n", a)
				}
			case 14, 15:
				if cjsRe[i] >= 0 {
					a := id("ca")
					fmt.Fprintf(&sb, "import { ca_%d as %s } from \"./s%d.js\";\n", i, a, i)
					fmt.Fprintf(&body, "console.log(%s);\n", a)
					e.stat("gen:entry-imports-cjs-binding-through-shared")
				} else {
					fmt.Fprintf(&body, "console.log(require(\"./s%d.js\"));\n", i)
					e.stat("gen:require-esm")
				}
			case 16:
				if o := r.Intn(nEnt); o != j {
					if r.Bool() {
						fmt.Fprintf(&sb, "import \"./%s\";\n", entPath(o))
					} else {
						n := id("en")
						fmt.Fprintf(&sb, "import * as %s from \"./%s\";\n", n, entPath(o))
						fmt.Fprintf(&body, "console.log(%s);\n", n)
					}
					e.stat("gen:entry-imports-entry")
				}
			case 7, 8:
				fmt.Fprintf(&sb, "export * from \"./%s\";\n", barrel())
				e.stat("gen:entry-star-barrel")
			case 9:
				fmt.Fprintf(&sb, "export { x_%d as %s } from \"./s%d.js\";\n", i, id("ex"), i)
				if strings.Contains(files[fmt.Sprintf("s%d.js", i)], "export var rv_") {
					v := id("rv")
					fmt.Fprintf(&sb, "import { rv_%d as %s } from \"./s%d.js\";\n", i, v, i)
					fmt.Fprintf(&body, "console.log(%s);\n", v)
					e.stat("gen:entry-uses-redeclared-var")
				}
			case 10:
				fmt.Fprintf(&sb, "export * from \"./s%d.js\";\n", i)
			case 11:
				t := []string{entPath(r.Intn(nEnt)), fmt.Sprintf("s%d.js", i), "leaf.js"}[r.Intn(3)]
				fmt.Fprintf(&body, "import(\"./%s\").then(m => console.log(m));\n", t)
				e.stat("gen:dynamic-import")
			case 12:
				if nCj > 0 {
					c := r.Intn(nCj)
					fmt.Fprintf(&sb, "export { a_%d as %s } from \"./c%d.cjs\";\n", c, id("eca"), c)
					e.stat("gen:entry-cjs-reexport")
				}
			default:
				b := barrel()
				v := id("bv")
				fmt.Fprintf(&sb, "import * as %s from \"./%s\";\n", v, b)
				fmt.Fprintf(&body, "console.log(%s);\n", v)
			}
		}
		fmt.Fprintf(&sb, "export const %s = %d;\nexport function %s() { return %d; }\n", id("name"), j, id("fn"), j)
		if r.Chance(1, 3) {
			sb.WriteString("export default \"d\";\n")
		}
		for n, w := range wrapFam[j] {
			i := w[0]
			name := fmt.Sprintf("w%d_%d.js", j, n)
			switch w[1] {
			case 0:
				files[name] = fmt.Sprintf("export { x_%d as wx, bump_%d as wb } from \"./s%d.js\";\n", i, i, i)
				e.stat("gen:wrapped-esm-reexports-by-name")
			case 1:
				files[name] = fmt.Sprintf("export * from \"./s%d.js\";\n", i)
				e.stat("gen:wrapped-esm-reexports-star")
			case 2:
				files[name] = fmt.Sprintf("export * from \"./s%d.js\";\nexport { y_%d as wy } from \"./s%d.js\";\nexport const wown = %d;\n", i, i, i, n)
				e.stat("gen:wrapped-esm-reexports-star+name+own")
			default:
				files[name] = fmt.Sprintf("import { x_%d as wi, bump_%d as wbump } from \"./s%d.js\";\nexport const wv = [wi, wbump()];\nconsole.log(\"%s\");\n", i, i, i, name)
				e.stat("gen:wrapped-esm-imports-normally")
			}
			fmt.Fprintf(&body, "console.log(require(\"./%s\"));\n", name)
		}
		for _, i := range direct[j] {
			v := id("dx")
			fmt.Fprintf(&sb, "import { x_%d as %s } from \"./s%d.js\";\n", i, v, i)
			fmt.Fprintf(&body, "console.log(typeof %s);\n", v)
		}
		if r.Chance(1, 8) {
			files["st.css"] = "@import \"./st2.css\";\n.a { color: red }\n"
			files["st2.css"] = ".b { color: blue }\n"
			sb.WriteString("import \"./st.css\";\n")
			e.stat("gen:css-import")
		}
		sb.WriteString(body.String())
		fmt.Fprintf(&sb, "console.log(\"e%d\");\n", j)
		files[entPath(j)] = sb.String()
		entries = append(entries, entPath(j))
	}
	return files, entries
}

// corrupt makes an operation the model must reject: a missing argument, a letter among the numbers, a list that
// ends early or carries one number too many
func ccCorrupt(r *gen.Rand, op string) string {
	args := strings.Split(op, "\t")
	k := 2 + r.Intn(3)
	switch r.Intn(5) {
	case 0:
		return strings.Join(args[:len(args)-1], "\t")
	case 1:
		args[k] = args[k] + ",x"
	case 2:
		if i := strings.LastIndex(args[k], ","); i > 0 {
			args[k] = args[k][:i]
		} else {
			args[k] = ""
		}
	case 3:
		args[k] = args[k] + ",7"
	default:
		args[1] = "2"
	}
	return strings.Join(args, "\t")
}

func init() {
	kernels["crosschunk"] = func(r *gen.Rand, e *emitter, tier string) {
		for !e.full() {
			var files map[string]string
			var entries []string
			if r.Chance(2, 5) {
				ents := 2 + r.Intn(2)
				g := gen.GenGraph(r, gen.GraphOpts{Modules: ents + 1 + r.Intn(6), Entries: ents, AllowCJS: r.Chance(1, 3), AllowDyn: r.Chance(2, 3),
					AllowCycle: r.Chance(1, 3), AllowStar: r.Chance(2, 3), SideEffectFreeDecls: r.Bool(), CollidingNames: r.Bool(), AvoidInPlaceOrder: true})
				files, entries = g.Files, g.Entries[:ents]
				e.stat("graph:module-graph")
			} else {
				files, entries = ccGraph(r, e)
				e.stat("graph:cross-chunk-templates")
			}
			// the files are served from memory by a plugin (no disk traffic: the kernel runs thousands of builds)
			fs := files
			plugin := api.Plugin{Name: "mem", Setup: func(b api.PluginBuild) {
				b.OnResolve(api.OnResolveOptions{Filter: `.*`}, func(a api.OnResolveArgs) (api.OnResolveResult, error) {
					if a.Path == "ext-pkg" {
						return api.OnResolveResult{Path: a.Path, External: true}, nil
					}
					return api.OnResolveResult{Path: strings.TrimPrefix(a.Path, "./"), Namespace: "v"}, nil
				})
				b.OnLoad(api.OnLoadOptions{Filter: `.*`, Namespace: "v"}, func(a api.OnLoadArgs) (api.OnLoadResult, error) {
					c, ok := fs[a.Path]
					if !ok {
						return api.OnLoadResult{}, fmt.Errorf("no such file %s", a.Path)
					}
					l := api.LoaderJS
					if strings.HasSuffix(a.Path, ".css") {
						l = api.LoaderCSS
					}
					return api.OnLoadResult{Contents: &c, Loader: l}, nil
				})
			}}
			eps := make([]string, len(entries))
			for i, en := range entries {
				eps[i] = "./" + en
			}
			bo := api.BuildOptions{EntryPoints: eps, Bundle: true, Splitting: true, Outdir: "/out", Write: false,
				LogLevel: api.LogLevelSilent, Format: api.FormatESModule, Plugins: []api.Plugin{plugin}}
			if r.Chance(1, 3) {
				bo.MinifyIdentifiers = true
				e.stat("opt:minify-identifiers")
			}
			if r.Chance(1, 4) {
				bo.MinifySyntax = true
			}
			if r.Chance(1, 6) {
				bo.TreeShaking = api.TreeShakingFalse
				e.stat("opt:tree-shaking=false")
			}
			if r.Chance(1, 4) {
				bo.Platform = api.PlatformNode
			}
			var dump *linker.VerifCCDump
			linker.VerifSetCrossChunkObserver(func(d linker.VerifCCDump) { dd := d; dump = &dd })
			var res api.BuildResult
			if guard(func() string { res = api.Build(bo); return "" }) == "PANIC" {
				// the real routine crashed: an operation no model answer can match
				linker.VerifSetCrossChunkObserver(nil)
				e.stat("esbuild-panic")
				e.emit("crosschunk\tesbuild-panicked", "esbuild panicked during this build")
				continue
			}
			linker.VerifSetCrossChunkObserver(nil)
			if dump == nil {
				e.stat("no-dump")
				if len(res.Errors) > 0 {
					e.stat("build-error")
					if os.Getenv("CC_DEBUG") != "" {
						fmt.Fprintln(os.Stderr, "build error:", res.Errors[0].Text)
					}
				}
				continue
			}
			op, exp := crossChunkOpAndExpected(*dump)
			ccStats(e, *dump)
			e.emit(op, exp)
			if r.Chance(1, 40) && !e.full() {
				e.stat("malformed-op")
				e.emit(ccCorrupt(r, op), "bad-op")
			}
		}
	}
}

// ccStats records which branches of the routine (and of the model) the build went through
func ccStats(e *emitter, d linker.VerifCCDump) {
	syms := map[[2]uint32]linker.VerifCCSym{}
	for _, s := range d.Syms {
		syms[s.Ref] = s
		if s.HasLink {
			e.stat("sym:has-link")
		}
	}
	files := map[uint32]linker.VerifCCFile{}
	for _, f := range d.Files {
		files[f.Src] = f
	}
	e.stat(fmt.Sprintf("chunks=%d", len(d.Chunks)))
	for ci, c := range d.Chunks {
		if !c.IsJS {
			e.stat("chunk:not-js")
			continue
		}
		if c.IsEntry {
			f := files[c.EntrySrc]
			e.stat(fmt.Sprintf("entry:wrap=%d", f.Wrap))
			if f.ForceExports {
				e.stat("entry:force-exports")
			}
			if len(f.Exports) > 0 {
				e.stat("entry:has-exports")
			}
			for _, x := range f.Exports {
				if x.Src != c.EntrySrc {
					e.stat("entry-export:from-other-file")
				}
				t := x.Ref
				hit := false
				for _, b := range files[x.Src].Binds {
					if b[0] == t {
						t = b[1]
						hit = true
					}
				}
				if hit {
					e.stat("entry-export:via-imports-to-bind")
					viaEntry := false
					for _, b := range f.Binds {
						if b[0] == x.Ref {
							viaEntry = true
						}
					}
					if !viaEntry || x.Src != c.EntrySrc {
						e.stat("entry-export:bind-only-in-owner-file")
					}
				}
				if syms[t].HasNs {
					e.stat("entry-export:namespace-alias")
				}
				if syms[t].ChunkIndex >= 0 && syms[t].ChunkIndex != ci {
					e.stat("entry-export:declared-in-other-chunk")
				}
			}
			if strings.Contains(c.Tail, "var __vref") {
				e.stat("tail:cjs-export-copy")
			}
		}
		for _, s := range c.Files {
			f := files[s]
			for _, p := range f.Parts {
				if !p.Live {
					if len(p.Uses) > 0 {
						e.stat("part:dead-with-uses")
					}
					continue
				}
				if len(p.Dyn) > 0 {
					e.stat("part:external-dynamic-import")
				}
				for _, u := range p.Uses {
					sy := syms[u]
					switch {
					case sy.Unbound:
						e.stat("use:unbound")
					case sy.Missing:
						e.stat("use:missing")
					default:
						bound := false
						t := u
						for _, b := range f.Binds {
							if b[0] == u {
								bound = true
								t = b[1]
							}
						}
						if bound {
							e.stat("use:imports-to-bind")
						} else if f.Wrap == 1 && u != f.WrapperRef {
							e.stat("use:inside-cjs-wrapper-skipped")
						} else {
							e.stat("use:plain")
							if f.Wrap == 2 && u != f.WrapperRef {
								e.stat("use:unbound-to-import-inside-esm-wrapper")
								if syms[u].ChunkIndex >= 0 && syms[u].ChunkIndex != ci {
									// only the `== WrapCJS` of the wrapper test keeps this symbol of ANOTHER chunk
									e.stat("use:esm-wrapper-direct-use-of-other-chunk-symbol")
								}
							}
						}
						if bound || !(f.Wrap == 1 && u != f.WrapperRef) {
							if syms[t].HasNs {
								e.stat("use:namespace-alias")
							}
							if syms[t].HasLink {
								e.stat("use:resolved-symbol-has-link")
							}
						}
					}
				}
			}
		}
		for _, im := range c.ImportsFrom {
			if len(im.Items) == 0 {
				e.stat("import:bare-chunk-import")
			} else {
				e.stat("import:with-items")
			}
			if len(im.Items) > 1 {
				e.stat("import:several-items-sorted")
			}
		}
		if len(c.ExportStmt) > 0 {
			e.stat("export:chunk-exports")
			seen := map[string]bool{}
			for _, it := range c.ExportStmt {
				n := syms[it.Ref].Name
				if seen[n] {
					e.stat("export:colliding-original-names")
				}
				seen[n] = true
				if it.Alias != n && !d.Minify {
					e.stat("export:alias-renamed")
				}
			}
		}
		for _, x := range c.CrossImports {
			if x[0] == 1 {
				e.stat("cci:dynamic")
			} else {
				e.stat("cci:static")
			}
		}
	}
}
