package main

import (
	"fmt"
	"math"
	"strconv"
	"strings"

	"github.com/evanw/esbuild/internal/css_parser"
	"github.com/evanw/esbuild/internal/js_printer"
	"github.com/evanw/esbuild/verifharness/gen"
)

// Kernel `numprint`: printNonNegativeFloat / smallIntToBytes / parseSmallInt (js_printer) and
// mangleNumber / shiftDot / mangleDimension (css_parser) against lean/EsbuildModel/Impl/{NumPrint,CssNumber}.lean.
//
// The JS op carries the float bits AND strconv.FormatFloat(x,'g',-1,64) (computed here, trusted by the model);
// the model rewrites the text; expected = the bytes the real printer emitted.

func npDigits(r *gen.Rand, n int, zeroBias int) string {
	b := make([]byte, n)
	for i := range b {
		if r.Intn(10) < zeroBias {
			b[i] = '0'
		} else {
			b[i] = byte('0' + r.Intn(10))
		}
	}
	return string(b)
}

// npFloat: a finite non-negative float64 and the name of the class it was drawn from
func npFloat(r *gen.Rand) (float64, string) {
	for {
		var v float64
		var class string
		switch r.Intn(15) {
		case 0: // integers around powers of ten
			k := r.Intn(24)
			v = math.Pow(10, float64(k)) + float64(r.Intn(5)-2)
			class = "pow10±"
		case 1: // small integers and the 1000 boundary of the fast path
			v = float64(r.Intn(1100))
			if r.Chance(1, 3) {
				v = float64(995 + r.Intn(10))
			}
			if r.Chance(1, 4) {
				v += []float64{0.5, 0.25, 0.125, 0.001}[r.Intn(4)]
			}
			class = "small"
		case 2: // few significant digits times a power of ten: trailing zeros, both notations
			m := float64(1 + r.Intn(999))
			k := r.Intn(60) - 30
			v, _ = strconv.ParseFloat(fmt.Sprintf("%ge%d", m, k), 64)
			class = "m·10^k"
		case 3: // decimal text with up to 17 significant digits and any exponent
			nd := 1 + r.Intn(17)
			s := strconv.Itoa(1+r.Intn(9)) + npDigits(r, nd-1, 3)
			ex := r.Intn(640) - 330
			v, _ = strconv.ParseFloat(s[:1]+"."+s[1:]+"0e"+strconv.Itoa(ex), 64)
			class = "decimal-text"
		case 4: // 0.000001-ish: fractions with leading zeros, around the 1e-4 notation switch
			nd := 1 + r.Intn(6)
			s := npDigits(r, nd, 2)
			z := r.Intn(9)
			v, _ = strconv.ParseFloat("0."+strings.Repeat("0", z)+s+strconv.Itoa(1+r.Intn(9)), 64)
			class = "leading-zero-fraction"
		case 5: // subnormals and the smallest normals
			v = math.Float64frombits(uint64(r.U64()) >> uint(12+r.Intn(52)))
			class = "subnormal"
		case 6: // integers >= 1e12 that are exact (hex branch candidates): 53 significant bits shifted
			m := r.U64() >> uint(11+r.Intn(30))
			sh := uint(r.Intn(24))
			x := m << sh
			if x>>sh != m {
				x = m
			}
			v = float64(x)
			class = "big-int"
		case 7: // integers >= 1e12 with many trailing decimal zeros (decimal wins) or hex zeros (hex wins)
			if r.Bool() {
				v = float64(1+r.Intn(99)) * math.Pow(10, float64(10+r.Intn(10)))
			} else {
				v = float64(uint64(1+r.Intn(255)) << uint(32+r.Intn(25)))
			}
			class = "big-round"
		case 8: // boundaries of the hex range
			b := []float64{999999999999, 1000000000000, 1000000000001, 999999999999.5, 1000000000000.5,
				0xFFFFFFFFFFFFF800, 0xFFFFFFFFFFFFF000, 18446744073709551616.0, 36893488147419103232.0,
				9007199254740991, 9007199254740992, 9007199254740993, 9223372036854775808.0}
			v = b[r.Intn(len(b))]
			class = "hex-boundary"
		case 9: // notation switch of %g with shortest precision (exp < -4 || exp >= 21) and JS's 1e21
			b := []float64{1e20, 1e21, 1e22, 123456789012345680000, 1234567890123456800000, 0.0001, 0.00001,
				0.00012345, 0.000012345, 99999, 100000, 999999, 1000000, 1234567, 12345678}
			v = b[r.Intn(len(b))]
			class = "notation-switch"
		case 10: // extremes
			b := []float64{math.MaxFloat64, math.SmallestNonzeroFloat64, 2.2250738585072014e-308, 0, 1, 5e-324,
				1.7976931348623157e308, 1e308, 1e300, 1e200, 1e100, 1e-100, 1e-300, 1e-10, 1e10, 1.5e100, 1.5e300}
			v = b[r.Intn(len(b))]
			class = "extreme"
		case 11: // exponent text ending in zeros: 1e10, 2e20, 3e100 … and neighbours
			k := []int{10, 20, 30, 100, 110, 200, 300, -10, -20, -100, -200, -300}[r.Intn(12)]
			m := []string{"1", "2", "5", "1.5", "12", "1.25", "9"}[r.Intn(7)]
			v, _ = strconv.ParseFloat(m+"e"+strconv.Itoa(k), 64)
			class = "exp-trailing-zero"
		case 12: // fractions of small numbers: 1.5, 12.25, 100.5, 0.5
			v = float64(r.Intn(100000)) / []float64{2, 4, 8, 10, 100, 1000, 16, 3}[r.Intn(8)]
			class = "fraction"
		case 13: // >= 1e6 with a long fraction: "3.3556364814153295e+06", where moving the dot into the exponent is longer
			v = float64(1000000+r.Intn(1<<uint(20+r.Intn(24)))) + float64(1+r.Intn(1<<20))/float64(1<<20)
			if r.Chance(1, 3) {
				v = float64(1000000+r.Intn(9000000)) + float64(r.U64()>>11)/float64(1<<53)
			}
			class = "big-fraction"
		default:
			v = math.Float64frombits(r.F64Bits() &^ (1 << 63))
			class = "f64bits"
		}
		if math.IsNaN(v) || math.IsInf(v, 0) || v < 0 {
			continue
		}
		return v, class
	}
}

func npShape(text string) string {
	hasDot := strings.IndexByte(text, '.') >= 0
	hasE := strings.IndexByte(text, 'e') >= 0
	switch {
	case hasDot && hasE:
		return "text:d.ddde"
	case hasE:
		return "text:de"
	case hasDot && strings.HasPrefix(text, "0."):
		return "text:0.ddd"
	case hasDot:
		return "text:dd.dd"
	default:
		return "text:ddd"
	}
}

func npOut(out string) string {
	switch {
	case strings.HasPrefix(out, "0x"):
		return "out:hex"
	case strings.HasPrefix(out, "."):
		if strings.IndexByte(out, 'e') >= 0 {
			return "out:.ddde"
		}
		return "out:.ddd"
	case strings.IndexByte(out, 'e') >= 0 && strings.IndexByte(out, '.') >= 0:
		return "out:d.ddde"
	case strings.IndexByte(out, 'e') >= 0:
		if strings.Contains(out, "e-") {
			return "out:de-x"
		}
		return "out:dex"
	case strings.IndexByte(out, '.') >= 0:
		return "out:dd.dd"
	default:
		return "out:ddd"
	}
}

// npCSSNumber: mostly well-formed CSS number texts
func npCSSNumber(r *gen.Rand, allowExp bool) string {
	var sb strings.Builder
	switch r.Intn(4) {
	case 0:
		sb.WriteByte('-')
	case 1:
		sb.WriteByte('+')
	}
	ni := r.Intn(5)
	nf := 0
	if r.Chance(2, 3) {
		nf = 1 + r.Intn(5)
	}
	if ni == 0 && nf == 0 {
		ni = 1
	}
	zb := []int{0, 3, 7, 10}[r.Intn(4)]
	sb.WriteString(npDigits(r, ni, zb))
	if nf > 0 {
		sb.WriteByte('.')
		sb.WriteString(npDigits(r, nf, []int{0, 3, 7, 10}[r.Intn(4)]))
	}
	if allowExp && r.Chance(1, 5) {
		sb.WriteByte("eE"[r.Intn(2)])
		sb.WriteString([]string{"", "+", "-"}[r.Intn(3)])
		sb.WriteString(npDigits(r, 1+r.Intn(3), 4))
	}
	return sb.String()
}

// npAllZero: a text with at least one digit whose digits are all '0' (and nothing but sign, dot, digits)
func npAllZero(t string) bool {
	n := 0
	for i := 0; i < len(t); i++ {
		switch c := t[i]; {
		case c == '0':
			n++
		case c == '.' || ((c == '+' || c == '-') && i == 0):
		default:
			return false
		}
	}
	return n > 0
}

func npCSSGarbage(r *gen.Rand) string {
	n := r.Intn(9)
	b := make([]byte, n)
	for i := range b {
		b[i] = "0000123459+-..eE x%"[r.Intn(19)]
	}
	return string(b)
}

func hexRunes(u []rune) string {
	if len(u) == 0 {
		return "-"
	}
	var sb strings.Builder
	for _, x := range u {
		fmt.Fprintf(&sb, "%04x", x)
	}
	return sb.String()
}

func init() {
	kernels["numprint"] = func(r *gen.Rand, e *emitter, tier string) {
		for !e.full() {
			switch r.Intn(12) {
			case 0, 1, 2, 3, 4, 5: // printNonNegativeFloat
				v, class := npFloat(r)
				minify := r.Bool()
				text := strconv.FormatFloat(v, 'g', -1, 64)
				m := 0
				if minify {
					m = 1
				}
				out, sp := "", false
				exp := guard(func() string {
					out, sp = js_printer.VerifPrintNonNegativeFloat(v, minify)
					return fmt.Sprintf("%s %v", hexBytes([]byte(out)), sp)
				}) + " shape=true" // the model also evaluates Spec.Num.ffShape on the FormatFloat text: must hold
				e.stat("js")
				e.stat("js:" + class)
				if v < 1000 && v == math.Trunc(v) {
					e.stat("fast-path")
				} else {
					e.stat(npShape(text) + "→" + npOut(out))
					if out == text {
						e.stat("out=text")
					}
					if strings.Contains(text, "e+0") || strings.Contains(text, "e-0") {
						e.stat("exponent-leading-zero")
					}
					if minify && v >= 1e12 && v <= 0xFFFFFFFFFFFFF800 && v == math.Trunc(v) && !strings.HasPrefix(out, "0x") {
						e.stat("hex-not-shorter")
					}
				}
				if minify {
					e.stat("js:minify")
				}
				wopt := ""
				if minify {
					wopt = "mw"
				}
				// end-to-end witness: the printed literal must evaluate to the same float64 (text is the shortest round-trip form)
				e.emitW(fmt.Sprintf("numprint\tjs\t%d\t%d\t%s", m, math.Float64bits(v), hexBytes([]byte(text))), exp, "c01-prog",
					map[string]string{"source": fmt.Sprintf("\"use strict\";\nconst k1 = %s;\np(1, k1, 1 / k1, k1 === %s);\nconst k2 = [%s.toString, -%s];\np(2, k2[1]);\n", text, text, text, text), "opt_name": wopt})
			case 6: // smallIntToBytes
				n := r.Intn(801) - 400
				if r.Chance(1, 3) {
					n = r.BoundaryInt()
				}
				e.stat("smallint")
				e.emit(fmt.Sprintf("numprint\tsmallint\t%d", n), hexBytes([]byte(js_printer.VerifSmallIntToBytes(n))))
			case 7: // parseSmallInt: digits, optional '-', sometimes arbitrary bytes or empty (panic)
				var b []byte
				if r.Chance(1, 4) {
					b = append(b, '-')
				}
				b = append(b, npDigits(r, r.Intn(6), 2)...)
				if r.Chance(1, 6) {
					for i := range b {
						if r.Chance(1, 3) {
							b[i] = byte(r.Intn(256))
						}
					}
					e.stat("parsesmallint-garbage")
				}
				if len(b) == 0 {
					e.stat("parsesmallint-empty")
				}
				e.stat("parsesmallint")
				e.emit(fmt.Sprintf("numprint\tparsesmallint\t%s", hexBytes(b)), guard(func() string {
					return fmt.Sprint(js_printer.VerifParseSmallInt(b))
				}))
			case 8: // mangleNumber
				var t string
				if r.Chance(1, 5) {
					t = npCSSGarbage(r)
					e.stat("mangle-garbage")
				} else {
					t = npCSSNumber(r, true)
				}
				out, ok := css_parser.VerifMangleNumber(t)
				e.stat("mangle")
				if ok {
					e.stat("mangle-changed")
				}
				if strings.ContainsAny(t, "eE") {
					e.stat("mangle-exponent")
					if strings.IndexByte(t, '.') >= 0 && strings.HasSuffix(t, "0") {
						// the guarded loop: a fraction, an exponent, and a trailing '0' that must stay
						e.stat("mangle-exponent-trailing-zero")
						if ok {
							e.stat("mangle-exponent-trailing-zero-changed")
						}
					}
				}
				e.emit(fmt.Sprintf("numprint\tcss\tmangle\t%s", hexBytes([]byte(t))), fmt.Sprintf("%s %v", hexBytes([]byte(out)), ok))
			case 9, 10: // shiftDot
				var t string
				if r.Chance(1, 6) {
					t = npCSSGarbage(r)
					e.stat("shift-garbage")
				} else {
					t = npCSSNumber(r, r.Chance(1, 4))
				}
				k := []int{-3, 3, -2}[r.Intn(3)]
				if r.Chance(1, 3) {
					k = r.Intn(15) - 7
				}
				out, ok := css_parser.VerifShiftDot(t, k)
				e.stat("shift")
				switch {
				case !ok:
					e.stat("shift-refused")
				case strings.IndexByte(out, '.') >= 0:
					e.stat("shift-out-fraction")
				default:
					e.stat("shift-out-integer")
				}
				if ok && (out == "" || out == "+" || out == "-") {
					e.stat("shift-out-empty")
				}
				if ok && (out == "0" || out == "+0" || out == "-0") && npAllZero(t) {
					// the branch `dot == 0` inside `dot >= len(text)`: every digit was a zero and was removed
					e.stat("shift-all-zero→0")
				}
				if ok && npAllZero(t) {
					e.stat("shift-all-zero-input")
				}
				e.emit(fmt.Sprintf("numprint\tcss\tshift\t%s\t%d", hexBytes([]byte(t)), k), fmt.Sprintf("%s %v", hexBytes([]byte(out)), ok))
			default: // mangleDimension
				var t string
				if r.Chance(1, 8) {
					t = npCSSGarbage(r)
				} else {
					t = npCSSNumber(r, r.Chance(1, 6))
				}
				units := [][]rune{[]rune("ms"), []rune("s"), []rune("MS"), []rune("mS"), []rune("Ms"), []rune("S"),
					{0x17F}, {'m', 0x17F}, {'M', 0x17F}, []rune("px"), []rune("em"), []rune("mss"), []rune("m"), {}, {0x212A}, []rune("sm")}
				u := units[r.Intn(len(units))]
				if r.Chance(1, 2) {
					u = units[r.Intn(2)]
				}
				v, unit, ok := css_parser.VerifMangleDimension(t, string(u))
				e.stat("dim")
				if ok {
					e.stat("dim-to-" + unit)
					if npAllZero(t) {
						e.stat("dim-all-zero-to-" + unit)
					}
				}
				e.emit(fmt.Sprintf("numprint\tcss\tdim\t%s\t%s", hexBytes([]byte(t)), hexRunes(u)), fmt.Sprintf("%s %s %v", hexBytes([]byte(v)), hexBytes([]byte(unit)), ok))
			}
		}
	}
}
