package main

// Kernel `strlex`: the REAL js_lexer (NewLexer → Next, RescanCloseBraceAsTemplateToken, StringLiteral,
// CookedAndRawTemplateContents → tryToDecodeEscapeSequences) on generated string / template literal texts against
// the Lean model Impl/StrLex.lean.
//
//	op:        strlex\t<api: value|raw>\t<rescan 0|1>\t<code points of the text from lexer.start, 6 hex digits each>
//	expected:  tok <kind> <len> <cooked: hex UTF-16 | - | nil> <raw: hex code points | - | x> <LegacyOctalLoc | ->
//	           | unterminated <pos> | syntax <pos> | range <pos> <len> | other
//
// api=value: StringLiteral() (what the parser calls for strings and untagged templates); api=raw:
// CookedAndRawTemplateContents() (tagged templates). rescan=1: the text starts with `}`, the lexer is asked to
// rescan it as a template continuation. The text is placed after an optional whitespace/comment prefix; all
// positions are byte offsets relative to lexer.start.

import (
	"fmt"
	"strings"
	"unicode/utf8"

	"github.com/evanw/esbuild/internal/config"
	"github.com/evanw/esbuild/internal/js_lexer"
	"github.com/evanw/esbuild/internal/logger"
	"github.com/evanw/esbuild/verifharness/gen"
)

// byte offset of (1-based line, byte column) as logger.LineColumnTracker counts lines: \n, \r, \r\n, U+2028, U+2029.
// Two offsets can share a (line, column) only around a CRLF (the LF itself and the position after it); no error of the
// modelled routines is reported at an LF that follows a CR, so the LAST candidate is the right one.
func strlexOffset(src string, line, col int) int {
	cur, lineStart, found := 1, 0, -1
	for i := 0; i <= len(src); {
		if cur == line && i-lineStart == col {
			found = i
		}
		if i == len(src) {
			break
		}
		r, size := utf8.DecodeRuneInString(src[i:])
		i += size
		switch r {
		case '\n':
			lineStart = i
			if i == size || src[i-size-1] != '\r' {
				cur++
			}
		case '\r', '\u2028', '\u2029':
			lineStart = i
			cur++
		}
	}
	return found
}

func strlexHex16(v []uint16) string {
	if v == nil {
		return "nil"
	}
	if len(v) == 0 {
		return "-"
	}
	var b strings.Builder
	for _, u := range v {
		fmt.Fprintf(&b, "%04x", u)
	}
	return b.String()
}

func strlexHexRunes(s string) string {
	if len(s) == 0 {
		return "-"
	}
	var b strings.Builder
	for _, r := range s {
		fmt.Fprintf(&b, "%06x", r)
	}
	return b.String()
}

func strlexReal(prefix, text, api string, rescan bool) (out string) {
	// only texts that begin with an opening delimiter reach the modelled code
	if rescan {
		if !strings.HasPrefix(text, "}") {
			return "other"
		}
	} else if !strings.HasPrefix(text, "'") && !strings.HasPrefix(text, "\"") && !strings.HasPrefix(text, "`") {
		return "other"
	}
	log := logger.NewDeferLog(logger.DeferLogAll, nil)
	src := prefix + text
	defer func() {
		if r := recover(); r != nil {
			if _, ok := r.(js_lexer.LexerPanic); !ok {
				out = "PANIC"
				return
			}
			for _, m := range log.Done() {
				if m.Kind == logger.Error && m.Data.Location != nil {
					off := strlexOffset(src, m.Data.Location.Line, m.Data.Location.Column) - len(prefix)
					switch {
					case m.Data.Text == "Unterminated string literal":
						out = fmt.Sprintf("unterminated %d", off)
					case m.Data.Text == "Unicode escape sequence is out of range":
						out = fmt.Sprintf("range %d %d", off, m.Data.Location.Length)
					case strings.HasPrefix(m.Data.Text, "Syntax error ") || m.Data.Text == "Unexpected end of file":
						out = fmt.Sprintf("syntax %d", off)
					default:
						out = "err-other " + m.Data.Text
					}
					return
				}
			}
			out = "err ?"
		}
	}()
	lx := js_lexer.NewLexer(log, logger.Source{Contents: src}, config.TSOptions{})
	if rescan {
		if lx.Token != js_lexer.TCloseBrace || int(lx.Range().Loc.Start) != len(prefix) {
			return "other"
		}
		lx.RescanCloseBraceAsTemplateToken()
	}
	if int(lx.Range().Loc.Start) != len(prefix) {
		return "other"
	}
	kind := ""
	switch lx.Token {
	case js_lexer.TStringLiteral:
		kind = "str"
	case js_lexer.TNoSubstitutionTemplateLiteral:
		kind = "nosubst"
	case js_lexer.TTemplateHead:
		kind = "head"
	case js_lexer.TTemplateMiddle:
		kind = "middle"
	case js_lexer.TTemplateTail:
		kind = "tail"
	default:
		return "other"
	}
	var cooked []uint16
	raw := "x"
	if api == "value" {
		cooked = lx.StringLiteral()
	} else {
		if kind == "str" {
			return "other"
		}
		var rawText string
		cooked, rawText = lx.CookedAndRawTemplateContents()
		raw = strlexHexRunes(rawText)
	}
	legacy := "-"
	if lx.LegacyOctalLoc.Start != 0 {
		legacy = fmt.Sprint(int(lx.LegacyOctalLoc.Start) - len(prefix))
	}
	return fmt.Sprintf("tok %s %d %s %s %s", kind, lx.Range().Len, strlexHex16(cooked), raw, legacy)
}

const strlexHexDigits = "0123456789abcdefABCDEF"

func strlexHexN(r *gen.Rand, n int) string {
	var b strings.Builder
	for i := 0; i < n; i++ {
		b.WriteByte(strlexHexDigits[r.Intn(len(strlexHexDigits))])
	}
	return b.String()
}

var strlexPlainASCII = []string{"a", "b", "z", "A", "0", "1", "7", "8", "9", " ", "x", "u", "n", "{", "}", "/", "-", "_", ";", "(", "\t", "\x00", "\x7f", "\x1f", "f", "F", "G", "g"}
var strlexNonASCII = []string{"\u00e9", "\u00ff", "\u0080", "\u07ff", "\u0800", "\u4e2d", "\u00a0", "\ufeff", "\ufffd", "\uffff", "\ud7ff", "\ue000", "\u03c0"}
var strlexAstral = []string{"\U0001F600", "\U00010000", "\U0010FFFF", "\U0001D4B3", "\U000E0001"}
var strlexSingle = []string{"b", "f", "n", "r", "t", "v", "\\", "'", "\"", "`"}
var strlexNonEsc = []string{"a", "c", "$", "{", "}", "/", "-", " ", "\u00e9", "\u4e2d", "\U0001F600", "\ufeff", "X", "U", "N", "\x00", "\x7f", "_", "\t", "e", "."}
var strlexOctal = []string{"0", "1", "7", "00", "01", "07", "10", "37", "40", "77", "000", "012", "101", "177", "377", "400", "477", "777", "08", "09", "18", "79", "008", "128", "379", "48", "409", "3777", "0000"}
var strlexUBrace = []string{"0", "41", "0041", "00000000041", "d800", "DFFF", "dc00", "ffff", "FFFF", "10000", "1F600", "10ffff", "10FFFF", "0010FFFF", "110000", "110001", "1FFFFF", "FFFFFF", "7FFFFFFF", "80000000", "FFFFFFFF", "100000000", "100000041", "FFFFFFFFFF", "10000000000000041", "fffffffffffffffff", "00000000000000000000"}
var strlexBadX = []string{"x", "xG", "x1", "x1G", "xg1", "x\\", "x'", "x\"", "x`", "x \u00e9", "x1\u00e9", "x\r", "x1\n"}
var strlexBadU = []string{"u", "u1", "u12", "u123", "u123G", "uG", "u12G4", "u{", "u{}", "u{G}", "u{12", "u{12G}", "u{ 12}", "u{12 }", "u{110000", "u{110000G", "u{-1}", "u}", "u{\u00e9}", "u{1\u00e9", "u\\u0041", "u'", "u{'", "u{1'", "u{\"", "u{1`", "u{${", "u{1${", "u\r\n", "u{\n", "u{\u2028"}

// one TemplateCharacter / StringCharacter worth of text; the tag names the generator branch
func strlexItem(r *gen.Rand) (string, string) {
	switch r.Intn(30) {
	case 0, 1, 2, 3, 4:
		return strlexPlainASCII[r.Intn(len(strlexPlainASCII))], "item:ascii"
	case 5, 6:
		return strlexNonASCII[r.Intn(len(strlexNonASCII))], "item:bmp"
	case 7:
		return strlexAstral[r.Intn(len(strlexAstral))], "item:astral"
	case 8:
		return []string{"\u2028", "\u2029"}[r.Intn(2)], "item:ls-ps"
	case 9:
		return []string{"'", "\"", "`"}[r.Intn(3)], "item:quote-char"
	case 10, 11:
		return "\\" + strlexSingle[r.Intn(len(strlexSingle))], "item:single-escape"
	case 12:
		return "\\" + strlexNonEsc[r.Intn(len(strlexNonEsc))], "item:non-escape"
	case 13:
		return "\\0", "item:nul"
	case 14, 15:
		return "\\" + strlexOctal[r.Intn(len(strlexOctal))], "item:octal"
	case 16:
		return "\\" + []string{"8", "9"}[r.Intn(2)], "item:8-9"
	case 17, 18:
		return "\\x" + strlexHexN(r, 2), "item:hex2"
	case 19, 20:
		if r.Chance(1, 3) { // surrogate halves, alone or paired
			return "\\u" + []string{"d83d", "DE00", "D800", "dfff", "DBFF", "dc00"}[r.Intn(6)], "item:u4-surrogate"
		}
		return "\\u" + strlexHexN(r, 4), "item:u4"
	case 21, 22:
		if r.Chance(1, 3) {
			return "\\u{" + strlexHexN(r, 1+r.Intn(6)) + "}", "item:ubrace-random"
		}
		return "\\u{" + strlexUBrace[r.Intn(len(strlexUBrace))] + "}", "item:ubrace"
	case 23:
		return "\\" + []string{"\n", "\r", "\r\n", "\u2028", "\u2029"}[r.Intn(5)], "item:line-continuation"
	case 24:
		return []string{"\n", "\r", "\r\n", "\r\r", "\n\r", "\r\n\n"}[r.Intn(6)], "item:line-terminator"
	case 25:
		return []string{"$", "$$", "$a", "$}", "$ {", "$\\{", "\\${", "$\n{"}[r.Intn(8)], "item:dollar"
	case 26:
		return "\\" + strlexBadX[r.Intn(len(strlexBadX))], "item:bad-x"
	case 27:
		return "\\" + strlexBadU[r.Intn(len(strlexBadU))], "item:bad-u"
	case 28:
		return "${", "item:dollar-brace"
	default:
		return []string{"0", "7", "8", "a", "F", "}", "{"}[r.Intn(7)], "item:digit-after"
	}
}

// texts around every early exit of the scanning loop and of the decoder
var strlexBoundary = []string{
	"'", "\"", "`", "}", "'\\", "'\\\r", "'\\\r\n", "`\\\r", "`$", "`$$", "`${", "}${", "}`", "}$", "``", "''", "\"\"",
	"'\\u{", "'\\u{1", "'\\u{}'", "'\\u{110000}'", "`\\u{110000}`", "`\\u{110000`", "`\\u{ffffffffffffffffffff}`", "'\\x", "'\\x1", "'\\x'", "'\\x1'",
	"'\\u'", "'\\u1'", "'\\u12'", "'\\u123'", "'\\u1234'", "`\\u`", "`\\u123`", "`\\u${", "`\\x${", "}\\u{12${", "`\\0`", "`\\00`", "`\\08`", "`\\1`", "`\\9`",
	"'\\0'", "'\\00'", "'\\08'", "'\\09'", "'\\377'", "'\\400'", "'\\3777'", "'\\8'", "'\\18'", "'\\1\\2'", "'\\1\\u{110000}'", "`\\1\\xg`",
	"'\r'", "'\n'", "'\u2028\u2029'", "`\r`", "`\r\n`", "`\r\r\n\n`", "`\\\r\n\\\r\\\n`", "}\r\n\\1${", "`a\r\\u{110000}b`", "'\\\r\n\\u{110000}'",
	"'\\\u2028'", "'\\\u00e9'", "'\\\U0001F600'", "`\\``", "`\\$`", "`\\${`", "`$\\{`", "'\\'", "'\\''", "'abc", "\"abc'", "`abc'\"",
}

var strlexFollow = []string{"", "", ";", " + 1", "x", "'", "\"", "`", "}", "${", "\n", "\\", "\u00e9", "\U0001F600", "0", "{"}
var strlexPrefix = []string{"", "", "", " ", "\n", "\r\n", "/*c*/ ", "\t ", "\u2028", "\ufeff", "//\u00e9\n"}

func strlexMutate(r *gen.Rand, s string) string {
	rs := []rune(s)
	if len(rs) == 0 {
		return s
	}
	i := r.Intn(len(rs) + 1)
	nasty := []rune{'\\', '\'', '"', '`', '$', '{', '}', '\n', '\r', '\u2028', '0', '8', 'x', 'u', 'G', '\u00e9', 0x1F600, 0}
	switch r.Intn(5) {
	case 0: // delete one character
		if i == len(rs) {
			i--
		}
		return string(rs[:i]) + string(rs[i+1:])
	case 1: // insert a nasty character
		return string(rs[:i]) + string(nasty[r.Intn(len(nasty))]) + string(rs[i:])
	case 2: // truncate
		return string(rs[:i])
	case 3: // replace
		if i == len(rs) {
			i--
		}
		rs[i] = nasty[r.Intn(len(nasty))]
		return string(rs)
	default: // swap neighbours
		if i+1 < len(rs) {
			rs[i], rs[i+1] = rs[i+1], rs[i]
		}
		return string(rs)
	}
}

func init() {
	kernels["strlex"] = func(r *gen.Rand, e *emitter, tier string) {
		for !e.full() {
			// opening delimiter
			rescan := false
			open, quote := "", ""
			switch r.Intn(8) {
			case 0, 1:
				open, quote = "'", "'"
			case 2, 3:
				open, quote = "\"", "\""
			case 4, 5:
				open, quote = "`", "`"
			default:
				open, quote, rescan = "}", "`", true
			}
			// body
			var b strings.Builder
			n := 0
			switch r.Intn(6) {
			case 0:
				n = 0
			case 1:
				n = 1
			case 2:
				n = 12 + r.Intn(20)
			default:
				n = 1 + r.Intn(6)
			}
			asciiOnly := r.Chance(1, 6) // keeps the fast path alive
			for k := 0; k < n; k++ {
				it, tag := strlexItem(r)
				if asciiOnly {
					it, tag = strlexPlainASCII[r.Intn(len(strlexPlainASCII))], "item:ascii"
					if quote == "`" && r.Chance(1, 5) {
						it, tag = []string{"\n", "$", "'"}[r.Intn(3)], "item:ascii-template"
					}
				}
				e.stat(tag)
				b.WriteString(it)
			}
			// closing delimiter
			closing := quote
			switch r.Intn(12) {
			case 0:
				closing = "" // unterminated
			case 1:
				closing = "\\" // a backslash as the last character of the file
			case 2, 3:
				if quote == "`" {
					closing = "${"
				}
			}
			text := open + b.String() + closing
			if closing != "" && closing != "\\" {
				text += strlexFollow[r.Intn(len(strlexFollow))]
			}
			if r.Chance(1, 6) {
				text = strlexMutate(r, text)
				e.stat("gen:mutated")
				if r.Chance(1, 3) {
					text = strlexMutate(r, text)
				}
			} else {
				e.stat("gen:grammar")
			}
			api := "value"
			if quote == "`" && r.Chance(1, 2) || quote != "`" && r.Chance(1, 12) {
				api = "raw"
			}
			if r.Chance(1, 25) { // hand-written boundary texts
				text = strlexBoundary[r.Intn(len(strlexBoundary))]
				rescan = strings.HasPrefix(text, "}")
				e.stat("gen:boundary")
			}
			prefix := strlexPrefix[r.Intn(len(strlexPrefix))]
			exp := strlexReal(prefix, text, api, rescan)
			f := strings.Fields(exp)
			tag := "res:" + api + ":" + f[0]
			if f[0] == "tok" {
				tag += ":" + f[1]
				if f[3] == "nil" {
					tag += ":cooked-nil"
				}
				if f[5] != "-" {
					tag += ":legacy"
				}
			}
			e.stat(tag)
			rs := 0
			if rescan {
				rs = 1
			}
			op := fmt.Sprintf("strlex\t%s\t%d\t%s", api, rs, strlexHexRunes(text))
			// end-to-end witness for complete literals: the literal itself as a program; Node evaluates the input and
			// esbuild's output (tagged templates under target=es5, where cooked values are materialised)
			if f[0] == "tok" && (f[1] == "str" || f[1] == "nosubst") {
				var n int
				fmt.Sscan(f[2], &n)
				lit := text[:n]
				if api == "value" {
					src := "var s1 = " + lit + ";\np(1, s1.length, Array.from(s1, (c) => c.charCodeAt(0)).join());\n"
					e.emitW(op, exp, "c01-prog", map[string]string{"source": src, "opt_name": []string{"default", "ascii"}[r.Intn(2)]})
				} else {
					src := "var s1 = (function (s) { return [typeof s[0], s[0], s.raw[0]]; })" + lit + ";\nfunction cu(x) { var o = []; for (var i = 0; i < x.length; i++) o.push(x.charCodeAt(i)); return o.join(); }\np(1, String(s1[0]), cu(String(s1[1])), cu(s1[2]));\n"
					e.emitW(op, exp, "c01-prog", map[string]string{"source": src, "opt_name": "target=es5"})
				}
				continue
			}
			e.emit(op, exp)
		}
	}
}
