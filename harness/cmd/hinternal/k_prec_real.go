package main

import (
	"fmt"
	"math"
	"strconv"
	"strings"

	"github.com/evanw/esbuild/internal/ast"
	"github.com/evanw/esbuild/internal/config"
	"github.com/evanw/esbuild/internal/js_ast"
	"github.com/evanw/esbuild/internal/js_lexer"
	"github.com/evanw/esbuild/internal/js_parser"
	"github.com/evanw/esbuild/internal/js_printer"
	"github.com/evanw/esbuild/internal/logger"
	"github.com/evanw/esbuild/internal/renamer"
)

const precIdents = 6

// toAST builds the js_ast tree the way the parser would (the "was originally …" flags set as the parser sets them)
func (x *pexpr) toAST() js_ast.Expr {
	switch x.kind {
	case 'i':
		return js_ast.Expr{Data: &js_ast.EIdentifier{Ref: ast.Ref{SourceIndex: 0, InnerIndex: uint32(x.n)}}}
	case 'n':
		return js_ast.Expr{Data: &js_ast.ENumber{Value: float64(x.n)}}
	case 'u':
		if x.foldLeaf && x.op == js_ast.UnOpNeg {
			return js_ast.Expr{Data: &js_ast.ENumber{Value: math.Copysign(float64(x.kids[0].n), -1)}}
		}
		if x.foldLeaf && x.op == js_ast.UnOpVoid {
			return js_ast.Expr{Data: js_ast.EUndefinedShared}
		}
		v := x.kids[0].toAST()
		_, isID := v.Data.(*js_ast.EIdentifier)
		return js_ast.Expr{Data: &js_ast.EUnary{Op: x.op, Value: v,
			WasOriginallyTypeofIdentifier:                   isID,
			WasOriginallyDeleteOfIdentifierOrPropertyAccess: isID || js_ast.IsPropertyAccess(v)}}
	case 'b':
		return js_ast.Expr{Data: &js_ast.EBinary{Op: x.op, Left: x.kids[0].toAST(), Right: x.kids[1].toAST()}}
	case 'c':
		return js_ast.Expr{Data: &js_ast.EIf{Test: x.kids[0].toAST(), Yes: x.kids[1].toAST(), No: x.kids[2].toAST()}}
	case 'd':
		return js_ast.Expr{Data: &js_ast.EDot{Target: x.kids[0].toAST(), Name: fmt.Sprintf("x%d", x.n)}}
	case 'x':
		return js_ast.Expr{Data: &js_ast.EIndex{Target: x.kids[0].toAST(), Index: x.kids[1].toAST()}}
	case 'k', 'w':
		t := x.kids[0].toAST()
		args := []js_ast.Expr{}
		for _, k := range x.kids[1:] {
			args = append(args, k.toAST())
		}
		if x.kind == 'w' {
			return js_ast.Expr{Data: &js_ast.ENew{Target: t, Args: args}}
		}
		kind := js_ast.NormalCall
		if js_ast.IsPropertyAccess(t) {
			kind = js_ast.TargetWasOriginallyPropertyAccess
		}
		return js_ast.Expr{Data: &js_ast.ECall{Target: t, Args: args, Kind: kind}}
	}
	panic("pexpr kind")
}

func precSymbols() ast.SymbolMap {
	symbols := ast.NewSymbolMap(1)
	for i := 0; i < precIdents; i++ {
		symbols.SymbolsForSource[0] = append(symbols.SymbolsForSource[0],
			ast.Symbol{OriginalName: fmt.Sprintf("x%d", i), Kind: ast.SymbolUnbound, Link: ast.InvalidRef})
	}
	return symbols
}

// precLex cuts text into raw token texts with the real lexer; when spaces is set, "_" marks white space between tokens
func precLex(text string, spaces bool) (toks []string, ok bool) {
	defer func() {
		if r := recover(); r != nil {
			ok = false
		}
	}()
	log := logger.NewDeferLog(logger.DeferLogAll, nil)
	lx := js_lexer.NewLexer(log, logger.Source{Contents: text}, config.TSOptions{})
	prevEnd := int32(-1)
	for lx.Token != js_lexer.TEndOfFile {
		rg := lx.Range()
		if spaces && prevEnd >= 0 && rg.Loc.Start > prevEnd {
			toks = append(toks, "_")
		}
		prevEnd = rg.Loc.Start + rg.Len
		toks = append(toks, lx.Raw())
		lx.Next()
	}
	return toks, !log.HasErrors()
}

// precRealPrint prints the tree with the real printer and returns the tokens of the expression alone
func precRealPrint(x *pexpr, forbidIn bool, minify bool, spaces bool) (string, bool) {
	symbols := precSymbols()
	var stmt js_ast.Stmt
	expr := js_ast.Stmt{Data: &js_ast.SExpr{Value: x.toAST()}}
	if forbidIn {
		stmt = js_ast.Stmt{Data: &js_ast.SFor{InitOrNil: expr, Body: js_ast.Stmt{Data: &js_ast.SEmpty{}}}}
	} else {
		stmt = expr
	}
	tree := js_ast.AST{Parts: []js_ast.Part{{Stmts: []js_ast.Stmt{stmt}}}}
	res := js_printer.Print(tree, symbols, renamer.NewNoOpRenamer(symbols), js_printer.Options{MinifyWhitespace: minify})
	toks, ok := precLex(string(res.JS), spaces)
	if !ok {
		return "LEX-ERROR " + string(res.JS), false
	}
	if forbidIn {
		// for ( <expr> ; ; ) ;
		n := len(toks)
		if n < 6 || toks[0] != "for" || toks[1] != "(" {
			return "SHAPE-ERROR " + string(res.JS), false
		}
		end := n
		for k := 0; k < 4 && end > 0; {
			end--
			if toks[end] != "_" {
				k++
			}
		}
		toks = toks[2:end]
	} else if n := len(toks); n > 0 && toks[n-1] == ";" {
		toks = toks[:n-1]
	}
	for len(toks) > 0 && toks[len(toks)-1] == "_" {
		toks = toks[:len(toks)-1]
	}
	return strings.Join(toks, " "), true
}

type precOutside struct{ what string }

// precSexp renders the real parser's AST in the canonical S-expression; node kinds outside the fragment panic
// with precOutside (the case is then skipped and counted)
func precSexp(nameOf func(ast.Ref) string, e js_ast.Expr) string {
	rec := func(e js_ast.Expr) string { return precSexp(nameOf, e) }
	name := func(s string) string {
		if len(s) > 1 && s[0] == 'x' {
			if n, err := strconv.Atoi(s[1:]); err == nil {
				return strconv.Itoa(n)
			}
		}
		panic(precOutside{"name " + s})
	}
	switch x := e.Data.(type) {
	case *js_ast.EIdentifier:
		return "i" + name(nameOf(x.Ref))
	case *js_ast.ENumber:
		v := x.Value
		if v != math.Trunc(v) || math.IsInf(v, 0) || math.Abs(v) > 1e15 {
			panic(precOutside{"number"})
		}
		if math.Signbit(v) {
			return fmt.Sprintf("(u UnOpNeg n%d)", int64(-v))
		}
		return fmt.Sprintf("n%d", int64(v))
	case *js_ast.EUnary:
		return "(u " + precOpNames[x.Op] + " " + rec(x.Value) + ")"
	case *js_ast.EBinary:
		return "(b " + precOpNames[x.Op] + " " + rec(x.Left) + " " + rec(x.Right) + ")"
	case *js_ast.EIf:
		return "(c " + rec(x.Test) + " " + rec(x.Yes) + " " + rec(x.No) + ")"
	case *js_ast.EDot:
		if x.OptionalChain != js_ast.OptionalChainNone {
			panic(precOutside{"optional chain"})
		}
		return "(d " + rec(x.Target) + " " + name(x.Name) + ")"
	case *js_ast.EIndex:
		if x.OptionalChain != js_ast.OptionalChainNone {
			panic(precOutside{"optional chain"})
		}
		return "(x " + rec(x.Target) + " " + rec(x.Index) + ")"
	case *js_ast.ECall:
		if x.OptionalChain != js_ast.OptionalChainNone {
			panic(precOutside{"optional chain"})
		}
		s := "(k " + rec(x.Target)
		for _, a := range x.Args {
			s += " " + rec(a)
		}
		return s + ")"
	case *js_ast.ENew:
		s := "(w " + rec(x.Target)
		for _, a := range x.Args {
			s += " " + rec(a)
		}
		return s + ")"
	}
	panic(precOutside{fmt.Sprintf("%T", e.Data)})
}

// precRealParse parses the token text as an expression statement (or a for-init) with the real parser
func precRealParse(toks string, inOk bool) (result string, firstError string) {
	src := toks + ";"
	if !inOk {
		src = "for (" + toks + ";;);"
	}
	source := logger.Source{Contents: src, KeyPath: logger.Path{Text: "/x.js", Namespace: "file"},
		PrettyPaths: logger.PrettyPaths{Abs: "/x.js", Rel: "x.js"}}
	opts := js_parser.OptionsFromConfig(&config.Options{})
	// accept / reject: the whole real parser (assignment targets are validated in its second pass)
	log := logger.NewDeferLog(logger.DeferLogAll, nil)
	if _, ok := js_parser.Parse(log, source, opts); !ok || log.HasErrors() {
		for _, m := range log.Done() {
			if m.Kind == logger.Error {
				return "reject", m.Data.Text
			}
		}
		return "reject", "?"
	}
	// the tree: the first pass alone (the second pass folds constants such as `1 && x`)
	log = logger.NewDeferLog(logger.DeferLogAll, nil)
	stmts, nameOf, ok := js_parser.VerifParseNoVisit(log, source, opts)
	if !ok || log.HasErrors() {
		for _, m := range log.Done() {
			if m.Kind == logger.Error {
				return "reject", m.Data.Text
			}
		}
		return "reject", "?"
	}
	if len(stmts) != 1 {
		panic(precOutside{fmt.Sprintf("%d statements", len(stmts))})
	}
	st := stmts[0]
	if !inOk {
		f, ok := st.Data.(*js_ast.SFor)
		if !ok || f.InitOrNil.Data == nil || f.TestOrNil.Data != nil || f.UpdateOrNil.Data != nil {
			panic(precOutside{"not a for(;;) with init"})
		}
		st = f.InitOrNil
	}
	se, ok := st.Data.(*js_ast.SExpr)
	if !ok {
		panic(precOutside{fmt.Sprintf("%T", st.Data)})
	}
	return precSexp(nameOf, se.Value), ""
}

// precKnownLenient recognises token sequences that are never valid ECMAScript but that esbuild's parser accepts and
// silently repairs (reported as a finding): a postfix `++` / `--` followed by a call / member suffix (`a++(b)`, `a++.b`,
// `a++[b]` → printed `(a++)(b)` …), `new` followed by a unary operator (`new delete (a)()` → `new (delete a())()`), and a
// parenthesised expression with a trailing comma (`(a,)` → printed `a`; only arrow parameters may end like that).
func precKnownLenient(toks []string) string {
	operandEnd := func(t string) bool {
		if t == ")" || t == "]" {
			return true
		}
		c := t[0]
		return (c >= '0' && c <= '9') || (c == 'x' && len(t) > 1 && t[1] >= '0' && t[1] <= '9')
	}
	for i, t := range toks {
		if t == ")" && i > 0 && toks[i-1] == "," {
			depth, open := 0, -1
			for j := i; j >= 0; j-- {
				if toks[j] == ")" {
					depth++
				} else if toks[j] == "(" {
					depth--
					if depth == 0 {
						open = j
						break
					}
				}
			}
			if open == 0 || (open > 0 && !operandEnd(toks[open-1])) {
				return "group-trailing-comma"
			}
		}
		if (t == "++" || t == "--") && i > 0 && i+1 < len(toks) && operandEnd(toks[i-1]) {
			if n := toks[i+1]; n == "(" || n == "[" || n == "." {
				return "postfix-then-suffix"
			}
		}
		if t == "new" && i+1 < len(toks) {
			switch toks[i+1] {
			case "+", "-", "~", "!", "typeof", "void", "delete", "++", "--":
				return "new-then-unary"
			}
		}
	}
	return ""
}
