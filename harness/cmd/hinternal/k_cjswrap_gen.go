package main

import (
	"fmt"
	"strings"

	"github.com/evanw/esbuild/verifharness/gen"
)

// Generator of module graphs for kernel "cjswrap": small graphs whose modules differ in what the PARSER says about
// their exports (ESM by keyword, by extension, by package.json "type", by a bare import statement; CommonJS by
// `exports.`/`module.`, by extension, by "type"; no exports at all; lazily generated exports of JSON / text files) and
// whose edges use every import form that steps 1-2 of scanImportsAndExports distinguish: named / namespace / default /
// bare import statements, require(), import(), export star (also of external packages and of the file itself),
// named re-exports. Cycles, self imports, several entry points, entry points that are imported by other files.

type cwMod struct {
	path  string
	kind  string // esm, cjs, empty, json, txt
	names []string
	lines []string
	deflt bool // an ES module with a default export
}

type cwGraph struct {
	files   map[string]string
	entries []string
	stats   map[string]int
}

func (m *cwMod) add(format string, args ...interface{}) {
	m.lines = append(m.lines, fmt.Sprintf(format, args...))
}

func genCjsWrapGraph(r *gen.Rand, allowTLA bool, cjsEntry bool) *cwGraph {
	g := &cwGraph{files: map[string]string{}, stats: map[string]int{}}
	n := 1 + r.Intn(6)
	if r.Chance(1, 8) {
		n = 6 + r.Intn(5)
	}
	mods := make([]*cwMod, n)
	for i := range mods {
		m := &cwMod{}
		ext := ".js"
		switch r.Intn(12) {
		case 0, 1, 2, 3:
			m.kind = "esm"
			if r.Chance(1, 6) {
				ext = ".mjs"
			}
		case 4, 5, 6:
			m.kind = "cjs"
			if r.Chance(1, 4) {
				ext = ".cjs"
			}
		case 7, 8:
			m.kind = "empty"
			switch r.Intn(6) {
			case 0:
				ext = ".cjs"
			case 1:
				ext = ".mjs"
			}
		case 9:
			m.kind = "json"
			ext = ".json"
		case 10:
			m.kind = "txt"
			ext = ".txt"
		default:
			m.kind = "esm"
			ext = ".ts"
		}
		m.path = fmt.Sprintf("m%d%s", i, ext)
		g.stats["gen:module-"+m.kind+ext]++
		mods[i] = m
	}
	uid := 0
	fresh := func(p string) string { uid++; return fmt.Sprintf("%s%d", p, uid) }
	// own exports
	for i, m := range mods {
		switch m.kind {
		case "esm":
			m.names = []string{"a"}
			m.add("export let a = %d;", i)
			if r.Bool() {
				m.names = append(m.names, "b")
				m.add("export let b = %d;", i+100)
			}
			if r.Chance(1, 2) {
				m.add("export default %d;", i)
				m.deflt = true
			}
			if r.Chance(1, 6) {
				// lowered below ES2017 (see the kernel): the parser adds an import record of the runtime file
				m.add("export async function f%d() { await 0; }", i)
				g.stats["gen:async-function"]++
			}
			if allowTLA && r.Chance(1, 25) {
				m.add("await 0;")
				g.stats["gen:top-level-await"]++
			}
			if r.Chance(1, 12) {
				// ESM syntax wins over a use of `module`
				m.add("console.log(typeof module);")
				g.stats["gen:esm-mentions-module"]++
			}
		case "cjs":
			m.names = []string{"a", "b"}
			switch r.Intn(3) {
			case 0:
				m.add("exports.a = %d;", i)
			case 1:
				m.add("module.exports = { a: %d, b: %d };", i, i+100)
			default:
				m.add("exports.a = %d; exports.b = %d;", i, i+100)
			}
		case "empty":
			m.add("console.log(%d);", i)
		case "json":
			m.names = []string{"a", "b"}
		}
	}
	target := func(i int) int {
		switch {
		case r.Chance(1, 8):
			return i // self
		case i+1 < n && r.Chance(2, 3):
			return i + 1 + r.Intn(n-i-1)
		default:
			return r.Intn(n)
		}
	}
	edge := func(m *cwMod, t *cwMod) {
		if m.kind == "json" || m.kind == "txt" {
			return
		}
		v := fresh("V")
		name := "a"
		if len(t.names) > 1 && r.Bool() {
			name = t.names[1]
		}
		if t.kind == "txt" || t.kind == "empty" {
			name = "a" // a warning or a link error, now and then
		}
		form := r.Intn(16)
		if m.kind == "cjs" && r.Chance(2, 3) {
			form = 6 + r.Intn(3) // CommonJS files mostly use require
		}
		if (t.kind == "txt" || t.kind == "empty") && form <= 1 && r.Chance(4, 5) {
			form = 2 + r.Intn(2) // a named import of a file without exports is a link error for ESM-by-extension files
		}
		if (form == 3 || form == 5) && t.kind == "esm" && !t.deflt && r.Chance(9, 10) {
			form = 2 // a default import of an ES module without one is a link error
		}
		switch form {
		case 0, 1:
			m.add("import { %s as %s } from \"./%s\"; console.log(%s);", name, v, t.path, v)
			g.stats["gen:import-named"]++
		case 2:
			m.add("import * as %s from \"./%s\"; console.log(%s);", v, t.path, v)
			g.stats["gen:import-star"]++
		case 3:
			if t.kind == "esm" && r.Chance(2, 3) {
				m.add("import * as %s from \"./%s\"; console.log(%s.a);", v, t.path, v)
				g.stats["gen:import-star-property-only"]++
			} else {
				m.add("import %s from \"./%s\"; console.log(%s);", v, t.path, v)
				g.stats["gen:import-default"]++
			}
		case 4:
			m.add("import \"./%s\";", t.path)
			g.stats["gen:import-bare"]++
		case 5:
			m.add("import %s, { %s as %s2 } from \"./%s\"; console.log(%s, %s2);", v, name, v, t.path, v, v)
			g.stats["gen:import-default+named"]++
		case 6, 7:
			m.add("const %s = require(\"./%s\"); console.log(%s);", v, t.path, v)
			g.stats["gen:require"]++
		case 8:
			m.add("if (Math.random() < 2) { console.log(require(\"./%s\").%s); }", t.path, name)
			g.stats["gen:require-nested"]++
		case 9, 10:
			m.add("import(\"./%s\").then(%s => console.log(%s));", t.path, v, v)
			g.stats["gen:import()"]++
		case 11, 12:
			if m.kind == "esm" {
				m.add("export * from \"./%s\";", t.path)
				g.stats["gen:export-star"]++
			}
		case 13:
			if m.kind == "esm" && t.kind != "txt" && t.kind != "empty" {
				m.add("export { %s as %s } from \"./%s\";", name, fresh("r"), t.path)
				g.stats["gen:export-from"]++
			}
		case 14:
			if m.kind == "esm" {
				m.add("export * as %s from \"./%s\";", fresh("ns"), t.path)
				g.stats["gen:export-star-as"]++
			}
		default:
			if t.kind == "json" && m.kind != "cjs" {
				m.add("import %s from \"./%s\" with { type: \"json\" }; console.log(%s);", v, t.path, v)
				g.stats["gen:import-with-type-json"]++
			} else if m.kind == "esm" {
				m.add("export * from \"ext-pkg\";")
				g.stats["gen:export-star-external"]++
			} else {
				m.add("import %s from \"ext-pkg\"; console.log(%s);", v, v)
				g.stats["gen:import-external"]++
			}
		}
	}
	// every module is imported by an earlier one (mostly), plus random extra edges
	for i := 1; i < n; i++ {
		if r.Chance(9, 10) {
			edge(mods[r.Intn(i)], mods[i])
		}
	}
	for i, m := range mods {
		for k := r.Intn(3); k > 0; k-- {
			edge(m, mods[target(i)])
		}
	}
	// an export-star cycle one of whose members also star-exports something dynamic (a CommonJS module, an external
	// package); in the interesting order the star that closes the cycle comes first, so that the traversal that enters
	// the cycle at the other member sees a provisional "false" for this one
	byKind := func(k string) []*cwMod {
		out := []*cwMod{}
		for _, m := range mods {
			if m.kind == k {
				out = append(out, m)
			}
		}
		return out
	}
	if esms := byKind("esm"); len(esms) >= 2 && r.Chance(1, 3) {
		a := esms[r.Intn(len(esms))]
		b := esms[r.Intn(len(esms))]
		dyn := "export * from \"ext-pkg\";"
		if cjss := byKind("cjs"); len(cjss) > 0 && r.Chance(3, 4) {
			dyn = fmt.Sprintf("export * from \"./%s\";", cjss[r.Intn(len(cjss))].path)
		} else if r.Chance(1, 3) {
			dyn = fmt.Sprintf("export * from \"./%s\";", mods[r.Intn(n)].path)
		}
		a.add("export * from \"./%s\";", b.path)
		if r.Chance(3, 4) {
			b.add("export * from \"./%s\";", a.path)
			b.add("%s", dyn)
		} else {
			b.add("%s", dyn)
			b.add("export * from \"./%s\";", a.path)
		}
		if r.Chance(1, 2) {
			mods[0].add("import * as %s from \"./%s\"; console.log(%s);", fresh("V"), a.path, "1")
		}
		g.stats["gen:planted-star-cycle"]++
	}
	for _, m := range mods {
		src := strings.Join(m.lines, "\n") + "\n"
		switch m.kind {
		case "json":
			src = "{\"a\": 1, \"b\": [2]}\n"
		case "txt":
			src = "text\n"
		}
		g.files[m.path] = src
	}
	switch r.Intn(5) {
	case 0:
		g.files["package.json"] = "{\"type\": \"module\"}\n"
		g.stats["gen:type-module"]++
	case 1:
		g.files["package.json"] = "{\"type\": \"commonjs\"}\n"
		g.stats["gen:type-commonjs"]++
	}
	// entry points: the first module, sometimes more (any module, so that entry points get imported by other files)
	g.entries = []string{mods[0].path}
	for k := r.Intn(3); k > 0 && n > 1; k-- {
		p := mods[r.Intn(n)].path
		dup := false
		for _, q := range g.entries {
			dup = dup || q == p
		}
		if !dup {
			g.entries = append(g.entries, p)
		}
	}
	// a CommonJS module that is an entry point AND imported by another file (with an import statement, mostly): in
	// the cjs output format it is wrapped only because of the importer
	if cjss := byKind("cjs"); cjsEntry && len(cjss) > 0 {
		c := cjss[r.Intn(len(cjss))]
		dup := false
		for _, q := range g.entries {
			dup = dup || q == c.path
		}
		if !dup {
			g.entries = append(g.entries, c.path)
		}
		if esms := byKind("esm"); len(esms) > 0 {
			im := esms[r.Intn(len(esms))]
			v := fresh("V")
			if r.Chance(3, 4) {
				g.files[im.path] += fmt.Sprintf("import { a as %s } from \"./%s\"; console.log(%s);\n", v, c.path, v)
			} else {
				g.files[im.path] += fmt.Sprintf("import \"./%s\";\n", c.path)
			}
			g.stats["gen:cjs-entry-imported"]++
		}
	}
	return g
}
