package main

import (
	"fmt"
	"os"
	"reflect"
	"regexp"
	"strings"

	"github.com/evanw/esbuild/internal/ast"
	"github.com/evanw/esbuild/internal/config"
	"github.com/evanw/esbuild/internal/css_ast"
	"github.com/evanw/esbuild/internal/css_lexer"
	"github.com/evanw/esbuild/internal/css_parser"
	"github.com/evanw/esbuild/internal/css_printer"
	"github.com/evanw/esbuild/internal/logger"
	"github.com/evanw/esbuild/verifharness/gen"
)

// Kernel `cssrules`: the rule-level part of CSS --minify-syntax (mangleRules, the duplicate-selector removal of
// parseSelectorList, MakeDeadRuleMangler / RemoveDeadRulesInPlace as the linker applies it across the files of a
// chunk) against lean/EsbuildModel/Impl/CssRules.lean, through the exported API only.
//
// One case = 1..3 CSS files.  Every file is parsed twice with the REAL css_parser.Parse:
//   (A) MinifySyntax on; then, as generateChunkCSS does, ONE css_parser.MakeDeadRuleMangler is run over the files
//       from the last to the first (RemoveDeadRulesInPlace on the top-level rules)  → expected answer;
//   (B) MinifySyntax off → the rule tree before any mangling = the model's input.
// The generators only use declarations, selectors and preludes on which MinifySyntax changes nothing else
// (checked at start-up, see crSelfCheck), so (A) = model(B) is a statement about the modelled routines alone.
// Some files of a multi-file chunk are wrapped like the rules of `@import "f" layer(x)` / `supports(c)` (see crWrap).
// Trees are compared as canonical token streams (see the grammar in Impl/CssRules.lean); the printed CSS of (A)
// is additionally re-parsed and must give the same tree (css_printer.Print is in the loop that way).

// ---- canonical dump ------------------------------------------------------------------------------------

func crEnc(s string) string {
	var sb strings.Builder
	sb.WriteByte('\'')
	for i := 0; i < len(s); i++ {
		c := s[i]
		if c <= 0x20 || c >= 0x7f || c == '%' {
			fmt.Fprintf(&sb, "%%%02X", c)
		} else {
			sb.WriteByte(c)
		}
	}
	return sb.String()
}

func crBool(b bool) string {
	if b {
		return "1"
	}
	return "0"
}

type crDumper struct {
	tree *css_ast.AST
	out  []string
}

func (d *crDumper) symName(ref ast.Ref) string {
	if int(ref.InnerIndex) < len(d.tree.Symbols) {
		return d.tree.Symbols[ref.InnerIndex].OriginalName
	}
	return fmt.Sprintf("<ref %d>", ref.InnerIndex)
}

// crTok mirrors Token.Equal: kind, text, whitespace flags, payload only for url/symbol tokens, children
func (d *crDumper) tok(sb *strings.Builder, t css_ast.Token) {
	fmt.Fprintf(sb, "%d:%q:%d", t.Kind, t.Text, t.Whitespace)
	switch t.Kind {
	case css_lexer.TURL:
		if int(t.PayloadIndex) < len(d.tree.ImportRecords) {
			fmt.Fprintf(sb, ":url=%q", d.tree.ImportRecords[t.PayloadIndex].Path.Text)
		}
	case css_lexer.TSymbol:
		fmt.Fprintf(sb, ":sym=%d", t.PayloadIndex)
	}
	if t.Children != nil {
		sb.WriteString("(")
		for _, c := range *t.Children {
			d.tok(sb, c)
			sb.WriteString(",")
		}
		sb.WriteString(")")
	}
}

func (d *crDumper) toks(ts []css_ast.Token) string {
	var sb strings.Builder
	for _, t := range ts {
		d.tok(&sb, t)
		sb.WriteString(";")
	}
	return sb.String()
}

var (
	crTokenType  = reflect.TypeOf(css_ast.Token{})
	crLocRefType = reflect.TypeOf(ast.LocRef{})
	crLocType    = reflect.TypeOf(logger.Loc{})
	crRangeType  = reflect.TypeOf(logger.Range{})
	crSpanType   = reflect.TypeOf(logger.Span{})
	crComplexTy  = reflect.TypeOf(css_ast.ComplexSelector{})
)

// any: generic structural dump (locations skipped; nil and empty slices alike, as the Equal methods see them)
func (d *crDumper) any(sb *strings.Builder, v reflect.Value) {
	switch v.Type() {
	case crTokenType:
		d.tok(sb, v.Interface().(css_ast.Token))
		return
	case crLocRefType:
		fmt.Fprintf(sb, "sym%q", d.symName(v.Interface().(ast.LocRef).Ref))
		return
	case crLocType, crRangeType, crSpanType:
		return
	case crComplexTy:
		sb.WriteString(strings.Join(d.complex(v.Interface().(css_ast.ComplexSelector)), " "))
		return
	}
	switch v.Kind() {
	case reflect.Ptr, reflect.Interface:
		if v.IsNil() {
			sb.WriteString("nil")
			return
		}
		if v.Kind() == reflect.Interface {
			sb.WriteString(v.Elem().Type().String())
		}
		d.any(sb, v.Elem())
	case reflect.Struct:
		sb.WriteString("{")
		for i := 0; i < v.NumField(); i++ {
			ft := v.Type().Field(i)
			if ft.Type == crLocType || ft.Type == crRangeType || ft.Type == crSpanType {
				continue
			}
			sb.WriteString(ft.Name)
			sb.WriteString("=")
			d.any(sb, v.Field(i))
			sb.WriteString(";")
		}
		sb.WriteString("}")
	case reflect.Slice, reflect.Array:
		sb.WriteString("[")
		for i := 0; i < v.Len(); i++ {
			d.any(sb, v.Index(i))
			sb.WriteString(",")
		}
		sb.WriteString("]")
	case reflect.String:
		fmt.Fprintf(sb, "%q", v.String())
	case reflect.Bool:
		sb.WriteString(crBool(v.Bool()))
	case reflect.Int, reflect.Int8, reflect.Int16, reflect.Int32, reflect.Int64:
		fmt.Fprintf(sb, "%d", v.Int())
	case reflect.Uint, reflect.Uint8, reflect.Uint16, reflect.Uint32, reflect.Uint64:
		fmt.Fprintf(sb, "%d", v.Uint())
	default:
		fmt.Fprintf(sb, "<%s>", v.Kind())
	}
}

func (d *crDumper) anyStr(x interface{}) string {
	var sb strings.Builder
	d.any(&sb, reflect.ValueOf(x))
	return sb.String()
}

func crNameKind(k css_lexer.T) string {
	switch k {
	case css_lexer.TIdent:
		return "i"
	case css_lexer.TDelimAsterisk:
		return "*"
	}
	return fmt.Sprintf("k%d", k)
}

func (d *crDumper) complex(cx css_ast.ComplexSelector) []string {
	out := []string{"("}
	for _, c := range cx.Selectors {
		out = append(out, "c", fmt.Sprint(c.Combinator.Byte), fmt.Sprint(len(c.NestingSelectorLocs)))
		if c.TypeSelector == nil {
			out = append(out, "-")
		} else {
			out = append(out, "t")
			if p := c.TypeSelector.NamespacePrefix; p == nil {
				out = append(out, "-")
			} else {
				out = append(out, "n", crEnc(crNameKind(p.Kind)), crEnc(p.Text))
			}
			out = append(out, crEnc(crNameKind(c.TypeSelector.Name.Kind)), crEnc(c.TypeSelector.Name.Text))
		}
		for _, ss := range c.SubclassSelectors {
			switch s := ss.Data.(type) {
			case *css_ast.SSHash:
				out = append(out, "h", crEnc(d.symName(s.Name.Ref)))
			case *css_ast.SSClass:
				out = append(out, ".", crEnc(d.symName(s.Name.Ref)))
			case *css_ast.SSAttribute:
				nn := s.NamespacedName
				pfx := "-"
				if nn.NamespacePrefix != nil {
					pfx = fmt.Sprintf("%s%q", crNameKind(nn.NamespacePrefix.Kind), nn.NamespacePrefix.Text)
				}
				out = append(out, "a", crEnc(fmt.Sprintf("%s|%s%q %q %q", pfx, crNameKind(nn.Name.Kind), nn.Name.Text, s.MatcherOp, s.MatcherValue)),
					fmt.Sprint(s.MatcherModifier))
			case *css_ast.SSPseudoClass:
				out = append(out, "p", crEnc(s.Name), crBool(s.Args != nil), crEnc(d.toks(s.Args)), crBool(s.IsElement))
			case *css_ast.SSPseudoClassWithSelectorList:
				var sb strings.Builder
				fmt.Fprintf(&sb, "%q/%q/", s.Index.A, s.Index.B)
				for _, inner := range s.Selectors {
					sb.WriteString(strings.Join(d.complex(inner), " "))
					sb.WriteString(",")
				}
				out = append(out, "l", crEnc(s.Kind.String()), crEnc(sb.String()), crBool(len(s.Selectors) == 0))
			default:
				out = append(out, "p", crEnc("<unknown subclass selector>"+d.anyStr(ss.Data)), "1", crEnc(""), "0")
			}
		}
		out = append(out, ")")
	}
	return append(out, ")")
}

func (d *crDumper) rules(rules []css_ast.Rule) {
	for _, rule := range rules {
		switch r := rule.Data.(type) {
		case *css_ast.RSelector:
			d.out = append(d.out, "S")
			for _, cx := range r.Selectors {
				d.out = append(d.out, d.complex(cx)...)
			}
			d.out = append(d.out, ")")
			d.rules(r.Rules)
		case *css_ast.RDeclaration:
			d.out = append(d.out, "D", crEnc(r.KeyText), crEnc(d.toks(r.Value)), crBool(r.Important))
		case *css_ast.RAtMedia:
			d.out = append(d.out, "M", crEnc(d.anyStr(r.Queries)))
			d.rules(r.Rules)
		case *css_ast.RAtLayer:
			d.out = append(d.out, "L", crBool(r.Rules != nil))
			for _, name := range r.Names {
				d.out = append(d.out, "(")
				for _, part := range name {
					d.out = append(d.out, crEnc(part))
				}
				d.out = append(d.out, ")")
			}
			d.out = append(d.out, ")")
			d.rules(r.Rules)
		case *css_ast.RKnownAt:
			d.out = append(d.out, "K", crEnc(r.AtToken), crEnc(d.toks(r.Prelude)))
			d.rules(r.Rules)
		case *css_ast.RQualified:
			d.out = append(d.out, "Q", crEnc("qualified"), crEnc(d.toks(r.Prelude)))
			d.rules(r.Rules)
		case *css_ast.RAtScope:
			d.out = append(d.out, "Q", crEnc("scope"), crEnc(d.anyStr(r.Start)+" to "+d.anyStr(r.End)))
			d.rules(r.Rules)
		case *css_ast.RAtKeyframes:
			d.out = append(d.out, "F", crEnc(d.anyStr(r)))
		case *css_ast.RBadDeclaration:
			d.out = append(d.out, "B", crEnc(d.toks(r.Tokens)))
		case *css_ast.RComment:
			d.out = append(d.out, "C", crEnc(r.Text))
		case *css_ast.RAtImport:
			path := ""
			if int(r.ImportRecordIndex) < len(d.tree.ImportRecords) {
				path = d.tree.ImportRecords[r.ImportRecordIndex].Path.Text
			}
			d.out = append(d.out, "I", crEnc(path+d.anyStr(r.ImportConditions)))
		default:
			d.out = append(d.out, "A", crEnc(reflect.TypeOf(rule.Data).String()+d.anyStr(rule.Data)))
		}
	}
	d.out = append(d.out, ")")
}

func crDump(tree *css_ast.AST, rules []css_ast.Rule) string {
	d := &crDumper{tree: tree}
	d.rules(rules)
	return strings.Join(d.out, " ")
}

func crParse(src string, index uint32, minify bool) css_ast.AST {
	opts := config.Options{MinifySyntax: minify}
	log := logger.NewDeferLog(logger.DeferLogNoVerboseOrDebug, nil)
	name := fmt.Sprintf("f%d.css", index)
	return css_parser.Parse(log, logger.Source{Index: index, KeyPath: logger.Path{Text: name}, PrettyPaths: logger.PrettyPaths{Abs: name, Rel: name}, Contents: src},
		css_parser.OptionsFromConfig(config.LoaderCSS, &opts))
}

// ---- generator ----------------------------------------------------------------------------------------

var crCommonSel = []string{".a", ".b", "div", "a", "#i", ".a.b", ".c", "span", ".a:hover"}
var crOddSel = []string{":is(.a,.b)", ".a:-x-foo", "a|b", "c|b", "*|b", "|b", ".a:focus", ".b::selection", ".a>.b", ".a .b", ":is()",
	":where()", ".a:is()", "div:where()", "[x=y]", "[x=y i]", "my-el", "*", ".a:hover()", ".a:not(.b)", ":nth-child(3)", "font", "p", "h1",
	"a:link", "a:visited", ".A", "DIV", "a:first-child", "a::marker", ".a+.b", "#i.a", "[x]", "a:lang(en)", ".a:is(.b)"}
var crDecls = []string{"color:red", "color:#00f", "color:red!important", "width:1px", "--x:y", "color:#00f!important", "top:1px", "--x: y", "COLOR:red", "width:1PX", "color red"}
var crMediaQ = []string{"screen", "(min-width:1px)", "(min-width:2px)", "print", "screen and (min-width:1px)", "not print", "(min-width:1px) , print", "(width>=1px)", "(MIN-WIDTH:1px)"}
var crSupportsQ = []string{"(display:grid)", "(display:flex)", "not (display:grid)", "(display: grid)"}
var crLayerNames = []string{"a", "b", "a.b", "c", "b.a"}
var crNested = []string{".x{color:red}", ".x{width:1px}", "@media screen{color:red}", "@media (min-width:1px){color:red}", ".x{}", "@layer a{color:red}", ".x,.x{color:red}", "@layer x{}", "@layer b;"}
var crGarbage = []string{"}", "{", ";", ".a{color:red", "a{b{c}", "@media{", "@layer a", "color:red;", ".a{color:red;}}", "@", ".a{;;}", "<!--", "-->", ".a,{color:red}",
	"@layer a,;", ".a{color:red}}.b{color:red}", "@charset \"x\";", "@namespace a \"x\";", "@media screen;", ":is(){}", "{}"}

type crGen struct {
	r         *gen.Rand
	malformed bool
	global    []string // top-level rule texts of the files generated so far (cross-file duplicates)
	stats     map[string]int
}

func (g *crGen) selector() string {
	if g.r.Chance(3, 4) {
		return g.r.Pick(crCommonSel)
	}
	return g.r.Pick(crOddSel)
}

func (g *crGen) selectorList() string {
	n := []int{1, 1, 1, 1, 2, 2, 2, 3}[g.r.Intn(8)]
	parts := []string{}
	for i := 0; i < n; i++ {
		parts = append(parts, g.selector())
	}
	if n > 1 && g.r.Chance(1, 6) {
		parts[n-1] = parts[0]
	}
	return strings.Join(parts, g.r.Pick([]string{",", ", "}))
}

func (g *crGen) body() string {
	if g.r.Chance(1, 12) {
		return ""
	}
	n := []int{1, 1, 1, 2, 2, 3}[g.r.Intn(6)]
	parts := []string{}
	for i := 0; i < n; i++ {
		if g.r.Chance(1, 12) {
			parts = append(parts, g.r.Pick(crNested))
		} else {
			parts = append(parts, g.r.Pick(crDecls[:5]))
			if g.r.Chance(1, 6) {
				parts[len(parts)-1] = g.r.Pick(crDecls)
			}
		}
		if len(parts) > 1 && g.r.Chance(1, 8) {
			parts[len(parts)-1] = parts[0]
		}
	}
	return strings.Join(parts, ";")
}

// targeted: the shapes of the three repaired defects (merge of parents of nested rules, `:x` vs `:x()`, dead rule with
// nested rules), next to their harmless variants
func (g *crGen) targeted() string {
	switch g.r.Intn(6) {
	case 0, 1: // adjacent safe rules with the same body that contains a nested rule / only plain rules
		body := g.r.Pick(crNested)
		if g.r.Chance(1, 3) {
			body = g.r.Pick(crDecls) + ";" + body
		}
		if g.r.Chance(1, 4) {
			body = g.r.Pick([]string{"color red", "/*! c */color:red", "color:red;color red"})
		}
		sep := g.r.Pick([]string{"", " ", "/*! c */"})
		return g.r.Pick(crCommonSel) + "{" + body + "}" + sep + g.r.Pick(crCommonSel) + "{" + body + "}"
	case 2, 3: // the same rule with `:x` and with `:x()`, in both orders, adjacent or not
		body := g.r.Pick(crDecls[:5])
		a, b := ".a:hover", ".a:hover()"
		if g.r.Chance(1, 3) {
			a, b = "a:link", "a:link()"
		}
		if g.r.Bool() {
			a, b = b, a
		}
		mid := g.r.Pick([]string{"", "", ".b{color:#00f}", "/*! c */"})
		return a + "{" + body + "}" + mid + b + "{" + body + "}"
	default: // rules whose selectors are all dead, with and without nested rules
		sel := g.r.Pick([]string{":is()", ":where()", ":is(),.a:is()", "div:where()"})
		body := g.r.Pick([]string{"@layer x{}", "@layer a{color:red}", ".x{color:red}", "color:red", "color:red;color red", "/*! c */color:red", "@media screen{color:red}", "@layer b;"})
		return sel + "{" + body + "}"
	}
}

func (g *crGen) misc(top bool, first bool) string {
	if g.r.Chance(1, 4) {
		return g.targeted()
	}
	switch g.r.Intn(16) {
	case 0:
		return "@layer " + g.r.Pick(crLayerNames) + ";"
	case 1:
		return "@layer " + g.r.Pick(crLayerNames) + "," + g.r.Pick(crLayerNames) + ";"
	case 2:
		return "/*! " + g.r.Pick([]string{"c", "d"}) + " */"
	case 3:
		return "@keyframes " + g.r.Pick([]string{"k", "l"}) + "{0%{color:red}to{color:#00f}}"
	case 4:
		return "@keyframes k{}"
	case 5:
		return "@font-face{font-family:x}"
	case 6:
		return g.r.Pick([]string{"@font-face{}", "@page{}", "@supports (display:grid){}", "@container (min-width:1px){}", "@SUPPORTS (display:grid){}", "@starting-style{}", "@scope (.a){}", "@font-feature-values x{}"})
	case 7:
		return g.r.Pick([]string{"@unknown x;", "@unknown{a b}", "@UNKNOWN x;", "@unknown x ;"})
	case 8:
		return g.selectorList() + "{}"
	case 9:
		return "@media " + g.r.Pick(crMediaQ) + "{}"
	case 10:
		return "@layer " + g.r.Pick(crLayerNames) + "{}"
	case 11:
		return "@layer{}"
	case 12:
		if top && first {
			return "@import \"" + g.r.Pick([]string{"x.css", "y.css"}) + "\";"
		}
		return "@page{margin:0}"
	case 13:
		return "@layer " + g.r.Pick(crLayerNames) + "{@layer " + g.r.Pick(crLayerNames) + "{" + g.r.Pick([]string{"", ".a{color:red}", "@layer c{}"}) + "}}"
	case 14:
		return "@scope (.a){.b{color:red}}"
	default:
		return "@page{margin:0}"
	}
}

// list generates the rules of one block; enc = queries of the enclosing @media rules
func (g *crGen) list(depth int, top bool, enc []string) string {
	n := g.r.Intn(7)
	if top {
		n = 1 + g.r.Intn(8)
	}
	items := []string{}
	prevBody := ""
	for i := 0; i < n; i++ {
		k := g.r.Intn(100)
		var item string
		switch {
		case k < 40:
			prevBody = g.body()
			item = g.selectorList() + "{" + prevBody + "}"
		case k < 55 && prevBody != "": // adjacent rule with the same body
			item = g.selectorList() + "{" + prevBody + "}"
		case k < 67 && len(items) > 0: // verbatim duplicate of an earlier rule of this list
			item = items[g.r.Intn(len(items))]
		case k < 72 && top && len(g.global) > 0: // duplicate of a top-level rule of an earlier file
			item = g.global[g.r.Intn(len(g.global))]
		case k < 88 && depth < 3:
			switch w := g.r.Intn(10); {
			case w < 5:
				q := g.r.Pick(crMediaQ)
				if len(enc) > 0 && g.r.Chance(1, 2) {
					q = enc[g.r.Intn(len(enc))]
				}
				at := "@media "
				if g.r.Chance(1, 12) {
					at = "@MEDIA "
				}
				item = at + q + "{" + g.list(depth+1, false, append(append([]string{}, enc...), q)) + "}"
			case w < 7:
				at := "@supports "
				if g.r.Chance(1, 8) {
					at = "@SUPPORTS "
				}
				item = at + g.r.Pick(crSupportsQ) + "{" + g.list(depth+1, false, enc) + "}"
			case w < 9:
				name := " " + g.r.Pick(crLayerNames)
				if g.r.Chance(1, 4) {
					name = ""
				}
				item = "@layer" + name + "{" + g.list(depth+1, false, enc) + "}"
			default:
				item = "@container (min-width:1px){" + g.list(depth+1, false, enc) + "}"
			}
		case g.malformed && k < 94:
			item = g.r.Pick(crGarbage)
		default:
			item = g.misc(top, i == 0)
		}
		items = append(items, item)
	}
	if top {
		g.global = append(g.global, items...)
	}
	return strings.Join(items, g.r.Pick([]string{"", "\n", " "}))
}

// crSelfCheck: MinifySyntax must not change the leaves the generators use (otherwise (A) ≠ model(B) for reasons
// outside the modelled routines).  Returns the offending sources; the kernel emits them as cases of their own, so a
// change of the minifier that breaks this assumption shows up as a disagreement on a one-rule input.
func crSelfCheck() []string {
	bad := []string{}
	same := func(src string) bool {
		a := crParse(src, 0, false)
		b := crParse(src, 0, true)
		return crDump(&a, a.Rules) == crDump(&b, b.Rules)
	}
	for _, s := range append(append([]string{}, crCommonSel...), crOddSel...) {
		if !same(s + "{--k:v}") {
			bad = append(bad, s+"{--k:v}")
		}
	}
	for _, dcl := range crDecls {
		if !same(".q{" + dcl + "}") {
			bad = append(bad, ".q{"+dcl+"}")
		}
	}
	for _, q := range crMediaQ {
		if !same("@media " + q + "{.q{--k:v}}") {
			bad = append(bad, "@media "+q+"{.q{--k:v}}")
		}
	}
	for _, q := range crSupportsQ {
		if !same("@supports " + q + "{.q{--k:v}}") {
			bad = append(bad, "@supports "+q+"{.q{--k:v}}")
		}
	}
	return bad
}

func init() {
	kernels["cssrules"] = func(r *gen.Rand, e *emitter, tier string) {
		pending := crSelfCheck()
		for _, bad := range pending {
			fmt.Fprintln(os.Stderr, "cssrules: MinifySyntax changes the generator leaf", bad)
		}
		for !e.full() {
			g := &crGen{r: r.Fork(), malformed: r.Chance(1, 5)}
			nFiles := []int{1, 1, 2, 2, 3}[r.Intn(5)]
			srcs := make([]string, nFiles)
			for i := range srcs {
				srcs[i] = g.list(0, true, nil)
			}
			if len(pending) > 0 {
				srcs, nFiles = []string{pending[0]}, 1
				pending = pending[1:]
				e.stat("selfcheck_leaf_changed_by_minify")
			}
			// import conditions: some files of a multi-file chunk are wrapped the way linker.wrapRulesWithConditions wraps
			// the rules of `@import "f" layer(x)` / `layer` / `supports(c)` (one condition, re-done here by hand because
			// that function is not exported): an RKnownAt with the token "layer" or "supports"
			wraps := make([]*crWrap, nFiles)
			if nFiles > 1 {
				for i := range wraps {
					if r.Chance(1, 3) {
						wraps[i] = crMakeWrap(r)
					}
					if i > 0 && r.Chance(1, 5) { // the same file imported twice, often under the same condition
						srcs[i] = srcs[i-1]
						if r.Chance(2, 3) {
							wraps[i] = wraps[i-1]
						}
						if wraps[i] != nil && wraps[i] == wraps[i-1] {
							e.stat("same_file_twice_same_wrapper:" + wraps[i].at)
						} else {
							e.stat("same_file_twice")
						}
					}
				}
			}
			// (B) the unmangled trees
			before := make([]string, nFiles)
			nBeforeTop := 0
			shape := &crShape{e: e, seenTop: map[string]bool{}}
			for i := nFiles - 1; i >= 0; i-- {
				t := crParse(srcs[i], uint32(i), false)
				before[i] = crDump(&t, t.Rules)
				nBeforeTop += len(t.Rules)
				shape.walk(&t, t.Rules, nil, true)
				if w := wraps[i]; w != nil {
					mt := crParse(srcs[i], uint32(i), true)
					if w.applies(len(mt.Rules)) {
						before[i] = "W " + crEnc(w.at) + " " + crEnc(w.preludeDump) + " " + before[i]
						e.stat("wrapped_file:" + w.at)
					}
				}
			}
			// (A) MinifySyntax + the linker's cross-file pass
			var printedDiffers bool
			nAfterTop := 0
			expected := guard(func() string {
				trees := make([]css_ast.AST, nFiles)
				symbols := ast.NewSymbolMap(nFiles)
				for i, src := range srcs {
					trees[i] = crParse(src, uint32(i), true)
					symbols.SymbolsForSource[i] = trees[i].Symbols
				}
				remover := css_parser.MakeDeadRuleMangler(symbols)
				after := make([]string, nFiles)
				for i := nFiles - 1; i >= 0; i-- {
					if w := wraps[i]; w != nil && w.applies(len(trees[i].Rules)) {
						trees[i].Rules = []css_ast.Rule{{Data: &css_ast.RKnownAt{AtToken: w.at, Prelude: w.prelude, Rules: trees[i].Rules}}}
					}
					trees[i].Rules = remover.RemoveDeadRulesInPlace(uint32(i), trees[i].Rules, trees[i].ImportRecords)
					after[i] = crDump(&trees[i], trees[i].Rules)
					nAfterTop += len(trees[i].Rules)
				}
				for i := range trees {
					if wraps[i] != nil {
						continue // a printed `@layer x{…}` wrapper re-parses as RAtLayer, not as the linker's RKnownAt
					}
					printed := css_printer.Print(trees[i], symbols, css_printer.Options{})
					re := crParse(string(printed.CSS), uint32(i), false)
					if crDump(&re, re.Rules) != after[i] {
						printedDiffers = true
						if os.Getenv("CR_DEBUG") != "" {
							fmt.Fprintf(os.Stderr, "PRINTDIFF\nsrc=%q\nprinted=%q\n", srcs[i], string(printed.CSS))
						}
					}
				}
				return strings.Join(after, "\t")
			})
			if g.malformed {
				e.stat("stream_malformed")
			} else {
				e.stat("stream_main")
			}
			e.stat(fmt.Sprintf("files=%d", nFiles))
			if printedDiffers {
				e.stat("printed_css_reparses_differently")
			} else {
				e.stat("printed_css_reparses_to_same_tree")
			}
			switch {
			case expected == "PANIC":
				e.stat("go_panic")
			case strings.Join(before, "\t") == expected:
				e.stat("unchanged")
			default:
				e.stat("changed")
			}
			if nAfterTop < nBeforeTop {
				e.stat("top_level_rules_removed")
			}
			for k := range shape.hit {
				e.stat(k)
			}
			e.emit("cssrules\t"+strings.Join(before, "\t"), expected)
		}
	}
}

// ---- which branches of the model does the (unmangled) input exercise? -----------------------------------

// a pseudo-class with an empty argument dump: ` p 'name <hasArgs> ' <isElement>`
var crArgsFlagRe = regexp.MustCompile(`( p '[^ ]+) [01] '`)

type crShape struct {
	e       *emitter
	hit     map[string]bool
	seenTop map[string]bool // dumps of top-level rules of later files / later rules (cross-file duplicates)
}

func (s *crShape) mark(k string) {
	if s.hit == nil {
		s.hit = map[string]bool{}
	}
	s.hit[k] = true
}

func (s *crShape) walk(tree *css_ast.AST, rules []css_ast.Rule, enc []string, top bool) {
	one := func(r css_ast.Rule) string { return crDump(tree, []css_ast.Rule{r}) }
	var prev css_ast.R
	commentSincePrev := false
	seen := map[string]int{}
	for i := len(rules) - 1; i >= 0; i-- {
		d := one(rules[i])
		if _, isLayer := rules[i].Data.(*css_ast.RAtLayer); !isLayer {
			if seen[d] > 0 {
				if top {
					s.mark("in:duplicate_rule_top_level_same_file")
				} else {
					s.mark("in:duplicate_rule_nested_list")
				}
				if _, isDecl := rules[i].Data.(*css_ast.RDeclaration); isDecl {
					s.mark("in:duplicate_declaration")
				}
			} else if top && s.seenTop[d] {
				s.mark("in:duplicate_rule_across_files")
			}
		} else if seen[d] > 0 {
			s.mark("in:identical_layer_rules(never_equal)")
		}
		seen[d]++
	}
	norm := map[string]map[string]bool{}
	for d := range seen {
		n := crArgsFlagRe.ReplaceAllString(d, "$1 X '")
		if norm[n] == nil {
			norm[n] = map[string]bool{}
		}
		norm[n][d] = true
	}
	for _, ds := range norm {
		if len(ds) > 1 {
			s.mark("in:rules_equal_except_:x_vs_:x()(both_kept)")
		}
	}
	if top {
		for d := range seen {
			s.seenTop[d] = true
		}
	}
	for _, rule := range rules {
		switch r := rule.Data.(type) {
		case *css_ast.RComment:
			commentSincePrev = true
			s.mark("in:comment")
			continue
		case *css_ast.RSelector:
			if len(r.Rules) == 0 {
				s.mark("in:empty_selector_rule")
			}
			for i, a := range r.Selectors {
				for _, b := range r.Selectors[:i] {
					if a.Equal(b, nil) {
						s.mark("in:duplicate_selector_in_list")
					}
				}
			}
			dead := len(r.Selectors) > 0
			for _, cx := range r.Selectors {
				cxDead := false
				for _, c := range cx.Selectors {
					for _, ss := range c.SubclassSelectors {
						if p, ok := ss.Data.(*css_ast.SSPseudoClassWithSelectorList); ok && len(p.Selectors) == 0 && (p.Kind == css_ast.PseudoClassIs || p.Kind == css_ast.PseudoClassWhere) {
							cxDead = true
						}
					}
				}
				if cxDead {
					s.mark("in:dead_selector")
				} else {
					dead = false
				}
			}
			nestedInside := false
			for _, inner := range r.Rules {
				switch inner.Data.(type) {
				case *css_ast.RDeclaration, *css_ast.RBadDeclaration, *css_ast.RComment:
				default:
					nestedInside = true
				}
				if _, ok := inner.Data.(*css_ast.RBadDeclaration); ok {
					s.mark("in:bad_declaration_in_style_rule")
				}
			}
			if dead {
				s.mark("in:rule_with_only_dead_selectors")
				if nestedInside {
					s.mark("in:dead_rule_with_nested_rules(kept)")
					for _, inner := range r.Rules {
						if _, ok := inner.Data.(*css_ast.RAtLayer); ok {
							s.mark("in:dead_rule_with_nested_layer(kept)")
						}
					}
				} else if len(r.Rules) > 0 {
					s.mark("in:dead_rule_without_nested_rules(dropped)")
				}
			}
			if p, ok := prev.(*css_ast.RSelector); ok && len(r.Rules) > 0 && crDump(tree, p.Rules) == crDump(tree, r.Rules) {
				s.mark("in:adjacent_equal_bodies")
				if nestedInside {
					s.mark("in:adjacent_equal_bodies_with_nested_rules(not_merged)")
				}
				if commentSincePrev {
					s.mark("in:adjacent_equal_bodies_across_comment")
				}
				for _, a := range r.Selectors {
					for _, b := range p.Selectors {
						if a.Equal(b, nil) {
							s.mark("in:adjacent_equal_bodies_sharing_a_selector")
						}
					}
				}
			}
			hasNested := false
			for _, inner := range r.Rules {
				if _, ok := inner.Data.(*css_ast.RDeclaration); !ok {
					hasNested = true
				}
			}
			if hasNested {
				s.mark("in:style_rule_with_nested_rules")
			}
			s.walk(tree, r.Rules, enc, false)
		case *css_ast.RAtMedia:
			q := (&crDumper{tree: tree}).anyStr(r.Queries)
			if len(r.Rules) == 0 {
				s.mark("in:empty_media")
			}
			for _, outer := range enc {
				if outer == q {
					s.mark("in:media_equal_to_enclosing_media")
					if len(r.Rules) > 0 {
						if _, ok := r.Rules[len(r.Rules)-1].Data.(*css_ast.RSelector); ok {
							s.mark("in:unwrapped_media_ends_with_selector_rule")
						}
					}
				}
			}
			s.walk(tree, r.Rules, append(append([]string{}, enc...), q), false)
		case *css_ast.RAtLayer:
			switch {
			case r.Rules == nil:
				s.mark("in:layer_statement")
			case len(r.Rules) == 0 && len(r.Names) > 0:
				s.mark("in:empty_named_layer_block")
			case len(r.Rules) == 0:
				s.mark("in:empty_anonymous_layer_block")
			case len(r.Names) == 0:
				s.mark("in:anonymous_layer_block")
			}
			if len(r.Rules) == 1 && len(r.Names) == 1 {
				if r2, ok := r.Rules[0].Data.(*css_ast.RAtLayer); ok && len(r2.Names) == 1 {
					s.mark("in:layer_with_single_layer_child")
				}
			}
			s.walk(tree, r.Rules, enc, false)
		case *css_ast.RKnownAt:
			if len(r.Rules) == 0 {
				s.mark("in:empty_known_at_rule")
			}
			s.walk(tree, r.Rules, enc, false)
		case *css_ast.RQualified:
			s.mark("in:qualified_rule")
			s.walk(tree, r.Rules, enc, false)
		case *css_ast.RAtScope:
			s.mark("in:scope_rule")
			s.walk(tree, r.Rules, enc, false)
		case *css_ast.RAtKeyframes:
			s.mark("in:keyframes")
			if len(r.Blocks) == 0 {
				s.mark("in:empty_keyframes")
			}
		case *css_ast.RAtImport:
			s.mark("in:import")
		case *css_ast.RDeclaration:
		default:
			s.mark("in:other_rule(" + reflect.TypeOf(rule.Data).String() + ")")
		}
		prev = rule.Data
		commentSincePrev = false
	}
}

// ---- import conditions (see linker.wrapRulesWithConditions) -----------------------------------------------

type crWrap struct {
	at          string
	prelude     []css_ast.Token
	preludeDump string
	anonymous   bool // `layer` without a name: `t.Children == nil`
}

// applies: the linker omits an anonymous `@layer {}` and every `@supports` wrapper around no rules
func (w *crWrap) applies(nRules int) bool {
	if nRules > 0 {
		return true
	}
	return w.at == "layer" && !w.anonymous
}

func crMakeWrap(r *gen.Rand) *crWrap {
	cond := ""
	switch r.Intn(5) {
	case 0:
		cond = "layer"
	case 1, 2:
		cond = "layer(" + r.Pick(crLayerNames) + ")"
	default:
		cond = "supports" + r.Pick([]string{"(display:grid)", "(display:flex)"})
	}
	stub := crParse("@import \"x.css\" "+cond+";", 0, true)
	if len(stub.Rules) != 1 {
		return nil
	}
	imp, ok := stub.Rules[0].Data.(*css_ast.RAtImport)
	if !ok || imp.ImportConditions == nil {
		return nil
	}
	w := &crWrap{}
	d := &crDumper{tree: &stub}
	switch {
	case len(imp.ImportConditions.Layers) == 1:
		t := imp.ImportConditions.Layers[0]
		w.at = "layer"
		w.anonymous = t.Children == nil
		if t.Children != nil {
			w.prelude = *t.Children
		}
	case len(imp.ImportConditions.Supports) == 1:
		t := imp.ImportConditions.Supports[0]
		t.Kind = css_lexer.TOpenParen
		t.Text = "("
		w.at = "supports"
		w.prelude = []css_ast.Token{t}
	default:
		return nil
	}
	w.preludeDump = d.toks(w.prelude)
	return w
}
