package main

// Kernel "cssimport": the order and the wrapping conditions of the CSS files of a bundle.
//
// Generates a graph of CSS files (top-level "@import" rules with layer / supports / media conditions, cycles,
// files imported several times under related condition lists, external imports, pre-import "@layer" statements,
// bodies made of "@layer" statements and marker rules, possibly inside an own "@layer" block), writes it as
// real files, bundles it with the real linker (api.Build, Bundle:true, Write:false) — from a CSS entry point or
// from a JavaScript entry point whose import graph reaches the CSS files — and reads the structure of the
// emitted style sheet back: the nesting of "@media" / "@supports" / "@layer" wrappers around every marker rule and
// "@layer" statement and the (possibly data-URL nested) external "@import" rules. The model
// (lean/EsbuildModel/Impl/CssImport.lean) computes the same canonical text from the graph:
// findImportedCSSFilesInJSOrder, findImportedFilesInCSSOrder (traversal, hoisting of external imports,
// de-duplication with isConditionalImportRedundant, the "@layer" passes) and wrapRulesWithConditions.

import (
	"fmt"
	"os"
	"path/filepath"
	"strconv"
	"strings"

	"github.com/evanw/esbuild/internal/resolver"
	"github.com/evanw/esbuild/pkg/api"
	"github.com/evanw/esbuild/verifharness/gen"
)

type ciCond struct {
	layer    string // "" none, "*" anonymous, else dotted name
	supports int    // 0 none
	media    int    // 0 none
}

func (c ciCond) empty() bool { return c.layer == "" && c.supports == 0 && c.media == 0 }

func (c ciCond) wire() string {
	s := ""
	if c.layer != "" {
		s += ":L" + c.layer
	}
	if c.supports != 0 {
		s += ":S" + strconv.Itoa(c.supports)
	}
	if c.media != 0 {
		s += ":M" + strconv.Itoa(c.media)
	}
	return s
}

func (c ciCond) css() string {
	s := ""
	if c.layer == "*" {
		s += " layer"
	} else if c.layer != "" {
		s += " layer(" + c.layer + ")"
	}
	if c.supports != 0 {
		s += fmt.Sprintf(" supports(width: %dpx)", c.supports)
	}
	if c.media != 0 {
		s += fmt.Sprintf(" (min-width: %dpx)", c.media)
	}
	return s
}

type ciImport struct {
	file int // -1: external
	ext  int
	cond ciCond
}

type ciStmt struct {
	names []string // layer statement when non-nil
	rule  int
	own   string
}

type ciFile struct {
	pre     []string
	imports []ciImport
	body    []ciStmt
}

var ciLayerNames = []string{"a", "b", "c", "a.b", "b.a", "a.b.c"}

func ciGenCond(r *gen.Rand, rich bool) ciCond {
	c := ciCond{}
	if !rich && r.Chance(2, 5) {
		return c
	}
	switch r.Intn(6) {
	case 0:
		c.layer = "*"
	case 1, 2:
		c.layer = ciLayerNames[r.Intn(3)]
	case 3:
		if rich {
			c.layer = ciLayerNames[r.Intn(len(ciLayerNames))]
		}
	}
	if r.Chance(1, 3) {
		c.supports = 1 + r.Intn(2)
	}
	if r.Chance(1, 3) {
		c.media = 1 + r.Intn(2)
	}
	return c
}

func ciGenNames(r *gen.Rand, max int) []string {
	n := 1 + r.Intn(max)
	var out []string
	for i := 0; i < n; i++ {
		out = append(out, ciLayerNames[r.Intn(len(ciLayerNames))])
	}
	return out
}

// ciGenGraph: files 0..n-1, file 0 is the CSS entry point (for the js form every file may be a root)
func ciGenGraph(r *gen.Rand, e *emitter) []ciFile {
	n := 1 + r.Intn(6)
	if r.Chance(1, 10) {
		n = 7 + r.Intn(4)
	}
	files := make([]ciFile, n)
	nextRule := 0
	nExt := 0
	if r.Chance(1, 3) {
		nExt = 1 + r.Intn(2)
	}
	style := r.Intn(4) // 0: plain, 1: condition heavy, 2: layer statements heavy, 3: mixed
	for i := range files {
		f := &files[i]
		ni := r.Intn(4)
		if i == 0 && n > 1 {
			ni = 1 + r.Intn(4)
		}
		if n == 1 && r.Chance(1, 2) {
			ni = 0
		}
		for k := 0; k < ni; k++ {
			im := ciImport{file: -1}
			if nExt > 0 && r.Chance(1, 4) {
				im.ext = 1 + r.Intn(nExt)
			} else {
				// mostly forward edges (a DAG with shared leaves, so that files are reached several times); sometimes any file (cycles, self imports)
				if r.Chance(1, 8) || i+1 >= n {
					im.file = r.Intn(n)
				} else {
					im.file = i + 1 + r.Intn(n-i-1)
				}
			}
			if style != 0 || r.Chance(1, 3) {
				im.cond = ciGenCond(r, style == 1)
			}
			f.imports = append(f.imports, im)
		}
		if len(f.imports) > 0 && (style >= 2 && r.Chance(1, 2) || r.Chance(1, 6)) {
			f.pre = ciGenNames(r, 2)
		}
		nb := r.Intn(3)
		if style == 2 {
			nb = r.Intn(4)
		}
		for k := 0; k < nb; k++ {
			if (style >= 2 && r.Chance(1, 2)) || r.Chance(1, 5) {
				f.body = append(f.body, ciStmt{names: ciGenNames(r, 2)})
			} else {
				s := ciStmt{rule: nextRule}
				nextRule++
				if (style >= 2 && r.Chance(1, 3)) || r.Chance(1, 8) {
					s.own = ciLayerNames[r.Intn(len(ciLayerNames))]
				}
				f.body = append(f.body, s)
			}
		}
	}
	return files
}

func ciWireFiles(files []ciFile) string {
	var fs []string
	for _, f := range files {
		pre := "-"
		if len(f.pre) > 0 {
			pre = strings.Join(f.pre, ",")
		}
		ims := "-"
		if len(f.imports) > 0 {
			var xs []string
			for _, im := range f.imports {
				t := fmt.Sprintf("F%d", im.file)
				if im.file < 0 {
					t = fmt.Sprintf("X%d", im.ext)
				}
				xs = append(xs, t+im.cond.wire())
			}
			ims = strings.Join(xs, ",")
		}
		body := "-"
		if len(f.body) > 0 {
			var xs []string
			for _, s := range f.body {
				if s.names != nil {
					xs = append(xs, "Y"+strings.Join(s.names, "+"))
				} else if s.own != "" {
					xs = append(xs, fmt.Sprintf("R%d@%s", s.rule, s.own))
				} else {
					xs = append(xs, fmt.Sprintf("R%d", s.rule))
				}
			}
			body = strings.Join(xs, ",")
		}
		fs = append(fs, pre+"/"+ims+"/"+body)
	}
	return strings.Join(fs, ";")
}

func ciCSSText(f ciFile) string {
	var b strings.Builder
	if len(f.pre) > 0 {
		b.WriteString("@layer " + strings.Join(f.pre, ", ") + ";\n")
	}
	for _, im := range f.imports {
		if im.file >= 0 {
			fmt.Fprintf(&b, "@import \"./f%d.css\"%s;\n", im.file, im.cond.css())
		} else {
			fmt.Fprintf(&b, "@import \"http://ext/p%d.css\"%s;\n", im.ext, im.cond.css())
		}
	}
	for _, s := range f.body {
		if s.names != nil {
			b.WriteString("@layer " + strings.Join(s.names, ", ") + ";\n")
		} else if s.own != "" {
			fmt.Fprintf(&b, "@layer %s {\n  .r%d { color: red }\n}\n", s.own, s.rule)
		} else {
			fmt.Fprintf(&b, ".r%d { color: red }\n", s.rule)
		}
	}
	return b.String()
}

// ---- reading the emitted style sheet back into the canonical bracket syntax --------------------------------

type ciParser struct {
	s   string
	i   int
	err string
}

func (p *ciParser) fail(msg string) {
	if p.err == "" {
		p.err = fmt.Sprintf("%s at %d", msg, p.i)
	}
	p.i = len(p.s)
}

func (p *ciParser) ws() {
	for p.i < len(p.s) {
		c := p.s[p.i]
		if c == ' ' || c == '\n' || c == '\t' || c == '\r' {
			p.i++
		} else if strings.HasPrefix(p.s[p.i:], "/*") {
			j := strings.Index(p.s[p.i+2:], "*/")
			if j < 0 {
				p.i = len(p.s)
			} else {
				p.i += j + 4
			}
		} else {
			break
		}
	}
}

// str parses a quoted string with backslash escapes (only \" \' \\ and hex escapes occur)
func (p *ciParser) str() string {
	q := p.s[p.i]
	p.i++
	var b strings.Builder
	for p.i < len(p.s) && p.s[p.i] != q {
		if p.s[p.i] == '\\' && p.i+1 < len(p.s) {
			p.i++
			c := p.s[p.i]
			if (c >= '0' && c <= '9') || (c >= 'a' && c <= 'f') || (c >= 'A' && c <= 'F') {
				j := p.i
				for j < len(p.s) && j < p.i+6 && strings.IndexByte("0123456789abcdefABCDEF", p.s[j]) >= 0 {
					j++
				}
				v, _ := strconv.ParseUint(p.s[p.i:j], 16, 32)
				b.WriteRune(rune(v))
				p.i = j
				if p.i < len(p.s) && p.s[p.i] == ' ' {
					p.i++
				}
				continue
			}
			b.WriteByte(c)
			p.i++
			continue
		}
		b.WriteByte(p.s[p.i])
		p.i++
	}
	p.i++
	return b.String()
}

func ciPx(s string, prefix string) (int, bool) {
	s = strings.TrimSpace(s)
	if !strings.HasPrefix(s, prefix) || !strings.HasSuffix(s, "px)") {
		return 0, false
	}
	n, err := strconv.Atoi(strings.TrimSpace(s[len(prefix) : len(s)-3]))
	return n, err == nil
}

// ciCondText parses ` layer(a.b) supports(width: 1px) (min-width: 2px)` into the wire form
func ciCondText(s string) (string, bool) {
	s = strings.TrimSpace(s)
	out := ""
	if strings.HasPrefix(s, "layer(") {
		k := strings.IndexByte(s, ')')
		out += ":L" + strings.TrimSpace(s[6:k])
		s = strings.TrimSpace(s[k+1:])
	} else if s == "layer" || strings.HasPrefix(s, "layer ") {
		out += ":L*"
		s = strings.TrimSpace(s[5:])
	}
	if strings.HasPrefix(s, "supports(") {
		k := strings.IndexByte(s, ')')
		n, ok := ciPx(s[8:k+1], "(width:")
		if !ok {
			return "", false
		}
		out += ":S" + strconv.Itoa(n)
		s = strings.TrimSpace(s[k+1:])
	}
	if s != "" {
		n, ok := ciPx(s, "(min-width:")
		if !ok {
			return "", false
		}
		out += ":M" + strconv.Itoa(n)
	}
	return out, true
}

// ciImportRule: `"path" conds` → X<p>|cond|cond…; data URLs are opened recursively
func ciImportRule(path string, conds string) (string, bool) {
	c, ok := ciCondText(conds)
	if !ok {
		return "", false
	}
	if strings.HasPrefix(path, "data:") {
		d, ok := resolver.ParseDataURL(path)
		if !ok {
			return "", false
		}
		text, err := d.DecodeData()
		if err != nil {
			return "", false
		}
		q := &ciParser{s: text}
		q.ws()
		if !strings.HasPrefix(q.s[q.i:], "@import") {
			return "", false
		}
		q.i += 7
		q.ws()
		inner := q.str()
		k := strings.LastIndexByte(q.s, ';')
		if k < q.i {
			return "", false
		}
		rest, ok := ciImportRule(inner, q.s[q.i:k])
		if !ok {
			return "", false
		}
		// rest = X<p>|c1|c2…: this level's condition goes in front
		bar := strings.IndexByte(rest, '|')
		if bar < 0 {
			return rest + "|" + c, true
		}
		return rest[:bar] + "|" + c + rest[bar:], true
	}
	if !strings.HasPrefix(path, "http://ext/p") || !strings.HasSuffix(path, ".css") {
		return "", false
	}
	id := path[len("http://ext/p") : len(path)-4]
	if c == "" {
		return "X" + id, true
	}
	return "X" + id + "|" + c, true
}

func (p *ciParser) block(top bool) string {
	var b strings.Builder
	for {
		p.ws()
		if p.i >= len(p.s) {
			if !top {
				p.fail("unterminated block")
			}
			return b.String()
		}
		if p.s[p.i] == '}' {
			if top {
				p.fail("stray }")
			}
			p.i++
			return b.String()
		}
		if p.s[p.i] == '@' {
			j := p.i + 1
			for j < len(p.s) && (p.s[j] >= 'a' && p.s[j] <= 'z' || p.s[j] == '-') {
				j++
			}
			name := p.s[p.i+1 : j]
			p.i = j
			if name == "import" {
				p.ws()
				if p.i >= len(p.s) || (p.s[p.i] != '"' && p.s[p.i] != '\'') {
					p.fail("import without string")
					return ""
				}
				path := p.str()
				k := strings.IndexByte(p.s[p.i:], ';')
				if k < 0 {
					p.fail("import without ;")
					return ""
				}
				x, ok := ciImportRule(path, p.s[p.i:p.i+k])
				if !ok {
					p.fail("import rule")
					return ""
				}
				p.i += k + 1
				b.WriteString(x + ";")
				continue
			}
			k := strings.IndexAny(p.s[p.i:], "{;")
			if k < 0 {
				p.fail("at-rule without end")
				return ""
			}
			prelude := strings.TrimSpace(p.s[p.i : p.i+k])
			semi := p.s[p.i+k] == ';'
			p.i += k + 1
			switch name {
			case "layer":
				if semi {
					var ns []string
					for _, n := range strings.Split(prelude, ",") {
						ns = append(ns, strings.TrimSpace(n))
					}
					b.WriteString("Y" + strings.Join(ns, "+") + ";")
				} else {
					if prelude == "" {
						prelude = "*"
					}
					b.WriteString("L" + prelude + "{" + p.block(false) + "}")
				}
			case "media":
				n, ok := ciPx(prelude, "(min-width:")
				if !ok || semi {
					p.fail("media prelude")
					return ""
				}
				b.WriteString("M" + strconv.Itoa(n) + "{" + p.block(false) + "}")
			case "supports":
				n, ok := ciPx(prelude, "(width:")
				if !ok || semi {
					p.fail("supports prelude")
					return ""
				}
				b.WriteString("S" + strconv.Itoa(n) + "{" + p.block(false) + "}")
			default:
				p.fail("unknown at-rule " + name)
				return ""
			}
			continue
		}
		// a marker rule `.rN { … }`
		k := strings.IndexByte(p.s[p.i:], '{')
		if k < 0 {
			p.fail("rule without block")
			return ""
		}
		sel := strings.TrimSpace(p.s[p.i : p.i+k])
		e := strings.IndexByte(p.s[p.i+k:], '}')
		if e < 0 || !strings.HasPrefix(sel, ".r") {
			p.fail("marker rule")
			return ""
		}
		p.i += k + e + 1
		b.WriteString("R" + sel[2:] + ";")
	}
}

func ciCanon(css string) string {
	p := &ciParser{s: css}
	out := p.block(true)
	if p.err != "" {
		return "UNPARSED(" + p.err + ")"
	}
	if out == "" {
		return "-"
	}
	return out
}

// ---- the kernel ------------------------------------------------------------------------------------------

func ciCountStats(e *emitter, files []ciFile, canon string) {
	for _, f := range files {
		if len(f.pre) > 0 {
			e.stat("file:pre-layers")
		}
		for _, im := range f.imports {
			if im.file < 0 {
				e.stat("import:external")
			}
			if im.cond.layer == "*" {
				e.stat("cond:layer-anon")
			} else if im.cond.layer != "" {
				e.stat("cond:layer-named")
			}
			if im.cond.supports != 0 {
				e.stat("cond:supports")
			}
			if im.cond.media != 0 {
				e.stat("cond:media")
			}
		}
	}
	if strings.Contains(canon, "X") {
		e.stat("out:external")
	}
	if strings.Contains(canon, "|") && strings.Count(canon, "|") > strings.Count(canon, "X") {
		e.stat("out:external-data-url")
	}
	if strings.Contains(canon, "Y") {
		e.stat("out:layer-statement")
	}
	if strings.Contains(canon, "L*{") {
		e.stat("out:anon-layer-block")
	}
	if strings.Contains(canon, "+") {
		e.stat("out:merged-or-multi-layer-statement")
	}
	if canon == "-" {
		e.stat("out:empty")
	}
}

func init() {
	kernels["cssimport"] = func(r *gen.Rand, e *emitter, tier string) {
		dir, err := os.MkdirTemp("", "cssimport")
		if err != nil {
			panic(err)
		}
		defer os.RemoveAll(dir)
		write := func(rel, text string) {
			if err := os.WriteFile(filepath.Join(dir, rel), []byte(text), 0644); err != nil {
				panic(err)
			}
		}
		build := func(entry string) (out string, ok bool) {
			// a Go panic inside the linker's synchronous part (computeChunks) reaches us: the model says PANIC then too
			defer func() {
				if rec := recover(); rec != nil {
					out, ok = "PANIC", true
				}
			}()
			res := api.Build(api.BuildOptions{AbsWorkingDir: dir, EntryPoints: []string{entry}, Bundle: true, Outdir: "out",
				Write: false, LogLevel: api.LogLevelSilent})
			if len(res.Errors) > 0 {
				return "BUILD-ERROR: " + res.Errors[0].Text, false
			}
			for _, f := range res.OutputFiles {
				if strings.HasSuffix(f.Path, ".css") {
					return ciCanon(string(f.Contents)), true
				}
			}
			return "nochunk", true
		}
		for !e.full() {
			if r.Chance(1, 40) { // malformed operations: the model must answer bad-op
				bad := []string{"cssimport\tcss\tx\t-/-/-", "cssimport\tcss\t0\t-/-", "cssimport\tcss\t0\t-/F/-", "cssimport\tcss\t0\t-/F1:Q2/-;-/-/-",
					"cssimport\tcss\t0\t-/F0:La:Lb/-", "cssimport\tcss\t0\t-/-/R", "cssimport\tcss\t0\ta..b/-/-", "cssimport\tjs\tK1\t-/-/-", "cssimport\tcss\t0",
					"cssimport\tnope\t0\t-/-/-", "cssimport\tcss\t0\t-/-/Y", "cssimport\tcss\t0\t-/X1:S:M1/-"}
				e.stat("malformed")
				e.emit(bad[r.Intn(len(bad))], "bad-op")
				continue
			}
			files := ciGenGraph(r, e)
			entries, _ := os.ReadDir(dir)
			for _, en := range entries {
				os.Remove(filepath.Join(dir, en.Name()))
			}
			for i, f := range files {
				write(fmt.Sprintf("f%d.css", i), ciCSSText(f))
			}
			wire := ciWireFiles(files)
			if r.Chance(1, 4) {
				// JavaScript entry point: j0.js … j(m-1).js import each other and the CSS files
				m := 1 + r.Intn(4)
				var js []string
				for k := 0; k < m; k++ {
					var text strings.Builder
					var w []string
					// static import statements are evaluated before the module body (the parser puts their parts
					// first), so they are written first; require() / import() follow in source order
					var wLate []string
					var textLate strings.Builder
					ni := 1 + r.Intn(3)
					if k > 0 {
						ni = r.Intn(3)
					}
					for x := 0; x < ni; x++ {
						if m > 1 && r.Chance(2, 5) {
							t := r.Intn(m) // cycles and self imports included
							switch r.Intn(4) {
							case 0:
								wLate = append(wLate, fmt.Sprintf("J%d", t))
								fmt.Fprintf(&textLate, "require(\"./j%d.js\");\n", t)
								e.stat("js:require")
							case 1:
								wLate = append(wLate, fmt.Sprintf("J%d", t))
								fmt.Fprintf(&textLate, "import(\"./j%d.js\");\n", t)
								e.stat("js:dynamic-import")
							default:
								w = append(w, fmt.Sprintf("J%d", t))
								fmt.Fprintf(&text, "import \"./j%d.js\";\n", t)
							}
						} else {
							t := r.Intn(len(files))
							if r.Chance(1, 4) {
								wLate = append(wLate, fmt.Sprintf("C%d", t))
								fmt.Fprintf(&textLate, "require(\"./f%d.css\");\n", t)
								e.stat("js:require")
							} else {
								w = append(w, fmt.Sprintf("C%d", t))
								fmt.Fprintf(&text, "import \"./f%d.css\";\n", t)
							}
						}
					}
					w = append(w, wLate...)
					text.WriteString(textLate.String())
					fmt.Fprintf(&text, "console.log(%d);\n", k)
					write(fmt.Sprintf("j%d.js", k), text.String())
					if len(w) == 0 {
						js = append(js, "-")
					} else {
						js = append(js, strings.Join(w, ","))
					}
				}
				got, ok := build("j0.js")
				if !ok {
					e.stat("build-error")
					continue
				}
				e.stat("entry:js")
				if got == "nochunk" {
					e.stat("out:nochunk")
				}
				ciCountStats(e, files, got)
				e.emit("cssimport\tjs\t"+strings.Join(js, ";")+"\t"+wire, got)
				continue
			}
			got, ok := build("f0.css")
			if !ok {
				e.stat("build-error")
				continue
			}
			e.stat("entry:css")
			ciCountStats(e, files, got)
			e.emit("cssimport\tcss\t0\t"+wire, got)
		}
	}
}
