package main

// commentindent: the REAL (*logger.Source).CommentTextWithoutIndent on generated sources.
//
//	commentindent run <contents hex> <start> <len>   → hex of the returned string, or PANIC (recover() around the call)
//	commentindent js  <contents hex> <start> <len>   → the Text of the legal-comment statement that js_parser.Parse built for the
//	                                                    comment the generator put at [start, start+len) (the range is the lexer's)
//	commentindent css <contents hex> <start> <len>   → the Text of the legal comment css_lexer.Tokenize recorded for it
//
// The model answers all three with the same function; `js` and `css` therefore also tie the callers' range computation
// (js_lexer: lexer.Range() of the comment token, css_lexer: startRange.Loc … commentEnd) to "the comment from `/*` to `*/`".
// `js` and `css` operations carry an end-to-end witness for the c16-fuzz search (the source itself as a transform case).

import (
	"encoding/base64"
	"encoding/hex"
	"fmt"
	"strings"

	"github.com/evanw/esbuild/internal/config"
	"github.com/evanw/esbuild/internal/css_lexer"
	"github.com/evanw/esbuild/internal/js_ast"
	"github.com/evanw/esbuild/internal/js_parser"
	"github.com/evanw/esbuild/internal/logger"
	"github.com/evanw/esbuild/verifharness/gen"
)

type ciGen struct {
	r *gen.Rand
	e *emitter
}

// white space of n bytes: 0 spaces, 1 tabs, 2 mixed
func (g ciGen) ws(n int, mode int) string {
	var sb strings.Builder
	for i := 0; i < n; i++ {
		switch mode {
		case 0:
			sb.WriteByte(' ')
		case 1:
			sb.WriteByte('\t')
		default:
			sb.WriteByte(" \t"[g.r.Intn(2)])
		}
	}
	return sb.String()
}

func (g ciGen) term() string {
	switch k := g.r.Intn(20); {
	case k < 7:
		return "\n"
	case k < 11:
		return "\r\n"
	case k < 14:
		return "\r"
	case k < 16:
		return "\u2028"
	case k < 18:
		return "\u2029"
	case k == 18:
		return "\n\r"
	default:
		return "\r\r\n"
	}
}

var ciWords = []string{"a", "b c", "* text", "*", "Copyright (c) 2026", "@license MIT", "@preserve", "x*y", "/ *", "* /", "//", "#__PURE__", "@jsx h"}
var ciMulti = []string{"π", "ü", "日本", "𝒳", "😀", "\u00a0", "\u3000", "\ufeff", "\u2027", "\u202a", "é\u0301"}
var ciInvalid = []string{"\xff", "\xe2\x80", "\xe2", "\xc3", "\x80", "\xa8", "\xe2\x80\xaa", "\xf0\x9f\x98", "\xed\xa0\x80", "\xc0\x8a", "\xe0\x80\x8a", "\xe2\x80\x0a", "\xe2\x0d"}

// text of one comment line; valid: only well-formed UTF-8; closer: may contain "*/" and "/*"
func (g ciGen) content(valid bool, closer bool) string {
	var sb strings.Builder
	n := g.r.Intn(4)
	for i := 0; i < n; i++ {
		switch k := g.r.Intn(12); {
		case k < 5:
			sb.WriteString(g.r.Pick(ciWords))
		case k < 8:
			sb.WriteString(g.r.Pick(ciMulti))
		case k < 10:
			if valid {
				sb.WriteString(g.r.Pick(ciMulti))
			} else {
				sb.WriteString(g.r.Pick(ciInvalid))
			}
		case k == 10:
			if closer {
				sb.WriteString([]string{"*/", "/*", "*/ /*", "**/"}[g.r.Intn(4)])
			} else {
				sb.WriteString("**")
			}
		default:
			sb.WriteString(g.ws(1+g.r.Intn(3), 2))
		}
	}
	return sb.String()
}

// a multi-line comment whose first line stands at column `indent`; returns the text
func (g ciGen) comment(indent int, mode int, valid bool, closer bool, legal bool) string {
	var sb strings.Builder
	sb.WriteString("/*")
	if legal {
		sb.WriteString(g.r.Pick([]string{"!", "! ", "* @license ", " @preserve ", "!*"}))
	} else {
		sb.WriteString(g.r.Pick([]string{"", "!", "*", " ", "\t"}))
	}
	sb.WriteString(g.content(valid, closer))
	lines := g.r.Intn(7)
	if g.r.Chance(1, 8) {
		lines = 0
	}
	for i := 0; i < lines; i++ {
		sb.WriteString(g.term())
		kind := g.r.Intn(12)
		var ind string
		switch k := g.r.Intn(10); {
		case k < 4:
			ind = g.ws(indent, mode)
			g.e.stat("line-indent:same")
		case k < 6:
			ind = g.ws(indent+1+g.r.Intn(4), mode)
			g.e.stat("line-indent:more")
		case k < 8:
			if indent > 0 {
				ind = g.ws(g.r.Intn(indent), mode)
			}
			g.e.stat("line-indent:less")
		case k == 8:
			g.e.stat("line-indent:zero")
		default:
			ind = g.ws(indent+g.r.Intn(3), 2)
			g.e.stat("line-indent:mixed")
		}
		switch {
		case kind == 0: // blank line
			g.e.stat("line:blank")
		case kind == 1: // white space only, shorter than the indent
			if indent > 0 {
				sb.WriteString(g.ws(g.r.Intn(indent), mode))
			}
			g.e.stat("line:short-blank")
		case kind == 2: // white space only
			sb.WriteString(ind)
			g.e.stat("line:ws-only")
		case kind == 3: // indentation followed by something that is white space for JS but not ' ' or '\t'
			sb.WriteString(ind)
			sb.WriteString(g.r.Pick([]string{"\u00a0", "\v", "\f", "\u3000", "\ufeff"}))
			sb.WriteString(g.content(valid, closer))
			g.e.stat("line:other-space")
		default:
			sb.WriteString(ind)
			sb.WriteString(g.content(valid, closer))
			g.e.stat("line:text")
		}
	}
	body := sb.String()
	if !closer {
		// the comment must not end early (words put next to each other can form the closing token)
		for strings.Contains(body[2:], "*/") {
			body = body[:2] + strings.Replace(body[2:], "*/", "*_/", -1)
		}
	}
	switch g.r.Intn(4) {
	case 0:
		body += g.term() + g.ws(indent, mode) + " */"
	case 1:
		body += " */"
	default:
		body += "*/"
	}
	return body
}

func ciRun(contents string, start, n int64) string {
	return guard(func() string {
		src := logger.Source{Contents: contents}
		return hexBytes([]byte(src.CommentTextWithoutIndent(logger.Range{Loc: logger.Loc{Start: int32(start)}, Len: int32(n)})))
	})
}

func ciWitness(loader string, src string, opt string) map[string]interface{} {
	return map[string]interface{}{"id": 0, "kind": "transform", "loader": loader, "opt": opt,
		"input_b64": base64.StdEncoding.EncodeToString([]byte(src)), "origin": "commentindent kernel"}
}

// branch statistics of one operation (computed from the input and the real result only)
func (g ciGen) classify(contents string, start, n int64, exp string) {
	e := g.e
	switch {
	case exp == "PANIC":
		e.stat("res:panic")
		return
	case exp == "PARSE-FAILED" || exp == "NO-COMMENT":
		e.stat("res:" + exp)
		return
	}
	if start < 0 || n < 0 || start+n > int64(len(contents)) {
		e.stat("res:ok-out-of-range?")
		return
	}
	text := contents[start : start+n]
	got := ""
	if exp != "-" {
		b, _ := hex.DecodeString(exp)
		got = string(b)
	}
	if len(text) < 2 || !strings.HasPrefix(text, "/*") {
		e.stat("res:not-a-comment")
		return
	}
	if got == text {
		e.stat("res:unchanged")
	} else if len(got) == len(text) {
		e.stat("res:terminators-only")
	} else {
		e.stat("res:shorter")
	}
	if strings.Contains(text, "\r\n") {
		e.stat("text:crlf")
	}
	if strings.Contains(strings.Replace(text, "\r\n", "", -1), "\r") {
		e.stat("text:cr")
	}
	if strings.Contains(text, "\u2028") || strings.Contains(text, "\u2029") {
		e.stat("text:ls-ps")
	}
	if !strings.ContainsAny(text, "\r\n") && !strings.Contains(text, "\u2028") && !strings.Contains(text, "\u2029") {
		e.stat("text:single-line")
	}
	if strings.HasSuffix(text, "\r") || strings.HasSuffix(text, "\n") || strings.HasSuffix(text, "\u2028") {
		e.stat("text:ends-with-terminator")
	}
	// how many bytes were removed per later line
	gl := strings.Split(got, "\n")
	if len(gl) > 1 {
		col := 0
		for i := int(start) - 1; i >= 0 && contents[i] != '\n' && contents[i] != '\r'; i-- {
			col++
		}
		if col == 0 {
			e.stat("col:zero")
		} else {
			e.stat("col:positive")
		}
	}
}

// text before the comment on its own line
func (g ciGen) linePrefix(valid bool, code bool) string {
	switch k := g.r.Intn(10); {
	case k < 3:
		g.e.stat("prefix:none")
		return ""
	case k < 6:
		g.e.stat("prefix:ws")
		return g.ws(g.r.Intn(13), g.r.Intn(3))
	case k < 8:
		g.e.stat("prefix:code-ascii")
		return g.ws(g.r.Intn(5), g.r.Intn(3)) + "a = 1;" + g.ws(g.r.Intn(3), 0)
	default:
		if !valid && !code {
			g.e.stat("prefix:invalid-utf8")
			return g.ws(g.r.Intn(4), 0) + g.r.Pick(ciInvalid) + g.r.Pick(ciMulti) + g.r.Pick(ciInvalid) + g.ws(g.r.Intn(3), 0)
		}
		g.e.stat("prefix:code-multibyte")
		return g.ws(g.r.Intn(4), g.r.Intn(3)) + "s = \"" + g.r.Pick(ciMulti) + g.r.Pick(ciMulti) + "\";" + g.ws(g.r.Intn(3), 0)
	}
}

func init() {
	kernels["commentindent"] = func(r *gen.Rand, e *emitter, tier string) {
		g := ciGen{r, e}
		jsTerm := func() string { return []string{"\n", "\n", "\r\n", "\r", "\u2028", "\u2029"}[r.Intn(6)] }
		for !e.full() {
			switch k := r.Intn(20); {
			case k < 8: // a comment inside arbitrary surrounding text, exact or perturbed range
				valid := r.Chance(1, 2)
				before := ""
				for i, n := 0, r.Intn(3); i < n; i++ {
					before += g.content(valid, true) + g.term()
				}
				if r.Chance(1, 10) {
					before += g.r.Pick(ciInvalid) // the bytes just before the line may be a truncated terminator
				}
				prefix := g.linePrefix(valid, false)
				indent := len([]rune(prefix))
				c := g.comment(indent, r.Intn(3), valid, r.Chance(1, 4), r.Chance(1, 2))
				after := ""
				if r.Chance(1, 2) {
					after = g.term() + g.content(valid, true)
				}
				contents := before + prefix + c + after
				start, n := int64(len(before)+len(prefix)), int64(len(c))
				switch p := r.Intn(12); {
				case p == 0: // unterminated: the range stops inside the comment
					n -= int64(1 + r.Intn(3))
					if n < 0 {
						n = 0
					}
					e.stat("range:cut-short")
				case p == 1:
					n += int64(r.Intn(len(after) + 1))
					e.stat("range:too-long")
				case p == 2:
					d := int64(r.Intn(3)) - 1
					if start+d >= 0 && n-d >= 0 {
						start, n = start+d, n-d
					}
					e.stat("range:shifted")
				default:
					e.stat("range:exact")
				}
				exp := ciRun(contents, start, n)
				g.classify(contents, start, n, exp)
				e.emit(fmt.Sprintf("commentindent\trun\t%s\t%d\t%d", hexBytes([]byte(contents)), start, n), exp)
			case k < 11: // byte soup with a random range
				n := r.Intn(40)
				var sb strings.Builder
				for sb.Len() < n {
					switch q := r.Intn(16); {
					case q < 3:
						sb.WriteString("/*")
					case q < 5:
						sb.WriteString("*/")
					case q < 8:
						sb.WriteString(g.term())
					case q < 11:
						sb.WriteString(g.ws(1+r.Intn(4), r.Intn(3)))
					case q < 13:
						sb.WriteString(g.r.Pick(ciInvalid))
					case q == 13:
						sb.WriteByte(byte(r.Intn(256)))
					default:
						sb.WriteString(g.r.Pick(ciMulti))
					}
				}
				contents := sb.String()
				start := int64(r.Intn(len(contents) + 1))
				if i := strings.Index(contents, "/*"); i >= 0 && r.Chance(2, 3) {
					// start at some "/*"
					all := []int{}
					for j := 0; j+1 < len(contents); j++ {
						if contents[j] == '/' && contents[j+1] == '*' {
							all = append(all, j)
						}
					}
					start = int64(all[r.Intn(len(all))])
				}
				ln := int64(r.Intn(len(contents) - int(start) + 1))
				if r.Chance(1, 2) {
					ln = int64(len(contents)) - start
				}
				e.stat("soup")
				exp := ciRun(contents, start, ln)
				g.classify(contents, start, ln, exp)
				e.emit(fmt.Sprintf("commentindent\trun\t%s\t%d\t%d", hexBytes([]byte(contents)), start, ln), exp)
			case k < 12: // ranges that are not inside the contents, int32 boundary values
				contents := g.ws(r.Intn(3), 0) + g.comment(2, 0, true, false, true)
				L := int64(len(contents))
				vals := []int64{-1, 0, 1, 2, L - 1, L, L + 1, -L, 2147483647, -2147483648, 2147483647 - L, 4294967296 - 2147483648 - 1, int64(r.Intn(int(L) + 3)), -int64(r.Intn(5))}
				start := vals[r.Intn(len(vals))]
				ln := vals[r.Intn(len(vals))]
				if r.Chance(1, 3) {
					ln = L - start + int64(r.Intn(3)) - 1
				}
				if ln < -2147483648 || ln > 2147483647 {
					ln = 0
				}
				e.stat("range:boundary")
				exp := ciRun(contents, start, ln)
				g.classify(contents, start, ln, exp)
				e.emit(fmt.Sprintf("commentindent\trun\t%s\t%d\t%d", hexBytes([]byte(contents)), start, ln), exp)
			case k < 17: // a JavaScript program; the text comes out of the parser
				before := ""
				for i, n := 0, r.Intn(3); i < n; i++ {
					before += fmt.Sprintf("var v%d = \"%s\";%s", i, g.r.Pick(ciMulti), jsTerm())
				}
				prefix := g.linePrefix(true, true)
				indent := len([]rune(prefix))
				c := g.comment(indent, r.Intn(3), r.Chance(2, 3), false, true)
				after := jsTerm() + g.ws(r.Intn(4), 0) + "var z = 2;\n"
				if r.Chance(1, 4) {
					after = " z = 2;\n"
				}
				if r.Chance(1, 8) {
					after = ""
				}
				contents := before + prefix + c + after
				start, n := int64(len(before)+len(prefix)), int64(len(c))
				exp := guard(func() string {
					log := logger.NewDeferLog(logger.DeferLogNoVerboseOrDebug, nil)
					tree, ok := js_parser.Parse(log, logger.Source{Index: 0, KeyPath: logger.Path{Text: "a.js"}, Contents: contents},
						js_parser.OptionsFromConfig(&config.Options{}))
					if !ok {
						return "PARSE-FAILED"
					}
					for _, p := range tree.Parts {
						for _, s := range p.Stmts {
							if sc, ok := s.Data.(*js_ast.SComment); ok && sc.IsLegalComment && int64(s.Loc.Start) == start {
								return hexBytes([]byte(sc.Text))
							}
						}
					}
					return "NO-COMMENT"
				})
				e.stat("js")
				g.classify(contents, start, n, exp)
				e.emitW(fmt.Sprintf("commentindent\tjs\t%s\t%d\t%d", hexBytes([]byte(contents)), start, n), exp,
					"c16-fuzz", ciWitness("js", contents, []string{"default", "mw", "ms"}[r.Intn(3)]))
			default: // a style sheet; the text comes out of the lexer
				before := ""
				for i, n := 0, r.Intn(3); i < n; i++ {
					before += fmt.Sprintf(".c%d { content: \"%s\" }%s", i, g.r.Pick(ciMulti), []string{"\n", "\r\n", "\r", "\f"}[r.Intn(4)])
				}
				prefix := ""
				switch r.Intn(3) {
				case 0:
					prefix = g.ws(r.Intn(13), r.Intn(3))
				case 1:
					prefix = g.ws(r.Intn(4), 0) + ".p { content: \"" + g.r.Pick(ciMulti) + "\" } "
				}
				indent := len([]rune(prefix))
				c := g.comment(indent, r.Intn(3), r.Chance(2, 3), false, true)
				after := "\n.z { color: red }\n"
				if r.Chance(1, 8) {
					after = ""
				}
				contents := before + prefix + c + after
				start, n := int64(len(before)+len(prefix)), int64(len(c))
				exp := guard(func() string {
					log := logger.NewDeferLog(logger.DeferLogNoVerboseOrDebug, nil)
					res := css_lexer.Tokenize(log, logger.Source{Index: 0, KeyPath: logger.Path{Text: "a.css"}, Contents: contents}, css_lexer.Options{})
					for _, lc := range res.LegalComments {
						if int64(lc.Loc.Start) == start {
							return hexBytes([]byte(lc.Text))
						}
					}
					return "NO-COMMENT"
				})
				e.stat("css")
				g.classify(contents, start, n, exp)
				e.emitW(fmt.Sprintf("commentindent\tcss\t%s\t%d\t%d", hexBytes([]byte(contents)), start, n), exp,
					"c16-fuzz", ciWitness("css", contents, "default"))
			}
		}
	}
}
