package main

// Kernel jsxtext: JSX text children and JSX attribute strings through the REAL lexer and parser.
//
// Every operation is one source file `<a b=Q ATTR Q>TEXT TERM` parsed by js_parser (first pass only, JSX enabled, plain
// JS so that `}` and `>` inside text are warnings). The attribute value and the first child (when it is a string) are read
// back from the EJSXElement node. Modelled Go code: js_lexer.NextJSXElementChild (text token), NextInsideJSXElement
// (string literal case), fixWhitespaceAndDecodeJSXEntities, decodeJSXEntities, the jsxEntity table, and the
// `len(str) > 0` test in js_parser.parseJSXElement.
//
// Op:        jsxtext \t <quote code> \t <hex of the source bytes after the opening quote>
// Expected:  A:<utf-16 hex of the attribute value> C:<utf-16 hex of the first child | none>   (ERR = the parser rejected)

import (
	"fmt"
	"strings"

	"github.com/evanw/esbuild/internal/config"
	"github.com/evanw/esbuild/internal/js_ast"
	"github.com/evanw/esbuild/internal/js_parser"
	"github.com/evanw/esbuild/internal/logger"
	"github.com/evanw/esbuild/verifharness/gen"
)

var jsxtextNewlines = []string{"\n", "\n", "\n", "\r", "\r\n", "\u2028", "\u2029"}
var jsxtextPlainWS = []string{" ", " ", " ", "\t", "\t", "  ", " \t "}

// white space of js_ast.IsWhitespace beyond space/tab, plus two that TypeScript trims and esbuild does not (U+0085, U+200B)
var jsxtextExoticWS = []string{"\u00a0", "\ufeff", "\u000b", "\u000c", "\u1680", "\u2000", "\u2003", "\u200a", "\u202f",
	"\u205f", "\u3000", "\u0085", "\u200b"}
var jsxtextWords = []string{"a", "b", "x y", "Hello", "z9", "}", ">", ";", "#", "&", "& ", "\\", "\\n", "'", "\"", "=", "/", "//c",
	"/*c*/", "é", "€", "\U0001F600", "\ufffd", "\u00ff", "-", "+", "_", "0", "amp;", "#65;", "x41;", "a;b"}
var jsxtextInvalidUTF8 = []string{"\xff", "\xc3", "\xe2\x82", "\xed\xa0\x80", "\xf4\x90\x80\x80", "\x80", "\xc0\xaf"}

var jsxtextNumbers = []uint64{0, 1, 9, 10, 32, 34, 38, 39, 59, 60, 65, 97, 127, 128, 160, 255, 256, 0x2028, 0xD7FF, 0xD800, 0xDBFF,
	0xDC00, 0xDFFF, 0xE000, 0xFEFF, 0xFFFD, 0xFFFE, 0xFFFF, 0x10000, 0x10001, 0x103FF, 0x10400, 0x1F600, 0x10FFFF, 0x110000,
	0x110001, 0x1FFFFF, 0x7FFFFFFF, 0x80000000, 0x80000001, 0xFFFFFFFF, 0x100000000, 0x100000041, 0x7FFFFFFFFFFFFFFF,
	0xFFFFFFFFFFFFFFFF}

func jsxtextNumber(r *gen.Rand) uint64 {
	switch r.Intn(4) {
	case 0:
		return uint64(r.Intn(0x250))
	case 1:
		return uint64(r.Intn(0x120000))
	default:
		return jsxtextNumbers[r.Intn(len(jsxtextNumbers))]
	}
}

// statistics label of a numeral: surrogate code points are emitted as lone surrogates, values above U+10FFFF and
// above uint32 are left as text
func jsxtextRangeClass(v uint64) string {
	switch {
	case v >= 0xD800 && v <= 0xDFFF:
		return ":surrogate"
	case v > 0xFFFFFFFF:
		return ":above-uint32"
	case v > 0x10FFFF:
		return ":above-10FFFF"
	case v > 0xFFFF:
		return ":astral"
	default:
		return ":bmp"
	}
}

// one entity-like piece; the second result names the form for the statistics
func jsxtextEntity(r *gen.Rand) (string, string) {
	switch r.Intn(16) {
	case 0, 1, 2:
		return "&" + jsxtextEntityNames[r.Intn(len(jsxtextEntityNames))] + ";", "ent-named"
	case 3:
		n := jsxtextEntityNames[r.Intn(len(jsxtextEntityNames))]
		switch r.Intn(5) {
		case 0:
			return "&" + strings.ToUpper(n) + ";", "ent-named-wrongcase"
		case 1:
			return "&" + n, "ent-named-nosemi"
		case 2:
			return "&" + n + " ;", "ent-named-space"
		case 3:
			return "& " + n + ";", "ent-named-space"
		default:
			return "&" + n + r.Pick([]string{"x", "1", "é", "&"}) + ";", "ent-unknown"
		}
	case 4:
		return "&" + r.Pick([]string{"foo", "x", "Amp", "nbsp2", "constructor", "toString", "__proto__", "hasOwnProperty", "é"}) + ";", "ent-unknown"
	case 5, 6:
		v := jsxtextNumber(r)
		s := fmt.Sprintf("%d", v)
		if r.Chance(1, 5) {
			s = strings.Repeat("0", 1+r.Intn(12)) + s
		}
		return "&#" + s + ";", "ent-dec" + jsxtextRangeClass(v)
	case 7, 8:
		v := jsxtextNumber(r)
		s := fmt.Sprintf("%x", v)
		if r.Bool() {
			s = strings.ToUpper(s)
		}
		if r.Chance(1, 5) {
			s = strings.Repeat("0", 1+r.Intn(12)) + s
		}
		return "&#x" + s + ";", "ent-hex" + jsxtextRangeClass(v)
	case 9: // a sign (strconv.ParseInt would accept it, ParseUint and the JSX grammar do not)
		v := jsxtextNumber(r)
		sign := r.Pick([]string{"+", "-"})
		if r.Bool() {
			return fmt.Sprintf("&#%s%d;", sign, v), "ent-signed"
		}
		return fmt.Sprintf("&#x%s%x;", sign, v), "ent-signed"
	case 10: // malformed numeric forms
		return r.Pick([]string{"&#;", "&#x;", "&;", "&#X41;", "&#xg;", "&#x4g;", "&#1_0;", "&#x1_0;", "&# 65;", "&#65 ;", "&#0x41;",
			"&#x0x41;", "&#xx41;", "&#x 41;", "&#6a;", "&#٣;", "&#x４１;", "&#1e2;", "&#1.0;", "&#x-;", "&#+;", "&#-;", "&#x+;",
			"&#--1;", "&#+-1;", "&#x;41;", "&#65", "&#x41", "&#", "&#x", "&#é;", "&#xé;", "&#\xff;", "&#x\xc3;"}), "ent-malformed"
	case 11: // an entity inside what looks like an entity
		a, _ := jsxtextEntity(r)
		return "&" + r.Pick([]string{"a", "#", "#x", "am", ""}) + a, "ent-nested"
	case 12:
		return "&" + r.Pick([]string{"", " ", "&", "\n", "\t"}) + r.Pick([]string{"amp;", "#65;", ";", "lt;"}), "ent-broken-start"
	case 13: // entity-encoded white space and newlines: must not be trimmed
		return r.Pick([]string{"&#32;", "&#x20;", "&#9;", "&#10;", "&#13;", "&nbsp;", "&#xA0;", "&#x2028;", "&ensp;", "&thinsp;", "&#xfeff;"}), "ent-space"
	case 14: // the first `;` is far away
		a, _ := jsxtextEntity(r)
		return "&" + r.Pick([]string{"amp", "#65", "lt x", "a b c"}) + r.Pick([]string{" ", "\n", "\t", "x"}) + a, "ent-far-semi"
	default:
		return r.Pick([]string{"&amp;amp;", "&amp;#65;", "&#38;lt;", "&lt;&gt;", "&quot;&apos;", "&#x26;#x26;"}), "ent-double"
	}
}

func jsxtextSegment(r *gen.Rand, e *emitter, exotic bool) string {
	var b strings.Builder
	n := 1 + r.Intn(4)
	for i := 0; i < n; i++ {
		switch k := r.Intn(12); {
		case k < 4:
			b.WriteString(r.Pick(jsxtextWords))
		case k < 8:
			s, kind := jsxtextEntity(r)
			e.stat(kind)
			b.WriteString(s)
		case k < 10:
			b.WriteString(r.Pick(jsxtextPlainWS))
		case k == 10 && exotic:
			b.WriteString(r.Pick(jsxtextExoticWS))
		case k == 11 && exotic && r.Chance(1, 3):
			e.stat("invalid-utf8")
			b.WriteString(r.Pick(jsxtextInvalidUTF8))
		default:
			b.WriteString(r.Pick(jsxtextWords))
		}
	}
	return b.String()
}

func jsxtextWS(r *gen.Rand, exotic bool) string {
	var b strings.Builder
	for n := r.Intn(4); n > 0; n-- {
		if exotic && r.Chance(1, 4) {
			b.WriteString(r.Pick(jsxtextExoticWS))
		} else {
			b.WriteString(r.Pick(jsxtextPlainWS))
		}
	}
	return b.String()
}

// TEXT: never contains `{` or `<`
func jsxtextText(r *gen.Rand, e *emitter) string {
	switch k := r.Intn(20); {
	case k == 0:
		e.stat("text:empty")
		return ""
	case k == 1: // white space only, no newline
		e.stat("text:ws-only-no-newline")
		return r.Pick(jsxtextPlainWS) + jsxtextWS(r, r.Chance(1, 3))
	case k == 2: // white space only with newlines
		e.stat("text:ws-only-with-newline")
		s := jsxtextWS(r, r.Chance(1, 3))
		for n := 1 + r.Intn(3); n > 0; n-- {
			s += r.Pick(jsxtextNewlines) + jsxtextWS(r, r.Chance(1, 3))
		}
		return s
	case k == 3: // plain ASCII single line: the fast path
		e.stat("text:fast-path-candidate")
		var b strings.Builder
		for n := 1 + r.Intn(5); n > 0; n-- {
			b.WriteString(r.Pick([]string{"a", "b c", " ", "\t", "}", ">", ";", "#65;", "\\", "'", "\"", "x  y", "amp;", "/", "="}))
		}
		return b.String()
	case k == 4: // a short stream over a hostile alphabet
		e.stat("text:malformed-stream")
		alpha := []string{"&", "&", "#", "#", "x", ";", ";", "0", "1", "9", "a", "f", "g", "A", "+", "-", " ", "\t", "\n", "\r", " ", " ",
			"amp", "lt", "nbsp", "X", "_", "\xff", "\xc3", "é", "\U0001F600", ">", "}", "4", "1"}
		var b strings.Builder
		for n := r.Intn(14); n > 0; n-- {
			b.WriteString(r.Pick(alpha))
		}
		return b.String()
	case k < 9: // single line with entities
		e.stat("text:single-line")
		exotic := r.Chance(1, 3)
		return jsxtextWS(r, exotic) + jsxtextSegment(r, e, exotic) + jsxtextWS(r, exotic)
	default: // several lines with indentation
		e.stat("text:multi-line")
		exotic := r.Chance(1, 3)
		var b strings.Builder
		lines := 2 + r.Intn(4)
		for i := 0; i < lines; i++ {
			if i > 0 {
				nl := r.Pick(jsxtextNewlines)
				e.stat(fmt.Sprintf("newline:%q", nl))
				b.WriteString(nl)
			}
			b.WriteString(jsxtextWS(r, exotic))
			if !r.Chance(1, 4) {
				b.WriteString(jsxtextSegment(r, e, exotic))
				b.WriteString(jsxtextWS(r, exotic))
			} else {
				e.stat("line:blank")
			}
		}
		return b.String()
	}
}

// ATTR: never contains its own quote
func jsxtextAttr(r *gen.Rand, e *emitter, quote byte) string {
	var s string
	switch k := r.Intn(10); {
	case k == 0:
		e.stat("attr:empty")
	case k < 3: // ASCII without `&`: the fast path
		e.stat("attr:fast-path-candidate")
		for n := 1 + r.Intn(5); n > 0; n-- {
			s += r.Pick([]string{"a", "b c", " ", "\t", "\n", "\r\n", "}", ">", "{", "<", ";", "#65;", "\\", "\\\\", "\\n", "\\u0041", "\\x41", "'", "\"", "amp;", "/", "="})
		}
	case k < 5:
		e.stat("attr:backslashes-and-newlines")
		for n := 1 + r.Intn(5); n > 0; n-- {
			s += r.Pick([]string{"\\", "\\n", "\\'", "\\\"", "\\&amp;", "\n", "\r", "\u2028", " \n  ", "\t", "x", "&#10;", "&amp;", "é", "{", "<"})
		}
	default:
		e.stat("attr:entities")
		exotic := r.Chance(1, 3)
		s = jsxtextWS(r, exotic) + jsxtextSegment(r, e, exotic)
		if r.Chance(1, 3) {
			s += r.Pick(jsxtextNewlines) + jsxtextWS(r, exotic) + jsxtextSegment(r, e, exotic)
		}
		s += jsxtextWS(r, exotic)
	}
	other := "'"
	if quote == '\'' {
		other = "\""
	}
	return strings.ReplaceAll(s, string(rune(quote)), other)
}

// jsxtextReal parses `src` with the real parser (first pass) and reads the element back
func jsxtextReal(src string) string {
	source := logger.Source{Contents: src, KeyPath: logger.Path{Text: "/x.jsx", Namespace: "file"},
		PrettyPaths: logger.PrettyPaths{Abs: "/x.jsx", Rel: "x.jsx"}}
	opts := js_parser.OptionsFromConfig(&config.Options{JSX: config.JSXOptions{Parse: true}})
	log := logger.NewDeferLog(logger.DeferLogAll, nil)
	stmts, _, ok := js_parser.VerifParseNoVisit(log, source, opts)
	if !ok || log.HasErrors() || len(stmts) != 1 {
		return "ERR"
	}
	se, ok := stmts[0].Data.(*js_ast.SExpr)
	if !ok {
		return "ERR"
	}
	el, ok := se.Value.Data.(*js_ast.EJSXElement)
	if !ok || len(el.Properties) != 1 {
		return "ERR"
	}
	attr, ok := el.Properties[0].ValueOrNil.Data.(*js_ast.EString)
	if !ok {
		return "ERR"
	}
	child := "none"
	if len(el.NullableChildren) > 0 {
		if s, ok := el.NullableChildren[0].Data.(*js_ast.EString); ok {
			child = hexU16(s.Value)
		}
	}
	return "A:" + hexU16(attr.Value) + " C:" + child
}

func init() {
	kernels["jsxtext"] = func(r *gen.Rand, e *emitter, tier string) {
		terms := []string{"</a>", "</a>", "</a>", "{0}</a>", "<b/></a>", "{}</a>", "{x}y</a>", "<b>&amp;</b>z</a>", "{/*c*/}</a>"}
		for !e.full() {
			quote := byte('"')
			if r.Bool() {
				quote = '\''
			}
			attr := jsxtextAttr(r, e, quote)
			text := jsxtextText(r, e)
			term := r.Pick(terms)
			after := attr + string(rune(quote)) + ">" + text + term
			if r.Chance(1, 60) { // the file ends inside the attribute string / right after the opening tag
				if r.Bool() {
					e.stat("truncated:in-attribute")
					after = attr
				} else {
					e.stat("truncated:after-tag")
					after = attr + string(rune(quote)) + ">"
				}
				text = ""
			}
			src := "<a b=" + string(rune(quote)) + after
			got := guard(func() string { return jsxtextReal(src) }) // a Go panic becomes the line PANIC
			// statistics on what the real code did
			switch {
			case got == "ERR":
				e.stat("result:ERR")
			case strings.HasSuffix(got, "C:none"):
				e.stat("result:child-dropped-or-absent")
			default:
				e.stat("result:child-string")
			}
			if strings.ContainsAny(text, "&\r\n") || !jsxtextASCII(text) {
				e.stat("path:text-slow")
			} else if text != "" {
				e.stat("path:text-fast")
			}
			if strings.Contains(attr, "&") || !jsxtextASCII(attr) {
				e.stat("path:attr-slow")
			} else {
				e.stat("path:attr-fast")
			}
			e.emit(fmt.Sprintf("jsxtext\t%d\t%s", quote, hexBytes([]byte(after))), got)
		}
	}
}

func jsxtextASCII(s string) bool {
	for i := 0; i < len(s); i++ {
		if s[i] >= 0x80 {
			return false
		}
	}
	return true
}
