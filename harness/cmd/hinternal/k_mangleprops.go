package main

import (
	"fmt"
	"sort"
	"strings"

	"github.com/evanw/esbuild/internal/ast"
	"github.com/evanw/esbuild/internal/js_lexer"
	"github.com/evanw/esbuild/internal/linker"
	"github.com/evanw/esbuild/verifharness/gen"
)

// kernel "mangleprops": the real linker.mangleProps (through the verif export VerifMangleProps) on hand-built
// links — reachable files with MangledProps / ReservedProps / CharFreq tables, a symbol table, stable source
// indices and a mangle cache — against the Lean model (Impl/MangleProps.lean).
//
// The Go side iterates its maps in Go's random order, the model in the order of the operation line, so every
// agreement is also a test that the result does not depend on map iteration order.
//
// Compared: the mangledProps table (per symbol), the name the printer would print for every symbol
// (FollowSymbols + table + original name), the cache after the call (size and the value of every key of
// interest), and link / use count / name / pinned flag of every symbol after the call.

type mpSym struct {
	name   string
	link   ast.Ref
	count  uint32
	pinned bool
}

type mpFile struct {
	src      uint32
	isJS     bool
	reserved []string
	mangled  [][2]interface{} // name, ast.Ref (in the order written to the op line)
	freq     *ast.CharFreq
}

type mpCase struct {
	syms     [][]mpSym
	stable   []uint32
	cache    [][2]interface{} // key, value (false | string | other); nil slice + cacheNil = nil map
	cacheNil bool
	files    []mpFile
	keys     []string
}

func mpRef(r ast.Ref) string { return fmt.Sprintf("%d.%d", r.SourceIndex, r.InnerIndex) }

func mpJoin(xs []string, sep string) string {
	if len(xs) == 0 {
		return "-"
	}
	return strings.Join(xs, sep)
}

func (c *mpCase) opLine() string {
	rows := []string{}
	for _, row := range c.syms {
		ss := []string{}
		for _, s := range row {
			l := "-"
			if s.link != ast.InvalidRef {
				l = mpRef(s.link)
			}
			p := 0
			if s.pinned {
				p = 1
			}
			ss = append(ss, fmt.Sprintf("%s:%s:%d:%d", s.name, l, s.count, p))
		}
		rows = append(rows, strings.Join(ss, ","))
	}
	st := []string{}
	for _, x := range c.stable {
		st = append(st, fmt.Sprint(x))
	}
	cache := "nil"
	if !c.cacheNil {
		cs := []string{}
		for _, kv := range c.cache {
			switch v := kv[1].(type) {
			case string:
				cs = append(cs, kv[0].(string)+"=S"+v)
			case bool:
				if !v {
					cs = append(cs, kv[0].(string)+"=F")
				} else {
					cs = append(cs, kv[0].(string)+"=O")
				}
			default:
				cs = append(cs, kv[0].(string)+"=O")
			}
		}
		cache = mpJoin(cs, ",")
	}
	fs := []string{}
	for _, f := range c.files {
		mg := []string{}
		for _, e := range f.mangled {
			mg = append(mg, e[0].(string)+":"+mpRef(e[1].(ast.Ref)))
		}
		fr := "-"
		if f.freq != nil {
			xs := []string{}
			for _, x := range f.freq {
				xs = append(xs, fmt.Sprint(x))
			}
			fr = strings.Join(xs, ",")
		}
		js := 0
		if f.isJS {
			js = 1
		}
		fs = append(fs, fmt.Sprintf("%d|%d|%s|%s|%s", f.src, js, mpJoin(f.reserved, ","), mpJoin(mg, ","), fr))
	}
	rowsS := "-"
	if len(rows) > 0 {
		rowsS = strings.Join(rows, ";")
	}
	return fmt.Sprintf("mangleprops\trun\t%s\t%s\t%s\t%s\t%s", rowsS, mpJoin(st, ","), cache, mpJoin(fs, ";"), mpJoin(c.keys, ","))
}

// run executes the real routine and renders the result like the model's showOutput
func (c *mpCase) run() string {
	return guard(func() string {
		symbols := ast.NewSymbolMap(len(c.syms))
		for i, row := range c.syms {
			out := make([]ast.Symbol, len(row))
			for j, s := range row {
				out[j] = ast.Symbol{OriginalName: s.name, Link: s.link, UseCountEstimate: s.count, Kind: ast.SymbolMangledProp}
				if s.pinned {
					out[j].Flags |= ast.MustNotBeRenamed
				}
			}
			symbols.SymbolsForSource[i] = out
		}
		var cache map[string]interface{}
		if !c.cacheNil {
			cache = map[string]interface{}{}
			for _, kv := range c.cache {
				cache[kv[0].(string)] = kv[1]
			}
		}
		files := []linker.VerifMPFile{}
		built := map[uint32]*linker.VerifMPFile{}
		for _, f := range c.files {
			if prev, ok := built[f.src]; ok { // the same file listed twice
				files = append(files, *prev)
				continue
			}
			vf := linker.VerifMPFile{SourceIndex: f.src, IsJS: f.isJS, CharFreq: f.freq}
			if f.reserved != nil {
				vf.Reserved = map[string]bool{}
				for _, n := range f.reserved {
					vf.Reserved[n] = true
				}
			}
			if f.mangled != nil {
				vf.Mangled = map[string]ast.Ref{}
				for _, e := range f.mangled {
					vf.Mangled[e[0].(string)] = e[1].(ast.Ref)
				}
			}
			files = append(files, vf)
			built[f.src] = &files[len(files)-1]
		}
		mangled := linker.VerifMangleProps(len(c.syms), files, symbols, c.stable, cache)

		refs := []ast.Ref{}
		for i, row := range symbols.SymbolsForSource {
			for j := range row {
				refs = append(refs, ast.Ref{SourceIndex: uint32(i), InnerIndex: uint32(j)})
			}
		}
		m, s, p, cv := []string{}, []string{}, []string{}, []string{}
		for _, ref := range refs {
			if n, ok := mangled[ref]; ok {
				m = append(m, n)
			} else {
				m = append(m, "~")
			}
			sym := symbols.Get(ref)
			l := "-"
			if sym.Link != ast.InvalidRef {
				l = mpRef(sym.Link)
			}
			pin := 0
			if sym.Flags.Has(ast.MustNotBeRenamed) {
				pin = 1
			}
			s = append(s, fmt.Sprintf("%s:%s:%d:%d", sym.OriginalName, l, sym.UseCountEstimate, pin))
		}
		for _, ref := range refs { // js_printer.mangledPropName (after the dump: FollowSymbols compresses paths)
			ref := ref
			p = append(p, guard(func() string {
				root := ast.FollowSymbols(symbols, ref)
				if n, ok := mangled[root]; ok {
					return n
				}
				return symbols.Get(root).OriginalName
			}))
		}
		cs := "nil:"
		if cache != nil {
			for _, k := range c.keys {
				switch v := cache[k].(type) {
				case nil:
					cv = append(cv, "~")
				case string:
					cv = append(cv, "S"+v)
				case bool:
					if !v {
						cv = append(cv, "F")
					} else {
						cv = append(cv, "O")
					}
				default:
					cv = append(cv, "O")
				}
			}
			cs = fmt.Sprintf("%d:%s", len(cache), strings.Join(cv, ","))
		}
		for i := range p {
			if p[i] == "PANIC" {
				p[i] = "!"
			}
		}
		return fmt.Sprintf("M%d:%s|P:%s|C%s|S:%s", len(mangled), strings.Join(m, ","), strings.Join(p, ","), cs, strings.Join(s, ","))
	})
}

func mpKeywords() string {
	kw := []string{}
	for k := range js_lexer.Keywords {
		kw = append(kw, k)
	}
	sort.Strings(kw)
	return strings.Join(kw, ",")
}

var _ = gen.New
