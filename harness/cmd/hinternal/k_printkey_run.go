package main

import (
	"fmt"
	"math"
	"sort"
	"strconv"
	"strings"

	"github.com/evanw/esbuild/internal/helpers"
	"github.com/evanw/esbuild/internal/js_ast"
	"github.com/evanw/esbuild/internal/js_lexer"
	"github.com/evanw/esbuild/verifharness/gen"
)

// ---- end-to-end witnesses: a source program whose object literal / class has (about) the members of the operation and
// that prints the own keys, the kind of every descriptor and the prototype

func pkJSString(u []uint16) string {
	var b strings.Builder
	b.WriteByte('"')
	for _, c := range u {
		if c >= 0x20 && c < 0x7f && c != '"' && c != '\\' {
			b.WriteByte(byte(c))
		} else {
			fmt.Fprintf(&b, "\\u%04X", c)
		}
	}
	b.WriteByte('"')
	return b.String()
}

func pkIsPlainName(s string) bool {
	return s != "" && js_ast.IsIdentifier(s) && strings.IndexFunc(s, func(c rune) bool { return c > 0x7e }) < 0
}

func pkSourceKey(p pkProp) (string, bool) {
	comp := p.flags&1 != 0
	br := func(s string) string {
		if comp {
			return "[" + s + "]"
		}
		return s
	}
	switch p.key.kind {
	case 'S':
		name := helpers.UTF16ToString(p.key.units)
		if !comp && p.flags&8 == 0 && pkIsPlainName(name) {
			return name, true
		}
		return br(pkJSString(p.key.units)), true
	case 'N':
		v := p.key.num
		switch {
		case math.IsNaN(v):
			return "[0/0]", comp
		case math.IsInf(v, 1):
			if comp {
				return "[1/0]", true
			}
			return "1e999", true
		case math.IsInf(v, -1):
			return "[-1/0]", comp
		case math.Signbit(v):
			return "[" + strconv.FormatFloat(v, 'g', -1, 64) + "]", comp
		}
		return br(strconv.FormatFloat(v, 'g', -1, 64)), true
	case 'B':
		return br(p.key.text + "n"), true
	case 'P':
		return p.key.text, !comp && pkIsPlainName(p.key.text[1:])
	case 'I':
		return "[" + p.key.text + "]", comp && pkIsPlainName(p.key.text)
	}
	return "", false
}

func pkSourceMember(p pkProp, class bool, names map[string]bool) (string, bool) {
	if p.kind == 'b' {
		return "static {}", true
	}
	if p.kind == 'x' {
		names[p.val.rawText()] = true
		return "..." + p.val.rawText(), p.val.kind == 'R'
	}
	key, ok := pkSourceKey(p)
	if !ok || p.kind == 'd' {
		return "", false
	}
	if p.key.kind == 'I' {
		names[p.key.text] = true
	}
	pre := ""
	if p.flags&2 != 0 {
		pre = "static "
	}
	init := ""
	if p.init != nil {
		init = " = " + p.init.rawText()
		names[p.init.rawText()] = true
	}
	switch p.kind {
	case 'g':
		return pre + "get " + key + "() {}", p.val.kind == 'F'
	case 's':
		return pre + "set " + key + "(v) {}", p.val.kind == 'F'
	case 'a':
		return "", false // Node 20 has no auto-accessors
	case 'm':
		if p.val.async {
			pre += "async "
		}
		if p.val.gen {
			pre += "*"
		}
		return pre + key + "() {}", p.val.kind == 'F'
	}
	if class {
		return pre + key + init + ";", p.val.kind == '-'
	}
	switch p.val.kind {
	case 'I':
		names[p.val.name] = true
		if p.flags&4 != 0 {
			return p.val.name, p.flags&1 == 0 && pkKeyName(p.key) == p.val.name && p.init == nil && pkIsPlainName(p.val.name)
		}
		return key + ": " + p.val.name, p.init == nil && pkIsPlainName(p.val.name)
	case 'R':
		names[p.val.rawText()] = true
		return key + ": " + p.val.rawText(), p.init == nil
	case 'F':
		fn := "function"
		if p.val.async {
			fn = "async function"
		}
		if p.val.gen {
			fn += "*"
		}
		return key + ": " + fn + "() {}", p.init == nil
	}
	return "", false
}

const pkDescribe = `function D(o) { var r = []; for (var k of Reflect.ownKeys(o)) { var d = Object.getOwnPropertyDescriptor(o, k);
r.push(String(k) + ":" + (d.get ? "g" : "") + (d.set ? "s" : "") + (typeof d.value == "function" ? Object.prototype.toString.call(d.value) + d.value.name : typeof d.value)); }
var pr = Object.getPrototypeOf(o); return r.join(",") + "|proto=" + (pr === Object.prototype ? "O" : pr === Function.prototype ? "F" : pr === null ? "null" : typeof pr); }
`

func pkWitness(ps []pkProp, class bool, o pkOpts) (map[string]string, bool) {
	names := map[string]bool{}
	members := []string{}
	for _, p := range ps {
		m, ok := pkSourceMember(p, class, names)
		if !ok {
			return nil, false
		}
		members = append(members, m)
	}
	decl := ""
	sorted := []string{}
	for n := range names {
		sorted = append(sorted, n)
	}
	sort.Strings(sorted)
	for _, n := range sorted {
		if _, isNum := strconv.Atoi(n); isNum == nil || n == "NaN" || n == "Infinity" || n == "undefined" {
			continue
		}
		if _, kw := js_lexer.Keywords[n]; kw || !pkIsPlainName(n) || n == "let" || n == "static" || n == "yield" || n == "await" {
			return nil, false // not declarable in every context: no witness
		}
		decl += "var " + n + " = {v: " + strconv.Quote(n) + "};\n"
	}
	body := ""
	if class {
		body = "var C = class {\n" + strings.Join(members, "\n") + "\n};\np(1, D(C)); p(2, D(C.prototype)); try { p(3, D(new C)); } catch (e) { p(3, \"E\"); }\n"
	} else {
		body = "var o = {" + strings.Join(members, ", ") + "};\np(1, D(o));\n"
	}
	if o.inWith {
		body = "with ({}) {\n" + body + "}\n"
	}
	opt := []string{}
	if o.ms {
		opt = append(opt, "ms")
	}
	if o.mw {
		opt = append(opt, "mw")
	}
	if o.ascii {
		opt = append(opt, "ascii")
	}
	if o.noObjExt {
		opt = append(opt, "sup:object-extensions=false")
	}
	if o.noUE {
		opt = append(opt, "sup:unicode-escapes=false")
	}
	if o.noTemplate {
		opt = append(opt, "sup:template-literal=false")
	}
	if len(opt) == 0 {
		opt = []string{"default"}
	}
	return map[string]string{"source": pkDescribe + decl + body, "opt_name": strings.Join(opt, ",")}, true
}

func init() {
	kernels["printkey"] = func(r *gen.Rand, e *emitter, tier string) {
		for !e.full() {
			o := pkOptsGen(r)
			class := r.Chance(2, 5)
			wild := r.Chance(1, 6)
			n := 1
			if r.Chance(1, 2) {
				n = r.Intn(5)
			}
			ps := make([]pkProp, n)
			for i := range ps {
				ps[i] = pkPropGen(r, e, class, wild)
				pkPropStats(e, ps[i], class, o)
			}
			indent := 0
			if o.inWith {
				indent = 1
			}
			var op, exp string
			if class {
				op = fmt.Sprintf("printkey\tcls\t%d\t%d\t%s", o.mask(), indent, pkWireProps(ps))
				exp = pkPrintClass(ps, o)
			} else {
				single := r.Bool()
				op = fmt.Sprintf("printkey\tobj\t%d\t%d\t%s\t%s", o.mask(), indent, identBit(single), pkWireProps(ps))
				exp = pkPrintObject(ps, single, o)
				e.stat(fmt.Sprintf("obj:single-line=%v:n=%d", single, n))
			}
			e.stat(fmt.Sprintf("opts:ms=%v:mw=%v", o.ms, o.mw))
			if o.ascii {
				e.stat(fmt.Sprintf("opts:ascii:noUE=%v", o.noUE))
			}
			if exp == "PANIC" {
				e.stat("out:PANIC")
			} else if strings.HasPrefix(exp, "SHAPE") {
				e.stat("out:SHAPE")
			}
			if r.Chance(1, 300) {
				// malformed stream: a damaged operation line must be answered with bad-op
				bad := []string{strings.Replace(op, ":", "", 1), op + "\textra", strings.Replace(op, "\tobj\t", "\tobject\t", 1) + "!",
					"printkey\tcls\t" + strconv.Itoa(o.mask()) + "\t0\tq:0:Sz:-:0", "printkey\tobj\t1\t0\t2\t-"}[r.Intn(5)]
				if bad != op {
					e.stat("malformed")
					e.emit(bad, "bad-op")
					continue
				}
			}
			if w, ok := pkWitness(ps, class, o); ok && !wild {
				e.stat("witness")
				e.emitW(op, exp, "c01-prog", w)
			} else {
				e.emit(op, exp)
			}
		}
	}
}

var _ = gen.New
