package main

// kernel "metaimports" (C19): the CONTENT of "imports" / "exports" / "entryPoint" / "cssBundle" of every output and
// of "imports" of every input of the metafile of a REAL build (api.Build, Metafile: true) of a generated project.
//
//	chunk : one operation per chunk. The model gets what the chunk generators read (verif hook ImportsDump:
//	        crossChunkImports, crossChunkPrefixStmts, the import records of the files of the chunk, export aliases,
//	        hasCSSChunk), the real path tables, and the print events = the imports found by RE-PARSING THE EMITTED
//	        FILE with esbuild's own parsers (js_parser / css_parser; calls of the runtime's __require shim are found
//	        by a scanner), each matched to a record. The model answers with the fields; they are compared with (a)
//	        the decoded metafile entry, (b) the exact text of the entry up to "inputs": {, and (c) the import paths
//	        and kinds of the re-parsed emitted code (the independent oracle). Exports of ESM outputs and the set of
//	        entry points are also checked against the emitted code / the generated project ("!…-oracle" marks).
//	input : one operation per input of the metafile: the import records as the GENERATOR wrote them (statement
//	        imports first, then require()/import() in source order = the parser's record order).
//	quote : helpers.QuoteForJSON on generated strings.

import (
	"encoding/json"
	"fmt"
	"os"
	"path/filepath"
	"regexp"
	"sort"
	"strconv"
	"strings"

	"github.com/evanw/esbuild/internal/ast"
	"github.com/evanw/esbuild/internal/config"
	"github.com/evanw/esbuild/internal/css_parser"
	"github.com/evanw/esbuild/internal/helpers"
	"github.com/evanw/esbuild/internal/js_parser"
	"github.com/evanw/esbuild/internal/linker"
	"github.com/evanw/esbuild/internal/logger"
	"github.com/evanw/esbuild/pkg/api"
	"github.com/evanw/esbuild/verifharness/gen"
)

type miImport struct {
	spec   string
	kind   ast.ImportKind
	target string // file of the project ("" = not resolved into the bundle: external, missing, unused)
	expr   bool   // require()/import(): recorded in the visit pass, after all statement imports
}

type miProject struct {
	files   map[string]string
	names   []string // sorted
	imports map[string][]miImport
	entries []string
	dynamic map[string]bool // targets of import()
	opts    api.BuildOptions
	tags    []string
}

func miRunes(s string) string {
	var sb strings.Builder
	for _, c := range []rune(s) {
		fmt.Fprintf(&sb, "%06x", c)
	}
	if sb.Len() == 0 {
		return "-"
	}
	return sb.String()
}

func miList(items []string) string {
	if len(items) == 0 {
		return "."
	}
	return strings.Join(items, " ")
}

func miRel(from, to string) string {
	x, _ := filepath.Rel(filepath.Dir(from), to)
	x = filepath.ToSlash(x)
	if !strings.HasPrefix(x, ".") {
		x = "./" + x
	}
	return x
}

func miGenProject(r *gen.Rand) *miProject {
	p := &miProject{files: map[string]string{}, imports: map[string][]miImport{}, dynamic: map[string]bool{}}
	tag := func(t string) { p.tags = append(p.tags, t) }
	nJS := 2 + r.Intn(5)
	nCSS := r.Intn(3)
	js := make([]string, nJS)
	for i := range js {
		switch {
		case r.Chance(1, 5):
			js[i] = fmt.Sprintf("t%d.ts", i)
		case r.Chance(1, 10):
			js[i] = fmt.Sprintf("dir/sub/m%d.js", i)
		case r.Chance(1, 14):
			js[i] = fmt.Sprintf("é%d ü.js", i)
			tag("name:non-ascii")
		default:
			js[i] = fmt.Sprintf("m%d.js", i)
		}
	}
	css := make([]string, nCSS)
	for i := range css {
		css[i] = []string{"s%d.css", "styles/ß%d.css"}[r.Intn(2)]
		css[i] = fmt.Sprintf(css[i], i)
	}
	p.files["img.png"] = "PNGDATA"
	p.files["big.png"] = strings.Repeat("P", 40)
	exts := []string{"ext-a", "ext-b", "ext-c", "@scope/ext-d/sub.js"}
	for i, name := range css {
		var sb strings.Builder
		add := func(m miImport) { p.imports[name] = append(p.imports[name], m) }
		if r.Chance(1, 3) {
			cond := []string{"", " screen", " layer(x)"}[r.Intn(3)]
			u := fmt.Sprintf("https://example.com/e%d.css", r.Intn(2))
			fmt.Fprintf(&sb, "@import %q%s;\n", u, cond)
			add(miImport{spec: u, kind: ast.ImportAt})
			tag("css:external-import")
		}
		for j := i + 1; j < nCSS; j++ {
			if r.Bool() {
				fmt.Fprintf(&sb, "@import %q;\n", miRel(name, css[j]))
				add(miImport{spec: miRel(name, css[j]), kind: ast.ImportAt, target: css[j]})
				tag("css:internal-import")
			}
		}
		for j := 0; j < 1+r.Intn(3); j++ {
			switch r.Intn(5) {
			case 0:
				a := []string{"img.png", "big.png"}[r.Intn(2)]
				fmt.Fprintf(&sb, ".c%dr%d { background: url(%s) }\n", i, j, miRel(name, a))
				add(miImport{spec: miRel(name, a), kind: ast.ImportURL, target: a})
				tag("css:url-asset")
			case 1:
				u := fmt.Sprintf("https://example.com/p%d.png", r.Intn(2))
				fmt.Fprintf(&sb, ".c%dr%d { background: url(%s) }\n", i, j, u)
				add(miImport{spec: u, kind: ast.ImportURL})
				tag("css:url-external")
			default:
				fmt.Fprintf(&sb, ".c%dr%d { color: red }\n", i, j)
			}
		}
		p.files[name] = sb.String()
	}
	for i, name := range js {
		var stmts, body strings.Builder
		isTS := strings.HasSuffix(name, ".ts")
		var st, ex []miImport
		for j := 0; j < 1+r.Intn(5); j++ {
			other := r.Intn(nJS)
			if !r.Chance(1, 6) && i+1 < nJS {
				other = i + 1 + r.Intn(nJS-i-1)
			}
			spec := miRel(name, js[other])
			e := exts[r.Intn(len(exts))]
			id := fmt.Sprintf("x%d_%d", i, j)
			switch k := r.Intn(20); {
			case k <= 1 && other != i:
				fmt.Fprintf(&stmts, "import { v%d as %s } from %s;\nconsole.log(%s);\n", other, id, jsStr(spec), id)
				st = append(st, miImport{spec: spec, kind: ast.ImportStmt, target: js[other]})
			case k == 2 && other != i:
				fmt.Fprintf(&stmts, "import %s;\n", jsStr(spec))
				st = append(st, miImport{spec: spec, kind: ast.ImportStmt, target: js[other]})
			case k <= 4 && other != i:
				fmt.Fprintf(&body, "import(%s).then(x => console.log(x));\n", jsStr(spec))
				ex = append(ex, miImport{spec: spec, kind: ast.ImportDynamic, target: js[other], expr: true})
				p.dynamic[js[other]] = true
				tag("js:dynamic-import-internal")
			case k == 5 && other != i:
				fmt.Fprintf(&body, "console.log(require(%s));\n", jsStr(spec))
				ex = append(ex, miImport{spec: spec, kind: ast.ImportRequire, target: js[other], expr: true})
				tag("js:require-internal")
			case k == 6:
				fmt.Fprintf(&stmts, "import { a as %s } from %s;\nconsole.log(%s);\n", id, jsStr(e), id)
				st = append(st, miImport{spec: e, kind: ast.ImportStmt})
				tag("js:import-external-used")
			case k == 7:
				fmt.Fprintf(&stmts, "import { a as %s } from %s;\n", id, jsStr(e))
				st = append(st, miImport{spec: e, kind: ast.ImportStmt})
				tag("js:import-external-unused")
			case k == 8:
				fmt.Fprintf(&stmts, "import %s;\n", jsStr(e))
				st = append(st, miImport{spec: e, kind: ast.ImportStmt})
				tag("js:import-external-bare")
			case k == 9:
				fmt.Fprintf(&body, "console.log(require(%s));\n", jsStr(e))
				ex = append(ex, miImport{spec: e, kind: ast.ImportRequire, expr: true})
				tag("js:require-external")
			case k == 10:
				fmt.Fprintf(&body, "import(%s).then(x => console.log(x));\n", jsStr(e))
				ex = append(ex, miImport{spec: e, kind: ast.ImportDynamic, expr: true})
				tag("js:dynamic-import-external")
			case k == 11:
				what := []string{"require", "import"}[r.Intn(2)]
				fmt.Fprintf(&body, "export function unused%s() { return %s(%s) }\n", id, what, jsStr(e))
				kind := ast.ImportRequire
				if what == "import" {
					kind = ast.ImportDynamic
				}
				ex = append(ex, miImport{spec: e, kind: kind, expr: true})
				tag("js:external-in-unused-function")
			case k == 12:
				fmt.Fprintf(&stmts, "export * from %s;\n", jsStr(e))
				st = append(st, miImport{spec: e, kind: ast.ImportStmt})
				tag("js:export-star-external")
			case k == 13:
				fmt.Fprintf(&stmts, "export { a as re%s } from %s;\n", id, jsStr(e))
				st = append(st, miImport{spec: e, kind: ast.ImportStmt})
				tag("js:reexport-external")
			case k == 14 && nCSS > 0:
				c := css[r.Intn(nCSS)]
				fmt.Fprintf(&stmts, "import %s;\n", jsStr(miRel(name, c)))
				st = append(st, miImport{spec: miRel(name, c), kind: ast.ImportStmt, target: c})
				tag("js:css-import")
			case k == 15 && isTS:
				fmt.Fprintf(&stmts, "import { T%s } from \"./types-%d\";\nlet y%s: T%s | undefined;\n", id, j, id, id)
				st = append(st, miImport{spec: fmt.Sprintf("./types-%d", j), kind: ast.ImportStmt})
				tag("ts:unused-type-import")
			case k == 16:
				fmt.Fprintf(&body, "try { require(\"./missing-%d\") } catch {}\n", j)
				ex = append(ex, miImport{spec: fmt.Sprintf("./missing-%d", j), kind: ast.ImportRequire, expr: true})
				tag("js:require-missing-in-try")
			case k == 17:
				fmt.Fprintf(&stmts, "import img%s from %s;\nconsole.log(img%s);\n", id, jsStr(miRel(name, "img.png")), id)
				st = append(st, miImport{spec: miRel(name, "img.png"), kind: ast.ImportStmt, target: "img.png"})
				tag("js:asset-import")
			default:
				fmt.Fprintf(&body, "console.log(\"m%ds%d\");\n", i, j)
			}
		}
		fmt.Fprintf(&body, "export const v%d = \"m%d\";\n", i, i)
		if r.Chance(1, 8) {
			fmt.Fprintf(&body, "export default %d;\n", i)
		}
		// statement imports are written first, so source order and record order coincide up to the split
		// statement / expression, which is what the parser does anyway
		p.files[name] = stmts.String() + body.String()
		p.imports[name] = append(st, ex...)
	}
	if r.Chance(1, 10) {
		// a CommonJS entry
		p.files["cjs.js"] = "exports.q = require(\"ext-a\");\n"
		p.imports["cjs.js"] = []miImport{{spec: "ext-a", kind: ast.ImportRequire, expr: true}}
		js = append(js, "cjs.js")
		tag("js:cjs-module")
	}
	for name := range p.files {
		p.names = append(p.names, name)
	}
	sort.Strings(p.names)
	seen := map[string]bool{}
	for k := 0; k < 1+r.Intn(3); k++ {
		name := js[0]
		if k > 0 {
			name = js[r.Intn(len(js))]
		}
		if nCSS > 0 && r.Chance(1, 6) {
			name = css[r.Intn(nCSS)]
			tag("entry:css")
		}
		if !seen[name] {
			seen[name] = true
			p.entries = append(p.entries, name)
		}
	}
	miGenOptions(r, p)
	return p
}

func miGenOptions(r *gen.Rand, p *miProject) {
	tag := func(t string) { p.tags = append(p.tags, t) }
	o := api.BuildOptions{
		Bundle: true, Metafile: true, Write: false, LogLevel: api.LogLevelSilent,
		Loader:   map[string]api.Loader{".png": api.LoaderFile},
		External: []string{"ext-a", "ext-b", "ext-c", "@scope/ext-d/*"},
	}
	if r.Chance(1, 8) {
		o.Bundle = false
		o.External = nil
		p.entries = p.entries[:1]
		tag("opt:no-bundle")
	}
	if r.Chance(1, 4) {
		o.Loader[".png"] = api.LoaderDataURL
		tag("opt:png-dataurl")
	}
	switch r.Intn(6) {
	case 0:
		o.Format = api.FormatCommonJS
		tag("opt:cjs")
	case 1:
		o.Format = api.FormatIIFE
		tag("opt:iife")
	case 2:
		tag("opt:format-default")
	default:
		o.Format = api.FormatESModule
		tag("opt:esm")
		if o.Bundle && r.Chance(2, 3) {
			o.Splitting = true
			tag("opt:splitting")
		}
	}
	if r.Chance(1, 4) {
		o.Platform = api.PlatformNode
		tag("opt:platform-node")
	}
	if r.Chance(1, 3) {
		switch r.Intn(4) {
		case 0:
			o.MinifyWhitespace = true
		case 1:
			o.MinifyWhitespace, o.MinifyIdentifiers, o.MinifySyntax = true, true, true
		case 2:
			o.MinifySyntax = true
		case 3:
			o.MinifyIdentifiers = true
		}
		tag("opt:minify")
	}
	if r.Chance(1, 4) {
		o.PublicPath = []string{"https://cdn.example/x/", "/static"}[r.Intn(2)]
		tag("opt:public-path")
	}
	if r.Chance(1, 3) {
		o.EntryNames = []string{"[dir]/[name]-[hash]", "entries/[name]", "[name]-[hash]"}[r.Intn(3)]
		o.ChunkNames = []string{"chunks/[name]-[hash]", "deep/er/[hash]"}[r.Intn(2)]
		o.AssetNames = []string{"assets/[name]-[hash]", "[hash]"}[r.Intn(2)]
		tag("opt:path-templates")
	}
	if r.Chance(1, 4) {
		o.Charset = api.CharsetUTF8
		tag("opt:charset-utf8")
	}
	if r.Chance(1, 10) {
		o.Outbase = "."
	}
	p.opts = o
}

// ---------------------------------------------------------------------------------------------------------
// re-parsing the emitted code

type miSeen struct {
	path string
	kind ast.ImportKind
	at   int
	key  string // kind 8 (file loader) only
}

var miCall = regexp.MustCompile(`(?:^|[^\w$.])([\w$]+)\(("(?:[^"\\]|\\.)*")\)`)

var miShimDef = regexp.MustCompile(`var ([\w$]+)\s*=\s*(?:/\* @__PURE__ \*/\s*)?\(\(?[\w$]+\)?\s*=>\s*typeof require`)

// miParseJS: the import records of the emitted file in textual order, plus the calls of the runtime's require shim
func miParseJS(text string, mode config.Mode) (seen []miSeen, exports []string, ok bool) {
	log := logger.NewDeferLog(logger.DeferLogNoVerboseOrDebug, nil)
	opts := js_parser.OptionsFromConfig(&config.Options{Mode: mode})
	tree, ok := js_parser.Parse(log, logger.Source{Index: 0, KeyPath: logger.Path{Text: "/out.js", Namespace: "file"},
		PrettyPaths: logger.PrettyPaths{Abs: "/out.js", Rel: "out.js"}, Contents: text}, opts)
	if !ok {
		return nil, nil, false
	}
	for _, rec := range tree.ImportRecords {
		if rec.Flags.Has(ast.IsUnused) && rec.Kind != ast.ImportStmt {
			continue
		}
		seen = append(seen, miSeen{path: rec.Path.Text, kind: rec.Kind, at: int(rec.Range.Loc.Start)})
	}
	// calls NAME("literal") where NAME is the require shim of the runtime: defined in this file, or (code splitting)
	// imported from the chunk that holds the runtime
	shims := map[string]bool{}
	if m := miShimDef.FindStringSubmatch(text); m != nil {
		shims[m[1]] = true
	}
	for ref := range tree.NamedImports {
		if int(ref.InnerIndex) < len(tree.Symbols) {
			shims[tree.Symbols[ref.InnerIndex].OriginalName] = true
		}
	}
	for _, loc := range miCall.FindAllStringSubmatchIndex(text, -1) {
		var path string
		if shims[text[loc[2]:loc[3]]] && json.Unmarshal([]byte(text[loc[4]:loc[5]]), &path) == nil {
			seen = append(seen, miSeen{path: path, kind: ast.ImportRequire, at: loc[4]})
		}
	}
	sort.SliceStable(seen, func(a, b int) bool { return seen[a].at < seen[b].at })
	for alias := range tree.NamedExports {
		exports = append(exports, alias)
	}
	sort.Strings(exports)
	return seen, exports, true
}

func miParseCSS(text string) (seen []miSeen) {
	log := logger.NewDeferLog(logger.DeferLogNoVerboseOrDebug, nil)
	tree := css_parser.Parse(log, logger.Source{Index: 0, KeyPath: logger.Path{Text: "/out.css", Namespace: "file"},
		PrettyPaths: logger.PrettyPaths{Abs: "/out.css", Rel: "out.css"}, Contents: text},
		css_parser.OptionsFromConfig(config.LoaderCSS, &config.Options{}))
	for _, rec := range tree.ImportRecords {
		seen = append(seen, miSeen{path: rec.Path.Text, kind: rec.Kind, at: int(rec.Range.Loc.Start)})
	}
	sort.SliceStable(seen, func(a, b int) bool { return seen[a].at < seen[b].at })
	return
}

// ---------------------------------------------------------------------------------------------------------
// one build

type miOutEntry struct {
	Imports []struct {
		Path     string `json:"path"`
		Kind     string `json:"kind"`
		External bool   `json:"external"`
	} `json:"imports"`
	Exports    *[]string `json:"exports"`
	EntryPoint *string   `json:"entryPoint"`
	CSSBundle  *string   `json:"cssBundle"`
}

type miMeta struct {
	Inputs  map[string]mfInEntry  `json:"inputs"`
	Outputs map[string]miOutEntry `json:"outputs"`
}

var miKindOfText = map[string]int{"entry-point": 0, "import-statement": 1, "require-call": 2, "dynamic-import": 3,
	"require-resolve": 4, "import-rule": 5, "composes-from": 6, "url-token": 7, "file-loader": 8}

func miB(b bool) string {
	if b {
		return "1"
	}
	return "0"
}

func miOptStr(s *string) string {
	if s == nil {
		return "~"
	}
	return miRunes(*s)
}

func miRunProject(r *gen.Rand, e *emitter, root string, serial int, p *miProject) {
	dir := filepath.Join(root, fmt.Sprintf("p%d", serial%8))
	os.RemoveAll(dir)
	for rel, c := range p.files {
		path := filepath.Join(dir, rel)
		os.MkdirAll(filepath.Dir(path), 0755)
		if err := os.WriteFile(path, []byte(c), 0644); err != nil {
			e.stat("build:cannot-write-file")
			return
		}
	}
	o := p.opts
	o.AbsWorkingDir = dir
	o.Outdir = filepath.Join(dir, "out")
	for _, en := range p.entries {
		o.EntryPoints = append(o.EntryPoints, filepath.Join(dir, en))
	}
	linker.VerifMetaCaptureStart()
	res := api.Build(o)
	ctxs := linker.VerifMetaCaptureTake()
	if len(res.Errors) > 0 {
		e.stat("build:error")
		if os.Getenv("VERIF_METAIMPORTS_DEBUG") != "" {
			fmt.Fprintf(os.Stderr, "build error: %s\n", res.Errors[0].Text)
		}
		return
	}
	var meta miMeta
	if err := json.Unmarshal([]byte(res.Metafile), &meta); err != nil {
		e.stat("build:metafile-not-json")
		e.emit("metaimports\tnot-json\t"+miRunes(err.Error()), "metafile is valid JSON")
		return
	}
	e.stat("build:ok")
	for _, t := range p.tags {
		e.stat(t)
	}
	outputs := map[string][]byte{}
	for _, f := range res.OutputFiles {
		outputs[f.Path] = f.Contents
	}
	rawEntries := map[string]string{}
	for _, m := range mfMembers(res.Metafile) {
		if m.key == "outputs" {
			for _, out := range mfMembers(m.raw) {
				rawEntries[out.key] = out.raw
			}
		}
	}
	first := true
	for _, h := range ctxs {
		d := h.Dump()
		mi := h.ImportsDump()
		for ci := range d.Chunks {
			if e.full() {
				return
			}
			mark := ""
			if first {
				mark = miEntryOracle(e, p, &meta, o.Splitting)
				first = false
			}
			mode := config.ModeBundle
			if !o.Bundle && o.Format == api.FormatDefault {
				mode = config.ModePassThrough // the parser does not look at require() then
			}
			miChunkOp(e, p, &d, &mi, ci, outputs, &meta, rawEntries, mark, mode)
		}
	}
	miInputOps(e, p, &meta, o.Bundle)
}

// the set of "entryPoint" values against the generated project
func miEntryOracle(e *emitter, p *miProject, meta *miMeta, splitting bool) string {
	have := map[string]bool{}
	for _, out := range meta.Outputs {
		if out.EntryPoint != nil {
			if have[*out.EntryPoint] {
				e.stat("ORACLE:entryPoint-twice")
				return ";!entry-oracle"
			}
			have[*out.EntryPoint] = true
		}
	}
	for _, en := range p.entries {
		if !have[en] {
			e.stat("ORACLE:entryPoint-missing")
			return ";!entry-oracle"
		}
		delete(have, en)
	}
	for other := range have {
		if !splitting || !p.dynamic[other] {
			e.stat("ORACLE:entryPoint-unexpected")
			return ";!entry-oracle"
		}
		e.stat("entry:dynamic-import-target")
	}
	return ""
}

func miChunkOp(e *emitter, p *miProject, d *linker.VerifMetaDump, mi *linker.VerifMIDump, ci int, outputs map[string][]byte,
	meta *miMeta, rawEntries map[string]string, mark string, mode config.Mode) {
	dc := &d.Chunks[ci]
	mc := &mi.Chunks[ci]
	outKey := d.ChunkJSON[ci]
	entry, ok := meta.Outputs[outKey]
	raw, ok2 := rawEntries[outKey]
	contents, ok3 := outputs[dc.AbsPath]
	if !ok || !ok2 || !ok3 {
		e.stat("chunk:skipped(no-entry-or-file)")
		return
	}

	// the tables: chunk keys, then asset keys
	type pair struct{ key, emit, json string }
	var table []pair
	var keys []string
	for i := range mi.Chunks {
		keys = append(keys, miRunes(mi.Chunks[i].UniqueKey))
		table = append(table, pair{mi.Chunks[i].UniqueKey, dc.ChunkPaths[i], d.ChunkJSON[i]})
	}
	for i := range dc.AssetPaths {
		if d.AssetJSON[i] != "" {
			table = append(table, pair{fmt.Sprintf("%sA%08d", d.Prefix, i), dc.AssetPaths[i], d.AssetJSON[i]})
		}
	}
	substEmit := func(s string) string {
		for _, t := range table {
			s = strings.ReplaceAll(s, t.key, t.emit)
		}
		return s
	}
	var emitT, jsonT []string
	for _, t := range table {
		emitT = append(emitT, miRunes(t.key)+":"+miRunes(t.emit))
		jsonT = append(jsonT, miRunes(t.key)+":"+miRunes(t.json))
	}

	// the independent oracle: the emitted file parsed again
	var seen []miSeen
	var xexports []string
	if mc.IsJS {
		var pok bool
		seen, xexports, pok = miParseJS(string(contents), mode)
		if !pok {
			e.stat("chunk:skipped(emitted-js-does-not-parse)")
			if dumpDir := os.Getenv("VERIF_METAIMPORTS_DUMP"); dumpDir != "" {
				os.WriteFile(filepath.Join(dumpDir, fmt.Sprintf("noparse%d.txt", e.n)), []byte(fmt.Sprintf("opts: %+v\n%s", p.opts, contents)), 0644)
			}
			return
		}
		e.stat("chunk:js")
	} else {
		seen = miParseCSS(string(contents))
		e.stat("chunk:css")
	}
	if mc.IsJS {
		// a file with the "file" loader: its code is the string literal of the path of the asset
		for k, key := range mc.FileKeys {
			if key == "" {
				continue
			}
			lit := string(helpers.QuoteForJSON(substEmit(key), d.ASCIIOnly))
			at := strings.Index(string(contents), lit)
			if at < 0 {
				e.stat("chunk:FILE-LOADER-FILE-WITHOUT-LITERAL")
				at = len(contents) + k
			}
			seen = append(seen, miSeen{path: substEmit(key), kind: 8, at: at, key: key})
		}
		sort.SliceStable(seen, func(a, b int) bool { return seen[a].at < seen[b].at })
	}
	var emitted []string
	for _, s := range seen {
		if s.kind == 8 {
			emitted = append(emitted, fmt.Sprintf("8:%s", miRunes(s.path)))
			e.stat("emitted:file-loader")
			continue
		}
		emitted = append(emitted, fmt.Sprintf("%d:%s", s.kind, miRunes(s.path)))
		e.stat("emitted:" + s.kind.StringForMetafile())
	}

	// print events: the imports behind the cross-chunk prefix, each matched to a record of the chunk
	nPrefix := 0
	for _, i := range mc.PrefixStmts {
		if i >= 0 {
			nPrefix++
		}
	}
	var prints []string
	if nPrefix > 0 {
		e.stat("chunk:cross-chunk-prefix")
	}
	for k, s := range seen {
		if k < nPrefix {
			continue
		}
		if s.kind == 8 {
			prints = append(prints, "F:"+miRunes(s.key))
			continue
		}
		best := -1
		for j, rec := range mc.Records {
			if rec.Internal || substEmit(rec.Path) != s.path {
				continue
			}
			if best < 0 || (ast.ImportKind(rec.Kind) == s.kind && ast.ImportKind(mc.Records[best].Kind) != s.kind) {
				best = j
			}
		}
		if best < 0 {
			e.stat("chunk:PRINT-WITHOUT-RECORD")
			best = 99999
		} else {
			rec := mc.Records[best]
			switch {
			case rec.HasKey && rec.NotExternal:
				e.stat("print:key-record(" + s.kind.StringForMetafile() + ")")
			case rec.NotExternal:
				e.stat("print:not-external-without-key")
			default:
				e.stat("print:external(" + s.kind.StringForMetafile() + ")")
			}
		}
		prints = append(prints, fmt.Sprintf("%d:%d", best, s.kind))
	}
	printed := map[int]bool{}
	for _, pr := range prints {
		if i, err := strconv.Atoi(strings.SplitN(pr, ":", 2)[0]); err == nil {
			printed[i] = true
		}
	}
	var recs []string
	for j, rec := range mc.Records {
		recs = append(recs, fmt.Sprintf("%s:%d:%s", miRunes(rec.Path), rec.Kind, miB(rec.NotExternal)))
		if !rec.Internal && !printed[j] {
			e.stat("record:external-but-not-printed")
		}
	}
	var cross, pre []string
	for _, x := range mc.Cross {
		cross = append(cross, fmt.Sprintf("%d:%d", x.Kind, x.Chunk))
		e.stat("cross:" + ast.ImportKind(x.Kind).StringForMetafile())
	}
	for _, i := range mc.PrefixStmts {
		if i >= 0 {
			pre = append(pre, strconv.Itoa(i))
		}
	}
	var aliases, toOther []string
	for _, a := range mc.Aliases {
		aliases = append(aliases, miRunes(a))
	}
	for _, a := range mc.ToOther {
		toOther = append(toOther, miRunes(a))
	}
	var pretty []string
	for _, s := range mi.Pretty {
		pretty = append(pretty, miRunes(s))
	}
	flags := 0
	for i, b := range []bool{mc.IsJS, mc.IsEntryPoint, mi.KeepESM, mc.WrapCJS, mc.EntryIsCSS, d.ASCIIOnly, d.MinifiedMetafile} {
		if b {
			flags |= 1 << i
		}
	}
	cssIdx := "~"
	if mc.HasCSS {
		cssIdx = strconv.Itoa(mc.CSSChunk)
		e.stat("chunk:has-css-bundle")
	}
	source := 0
	if mc.IsEntryPoint {
		source = mc.SourceIndex
		e.stat("chunk:entry")
		if mc.WrapCJS {
			e.stat("chunk:entry-wrap-cjs")
		}
	} else {
		e.stat("chunk:not-entry")
	}
	if mi.KeepESM {
		e.stat("chunk:keep-esm")
	}
	op := strings.Join([]string{"metaimports", "chunk", strconv.Itoa(flags), miList(keys), miList(pretty), miList(emitT), miList(jsonT),
		miList(cross), miList(pre), miList(recs), miList(prints), miList(aliases), miList(toOther), strconv.Itoa(source), cssIdx}, "\t")

	// expected: the decoded metafile entry, the re-parsed code, the raw text
	var imps []string
	for _, im := range entry.Imports {
		k, okk := miKindOfText[im.Kind]
		if !okk {
			k = 99
		}
		imps = append(imps, fmt.Sprintf("%d:%s:%s", k, miB(im.External), miRunes(im.Path)))
	}
	exps := "~"
	if entry.Exports != nil {
		var l []string
		for _, a := range *entry.Exports {
			l = append(l, miRunes(a))
		}
		exps = miList(l)
		if len(l) > 0 {
			e.stat("chunk:exports-nonempty")
		}
	}
	head := ""
	for _, marker := range []string{"\n      \"inputs\": {", "\"inputs\":{"} {
		if i := strings.Index(raw, marker); i >= 0 {
			head = raw[:i+len(marker)]
			break
		}
	}
	if mc.IsJS && mi.KeepESM && entry.Exports != nil {
		if strings.Join(xexports, "\x00") != strings.Join(*entry.Exports, "\x00") {
			e.stat("ORACLE:exports-differ-from-emitted-code")
			mark += ";!exports-oracle"
			if os.Getenv("VERIF_METAIMPORTS_DEBUG") != "" {
				fmt.Fprintf(os.Stderr, "exports oracle: metafile %q emitted %q\n%s\n", *entry.Exports, xexports, contents)
			}
		} else {
			e.stat("oracle:exports-agree")
		}
	}
	if entry.CSSBundle != nil {
		if _, isOut := meta.Outputs[*entry.CSSBundle]; !isOut || !strings.HasSuffix(*entry.CSSBundle, ".css") {
			e.stat("ORACLE:cssBundle-is-not-an-output")
			mark += ";!css-oracle"
		}
	}
	if dumpDir := os.Getenv("VERIF_METAIMPORTS_DUMP"); dumpDir != "" {
		var sb strings.Builder
		fmt.Fprintf(&sb, "opts: %+v\nentries: %v\n", p.opts, p.entries)
		for _, n := range p.names {
			fmt.Fprintf(&sb, "=== %s\n%s\n", n, p.files[n])
		}
		fmt.Fprintf(&sb, "##### output %s\n%s\n##### entry\n%s\n", outKey, contents, raw)
		os.WriteFile(filepath.Join(dumpDir, fmt.Sprintf("op%d.txt", e.n)), []byte(sb.String()), 0644)
	}
	expected := fmt.Sprintf("imports=%s;emitted=%s;exports=%s;entry=%s;css=%s;head=%s%s", miList(imps), miList(emitted), exps,
		miOptStr(entry.EntryPoint), miOptStr(entry.CSSBundle), miRunes(head), mark)
	e.emit(op, expected)
}

func miInputOps(e *emitter, p *miProject, meta *miMeta, bundle bool) {
	index := map[string]int{}
	var pretty []string
	for i, n := range p.names {
		index[n] = i
		pretty = append(pretty, miRunes(n))
	}
	names := make([]string, 0, len(meta.Inputs))
	for n := range meta.Inputs {
		names = append(names, n)
	}
	sort.Strings(names)
	for _, n := range names {
		if e.full() {
			return
		}
		if _, known := p.files[n]; !known {
			e.stat("input:skipped(unknown-name)")
			continue
		}
		var recs []string
		for _, im := range p.imports[n] {
			t := "~"
			if im.target != "" {
				t = strconv.Itoa(index[im.target])
				e.stat("input-record:resolved")
			} else {
				e.stat("input-record:not-in-bundle")
			}
			recs = append(recs, fmt.Sprintf("%s:%d:%s", miRunes(im.spec), im.kind, t))
		}
		var got []string
		for _, im := range meta.Inputs[n].Imports {
			k, okk := miKindOfText[im.Kind]
			if !okk {
				k = 99
			}
			got = append(got, fmt.Sprintf("%d:%s:%s:%s", k, miB(im.External), miRunes(im.Path), miOptStr(im.Original)))
		}
		e.stat("input")
		e.emit(strings.Join([]string{"metaimports", "input", miB(bundle), miList(pretty), miList(recs)}, "\t"), miList(got))
	}
}

func miQuoteCase(r *gen.Rand, e *emitter) {
	n := r.Intn(12)
	rs := make([]rune, 0, n)
	for i := 0; i < n; i++ {
		switch r.Intn(8) {
		case 0:
			rs = append(rs, rune(r.Intn(0x20)))
		case 1:
			rs = append(rs, []rune{'"', '\\', '\'', 0x7F, 0x7E, 0xFEFF, 0x2028, 0xD7FF, 0xE000, 0xFFFF, 0x10000, 0x10FFFF, '/'}[r.Intn(13)])
		case 2:
			rs = append(rs, rune(0x80+r.Intn(0x780)))
		case 3:
			c := rune(0x800 + r.Intn(0xF800))
			if c >= 0xD800 && c <= 0xDFFF {
				c = 0xFFFD
			}
			rs = append(rs, c)
		case 4:
			rs = append(rs, rune(0x10000+r.Intn(0x100000)))
		default:
			rs = append(rs, rune(0x20+r.Intn(0x5F)))
		}
	}
	asciiOnly := r.Bool()
	out := helpers.QuoteForJSON(string(rs), asciiOnly)
	e.stat("quote")
	e.emit("metaimports\tquote\t"+miB(asciiOnly)+"\t"+miRunes(string(rs)), miRunes(string(out)))
}

func init() {
	kernels["metaimports"] = func(r *gen.Rand, e *emitter, tier string) {
		root, err := os.MkdirTemp("", "verif-metaimports-")
		if err != nil {
			panic(err)
		}
		defer os.RemoveAll(root)
		serial := 0
		for !e.full() {
			switch k := r.Intn(40); {
			case k < 6:
				miQuoteCase(r, e)
			case k == 6 && r.Chance(1, 4):
				e.stat("malformed")
				e.emit([]string{"metaimports\tchunk\t1", "metaimports\tinput\t1\t.\tzz:1:~", "metaimports\tquote\t1\t12345", "metaimports\tnope",
					"metaimports\tinput\t1\t.\t00002e:9:~", "metaimports\tchunk\tx\t.\t.\t.\t.\t.\t.\t.\t.\t.\t.\t0\t~"}[r.Intn(6)], "bad-op")
			default:
				serial++
				miRunProject(r, e, root, serial, miGenProject(r.Fork()))
			}
		}
	}
}
