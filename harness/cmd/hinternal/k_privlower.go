package main

import (
	"fmt"
	"strings"

	"github.com/evanw/esbuild/internal/compat"
	"github.com/evanw/esbuild/internal/config"
	"github.com/evanw/esbuild/internal/helpers"
	"github.com/evanw/esbuild/internal/js_ast"
	"github.com/evanw/esbuild/internal/js_parser"
	"github.com/evanw/esbuild/internal/logger"
	"github.com/evanw/esbuild/pkg/api"
	"github.com/evanw/esbuild/verifharness/gen"
)

// kernel "privlower": generated class programs (k_privlower_gen.go) are parsed and lowered by the REAL parser with
// the features of target es2021 (class fields, private names, `#x in`, static fields unsupported); the lowered
// AST is printed as a canonical summary per class — constructor prologue, constructor body, statements after the
// class, lowered function bodies — in which every generated symbol is named by WHAT esbuild initializes it with
// (`(wm c n)`: the WeakMap assigned after class c for `#n`, `(ws c i|s)`, `(fn c i)`) and temporaries are
// renumbered by first appearance, and compared with the summary of the Lean model's lowering (Impl/PrivLower.lean).
// One operation compares the text of the run-time helpers esbuild emits with the text the model's helper
// semantics were transcribed from. A share of the stream is malformed wire text ("bad-op").

func plPerm(r *gen.Rand, n int) []int {
	p := make([]int, n)
	for i := range p {
		p[i] = i
	}
	for i := n - 1; i > 0; i-- {
		j := r.Intn(i + 1)
		p[i], p[j] = p[j], p[i]
	}
	return p
}

type plClassOut struct {
	class *js_ast.Class
	decls []js_ast.Expr // `_x = new WeakMap()` …
	post  []js_ast.Expr // __privateAdd / __publicField after the class
}

type plPrinter struct {
	ast     *js_ast.AST
	prog    *plProg
	classes []*plClassOut
	sym     map[uint32]string // generated symbols and class names
	temps   map[uint32]int
	bad     bool
}

func (p *plPrinter) follow(ref uint32) uint32 {
	for i := 0; i < 100; i++ {
		l := p.ast.Symbols[ref].Link
		if l.InnerIndex == ref || l.InnerIndex >= uint32(len(p.ast.Symbols)) || l.SourceIndex == ^uint32(0) {
			break
		}
		ref = l.InnerIndex
	}
	return ref
}

func (p *plPrinter) name(ref uint32) string { return p.ast.Symbols[p.follow(ref)].OriginalName }

func (p *plPrinter) getSym(ref uint32) (string, bool) {
	s, ok := p.sym[p.follow(ref)]
	return s, ok
}

func (p *plPrinter) setSym(ref uint32, s string) { p.sym[p.follow(ref)] = s }

func commaList(e js_ast.Expr, out []js_ast.Expr) []js_ast.Expr {
	if b, ok := e.Data.(*js_ast.EBinary); ok && b.Op == js_ast.BinOpComma {
		return append(commaList(b.Left, out), commaList(b.Right, nil)...)
	}
	return append(out, e)
}

// is this the comma expression esbuild makes of a lowered class expression: (_a = class …, …, _a)?
func asClassSeq(e js_ast.Expr) ([]js_ast.Expr, bool) {
	if an, ok := e.Data.(*js_ast.EAnnotation); ok {
		e = an.Value
	}
	items := commaList(e, nil)
	if len(items) >= 2 {
		if b, ok := items[0].Data.(*js_ast.EBinary); ok && b.Op == js_ast.BinOpAssign {
			if _, ok := b.Right.Data.(*js_ast.EClass); ok {
				return items, true
			}
		}
	}
	return nil, false
}

func (p *plPrinter) helperCall(e js_ast.Expr) (string, []js_ast.Expr, bool) {
	if c, ok := e.Data.(*js_ast.ECall); ok {
		if id, ok := c.Target.Data.(*js_ast.EIdentifier); ok {
			n := p.name(id.Ref.InnerIndex)
			if strings.HasPrefix(n, "__") {
				return n, c.Args, true
			}
		}
	}
	return "", nil, false
}

// pass 1: classes in order of appearance, with the statements esbuild put after each
func (p *plPrinter) addClass(cl *js_ast.Class, refs []uint32, following []js_ast.Expr) {
	c := len(p.classes)
	out := &plClassOut{class: cl}
	p.classes = append(p.classes, out)
	for _, r := range refs {
		p.setSym(r, fmt.Sprintf("(K %d)", c))
	}
	if cl.Name != nil {
		p.setSym(cl.Name.Ref.InnerIndex, fmt.Sprintf("(K %d)", c))
	}
	var gcl *plClass
	if c < len(p.prog.classes) {
		gcl = p.prog.classes[c]
	}
	for _, e := range following {
		if b, ok := e.Data.(*js_ast.EBinary); ok && b.Op == js_ast.BinOpAssign {
			if id, ok := b.Left.Data.(*js_ast.EIdentifier); ok {
				nm := p.name(id.Ref.InnerIndex)
				switch r := b.Right.Data.(type) {
				case *js_ast.ENew:
					if t, ok := r.Target.Data.(*js_ast.EIdentifier); ok {
						switch p.name(t.Ref.InnerIndex) {
						case "WeakMap":
							p.setSym(id.Ref.InnerIndex, fmt.Sprintf("(wm %d %s)", c, strings.TrimPrefix(nm, "_n")))
							out.decls = append(out.decls, e)
							continue
						case "WeakSet":
							k := "?"
							if strings.HasSuffix(nm, "_instances") {
								k = "i"
							} else if strings.HasSuffix(nm, "_static") {
								k = "s"
							}
							p.setSym(id.Ref.InnerIndex, fmt.Sprintf("(ws %d %s)", c, k))
							out.decls = append(out.decls, e)
							continue
						}
					}
				case *js_ast.EFunction:
					idx := -1
					if gcl != nil {
						for i, m := range gcl.members {
							if m.fnName == nm {
								idx = i
							}
						}
					}
					p.setSym(id.Ref.InnerIndex, fmt.Sprintf("(fn %d %d)", c, idx))
					out.decls = append(out.decls, e)
					continue
				}
			}
		}
		out.post = append(out.post, e)
		p.scanNested(e)
	}
}

// nested class expressions inside the arguments of the statements after a class
func (p *plPrinter) scanNested(e js_ast.Expr) {
	if _, args, ok := p.helperCall(e); ok {
		for _, a := range args {
			if items, ok := asClassSeq(a); ok {
				b := items[0].Data.(*js_ast.EBinary)
				refs := []uint32{}
				if id, ok := b.Left.Data.(*js_ast.EIdentifier); ok {
					refs = append(refs, id.Ref.InnerIndex)
				}
				p.addClass(&b.Right.Data.(*js_ast.EClass).Class, refs, items[1:len(items)-1])
			} else if ec, ok := a.Data.(*js_ast.EClass); ok {
				p.addClass(&ec.Class, nil, nil)
			}
		}
	}
}

func (p *plPrinter) temp(ref uint32) int {
	if i, ok := p.temps[ref]; ok {
		return i
	}
	i := len(p.temps)
	p.temps[ref] = i
	return i
}

func (p *plPrinter) memArg(e js_ast.Expr) string {
	if id, ok := e.Data.(*js_ast.EIdentifier); ok {
		if s, ok := p.getSym(id.Ref.InnerIndex); ok {
			return s
		}
		return "(unknown-symbol " + p.name(id.Ref.InnerIndex) + ")"
	}
	if _, ok := e.Data.(*js_ast.ENull); ok {
		return "null"
	}
	return "(not-a-symbol)"
}

func (p *plPrinter) expr(e js_ast.Expr) string {
	switch x := e.Data.(type) {
	case *js_ast.EAnnotation:
		return p.expr(x.Value)
	case *js_ast.EIdentifier:
		if s, ok := p.getSym(x.Ref.InnerIndex); ok {
			return s
		}
		n := p.name(x.Ref.InnerIndex)
		if strings.HasPrefix(n, "_") {
			return fmt.Sprintf("(tmp %d)", p.temp(p.follow(x.Ref.InnerIndex)))
		}
		return n
	case *js_ast.EThis:
		return "this"
	case *js_ast.EUndefined:
		return "u"
	case *js_ast.ENull:
		return "null"
	case *js_ast.EBoolean:
		if x.Value {
			return "true"
		}
		return "false"
	case *js_ast.ENumber:
		return fmt.Sprintf("(num %d)", int(x.Value))
	case *js_ast.EString:
		return "(str " + helpers.UTF16ToString(x.Value) + ")"
	case *js_ast.ENew:
		if len(x.Args) == 1 {
			return "(new " + p.expr(x.Target) + " " + p.expr(x.Args[0]) + ")"
		}
	case *js_ast.EDot:
		return "(dot " + p.expr(x.Target) + " " + x.Name + ")"
	case *js_ast.EClass:
		return "(UNLOWERED-CLASS-EXPR)"
	case *js_ast.ETemplate:
		if x.TagOrNil.Data != nil && len(x.Parts) == 0 {
			return "(tag " + p.expr(x.TagOrNil) + " " + strings.TrimPrefix(x.HeadRaw, "s") + ")"
		}
	case *js_ast.EUnary:
		if x.Op == js_ast.UnOpVoid {
			return "u"
		}
		ops := map[js_ast.OpCode]string{js_ast.UnOpPreInc: "++pre", js_ast.UnOpPreDec: "--pre", js_ast.UnOpPostInc: "++post", js_ast.UnOpPostDec: "--post"}
		if s, ok := ops[x.Op]; ok {
			if d, ok := x.Value.Data.(*js_ast.EDot); ok && d.Name == "_" {
				return "(upd " + s + " " + p.expr(d.Target) + ")"
			}
		}
	case *js_ast.ECall:
		if name, args, ok := p.helperCall(e); ok {
			parts := []string{name}
			for i, a := range args {
				isSym := false
				switch name {
				case "__privateIn":
					isSym = i == 0
				case "__publicField":
					if i == 1 {
						if s, ok := a.Data.(*js_ast.EString); ok {
							parts = append(parts, helpers.UTF16ToString(s.Value))
							continue
						}
					}
				case "__privateGet", "__privateMethod", "__privateAdd":
					isSym = i == 1 || (i == 2 && name != "__privateAdd")
				case "__privateSet":
					isSym = i == 1 || i == 3
				case "__privateWrapper":
					isSym = i >= 1
				}
				if isSym {
					parts = append(parts, p.memArg(a))
				} else if items, ok := asClassSeq(a); ok {
					// the class was registered in pass 1: find it
					cl := &items[0].Data.(*js_ast.EBinary).Right.Data.(*js_ast.EClass).Class
					parts = append(parts, p.classExprName(cl))
				} else if ec, ok := a.Data.(*js_ast.EClass); ok {
					parts = append(parts, p.classExprName(&ec.Class))
				} else {
					parts = append(parts, p.expr(a))
				}
			}
			return "(" + strings.Join(parts, " ") + ")"
		}
		// strictly left to right, so that temporaries are numbered in source order
		target := ""
		if id, ok := x.Target.Data.(*js_ast.EIdentifier); ok && len(p.name(id.Ref.InnerIndex)) == 2 && p.name(id.Ref.InnerIndex)[0] == 'f' {
			target = p.name(id.Ref.InnerIndex)
		} else {
			target = p.expr(x.Target)
		}
		args := []string{}
		for _, a := range x.Args {
			args = append(args, p.expr(a))
		}
		return "(call " + target + " " + strings.Join(args, " ") + ")"
	case *js_ast.EBinary:
		switch x.Op {
		case js_ast.BinOpAssign:
			if id, ok := x.Left.Data.(*js_ast.EIdentifier); ok {
				n := p.name(id.Ref.InnerIndex)
				if _, known := p.getSym(id.Ref.InnerIndex); !known && strings.HasPrefix(n, "_") {
					i := p.temp(p.follow(id.Ref.InnerIndex))
					return fmt.Sprintf("(set %d %s)", i, p.expr(x.Right))
				}
				return "(= " + n + " " + p.expr(x.Right) + ")"
			}
		case js_ast.BinOpComma:
			l := p.expr(x.Left)
			return "(, " + l + " " + p.expr(x.Right) + ")"
		}
		ops := map[js_ast.OpCode]string{js_ast.BinOpAdd: "+", js_ast.BinOpSub: "-", js_ast.BinOpMul: "*",
			js_ast.BinOpLogicalOr: "||", js_ast.BinOpLogicalAnd: "&&", js_ast.BinOpNullishCoalescing: "??"}
		if s, ok := ops[x.Op]; ok {
			l := p.expr(x.Left)
			return "(" + s + " " + l + " " + p.expr(x.Right) + ")"
		}
	}
	p.bad = true
	return fmt.Sprintf("(OTHER %T)", e.Data)
}

func (p *plPrinter) classExprName(cl *js_ast.Class) string {
	for i, c := range p.classes {
		if c.class == cl {
			return fmt.Sprintf("(classexpr %d)", i)
		}
	}
	return "(classexpr ?)"
}

// the expression of a function body: `return E`, `E;`; declarations of temporaries and `super(…)` are skipped
func (p *plPrinter) bodyExprs(stmts []js_ast.Stmt) []js_ast.Expr {
	out := []js_ast.Expr{}
	for _, st := range stmts {
		switch s := st.Data.(type) {
		case *js_ast.SReturn:
			if s.ValueOrNil.Data != nil {
				out = append(out, s.ValueOrNil)
			}
		case *js_ast.SExpr:
			if c, ok := s.Value.Data.(*js_ast.ECall); ok {
				if _, ok := c.Target.Data.(*js_ast.ESuper); ok {
					continue
				}
			}
			out = append(out, s.Value)
		}
	}
	return out
}

func (p *plPrinter) body(e js_ast.Expr) string {
	p.temps = map[uint32]int{}
	return p.expr(e)
}

func (p *plPrinter) classSummary(c int) string {
	out := p.classes[c]
	cl := out.class
	stamp := 0
	if cl.ExtendsOrNil.Data != nil {
		stamp = 1
	}
	pro, body := []string{}, "-"
	fns := map[int]string{}
	var gcl *plClass
	if c < len(p.prog.classes) {
		gcl = p.prog.classes[c]
	}
	for _, prop := range cl.Properties {
		fn, ok := prop.ValueOrNil.Data.(*js_ast.EFunction)
		if !ok {
			continue
		}
		key := ""
		if s, ok := prop.Key.Data.(*js_ast.EString); ok {
			key = helpers.UTF16ToString(s.Value)
		}
		exprs := p.bodyExprs(fn.Fn.Body.Block.Stmts)
		if key == "constructor" {
			for _, e := range exprs {
				if name, _, ok := p.helperCall(e); ok && (name == "__privateAdd" || name == "__publicField") {
					pro = append(pro, p.body(e))
				} else {
					body = p.body(e)
				}
			}
		} else if strings.HasPrefix(key, "t") && gcl != nil {
			for i, m := range gcl.members {
				if strings.HasPrefix(m.wire, "sm "+key[1:]+" ") {
					if len(exprs) == 1 {
						fns[i] = p.body(exprs[0])
					} else if len(exprs) == 0 {
						fns[i] = "u"
					}
				}
			}
		}
	}
	for _, d := range out.decls {
		b := d.Data.(*js_ast.EBinary)
		if fn, ok := b.Right.Data.(*js_ast.EFunction); ok {
			s, _ := p.getSym(b.Left.Data.(*js_ast.EIdentifier).Ref.InnerIndex)
			var cc, idx int
			fmt.Sscanf(s, "(fn %d %d)", &cc, &idx)
			exprs := p.bodyExprs(fn.Fn.Body.Block.Stmts)
			if len(exprs) == 1 {
				fns[idx] = p.body(exprs[0])
			} else if len(exprs) == 0 {
				fns[idx] = "u"
			} else {
				fns[idx] = "(BODY?)"
			}
		}
	}
	if body == "-" && gcl != nil && gcl.ctorW != "-" {
		body = "u"
	}
	post := []string{}
	for _, e := range out.post {
		post = append(post, p.body(e))
	}
	fl := []string{}
	if gcl != nil {
		for i := range gcl.members {
			if s, ok := fns[i]; ok {
				fl = append(fl, fmt.Sprintf("(%d %s)", i, s))
			}
		}
	}
	return fmt.Sprintf("(class %d %d (pro %s) (body %s) (post %s) (fns %s))", c, stamp, strings.Join(pro, " "), body, strings.Join(post, " "), strings.Join(fl, " "))
}

func es2021Features() compat.JSFeature {
	return compat.UnsupportedJSFeatures(map[compat.Engine]compat.Semver{compat.ES: {Parts: []int{2021}}})
}

func privlowerReal(prog *plProg) string {
	return guard(func() string {
		log := logger.NewDeferLog(logger.DeferLogAll, nil)
		opts := js_parser.OptionsFromConfig(&config.Options{UnsupportedJSFeatures: es2021Features()})
		tree, ok := js_parser.Parse(log, logger.Source{Contents: prog.js(), KeyPath: logger.Path{Text: "/x.js", Namespace: "file"}, PrettyPaths: logger.PrettyPaths{Abs: "/x.js", Rel: "x.js"}}, opts)
		if !ok || log.HasErrors() {
			return "PARSE-ERROR"
		}
		p := &plPrinter{ast: &tree, prog: prog, sym: map[uint32]string{}}
		stmts := []js_ast.Stmt{}
		for _, part := range tree.Parts {
			stmts = append(stmts, part.Stmts...)
		}
		var main js_ast.Expr
		for i := 0; i < len(stmts); i++ {
			var cl *js_ast.Class
			refs := []uint32{}
			switch s := stmts[i].Data.(type) {
			case *js_ast.SClass:
				cl = &s.Class
			case *js_ast.SLocal:
				if len(s.Decls) == 1 && s.Decls[0].ValueOrNil.Data != nil {
					if ec, ok := s.Decls[0].ValueOrNil.Data.(*js_ast.EClass); ok {
						cl = &ec.Class
						if b, ok := s.Decls[0].Binding.Data.(*js_ast.BIdentifier); ok {
							refs = append(refs, b.Ref.InnerIndex)
						}
					} else if id, ok := s.Decls[0].ValueOrNil.Data.(*js_ast.EIdentifier); ok {
						// let K0 = _K0
						if b, ok := s.Decls[0].Binding.Data.(*js_ast.BIdentifier); ok {
							if v, ok := p.getSym(id.Ref.InnerIndex); ok {
								p.setSym(b.Ref.InnerIndex, v)
							}
						}
					}
				}
			case *js_ast.SExpr:
				if b, ok := s.Value.Data.(*js_ast.EBinary); ok && b.Op == js_ast.BinOpAssign {
					if id, ok := b.Left.Data.(*js_ast.EIdentifier); ok && p.name(id.Ref.InnerIndex) == "r" {
						main = b.Right
					}
				}
			}
			if cl == nil {
				continue
			}
			following := []js_ast.Expr{}
			j := i + 1
			for ; j < len(stmts); j++ {
				se, ok := stmts[j].Data.(*js_ast.SExpr)
				if !ok {
					break
				}
				if b, ok := se.Value.Data.(*js_ast.EBinary); ok && b.Op == js_ast.BinOpAssign {
					if id, ok := b.Left.Data.(*js_ast.EIdentifier); ok && p.name(id.Ref.InnerIndex) == "r" {
						break
					}
				}
				following = append(following, se.Value)
			}
			p.addClass(cl, refs, following)
			i = j - 1
		}
		if len(p.classes) != len(prog.classes) {
			dbg := ""
			for _, c := range p.classes {
				dbg += fmt.Sprintf("[decls=%d post=%d]", len(c.decls), len(c.post))
			}
			return fmt.Sprintf("CLASS-COUNT %d != %d %s", len(p.classes), len(prog.classes), dbg)
		}
		parts := []string{}
		for c := range p.classes {
			parts = append(parts, p.classSummary(c))
		}
		ms := "(main ?)"
		if main.Data != nil {
			ms = "(main " + p.body(main) + ")"
		}
		return strings.Join(parts, " ") + " " + ms
	})
}

// the run-time helpers as esbuild prints them for target es2021
func privlowerHelpers() string {
	res := api.Transform("class C { #x = 1; #m() {} static t(o) { #x in o; o.#x; o.#x = 1; o.#m; o.#x++ } }", api.TransformOptions{Target: api.ES2021, LogLevel: api.LogLevelSilent})
	out := []string{}
	code := string(res.Code)
	for _, name := range []string{"__typeError", "__accessCheck", "__privateIn", "__privateGet", "__privateAdd", "__privateSet", "__privateMethod", "__privateWrapper"} {
		i := strings.Index(code, "var "+name+" = ")
		if i < 0 {
			out = append(out, "MISSING "+name)
			continue
		}
		rest := code[i:]
		// a definition ends at the first ";\n" at nesting depth 0 of a line that starts in column 0
		end := strings.Index(rest, ";\nvar ")
		if end < 0 {
			end = strings.Index(rest, ";\n")
		}
		out = append(out, rest[:end+1])
	}
	return strings.ReplaceAll(strings.Join(out, "\n"), "\n", "\\n")
}

func init() {
	kernels["privlower"] = func(r *gen.Rand, e *emitter, tier string) {
		e.emit("privlower\tH", privlowerHelpers())
		e.stat("helpers:text-compared")
		for !e.full() {
			prog := genPrivProg(r, e)
			wire := prog.wire()
			if r.Chance(1, 40) {
				toks := strings.Split(wire, " ")
				switch r.Intn(3) {
				case 0:
					toks = toks[:len(toks)-1]
					e.stat("malformed:truncated")
				case 1:
					toks = append(toks, "v1")
					e.stat("malformed:trailing-token")
				default:
					toks[r.Intn(len(toks))] = r.Pick([]string{"Z9", "Gx", "vx", "B", "n", "Uab1", "T1"})
					e.stat("malformed:unknown-token")
				}
				e.emit("privlower\tL\t"+strings.Join(toks, " "), "bad-op")
				continue
			}
			out := privlowerReal(prog)
			for _, key := range []string{"__privateIn", "__privateGet", "__privateSet", "__privateMethod", "__privateAdd", "__publicField", "__privateWrapper",
				"(set ", "(tag ", "call) ", "(classexpr", "(ws ", "(wm ", " null ", "(|| ", "(&& ", "(?? "} {
				if strings.Contains(out, key) {
					e.stat("out:" + strings.Trim(key, "( "))
				}
			}
			if strings.Contains(out, "OTHER") || strings.Contains(out, "unknown-symbol") || strings.Contains(out, "UNLOWERED") || strings.Contains(out, " ?)") || strings.Contains(out, "BODY?") ||
				out == "PARSE-ERROR" || out == "PANIC" || strings.HasPrefix(out, "CLASS-COUNT") {
				e.stat("real:unexpected-output")
			}
			e.stat(fmt.Sprintf("classes:%d", len(prog.classes)))
			e.emitW("privlower\tL\t"+wire, out, "c05-prog", map[string]interface{}{"src": "var v0, v1, v2, v3, r; function f0(a) { return a } var f1 = f0, f2 = f0; class Stamp { constructor(o) { return o } }\n" + prog.js()})
		}
	}
}
