package main

import (
	"fmt"
	"os"
	"path/filepath"
	"regexp"
	"sort"
	"strings"

	"github.com/evanw/esbuild/internal/linker"
	"github.com/evanw/esbuild/pkg/api"
	"github.com/evanw/esbuild/verifharness/gen"
)

// kernel "exportmatch": real bundles are built with the exports observation hook installed (linker.VerifSetExportsObserver,
// called right after scanImportsAndExports). The hook reports every reachable JS file's import/export tables and what the
// linker derived from them; the tables go to the Lean model (Impl/ExportMatch.lean), which recomputes ResolvedExports
// (with PotentiallyAmbiguousExportStarRefs), the filtered export aliases and the result of matching every import.

var emSafeName = regexp.MustCompile(`^[A-Za-z0-9_$]*$`)

type emMsgKey struct {
	file string
	line int
	col  int
}

// exportMatchOpAndExpected turns a dump into the operation line and the expected answer ("" = not expressible, skip)
func exportMatchOpAndExpected(d linker.VerifExportsDump, contents map[string]string, keepESM bool, stat func(string)) (string, string) {
	idx := map[int]int{}
	for i, f := range d.Files {
		idx[f.SourceIndex] = i
	}
	// messages by position
	msgs := map[emMsgKey][]string{}
	for _, m := range d.Msgs {
		k := emMsgKey{m.File, m.Line, m.Column}
		msgs[k] = append(msgs[k], m.Text)
	}
	lineCol := func(path string, off int) (int, int) {
		src := contents[path]
		if off > len(src) {
			return -1, -1
		}
		line, col := 1, 0
		for i := 0; i < off; i++ {
			if src[i] == '\n' {
				line++
				col = 0
			} else {
				col++
			}
		}
		return line, col
	}
	ok := true
	bad := func(why string) { stat("skip:" + why); ok = false }
	files := []string{}
	blocks := []string{}
	for _, f := range d.Files {
		kind := "nced"[f.ExportsKind : f.ExportsKind+1]
		exps := []string{}
		for _, e := range f.Exports {
			if !emSafeName.MatchString(e.Alias) {
				bad("name")
			}
			if e.Ref.Source != f.SourceIndex {
				bad("foreign-export-ref")
			}
			exps = append(exps, fmt.Sprintf("%s:%d:%d", e.Alias, e.Ref.Inner, e.Loc))
		}
		stars := []string{}
		for _, s := range f.Stars {
			if s < 0 {
				stars = append(stars, "x")
			} else if j, in := idx[s]; in {
				stars = append(stars, fmt.Sprint(j))
			} else {
				bad("star-target-not-js")
			}
		}
		imps := []string{}
		impRes := []string{}
		for _, im := range f.Imports {
			if !emSafeName.MatchString(im.Alias) || im.Ref < 0 {
				bad("name")
			}
			tg := "x"
			if im.Target >= 0 {
				j, in := idx[im.Target]
				if !in {
					bad("import-target-not-js")
				}
				tg = fmt.Sprint(j)
			}
			ns := "x"
			if im.NamespaceRef >= 0 {
				ns = fmt.Sprint(im.NamespaceRef)
			}
			// a generated import item (`ns.alias`): the parser has already set the symbol's namespace alias
			pre := false
			if src := contents[f.Path]; im.NamespaceRef >= 0 && im.Loc > 0 && im.Loc <= len(src) && src[im.Loc-1] == '.' {
				pre = true
				stat("import:generated-item")
			}
			imps = append(imps, fmt.Sprintf("%d:%s:%s:%s:%s:%s:%s", im.Ref, tg, im.Alias, b01(im.AliasIsStar), ns, b01(im.IsExported), b01(pre)))
			// which first step of the tracker this import exercises (for the branch statistics only)
			switch {
			case im.Target < 0:
				stat("first-step:external")
			case im.AliasIsStar:
				stat("first-step:import-star")
			default:
				if tf, in := idx[im.Target]; in {
					switch tgt := d.Files[tf]; {
					case tgt.NoExports && im.Alias != "default":
						stat("first-step:file-without-exports")
					case tgt.ExportsKind == 1:
						stat("first-step:commonjs")
					case tgt.ExportsKind == 3:
						stat("first-step:target-has-dynamic-fallback")
					default:
						stat("first-step:esm-lookup")
					}
				}
			}
			// what the linker decided
			line, col := lineCol(f.Path, im.Loc)
			texts := msgs[emMsgKey{f.Path, line, col}]
			has := func(part string) bool {
				for _, t := range texts {
					if strings.Contains(t, part) {
						return true
					}
				}
				return false
			}
			bound := "-"
			if im.Bound {
				if im.BoundTo.Source != im.BoundSource {
					bad("bound-foreign-ref")
				}
				bound = fmt.Sprintf("%d.%d", idx[im.BoundSource], im.BoundTo.Inner)
				stat("result:bound")
			}
			nsa := "-"
			if im.HasNsAlias {
				nsa = fmt.Sprintf("%d.%d.%s", idx[im.NsAliasRef.Source], im.NsAliasRef.Inner, im.NsAlias)
				stat("result:namespace-alias")
			}
			if im.Bound && im.HasNsAlias {
				stat("result:bound+namespace-alias")
			}
			flags := ""
			if has("Detected cycle while resolving import") {
				flags += "C"
				stat("result:cycle")
			}
			if has("has multiple matching exports") || has("because there are multiple matching exports") {
				flags += "A"
				stat("result:ambiguous")
			}
			if im.ProbablyTSType {
				flags += "T"
				stat("result:probably-ts-type")
			}
			if has("No matching export in") || has("because there is no matching export in") {
				flags += "!"
				stat("direct:no-match")
			}
			if has("has no exports") {
				flags += "w"
				stat("direct:no-exports-warning")
			}
			if !im.Bound && !im.HasNsAlias && flags == "" {
				stat("result:ignored")
			}
			res := bound + "/" + nsa + "/" + flags
			impRes = append(impRes, fmt.Sprintf("%d:%s", im.Ref, res))
		}
		j := func(xs []string) string {
			if len(xs) == 0 {
				return "-"
			}
			return strings.Join(xs, ",")
		}
		files = append(files, fmt.Sprintf("%s;%s;%s;%d;%s;%s;%s", kind, b01(f.NoExports), b01(f.IsTypeScript), f.ExportsRef, j(exps), j(stars), j(imps)))
		resv := []string{}
		for _, r := range f.Resolved {
			if !emSafeName.MatchString(r.Alias) {
				bad("name")
			}
			one := func(x linker.VerifExportsData) string {
				if x.Ref.Source != x.Source {
					bad("foreign-resolved-ref")
				}
				return fmt.Sprintf("%d.%d.%d", idx[x.Source], x.Ref.Inner, x.Loc)
			}
			parts := []string{one(r.Main)}
			for _, a := range r.Ambiguous {
				parts = append(parts, one(a))
			}
			if len(r.Ambiguous) > 0 {
				stat("resolved:potentially-ambiguous")
			}
			if r.Main.Source != f.SourceIndex {
				stat("resolved:from-star")
			}
			resv = append(resv, r.Alias+":"+strings.Join(parts, "+"))
		}
		sort.Strings(resv)
		for _, st := range f.Stars {
			if st < 0 {
				stat("star:external")
				continue
			}
			tf, in := idx[st]
			if !in {
				continue
			}
			if d.Files[tf].ExportsKind == 1 {
				stat("star:commonjs-target-skipped")
			}
			if st == f.SourceIndex {
				stat("star:self")
			}
			for _, te := range d.Files[tf].Exports {
				if te.Alias == "default" {
					stat("star:default-not-re-exported")
				}
				for _, own := range f.Exports {
					if own.Alias == te.Alias && te.Alias != "default" {
						stat("star:shadowed-by-own-export")
					}
				}
			}
		}
		if len(f.SortedAliases) < len(f.Resolved) {
			stat("aliases:some-filtered-out")
		}
		if f.HasLazyExport {
			bad("lazy-export")
		}
		blocks = append(blocks, fmt.Sprintf("res=%s ali=%s imp=%s", j(resv), j(f.SortedAliases), j(impRes)))
	}
	if !ok {
		return "", ""
	}
	return "exportmatch\tlink\t" + b01(keepESM) + "\t" + strings.Join(files, "|"), strings.Join(blocks, " | ")
}

func init() {
	kernels["exportmatch"] = func(r *gen.Rand, e *emitter, tier string) {
		dir, err := os.MkdirTemp("", "verif-exportmatch-")
		if err != nil {
			panic(err)
		}
		defer os.RemoveAll(dir)
		for !e.full() {
			// a malformed operation now and then: the model must answer bad-op, never crash
			if r.Chance(1, 100) {
				bads := []string{"exportmatch\tlink\t1", "exportmatch\tlink\t2\t-", "exportmatch\tlink\t1\te;0;0;1;a:1;-;-", "exportmatch\tlink\t1\tq;0;0;1;-;-;-",
					"exportmatch\tlink\t0\te;0;0;1;a:1:x;-;-", "exportmatch\tlink\t0\te;0;0;1;-;y;-", "exportmatch\tlink\t0\te;0;0;1;-;-;1:0:a:0:x:0", "exportmatch\tnope"}
				e.emit(bads[r.Intn(len(bads))], "bad-op")
				e.stat("malformed")
				continue
			}
			var files map[string]string
			var entries []string
			mode := r.Intn(4)
			switch mode {
			case 0:
				ents := 1 + r.Intn(2)
				g := gen.GenGraph(r, gen.GraphOpts{Modules: ents + r.Intn(6), Entries: ents, AllowCJS: r.Chance(1, 2), AllowDyn: r.Chance(1, 3), AllowCycle: r.Bool(), AllowStar: true, AvoidInPlaceOrder: true})
				files, entries = g.Files, g.Entries
				e.stat("graph:gen.GenGraph")
			case 1:
				g := genExportMatchGraph(r, true)
				files, entries = g.files, []string{g.entry}
				for k, v := range g.stats {
					e.stats[k] += v
				}
				e.stat("graph:mixed")
			default:
				g := genExportMatchGraph(r, false)
				files, entries = g.files, []string{g.entry}
				for k, v := range g.stats {
					e.stats[k] += v
				}
				e.stat("graph:esm-only")
			}
			os.RemoveAll(dir)
			for rel, c := range files {
				p := filepath.Join(dir, rel)
				os.MkdirAll(filepath.Dir(p), 0755)
				os.WriteFile(p, []byte(c), 0644)
			}
			bo := api.BuildOptions{AbsWorkingDir: dir, EntryPoints: entries, Bundle: true, Outdir: "out", Write: false, LogLevel: api.LogLevelSilent,
				Format: api.FormatESModule, External: []string{"ext-pkg", "ext-pkg2"}}
			keepESM := true
			switch r.Intn(4) {
			case 0:
				bo.Format = api.FormatCommonJS
				keepESM = false
			case 1:
				bo.Format = api.FormatIIFE
				keepESM = false
			}
			var dump *linker.VerifExportsDump
			linker.VerifSetExportsObserver(func(d linker.VerifExportsDump) { dd := d; dump = &dd })
			res := api.Build(bo)
			linker.VerifSetExportsObserver(nil)
			if dump == nil {
				e.stat("no-dump")
				if len(res.Errors) > 0 {
					e.stat("no-dump:" + res.Errors[0].Text)
				}
				continue
			}
			if len(res.Errors) > 0 {
				e.stat("build:link-error")
			} else {
				e.stat("build:ok")
			}
			op, exp := exportMatchOpAndExpected(*dump, files, keepESM, e.stat)
			if op == "" {
				continue
			}
			e.stat(fmt.Sprintf("files=%d", len(dump.Files)))
			e.emit(op, exp)
			// the statements of Props/C02ExportMatch.lean, evaluated by the driver on the table the real linker built
			if mode >= 2 && !e.full() {
				parts := strings.SplitN(op, "\t", 4)
				e.emit("exportmatch\tthm\t"+parts[3], "ok")
				e.stat("theorem-instance")
			}
		}
	}
}
