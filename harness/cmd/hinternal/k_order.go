package main

import (
	"fmt"
	"os"
	"path/filepath"
	"strings"
	"sync"

	"github.com/evanw/esbuild/internal/linker"
	"github.com/evanw/esbuild/pkg/api"
	"github.com/evanw/esbuild/verifharness/gen"
)

// kernel "order": real bundles are built with the chunk-order observation hook installed; for every JS chunk the
// hook reports what findImportedPartsInJSOrder looked at (per file: JS?, in this chunk?, splittable?, parts with
// liveness / shouldIncludePart / followed import records; the unsorted roots with their sort keys) and what it
// returned. The inputs go to the Lean model (Impl/Order.lean), which recomputes the file and part order.

func orderOpAndExpected(d linker.VerifOrderChunk) (string, string) {
	files := make([]string, len(d.Files))
	for i, f := range d.Files {
		parts := make([]string, len(f.Parts))
		for j, p := range f.Parts {
			recs := "."
			if len(p.Recs) > 0 {
				rs := make([]string, len(p.Recs))
				for k, r := range p.Recs {
					rs[k] = fmt.Sprintf("%d:%s:%s", r.Target, b01(r.IsStmt), b01(r.ExtDyn))
				}
				recs = strings.Join(rs, "+")
			}
			parts[j] = fmt.Sprintf("%s,%s,%s", b01(p.IsLive), b01(p.Include), recs)
		}
		ps := "."
		if len(parts) > 0 {
			ps = strings.Join(parts, "|")
		}
		files[i] = fmt.Sprintf("%s/%s/%s/%s", b01(f.IsJS), b01(f.InChunk), b01(f.CanSplit), ps)
	}
	roots := make([]string, len(d.Roots))
	for i, r := range d.Roots {
		roots[i] = fmt.Sprintf("%d:%d:%d", r[0], r[1], r[2])
	}
	rs := "-"
	if len(roots) > 0 {
		rs = strings.Join(roots, ",")
	}
	js := make([]string, len(d.FilesInOrder))
	for i, f := range d.FilesInOrder {
		js[i] = fmt.Sprint(f)
	}
	jss := "-"
	if len(js) > 0 {
		jss = strings.Join(js, ",")
	}
	pr := make([]string, len(d.PartsInOrder))
	for i, r := range d.PartsInOrder {
		pr[i] = fmt.Sprintf("%d:%d:%d", r[0], r[1], r[2])
	}
	prs := "-"
	if len(pr) > 0 {
		prs = strings.Join(pr, " ")
	}
	return fmt.Sprintf("order\torder\t%s\t%s", strings.Join(files, ";"), rs), fmt.Sprintf("js=%s parts=%s", jss, prs)
}

func init() {
	kernels["order"] = func(r *gen.Rand, e *emitter, tier string) {
		dir, err := os.MkdirTemp("", "verif-order-")
		if err != nil {
			panic(err)
		}
		defer os.RemoveAll(dir)
		for !e.full() {
			var g *gen.Graph
			ents := 1
			switch r.Intn(4) {
			case 0:
				g = gen.GenShakeGraph(r, gen.ShakeOpts{Modules: 1 + r.Intn(4), EmptyFunc: r.Bool()})
				e.stat("graph:shake-templates")
			default:
				ents = 1 + r.Intn(3)
				g = gen.GenGraph(r, gen.GraphOpts{Modules: ents + r.Intn(7), Entries: ents, AllowCJS: r.Chance(1, 2), AllowDyn: r.Chance(1, 2), AllowCycle: r.Bool(), AllowStar: r.Bool(), SideEffectFreeDecls: r.Bool(), PkgSideEffectsFalse: r.Chance(1, 3)})
				e.stat("graph:module-graph")
			}
			os.RemoveAll(dir)
			for rel, c := range g.Files {
				p := filepath.Join(dir, rel)
				os.MkdirAll(filepath.Dir(p), 0755)
				os.WriteFile(p, []byte(c), 0644)
			}
			if ents > len(g.Entries) {
				ents = len(g.Entries)
			}
			bo := api.BuildOptions{AbsWorkingDir: dir, EntryPoints: g.Entries[:ents], Bundle: true, Outdir: "out", Write: false, LogLevel: api.LogLevelSilent,
				Format: api.FormatESModule}
			switch r.Intn(6) {
			case 0:
				bo.TreeShaking = api.TreeShakingFalse
				e.stat("opt:shake=false")
			case 1:
				bo.Format = api.FormatCommonJS
				e.stat("opt:cjs")
			case 2, 3:
				bo.Splitting = true
				e.stat("opt:splitting")
			case 4:
				bo.Format = api.FormatIIFE
				e.stat("opt:iife")
			}
			var mu sync.Mutex
			var dumps []linker.VerifOrderChunk
			linker.VerifSetChunkOrderObserver(func(d linker.VerifOrderChunk) { mu.Lock(); dumps = append(dumps, d); mu.Unlock() })
			res := api.Build(bo)
			linker.VerifSetChunkOrderObserver(nil)
			if len(dumps) == 0 {
				e.stat("no-dump")
				if len(res.Errors) > 0 {
					e.stat("build-error")
				}
				continue
			}
			for _, d := range dumps {
				if e.full() {
					break
				}
				op, exp := orderOpAndExpected(d)
				wrapped, shared, dead, dyn := false, false, false, false
				for _, f := range d.Files {
					if f.IsJS && !f.CanSplit {
						wrapped = true
					}
					if f.IsJS && !f.InChunk {
						shared = true
					}
					for _, p := range f.Parts {
						if !p.IsLive {
							dead = true
						}
						for _, rc := range p.Recs {
							if rc.ExtDyn {
								dyn = true
							}
						}
					}
				}
				if wrapped {
					e.stat("has-wrapped-file")
				}
				if shared {
					e.stat("has-file-of-other-chunk")
				}
				if dead {
					e.stat("has-dead-part")
				}
				if dyn {
					e.stat("has-external-dynamic-import")
				}
				nf := len(d.FilesInOrder)
				if nf > 6 {
					nf = 6
				}
				e.stat(fmt.Sprintf("files-in-chunk=%d", nf))
				e.emit(op, exp)
			}
		}
	}
}
