package main

// Kernel `parwrites` (C08): schedule-perturbation correspondence. A generated project (the shapes of the c08-det search
// of harness/cmd/hapi/s_c08.go, condensed) is built with the REAL api.Build several times in this process:
// GOMAXPROCS ∈ {1, 2, 16}, and two plugins whose onStart / onResolve / onLoad callbacks sleep for seeded random times
// and whose onStart / onResolve callbacks emit warnings (with DIFFERENT texts — equal texts from different plugins are
// finding F1 of the work package, reproduced by harness/cmd/pwprobe; no warnings from onLoad — finding F2). Each build is reduced to a canonical digest of (output files in the order
// returned, metafile, mangle cache, errors and warnings IN ORDER with plugin name, location and notes).
//
//	op:        parwrites <TAB> digest₁ <TAB> … <TAB> digestₙ
//	expected:  same:<digest₁>        (the harness always expects agreement; the model answers DIFFERENT otherwise)
//
// plus synthetic lines that exercise the model's other answers (DIFFERENT, bad-op).
// Every real case carries an end-to-end witness for the c08-det search (same project format).

import (
	"crypto/sha256"
	"fmt"
	"os"
	"path/filepath"
	"runtime"
	"sort"
	"strings"
	"sync"
	"time"

	"github.com/evanw/esbuild/pkg/api"
	"github.com/evanw/esbuild/verifharness/gen"
)

type pwProject struct {
	Files   map[string]string `json:"files"`
	Entries []string          `json:"entries"`
	OptName string            `json:"opt_name"`
	Mangle  bool              `json:"mangle"`
}

func pwGenProject(r *gen.Rand, e *emitter) pwProject {
	p := pwProject{Files: map[string]string{}}
	nEnt := 1 + r.Intn(3)
	nSib := 3 + r.Intn(8)
	nShared := 1 + r.Intn(2)
	p.Mangle = r.Chance(1, 2)
	css := r.Chance(1, 2)
	assets := r.Chance(1, 3)
	typos := r.Chance(1, 2)
	props := []string{"alpha_", "beta_", "gamma_", "delta_", "eps_", "zeta_"}
	for s := 0; s < nShared; s++ {
		p.Files[fmt.Sprintf("shared%d.js", s)] = fmt.Sprintf("export const alphaValue1 = %d, alphaValue2 = %d, alphaValue3 = %d;\nexport function helper(o) { return o.%s + o.%s; }\nlet x = %d;\nexport function bump() { return ++x; }\n",
			s, s+1, s+2, props[(2*s)%len(props)], props[(2*s+1)%len(props)], s)
	}
	for i := 0; i < nSib; i++ {
		var sb strings.Builder
		sh := r.Intn(nShared)
		fmt.Fprintf(&sb, "import { leaf%d } from \"./leaf%d.js\";\nimport { helper, bump } from \"./shared%d.js\";\n", i, i, sh)
		if typos && r.Chance(1, 3) {
			fmt.Fprintf(&sb, "import * as ns%d from \"./shared%d.js\";\nconsole.log(ns%d.alphaValue9);\n", i, sh, i)
			e.stat("project:typo-warning")
		}
		if css && r.Chance(1, 2) {
			fmt.Fprintf(&sb, "import \"./style%d.css\";\n", i)
			p.Files[fmt.Sprintf("style%d.css", i)] = fmt.Sprintf(".c%d { color: #%02x%02x%02x; margin: %dpx }\n", i, i*7%256, i*13%256, i*29%256, i)
			e.stat("project:css")
		}
		if assets && r.Chance(1, 2) {
			fmt.Fprintf(&sb, "import url%d from \"./data%d.txt\";\nconsole.log(url%d);\n", i, i, i)
			p.Files[fmt.Sprintf("data%d.txt", i)] = fmt.Sprintf("asset %d\n", i)
			e.stat("project:asset")
		}
		a, b := props[i%len(props)], props[(i+3)%len(props)]
		fmt.Fprintf(&sb, "let x = %d;\nfunction local() { return x; }\nexport function sib%d(o) { o.%s = local(); o.%s = leaf%d(o); return helper(o) + bump(); }\n", i, i, a, b, i)
		p.Files[fmt.Sprintf("sib%d.js", i)] = sb.String()
		c := props[(i+1)%len(props)]
		p.Files[fmt.Sprintf("leaf%d.js", i)] = fmt.Sprintf("let x = \"leaf%d\";\nexport function leaf%d(o) { o.%s = x; return { %s: o.%s, own%d_: 1 }; }\n", i, i, c, props[(i+5)%len(props)], c, i)
	}
	if r.Chance(1, 3) {
		p.Files["amb_a.js"] = "export const dup = \"a\", onlyA = 1;\n"
		p.Files["amb_b.js"] = "export const dup = \"b\", onlyB = 2;\n"
		p.Files["common.js"] = "export * from \"./amb_a.js\";\nexport * from \"./amb_b.js\";\n"
		i := r.Intn(nSib)
		j := (i + 1 + r.Intn(nSib-1)) % nSib
		p.Files[fmt.Sprintf("sib%d.js", i)] = "import { onlyB } from \"./amb_b.js\";\nconsole.log(onlyB);\n" + p.Files[fmt.Sprintf("sib%d.js", i)]
		p.Files[fmt.Sprintf("sib%d.js", j)] = "import { onlyA } from \"./amb_a.js\";\nconsole.log(onlyA);\n" + p.Files[fmt.Sprintf("sib%d.js", j)]
		p.Files["sib0.js"] = "import * as cns from \"./common.js\";\nconsole.log(cns.dup);\n" + p.Files["sib0.js"]
		e.stat("project:ambiguous-star-export")
	}
	for en := 0; en < nEnt; en++ {
		var sb strings.Builder
		for i := 0; i < nSib; i++ {
			if en == 0 || r.Chance(2, 3) {
				fmt.Fprintf(&sb, "import { sib%d } from \"./sib%d.js\";\nconsole.log(sib%d({}));\n", i, i, i)
			}
		}
		if r.Chance(1, 2) {
			fmt.Fprintf(&sb, "import(\"./sib%d.js\").then(m => console.log(m));\n", r.Intn(nSib))
			e.stat("project:dynamic-import")
		}
		name := fmt.Sprintf("entry%d.js", en)
		p.Files[name] = sb.String()
		p.Entries = append(p.Entries, name)
	}
	if r.Chance(1, 8) {
		for k := 0; k < 2+r.Intn(3); k++ {
			p.Entries = append(p.Entries, fmt.Sprintf("missing%d.js", k))
		}
		e.stat("project:missing-entries")
	}
	opt := r.Pick([]string{"fmt=esm", "fmt=esm,splitting", "fmt=esm,splitting", "fmt=cjs", "fmt=iife"})
	opt += r.Pick([]string{"", ",mi", ",ms,mi,mw", ",ms"})
	opt += r.Pick([]string{"", ",sourcemap=external", ",sourcemap=linked"})
	opt += r.Pick([]string{"", ",entrynames=[name]-[hash],chunknames=c-[hash]"})
	opt += ",metafile"
	if assets {
		opt += ",loader:.txt=file"
	}
	p.OptName = opt
	e.stat(fmt.Sprintf("project:entries=%d", nEnt))
	if p.Mangle {
		e.stat("project:mangle-props")
	}
	if strings.Contains(opt, "splitting") {
		e.stat("project:splitting")
	}
	return p
}

// the subset of hapi's option names that pwGenProject produces
func pwBuildOptions(p pwProject, absDir string) api.BuildOptions {
	o := api.BuildOptions{LogLevel: api.LogLevelSilent, AbsWorkingDir: absDir, EntryPoints: p.Entries, Outdir: "out", Bundle: true, Write: false}
	for _, f := range strings.Split(p.OptName, ",") {
		switch {
		case f == "fmt=esm":
			o.Format = api.FormatESModule
		case f == "fmt=cjs":
			o.Format = api.FormatCommonJS
		case f == "fmt=iife":
			o.Format = api.FormatIIFE
		case f == "splitting":
			o.Splitting = true
		case f == "mi":
			o.MinifyIdentifiers = true
		case f == "ms":
			o.MinifySyntax = true
		case f == "mw":
			o.MinifyWhitespace = true
		case f == "metafile":
			o.Metafile = true
		case f == "sourcemap=external":
			o.Sourcemap = api.SourceMapExternal
		case f == "sourcemap=linked":
			o.Sourcemap = api.SourceMapLinked
		case strings.HasPrefix(f, "entrynames="):
			o.EntryNames = strings.TrimPrefix(f, "entrynames=")
		case strings.HasPrefix(f, "chunknames="):
			o.ChunkNames = strings.TrimPrefix(f, "chunknames=")
		case f == "loader:.txt=file":
			o.Loader = map[string]api.Loader{".txt": api.LoaderFile}
		}
	}
	if p.Mangle {
		o.MangleProps = "_$"
		o.MangleCache = map[string]interface{}{"alpha_": "A", "keep_": false}
	}
	return o
}

func pwDelayPlugins(seed uint64, maxMicros int, e *emitter) []api.Plugin {
	dr := gen.New(seed)
	var mu sync.Mutex
	nap := func() {
		mu.Lock()
		d := dr.Intn(maxMicros + 1)
		mu.Unlock()
		time.Sleep(time.Duration(d) * time.Microsecond)
	}
	mk := func(name string, resolve bool) api.Plugin {
		return api.Plugin{Name: name, Setup: func(b api.PluginBuild) {
			b.OnStart(func() (api.OnStartResult, error) {
				nap()
				return api.OnStartResult{Warnings: []api.Message{{Text: "started " + name}}}, nil
			})
			if resolve {
				b.OnResolve(api.OnResolveOptions{Filter: `^\./leaf`}, func(a api.OnResolveArgs) (api.OnResolveResult, error) {
					nap()
					return api.OnResolveResult{Warnings: []api.Message{{Text: "resolving " + a.Path + " for " + filepath.Base(a.Importer) + " by " + name}}}, nil
				})
			}
			b.OnLoad(api.OnLoadOptions{Filter: `.*`}, func(a api.OnLoadArgs) (api.OnLoadResult, error) {
				// (no warnings from here: a message about LOADING a file that several modules import is attributed to the
				// import statement of whichever importer was scanned first — finding F2, harness/cmd/pwprobe shared)
				nap()
				return api.OnLoadResult{}, nil
			})
		}}
	}
	return []api.Plugin{mk("delay-a", true), mk("delay-b", false)}
}

func pwDigest(res api.BuildResult, absDir string) string {
	h := sha256.New()
	for _, f := range res.OutputFiles { // in the order returned
		rel, _ := filepath.Rel(absDir, f.Path)
		fmt.Fprintf(h, "out %s %d %x\n", filepath.ToSlash(rel), len(f.Contents), sha256.Sum256(f.Contents))
	}
	fmt.Fprintf(h, "metafile %x\n", sha256.Sum256([]byte(res.Metafile)))
	keys := []string{}
	for k := range res.MangleCache {
		keys = append(keys, k)
	}
	sort.Strings(keys)
	for _, k := range keys {
		fmt.Fprintf(h, "mangle %s=%v\n", k, res.MangleCache[k])
	}
	msgs := func(kind string, ms []api.Message) {
		for _, m := range ms {
			fmt.Fprintf(h, "%s [%s] %s %q", kind, m.PluginName, m.ID, m.Text)
			if m.Location != nil {
				fmt.Fprintf(h, " @%s:%d:%d:%d %q", m.Location.File, m.Location.Line, m.Location.Column, m.Location.Length, m.Location.Suggestion)
			}
			for _, n := range m.Notes {
				fmt.Fprintf(h, " note %q", n.Text)
				if n.Location != nil {
					fmt.Fprintf(h, " @%s:%d:%d", n.Location.File, n.Location.Line, n.Location.Column)
				}
			}
			fmt.Fprintln(h)
		}
	}
	msgs("error", res.Errors)
	msgs("warning", res.Warnings)
	return fmt.Sprintf("%x", h.Sum(nil))[:32]
}

func init() {
	kernels["parwrites"] = func(r *gen.Rand, e *emitter, tier string) {
		root, err := os.MkdirTemp("", "verif-parwrites-")
		if err != nil {
			panic(err)
		}
		if real, err := filepath.EvalSymlinks(root); err == nil {
			root = real
		}
		defer os.RemoveAll(root)
		defer runtime.GOMAXPROCS(runtime.GOMAXPROCS(0))
		procs := []int{1, 2, 16}
		runs := 4
		if tier == "thorough" {
			runs = 8
		}
		caseNo := 0
		for !e.full() {
			// the model's other answers
			switch r.Intn(12) {
			case 0:
				a, b := fmt.Sprintf("%032x", r.U64()), fmt.Sprintf("%032x", r.U64())
				ds := []string{a, a, a}
				ds[r.Intn(3)] = b
				want := "DIFFERENT"
				if a == b {
					want = "same:" + a
				}
				e.emit("parwrites\t"+strings.Join(ds, "\t"), want)
				e.stat("synthetic:different")
				continue
			case 1:
				if r.Bool() {
					e.emit("parwrites\t"+fmt.Sprintf("%032x", r.U64()), "bad-op") // a single digest compares nothing
				} else if r.Bool() {
					e.emit("parwrites", "bad-op")
				} else {
					e.emit("parwrites\t\t", "bad-op")
				}
				e.stat("synthetic:malformed")
				continue
			}
			gr := r.Fork()
			p := pwGenProject(gr, e)
			dir := filepath.Join(root, fmt.Sprintf("p%d", caseNo))
			caseNo++
			for name, text := range p.Files {
				if err := os.WriteFile(filepath.Join(dir, name), []byte(text), 0644); err != nil {
					os.MkdirAll(dir, 0755)
					os.WriteFile(filepath.Join(dir, name), []byte(text), 0644)
				}
			}
			var digests []string
			for k := 0; k < runs; k++ {
				np := procs[k%len(procs)]
				if k >= len(procs) {
					np = procs[gr.Intn(len(procs))]
				}
				runtime.GOMAXPROCS(np)
				o := pwBuildOptions(p, dir)
				maxMicros := []int{0, 300, 3000}[gr.Intn(3)]
				o.Plugins = pwDelayPlugins(gr.U64(), maxMicros, e)
				res := api.Build(o)
				if k == 0 {
					if len(res.Errors) > 0 {
						e.stat("build:error")
					} else {
						e.stat("build:ok")
					}
					if len(res.Warnings) > 2 {
						e.stat("build:warnings-beyond-onStart")
					}
					e.stat(fmt.Sprintf("build:outputs=%d", minInt(len(res.OutputFiles), 6)))
				}
				e.stat(fmt.Sprintf("run:GOMAXPROCS=%d", np))
				e.stat(fmt.Sprintf("run:max-delay-us=%d", maxMicros))
				digests = append(digests, pwDigest(res, dir))
			}
			os.RemoveAll(dir)
			e.emitW("parwrites\t"+strings.Join(digests, "\t"), "same:"+digests[0], "c08-det", p)
		}
	}
}
