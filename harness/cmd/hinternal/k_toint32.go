package main

import (
	"fmt"
	"math"

	"github.com/evanw/esbuild/internal/js_ast"
	"github.com/evanw/esbuild/verifharness/gen"
)

func init() {
	kernels["toint32"] = func(r *gen.Rand, e *emitter, tier string) {
		for !e.full() {
			bits := r.F64Bits()
			f := math.Float64frombits(bits)
			switch {
			case math.IsNaN(f) || math.IsInf(f, 0):
				e.stat("nonfinite")
			case f != math.Trunc(f):
				e.stat("fractional")
			case math.Abs(f) >= 2147483648:
				e.stat("integral-out-of-int32")
			default:
				e.stat("integral-int32")
			}
			if r.Bool() {
				e.emit(fmt.Sprintf("toint32\ttoint32\t%016x", bits), guard(func() string { return fmt.Sprint(js_ast.ToInt32(f)) }))
			} else {
				e.emit(fmt.Sprintf("toint32\ttouint32\t%016x", bits), guard(func() string { return fmt.Sprint(js_ast.ToUint32(f)) }))
			}
		}
	}
}
