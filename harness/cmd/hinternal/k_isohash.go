package main

import (
	"encoding/base64"
	"fmt"
	"net/url"
	"strings"

	"github.com/evanw/esbuild/internal/bundler"
	"github.com/evanw/esbuild/internal/linker"
	"github.com/evanw/esbuild/internal/xxhash"
	"github.com/evanw/esbuild/pkg/api"
	"github.com/evanw/esbuild/verifharness/gen"
)

// kernel "isohash": the real generateIsolatedHash (through linker.VerifIsolatedHash: it creates its own
// xxhash, so the 8 digest bytes it sends are compared), bundler.HashForFileName, and the streaming
// xxhash.Digest on arbitrary Write boundaries.
//
//	isohash\tiso\t<files>\t<repr>\t<tmpl>\t<pub>\t<out>\t<sm>\t<legal>\t<smMode>,<legalMode>   → "<digest hex> <name>" | PANIC
//	isohash\tfile\t<repr>\t<smMode>,<legalMode>\t<hasMap>\t<hasLegal>\t<body>\t<legalPath>\t<mapPath>\t<mapBase64> → final chunk file (hex)
//	isohash\txxh\t<hex writes>                                            → digest hex
//	isohash\tname\t<hex bytes>                                            → name | PANIC

func isoCap5(v int) int {
	if v > 5 {
		return 5
	}
	return v
}

func isoJoin(items []string) string {
	if len(items) == 0 {
		return "."
	}
	return strings.Join(items, " ")
}

// strings that are easy to confuse across item boundaries
var isoWords = []string{"", "a", "b", "c", "ab", "bc", "abc", "file", "x.js", "./a-", ".js", ".css", "/", "\x00", "\x04\x00\x00\x00", "\x00\x00\x00\x00", "é", "{", "}"}

func isoBytes(r *gen.Rand, max int) []byte {
	switch r.Intn(6) {
	case 0:
		return []byte(isoWords[r.Intn(len(isoWords))])
	case 1:
		return nil
	case 2: // bytes that look like a length prefix followed by data
		n := r.Intn(4)
		b := []byte{byte(n), 0, 0, 0}
		for i := 0; i < n; i++ {
			b = append(b, "abc"[r.Intn(3)])
		}
		return b
	default:
		n := r.Intn(max + 1)
		b := make([]byte, n)
		for i := range b {
			if r.Chance(1, 4) {
				b[i] = byte(r.Intn(256))
			} else {
				const alphabet = "abc/.-{}\"\n;,AC01"
				b[i] = alphabet[r.Intn(len(alphabet))]
			}
		}
		return b
	}
}

func isoU32(r *gen.Rand) uint32 {
	switch r.Intn(5) {
	case 0:
		return uint32(r.Intn(6))
	case 1:
		return []uint32{0, 1, 4, 255, 256, 65535, 65536, 1 << 24, 1<<31 - 1, 1 << 31, 1<<32 - 1}[r.Intn(11)]
	case 2:
		return uint32(r.U64())
	default:
		return uint32(r.Intn(40))
	}
}

func init() {
	kernels["isohash"] = func(r *gen.Rand, e *emitter, tier string) {
		for !e.full() {
			switch r.Intn(14) {
			case 0:
				isoXXH(r, e)
			case 1:
				isoName(r, e)
			case 2:
				isoCollisionPair(r, e)
			case 3:
				isoFile(r, e)
			default:
				isoChunk(r, e)
			}
		}
	}
}

// the streaming digest: total lengths around the 32-byte block size, writes that fill, straddle and skip blocks
func isoXXH(r *gen.Rand, e *emitter) {
	n := r.Intn(7)
	var ws [][]byte
	total := 0
	for i := 0; i < n; i++ {
		var l int
		switch r.Intn(6) {
		case 0:
			l = 0
		case 1:
			l = r.Intn(5)
		case 2:
			l = 28 + r.Intn(9) // around one block
		case 3:
			l = 60 + r.Intn(9) // around two blocks
		case 4:
			l = r.Intn(200)
		default:
			l = r.Intn(33)
		}
		b := make([]byte, l)
		for j := range b {
			b[j] = byte(r.Intn(256))
		}
		ws = append(ws, b)
		total += l
	}
	if n > 0 && r.Chance(1, 4) { // pad to a multiple of the block size
		pad := make([]byte, (32-total%32)%32)
		for j := range pad {
			pad[j] = byte(r.Intn(256))
		}
		ws = append(ws, pad)
		total += len(pad)
	}
	switch {
	case total < 32:
		e.stat("xxh:total<32")
	case total%32 == 0:
		e.stat("xxh:total%32=0")
	default:
		e.stat("xxh:total>=32")
	}
	// which branches of Digest.Write / Sum64 this sequence takes (mem = bytes buffered so far)
	mem := 0
	for _, w := range ws {
		switch {
		case mem+len(w) < 32:
			e.stat("xxh-write:buffered-only")
		case mem > 0 && len(w)-(32-mem) >= 32:
			e.stat("xxh-write:finish-partial+full-blocks")
		case mem > 0:
			e.stat("xxh-write:finish-partial")
		default:
			e.stat("xxh-write:aligned-full-blocks")
		}
		mem = (mem + len(w)) % 32
	}
	if mem >= 8 {
		e.stat("xxh-sum:8-byte-steps")
	}
	if mem%8 >= 4 {
		e.stat("xxh-sum:4-byte-step")
	}
	if mem%4 > 0 {
		e.stat("xxh-sum:1-byte-steps")
	}
	items := make([]string, len(ws))
	for i, w := range ws {
		items[i] = hexBytes(w)
	}
	e.emit("isohash\txxh\t"+isoJoin(items), guard(func() string {
		d := xxhash.New()
		for _, w := range ws {
			d.Write(w)
		}
		return hexBytes(d.Sum(nil))
	}))
}

func isoName(r *gen.Rand, e *emitter) {
	var l int
	switch r.Intn(4) {
	case 0:
		l = r.Intn(6) // 0 (panic) and the padded lengths 1..4, 5
	case 1:
		l = 8
	default:
		l = r.Intn(13)
	}
	b := make([]byte, l)
	for j := range b {
		switch r.Intn(3) {
		case 0:
			b[j] = []byte{0, 255, 0x1f, 0xf8, 0x07, 0x80}[r.Intn(6)]
		default:
			b[j] = byte(r.Intn(256))
		}
	}
	switch {
	case l == 0:
		e.stat("name:empty-panic")
	case l < 5:
		e.stat("name:padded")
	default:
		e.stat("name:>=5bytes")
	}
	e.emit("isohash\tname\t"+hexBytes(b), guard(func() string { return bundler.HashForFileName(b) }))
}

func isoChunk(r *gen.Rand, e *emitter) {
	// files: several with the same path text in different namespaces
	paths := []string{"a.js", "src/a.js", "a", "ab", "b", "/abs/a.js", "é.js", ""}
	nss := []string{"file", "file", "file", "", "http", "fil", "file2", "dataurl", "a"}
	nFiles := r.Intn(5)
	files := make([]linker.VerifIsoFile, nFiles)
	for i := range files {
		p := paths[r.Intn(len(paths))]
		f := linker.VerifIsoFile{Namespace: nss[r.Intn(len(nss))], KeyText: p, PrettyRel: p}
		switch r.Intn(4) {
		case 0: // pretty path differs from the key path (the usual case for real files)
			f.KeyText = "/abs/" + p
		case 1:
			f.PrettyRel = paths[r.Intn(len(paths))]
		}
		if i > 0 && r.Chance(1, 3) { // same paths as the previous file, other namespace
			f = files[i-1]
			f.Namespace = nss[r.Intn(len(nss))]
			e.stat("files:same-path-other-namespace")
		}
		files[i] = f
	}

	var ch linker.VerifIsoChunk
	willPanic := false
	if r.Chance(1, 5) {
		ch.IsCSS = true
		e.stat("repr:css")
		if r.Chance(1, 2) { // part ranges of a CSS chunk do not exist; nothing may be read from the files
			nFiles = 0
		}
	} else {
		e.stat("repr:js")
		nParts := r.Intn(6)
		if nFiles == 0 && !r.Chance(1, 8) {
			nParts = 0
		}
		for i := 0; i < nParts; i++ {
			var src uint32
			if nFiles > 0 && !r.Chance(1, 40) {
				src = uint32(r.Intn(nFiles))
			} else {
				src = uint32(nFiles + r.Intn(3)) // out of range: the real code panics
			}
			p := [3]uint32{src, isoU32(r), isoU32(r)}
			if i > 0 && r.Chance(1, 4) { // the same file again with another range
				p[0] = ch.Parts[i-1][0]
			}
			if int(p[0]) >= nFiles {
				willPanic = true
			} else {
				if files[p[0]].Namespace == "file" {
					e.stat("part:ns-file(pretty path)")
				} else {
					e.stat("part:ns-other(key text)")
				}
			}
			ch.Parts = append(ch.Parts, p)
		}
		e.stat(fmt.Sprintf("parts:%d", nParts))
	}

	nT := r.Intn(5)
	for i := 0; i < nT; i++ {
		t := string(isoBytes(r, 6))
		ch.Template = append(ch.Template, t)
	}
	e.stat(fmt.Sprintf("template-parts:%d", nT))

	pub := ""
	if r.Chance(1, 2) {
		pub = string(isoBytes(r, 8))
	}
	if pub == "" {
		e.stat("public-path:empty")
	} else {
		e.stat("public-path:set")
	}

	switch r.Intn(5) {
	case 0: // no references: the joiner holds the output
		ch.PiecesNil = true
		for i, n := 0, r.Intn(4); i < n; i++ {
			b := isoBytes(r, 40)
			ch.Joiner = append(ch.Joiner, b)
		}
		e.stat("out:joiner")
	default:
		n := 1 + r.Intn(5)
		if r.Chance(1, 30) {
			n = 0 // empty non-nil slice: nothing is written for the output
			e.stat("out:pieces-empty-non-nil")
		}
		for i := 0; i < n; i++ {
			p := linker.VerifPiece{Data: isoBytes(r, 40), Index: uint32(r.Intn(5)), Kind: uint8(r.Intn(3))}
			if i == n-1 && !r.Chance(1, 10) {
				p.Kind, p.Index = 0, 0 // the final piece of a real chunk
			}
			ch.Pieces = append(ch.Pieces, p)
			e.stat(fmt.Sprintf("piece:kind-%d", p.Kind))
		}
		e.stat("out:pieces")
	}

	switch r.Intn(4) {
	case 0, 1:
		e.stat("sourcemap:none")
	case 2:
		ch.SMPrefix = []byte("{\n  \"version\": 3,\n  \"sources\": [\"" + paths[r.Intn(len(paths))] + "\"],\n  \"mappings\": \"")
		ch.SMMappings = []byte([]string{"", "AAAA", ";AAAA,CAAC;;EACA", "AAAA;AACA"}[r.Intn(4)])
		ch.SMSuffix = []byte("\",\n  \"names\": []\n}\n")
		e.stat("sourcemap:realistic")
	default:
		ch.SMPrefix, ch.SMMappings, ch.SMSuffix = isoBytes(r, 12), isoBytes(r, 12), isoBytes(r, 12)
		e.stat("sourcemap:arbitrary")
	}
	if r.Chance(1, 2) {
		ch.Legal = isoBytes(r, 30)
	}
	if len(ch.Legal) > 0 {
		e.stat("legal:set")
	} else {
		e.stat("legal:none")
	}

	// c.options.SourceMap / c.options.LegalComments: every value of the enums (also the combinations a real
	// build cannot reach, e.g. a map with content under SourceMapNone) and, rarely, an out-of-enum byte
	ch.SourceMapMode = uint8(r.Intn(5))
	ch.LegalCommentsMode = uint8(r.Intn(5))
	if r.Chance(1, 30) {
		ch.SourceMapMode = uint8(r.Intn(256))
		ch.LegalCommentsMode = uint8(r.Intn(256))
	}
	if len(ch.SMPrefix)+len(ch.SMMappings)+len(ch.SMSuffix) > 0 {
		e.stat(fmt.Sprintf("sourcemap-mode-written:%d", isoCap5(int(ch.SourceMapMode))))
	} else {
		e.stat("sourcemap-mode-not-written")
	}
	if len(ch.Legal) > 0 {
		e.stat(fmt.Sprintf("legal-mode-written:%d", isoCap5(int(ch.LegalCommentsMode))))
	}

	parallel := !willPanic
	if willPanic {
		e.stat("panic:source-index-out-of-range")
	}
	isoEmit(e, files[:nFiles], pub, ch, parallel)
}

// isoEmit writes the op line for a hand-built chunk, runs the real routine and returns the expected line
func isoEmit(e *emitter, files []linker.VerifIsoFile, pub string, ch linker.VerifIsoChunk, parallel bool) string {
	fileItems := make([]string, len(files))
	for i, f := range files {
		fileItems[i] = hexBytes([]byte(f.Namespace)) + "/" + hexBytes([]byte(f.KeyText)) + "/" + hexBytes([]byte(f.PrettyRel))
	}
	reprStr := "C"
	if !ch.IsCSS {
		items := []string{"J"}
		for _, p := range ch.Parts {
			items = append(items, fmt.Sprintf("%d,%d,%d", p[0], p[1], p[2]))
		}
		reprStr = strings.Join(items, " ")
	}
	tmplItems := make([]string, len(ch.Template))
	for i, t := range ch.Template {
		tmplItems[i] = hexBytes([]byte(t))
	}
	var out []string
	if ch.PiecesNil {
		out = []string{"j"}
		for _, b := range ch.Joiner {
			out = append(out, hexBytes(b))
		}
	} else {
		out = []string{"p"}
		for _, p := range ch.Pieces {
			out = append(out, fmt.Sprintf("%s:%d:%d", hexBytes(p.Data), p.Kind, p.Index))
		}
	}
	op := fmt.Sprintf("isohash\tiso\t%s\t%s\t%s\t%s\t%s\t%s/%s/%s\t%s\t%d,%d", isoJoin(fileItems), reprStr, isoJoin(tmplItems),
		hexBytes([]byte(pub)), strings.Join(out, " "), hexBytes(ch.SMPrefix), hexBytes(ch.SMMappings), hexBytes(ch.SMSuffix), hexBytes(ch.Legal),
		ch.SourceMapMode, ch.LegalCommentsMode)
	exp := guard(func() string {
		d := linker.VerifIsolatedHash(files, pub, ch, parallel)
		return hexBytes(d) + " " + bundler.HashForFileName(d)
	})
	e.emit(op, exp)
	return exp
}

// pairs of DIFFERENT chunks whose pre-images coincide because a count or a presence flag is not written
// (Props/C18IsoHash.lean, the four examples after isolated_preimage_injective_partial): the real routine
// must give both the same digest, and so must the model.
func isoCollisionPair(r *gen.Rand, e *emitter) {
	word := func() string {
		for {
			if b := isoBytes(r, 6); len(b) > 0 {
				return string(b)
			}
		}
	}
	var tmpl []string
	for i, n := 0, 1+r.Intn(3); i < n; i++ {
		tmpl = append(tmpl, string(isoBytes(r, 6)))
	}
	var pieces []linker.VerifPiece
	for i, n := 0, 1+r.Intn(3); i < n; i++ {
		pieces = append(pieces, linker.VerifPiece{Data: isoBytes(r, 20), Index: uint32(r.Intn(3)), Kind: uint8(r.Intn(3))})
	}
	a := linker.VerifIsoChunk{Template: tmpl, Pieces: pieces}
	b := linker.VerifIsoChunk{Template: tmpl, Pieces: pieces}
	var filesA []linker.VerifIsoFile
	pubA, pubB := "", ""
	family := r.Intn(6)
	switch family {
	case 0: // a part range with partIndexBegin = 4 against three more template parts
		ns, path, end := word(), word(), isoU32(r)
		filesA = []linker.VerifIsoFile{{Namespace: ns, KeyText: path, PrettyRel: path}}
		a.Parts = [][3]uint32{{0, 4, end}}
		b.Template = append([]string{ns, path, string([]byte{byte(end), byte(end >> 8), byte(end >> 16), byte(end >> 24)})}, tmpl...)
	case 1: // public path against one more template part
		pubA = word()
		b.Template = append(append([]string{}, tmpl...), pubA)
	case 2: // public path against one more piece in front
		pubA = word()
		b.Pieces = append([]linker.VerifPiece{{Data: []byte(pubA), Kind: 2}}, pieces...)
	case 3: // legal comments (+ their mode) against a source-map suffix (+ its mode) behind one more (empty) piece
		a.Legal = []byte(word())
		a.LegalCommentsMode = uint8(1 + r.Intn(4))
		b.Pieces = append(append([]linker.VerifPiece{}, pieces...), linker.VerifPiece{})
		b.SMSuffix = a.Legal
		b.SourceMapMode = a.LegalCommentsMode
	case 4: // a map with content under SourceMapNone (mode 0 reads like an empty item) against one more piece
		pfx := "{" + word()
		a.SMPrefix = []byte(pfx)
		a.SourceMapMode = 0
		b.Pieces = append(append([]linker.VerifPiece{}, pieces...), linker.VerifPiece{Data: []byte(pfx)})
	case 5: // map + mode 4 + legal comments that are themselves an encoding, against four more pieces
		inner := "/*" + word()
		a.SMPrefix, a.SMMappings, a.SMSuffix = []byte("{"+word()), []byte("AAAA"), []byte("\"}")
		a.SourceMapMode = 4
		a.LegalCommentsMode = uint8(3 + r.Intn(2))
		a.Legal = append(make([]byte, 12), byte(len(inner)), 0, 0, 0)
		a.Legal = append(a.Legal, inner...)
		b.Pieces = append(append([]linker.VerifPiece{}, pieces...),
			linker.VerifPiece{Data: a.SMPrefix}, linker.VerifPiece{Data: a.SMMappings}, linker.VerifPiece{Data: a.SMSuffix},
			linker.VerifPiece{Data: []byte{byte(len(a.Legal)), 0, 0, 0}})
		b.Legal = []byte(inner)
		b.LegalCommentsMode = a.LegalCommentsMode
	}
	da := isoEmit(e, filesA, pubA, a, true)
	db := isoEmit(e, nil, pubB, b, true)
	if da == db {
		e.stat(fmt.Sprintf("collision-pair-%d:same-digest", family))
	} else {
		e.stat(fmt.Sprintf("collision-pair-%d:DIFFERENT-digest", family))
	}
}

// ---------------------------------------------------------------- the final chunk file, end to end

var isoAPISourceMap = []api.SourceMap{api.SourceMapNone, api.SourceMapInline, api.SourceMapLinked, api.SourceMapExternal, api.SourceMapInlineAndExternal}

// indexed by the config.LegalComments value (0 Inline, 1 None, 2 EndOfFile, 3 Linked, 4 External)
var isoAPILegal = []api.LegalComments{api.LegalCommentsInline, api.LegalCommentsNone, api.LegalCommentsEndOfFile, api.LegalCommentsLinked, api.LegalCommentsExternal}

type isoBuild struct {
	main, mainPath string
	mapFile        []byte
	hasLegalFile   bool
	ok             bool
}

func isoRunBuild(src string, css bool, smMode, legalMode int, entryNames, publicPath string, minify bool) (b isoBuild) {
	loader, sourcefile := api.LoaderJS, "in put.js"
	if css {
		loader, sourcefile = api.LoaderCSS, "in put.css"
	}
	res := api.Build(api.BuildOptions{
		Stdin:             &api.StdinOptions{Contents: src, Sourcefile: sourcefile, Loader: loader, ResolveDir: "/"},
		Bundle:            true,
		Outdir:            "/out",
		AbsWorkingDir:     "/",
		Write:             false,
		LogLevel:          api.LogLevelSilent,
		Sourcemap:         isoAPISourceMap[smMode],
		LegalComments:     isoAPILegal[legalMode],
		EntryNames:        entryNames,
		PublicPath:        publicPath,
		MinifyWhitespace:  minify,
		MinifySyntax:      minify,
		MinifyIdentifiers: minify,
	})
	if len(res.Errors) > 0 {
		return
	}
	for _, f := range res.OutputFiles {
		switch {
		case strings.HasSuffix(f.Path, ".map"):
			b.mapFile = f.Contents
		case strings.HasSuffix(f.Path, ".LEGAL.txt"):
			b.hasLegalFile = true
		default:
			b.main, b.mainPath = string(f.Contents), f.Path
		}
	}
	b.ok = b.mainPath != ""
	return
}

// isoFile: a real build through pkg/api for every combination of source-map mode, legal-comments mode,
// JS / CSS, with / without legal comments in the source, hashed / plain names, public path. The model gets
// the chunk body (the same build without a source map and without a link to the legal comments), the
// strings derived from the chunk's own final path, and the finished map; it must reproduce the final file.
func isoFile(r *gen.Rand, e *emitter) {
	css := r.Chance(1, 3)
	smMode, legalMode := r.Intn(5), r.Intn(5)
	withLegal := r.Chance(2, 3)
	minify := r.Chance(1, 3)
	n := r.Intn(1000)
	src := ""
	switch {
	case r.Chance(1, 6): // empty input: the joiner is empty, no newline is added
	case css:
		if withLegal {
			src = fmt.Sprintf("/*! licence %d */\n", n)
		}
		src += fmt.Sprintf("a { color: rgb(%d, 0, 0) }\n", n%256)
	default:
		if withLegal {
			src = []string{"/*! licence %d */\n", "//! licence %d\n", "/* @license %d */\n"}[r.Intn(3)]
			src = fmt.Sprintf(src, n)
		}
		src += fmt.Sprintf("console.log(%d)\n", n)
	}
	entryNames := []string{"", "[name]-[hash]", "sub/[name]", "[hash]"}[r.Intn(4)]
	publicPath := []string{"", "", "https://cdn.example/x/", "/static"}[r.Intn(4)]

	full := isoRunBuild(src, css, smMode, legalMode, entryNames, publicPath, minify)
	// the body: no source map; comments that would go to the external file are simply dropped
	bodyLegal := legalMode
	if legalMode == 3 || legalMode == 4 {
		bodyLegal = 1
	}
	body := isoRunBuild(src, css, 0, bodyLegal, entryNames, publicPath, minify)
	if !full.ok || !body.ok {
		e.stat("file:build-failed")
		return
	}
	// the finished map: the external file, or (inline only) the one of the same build with an external map
	mapFile := full.mapFile
	if smMode == 1 {
		mapFile = isoRunBuild(src, css, 3, legalMode, entryNames, publicPath, minify).mapFile
	}
	rel := strings.TrimPrefix(full.mainPath, "/out/")
	own := func(suffix string) string { // pathBetweenChunks(finalRelDir, finalRelPath+suffix) without "./"
		if publicPath != "" {
			pp := publicPath
			if !strings.HasSuffix(pp, "/") {
				pp += "/"
			}
			return pp + rel + suffix
		}
		return rel[strings.LastIndex(rel, "/")+1:] + suffix
	}
	reprStr := "J"
	if css {
		reprStr = "C"
	}
	hasMap, hasLegal := 0, 0
	if smMode != 0 {
		hasMap = 1 // esbuild generates a map (with content) exactly when the mode is not None
	}
	if full.hasLegalFile {
		hasLegal = 1
	}
	e.stat(fmt.Sprintf("file:sourcemap-mode-%d", smMode))
	e.stat(fmt.Sprintf("file:legal-mode-%d/external-file-%d", legalMode, hasLegal))
	switch {
	case len(body.main) == 0:
		e.stat("file:body-empty")
	case strings.HasSuffix(body.main, "\n"):
		e.stat("file:body-ends-with-newline")
	default:
		e.stat("file:body-without-final-newline")
	}
	if css {
		e.stat("file:css")
	} else {
		e.stat("file:js")
	}
	mapURL := (&url.URL{Path: own(".map")}).EscapedPath()
	e.emit(fmt.Sprintf("isohash\tfile\t%s\t%d,%d\t%d\t%d\t%s\t%s\t%s\t%s", reprStr, smMode, legalMode, hasMap, hasLegal,
		hexBytes([]byte(body.main)), hexBytes([]byte(own(".LEGAL.txt"))), hexBytes([]byte(mapURL)),
		hexBytes([]byte(base64.StdEncoding.EncodeToString(mapFile)))), hexBytes([]byte(full.main)))
}
