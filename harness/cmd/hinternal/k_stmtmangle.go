package main

import (
	"fmt"
	"strconv"
	"strings"

	"github.com/evanw/esbuild/internal/ast"
	"github.com/evanw/esbuild/internal/config"
	"github.com/evanw/esbuild/internal/js_ast"
	"github.com/evanw/esbuild/internal/js_parser"
	"github.com/evanw/esbuild/internal/logger"
	"github.com/evanw/esbuild/verifharness/gen"
)

// Kernel "stmtmangle" (C03, statement level): a generated FUNCTION BODY is written as source text, parsed by the real
// js_parser.Parse with MinifySyntax (so visitStmts / visitAndAppendStmt / mangleStmts / mangleIf / mangleFor /
// shouldKeepStmtInDeadControlFlow … run exactly as in a build), the resulting statement list of the function is
// read back from the AST and printed in the wire form of Impl/StmtMangleDriver.lean; the Lean model computes
// visitFnBody on the same list.
//
// The generator keeps out of the input what the model does not cover: expressions that the EXPRESSION visitor would
// rewrite (those are the subject of kernels fold / minijs), `const` with a literal initialiser (inlined constants),
// function declarations outside the top level of the body, switch / try / for-in / classes; a case in which a
// `let` / `const` symbol ends with use count 1 (single-use substitution) is skipped and counted.

type smDecl struct {
	name int
	init *mjNode
}

type smNode struct {
	kind  string // E X D I B R T K C L F W O f
	e     *mjNode
	e2    *mjNode // for: update
	dk    string  // var let const
	decls []smDecl
	kids  []*smNode // I: yes[,no]; B: stmts; L,W,O: body; F: body
	lab   int       // K/C: -1 none; L: label; f: name
	init  *smNode   // F: nil | X | D
	hasE  bool      // R: has value; F: has test
	hasU  bool      // F: has update
}

func smWireDecls(sb *strings.Builder, ds []smDecl) {
	for _, d := range ds {
		if d.init == nil {
			sb.WriteString(" v:" + strconv.Itoa(d.name))
		} else {
			sb.WriteString(" w:" + strconv.Itoa(d.name) + " ")
			d.init.wire(sb)
		}
	}
}

func smLab(l int) string {
	if l < 0 {
		return "-"
	}
	return strconv.Itoa(l)
}

func (n *smNode) wire(sb *strings.Builder) {
	switch n.kind {
	case "E":
		sb.WriteString("E")
	case "X":
		sb.WriteString("X ")
		n.e.wire(sb)
	case "D":
		sb.WriteString("D:" + n.dk + ":" + strconv.Itoa(len(n.decls)))
		smWireDecls(sb, n.decls)
	case "I":
		if len(n.kids) == 1 {
			sb.WriteString("I0 ")
		} else {
			sb.WriteString("I1 ")
		}
		n.e.wire(sb)
		for _, k := range n.kids {
			sb.WriteString(" ")
			k.wire(sb)
		}
	case "B":
		sb.WriteString("B:" + strconv.Itoa(len(n.kids)))
		for _, k := range n.kids {
			sb.WriteString(" ")
			k.wire(sb)
		}
	case "R":
		if n.hasE {
			sb.WriteString("R1 ")
			n.e.wire(sb)
		} else {
			sb.WriteString("R0")
		}
	case "T":
		sb.WriteString("T ")
		n.e.wire(sb)
	case "K":
		sb.WriteString("K:" + smLab(n.lab))
	case "C":
		sb.WriteString("C:" + smLab(n.lab))
	case "L":
		sb.WriteString("L:" + strconv.Itoa(n.lab) + " ")
		n.kids[0].wire(sb)
	case "F":
		sb.WriteString("F ")
		switch {
		case n.init == nil:
			sb.WriteString("i-")
		case n.init.kind == "X":
			sb.WriteString("iX ")
			n.init.e.wire(sb)
		default:
			sb.WriteString("iD:" + n.init.dk + ":" + strconv.Itoa(len(n.init.decls)))
			smWireDecls(sb, n.init.decls)
		}
		if n.hasE {
			sb.WriteString(" o+ ")
			n.e.wire(sb)
		} else {
			sb.WriteString(" o-")
		}
		if n.hasU {
			sb.WriteString(" o+ ")
			n.e2.wire(sb)
		} else {
			sb.WriteString(" o-")
		}
		sb.WriteString(" ")
		n.kids[0].wire(sb)
	case "W":
		sb.WriteString("W ")
		n.e.wire(sb)
		sb.WriteString(" ")
		n.kids[0].wire(sb)
	case "O":
		sb.WriteString("O ")
		n.kids[0].wire(sb)
		sb.WriteString(" ")
		n.e.wire(sb)
	case "f":
		sb.WriteString("f:" + strconv.Itoa(n.lab) + ":" + strconv.Itoa(n.lab))
	}
}

// identifiers: 0..5 as in kernel minijs (bit set in mask = unbound global u<k>, else parameter v<k>); >= 6 locals x<k>
func smExprJS(x *mjNode, mask int) string {
	s, _ := smJS(x, mask)
	return s
}

func smJS(n *mjNode, mask int) (string, bool) {
	if n.kind == mjIdent && n.id >= 6 {
		return "x" + strconv.Itoa(n.id), true
	}
	if len(n.kids) == 0 {
		return n.js(mask)
	}
	// re-implement the composite cases so that locals print correctly in sub-expressions
	cp := *n
	cp.kids = nil
	parts := make([]string, len(n.kids))
	for i, k := range n.kids {
		parts[i], _ = smJS(k, mask)
	}
	switch n.kind {
	case mjUnary:
		tok := map[string]string{"not": "!", "neg": "-", "pos": "+", "cpl": "~", "void": "void ", "typeof0": "typeof ", "typeof1": "typeof "}[n.op]
		return "(" + tok + parts[0] + ")", true
	case mjBinary:
		tok := map[string]string{"and": "&&", "or": "||", "nullish": "??", "comma": ",", "seq": "===", "sne": "!==", "leq": "==", "lne": "!=", "add": "+", "sub": "-", "ushr": ">>>", "lt": "<", "gt": ">", "le": "<=", "ge": ">="}[n.op]
		return "(" + parts[0] + " " + tok + " " + parts[1] + ")", true
	case mjIf:
		return "(" + parts[0] + " ? " + parts[1] + " : " + parts[2] + ")", true
	case mjCall:
		return "(" + parts[0] + "(" + strings.Join(parts[1:], ", ") + "))", true
	case mjDot:
		return "(" + parts[0] + "." + string(utf16ToBytes(n.str)) + ")", true
	case mjIndex:
		return "(" + parts[0] + "[" + parts[1] + "])", true
	}
	return "", false
}

func smDeclsJS(dk string, ds []smDecl, mask int) string {
	parts := []string{}
	for _, d := range ds {
		if d.init == nil {
			parts = append(parts, "x"+strconv.Itoa(d.name))
		} else {
			parts = append(parts, "x"+strconv.Itoa(d.name)+" = "+smExprJS(d.init, mask))
		}
	}
	return dk + " " + strings.Join(parts, ", ")
}

func (n *smNode) js(mask int) string {
	lab := func() string {
		if n.lab < 0 {
			return ""
		}
		return " L" + strconv.Itoa(n.lab)
	}
	switch n.kind {
	case "E":
		return ";"
	case "X":
		return smExprJS(n.e, mask) + ";"
	case "D":
		return smDeclsJS(n.dk, n.decls, mask) + ";"
	case "I":
		s := "if (" + smExprJS(n.e, mask) + ") " + n.kids[0].js(mask)
		if len(n.kids) > 1 {
			s += " else " + n.kids[1].js(mask)
		}
		return s
	case "B":
		parts := []string{}
		for _, k := range n.kids {
			parts = append(parts, k.js(mask))
		}
		return "{ " + strings.Join(parts, " ") + " }"
	case "R":
		if n.hasE {
			return "return " + smExprJS(n.e, mask) + ";"
		}
		return "return;"
	case "T":
		return "throw " + smExprJS(n.e, mask) + ";"
	case "K":
		return "break" + lab() + ";"
	case "C":
		return "continue" + lab() + ";"
	case "L":
		return "L" + strconv.Itoa(n.lab) + ": " + n.kids[0].js(mask)
	case "F":
		s := "for ("
		if n.init != nil {
			if n.init.kind == "X" {
				s += smExprJS(n.init.e, mask)
			} else {
				s += smDeclsJS(n.init.dk, n.init.decls, mask)
			}
		}
		s += "; "
		if n.hasE {
			s += smExprJS(n.e, mask)
		}
		s += "; "
		if n.hasU {
			s += smExprJS(n.e2, mask)
		}
		return s + ") " + n.kids[0].js(mask)
	case "W":
		return "while (" + smExprJS(n.e, mask) + ") " + n.kids[0].js(mask)
	case "O":
		return "do " + n.kids[0].js(mask) + " while (" + smExprJS(n.e, mask) + ");"
	case "f":
		return "function x" + strconv.Itoa(n.lab) + "() { return hh(" + strconv.Itoa(n.lab) + "); }"
	}
	return ""
}

func smProgramWire(ss []*smNode) string {
	var sb strings.Builder
	sb.WriteString("B:" + strconv.Itoa(len(ss)))
	for _, s := range ss {
		sb.WriteString(" ")
		s.wire(&sb)
	}
	return sb.String()
}

func smParams(mask int) string {
	ps := []string{}
	for k := 0; k < 6; k++ {
		if (mask>>k)&1 == 1 {
			ps = append(ps, "w"+strconv.Itoa(k))
		} else {
			ps = append(ps, "v"+strconv.Itoa(k))
		}
	}
	return strings.Join(ps, ", ")
}

func smSource(ss []*smNode, mask int) string {
	parts := []string{}
	for _, s := range ss {
		parts = append(parts, s.js(mask))
	}
	return "function t(" + smParams(mask) + ") {\n" + strings.Join(parts, "\n") + "\n}\n"
}

var _ = gen.New
var _ = fmt.Sprint
var _ = ast.InvalidRef
var _ = config.Options{}
var _ = js_ast.Expr{}
var _ = js_parser.Options{}
var _ = logger.Loc{}
