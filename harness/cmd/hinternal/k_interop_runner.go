package main

// The Node side of kernel "interop" (see k_interop.go): evaluates the REAL runtime text (two feature sets) and
// runs the operation lines (the same text the Lean model reads) in a scripted world.
const interopRunner = `
'use strict';
const fs = require('fs');
const texts = JSON.parse(fs.readFileSync(process.argv[2], 'utf8'));
function load(text) {
  // sloppy-mode evaluation of the runtime text; "export var" -> "var"
  return new Function(text.replace(/\bexport var /g, 'var ') +
    '\nreturn {__export, __reExport, __toESM, __toCommonJS, __esm, __esmMin, __commonJS, __commonJSMin}')();
}
const H = texts.map(load);
const BUILTIN = [Object.prototype, Function.prototype, Number.prototype, String.prototype, Boolean.prototype, Symbol.prototype];

function makeCase(heapS) {
  const C = { objs: BUILTIN.slice(), names: new Map(), syms: [], regs: [], log: [], q: [], qn: new Map(), bad: null, hostImpl: null };
  BUILTIN.forEach((o, i) => C.names.set(o, 'B' + i));
  C.sym = j => (C.syms[j] || (C.syms[j] = Symbol('Y' + j)));
  C.val = s => {
    switch (s[0]) {
      case 'u': if (s === 'u') return undefined; break;
      case 'n': if (s === 'n') return null; break;
      case 't': if (s === 't') return true; break;
      case 'f': if (s === 'f') return false; break;
      case 'N': return parseInt(s.slice(1), 10);
      case 'S': return s.slice(1);
      case 'Y': return C.sym(parseInt(s.slice(1), 10));
      case 'O': { const a = parseInt(s.slice(1), 10); if (a < C.objs.length) return C.objs[a]; throw new Unresolved(); }
      case 'R': { const i = parseInt(s.slice(1), 10); if (i < C.regs.length) return C.regs[i]; throw new Unresolved(); }
    }
    throw new Error('bad value ' + s);
  };
  C.key = s => s[0] === 's' ? s.slice(1) : C.sym(parseInt(s.slice(1), 10));
  C.prop = s => {
    const p = s.split(':');
    const b = c => c === '1';
    if (p[1] === 'D') return [C.key(p[0]), { value: C.val(p[2]), writable: b(p[3][0]), enumerable: b(p[3][1]), configurable: b(p[3][2]) }];
    return [C.key(p[0]), { get: C.val(p[2]), set: C.val(p[3]), enumerable: b(p[4][0]), configurable: b(p[4][1]) }];
  };
  const specs = heapS === '-' ? [] : heapS.split(';').map(o => {
    const [hd, ps] = o.split('|');
    const [proto, ext, code] = hd.split(':');
    return { proto, ext, code, props: ps === '' ? [] : ps.split(',') };
  });
  for (const sp of specs) {
    let o;
    if (sp.code === '-') o = {};
    else {
      const f = parseInt(sp.code.slice(1), 10);
      o = ({ f(...args) { return C.hostImpl(f, this, args); } }).f;
      delete o.length; delete o.name;
    }
    C.names.set(o, 'O' + C.objs.length);
    C.objs.push(o);
  }
  specs.forEach((sp, i) => {
    const o = C.objs[6 + i];
    Object.setPrototypeOf(o, C.val(sp.proto));
    for (const p of sp.props) { const [k, d] = C.prop(p); Object.defineProperty(o, k, d); }
  });
  specs.forEach((sp, i) => { if (sp.ext === '0') Object.preventExtensions(C.objs[6 + i]); });
  C.show = v => {
    if (v === undefined) return 'u';
    if (v === null) return 'n';
    if (v === true) return 't';
    if (v === false) return 'f';
    if (typeof v === 'number') return Number.isSafeInteger(v) ? 'N' + v : 'N?';
    if (typeof v === 'string') return 'S<' + v + '>';
    if (typeof v === 'symbol') return 'Y' + C.syms.indexOf(v);
    if (C.names.has(v)) return C.names.get(v);
    if (typeof v === 'function') return 'c';
    if (!C.qn.has(v)) { C.qn.set(v, 'Q' + C.q.length); C.q.push(v); }
    return C.qn.get(v);
  };
  C.showRes = r => {
    if ('ok' in r) return 'V' + C.show(r.ok);
    const e = r.err;
    if (e instanceof TypeError) return 'E:TypeError';
    if (e instanceof RangeError) return 'E:fuel';
    if (e instanceof Error) return 'E:OTHER:' + e.name + ':' + e.message;
    return 'E:throw:' + C.show(e);
  };
  C.showObj = (name, o) => {
    const ps = [];
    for (const k of Reflect.ownKeys(o)) {
      const d = Object.getOwnPropertyDescriptor(o, k);
      const b = x => x ? '1' : '0';
      const ks = typeof k === 'symbol' ? 'y' + C.syms.indexOf(k) : 's' + k;
      if ('value' in d) ps.push(ks + ':D' + C.show(d.value) + ':' + b(d.writable) + b(d.enumerable) + b(d.configurable));
      else ps.push(ks + ':A' + C.show(d.get) + ',' + C.show(d.set) + ':' + b(d.enumerable) + b(d.configurable));
    }
    return name + '=' + C.show(Object.getPrototypeOf(o)) + ':' + (Object.isExtensible(o) ? '1' : '0') + ':' + (typeof o === 'function' ? '1' : '0') + '{' + ps.join(',') + '}';
  };
  C.finish = results => {
    const rs = results.map(C.showRes);
    const es = C.log.map(e => e.t === 'call' ? 'call:' + e.f + ':' + C.show(e.self) + ':' + e.args.map(C.show).join('+') : 'reent:' + C.showRes(e.r));
    const ds = [];
    for (let a = 6; a < C.objs.length; a++) ds.push(C.showObj('O' + a, C.objs[a]));
    for (let i = 0; i < C.q.length; i++) ds.push(C.showObj('Q' + i, C.q[i]));
    if (C.bad) return 'HARNESS-ERROR:' + C.bad;
    return rs.join(';') + '|' + es.join(';') + '|' + ds.join(';');
  };
  C.item = it => {
    // returns an outcome {ret} / {thr} or undefined
    const p = it.split(',');
    try {
      switch (p[0]) {
        case 'P': { const o = C.val(p[1]); const [k, d] = C.prop(p[2]); if (o !== null && (typeof o === 'object' || typeof o === 'function')) { try { Object.defineProperty(o, k, d); } catch (e) { if (!(e instanceof TypeError)) throw e; } } return; }
        case 'X': { const o = C.val(p[1]); if (o !== null && (typeof o === 'object' || typeof o === 'function')) Reflect.deleteProperty(o, C.key(p[2])); return; }
        case 'Z': { const o = C.val(p[1]); if (o !== null && (typeof o === 'object' || typeof o === 'function')) Object.preventExtensions(o); return; }
        case 'R': try { return { ret: C.val(p[1]) }; } catch (e) { if (e instanceof Unresolved) return { ret: undefined }; throw e; }
        case 'T': try { return { thr: C.val(p[1]) }; } catch (e) { if (e instanceof Unresolved) return { thr: undefined }; throw e; }
        case 'G': {
          let o; try { o = C.val(p[1]); } catch (e) { if (e instanceof Unresolved) return { ret: undefined }; throw e; }
          if (o === null || (typeof o !== 'object' && typeof o !== 'function')) return { ret: undefined };
          const d = Object.getOwnPropertyDescriptor(o, C.key(p[2]));
          return { ret: d && 'value' in d ? d.value : undefined };
        }
      }
    } catch (e) { if (e instanceof Unresolved) return; throw e; }
    throw new Error('bad item ' + it);
  };
  return C;
}
class Unresolved extends Error {}

function runA(variant, heapS, fnsS, progS) {
  const C = makeCase(heapS), h = H[variant];
  const fns = fnsS === '-' ? [] : fnsS.split(';').map(f => f.split('/').map(b => b.split('&')));
  const count = [];
  C.hostImpl = (f, self, args) => {
    C.log.push({ t: 'call', f, self, args });
    const bs = fns[f];
    if (!bs) return undefined;
    const items = bs[(count[f] = (count[f] || 0) + 1, count[f] - 1) % bs.length];
    let out = { ret: undefined };
    for (const it of items) { const o = C.item(it); if (o) out = o; }
    if ('thr' in out) throw out.thr;
    return out.ret;
  };
  const results = [];
  for (const st of progS === '-' ? [] : progS.split(';')) {
    const p = st.split(',');
    let r;
    try {
      switch (p[0]) {
        case 'toESM': r = { ok: h.__toESM(C.val(p[1]), C.val(p[2])) }; break;
        case 'toCJS': r = { ok: h.__toCommonJS(C.val(p[1])) }; break;
        case 'export': r = { ok: h.__export(C.val(p[1]), C.val(p[2])) }; break;
        case 'reExport': r = { ok: h.__reExport(C.val(p[1]), C.val(p[2]), C.val(p[3])) }; break;
        case 'get': { const v = C.val(p[1]), k = C.key(p[2]); r = { ok: v[k] }; break; }
        case 'set': { const o = C.val(p[1]), k = C.key(p[2]), v = C.val(p[3]); r = { ok: Reflect.set(o, k, v) }; break; }
        case 'eff': C.item(p.slice(1).join(',')); r = { ok: undefined }; break;
        default: throw new Error('bad step ' + st);
      }
    } catch (e) { if (e instanceof Unresolved) { C.bad = 'unresolved ' + st; } r = { err: e }; }
    results.push(r);
    C.regs.push('ok' in r ? r.ok : undefined);
  }
  return C.finish(results);
}

function parseBody(toks, i) {
  switch (toks[i]) {
    case 'd': return [{ t: 'd', k: toks[i + 1], v: toks[i + 2] }, i + 3];
    case 'a':
      if (toks[i + 1] === 'e') { const [rest, j] = parseBody(toks, i + 4); return [{ t: 'e', k: toks[i + 2], v: toks[i + 3], rest }, j]; }
      else { const [rest, j] = parseBody(toks, i + 3); return [{ t: 'm', v: toks[i + 2], rest }, j]; }
    case 'n': { const [nested, j] = parseBody(toks, i + 1); const [rest, k] = parseBody(toks, j); return [{ t: 'n', nested, rest }, k]; }
  }
  throw new Error('bad body');
}

function runB(variant, kind, heapS, fnS, callsS) {
  const C = makeCase(heapS), h = H[variant];
  const cur = [];
  let init;
  const doCall = b => { cur.push(b); try { return { ok: init() }; } catch (e) { return { err: e }; } finally { cur.pop(); } };
  C.hostImpl = (f, self, args) => {
    C.log.push({ t: 'call', f, self, args });
    let b = cur[cur.length - 1];
    for (;;) {
      if (b.t === 'd') { if (b.k === 'T') throw C.val(b.v); return C.val(b.v); }
      if (b.t === 'e') Reflect.set(args[0], C.key(b.k), C.val(b.v));
      else if (b.t === 'm') Reflect.set(args[1], 'exports', C.val(b.v));
      else C.log.push({ t: 'reent', r: doCall(b.nested) });
      b = b.rest;
    }
  };
  init = h['__' + (kind.startsWith('esm') ? 'esm' : 'commonJS') + (kind.endsWith('Min') ? 'Min' : '')](C.val(fnS));
  const results = [];
  for (const c of callsS === '-' ? [] : callsS.split(';')) results.push(doCall(parseBody(c.split(','), 0)[0]));
  return C.finish(results);
}

const out = [];
for (const line of fs.readFileSync(process.argv[3], 'utf8').split('\n')) {
  if (!line) continue;
  const a = line.split('\t');
  try {
    if (a[1] === 'A') out.push(runA(parseInt(a[2], 10), a[3], a[4], a[5]));
    else out.push(runB(parseInt(a[2], 10), a[3], a[4], a[5], a[6]));
  } catch (e) { out.push('HARNESS-ERROR:' + e); }
}
fs.writeFileSync(process.argv[4], out.join('\n') + '\n');
`
