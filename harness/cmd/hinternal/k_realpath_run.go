package main

import (
	"encoding/json"
	"fmt"
	"os"
	"os/exec"
	"path/filepath"
	"strings"

	"github.com/evanw/esbuild/internal/ast"
	"github.com/evanw/esbuild/internal/cache"
	"github.com/evanw/esbuild/internal/config"
	esfs "github.com/evanw/esbuild/internal/fs"
	"github.com/evanw/esbuild/internal/logger"
	"github.com/evanw/esbuild/internal/resolver"
	"github.com/evanw/esbuild/verifharness/gen"
)

// the tree as the Lean side reads it: "<dir>|<name>|f", "|d", "|l<link contents>" joined by ";", children of one
// directory in the order Readdirnames returns them; the directories above the case directory come first
func rpWire(root string) (wire string, rel map[string]string, links map[string]string) {
	var parts []string
	rel = map[string]string{}
	links = map[string]string{}
	comps := strings.Split(strings.Trim(root, "/"), "/")
	cur := "/"
	for _, c := range comps {
		parts = append(parts, cur+"|"+c+"|d")
		cur = filepath.Join(cur, c)
	}
	var walk func(p string)
	walk = func(p string) {
		f, err := os.Open(p)
		if err != nil {
			return
		}
		names, _ := f.Readdirnames(-1)
		f.Close()
		var sub []string
		for _, n := range names {
			full := filepath.Join(p, n)
			st, err := os.Lstat(full)
			if err != nil {
				continue
			}
			r, _ := filepath.Rel(root, full)
			switch {
			case st.Mode()&os.ModeSymlink != 0:
				t, _ := os.Readlink(full)
				parts = append(parts, p+"|"+n+"|l"+t)
				links[r] = t
			case st.IsDir():
				parts = append(parts, p+"|"+n+"|d")
				sub = append(sub, full)
			default:
				parts = append(parts, p+"|"+n+"|f")
				rel[r] = "module.exports = 1;\n"
			}
		}
		if len(names) == 0 && p != root {
			r, _ := filepath.Rel(root, p)
			rel[r+"/.keep"] = ""
		}
		for _, s := range sub {
			walk(s)
		}
	}
	walk(root)
	return strings.Join(parts, ";"), rel, links
}

func rpNewResolver(root string, preserve bool) (esfs.FS, *resolver.Resolver, logger.Log) {
	rfs, err := esfs.RealFS(esfs.RealFSOptions{AbsWorkingDir: root})
	if err != nil {
		panic(err)
	}
	log := logger.NewDeferLog(logger.DeferLogAll, nil)
	opts := config.Options{
		Platform:         config.PlatformNeutral,
		ExtensionOrder:   []string{".js"},
		MainFields:       []string{"main"},
		PreserveSymlinks: preserve,
		ExtensionToLoader: map[string]config.Loader{".js": config.LoaderJS},
	}
	return rfs, resolver.NewResolver(config.BuildCall, rfs, log, cache.MakeCacheSet(), &opts), log
}

func rpOpt(s string, ok bool) string {
	if !ok || s == "" {
		return "-"
	}
	return s
}

type rpNodeCheck struct {
	Path string `json:"path"`
	Want string `json:"want"`
}

// Node's fs.realpathSync.native as a third opinion on the specification (one process per batch)
func rpNodeBatch(e *emitter, work string, batch []rpNodeCheck) {
	if len(batch) == 0 {
		return
	}
	node, err := exec.LookPath("node")
	if err != nil {
		e.stat("nodecheck:node-missing")
		return
	}
	in := filepath.Join(work, "nodecheck.json")
	js, _ := json.Marshal(batch)
	os.WriteFile(in, js, 0644)
	script := `const fs=require('fs');const b=JSON.parse(fs.readFileSync(process.argv[1],'utf8'));` +
		`const out=b.map(x=>{try{return fs.realpathSync.native(x.path)}catch(e){return '-'}});console.log(JSON.stringify(out))`
	out, err := exec.Command(node, "-e", script, in).Output()
	if err != nil {
		e.stat("nodecheck:node-failed")
		return
	}
	var got []string
	if json.Unmarshal(out, &got) != nil || len(got) != len(batch) {
		e.stat("nodecheck:node-failed")
		return
	}
	for i, b := range batch {
		if got[i] == b.Want {
			e.stat("nodecheck:agree")
		} else {
			e.stat("nodecheck:DIFFERENT")
			e.emit(fmt.Sprintf("realpath\tnote\tnode realpath of %s is %s, EvalSymlinks says %s", b.Path, got[i], b.Want), "ok")
		}
	}
}

func rpFlip(n string) string {
	if n == "" {
		return n
	}
	if up := strings.ToUpper(n[:1]) + n[1:]; up != n {
		return up
	}
	return strings.ToLower(n[:1]) + n[1:]
}

// pick a pathname for a query: mostly an existing directory / file, sometimes broken, missing, below a file
func rpPickPath(r *gen.Rand, dirs, files, broken []string, wantDir bool) string {
	k := r.Intn(20)
	switch {
	case k == 0 && len(broken) > 0:
		return broken[r.Intn(len(broken))]
	case k == 1:
		return filepath.Join(dirs[r.Intn(len(dirs))], "absent")
	case k == 2 && len(files) > 0:
		return filepath.Join(files[r.Intn(len(files))], "below")
	case k == 3:
		p := dirs[r.Intn(len(dirs))]
		return filepath.Join(filepath.Dir(p), rpFlip(filepath.Base(p)))
	case k == 4 && len(broken) > 0:
		return filepath.Join(broken[r.Intn(len(broken))], "f0.js")
	}
	if (wantDir || len(files) == 0) && !(k == 5 && len(files) > 0) {
		return dirs[r.Intn(len(dirs))]
	}
	if k == 6 {
		return dirs[r.Intn(len(dirs))]
	}
	return files[r.Intn(len(files))]
}

func rpSession(r *gen.Rand, e *emitter, c *rpCase, wire string, rel, links map[string]string, dirs, files, broken []string) {
	preserve := r.Chance(1, 6)
	_, res, _ := rpNewResolver(c.root, preserve)
	nq := 1 + r.Intn(7)
	var qs, outs []string
	var witness map[string]interface{}
	for i := 0; i < nq; i++ {
		switch k := r.Intn(10); {
		case k < 4: // dirInfoCached
			p := rpPickPath(r, dirs, files, broken, true)
			ok, real := resolver.VerifDirInfo(res, p)
			qs = append(qs, "d:"+p)
			if !ok {
				outs = append(outs, "nil")
				e.stat("d:nil")
			} else {
				outs = append(outs, "ok "+rpOpt(real, true))
				parentReal, perr := filepath.EvalSymlinks(filepath.Dir(p))
				st, lerr := os.Lstat(p)
				switch {
				case preserve:
					e.stat("d:ok-preserve")
				case real == "":
					e.stat("d:ok-already-real")
				case lerr == nil && st.Mode()&os.ModeSymlink != 0 && perr == nil && parentReal != filepath.Dir(p):
					e.stat("d:ok-link-inside-linked-dir")
				case lerr == nil && st.Mode()&os.ModeSymlink != 0:
					e.stat("d:ok-link")
				default:
					e.stat("d:ok-below-link")
				}
				// the specification cross-check: (absRealPath or the path itself) is Go's own EvalSymlinks
				if want, err := filepath.EvalSymlinks(p); !preserve && !c.clash && (err != nil || want != rpOpt2(real, p)) {
					e.stat("d:SPEC-DIFFERENT")
					e.emit(fmt.Sprintf("realpath\tnote\tdirInfo %s has real path %q, EvalSymlinks says %q", p, real, want), "ok")
				}
			}
		case k < 6: // finalizeResolve
			p := rpPickPath(r, dirs, files, broken, false)
			got := resolver.VerifFinalizeResolve(res, p)
			qs = append(qs, "f:"+p)
			outs = append(outs, got)
			if got != p {
				e.stat("f:rewritten")
			} else {
				e.stat("f:unchanged")
			}
			if st, err := os.Stat(p); err == nil && !st.IsDir() && !preserve && !c.clash {
				if want, err := filepath.EvalSymlinks(p); err != nil || want != got {
					e.stat("f:SPEC-DIFFERENT")
					e.emit(fmt.Sprintf("realpath\tnote\tfinalize %s gives %q, EvalSymlinks says %q", p, got, want), "ok")
				}
			}
		default: // Resolve
			src := dirs[r.Intn(len(dirs))]
			if r.Chance(1, 15) {
				src = rpPickPath(r, dirs, files, broken, true)
			}
			var imp string
			kind := "r"
			target := rpPickPath(r, dirs, files, broken, false)
			if i := strings.Index(target, "/node_modules/"); i >= 0 && k < 9 {
				kind = "b"
				imp = target[i+len("/node_modules/"):]
				base := target[:i]
				var below []string
				for _, d := range dirs {
					if d == base || strings.HasPrefix(d, base+"/") {
						below = append(below, d)
					}
				}
				if len(below) > 0 && r.Chance(4, 5) {
					src = below[r.Intn(len(below))]
				}
			} else if k == 9 && r.Bool() {
				kind = "b"
				imp = pickS(r, "p0", "p1", "dep", "lib") + "/" + pickS(r, "f0.js", "f1.js", "lib/f0.js")
			} else {
				imp, _ = filepath.Rel(src, target)
				if !strings.HasPrefix(imp, "..") {
					imp = "./" + imp
				} else if r.Chance(1, 5) {
					imp = "./" + imp
				}
			}
			if imp == "" || strings.HasPrefix(imp, ".") && kind == "b" {
				kind, imp = "r", "./f0.js"
			}
			rr, _ := res.Resolve(src, imp, ast.ImportRequire)
			out := "-"
			if rr != nil {
				out = rr.PathPair.Primary.Text
				if rr.PathPair.IsExternal || rr.PathPair.Primary.IsDisabled() {
					out = "UNEXPECTED " + out
				}
			}
			qs = append(qs, kind+":"+src+":"+imp)
			outs = append(outs, out)
			if rr == nil {
				e.stat(kind + ":unresolved")
			} else if want, err := filepath.EvalSymlinks(target); err == nil && want == out && out != target {
				e.stat(kind + ":resolved-rewritten")
			} else {
				e.stat(kind + ":resolved")
			}
			if realSrc, err := filepath.EvalSymlinks(src); err == nil && realSrc == src && !c.abs && !preserve {
				s, _ := filepath.Rel(c.root, src)
				witness = map[string]interface{}{"files": rel, "symlinks": links, "importer": filepath.Join(s, "verif_importer.js"), "spec": imp, "kind": "require"}
			}
		}
	}
	op := fmt.Sprintf("realpath\tsession\t%s\t%d\t%s", wire, map[bool]int{false: 0, true: 1}[preserve], strings.Join(qs, ","))
	e.stats["queries"] += nq
	if witness != nil {
		e.emitW(op, strings.Join(outs, ","), "c11-resolve", witness)
	} else {
		e.emit(op, strings.Join(outs, ","))
	}
}

func rpOpt2(real, p string) string {
	if real == "" {
		return p
	}
	return real
}
