package main

// Kernel `smjoin` (property C07): delta encoding of source-map chunks and their joining.
//
//	smjoin amb   <bufhex> <lastByte> <prev> <cur> <omit>      real appendMappingToBuffer (verif export)
//	smjoin chunk <cover> <events>                             real ChunkBuilder (MakeChunkBuilder / AddSourceMapping / GenerateChunk)
//	smjoin join  <prefixhex> <item>|<item>…                   real AppendSourceMapChunk calls on one helpers.Joiner
//	smjoin link  <result>|<result>…                           the loop of linker.generateSourceMapForChunk around the real AppendSourceMapChunk
//	smjoin fin   <mappingshex> <shift>,<shift>…               real SourceMapPieces.Finalize (shift = beforeLines:beforeCols:afterLines:afterCols)
//
// A state is written gl:gc:si:ol:oc:on:hn. What the harness itself computes (and is therefore trusted, see scanOutput,
// resolve and linkLoop below): how printed text splits into line breaks and columns, the original line/column of a byte
// offset in an ASCII file, the lookup in an input source map, the names table, the de-duplication test at the top of
// AddSourceMapping, and — for `link` only — a transcription of the linker's loop (it is not callable on its own).

import (
	"bytes"
	"fmt"
	"strings"
	"unicode/utf8"

	"github.com/evanw/esbuild/internal/ast"
	"github.com/evanw/esbuild/internal/helpers"
	"github.com/evanw/esbuild/internal/logger"
	"github.com/evanw/esbuild/internal/sourcemap"
	"github.com/evanw/esbuild/verifharness/gen"
)

func smState(s sourcemap.SourceMapState) string {
	hn := 0
	if s.HasOriginalName {
		hn = 1
	}
	return fmt.Sprintf("%d:%d:%d:%d:%d:%d:%d", s.GeneratedLine, s.GeneratedColumn, s.SourceIndex, s.OriginalLine, s.OriginalColumn, s.OriginalName, hn)
}

func smFno(i ast.Index32) string {
	if i.IsValid() {
		return fmt.Sprintf("%d", i.GetIndex())
	}
	return "-"
}

// coordinate values: mostly small, VLQ digit boundaries, int32 range, sometimes negative, never beyond 2^40
func smCoord(r *gen.Rand) int {
	switch r.Intn(10) {
	case 0:
		return []int{0, 1, 15, 16, 17, 31, 32, 511, 512, 513, 16383, 16384, 1<<31 - 1, 1 << 31, 1 << 40}[r.Intn(15)]
	case 1:
		return -r.Intn(40)
	case 2:
		return r.Intn(1 << 20)
	case 3:
		return (1 << uint(r.Intn(41))) - r.Intn(2)
	default:
		return r.Intn(40)
	}
}

func smRandState(r *gen.Rand) sourcemap.SourceMapState {
	return sourcemap.SourceMapState{
		GeneratedLine: r.Intn(4), GeneratedColumn: smCoord(r), SourceIndex: smCoord(r), OriginalLine: smCoord(r),
		OriginalColumn: smCoord(r), OriginalName: smCoord(r), HasOriginalName: r.Chance(1, 3),
	}
}

// ---------------------------------------------------------------------------------------------
// chunk: the real ChunkBuilder

type smBuilt struct {
	chunk  sourcemap.Chunk
	cover  bool
	events []string
}

// scanOutput splits printed text into the model's events: "N" per line terminator (\n, \r not followed by \n
// WITHIN WHAT HAS BEEN PRINTED SO FAR, U+2028, U+2029), "C<k>" for k UTF-16 units of anything else.
func scanOutput(output []byte, from int, ev []string) []string {
	cols := 0
	flush := func() {
		if cols > 0 {
			ev = append(ev, fmt.Sprintf("C%d", cols))
			cols = 0
		}
	}
	for i := from; i < len(output); {
		c, w := utf8.DecodeRune(output[i:])
		switch {
		case c == '\r' && i+1 < len(output) && output[i+1] == '\n':
			// part of \r\n: neither a column nor a line break
		case c == '\n' || c == '\r' || c == 0x2028 || c == 0x2029:
			flush()
			ev = append(ev, "N")
		case c > 0xFFFF:
			cols += 2
		default:
			cols++
		}
		i += w
	}
	flush()
	return ev
}

func smGenChunk(r *gen.Rand, e *emitter) smBuilt {
	// the (intermediate) source file: ASCII, '\n' line ends
	var src strings.Builder
	for n := r.Intn(7); n > 0; n-- {
		for k := r.Intn(9); k > 0; k-- {
			src.WriteByte("abc xyz;(){}"[r.Intn(12)])
		}
		if n > 1 || r.Bool() {
			src.WriteByte('\n')
		}
	}
	contents := src.String()
	tables := sourcemap.GenerateLineOffsetTables(contents, int32(r.Intn(4)))
	lineCol := func(loc int) (int, int) {
		line := strings.Count(contents[:loc], "\n")
		return line, loc - (strings.LastIndexByte(contents[:loc], '\n') + 1)
	}

	// optional input source map (then coverLinesWithoutMappings is off and every location is looked up in it)
	var input *sourcemap.SourceMap
	if r.Chance(1, 3) {
		e.stat("chunk-with-input-map")
		input = &sourcemap.SourceMap{Names: []string{"n0", "n1", "n2"}}
		gl, gc := 0, 0
		for n := r.Intn(10); n > 0; n-- {
			if r.Chance(1, 3) {
				gl += 1 + r.Intn(2)
				gc = 0
			}
			gc += r.Intn(4)
			m := sourcemap.Mapping{GeneratedLine: int32(gl), GeneratedColumn: int32(gc), SourceIndex: int32(r.Intn(4)),
				OriginalLine: int32(smCoord(r) & 0xFFFFF), OriginalColumn: int32(smCoord(r) & 0xFFFFF)}
			if r.Chance(1, 3) {
				m.OriginalName = ast.MakeIndex32(uint32(r.Intn(3)))
			}
			input.Mappings = append(input.Mappings, m)
		}
	} else {
		e.stat("chunk-without-input-map")
	}
	find := func(line, col int) *sourcemap.Mapping { // linear reading of SourceMap.Find
		var best *sourcemap.Mapping
		for i := range input.Mappings {
			m := &input.Mappings[i]
			if int(m.GeneratedLine) < line || (int(m.GeneratedLine) == line && int(m.GeneratedColumn) <= col) {
				best = m
			}
		}
		if best != nil && int(best.GeneratedLine) == line {
			return best
		}
		return nil
	}

	b := sourcemap.MakeChunkBuilder(input, tables, false)
	var output []byte
	var ev []string
	scanned := 0
	names := map[string]int{}
	nameList := []string{"", "", "", "foo", "bar", "n1", "q"}
	prevLoc, prevLen, prevName := -1, 0, ""
	pieces := []string{"a", "bc", " ", "x = 1;", "\n", "\n", "\r\n", "\r", "\u2028", "\u2029", "\u00e9", "\U0001F600", "\n\n", "  ", "\r\n\n"}
	for steps := r.Intn(14); steps > 0; steps-- {
		if r.Chance(2, 5) {
			for k := 1 + r.Intn(3); k > 0; k-- {
				output = append(output, pieces[r.Intn(len(pieces))]...)
			}
			continue
		}
		loc := r.Intn(len(contents) + 1)
		if r.Chance(1, 6) && prevLoc >= 0 {
			loc = prevLoc // provoke the duplicate test
		}
		name := nameList[r.Intn(len(nameList))]
		b.AddSourceMapping(logger.Loc{Start: int32(loc)}, name, output)
		if loc == prevLoc && (prevLen == len(output) || prevName == name) {
			e.stat("chunk-duplicate-call-skipped")
			continue
		}
		prevLoc, prevLen, prevName = loc, len(output), name
		ev = scanOutput(output, scanned, ev)
		scanned = len(output)
		line, col := lineCol(loc)
		si := 0
		if input != nil {
			m := find(line, col)
			if m == nil {
				e.stat("chunk-map-no-input-mapping")
				ev = append(ev, "X")
				continue
			}
			si, line, col = int(m.SourceIndex), int(m.OriginalLine), int(m.OriginalColumn)
			if m.OriginalName.IsValid() {
				name = input.Names[m.OriginalName.GetIndex()]
			}
		}
		nm := "-"
		if name != "" {
			i, ok := names[name]
			if !ok {
				i = len(names)
				names[name] = i
			}
			nm = fmt.Sprintf("%d", i)
			e.stat("chunk-map-with-name")
		} else {
			e.stat("chunk-map-without-name")
		}
		ev = append(ev, fmt.Sprintf("M%d:%d:%d:%s", si, line, col, nm))
	}
	if r.Chance(1, 2) {
		output = append(output, pieces[r.Intn(len(pieces))]...)
	}
	chunk := b.GenerateChunk(output)
	ev = scanOutput(output, scanned, ev)
	if len(chunk.QuotedNames) != len(names) {
		panic("harness: names table out of step with the builder")
	}
	return smBuilt{chunk: chunk, cover: input == nil, events: ev}
}

// evidence only: which builder branches the real run went through, read off its output
func smChunkStats(b smBuilt, e *emitter) {
	segs, maps := 0, 0
	for _, line := range bytes.Split(b.chunk.Buffer.Data, []byte(";")) {
		for _, seg := range bytes.Split(line, []byte(",")) {
			if len(seg) > 0 {
				segs++
			}
		}
	}
	for _, ev := range b.events {
		if ev[0] == 'M' {
			maps++
		}
	}
	switch {
	case segs > maps && b.cover:
		e.stat("chunk-cover-lines-mapping-inserted")
	case b.cover:
		e.stat("chunk-cover-lines-nothing-inserted")
	default:
		e.stat("chunk-cover-lines-off")
	}
	if segs != maps && !b.cover {
		panic("harness: segment count out of step without cover-lines rule")
	}
	if fno := b.chunk.Buffer.FirstNameOffset; fno.IsValid() {
		data := bytes.TrimLeft(b.chunk.Buffer.Data, ";")
		lead := len(b.chunk.Buffer.Data) - len(data)
		first := bytes.IndexAny(data, ",;")
		if first < 0 {
			first = len(data)
		}
		if int(fno.GetIndex()) < lead+first {
			e.stat("chunk-first-name-in-first-mapping")
		} else {
			e.stat("chunk-first-name-in-later-mapping")
		}
	} else if segs > 0 {
		e.stat("chunk-mappings-but-no-name")
	}
}

func smShowChunk(c sourcemap.Chunk) string {
	ig := 0
	if c.ShouldIgnore {
		ig = 1
	}
	return fmt.Sprintf("%s %s %s %d %d", hexBytes(c.Buffer.Data), smFno(c.Buffer.FirstNameOffset), smState(c.EndState), c.FinalGeneratedColumn, ig)
}

// ---------------------------------------------------------------------------------------------
// buffers for join: written with the real appendMappingToBuffer, so that first mappings without
// source, leading semicolons, names anywhere and large deltas occur

func smGenBuffer(r *gen.Rand, e *emitter) sourcemap.MappingsBuffer {
	var buf []byte
	var fno ast.Index32
	prev := sourcemap.SourceMapState{}
	for k := r.Intn(3); k > 0 && r.Chance(1, 3); k-- {
		buf = append(buf, ';')
	}
	n := 1 + r.Intn(4)
	for i := 0; i < n; i++ {
		cur := smRandState(r)
		cur.GeneratedLine = 0
		omit := false
		if i == 0 && r.Chance(1, 5) {
			omit = true
			cur.HasOriginalName = false
			e.stat("join-first-mapping-without-source")
		}
		var last byte
		if len(buf) > 0 {
			last = buf[len(buf)-1]
		}
		var off uint32
		var ok bool
		buf, off, ok = sourcemap.VerifAppendMappingToBuffer(buf, last, prev, cur, omit)
		if ok && !fno.IsValid() {
			fno = ast.MakeIndex32(off)
		}
		name := prev.OriginalName
		if cur.HasOriginalName {
			name = cur.OriginalName
		}
		if omit {
			cur.SourceIndex, cur.OriginalLine, cur.OriginalColumn = prev.SourceIndex, prev.OriginalLine, prev.OriginalColumn
		}
		prev = cur
		prev.OriginalName = name
		for k := r.Intn(3); k > 0 && r.Chance(1, 3); k-- {
			buf = append(buf, ';')
			prev.GeneratedColumn = 0
		}
	}
	if fno.IsValid() {
		e.stat("join-buffer-with-name")
	} else {
		e.stat("join-buffer-without-name")
	}
	if len(buf) > 0 && buf[0] == ';' {
		e.stat("join-buffer-leading-semicolon")
	}
	return sourcemap.MappingsBuffer{Data: buf, FirstNameOffset: fno}
}

func smMalformedBuffer(r *gen.Rand, e *emitter) sourcemap.MappingsBuffer {
	alpha := sourcemap.VerifBase64()
	n := r.Intn(9)
	buf := make([]byte, n)
	for i := range buf {
		switch r.Intn(6) {
		case 0:
			buf[i] = ';'
		case 1:
			buf[i] = ','
		case 2:
			buf[i] = byte(r.Intn(256))
		default:
			buf[i] = alpha[r.Intn(len(alpha))]
		}
	}
	if r.Chance(1, 8) {
		buf = bytes.Repeat([]byte{';'}, r.Intn(4)) // all semicolons, possibly empty
		e.stat("join-buffer-only-semicolons")
	}
	var fno ast.Index32
	if r.Chance(1, 2) {
		fno = ast.MakeIndex32(uint32(r.Intn(n + 2)))
	}
	return sourcemap.MappingsBuffer{Data: buf, FirstNameOffset: fno}
}

// ---------------------------------------------------------------------------------------------
// link: internal/linker/linker.go, generateSourceMapForChunk, "Write the mappings" (transcribed; the
// calls go to the real AppendSourceMapChunk)

type smResult struct {
	chunk        sourcemap.Chunk
	offset       sourcemap.LineColumnOffset
	sourcesIndex int
	isNullEntry  bool
}

func smLinkLoop(results []smResult, stat func(string)) []byte {
	j := helpers.Joiner{}
	j.AddString("\"")
	prevEndState := sourcemap.SourceMapState{}
	prevColumnOffset := 0
	totalQuotedNameLen := 0
	for _, result := range results {
		chunk := result.chunk
		offset := result.offset
		sourcesIndex := result.sourcesIndex

		if chunk.ShouldIgnore {
			panic("Internal error")
		}

		startState := sourcemap.SourceMapState{
			SourceIndex:     sourcesIndex,
			GeneratedLine:   offset.Lines,
			GeneratedColumn: offset.Columns,
			OriginalName:    totalQuotedNameLen,
		}
		if offset.Lines == 0 {
			startState.GeneratedColumn += prevColumnOffset
		}

		if result.isNullEntry {
			chunk.Buffer.Data = []byte("A")
			sourcemap.AppendSourceMapChunk(&j, prevEndState, startState, chunk.Buffer)
			prevEndState.GeneratedLine = startState.GeneratedLine
			prevEndState.GeneratedColumn = startState.GeneratedColumn
		} else {
			sourcemap.AppendSourceMapChunk(&j, prevEndState, startState, chunk.Buffer)
			prevOriginalName := prevEndState.OriginalName
			prevEndState = chunk.EndState
			prevEndState.SourceIndex += sourcesIndex
			if chunk.Buffer.FirstNameOffset.IsValid() {
				prevEndState.OriginalName += totalQuotedNameLen
			} else {
				prevEndState.OriginalName = prevOriginalName
			}
			prevColumnOffset = chunk.FinalGeneratedColumn
			totalQuotedNameLen += len(chunk.QuotedNames)
		}

		if prevEndState.GeneratedLine == 0 {
			prevEndState.GeneratedColumn += startState.GeneratedColumn
			prevColumnOffset += startState.GeneratedColumn
			switch { // evidence only
			case result.isNullEntry && startState.GeneratedColumn != 0:
				stat("link-null-entry-at-nonzero-column")
			case result.isNullEntry:
				stat("link-null-entry-at-column-zero")
			default:
				stat("link-one-line-chunk-column-carried")
			}
		}
	}
	return j.Done()[1:]
}

// a joined mappings string made by the real builder and the real AppendSourceMapChunk
func smGenJoined(r *gen.Rand, e *emitter) []byte {
	for {
		var results []smResult
		for n := 1 + r.Intn(4); n > 0; n-- {
			var res smResult
			res.sourcesIndex = r.Intn(3)
			if r.Chance(1, 8) && len(results) > 0 {
				res.isNullEntry = true
			} else {
				b := smGenChunk(r, e)
				for b.chunk.ShouldIgnore {
					b = smGenChunk(r, e)
				}
				res.chunk = b.chunk
				res.offset = sourcemap.LineColumnOffset{Lines: r.Intn(2), Columns: r.Intn(6)}
			}
			results = append(results, res)
		}
		out := smLinkLoop(results, func(string) {})
		if len(out) > 0 {
			return out
		}
	}
}

func smGenShifts(r *gen.Rand, e *emitter, mappings []byte) []sourcemap.SourceMapShift {
	lines := bytes.Count(mappings, []byte(";")) + 1
	shifts := []sourcemap.SourceMapShift{{}}
	switch r.Intn(12) {
	case 0:
		e.stat("fin-no-shift-fast-path")
		return shifts
	case 1:
		e.stat("fin-empty-shift-list")
		return nil
	}
	var mapped []int // lines that have mappings
	for i, l := 0, 0; i < len(mappings); i++ {
		if mappings[i] == ';' {
			l++
		} else if len(mapped) == 0 || mapped[len(mapped)-1] != l {
			mapped = append(mapped, l)
		}
	}
	line, col, cum := 0, 0, 0
	for n := 1 + r.Intn(10); n > 0; n-- {
		if r.Chance(1, 2) {
			next := line + 1 + r.Intn(1+lines/4)
			if r.Chance(3, 4) {
				for _, l := range mapped {
					if l > line {
						next = l
						break
					}
				}
			}
			line = next
			col, cum = 0, 0
			if line > lines+1 {
				break
			}
		}
		col += r.Intn(5)
		cum += r.Intn(12) - 3
		shifts = append(shifts, sourcemap.SourceMapShift{
			Before: sourcemap.LineColumnOffset{Lines: line, Columns: col},
			After:  sourcemap.LineColumnOffset{Lines: line, Columns: col + cum},
		})
	}
	if r.Chance(1, 15) && len(shifts) > 1 { // malformed: a shift that changes the line, or shifts out of order
		k := 1 + r.Intn(len(shifts)-1)
		if r.Bool() {
			shifts[k].After.Lines += 1 - 2*r.Intn(2)
			e.stat("fin-shift-changes-line")
		} else {
			shifts[k].Before, shifts[1].Before = shifts[1].Before, shifts[k].Before
			e.stat("fin-shifts-out-of-order")
		}
	}
	return shifts
}

func init() {
	kernels["smjoin"] = func(r *gen.Rand, e *emitter, tier string) {
		for !e.full() {
			switch r.Intn(10) {
			case 8, 9: // SourceMapPieces.Finalize
				var m []byte
				if r.Chance(1, 8) {
					alpha := sourcemap.VerifBase64()
					for n := r.Intn(14); n > 0; n-- { // only bytes on which the loop advances (anything else spins forever)
						switch r.Intn(5) {
						case 0:
							m = append(m, ';')
						case 1:
							m = append(m, ',')
						default:
							m = append(m, alpha[r.Intn(len(alpha))])
						}
					}
					e.stat("fin-malformed-mappings")
				} else {
					m = smGenJoined(r, e)
					e.stat("fin-joined-mappings")
				}
				shifts := smGenShifts(r, e, m)
				var sh []string
				for _, s := range shifts {
					sh = append(sh, fmt.Sprintf("%d:%d:%d:%d", s.Before.Lines, s.Before.Columns, s.After.Lines, s.After.Columns))
				}
				arg := "-"
				if len(sh) > 0 {
					arg = strings.Join(sh, ",")
				}
				in := append([]byte{}, m...)
				out := guard(func() string {
					return hexBytes(sourcemap.SourceMapPieces{Mappings: m}.Finalize(shifts))
				})
				e.stat("fin")
				switch {
				case out == "PANIC":
					e.stat("fin-panic")
				case out != hexBytes(in):
					e.stat("fin-output-rewritten")
				default:
					e.stat("fin-output-unchanged")
				}
				e.emit(fmt.Sprintf("smjoin\tfin\t%s\t%s", hexBytes(in), arg), out)

			case 0: // appendMappingToBuffer on its own
				var buf []byte
				if r.Bool() {
					buf = sourcemap.VerifEncodeVLQ(nil, smCoord(r))
				}
				last := []byte{0, ';', '"', ',', 'A', '/', byte(r.Intn(256))}[r.Intn(7)]
				prev, cur := smRandState(r), smRandState(r)
				omit := r.Chance(1, 3)
				switch {
				case last == 0 || last == ';' || last == '"':
					e.stat("amb-no-comma")
				default:
					e.stat("amb-comma")
				}
				if omit {
					e.stat("amb-omit-source")
				}
				if cur.HasOriginalName {
					e.stat("amb-name")
				}
				in := append([]byte{}, buf...)
				e.emit(fmt.Sprintf("smjoin\tamb\t%s\t%d\t%s\t%s\t%d", hexBytes(in), last, smState(prev), smState(cur), b2i(omit)), guard(func() string {
					out, off, ok := sourcemap.VerifAppendMappingToBuffer(buf, last, prev, cur, omit)
					if ok {
						return fmt.Sprintf("%s %d", hexBytes(out), off)
					}
					return fmt.Sprintf("%s -", hexBytes(out))
				}))

			case 1, 2: // one chunk through the real ChunkBuilder
				b := smGenChunk(r, e)
				e.stat("chunk")
				if b.chunk.ShouldIgnore {
					e.stat("chunk-should-ignore")
				}
				if bytes.HasPrefix(b.chunk.Buffer.Data, []byte(";")) {
					e.stat("chunk-leading-semicolon")
				}
				smChunkStats(b, e)
				evs := "-"
				if len(b.events) > 0 {
					evs = strings.Join(b.events, ",")
				}
				e.emit(fmt.Sprintf("smjoin\tchunk\t%d\t%s", b2i(b.cover), evs), smShowChunk(b.chunk))

			case 3, 4: // AppendSourceMapChunk with explicit states
				malformed := r.Chance(1, 4)
				n := 1 + r.Intn(3)
				prefix := []string{"", "", "\"", "AAAA", ";", ",", "AC;"}[r.Intn(7)]
				var items []string
				type call struct {
					prevEnd, start sourcemap.SourceMapState
					buf            sourcemap.MappingsBuffer
				}
				var calls []call
				for i := 0; i < n; i++ {
					var c call
					c.prevEnd, c.start = smRandState(r), smRandState(r)
					c.start.HasOriginalName = r.Chance(1, 10)
					if r.Chance(1, 30) {
						c.start.GeneratedLine = -1 - r.Intn(2)
						e.stat("join-negative-line")
					}
					if c.start.GeneratedLine != 0 {
						e.stat("join-start-line-nonzero")
					}
					switch {
					case malformed:
						c.buf = smMalformedBuffer(r, e)
					case r.Chance(1, 3):
						b := smGenChunk(r, e)
						for tries := 0; b.chunk.ShouldIgnore && tries < 6 && !r.Chance(1, 10); tries++ {
							b = smGenChunk(r, e)
						}
						c.buf = b.chunk.Buffer
						e.stat("join-buffer-from-builder")
						smChunkStats(b, e)
						if len(c.buf.Data) == 0 {
							e.stat("join-buffer-empty")
						}
					default:
						c.buf = smGenBuffer(r, e)
						if r.Chance(1, 12) { // a wrong name offset
							c.buf.FirstNameOffset = ast.MakeIndex32(uint32(r.Intn(len(c.buf.Data) + 2)))
							e.stat("join-wrong-name-offset")
						}
					}
					calls = append(calls, c)
					items = append(items, fmt.Sprintf("%s/%s/%s/%s", smState(c.prevEnd), smState(c.start), hexBytes(c.buf.Data), smFno(c.buf.FirstNameOffset)))
				}
				if malformed {
					e.stat("join-malformed")
				} else {
					e.stat("join-wellformed")
				}
				out := guard(func() string {
					j := helpers.Joiner{}
					j.AddBytes([]byte(prefix))
					for _, c := range calls {
						sourcemap.AppendSourceMapChunk(&j, c.prevEnd, c.start, c.buf)
					}
					return hexBytes(j.Done())
				})
				if out == "PANIC" {
					e.stat("join-panic")
					if !malformed {
						e.stat("join-wellformed-panic")
					}
				}
				e.emit(fmt.Sprintf("smjoin\tjoin\t%s\t%s", hexBytes([]byte(prefix)), strings.Join(items, "|")), out)

			default: // the linker's loop over real chunks
				n := r.Intn(6)
				var results []smResult
				var items []string
				for i := 0; i < n; i++ {
					var res smResult
					res.sourcesIndex = r.Intn(5)
					nq := 0
					if r.Chance(1, 5) {
						res.isNullEntry = true
						e.stat("link-null-entry")
						if r.Chance(1, 6) {
							res.offset = sourcemap.LineColumnOffset{Lines: r.Intn(2), Columns: r.Intn(4)}
							e.stat("link-null-entry-with-offset")
						}
					} else {
						b := smGenChunk(r, e)
						for tries := 0; b.chunk.ShouldIgnore && tries < 6 && !r.Chance(1, 20); tries++ {
							b = smGenChunk(r, e)
						}
						res.chunk = b.chunk
						nq = len(b.chunk.QuotedNames)
						smChunkStats(b, e)
						if r.Chance(2, 3) {
							res.offset.Columns = r.Intn(12)
						}
						if r.Chance(1, 3) {
							res.offset.Lines = 1 + r.Intn(3)
						}
						if r.Chance(1, 60) {
							res.offset.Lines = -1
							e.stat("link-negative-line")
						}
						if b.chunk.ShouldIgnore {
							e.stat("link-should-ignore")
						}
						if b.chunk.Buffer.FirstNameOffset.IsValid() {
							e.stat("link-chunk-with-names")
						} else {
							e.stat("link-chunk-without-names")
						}
						if b.chunk.EndState.GeneratedLine == 0 {
							e.stat("link-chunk-single-line")
						} else {
							e.stat("link-chunk-multi-line")
						}
						if res.offset.Lines == 0 {
							e.stat("link-offset-same-line")
						} else {
							e.stat("link-offset-new-line")
						}
					}
					results = append(results, res)
					c := res.chunk
					items = append(items, fmt.Sprintf("%d/%d/%d/%d/%s/%s/%s/%d/%d/%d", b2i(res.isNullEntry), res.offset.Lines, res.offset.Columns,
						res.sourcesIndex, hexBytes(c.Buffer.Data), smFno(c.Buffer.FirstNameOffset), smState(c.EndState), c.FinalGeneratedColumn, b2i(c.ShouldIgnore), nq))
				}
				e.stat("link")
				out := guard(func() string { return hexBytes(smLinkLoop(results, e.stat)) })
				if out == "PANIC" {
					e.stat("link-panic")
				}
				arg := "-"
				if len(items) > 0 {
					arg = strings.Join(items, "|")
				}
				e.emit(fmt.Sprintf("smjoin\tlink\t%s", arg), out)
			}
		}
	}
}

func b2i(b bool) int {
	if b {
		return 1
	}
	return 0
}
