package main

// kernel "metafile" (C19): how the linker accounts for the bytes of one output file in the metafile.
//
//	count / subst : the real accurateFinalByteCount and substituteFinalPaths on hand-built pieces with asset AND
//	                chunk placeholders (same indices on purpose), real pathBetweenChunks from a directory or with a
//	                public path, and the pretty-path substitution the JSON metadata goes through
//	breakjoiner   : the real breakJoinerIntoPieces (shortcut when no part of the joiner holds the key prefix)
//	js / css      : one operation per chunk of a REAL build (api.Build, Metafile:true) of a generated project. The
//	                linker context of the build is kept by the verif hook; the compile results of a JavaScript chunk
//	                are printed again by the real generateCodeForFileInChunkJS, those of a CSS chunk are cut out of the
//	                chunk text (by the "/* path */" comments, or by per-file selector names when minified). The model
//	                gets the compile results, the text in front of the first and behind the last one, the real path
//	                tables and the values of "imports"/"exports"/"entryPoint"/"cssBundle"; it answers with the chunk
//	                text before substitution, the bytes of the output file and the whole JSON of the output entry,
//	                which are compared with what the build produced.

import (
	"bytes"
	"encoding/json"
	"fmt"
	"os"
	"path/filepath"
	"strconv"
	"strings"

	"github.com/evanw/esbuild/internal/helpers"
	"github.com/evanw/esbuild/internal/linker"
	"github.com/evanw/esbuild/pkg/api"
	"github.com/evanw/esbuild/verifharness/gen"
)

func mfTable(paths []string, undefined func(i int) bool) string {
	if len(paths) == 0 {
		return "."
	}
	parts := make([]string, len(paths))
	for i, p := range paths {
		if undefined != nil && undefined(i) {
			parts[i] = "~"
		} else {
			parts[i] = hexBytes([]byte(p))
		}
	}
	return strings.Join(parts, " ")
}

func mfPieces(ps []linker.VerifPiece) string {
	if len(ps) == 0 {
		return "-"
	}
	return showPieces(ps)
}

func mfOpt(s string, present bool) string {
	if !present {
		return "~"
	}
	return hexBytes([]byte(s))
}

func mfList(items []string) string {
	if len(items) == 0 {
		return "."
	}
	return strings.Join(items, " ")
}

func mfCountCase(r *gen.Rand, e *emitter) {
	nA, nC := r.Intn(5), r.Intn(5)
	assetRel := make([]string, nA)
	for i := range assetRel {
		assetRel[i] = []string{"", "*", "a.png", "assets/b-ABCDEFGH.png", "é.png", "deep/x/y.bin", "a.png", "img/üñí-Q.svg"}[r.Intn(8)]
	}
	chunkRel := make([]string, nC)
	for i := range chunkRel {
		chunkRel[i] = []string{"a.js", "./b.js", "chunks/c-ABCDEFGH.js", "dir/sub/d.js", ".///e.js", "é.js", "out.css", "dir/x.css"}[r.Intn(8)]
	}
	pub := []string{"", "", "", "/", "https://cdn/x", "https://cdn/x/", "p"}[r.Intn(7)]
	fromDir := []string{".", ".", "dir", "dir/sub", "chunks", "./", "other/deep/er"}[r.Intn(7)]
	n := 1 + r.Intn(6)
	ps := make([]linker.VerifPiece, n)
	kinds := map[uint8]bool{}
	for i := range ps {
		m := r.Intn(6)
		d := make([]byte, m)
		for j := range d {
			d[j] = "ab\n\r;\"é/"[r.Intn(9)]
		}
		ps[i] = linker.VerifPiece{Data: d}
		if i < n-1 || r.Chance(1, 8) {
			ps[i].Kind = uint8(1 + r.Intn(2))
			lim := nA
			if ps[i].Kind == 2 {
				lim = nC
			}
			if r.Chance(1, 25) || lim == 0 {
				ps[i].Index = uint32(lim + r.Intn(2)) // beyond the table: the real code panics
			} else if i > 0 && ps[i-1].Kind != 0 && r.Chance(1, 2) {
				ps[i].Index = ps[i-1].Index // same index, often the other kind
				if int(ps[i].Index) >= lim {
					ps[i].Index = uint32(r.Intn(lim))
				}
			} else {
				ps[i].Index = uint32(r.Intn(lim))
			}
			kinds[ps[i].Kind] = true
		}
	}
	for i := 1; i < n; i++ {
		if ps[i].Kind != 0 && ps[i-1].Kind != 0 && ps[i].Kind != ps[i-1].Kind && ps[i].Index == ps[i-1].Index {
			e.stat("count:same-index-both-kinds")
			break
		}
	}
	if kinds[1] && kinds[2] {
		e.stat("count:asset+chunk")
	} else if kinds[1] {
		e.stat("count:asset-only")
	} else if kinds[2] {
		e.stat("count:chunk-only")
	} else {
		e.stat("count:no-placeholder")
	}
	if pub != "" {
		e.stat("count:public-path")
	} else {
		e.stat("count:relative")
	}
	tables := linker.VerifMetaCount(assetRel, chunkRel, pub, fromDir, nil)
	undef := func(i int) bool { return assetRel[i] == "" || assetRel[i] == "*" }
	var res linker.VerifMetaCountResult
	panicked := guard(func() string { res = linker.VerifMetaCount(assetRel, chunkRel, pub, fromDir, ps); return "" }) == "PANIC"
	if panicked {
		e.stat("count:panic")
	}
	exp1, exp2 := "PANIC", "PANIC"
	if !panicked {
		exp1 = fmt.Sprintf("%s %d", hexBytes(res.Joined), res.Count)
		exp2 = hexBytes(res.JSONJoined)
		if res.Count != len(res.Joined) {
			e.stat("count:COUNT-DIFFERS-FROM-LENGTH")
		}
	}
	e.emit(fmt.Sprintf("metafile\tcount\t%s\t%s\t%s", mfTable(tables.AssetPaths, undef), mfTable(tables.ChunkPaths, nil), mfPieces(ps)), exp1)
	if !e.full() {
		e.emit(fmt.Sprintf("metafile\tsubst\t%s\t%s\t%s", mfTable(tables.AssetJSON, undef), mfTable(tables.ChunkJSON, nil), mfPieces(ps)), exp2)
	}
}

func mfBreakJoinerCase(r *gen.Rand, e *emitter) {
	prefix := []string{"zz", "ab", "Q1x", "aa"}[r.Intn(4)]
	nFiles, nChunks := r.Intn(4), r.Intn(4)
	n := r.Intn(5)
	parts := make([][]byte, n)
	hexes := make([]string, n)
	for i := range parts {
		var b []byte
		m := r.Intn(4)
		for j := 0; j < m; j++ {
			switch r.Intn(6) {
			case 0, 1:
				b = append(b, fmt.Sprintf("%s%c%08d", prefix, "AC"[r.Intn(2)], r.Intn(4))...)
			case 2:
				b = append(b, prefix[:1+r.Intn(len(prefix))]...) // partial prefix, may complete in the next part
			case 3:
				b = append(b, fmt.Sprintf("%c%08d", "ACX"[r.Intn(3)], r.Intn(3))...)
			default:
				k := r.Intn(4)
				for l := 0; l < k; l++ {
					b = append(b, "abzQ1 \n;"[r.Intn(8)])
				}
			}
		}
		parts[i] = b
		hexes[i] = hexBytes(b)
	}
	short, ps := linker.VerifMetaBreakJoiner(prefix, nFiles, nChunks, parts)
	exp := "short"
	if !short {
		exp = showPieces(ps)
		e.stat("breakjoiner:pieces")
		if len(ps) > 1 {
			e.stat("breakjoiner:pieces>1")
		}
	} else {
		e.stat("breakjoiner:shortcut")
		if bytes.Contains(bytes.Join(parts, nil), []byte(prefix)) {
			e.stat("breakjoiner:shortcut-although-joined-text-has-prefix")
		}
	}
	e.emit(fmt.Sprintf("metafile\tbreakjoiner\t%s\t%d\t%d\t%s", hexBytes([]byte(prefix)), nFiles, nChunks, mfList(hexes)), exp)
}

// ---------------------------------------------------------------------------------------------------------
// generated projects

type mfProject struct {
	files    map[string]string
	entries  []string
	opts     api.BuildOptions
	tags     []string
	cssIndex map[string]int // CSS file name -> q (its rules are named .f<q>r<j>)
}

func jsStr(s string) string {
	b, _ := json.Marshal(s)
	return string(b)
}

func mfGenProject(r *gen.Rand, big bool) *mfProject {
	p := &mfProject{files: map[string]string{}, cssIndex: map[string]int{}}
	tag := func(t string) { p.tags = append(p.tags, t) }
	nJS := 1 + r.Intn(6)
	nCSS := r.Intn(4)
	nAsset := r.Intn(3)
	if big {
		nJS = 260 + r.Intn(10)
		tag("proj:big(minified metafile)")
	}
	jsNames := make([]string, nJS)
	for i := range jsNames {
		switch {
		case big:
			jsNames[i] = fmt.Sprintf("m%d.js", i)
		case r.Chance(1, 12):
			jsNames[i] = fmt.Sprintf("é%d ü.js", i)
			tag("name:non-ascii")
		case r.Chance(1, 12):
			jsNames[i] = fmt.Sprintf("dir/sub/m%d.js", i)
		case r.Chance(1, 40):
			jsNames[i] = fmt.Sprintf("nl\n%d.js", i)
			tag("name:newline")
		case r.Chance(1, 40):
			jsNames[i] = fmt.Sprintf("ls\u2028%d\r\u2029.js", i)
			tag("name:u2028+cr+u2029")
		case r.Chance(1, 10):
			jsNames[i] = fmt.Sprintf("node_modules/pkg%d/index.js", i)
			tag("name:node_modules")
		default:
			jsNames[i] = fmt.Sprintf("m%d.js", i)
		}
	}
	cssNames := make([]string, nCSS)
	for i := range cssNames {
		if r.Chance(1, 8) {
			cssNames[i] = fmt.Sprintf("styles/ß%d.css", i)
		} else {
			cssNames[i] = fmt.Sprintf("s%d.css", i)
		}
		p.cssIndex[cssNames[i]] = i
	}
	assetNames := make([]string, nAsset)
	for i := range assetNames {
		assetNames[i] = []string{"img%d.png", "assets/pic%d.png", "dätä%d.png"}[r.Intn(3)]
		assetNames[i] = fmt.Sprintf(assetNames[i], i)
		p.files[assetNames[i]] = strings.Repeat("P", 1+r.Intn(20)) + strconv.Itoa(i)
	}
	p.files["t.txt"] = "some text"
	p.files["c.bin"] = "copied"
	p.files["d.json"] = `{"k": [1, 2], "w": "x"}`
	rel := func(from, to string) string {
		x, _ := filepath.Rel(filepath.Dir(from), to)
		x = filepath.ToSlash(x)
		if !strings.HasPrefix(x, ".") {
			x = "./" + x
		}
		return x
	}

	// CSS files: imports go to higher numbers (no cycles), sometimes the same file twice under different conditions
	condImported := make([]bool, nCSS) // imported under a condition: printed inside a wrapper rule even when empty
	for i, name := range cssNames {
		var sb strings.Builder
		if r.Chance(1, 8) {
			sb.WriteString("@charset \"UTF-8\";\n")
			tag("css:charset")
		}
		// a leading "@layer" is generated only in front of an "@import" (then the linker hoists it into a compile
		// result of its own); without an import it would be ordinary code of the file, which the text cutter
		// cannot tell apart when there are no "/* path */" comments
		var imp strings.Builder
		wantLayer := r.Chance(1, 6)
		if r.Chance(1, 6) {
			fmt.Fprintf(&imp, "@import \"https://example.com/ext%d.css\"%s;\n", i, []string{"", " screen", " layer(x)"}[r.Intn(3)])
			tag("css:external-import")
		}
		for j := i + 1; j < nCSS; j++ {
			if r.Chance(1, 2) {
				cond := []string{"", "", " screen", " print", " supports(display: grid)", " layer(l1)"}[r.Intn(6)]
				fmt.Fprintf(&imp, "@import %s%s;\n", jsStr(rel(name, cssNames[j])), cond)
				if cond != "" {
					condImported[j] = true
				}
				if r.Chance(1, 4) {
					condImported[j] = true
					cond2 := []string{" (min-width: 1px)", " print and (color)", " layer(l2)"}[r.Intn(3)]
					fmt.Fprintf(&imp, "@import %s%s;\n", jsStr(rel(name, cssNames[j])), cond2)
					tag("css:same-file-imported-twice")
				}
			}
		}
		if wantLayer && imp.Len() > 0 {
			fmt.Fprintf(&sb, "@layer base%d, top%d;\n", i, i)
			tag("css:pre-import-layer")
		}
		sb.WriteString(imp.String())
		if r.Chance(1, 6) {
			fmt.Fprintf(&sb, "/*! css license %d */\n", i)
			tag("css:legal-comment")
		}
		nr := r.Intn(4)
		if nr == 0 && condImported[i] {
			nr = 1 // an empty file inside "@media … {}" could not be told from text nobody owns
		}
		for j := 0; j < nr; j++ {
			decl := []string{"color: red", "margin: 0 auto", "content: \"x;y{z}\""}[r.Intn(3)]
			if nAsset > 0 && r.Chance(1, 3) {
				decl = fmt.Sprintf("background: url(%s)", rel(name, assetNames[r.Intn(nAsset)]))
				tag("css:url-asset")
			}
			if r.Chance(1, 6) {
				fmt.Fprintf(&sb, "@media (min-width: %dpx) { .f%dr%d { %s } }\n", 100+j, i, j, decl)
			} else {
				fmt.Fprintf(&sb, ".f%dr%d { %s }\n", i, j, decl)
			}
		}
		p.files[name] = sb.String()
	}

	// JS modules
	cjs := make([]bool, nJS)
	for i := range cjs {
		cjs[i] = !big && r.Chance(1, 5)
	}
	for i, name := range jsNames {
		var sb strings.Builder
		if r.Chance(1, 10) {
			sb.WriteString("#!/usr/bin/env node\n")
			tag("js:hashbang")
		}
		if r.Chance(1, 8) {
			sb.WriteString("\"use strict\";\n")
			tag("js:directive")
		}
		if r.Chance(1, 5) {
			if r.Bool() {
				fmt.Fprintf(&sb, "/*! license of m%d */\n", i)
			} else {
				fmt.Fprintf(&sb, "//! license line of m%d\n", i%2)
			}
			tag("js:legal-comment")
		}
		ns := 1 + r.Intn(4)
		if big {
			ns = 1
		}
		for j := 0; j < ns; j++ {
			k := r.Intn(12)
			other := r.Intn(nJS)
			if !r.Chance(1, 6) && i+1 < nJS {
				other = i + 1 + r.Intn(nJS-i-1) // mostly forwards; sometimes any module (cycles, self)
			}
			spec := jsStr(rel(name, jsNames[other]))
			switch {
			case k <= 2 && !cjs[i] && other != i:
				fmt.Fprintf(&sb, "import { v%d as i%d_%d } from %s;\nconsole.log(\"m%ds%d\", i%d_%d);\n", other, i, j, spec, i, j, i, j)
			case k == 3 && !cjs[i] && other != i:
				fmt.Fprintf(&sb, "import %s;\n", spec)
			case k == 4 && other != i:
				fmt.Fprintf(&sb, "import(%s).then(x => console.log(\"m%ds%d\", x));\n", spec, i, j)
				tag("js:dynamic-import")
			case k == 5 && other != i:
				fmt.Fprintf(&sb, "console.log(\"m%ds%d\", require(%s));\n", i, j, spec)
				tag("js:require")
			case k == 6 && nAsset > 0:
				a := assetNames[r.Intn(nAsset)]
				if cjs[i] {
					fmt.Fprintf(&sb, "console.log(\"m%ds%d\", require(%s));\n", i, j, jsStr(rel(name, a)))
				} else {
					fmt.Fprintf(&sb, "import a%d_%d from %s;\nconsole.log(\"m%ds%d\", a%d_%d);\n", i, j, jsStr(rel(name, a)), i, j, i, j)
				}
				tag("js:asset-import")
			case k == 7 && nCSS > 0 && !cjs[i]:
				fmt.Fprintf(&sb, "import %s;\n", jsStr(rel(name, cssNames[r.Intn(nCSS)])))
				tag("js:css-import")
			case k == 8 && !cjs[i]:
				what := []string{"t.txt", "c.bin", "d.json"}[r.Intn(3)]
				fmt.Fprintf(&sb, "import x%d_%d from %s;\nconsole.log(\"m%ds%d\", x%d_%d);\n", i, j, jsStr(rel(name, what)), i, j, i, j)
				tag("js:import-" + what)
			default:
				fmt.Fprintf(&sb, "console.log(\"m%ds%d\");\n", i, j)
			}
		}
		if cjs[i] {
			fmt.Fprintf(&sb, "exports.v%d = \"m%d\";\n", i, i)
		} else {
			fmt.Fprintf(&sb, "export const v%d = \"m%d\";\n", i, i)
			if r.Chance(1, 4) {
				fmt.Fprintf(&sb, "export function unused%d() { return \"never called %d\" }\n", i, i)
			}
		}
		p.files[name] = sb.String()
	}
	if big {
		// one entry that imports all the others
		var sb strings.Builder
		for i := 1; i < nJS; i++ {
			fmt.Fprintf(&sb, "import { v%d } from \"./m%d.js\";\nconsole.log(v%d);\n", i, i, i)
		}
		sb.WriteString("export const v0 = 0;\n")
		p.files[jsNames[0]] = sb.String()
	}

	// entry points
	nEnt := 1 + r.Intn(3)
	if big {
		nEnt = 1
	}
	seen := map[string]bool{}
	for k := 0; k < nEnt; k++ {
		var name string
		if nCSS > 0 && r.Chance(1, 5) {
			name = cssNames[r.Intn(nCSS)]
			tag("entry:css")
		} else if k == 0 {
			name = jsNames[0]
		} else {
			name = jsNames[r.Intn(nJS)]
		}
		if !seen[name] {
			seen[name] = true
			p.entries = append(p.entries, name)
		}
	}
	mfGenOptions(r, p, big)
	return p
}

func mfGenOptions(r *gen.Rand, p *mfProject, big bool) {
	tag := func(t string) { p.tags = append(p.tags, t) }
	o := api.BuildOptions{
		Bundle: true, Metafile: true, Write: false, LogLevel: api.LogLevelSilent,
		Loader: map[string]api.Loader{".png": api.LoaderFile, ".txt": api.LoaderText, ".bin": api.LoaderCopy},
		Outdir: "out",
	}
	if !big && r.Chance(1, 10) {
		o.Bundle = false
		p.entries = p.entries[:1]
		tag("opt:no-bundle")
	}
	switch r.Intn(5) {
	case 0:
		o.Format = api.FormatCommonJS
		tag("opt:cjs")
	case 1:
		o.Format = api.FormatIIFE
		tag("opt:iife")
		if r.Bool() {
			o.GlobalName = "glob.al"
		}
	case 2:
		tag("opt:format-default")
	default:
		o.Format = api.FormatESModule
		tag("opt:esm")
		if o.Bundle && r.Chance(2, 3) {
			o.Splitting = true
			tag("opt:splitting")
		}
	}
	if r.Chance(1, 3) {
		switch r.Intn(4) {
		case 0:
			o.MinifyWhitespace = true
		case 1:
			o.MinifyWhitespace, o.MinifyIdentifiers, o.MinifySyntax = true, true, true
		case 2:
			o.MinifySyntax = true
		case 3:
			o.MinifyIdentifiers = true
		}
		if o.MinifyWhitespace {
			tag("opt:minify-whitespace")
		} else {
			tag("opt:minify-other")
		}
	}
	if r.Chance(1, 3) {
		o.Sourcemap = []api.SourceMap{api.SourceMapLinked, api.SourceMapInline, api.SourceMapExternal, api.SourceMapInlineAndExternal}[r.Intn(4)]
		tag("opt:sourcemap-" + []string{"", "linked", "inline", "external", "both"}[o.Sourcemap])
	}
	if r.Chance(1, 4) {
		o.Banner = map[string]string{"js": "/* js banner */", "css": "/* css banner */"}
		tag("opt:banner")
	}
	if r.Chance(1, 4) {
		o.Footer = map[string]string{"js": "/* js footer */", "css": "/* css footer */"}
		tag("opt:footer")
	}
	if r.Chance(1, 2) {
		o.LegalComments = []api.LegalComments{api.LegalCommentsNone, api.LegalCommentsInline, api.LegalCommentsEndOfFile, api.LegalCommentsLinked, api.LegalCommentsExternal}[r.Intn(5)]
		tag("opt:legal-" + []string{"default", "none", "inline", "eof", "linked", "external"}[o.LegalComments])
	}
	if r.Chance(1, 5) {
		o.PublicPath = []string{"https://cdn.example/x/", "/static", "https://cdn.example/ü/"}[r.Intn(3)]
		tag("opt:public-path")
	}
	if r.Chance(1, 3) {
		o.EntryNames = []string{"[dir]/[name]-[hash]", "entries/[name]", "[name]-[hash]"}[r.Intn(3)]
		o.ChunkNames = []string{"chunks/[name]-[hash]", "deep/er/[hash]"}[r.Intn(2)]
		o.AssetNames = []string{"assets/[name]-[hash]", "[hash]", "media/x/[name]-[hash]"}[r.Intn(3)]
		tag("opt:path-templates")
	}
	if r.Chance(1, 4) {
		o.Charset = api.CharsetUTF8
		tag("opt:charset-utf8")
	}
	if r.Chance(1, 6) {
		o.AbsPaths = []api.AbsPaths{api.CodeAbsPath, api.MetafileAbsPath, api.CodeAbsPath | api.MetafileAbsPath}[r.Intn(3)]
		tag("opt:abs-paths")
	}
	if r.Chance(1, 8) {
		o.LineLimit = 20 + r.Intn(60)
		tag("opt:line-limit")
	}
	if r.Chance(1, 10) {
		o.Outbase = "."
	}
	p.opts = o
}

// ---------------------------------------------------------------------------------------------------------
// raw members of a JSON object (the metafile is compared as TEXT, so the spans are needed)

type mfMember struct {
	key string
	raw string
}

func mfSkipWS(s string, i int) int {
	for i < len(s) && (s[i] == ' ' || s[i] == '\n' || s[i] == '\t' || s[i] == '\r') {
		i++
	}
	return i
}

func mfSkipString(s string, i int) int { // s[i] == '"'; returns the index after the closing quote
	i++
	for i < len(s) && s[i] != '"' {
		if s[i] == '\\' {
			i++
		}
		i++
	}
	return i + 1
}

func mfSkipValue(s string, i int) int {
	switch s[i] {
	case '"':
		return mfSkipString(s, i)
	case '{', '[':
		depth := 0
		for i < len(s) {
			switch s[i] {
			case '"':
				i = mfSkipString(s, i)
				continue
			case '{', '[':
				depth++
			case '}', ']':
				depth--
				if depth == 0 {
					return i + 1
				}
			}
			i++
		}
		return i
	default:
		for i < len(s) && s[i] != ',' && s[i] != '}' && s[i] != ']' && s[i] != '\n' && s[i] != ' ' {
			i++
		}
		return i
	}
}

// mfMembers returns the members of the JSON object that starts at s[0] == '{' with the exact text of their values.
func mfMembers(s string) []mfMember {
	var out []mfMember
	i := mfSkipWS(s, 1)
	for i < len(s) && s[i] == '"' {
		j := mfSkipString(s, i)
		var key string
		json.Unmarshal([]byte(s[i:j]), &key)
		i = mfSkipWS(s, j)
		i = mfSkipWS(s, i+1) // ':'
		k := mfSkipValue(s, i)
		out = append(out, mfMember{key: key, raw: s[i:k]})
		i = mfSkipWS(s, k)
		if i < len(s) && s[i] == ',' {
			i = mfSkipWS(s, i+1)
		}
	}
	return out
}

type mfOutEntry struct {
	Imports []struct {
		Path     string `json:"path"`
		Kind     string `json:"kind"`
		External bool   `json:"external"`
	} `json:"imports"`
	Exports    []string `json:"exports"`
	EntryPoint *string  `json:"entryPoint"`
	CSSBundle  *string  `json:"cssBundle"`
}

// ---------------------------------------------------------------------------------------------------------
// cutting the chunk text

func mfEscapeCommentPath(p string) string {
	p = strings.ReplaceAll(p, "\r", "\\r")
	p = strings.ReplaceAll(p, "\n", "\\n")
	p = strings.ReplaceAll(p, "\u2028", "\\u2028")
	p = strings.ReplaceAll(p, "\u2029", "\\u2029")
	return p
}

// JavaScript: the compile results are known (printed again by the real routine); head = the text in front of the
// first thing the loop emits (a possible separating newline in front of the first comment stays in the head),
// tail = the text behind the last compile result.
func mfAlignJS(text []byte, crs []linker.VerifMetaCR, comments bool, indent string) (head, tail []byte, ok bool) {
	pos, first, lastEnd := 0, -1, -1
	for _, cr := range crs {
		if len(cr.Code) == 0 {
			continue
		}
		i := bytes.Index(text[pos:], cr.Code)
		if i < 0 {
			return nil, nil, false
		}
		start := pos + i
		if first < 0 {
			first = start
			if comments {
				line := indent + "// " + mfEscapeCommentPath(cr.CodePath) + "\n"
				if bytes.HasSuffix(text[:start], []byte(line)) {
					first = start - len(line)
				}
			}
		}
		pos = start + len(cr.Code)
		lastEnd = pos
	}
	if first < 0 {
		return text, nil, true
	}
	return text[:first], text[lastEnd:], true
}

// mfCSSNextItem returns the end of the top-level item of CSS text that starts at t[i]: a run of white space, a
// comment, a statement up to ";" or a block up to its closing brace (strings are skipped).
func mfCSSNextItem(t []byte, i int) int {
	switch {
	case t[i] == ' ' || t[i] == '\n':
		for i < len(t) && (t[i] == ' ' || t[i] == '\n') {
			i++
		}
		return i
	case bytes.HasPrefix(t[i:], []byte("/*")):
		j := bytes.Index(t[i+2:], []byte("*/"))
		if j < 0 {
			return len(t)
		}
		return i + 2 + j + 2
	}
	depth := 0
	for i < len(t) {
		switch t[i] {
		case '"', '\'':
			q := t[i]
			i++
			for i < len(t) && t[i] != q {
				if t[i] == '\\' {
					i++
				}
				i++
			}
		case '{':
			depth++
		case '}':
			depth--
			if depth <= 0 {
				return i + 1
			}
		case ';':
			if depth == 0 {
				return i + 1
			}
		}
		i++
	}
	return len(t)
}

// mfCSSIsCode: does a rule (or, when legal comments stay where they are, a legal comment) start at t[i]?
func mfCSSIsCode(t []byte, i int, inlineLegal bool) bool {
	if i >= len(t) || t[i] == ' ' || t[i] == '\n' {
		return false
	}
	if bytes.HasPrefix(t[i:], []byte("/*")) {
		return inlineLegal && bytes.HasPrefix(t[i:], []byte("/*!"))
	}
	return true
}

func mfCSSMarker(item []byte) int {
	if i := bytes.Index(item, []byte("/*! css license ")); i >= 0 {
		n, j := 0, i+len("/*! css license ")
		for j < len(item) && item[j] >= '0' && item[j] <= '9' {
			n = n*10 + int(item[j]-'0')
			j++
		}
		return n
	}
	i := bytes.Index(item, []byte(".f"))
	for i >= 0 {
		j := i + 2
		n := 0
		for j < len(item) && item[j] >= '0' && item[j] <= '9' {
			n = n*10 + int(item[j]-'0')
			j++
		}
		if j > i+2 && j < len(item) && item[j] == 'r' {
			return n
		}
		k := bytes.Index(item[i+2:], []byte(".f"))
		if k < 0 {
			break
		}
		i += 2 + k
	}
	return -1
}

// CSS: the compile results are cut out of the chunk text. Returns the code of every compile result, the text in
// front of the first one (banner, "@charset"), whether newlineBeforeComment is set when the loop starts, and the
// text behind the last one. why != "" : the text cannot be cut reliably (the operation is skipped and counted).
//
// The rules of CSS file q are all named .f<q>r<j> (also inside "@media" wrappers), so a top-level item belongs to
// file q exactly if it holds such a name; the compile results without a source (external "@import", hoisted
// "@layer") print at most one rule that holds no such name.
func mfAlignCSS(text []byte, crs []linker.VerifMetaCR, p *mfProject, bundle bool, cssNumber func(cr linker.VerifMetaCR) int) (codes [][]byte, head []byte, nbc0 bool, tail []byte, why string) {
	codes = make([][]byte, len(crs))
	footer := p.opts.Footer["css"]
	banner := p.opts.Banner["css"]
	minify := p.opts.MinifyWhitespace
	comments := bundle && !minify
	legalAtEnd := p.opts.LegalComments == api.LegalCommentsEndOfFile || (p.opts.LegalComments == api.LegalCommentsDefault && bundle)
	inlineLegal := p.opts.LegalComments == api.LegalCommentsInline || (p.opts.LegalComments == api.LegalCommentsDefault && !bundle)
	end := len(text)
	if footer != "" {
		if !bytes.HasSuffix(text, []byte(footer+"\n")) {
			return nil, nil, false, nil, "footer-missing"
		}
		end -= len(footer) + 1
	}
	pos := 0
	if banner != "" {
		if !bytes.HasPrefix(text, []byte(banner+"\n")) {
			return nil, nil, false, nil, "banner-missing"
		}
		pos = len(banner) + 1
	}
	for _, cs := range []string{"@charset \"UTF-8\";\n", "@charset \"UTF-8\";"} {
		if bytes.HasPrefix(text[pos:end], []byte(cs)) {
			pos += len(cs)
			nbc0 = true
			break
		}
	}
	head = text[:pos]
	rest := text[pos:end]

	if !bundle {
		// one file, nothing is bundled: its code is everything up to the end-of-file legal comments / the final newline
		if len(crs) != 1 || crs[0].SourceIndex < 0 {
			return nil, nil, false, nil, "no-bundle-several-results"
		}
		t := len(rest)
		if legalAtEnd {
			if i := bytes.Index(rest, []byte("/*!")); i >= 0 {
				t = i
			}
		}
		if minify && t == len(rest) && t > 0 && rest[t-1] == '\n' {
			t-- // EnsureNewlineAtEnd
		}
		codes[0] = rest[:t]
		return codes, head, nbc0, text[pos+t:], ""
	}

	// (When a file is in a minified chunk twice in a row, all its rules are given to the first copy: the text is the
	// same and, since the metafile has one entry per input with the sum of its copies, so is the count.)
	cur := 0
	takeItem := func() {
		cur = mfCSSNextItem(rest, cur)
		if !minify && cur < len(rest) && rest[cur] == '\n' {
			cur++ // the printer ends every top-level rule with a newline unless it minifies
		}
	}
	for i, cr := range crs {
		if cr.SourceIndex < 0 {
			start := cur
			if mfCSSIsCode(rest, cur, false) && mfCSSMarker(rest[cur:mfCSSNextItem(rest, cur)]) < 0 {
				takeItem()
			}
			codes[i] = rest[start:cur]
			continue
		}
		if comments {
			line := []byte("/* " + cr.CodePath + " */\n")
			if bytes.HasPrefix(rest[cur:], append([]byte("\n"), line...)) {
				cur++
			}
			if !bytes.HasPrefix(rest[cur:], line) {
				return nil, nil, false, nil, "comment-missing"
			}
			cur += len(line)
		}
		q := cssNumber(cr)
		start := cur
		for mfCSSIsCode(rest, cur, inlineLegal) && mfCSSMarker(rest[cur:mfCSSNextItem(rest, cur)]) == q {
			takeItem()
		}
		codes[i] = rest[start:cur]
	}
	for j := cur; j < len(rest); j = mfCSSNextItem(rest, j) {
		if mfCSSIsCode(rest, j, inlineLegal) {
			return nil, nil, false, nil, "unassigned-rules"
		}
	}
	return codes, head, nbc0, text[pos+cur:], ""
}

// ---------------------------------------------------------------------------------------------------------
// one real build -> one operation per chunk

func mfRunProject(r *gen.Rand, e *emitter, root string, serial int, p *mfProject) {
	dir := filepath.Join(root, fmt.Sprintf("p%d", serial%8))
	os.RemoveAll(dir)
	for rel, c := range p.files {
		path := filepath.Join(dir, rel)
		os.MkdirAll(filepath.Dir(path), 0755)
		if err := os.WriteFile(path, []byte(c), 0644); err != nil {
			e.stat("build:cannot-write-file")
			return
		}
	}
	o := p.opts
	o.AbsWorkingDir = dir
	o.Outdir = filepath.Join(dir, "out")
	for _, en := range p.entries {
		o.EntryPoints = append(o.EntryPoints, filepath.Join(dir, en))
	}
	linker.VerifMetaCaptureStart()
	res := api.Build(o)
	ctxs := linker.VerifMetaCaptureTake()
	if len(res.Errors) > 0 {
		e.stat("build:error")
		if os.Getenv("VERIF_METAFILE_DEBUG") != "" {
			fmt.Fprintf(os.Stderr, "build error: %s\n", res.Errors[0].Text)
		}
		return
	}
	e.stat("build:ok")
	for _, t := range p.tags {
		e.stat(t)
	}
	outputs := map[string][]byte{}
	for _, f := range res.OutputFiles {
		outputs[f.Path] = f.Contents
	}
	var entries map[string]string
	for _, m := range mfMembers(res.Metafile) {
		if m.key == "outputs" {
			entries = map[string]string{}
			for _, out := range mfMembers(m.raw) {
				entries[out.key] = out.raw
			}
		}
	}
	cssNumber := func(cr linker.VerifMetaCR) int {
		for name, n := range p.cssIndex {
			if cr.CodePath == name || strings.HasSuffix(cr.CodePath, "/"+name) {
				return n
			}
		}
		return -2
	}
	asciiOnly := true
	for _, h := range ctxs {
		d := h.Dump()
		asciiOnly = d.ASCIIOnly
		for ci := range d.Chunks {
			if e.full() {
				return
			}
			mfChunkOp(e, p, &d, ci, outputs, entries, cssNumber)
		}
	}
	if !e.full() {
		mfTopOp(e, p, dir, res, entries, asciiOnly)
	}
}

type mfInEntry struct {
	Bytes   int `json:"bytes"`
	Imports []struct {
		Path     string           `json:"path"`
		Kind     string           `json:"kind"`
		External bool             `json:"external"`
		Original *string          `json:"original"`
		With     *json.RawMessage `json:"with"`
	} `json:"imports"`
	Format *string          `json:"format"`
	With   *json.RawMessage `json:"with"`
}

// mfTopOp: the whole metafile of the build. The size of every input comes from the generated project (not from
// the metafile); the other values of the inputs are read back from the metafile; the output entries are the
// exact texts of the metafile in the order of BuildResult.OutputFiles.
func mfTopOp(e *emitter, p *mfProject, dir string, res api.BuildResult, entries map[string]string, asciiOnly bool) {
	quote := func(s string) string { return hexBytes(helpers.QuoteForJSON(s, asciiOnly)) }
	minified := !strings.HasPrefix(res.Metafile, "{\n")
	var ins []string
	for _, m := range mfMembers(res.Metafile) {
		if m.key != "inputs" {
			continue
		}
		for _, in := range mfMembers(m.raw) {
			var v mfInEntry
			if err := json.Unmarshal([]byte(in.raw), &v); err != nil {
				e.stat("top:INPUT-ENTRY-NOT-JSON")
				return
			}
			if v.With != nil {
				e.stat("top:skipped-import-attributes")
				return
			}
			rel := in.key
			if filepath.IsAbs(rel) {
				if r2, err := filepath.Rel(dir, rel); err == nil {
					rel = filepath.ToSlash(r2)
				}
			}
			size := v.Bytes
			if c, ok := p.files[rel]; ok {
				size = len(c)
				e.stat("top:input-size-from-project")
			} else {
				e.stat("top:input-size-unknown")
			}
			imps := []string{}
			for _, im := range v.Imports {
				if im.With != nil {
					e.stat("top:skipped-import-attributes")
					return
				}
				orig := "~"
				if im.Original != nil {
					orig = quote(*im.Original)
					e.stat("top:import-resolved")
				} else {
					e.stat("top:import-external")
				}
				imps = append(imps, fmt.Sprintf("%s,%s,%s", quote(im.Path), quote(im.Kind), orig))
			}
			format := "~"
			if v.Format != nil {
				format = hexBytes([]byte(*v.Format))
				e.stat("top:format-" + *v.Format)
			}
			is := "."
			if len(imps) > 0 {
				is = strings.Join(imps, "+")
			}
			ins = append(ins, fmt.Sprintf("%s:%d:%s:%s", quote(in.key), size, format, is))
		}
	}
	var outs []string
	seen := map[string]bool{}
	for _, f := range res.OutputFiles {
		rel, _ := filepath.Rel(dir, f.Path)
		key := filepath.ToSlash(rel)
		raw, ok := entries[key]
		if !ok {
			key = f.Path
			raw, ok = entries[key]
		}
		if !ok {
			e.stat("top:OUTPUT-NOT-IN-METAFILE")
			return
		}
		if seen[key] {
			continue
		}
		seen[key] = true
		outs = append(outs, fmt.Sprintf("%s:%s", quote(key), hexBytes([]byte(raw))))
	}
	if len(outs) != len(entries) {
		e.stat("top:METAFILE-LISTS-OTHER-OUTPUTS")
	}
	e.stat("top")
	if minified {
		e.stat("top:minified-metafile")
	}
	e.emit(fmt.Sprintf("metafile\ttop\t%s\t%s\t%s", b01(minified), mfList(ins), mfList(outs)), hexBytes([]byte(res.Metafile)))
}

func mfChunkOp(e *emitter, p *mfProject, d *linker.VerifMetaDump, ci int, outputs map[string][]byte, entries map[string]string, cssNumber func(linker.VerifMetaCR) int) {
	ch := &d.Chunks[ci]
	if os.Getenv("VERIF_METAFILE_DEBUG") != "" {
		fmt.Fprintf(os.Stderr, "op %d: chunk %d of project with %v legal=%d entries=%v\n", e.n, ci, p.tags, p.opts.LegalComments, p.entries)
	}
	kind := "css"
	if ch.IsJS {
		kind = "js"
	}
	key := func(k byte, i int) string { return fmt.Sprintf("%s%c%08d", d.Prefix, k, i) }
	var text []byte
	if ch.Shortcut {
		text = ch.Text
		e.stat(kind + ":shortcut")
	} else {
		hasA, hasC := false, false
		for _, pc := range ch.Pieces {
			text = append(text, pc.Data...)
			switch pc.Kind {
			case 1:
				text = append(text, key('A', int(pc.Index))...)
				hasA = true
			case 2:
				text = append(text, key('C', int(pc.Index))...)
				hasC = true
			}
		}
		if hasA {
			e.stat(kind + ":asset-placeholder")
		}
		if hasC {
			e.stat(kind + ":chunk-placeholder")
		}
		if hasA && hasC {
			e.stat(kind + ":both-placeholder-kinds")
		}
	}
	final, ok := outputs[ch.AbsPath]
	if !ok {
		e.stat(kind + ":OUTPUT-FILE-MISSING")
		return
	}
	raw, ok := entries[d.ChunkJSON[ci]]
	if !ok {
		e.stat(kind + ":METAFILE-ENTRY-MISSING")
		return
	}
	var ent mfOutEntry
	if err := json.Unmarshal([]byte(raw), &ent); err != nil {
		e.stat(kind + ":METAFILE-ENTRY-NOT-JSON")
		if os.Getenv("VERIF_METAFILE_DEBUG") != "" {
			fmt.Fprintf(os.Stderr, "entry of %q is not JSON (%v): %q\n", d.ChunkJSON[ci], err, raw)
		}
		return
	}

	// the values of the head of the JSON entry, with final paths turned back into the placeholders they came from
	quote := func(s string) string { return hexBytes(helpers.QuoteForJSON(s, d.ASCIIOnly)) }
	unsubst := func(path string) string {
		for j, cp := range d.ChunkJSON {
			if cp == path {
				return key('C', j)
			}
		}
		for i, ap := range d.AssetJSON {
			if ap != "" && ap == path {
				return key('A', i)
			}
		}
		return path
	}
	imports := []string{}
	for _, im := range ent.Imports {
		pre := im.Path
		if !im.External {
			pre = unsubst(im.Path)
			if pre != im.Path {
				e.stat(kind + ":json-import-with-placeholder")
			}
		} else {
			e.stat(kind + ":json-import-external")
		}
		imports = append(imports, fmt.Sprintf("%s:%s:%s", quote(pre), quote(im.Kind), b01(im.External)))
	}
	exports := []string{}
	for _, x := range ent.Exports {
		exports = append(exports, quote(x))
	}
	entry, css := "~", "~"
	if ent.EntryPoint != nil {
		entry = quote(*ent.EntryPoint)
		e.stat(kind + ":json-entryPoint")
	}
	if ent.CSSBundle != nil {
		css = quote(unsubst(*ent.CSSBundle))
		e.stat(kind + ":json-cssBundle")
	}

	legal := mfOpt(ch.LegalLink, ch.LegalLink != "")
	if ch.LegalLink != "" {
		e.stat(kind + ":legal-link-appended")
	}
	sm := "~"
	if ch.SourceMapURL != "" {
		sm = hexBytes([]byte(ch.SourceMapURL))
		e.stat(kind + ":sourcemap-link-appended")
	} else if ch.InlineMap {
		marker := []byte("# sourceMappingURL=")
		i := bytes.LastIndex(final, marker)
		if i < 0 {
			e.stat(kind + ":INLINE-MAP-MISSING")
			return
		}
		url := final[i+len(marker):]
		url = bytes.TrimSuffix(url, []byte("\n"))
		if !ch.IsJS {
			url = bytes.TrimSuffix(url, []byte(" */"))
		}
		sm = hexBytes(url)
		e.stat(kind + ":sourcemap-inline-appended")
	}

	comments := d.Bundle && !d.MinifyWhitespace
	undef := func(i int) bool { return ch.AssetPaths[i] == "" }
	undefJ := func(i int) bool { return d.AssetJSON[i] == "" }
	common := fmt.Sprintf("%s\t%s\t%s\t%s", mfTable(ch.AssetPaths, undef), mfTable(ch.ChunkPaths, nil), mfTable(d.AssetJSON, undefJ), mfTable(d.ChunkJSON, nil))
	expected := fmt.Sprintf("wk=1 short=%s text=%s final=%s json=%s", b01(ch.Shortcut), hexBytes(text), hexBytes(final), hexBytes([]byte(raw)))
	if d.MinifiedMetafile {
		e.stat(kind + ":minified-metafile")
	}

	if ch.IsJS {
		indent := ""
		if d.IIFE {
			indent = "  "
		}
		head, tail, ok := mfAlignJS(text, ch.CRs, comments, indent)
		if !ok {
			// the compile results printed again do not occur in the chunk: report it as a disagreement
			e.stat("js:REPLAY-DOES-NOT-MATCH-CHUNK")
			e.emit("metafile\treplay-mismatch", expected)
			return
		}
		items := []string{}
		perSource := map[int]int{}
		nonEmpty, omitted := 0, 0
		for _, cr := range ch.CRs {
			items = append(items, fmt.Sprintf("%d:%s:%s:%s:%s", cr.SourceIndex, b01(cr.Omit), hexBytes(cr.Code), hexBytes([]byte(cr.CodePath)), hexBytes(cr.MetaPath)))
			if len(cr.Code) > 0 {
				nonEmpty++
				if !cr.Omit {
					perSource[cr.SourceIndex]++
				}
			} else {
				e.stat("js:empty-compile-result")
			}
			if cr.Omit {
				omitted++
			}
		}
		for _, n := range perSource {
			if n > 1 {
				e.stat("js:input-in-several-slices")
				break
			}
		}
		if omitted > 0 {
			e.stat("js:runtime-in-chunk")
		}
		if comments {
			e.stat("js:comments")
		} else {
			e.stat("js:no-comments")
		}
		if len(ch.CRs) == 0 {
			e.stat("js:no-compile-results")
		}
		e.stat("js")
		e.emit(fmt.Sprintf("metafile\tjs\t%s\t%d\t%d\t%s\t%s\t%s\t%s\t%s\t%s\t%s\t%s\t%s\t%s\t%s\t%s\t%s",
			hexBytes([]byte(d.Prefix)), d.NFiles, len(d.Chunks), b01(comments), b01(d.MinifiedMetafile), hexBytes([]byte(indent)),
			hexBytes(head), hexBytes(tail), mfList(items), common, legal, sm, mfList(imports), mfList(exports), entry, css), expected)
		return
	}

	codes, head, nbc0, tail, why := mfAlignCSS(text, ch.CRs, p, d.Bundle, cssNumber)
	if why != "" {
		e.stat("css:cannot-cut:" + why)
		return
	}
	items := []string{}
	seen := map[int]bool{}
	for i, cr := range ch.CRs {
		src := "~"
		if cr.SourceIndex >= 0 {
			src = strconv.Itoa(cr.SourceIndex)
			if seen[cr.SourceIndex] {
				e.stat("css:same-source-twice")
			}
			seen[cr.SourceIndex] = true
			if len(codes[i]) == 0 {
				e.stat("css:empty-compile-result")
			}
		} else {
			e.stat("css:compile-result-without-source")
		}
		items = append(items, fmt.Sprintf("%s:%s:%s:%s", src, hexBytes(codes[i]), hexBytes([]byte(cr.CodePath)), hexBytes(cr.MetaPath)))
	}
	if comments {
		e.stat("css:comments")
	} else {
		e.stat("css:no-comments")
	}
	e.stat("css")
	if nbc0 {
		e.stat("css:charset-in-head")
	}
	e.emit(fmt.Sprintf("metafile\tcss\t%s\t%d\t%d\t%s\t%s\t%s\t%s\t%s\t%s\t%s\t%s\t%s\t%s\t%s",
		hexBytes([]byte(d.Prefix)), d.NFiles, len(d.Chunks), b01(comments), b01(nbc0), b01(d.MinifiedMetafile),
		hexBytes(head), hexBytes(tail), mfList(items), common, legal, sm, mfList(imports), entry), expected)
}

func init() {
	kernels["metafile"] = func(r *gen.Rand, e *emitter, tier string) {
		root, err := os.MkdirTemp("", "verif-metafile-")
		if err != nil {
			panic(err)
		}
		defer os.RemoveAll(root)
		serial := 0
		for !e.full() {
			switch k := r.Intn(20); {
			case k < 9:
				mfCountCase(r, e)
			case k < 11:
				mfBreakJoinerCase(r, e)
			case k == 11 && r.Chance(1, 4):
				// malformed operations
				e.stat("malformed")
				e.emit([]string{"metafile\tcount\t.\t.", "metafile\tcount\tzz\t.\t-", "metafile\tcount\t.\t.\t61:7", "metafile\tjs\t-\t0", "metafile\tcss", "metafile\tsubst\t.\t~ 6\t-", "metafile\tbreakjoiner\t-\tx\t0\t.", "metafile\tnope", "metafile\ttop\t2\t.\t.", "metafile\ttop\t0\t61:1:~\t."}[r.Intn(10)], "bad-op")
			default:
				serial++
				mfRunProject(r, e, root, serial, mfGenProject(r.Fork(), r.Chance(1, 300))) // 1 in 300: > 256 files, the metafile is minified
			}
		}
	}
}
