package main

import (
	"fmt"
	"math"
	"strconv"
	"strings"

	"github.com/evanw/esbuild/internal/ast"
	"github.com/evanw/esbuild/internal/config"
	"github.com/evanw/esbuild/internal/js_ast"
	"github.com/evanw/esbuild/internal/js_lexer"
	"github.com/evanw/esbuild/internal/js_printer"
	"github.com/evanw/esbuild/internal/logger"
	"github.com/evanw/esbuild/internal/renamer"
)

const stmtSymbols = 2000

func stmtName(n int) string {
	switch n {
	case 0:
		return "let"
	case 1:
		return "async"
	}
	return fmt.Sprintf("x%d", n)
}

func stmtSymbolMap() ast.SymbolMap {
	symbols := ast.NewSymbolMap(1)
	for i := 0; i < stmtSymbols; i++ {
		symbols.SymbolsForSource[0] = append(symbols.SymbolsForSource[0],
			ast.Symbol{OriginalName: stmtName(i), Kind: ast.SymbolUnbound, Link: ast.InvalidRef})
	}
	return symbols
}

func stmtRef(n int) ast.Ref { return ast.Ref{SourceIndex: 0, InnerIndex: uint32(n)} }

// sxAST is pexpr.toAST with the atoms: 2 EObject, 3 EFunction, 4 EClass, 5 async EFunction
func sxAST(x *pexpr) js_ast.Expr {
	switch x.kind {
	case 'i':
		switch x.n {
		case 2:
			return js_ast.Expr{Data: &js_ast.EObject{}}
		case 3:
			return js_ast.Expr{Data: &js_ast.EFunction{}}
		case 4:
			return js_ast.Expr{Data: &js_ast.EClass{}}
		case 5:
			return js_ast.Expr{Data: &js_ast.EFunction{Fn: js_ast.Fn{IsAsync: true}}}
		}
		return js_ast.Expr{Data: &js_ast.EIdentifier{Ref: stmtRef(x.n)}}
	case 'n':
		return js_ast.Expr{Data: &js_ast.ENumber{Value: float64(x.n)}}
	case 'u':
		if x.foldLeaf && x.op == js_ast.UnOpNeg {
			return js_ast.Expr{Data: &js_ast.ENumber{Value: math.Copysign(float64(x.kids[0].n), -1)}}
		}
		if x.foldLeaf && x.op == js_ast.UnOpVoid {
			return js_ast.Expr{Data: js_ast.EUndefinedShared}
		}
		v := sxAST(x.kids[0])
		_, isID := v.Data.(*js_ast.EIdentifier)
		return js_ast.Expr{Data: &js_ast.EUnary{Op: x.op, Value: v,
			WasOriginallyTypeofIdentifier:                   isID,
			WasOriginallyDeleteOfIdentifierOrPropertyAccess: isID || js_ast.IsPropertyAccess(v)}}
	case 'b':
		return js_ast.Expr{Data: &js_ast.EBinary{Op: x.op, Left: sxAST(x.kids[0]), Right: sxAST(x.kids[1])}}
	case 'c':
		return js_ast.Expr{Data: &js_ast.EIf{Test: sxAST(x.kids[0]), Yes: sxAST(x.kids[1]), No: sxAST(x.kids[2])}}
	case 'd':
		return js_ast.Expr{Data: &js_ast.EDot{Target: sxAST(x.kids[0]), Name: fmt.Sprintf("x%d", x.n)}}
	case 'x':
		return js_ast.Expr{Data: &js_ast.EIndex{Target: sxAST(x.kids[0]), Index: sxAST(x.kids[1])}}
	case 'k', 'w':
		t := sxAST(x.kids[0])
		args := []js_ast.Expr{}
		for _, k := range x.kids[1:] {
			args = append(args, sxAST(k))
		}
		if x.kind == 'w' {
			return js_ast.Expr{Data: &js_ast.ENew{Target: t, Args: args}}
		}
		kind := js_ast.NormalCall
		if js_ast.IsPropertyAccess(t) {
			kind = js_ast.TargetWasOriginallyPropertyAccess
		}
		return js_ast.Expr{Data: &js_ast.ECall{Target: t, Args: args, Kind: kind}}
	}
	panic("pexpr kind")
}

func stmtLocalKind(dk byte) js_ast.LocalKind {
	switch dk {
	case 'l':
		return js_ast.LocalLet
	case 'c':
		return js_ast.LocalConst
	}
	return js_ast.LocalVar
}

func stmtDecls(ds []sdecl) []js_ast.Decl {
	out := []js_ast.Decl{}
	for _, d := range ds {
		decl := js_ast.Decl{Binding: js_ast.Binding{Data: &js_ast.BIdentifier{Ref: stmtRef(d.n)}}}
		if d.e != nil {
			decl.ValueOrNil = sxAST(d.e)
		}
		out = append(out, decl)
	}
	return out
}

func optAST(x *pexpr) js_ast.Expr {
	if x == nil {
		return js_ast.Expr{}
	}
	return sxAST(x)
}

func (s *snode) toAST() js_ast.Stmt {
	kid := func(i int) js_ast.Stmt { return s.kids[i].toAST() }
	switch s.kind {
	case "E":
		return js_ast.Stmt{Data: &js_ast.SExpr{Value: sxAST(s.e)}}
	case "Z":
		return js_ast.Stmt{Data: &js_ast.SEmpty{}}
	case "B":
		return js_ast.Stmt{Data: &js_ast.SBlock{Stmts: stmtListAST(s.kids)}}
	case "I":
		return js_ast.Stmt{Data: &js_ast.SIf{Test: sxAST(s.e), Yes: kid(0)}}
	case "J":
		return js_ast.Stmt{Data: &js_ast.SIf{Test: sxAST(s.e), Yes: kid(0), NoOrNil: kid(1)}}
	case "D":
		return js_ast.Stmt{Data: &js_ast.SDoWhile{Body: kid(0), Test: sxAST(s.e)}}
	case "A":
		return js_ast.Stmt{Data: &js_ast.SLabel{Name: ast.LocRef{Ref: stmtRef(s.n)}, Stmt: kid(0)}}
	case "R0":
		return js_ast.Stmt{Data: &js_ast.SReturn{}}
	case "R":
		return js_ast.Stmt{Data: &js_ast.SReturn{ValueOrNil: sxAST(s.e)}}
	case "T":
		return js_ast.Stmt{Data: &js_ast.SThrow{Value: sxAST(s.e)}}
	case "K0":
		return js_ast.Stmt{Data: &js_ast.SBreak{}}
	case "C0":
		return js_ast.Stmt{Data: &js_ast.SContinue{}}
	case "K":
		return js_ast.Stmt{Data: &js_ast.SBreak{Label: &ast.LocRef{Ref: stmtRef(s.n)}}}
	case "C":
		return js_ast.Stmt{Data: &js_ast.SContinue{Label: &ast.LocRef{Ref: stmtRef(s.n)}}}
	case "V":
		return js_ast.Stmt{Data: &js_ast.SLocal{Kind: stmtLocalKind(s.dk), Decls: stmtDecls(s.decls)}}
	case "X":
		return js_ast.Stmt{Data: &js_ast.SExportDefault{DefaultName: ast.LocRef{Ref: stmtRef(stmtSymbols - 1)},
			Value: js_ast.Stmt{Data: &js_ast.SExpr{Value: sxAST(s.e)}}}}
	case "L":
		headInit := func() js_ast.Stmt {
			if s.initKind == 'E' {
				return js_ast.Stmt{Data: &js_ast.SExpr{Value: sxAST(s.init)}}
			}
			return js_ast.Stmt{Data: &js_ast.SLocal{Kind: stmtLocalKind(s.dk), Decls: stmtDecls([]sdecl{{n: s.n}})}}
		}
		switch s.hk {
		case 'F':
			f := &js_ast.SFor{TestOrNil: optAST(s.test), UpdateOrNil: optAST(s.upd), Body: kid(0)}
			if s.initKind == 'E' {
				f.InitOrNil = js_ast.Stmt{Data: &js_ast.SExpr{Value: sxAST(s.init)}}
			} else if s.initKind == 'V' {
				f.InitOrNil = js_ast.Stmt{Data: &js_ast.SLocal{Kind: stmtLocalKind(s.dk), Decls: stmtDecls(s.decls)}}
			}
			return js_ast.Stmt{Data: f}
		case 'G':
			return js_ast.Stmt{Data: &js_ast.SForIn{Init: headInit(), Value: sxAST(s.val), Body: kid(0)}}
		case 'O':
			f := &js_ast.SForOf{Init: headInit(), Value: sxAST(s.val), Body: kid(0)}
			if s.aw {
				f.Await = logger.Range{Loc: logger.Loc{Start: 1}, Len: 5}
			}
			return js_ast.Stmt{Data: f}
		case 'W':
			return js_ast.Stmt{Data: &js_ast.SWhile{Test: sxAST(s.test), Body: kid(0)}}
		}
	}
	panic("snode kind " + s.kind)
}

func stmtListAST(ss []*snode) []js_ast.Stmt {
	out := []js_ast.Stmt{}
	for _, s := range ss {
		out = append(out, s.toAST())
	}
	return out
}

// stmtLex cuts text into raw token texts with the real lexer; "NL" marks a line break before a token / the end
func stmtLex(text string) (toks []string, ok bool) {
	defer func() {
		if r := recover(); r != nil {
			ok = false
		}
	}()
	log := logger.NewDeferLog(logger.DeferLogAll, nil)
	lx := js_lexer.NewLexer(log, logger.Source{Contents: text}, config.TSOptions{})
	for {
		if lx.HasNewlineBefore && len(toks) > 0 {
			toks = append(toks, "NL")
		}
		if lx.Token == js_lexer.TEndOfFile {
			break
		}
		toks = append(toks, lx.Raw())
		lx.Next()
	}
	return toks, !log.HasErrors()
}

func stmtRealPrint(ss []*snode, minify bool) (text string, pieces string, ok bool) {
	symbols := stmtSymbolMap()
	tree := js_ast.AST{Parts: []js_ast.Part{{Stmts: stmtListAST(ss)}}}
	res := js_printer.Print(tree, symbols, renamer.NewNoOpRenamer(symbols), js_printer.Options{MinifyWhitespace: minify})
	text = string(res.JS)
	toks, ok := stmtLex(text)
	if !ok {
		return text, "LEX-ERROR " + strconv.Quote(text), false
	}
	return text, strings.Join(toks, " "), true
}
