package main

import (
	"fmt"
	"strings"

	"github.com/evanw/esbuild/internal/compat"
	"github.com/evanw/esbuild/verifharness/gen"
)

func init() {
	kernels["compat"] = func(r *gen.Rand, e *emitter, tier string) {
		engines := []compat.Engine{compat.Chrome, compat.Deno, compat.Edge, compat.ES, compat.Firefox, compat.Hermes, compat.IE, compat.IOS, compat.Node, compat.Opera, compat.Rhino, compat.Safari}
		names := []string{"Chrome", "Deno", "Edge", "ES", "Firefox", "Hermes", "IE", "IOS", "Node", "Opera", "Rhino", "Safari"}
		for !e.full() {
			if r.Chance(1, 5) {
				f, o, m := r.U64(), r.U64(), r.U64()
				e.stat("overrides")
				e.emit(fmt.Sprintf("compat\toverrides\t%d\t%d\t%d", f, o, m), fmt.Sprint(uint64(compat.JSFeature(f).ApplyOverrides(compat.JSFeature(o), compat.JSFeature(m)))))
				continue
			}
			n := 1 + r.Intn(3)
			if r.Chance(1, 20) {
				n = 0
			}
			cons := map[compat.Engine]compat.Semver{}
			parts := []string{}
			for i := 0; i < n; i++ {
				ei := r.Intn(len(engines))
				if _, dup := cons[engines[ei]]; dup {
					continue
				}
				var v []int
				if names[ei] == "ES" {
					v = []int{2014 + r.Intn(13)}
					if r.Chance(1, 10) {
						v = []int{5 + r.Intn(2)}
					}
				} else {
					v = []int{r.Intn(130)}
					for k := 0; k < r.Intn(3); k++ {
						v = append(v, r.Intn(25))
					}
				}
				sv := compat.Semver{Parts: v}
				strs := make([]string, len(v))
				for k, x := range v {
					strs[k] = fmt.Sprint(x)
				}
				s := strings.Join(strs, ".")
				if r.Chance(1, 6) {
					sv.PreRelease = "-pre"
					s += "-pre"
				}
				cons[engines[ei]] = sv
				parts = append(parts, names[ei]+":"+s)
			}
			arg := "."
			if len(parts) > 0 {
				arg = strings.Join(parts, " ")
			}
			e.stat(fmt.Sprintf("constraints-%d", len(parts)))
			e.emit("compat\tunsupported\t"+arg, fmt.Sprint(uint64(compat.UnsupportedJSFeatures(cons))))
		}
	}
}
