package main

// one generated project + one real build of kernel `assethash` (see k_assethash.go)

import (
	"fmt"
	"path/filepath"
	"strings"

	"github.com/evanw/esbuild/pkg/api"
	"github.com/evanw/esbuild/verifharness/gen"
)

var ahEntryNames = []string{"", "", "", "[dir]/[name]", "[name]", "[name]-[hash]", "[name]-[hash]", "[dir]/[name]-[hash]",
	"e/[name].[hash]", "[hash]/[name]", "[ext]/[name]-[hash]", "x[name]y[hash]z", "[hash]", "[name]-[hash]-[hash]", "[name]-[hash]["}
var ahAssetNames = []string{"", "", "", "[name]-[hash]", "assets/[name]-[hash]", "[dir]/[name]", "[name]", "[hash]",
	"[ext]/[name].[hash]", "a/[hash]/[name]", "[dir]/[name]-[hash]", "../shared/[name]-[hash]", "[name]-[hash]-[hash]",
	"x[", "[hash][name]", "s\\[name]", "[name]-[hash].[ext]"}
var ahPublicPaths = []string{"", "", "", "", "/static", "/static/", "https://cdn.example.com/x/", ".", "./", "pp", "//", "/"}

type ahEntry struct {
	in, out, rel string
	importer     int // -1: an asset
}

type ahCase struct {
	loaders       map[string]api.Loader
	loaderOf      map[string]string
	outfile       string
	sources       []ahSource
	refs          []ahRefGen
	reach         []bool
	entries       []ahEntry
	importerFiles map[string]string
}

var ahSuffixes = []string{"?v=2", "#frag", "?a=1#b", "?"}

func (p *ahProj) one(r *gen.Rand, e *emitter) {
	// loaders
	loaderOf := map[string]string{}
	loaders := map[string]api.Loader{}
	for _, x := range ahExts {
		l := "copy"
		switch x {
		case ".png":
			if !r.Chance(1, 5) {
				l = "file"
			}
		case ".bin", "", ".module.css":
			if r.Chance(1, 5) {
				l = "file"
			}
		default:
			if r.Bool() {
				l = "file"
			}
		}
		loaderOf[x] = l
		loaders[x] = map[string]api.Loader{"file": api.LoaderFile, "copy": api.LoaderCopy}[l]
	}

	// importers: which are active, who imports whom (only towards later ones), references to assets
	var sources []ahSource
	srcIndex := map[ahSource]int{}
	addSource := func(s ahSource) int {
		if i, ok := srcIndex[s]; ok {
			return i
		}
		srcIndex[s] = len(sources)
		sources = append(sources, s)
		return len(sources) - 1
	}
	nImp := len(ahImporters)
	active := make([]bool, nImp)
	for i := range active {
		active[i] = r.Chance(1, 2)
	}
	if r.Chance(1, 6) {
		for i := range active {
			active[i] = false // assets only as entry points
		}
	}
	edges := make([][]int, nImp)
	body := make([]string, nImp)
	var refs []ahRefGen
	marker := 0
	for i := 0; i < nImp; i++ {
		if !active[i] {
			continue
		}
		isCSS := strings.HasSuffix(ahImporters[i], ".css")
		var sb strings.Builder
		for j := i + 1; j < nImp; j++ {
			if active[j] && r.Chance(1, 3) && (!isCSS || strings.HasSuffix(ahImporters[j], ".css")) {
				edges[i] = append(edges[i], j)
				if isCSS {
					fmt.Fprintf(&sb, "@import %q;\n", ahRelImport(ahImporters[i], ahImporters[j]))
				} else {
					fmt.Fprintf(&sb, "import %q;\n", ahRelImport(ahImporters[i], ahImporters[j]))
				}
			}
		}
		var tail strings.Builder
		for n := r.Intn(4); n > 0; n-- {
			a := ahAssetFiles[r.Intn(len(ahAssetFiles))]
			sfx := ""
			if r.Chance(1, 5) {
				sfx = r.Pick(ahSuffixes)
				e.stat("ref-with-ignored-suffix")
			}
			si := addSource(ahSource{a, sfx})
			marker++
			refs = append(refs, ahRefGen{marker, i, si})
			path := ahRelImport(ahImporters[i], a) + sfx
			switch {
			case isCSS:
				fmt.Fprintf(&tail, ".k%d { background: url(%q) }\n", marker, path)
				e.stat("ref-css-url")
			case loaderOf[ahLoaderKey(a)] == "file" || r.Chance(1, 2):
				fmt.Fprintf(&sb, "import k%d from %q;\n", marker, path)
				fmt.Fprintf(&tail, "console.log(\"K%d\", k%d);\n", marker, marker)
				e.stat("ref-js-import")
			case r.Bool():
				fmt.Fprintf(&tail, "console.log(\"K%d\", require(%q));\n", marker, path)
				e.stat("ref-js-require-copy")
			default:
				fmt.Fprintf(&tail, "console.log(\"K%d\", import(%q));\n", marker, path)
				e.stat("ref-js-dynamic-import-copy")
			}
		}
		body[i] = sb.String() + tail.String()
	}

	// entry points
	outfile := ""
	useOutfile := r.Chance(1, 12)
	var entries []ahEntry
	var actives []int
	for i := range active {
		if active[i] {
			actives = append(actives, i)
		}
	}
	customOut := func() string {
		if r.Chance(1, 3) {
			e.stat("entry-custom-out")
			return r.Pick([]string{"x", "sub/x", "renamed.dat", "../up", "a", "data/a", "q-AAAAAAAA.r", filepath.Join(p.cwd, "out/abs")})
		}
		return ""
	}
	inputForm := func(rel string) string {
		switch r.Intn(5) {
		case 0:
			return "./" + rel
		case 1:
			return filepath.Join(p.cwd, rel)
		}
		return rel
	}
	if len(actives) > 0 {
		n := 1 + r.Intn(2)
		for k := 0; k < n; k++ {
			i := actives[r.Intn(len(actives))]
			dupe := false
			for _, x := range entries {
				dupe = dupe || x.importer == i
			}
			if !dupe {
				entries = append(entries, ahEntry{inputForm(ahImporters[i]), customOut(), ahImporters[i], i})
			}
		}
	}
	nAssetEntries := r.Intn(3)
	if len(actives) == 0 && nAssetEntries == 0 {
		nAssetEntries = 1
	}
	for k := 0; k < nAssetEntries; k++ {
		a := ahAssetFiles[r.Intn(len(ahAssetFiles))]
		if k > 0 && r.Chance(1, 4) {
			a = entries[len(entries)-1].rel // the same file twice: the last entry point wins
			if entries[len(entries)-1].importer != -1 {
				continue
			}
			e.stat("entry-asset-twice")
		}
		entries = append(entries, ahEntry{inputForm(a), customOut(), a, -1})
		addSource(ahSource{a, ""})
		e.stat("entry-asset-" + loaderOf[ahLoaderKey(a)])
	}
	if useOutfile {
		entries = entries[len(entries)-1:]
		// the output of a "copy" entry point is an asset of this kernel, any other entry point gives a chunk:
		// the name tells the harness which is which
		switch x := entries[0]; {
		case x.importer == -1 && loaderOf[ahLoaderKey(x.rel)] == "copy":
			outfile = r.Pick([]string{"out/single.bin", "o.x.y", "out/noext", "single"})
		case x.importer >= 0 && strings.HasSuffix(x.rel, ".css"):
			outfile = "out/bundle.css"
		default:
			outfile = "out/bundle.js"
		}
	}

	// reachable importers
	reach := make([]bool, nImp)
	var visit func(i int)
	visit = func(i int) {
		if !reach[i] {
			reach[i] = true
			for _, j := range edges[i] {
				visit(j)
			}
		}
	}
	for _, x := range entries {
		if x.importer >= 0 {
			visit(x.importer)
		}
	}
	for i := range reach {
		if cur, ok := p.written[ahImporters[i]]; reach[i] && (!ok || cur != body[i]) {
			p.write(ahImporters[i], []byte(body[i]))
			p.written[ahImporters[i]] = body[i]
		}
	}
	files := map[string]string{}
	for i := range reach {
		if reach[i] {
			files[ahImporters[i]] = body[i]
		}
	}
	p.build(r, e, ahCase{loaders: loaders, loaderOf: loaderOf, outfile: outfile, sources: sources, refs: refs, reach: reach,
		entries: entries, importerFiles: files})
}
