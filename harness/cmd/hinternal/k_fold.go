package main

import (
	"fmt"
	"math"
	"strconv"
	"strings"

	"github.com/evanw/esbuild/internal/ast"
	"github.com/evanw/esbuild/internal/config"
	"github.com/evanw/esbuild/internal/helpers"
	"github.com/evanw/esbuild/internal/js_ast"
	"github.com/evanw/esbuild/internal/js_parser"
	"github.com/evanw/esbuild/internal/logger"
	"github.com/evanw/esbuild/verifharness/gen"
)

// kernel "fold": compile-time evaluation of operators on literals.
//   bin     real js_ast.FoldBinaryOperator on hand-built operands
//   should  real js_ast.ShouldFoldBinaryOperatorWhenMinifying (the printed-length estimate is passed as an oracle)
//   eq      real js_ast.CheckEqualityIfNoSideEffects
//   tonum / tostr / typeof / tobool / tonull / prim   the exported helper of that name
//   s2n     js_ast.StringToEquivalentNumberValue, trystr  js_ast.TryToStringOnNumberSafely(_, 10)
//   un      unary operators through js_parser.Parse of `x = OP (LITERAL);` with and without MinifySyntax
// Numbers travel as bit patterns (every NaN as 7ff8000000000000), strings as UTF-16 units.

const foldNaN = 0x7ff8000000000000

func foldBits(f float64) uint64 {
	if math.IsNaN(f) {
		return foldNaN
	}
	return math.Float64bits(f)
}

type foldOperand struct {
	wire string
	expr js_ast.Expr
	src  string // JavaScript source of the literal ("" if it cannot be written as source)
}

var foldSpecialNums = []float64{
	math.NaN(), 0, math.Copysign(0, -1), math.Inf(1), math.Inf(-1), 1, -1, 0.5, -0.5, 2, -2, 3, -3, 10, 100, 1000, 255, 256, 65535,
	2147483647, 2147483648, 2147483649, -2147483647, -2147483648, -2147483649,
	4294967295, 4294967296, 4294967297, -4294967295, -4294967296, -4294967297,
	9007199254740991, 9007199254740992, 9007199254740994, -9007199254740991, -9007199254740992,
	9223372036854775808, 18446744073709551616, 1e21, 1e22, 1e300, -1e300, 1.5, 2.5, -1.5, 1.0 / 3, 0.1,
	5e-324, -5e-324, 2.2250738585072014e-308, 2.225073858507201e-308, 1.7976931348623157e308, -1.7976931348623157e308,
	31, 32, 33, 63, 64, 65, -31, -32, -33, 4294967327, -4294967265, 1e10, 123456789, 0.999999, 7, 8, 9, 99, 999, 9999,
}

func foldNum(r *gen.Rand) float64 {
	switch r.Intn(6) {
	case 0, 1:
		return foldSpecialNums[r.Intn(len(foldSpecialNums))]
	case 2:
		return float64(r.Intn(81) - 40)
	case 3:
		return float64(r.Intn(81)-40) / []float64{2, 4, 3, 10}[r.Intn(4)]
	default:
		return math.Float64frombits(r.F64Bits())
	}
}

func foldNumSrc(f float64) string {
	switch {
	case math.IsNaN(f):
		return "NaN"
	case math.IsInf(f, 1):
		return "Infinity"
	case math.IsInf(f, -1):
		return "-Infinity"
	case math.Signbit(f):
		return "-" + strconv.FormatFloat(-f, 'e', -1, 64)
	}
	return strconv.FormatFloat(f, 'e', -1, 64)
}

var foldDigitStrings = []string{"0", "1", "7", "12", "-5", "-0", "00", "007", "-", "--1", "+1", "2147483647", "2147483648", "-2147483648",
	"-2147483649", "4294967296", "4294967297", "99999999999", "1e3", " 1", "1 ", "1.0", "0x10", "-12345", "123456789", "-2147483647",
	"21474836470", "8589934592", "-4294967295", "६", "1a", "a1", "-00", "-01", "10", "100", "-10"}

func foldUnits(r *gen.Rand) []uint16 {
	switch r.Intn(8) {
	case 0:
		return []uint16{}
	case 1:
		return helpers.StringToUTF16(foldDigitStrings[r.Intn(len(foldDigitStrings))])
	case 2: // random digits, possibly signed
		n := 1 + r.Intn(11)
		u := []uint16{}
		if r.Chance(1, 3) {
			u = append(u, '-')
		}
		for i := 0; i < n; i++ {
			u = append(u, uint16('0'+r.Intn(10)))
		}
		return u
	case 3: // surrogate halves and boundary units
		n := 1 + r.Intn(4)
		u := make([]uint16, n)
		for i := range u {
			u[i] = []uint16{0xD800, 0xDBFF, 0xDC00, 0xDFFF, 0xFFFF, 0, 0x7F, 0x80, 0xE000, 'a'}[r.Intn(10)]
		}
		return u
	default: // small alphabet so that common prefixes are frequent
		n := r.Intn(5)
		u := make([]uint16, n)
		for i := range u {
			u[i] = []uint16{'a', 'b', 'a', 0xD83D, 0xFF61, '0'}[r.Intn(6)]
		}
		return u
	}
}

var foldBigInts = []string{"0", "1", "5", "10", "123", "99999999999999999999999", "0x0", "0x1", "0X1F", "0b0", "0b101", "0B1", "0o0", "0o17", "0O7", "0xff", "0xFF", "9", "12", "100"}
var foldBadBigInts = []string{"", "00", "01", "0x", "x", "1_0"}
var foldRegExps = []string{"/a/", "/a/g", "/[/]/i", "/1/", "/\\d+/u", "/(?:)/"}

func foldAtom(r *gen.Rand, malformed bool) foldOperand {
	switch r.Intn(16) {
	case 0:
		return foldOperand{"N", js_ast.Expr{Data: js_ast.ENullShared}, "null"}
	case 1:
		return foldOperand{"U", js_ast.Expr{Data: js_ast.EUndefinedShared}, "void 0"}
	case 2:
		b := r.Bool()
		if b {
			return foldOperand{"T", js_ast.Expr{Data: &js_ast.EBoolean{Value: true}}, "true"}
		}
		return foldOperand{"F", js_ast.Expr{Data: &js_ast.EBoolean{Value: false}}, "false"}
	case 3, 4, 5, 6:
		f := foldNum(r)
		return foldOperand{fmt.Sprintf("n%016x", foldBits(f)), js_ast.Expr{Data: &js_ast.ENumber{Value: f}}, foldNumSrc(f)}
	case 7, 8, 9:
		u := foldUnits(r)
		var sb strings.Builder
		sb.WriteByte('"')
		for _, c := range u {
			fmt.Fprintf(&sb, "\\u%04X", c)
		}
		sb.WriteByte('"')
		return foldOperand{"s" + hexU16(u), js_ast.Expr{Data: &js_ast.EString{Value: u}}, sb.String()}
	case 10:
		t := foldBigInts[r.Intn(len(foldBigInts))]
		src := t + "n"
		if malformed && r.Chance(1, 3) {
			t = foldBadBigInts[r.Intn(len(foldBadBigInts))]
			src = ""
		}
		return foldOperand{"b" + hexBytes([]byte(t)), js_ast.Expr{Data: &js_ast.EBigInt{Value: t}}, src}
	case 11:
		t := foldRegExps[r.Intn(len(foldRegExps))]
		return foldOperand{"r" + hexBytes([]byte(t)), js_ast.Expr{Data: &js_ast.ERegExp{Value: t}}, t}
	case 12:
		return foldOperand{"A", js_ast.Expr{Data: &js_ast.EArray{}}, "[]"}
	case 13:
		return foldOperand{"O", js_ast.Expr{Data: &js_ast.EObject{}}, "{}"}
	case 14:
		if r.Bool() {
			return foldOperand{"L", js_ast.Expr{Data: &js_ast.EFunction{}}, "function(){}"}
		}
		return foldOperand{"L", js_ast.Expr{Data: &js_ast.EArrow{}}, "()=>{}"}
	default:
		k := r.Intn(3)
		return foldOperand{fmt.Sprintf("i%d", k), js_ast.Expr{Data: &js_ast.EIdentifier{Ref: ast.Ref{InnerIndex: uint32(k)}}}, "y"}
	}
}

// wrap puts EInlinedEnum / EAnnotation nodes around an operand (hand-built trees only; the source form is lost)
func foldWrap(r *gen.Rand, o foldOperand) foldOperand {
	for r.Chance(1, 5) {
		switch r.Intn(3) {
		case 0:
			o = foldOperand{"e" + o.wire, js_ast.Expr{Data: &js_ast.EInlinedEnum{Value: o.expr, Comment: "c"}}, ""}
		case 1:
			o = foldOperand{"a" + o.wire, js_ast.Expr{Data: &js_ast.EAnnotation{Value: o.expr, Flags: js_ast.CanBeRemovedIfUnusedFlag}}, ""}
		default:
			o = foldOperand{"p" + o.wire, js_ast.Expr{Data: &js_ast.EAnnotation{Value: o.expr}}, ""}
		}
	}
	return o
}

func foldNumOperand(f float64) foldOperand {
	return foldOperand{fmt.Sprintf("n%016x", foldBits(f)), js_ast.Expr{Data: &js_ast.ENumber{Value: f}}, foldNumSrc(f)}
}

func foldStrOperand(u []uint16) foldOperand {
	return foldOperand{"s" + hexU16(u), js_ast.Expr{Data: &js_ast.EString{Value: u}}, ""}
}

// foldWire serialises a result expression; "?" for a node kind outside the model (never expected)
func foldWire(e js_ast.Expr) string {
	switch d := e.Data.(type) {
	case nil:
		return "none"
	case *js_ast.ENull:
		return "N"
	case *js_ast.EUndefined:
		return "U"
	case *js_ast.EBoolean:
		if d.Value {
			return "T"
		}
		return "F"
	case *js_ast.ENumber:
		return fmt.Sprintf("n%016x", foldBits(d.Value))
	case *js_ast.EString:
		return "s" + hexU16(d.Value)
	case *js_ast.EBigInt:
		return "b" + hexBytes([]byte(d.Value))
	case *js_ast.ERegExp:
		return "r" + hexBytes([]byte(d.Value))
	case *js_ast.EArray:
		if len(d.Items) == 0 {
			return "A"
		}
	case *js_ast.EObject:
		if len(d.Properties) == 0 {
			return "O"
		}
	case *js_ast.EFunction, *js_ast.EArrow:
		return "L"
	case *js_ast.EIdentifier:
		return fmt.Sprintf("i%d", d.Ref.InnerIndex)
	case *js_ast.EInlinedEnum:
		return "e" + foldWire(d.Value)
	case *js_ast.EAnnotation:
		if d.Flags.Has(js_ast.CanBeRemovedIfUnusedFlag) {
			return "a" + foldWire(d.Value)
		}
		return "p" + foldWire(d.Value)
	}
	return "?"
}

type foldOpInfo struct {
	name string
	code js_ast.OpCode
}

var foldOps = []foldOpInfo{
	{"add", js_ast.BinOpAdd}, {"sub", js_ast.BinOpSub}, {"mul", js_ast.BinOpMul}, {"div", js_ast.BinOpDiv},
	{"rem", js_ast.BinOpRem}, {"pow", js_ast.BinOpPow},
	{"shl", js_ast.BinOpShl}, {"shr", js_ast.BinOpShr}, {"ushr", js_ast.BinOpUShr},
	{"band", js_ast.BinOpBitwiseAnd}, {"bor", js_ast.BinOpBitwiseOr}, {"bxor", js_ast.BinOpBitwiseXor},
	{"lt", js_ast.BinOpLt}, {"gt", js_ast.BinOpGt}, {"le", js_ast.BinOpLe}, {"ge", js_ast.BinOpGe},
	{"looseEq", js_ast.BinOpLooseEq}, {"strictEq", js_ast.BinOpStrictEq}, {"looseNe", js_ast.BinOpLooseNe}, {"strictNe", js_ast.BinOpStrictNe},
	{"logicalAnd", js_ast.BinOpLogicalAnd}, {"logicalOr", js_ast.BinOpLogicalOr}, {"nullish", js_ast.BinOpNullishCoalescing},
}

var foldOpText = map[string]string{"add": "+", "sub": "-", "mul": "*", "div": "/", "rem": "%", "pow": "**", "shl": "<<", "shr": ">>", "ushr": ">>>",
	"band": "&", "bor": "|", "bxor": "^", "lt": "<", "gt": ">", "le": "<=", "ge": ">=", "looseEq": "==", "strictEq": "===", "looseNe": "!=", "strictNe": "!==",
	"logicalAnd": "&&", "logicalOr": "||", "nullish": "??"}

var foldOtherOps = []js_ast.OpCode{js_ast.BinOpComma, js_ast.BinOpIn, js_ast.BinOpInstanceof, js_ast.BinOpAssign, js_ast.BinOpAddAssign}

// the copy of js_ast.approximatePrintedIntCharCount that serves as the oracle for the `should` operation
func foldApproxCount(intValue float64) int {
	count := 1 + (int)(math.Max(0, math.Floor(math.Log10(math.Abs(intValue)))))
	if intValue < 0 {
		count++
	}
	return count
}

func foldNumericValue(e js_ast.Expr) (float64, bool) {
	switch d := e.Data.(type) {
	case *js_ast.EAnnotation:
		return foldNumericValue(d.Value)
	case *js_ast.EInlinedEnum:
		return foldNumericValue(d.Value)
	case *js_ast.ENumber:
		return d.Value, true
	}
	return 0, false
}

// operand pairs biased towards what the operator folds, with the interesting special values
func foldPair(r *gen.Rand, op string, malformed bool) (foldOperand, foldOperand) {
	numPair := func() (float64, float64) {
		a, b := foldNum(r), foldNum(r)
		switch op {
		case "pow":
			if r.Chance(5, 6) {
				a = []float64{1, -1, 0, math.Copysign(0, -1), math.Inf(1), math.Inf(-1), math.NaN(), 2, 0.5, -2, -0.5, -8, 10, 1.0000000000000002, 0.9999999999999999, -1.0000000000000002}[r.Intn(16)]
			}
			if r.Chance(5, 6) {
				b = []float64{0, math.Copysign(0, -1), 1, -1, 0.5, -0.5, math.Inf(1), math.Inf(-1), math.NaN(), 2, 3, -2, -3, 1.0 / 3, 9007199254740991, 9007199254740992, 9007199254740993,
					-9007199254740991, 9223372036854775808, 1e300, -1e300, 5, 4, 1.5, -1.5, 1023, 1024, -1074, -1075, math.Inf(1), math.Inf(-1), math.NaN(), 7, -7}[r.Intn(34)]
			}
		case "lt", "gt", "le", "ge", "looseEq", "strictEq", "looseNe", "strictNe", "eq":
			switch r.Intn(8) {
			case 0:
				b = a
			case 1:
				a, b = 0, math.Copysign(0, -1)
				if r.Bool() {
					a, b = b, a
				}
			case 2:
				if r.Bool() {
					a = math.NaN()
				} else {
					b = math.NaN()
				}
			case 3: // neighbours
				b = math.Nextafter(a, math.Inf(1))
			}
		case "rem":
			switch r.Intn(5) {
			case 0: // exact multiples: zero results with the sign of the dividend
				b = float64(1 + r.Intn(9))
				a = b * float64(r.Intn(9)-4)
				if r.Bool() {
					a = math.Copysign(a, -1)
				}
			case 1: // huge dividend, small divisor; subnormals
				a = []float64{1e308, -1e308, 1.7976931348623157e308, 5e-324, 1e-310, 123456789.125, -0.75}[r.Intn(7)]
				b = []float64{3, -3, 5e-324, 1e-320, 0.1, 7.5, 1e300, 2.5e-310}[r.Intn(8)]
			}
		case "shl", "shr", "ushr":
			if r.Chance(1, 2) {
				b = []float64{0, 1, 31, 32, 33, 63, 64, -1, -31, -32, -33, 4294967296 + 5, -4294967296 - 5, 1.9, -1.9, math.NaN(), math.Inf(1), 2147483648 + 3}[r.Intn(18)]
			}
		case "add", "sub", "mul", "div":
			switch r.Intn(6) {
			case 0: // rounding, overflow, underflow, cancellation
				a = []float64{1.7976931348623157e308, 9007199254740992, 9007199254740993, 1, 5e-324, 2.2250738585072014e-308, 0.1, 1e16, 4294967295, 255, 1e-200}[r.Intn(11)]
				b = []float64{1.7976931348623157e308, 1, 1.0000000000000002, 5e-324, 2.220446049250313e-16, 1.1102230246251565e-16, 0.2, 3, 4294967295, 256, 1e-200, 0.5, 10}[r.Intn(13)]
				if r.Bool() {
					a = -a
				}
				if r.Bool() {
					b = -b
				}
			case 1:
				b = a
				if r.Bool() {
					b = -a
				}
			}
		}
		return a, b
	}
	pick := r.Intn(10)
	if op == "eq" && pick < 8 {
		pick = r.Intn(14) // fewer same-type pairs for CheckEqualityIfNoSideEffects: mixed primitive kinds matter there
	}
	switch {
	case pick < 6: // both numbers
		a, b := numPair()
		return foldWrap(r, foldNumOperand(a)), foldWrap(r, foldNumOperand(b))
	case pick < 8: // both strings (related strings are frequent: equal, prefix, differing in one unit)
		a := foldUnits(r)
		b := foldUnits(r)
		switch r.Intn(4) {
		case 0:
			b = append([]uint16{}, a...)
		case 1:
			b = append(append([]uint16{}, a...), foldUnits(r)...)
		case 2:
			if len(a) > 0 {
				b = append([]uint16{}, a...)
				b[r.Intn(len(b))] = []uint16{0, 'a', 0xD800, 0xFFFF, 'b'}[r.Intn(5)]
			}
		}
		if r.Bool() {
			a, b = b, a
		}
		return foldWrap(r, foldStrOperand(a)), foldWrap(r, foldStrOperand(b))
	default:
		return foldWrap(r, foldAtomBiased(r, op, malformed)), foldWrap(r, foldAtomBiased(r, op, malformed))
	}
}

// for equality and the logical operators null / undefined / booleans / bigints are drawn more often
func foldAtomBiased(r *gen.Rand, op string, malformed bool) foldOperand {
	switch op {
	case "eq", "logicalAnd", "logicalOr", "nullish", "looseEq", "strictEq", "looseNe", "strictNe":
		if r.Bool() {
			switch r.Intn(5) {
			case 0:
				return foldOperand{"N", js_ast.Expr{Data: js_ast.ENullShared}, "null"}
			case 1:
				return foldOperand{"U", js_ast.Expr{Data: js_ast.EUndefinedShared}, "void 0"}
			case 2:
				return foldOperand{"T", js_ast.Expr{Data: &js_ast.EBoolean{Value: true}}, "true"}
			case 3:
				return foldOperand{"F", js_ast.Expr{Data: &js_ast.EBoolean{Value: false}}, "false"}
			default:
				t := foldBigInts[r.Intn(len(foldBigInts))]
				return foldOperand{"b" + hexBytes([]byte(t)), js_ast.Expr{Data: &js_ast.EBigInt{Value: t}}, t + "n"}
			}
		}
	}
	return foldAtom(r, malformed)
}

// foldParseUnary parses `x = OP (LIT);` and returns the right-hand side after the visit pass
func foldParseUnary(src string, minify bool) (js_ast.Expr, bool) {
	log := logger.NewDeferLog(logger.DeferLogNoVerboseOrDebug, nil)
	opts := js_parser.OptionsFromConfig(&config.Options{MinifySyntax: minify})
	tree, ok := js_parser.Parse(log, logger.Source{Index: 0, KeyPath: logger.Path{Text: "<stdin>"}, PrettyPaths: logger.PrettyPaths{Abs: "<stdin>", Rel: "<stdin>"}, Contents: src}, opts)
	if !ok {
		return js_ast.Expr{}, false
	}
	for _, part := range tree.Parts {
		for _, stmt := range part.Stmts {
			if s, ok := stmt.Data.(*js_ast.SExpr); ok {
				if b, ok := s.Value.Data.(*js_ast.EBinary); ok && b.Op == js_ast.BinOpAssign {
					return b.Right, true
				}
			}
		}
	}
	return js_ast.Expr{}, false
}

// foldBranchStats records which branch of the model an operand pair exercises
func foldBranchStats(e *emitter, op string, l, r js_ast.Expr) {
	a, okA := foldNumericValue(l)
	b, okB := foldNumericValue(r)
	if okA && okB {
		isInt := func(f float64) bool { return !math.IsInf(f, 0) && f == math.Trunc(f) }
		switch op {
		case "pow":
			switch {
			case math.IsNaN(b):
				e.stat("pow:exp-nan")
			case b == 0:
				e.stat("pow:exp-zero")
			case math.IsNaN(a):
				e.stat("pow:base-nan")
			case math.IsInf(b, 0) && math.Abs(a) == 1:
				e.stat("pow:exp-inf-base-unit")
			case a == 1:
				e.stat("pow:base-one")
			case b == 1:
				e.stat("pow:exp-one")
			case a == 0 && math.Signbit(a) && isInt(b) && math.Abs(b) < 1<<53 && math.Mod(b, 2) != 0:
				e.stat("pow:base-negzero-odd")
			case a == 0:
				e.stat("pow:base-zero")
			case math.IsInf(b, 0):
				e.stat("pow:exp-inf")
			case math.IsInf(a, -1):
				e.stat("pow:base-neginf")
			case math.IsInf(a, 1):
				e.stat("pow:base-posinf")
			case a < 0 && !isInt(b):
				e.stat("pow:neg-base-fractional-exp")
			default:
				e.stat("pow:generic")
			}
		case "rem":
			switch {
			case math.IsNaN(a) || math.IsNaN(b) || math.IsInf(a, 0) || b == 0:
				e.stat("rem:nan")
			case math.IsInf(b, 0):
				e.stat("rem:divisor-inf")
			case math.Abs(a) < math.Abs(b):
				e.stat("rem:dividend-smaller")
			case math.Mod(a, b) == 0:
				e.stat("rem:exact-multiple")
			default:
				e.stat("rem:general")
			}
		case "shl", "shr", "ushr":
			switch {
			case math.IsNaN(b) || math.IsInf(b, 0):
				e.stat("shift:count-nonfinite")
			case b < 0:
				e.stat("shift:count-negative")
			case b >= 32:
				e.stat("shift:count-ge-32")
			default:
				e.stat("shift:count-0-31")
			}
			if math.Abs(a) >= 2147483648 && !math.IsInf(a, 0) {
				e.stat("shift:left-operand-wraps")
			}
		case "lt", "gt", "le", "ge", "looseEq", "strictEq", "looseNe", "strictNe":
			switch {
			case math.IsNaN(a) || math.IsNaN(b):
				e.stat("numcmp:nan")
			case a == 0 && b == 0 && math.Signbit(a) != math.Signbit(b):
				e.stat("numcmp:zeros-of-both-signs")
			case a == b:
				e.stat("numcmp:equal")
			default:
				e.stat("numcmp:different")
			}
		}
	}
	ls, okL := foldStringValue(l)
	rs, okR := foldStringValue(r)
	if okL && okR {
		n := len(ls)
		if len(rs) < n {
			n = len(rs)
		}
		i := 0
		for i < n && ls[i] == rs[i] {
			i++
		}
		switch {
		case i < n:
			e.stat("strcmp:differ-at-unit")
		case len(ls) == len(rs):
			e.stat("strcmp:equal")
		default:
			e.stat("strcmp:proper-prefix")
		}
	}
}

func foldStringValue(e js_ast.Expr) ([]uint16, bool) {
	switch d := e.Data.(type) {
	case *js_ast.EAnnotation:
		return foldStringValue(d.Value)
	case *js_ast.EInlinedEnum:
		return foldStringValue(d.Value)
	case *js_ast.EString:
		return d.Value, true
	}
	return nil, false
}

func foldKind(e js_ast.Expr) string {
	switch d := e.Data.(type) {
	case *js_ast.ENull:
		return "null"
	case *js_ast.EUndefined:
		return "undef"
	case *js_ast.EBoolean:
		return "bool"
	case *js_ast.ENumber:
		return "num"
	case *js_ast.EString:
		return "str"
	case *js_ast.EBigInt:
		return "bigint"
	case *js_ast.EInlinedEnum:
		return "enum(" + foldKind(d.Value) + ")"
	case *js_ast.EAnnotation:
		return "annot"
	}
	return "other"
}

func foldPairStr(b bool, se js_ast.SideEffects, ok bool) string {
	if !ok {
		return "none"
	}
	return fmt.Sprintf("%v,%v", b, se == js_ast.NoSideEffects)
}

func init() {
	kernels["fold"] = func(r *gen.Rand, e *emitter, tier string) {
		for !e.full() {
			malformed := r.Chance(1, 10)
			switch c := r.Intn(20); {
			case c < 9: // FoldBinaryOperator
				var name string
				var code js_ast.OpCode
				if r.Chance(1, 40) {
					name, code = "other", foldOtherOps[r.Intn(len(foldOtherOps))]
				} else {
					op := foldOps[r.Intn(len(foldOps))]
					switch r.Intn(8) {
					case 0:
						op = foldOps[5] // pow
					case 1:
						op = foldOps[4] // rem
					}
					name, code = op.name, op.code
				}
				l, rr := foldPair(r, name, malformed)
				oracle := "-"
				if name == "pow" {
					if a, ok := foldNumericValue(l.expr); ok {
						if b, ok := foldNumericValue(rr.expr); ok {
							oracle = fmt.Sprintf("%016x", foldBits(math.Pow(a, b)))
						}
					}
				}
				res := guard(func() string {
					return foldWire(js_ast.FoldBinaryOperator(logger.Loc{}, &js_ast.EBinary{Op: code, Left: l.expr, Right: rr.expr}))
				})
				foldBranchStats(e, name, l.expr, rr.expr)
				if res == "none" {
					e.stat("bin-" + name + "-notfolded")
				} else {
					e.stat("bin-" + name + "-folded")
					if strings.HasPrefix(res, "n") && res[1:] == fmt.Sprintf("%016x", uint64(foldNaN)) {
						e.stat("bin-" + name + "-nan")
					}
					if res == "n8000000000000000" {
						e.stat("bin-" + name + "-negzero")
					}
				}
				opLine := fmt.Sprintf("fold\tbin\t%s\t%s\t%s\t%s", name, l.wire, rr.wire, oracle)
				if tok, ok := foldOpText[name]; ok && l.src != "" && rr.src != "" {
					// end-to-end witness: the folded constant must print what the engine computes
					src := fmt.Sprintf("\"use strict\";\nconst k1 = (%s) %s (%s);\np(1, k1, Object.is(k1, -0), typeof k1);\nenumlike: { const k2 = [(%s) %s (%s)]; p(2, k2[0]); }\n", l.src, tok, rr.src, l.src, tok, rr.src)
					e.emitW(opLine, res, "c03-prog", map[string]string{"source": src, "opt_name": "ms"})
				} else {
					e.emit(opLine, res)
				}
			case c < 11: // ShouldFoldBinaryOperatorWhenMinifying
				op := foldOps[r.Intn(len(foldOps))]
				if r.Chance(1, 3) {
					op = foldOps[[]int{0, 1, 2, 3, 6, 8}[r.Intn(6)]]
				}
				l, rr := foldPair(r, op.name, malformed)
				cl, cr, cres := 0, 0, 0
				if a, ok := foldNumericValue(l.expr); ok {
					if b, ok := foldNumericValue(rr.expr); ok {
						cl, cr = foldApproxCount(a), foldApproxCount(b)
						switch op.name {
						case "shl":
							cres = foldApproxCount(float64(js_ast.ToInt32(a) << (js_ast.ToUint32(b) & 31)))
						case "ushr":
							cres = foldApproxCount(float64(js_ast.ToUint32(a) >> (js_ast.ToUint32(b) & 31)))
						}
					}
				}
				res := js_ast.ShouldFoldBinaryOperatorWhenMinifying(&js_ast.EBinary{Op: op.code, Left: l.expr, Right: rr.expr})
				e.stat(fmt.Sprintf("should-%s-%v", op.name, res))
				e.emit(fmt.Sprintf("fold\tshould\t%s\t%s\t%s\t%d\t%d\t%d", op.name, l.wire, rr.wire, cl, cr, cres), fmt.Sprint(res))
			case c < 14: // CheckEqualityIfNoSideEffects
				l, rr := foldPair(r, "eq", malformed)
				kind, kname := js_ast.StrictEquality, "strict"
				if r.Bool() {
					kind, kname = js_ast.LooseEquality, "loose"
				}
				eq, ok := js_ast.CheckEqualityIfNoSideEffects(l.expr.Data, rr.expr.Data, kind)
				res := "unknown"
				if ok {
					res = fmt.Sprint(eq)
				}
				e.stat("eq-" + kname + "-" + res)
				e.stat("eq:left-" + foldKind(l.expr))
				e.emit(fmt.Sprintf("fold\teq\t%s\t%s\t%s", kname, l.wire, rr.wire), res)
			case c < 16: // helpers on one operand
				o := foldWrap(r, foldAtom(r, malformed))
				switch r.Intn(6) {
				case 0:
					v, ok := js_ast.ToNumberWithoutSideEffects(o.expr.Data)
					res := "none"
					if ok {
						res = fmt.Sprintf("%016x", foldBits(v))
					}
					e.stat(fmt.Sprintf("tonum-%v", ok))
					e.emit("fold\ttonum\t"+o.wire, res)
				case 1:
					v, ok := js_ast.ToStringWithoutSideEffects(o.expr.Data)
					res := "none"
					if ok {
						res = "=" + hexBytes([]byte(v))
					}
					e.stat(fmt.Sprintf("tostr-%v", ok))
					e.emit("fold\ttostr\t"+o.wire, res)
				case 2:
					v, ok := js_ast.TypeofWithoutSideEffects(o.expr.Data)
					res := "none"
					if ok {
						res = "=" + hexBytes([]byte(v))
					}
					e.stat(fmt.Sprintf("typeof-%v", ok))
					e.emit("fold\ttypeof\t"+o.wire, res)
				case 3:
					b, se, ok := js_ast.ToBooleanWithSideEffects(o.expr.Data)
					res := foldPairStr(b, se, ok)
					e.stat("tobool-" + res)
					e.emit("fold\ttobool\t"+o.wire, res)
				case 4:
					b, se, ok := js_ast.ToNullOrUndefinedWithSideEffects(o.expr.Data)
					res := foldPairStr(b, se, ok)
					e.stat("tonull-" + res)
					e.emit("fold\ttonull\t"+o.wire, res)
				default:
					res := js_ast.IsPrimitiveLiteral(o.expr.Data)
					e.stat(fmt.Sprintf("prim-%v", res))
					e.emit("fold\tprim\t"+o.wire, fmt.Sprint(res))
				}
			case c < 17: // StringToEquivalentNumberValue
				u := foldUnits(r)
				if r.Chance(1, 2) {
					u = helpers.StringToUTF16(strconv.Itoa(r.BoundaryInt()))
				}
				v, ok := js_ast.StringToEquivalentNumberValue(u)
				res := "none"
				if ok {
					res = fmt.Sprintf("%016x", foldBits(v))
				}
				e.stat(fmt.Sprintf("s2n-%v", ok))
				if ok && v < 0 {
					e.stat("s2n:negative")
				}
				if !ok && len(u) > 0 {
					digits := true
					for i, c := range u {
						if !(c >= '0' && c <= '9') && !(i == 0 && c == '-' && len(u) > 1) {
							digits = false
						}
					}
					if digits {
						e.stat("s2n:all-digits-but-not-canonical-int32")
					} else {
						e.stat("s2n:non-digit")
					}
				}
				e.emit("fold\ts2n\t"+hexU16(u), res)
			case c < 18: // TryToStringOnNumberSafely
				f := foldNum(r)
				v, ok := js_ast.TryToStringOnNumberSafely(f, 10)
				res := "none"
				if ok {
					res = "=" + hexBytes([]byte(v))
				}
				e.stat(fmt.Sprintf("trystr-%v", ok))
				switch {
				case math.IsNaN(f):
					e.stat("trystr:nan")
				case math.IsInf(f, 0):
					e.stat("trystr:inf")
				case f == 0 && math.Signbit(f):
					e.stat("trystr:negzero")
				case ok:
					e.stat("trystr:int32")
				case f == math.Trunc(f):
					e.stat("trystr:integer-out-of-int32")
				default:
					e.stat("trystr:fraction")
				}
				e.emit(fmt.Sprintf("fold\ttrystr\t%016x", foldBits(f)), res)
			default: // unary operators through the parser
				o := foldAtom(r, false)
				if o.src == "" {
					continue
				}
				uop := []struct{ name, src string }{{"pos", "+"}, {"neg", "-"}, {"cpl", "~"}, {"not", "!"}, {"typeof", "typeof "}, {"void", "void "}}[r.Intn(6)]
				minify := r.Bool()
				src := "x = " + uop.src + "(" + o.src + ");"
				rhs, ok := foldParseUnary(src, minify)
				if !ok {
					e.stat("un-parse-failed")
					continue
				}
				res := "none"
				if _, isUnary := rhs.Data.(*js_ast.EUnary); !isUnary {
					res = foldWire(rhs)
				}
				m := "0"
				if minify {
					m = "1"
				}
				if res == "none" {
					e.stat("un-" + uop.name + "-" + m + "-kept")
				} else {
					e.stat("un-" + uop.name + "-" + m + "-folded")
				}
				optName := ""
				if minify {
					optName = "ms"
				}
				e.emitW(fmt.Sprintf("fold\tun\t%s\t%s\t%s", uop.name, m, o.wire), res, "c03-prog",
					map[string]string{"source": fmt.Sprintf("\"use strict\";\nconst k1 = %s(%s);\np(1, k1, Object.is(k1, -0), typeof k1);\n", uop.src, o.src), "opt_name": optName})
			}
		}
	}
}
