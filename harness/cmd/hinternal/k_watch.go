package main

import (
	"fmt"
	"os"
	"path/filepath"
	"sort"
	"strings"
	"syscall"
	"time"

	"github.com/evanw/esbuild/internal/cache"
	"github.com/evanw/esbuild/internal/fs"
	"github.com/evanw/esbuild/verifharness/gen"
)

// kernel "watch": the real realFS (WantWatchData) + the real FSCache on a real scratch directory. One case = one
// fresh tree "R", a warm-up of the content cache, a generated sequence of file-system questions asked through the
// real API, WatchData(), a generated list of edits, and the evaluation of every predicate of WatchData().Paths.
// The Lean model (Impl/Watch.lean) gets three descriptions of the tree (before the questions, when WatchData() ran,
// after the edits), made here with plain os calls, never through esbuild.

var watchPool = []string{"a", "A", "b", "B.js", "b.js", "c.js", "C.JS", "d", "lib", "Lib", "x.txt", "pkg", "e"}

type watchCase struct {
	r         *gen.Rand
	parent    string // absolute, symlink-free; the tree is parent/R
	clock     int64  // source of distinct old mtimes
	keys      map[string]int
	focus     map[string]bool // paths the operations named: edits prefer them and their entries
	focusList []string
}

// a query name for directory d: mostly an entry that exists (sometimes in another case), else a pool name
func (w *watchCase) query(d string) string {
	if ns := readdirnamesOf(w.abs(d)); len(ns) > 0 && w.r.Chance(3, 5) {
		n := ns[w.r.Intn(len(ns))]
		switch w.r.Intn(5) {
		case 0:
			return strings.ToUpper(n)
		case 1:
			return strings.ToLower(n)
		}
		return n
	}
	return w.name()
}

func (w *watchCase) abs(canon string) string { return filepath.Join(w.parent, canon) }
func (w *watchCase) canon(abs string) string { return strings.TrimPrefix(abs, w.parent+"/") }
func (w *watchCase) name() string            { return watchPool[w.r.Intn(len(watchPool))] }
func (w *watchCase) oldTime() time.Time      { w.clock += 10; return time.Unix(1000000000+w.clock, 0) }
func (w *watchCase) content() string         { return fmt.Sprintf("c%d", w.r.Intn(6)) }
func (w *watchCase) futureTime() time.Time   { return time.Now().Add(time.Hour) }
func (w *watchCase) internKey(s string) int {
	if v, ok := w.keys[s]; ok {
		return v
	}
	v := len(w.keys) + 1
	w.keys[s] = v
	return v
}

// all paths of the tree (canonical), directories first-seen order; does not follow symlinks
func (w *watchCase) walk() (dirs []string, files []string, links []string) {
	filepath.Walk(w.abs("R"), func(p string, info os.FileInfo, err error) error {
		if err != nil {
			return nil
		}
		c := w.canon(p)
		switch {
		case info.Mode()&os.ModeSymlink != 0:
			links = append(links, c)
		case info.IsDir():
			dirs = append(dirs, c)
		default:
			files = append(files, c)
		}
		return nil
	})
	return
}

// give every recently touched node an explicit mtime: far past (usable mod key, all different), one hour ahead
// (unusable: too new) or zero (unusable: zeroed mtime), so that usability never depends on how fast the case runs
func (w *watchCase) stamp() {
	dirs, files, _ := w.walk()
	now := time.Now()
	for _, c := range append(files, dirs...) {
		info, err := os.Lstat(w.abs(c))
		if err != nil {
			continue
		}
		mt := info.ModTime()
		if mt.After(now.Add(-time.Hour)) && mt.Before(now.Add(time.Minute)) {
			var t time.Time
			switch w.r.Intn(8) {
			case 0, 1:
				t = w.futureTime()
			case 2:
				t = time.Unix(0, 0)
			default:
				t = w.oldTime()
			}
			os.Chtimes(w.abs(c), t, t)
		}
	}
}

func (w *watchCase) randomExisting(kind int) string { // 0 dir, 1 file, 2 link, 3 any
	dirs, files, links := w.walk()
	var pool []string
	switch kind {
	case 0:
		pool = dirs
	case 1:
		pool = files
	case 2:
		pool = links
	default:
		pool = append(append(append(pool, dirs...), files...), links...)
	}
	if len(pool) == 0 {
		return "R"
	}
	if len(w.focus) > 0 && w.r.Chance(3, 5) {
		var near []string
		for _, p := range pool {
			if w.focus[p] || w.focus[filepath.Dir(p)] {
				near = append(near, p)
			}
		}
		if len(near) > 0 {
			return near[w.r.Intn(len(near))]
		}
	}
	return pool[w.r.Intn(len(pool))]
}

// a path for a new or existing entry: some directory (real or through a link) + a pool name
func (w *watchCase) somePath() string {
	if len(w.focusList) > 0 && w.r.Chance(2, 5) {
		return w.focusList[w.r.Intn(len(w.focusList))]
	}
	switch w.r.Intn(10) {
	case 0:
		return w.randomExisting(3)
	case 1:
		return w.randomExisting(1) + "/" + w.name() // below a file
	case 2:
		return w.randomExisting(2) + "/" + w.name() // through a link
	default:
		return w.randomExisting(0) + "/" + w.name()
	}
}

func (w *watchCase) symlinkTarget() string {
	// absolute targets inside the tree, existing or not
	if w.r.Chance(1, 5) {
		return w.abs(w.randomExisting(0) + "/" + w.name())
	}
	return w.abs(w.randomExisting(3))
}

// one edit; returns a short description
func (w *watchCase) edit() string {
	switch w.r.Intn(15) {
	case 0, 1: // write: new file or new content
		p := w.somePath()
		if p == "R" {
			return "nop"
		}
		os.WriteFile(w.abs(p), []byte(w.content()), 0644)
		return "write " + p
	case 2: // same size, same inode, same mtime: the mod key stays, the content may not (H1)
		p := w.randomExisting(1)
		info, err := os.Stat(w.abs(p))
		if err != nil || info.IsDir() {
			return "nop"
		}
		os.WriteFile(w.abs(p), []byte(w.content()), 0644)
		os.Chtimes(w.abs(p), info.ModTime(), info.ModTime())
		return "rewrite-same-key " + p
	case 3: // touch
		p := w.randomExisting(1)
		t := w.oldTime()
		if w.r.Chance(1, 3) {
			t = w.futureTime()
		}
		os.Chtimes(w.abs(p), t, t)
		return "touch " + p
	case 4, 5: // remove
		p := w.randomExisting(3)
		if p == "R" {
			return "nop"
		}
		os.RemoveAll(w.abs(p))
		return "remove " + p
	case 6: // case-only rename
		p := w.randomExisting(3)
		if p == "R" {
			return "nop"
		}
		dir, base := filepath.Split(p)
		nb := strings.ToUpper(base)
		if nb == base {
			nb = strings.ToLower(base)
		}
		if nb == base {
			return "nop"
		}
		if _, err := os.Lstat(w.abs(dir + nb)); err == nil {
			return "nop"
		}
		os.Rename(w.abs(p), w.abs(dir+nb))
		return "case-rename " + p
	case 7: // rename
		p := w.randomExisting(3)
		q := w.somePath()
		if p == "R" || q == "R" || strings.HasPrefix(q+"/", p+"/") {
			return "nop"
		}
		os.Rename(w.abs(p), w.abs(q))
		return "rename " + p + " " + q
	case 8: // mkdir
		p := w.somePath()
		os.Mkdir(w.abs(p), 0755)
		return "mkdir " + p
	case 9, 10, 13, 14: // create or retarget a symlink
		p := w.somePath()
		if w.r.Bool() {
			p = w.randomExisting(2)
		}
		if p == "R" {
			return "nop"
		}
		if info, err := os.Lstat(w.abs(p)); err == nil && info.Mode()&os.ModeSymlink == 0 {
			return "nop"
		}
		os.Remove(w.abs(p))
		os.Symlink(w.symlinkTarget(), w.abs(p))
		return "symlink " + p
	case 11: // file <-> directory
		p := w.randomExisting(3)
		if p == "R" {
			return "nop"
		}
		info, err := os.Lstat(w.abs(p))
		if err != nil {
			return "nop"
		}
		os.RemoveAll(w.abs(p))
		if info.IsDir() {
			os.WriteFile(w.abs(p), []byte(w.content()), 0644)
		} else {
			os.Mkdir(w.abs(p), 0755)
		}
		return "flip " + p
	default: // add an entry to a directory
		p := w.randomExisting(0) + "/" + w.name()
		if _, err := os.Lstat(w.abs(p)); err == nil {
			return "nop"
		}
		os.WriteFile(w.abs(p), []byte(w.content()), 0644)
		return "add " + p
	}
}

func (w *watchCase) keyOf(info os.FileInfo) string {
	st, ok := info.Sys().(*syscall.Stat_t)
	if !ok {
		return "-"
	}
	sec, nsec := int64(st.Mtim.Sec), int64(st.Mtim.Nsec)
	if sec == 0 && nsec == 0 {
		return "-"
	}
	now := time.Now()
	if sec+3 > now.Unix() || (sec+3 == now.Unix() && nsec > int64(now.Nanosecond())) {
		return "-"
	}
	return fmt.Sprint(w.internKey(fmt.Sprintf("{%d %d %d %d %d %d}", st.Ino, st.Size, sec, nsec, uint32(st.Mode), st.Uid)))
}

// describe the universe of paths with plain os calls
func (w *watchCase) snapshot(universe []string) string {
	var out []string
	for _, c := range universe {
		p := w.abs(c)
		if info, err := os.Stat(p); err == nil {
			if info.IsDir() {
				names := "-"
				if f, err := os.Open(p); err == nil {
					if ns, err := f.Readdirnames(-1); err == nil && len(ns) > 0 {
						names = strings.Join(ns, ",")
					}
					f.Close()
				}
				out = append(out, c+"|D|"+names+"|"+w.keyOf(info))
			} else {
				b, _ := os.ReadFile(p)
				out = append(out, c+"|F|="+string(b)+"|"+w.keyOf(info))
			}
		}
		if li, err := os.Lstat(p); err == nil {
			sym := ""
			mode := li.Mode()
			ok := true
			if mode&os.ModeSymlink != 0 {
				link, err := filepath.EvalSymlinks(p)
				if err != nil {
					ok = false
				} else if li2, err := os.Lstat(link); err != nil || li2.Mode()&os.ModeSymlink != 0 {
					ok = false
				} else {
					sym = w.canon(link)
					mode = li2.Mode()
				}
			}
			if ok {
				kind := 2
				if mode&os.ModeDir != 0 {
					kind = 1
				}
				if sym == "" {
					sym = "-"
				}
				out = append(out, fmt.Sprintf("%s|K|%s|%d", c, sym, kind))
			}
		}
	}
	if len(out) == 0 {
		return "-"
	}
	return strings.Join(out, ";")
}

func watchErrName(err error) string {
	switch err {
	case nil:
		return "ok"
	case syscall.ENOTDIR:
		return "ENOTDIR"
	case syscall.EISDIR:
		return "EISDIR"
	default:
		return "ENOENT"
	}
}

type watchOp struct {
	code string // rd get sk kind rf mk cr
	p    string
	q    string
}

func (o watchOp) wire() string {
	if o.code == "get" || o.code == "kind" {
		return o.code + "|" + o.p + "|" + o.q
	}
	return o.code + "|" + o.p
}

func (w *watchCase) genOps() []watchOp {
	n := 1 + w.r.Intn(9)
	var ops []watchOp
	var used []string
	pick := func(wantDir bool) string {
		if len(used) > 0 && w.r.Chance(2, 5) {
			return used[w.r.Intn(len(used))] // the same path again, possibly in the other role
		}
		var p string
		switch w.r.Intn(8) {
		case 0:
			p = w.somePath()
		case 1:
			p = w.randomExisting(3)
		default:
			if wantDir {
				p = w.randomExisting(0)
			} else {
				p = w.randomExisting(1)
			}
		}
		used = append(used, p)
		return p
	}
	for i := 0; i < n; i++ {
		switch w.r.Intn(12) {
		case 0:
			ops = append(ops, watchOp{"rd", pick(true), ""})
		case 1, 2, 3:
			d := pick(true)
			ops = append(ops, watchOp{"get", d, w.query(d)})
		case 4:
			ops = append(ops, watchOp{"sk", pick(true), ""})
		case 5, 6:
			d := pick(true)
			ops = append(ops, watchOp{"kind", d, w.query(d)})
		case 7, 8:
			ops = append(ops, watchOp{"rf", pick(false), ""})
		case 9:
			ops = append(ops, watchOp{"mk", pick(false), ""})
		default:
			ops = append(ops, watchOp{"cr", pick(false), ""})
		}
	}
	return ops
}

func readdirnamesOf(abs string) []string {
	f, err := os.Open(abs)
	if err != nil {
		return nil
	}
	defer f.Close()
	ns, _ := f.Readdirnames(-1)
	return ns
}

func (w *watchCase) runOp(rfs fs.FS, fc *cache.FSCache, o watchOp) string {
	switch o.code {
	case "rd":
		_, err, _ := rfs.ReadDirectory(w.abs(o.p))
		return watchErrName(err)
	case "get":
		entries, err, _ := rfs.ReadDirectory(w.abs(o.p))
		entry, diff := entries.Get(o.q)
		base := "-"
		if entry != nil {
			base = o.q
			if diff != nil {
				base = diff.Actual
			}
		}
		return watchErrName(err) + ":" + base
	case "sk":
		entries, err, _ := rfs.ReadDirectory(w.abs(o.p))
		keys := entries.SortedKeys()
		s := "nil"
		if keys != nil {
			s = "-"
			if len(keys) > 0 {
				s = strings.Join(keys, ",")
			}
		}
		return watchErrName(err) + ":" + s
	case "kind":
		entries, err, _ := rfs.ReadDirectory(w.abs(o.p))
		entry, diff := entries.Get(o.q)
		if entry == nil {
			return watchErrName(err) + ":-"
		}
		base := o.q
		if diff != nil {
			base = diff.Actual
		}
		kind := entry.Kind(rfs)
		sym := entry.Symlink(rfs)
		if sym == "" {
			sym = "-"
		} else {
			sym = w.canon(sym)
		}
		return fmt.Sprintf("%s:%s,%s,%d", watchErrName(err), base, sym, kind)
	case "rf":
		c, err, _ := rfs.ReadFile(w.abs(o.p))
		if err != nil {
			return "!" + watchErrName(err)
		}
		return "=" + c
	case "mk":
		k, err := rfs.ModKey(w.abs(o.p))
		if err == nil {
			return fmt.Sprintf("k%d", w.internKey(fmt.Sprintf("%v", k)))
		}
		if err.Error() == "The modification key is unusable" {
			return "unusable"
		}
		return "err"
	default: // cr
		c, err, _ := fc.ReadFile(rfs, w.abs(o.p))
		if err != nil {
			return "!" + watchErrName(err)
		}
		return "=" + c
	}
}

func init() {
	kernels["watch"] = func(r *gen.Rand, e *emitter, tier string) {
		root, err := os.MkdirTemp("", "verif-watch-")
		if err != nil {
			panic(err)
		}
		defer os.RemoveAll(root)
		if real, err := filepath.EvalSymlinks(root); err == nil {
			root = real
		}
		for n := 0; !e.full(); n++ {
			w := &watchCase{r: r, parent: filepath.Join(root, fmt.Sprintf("c%d", n)), keys: map[string]int{}}
			os.MkdirAll(w.abs("R"), 0755)
			// the tree: a few directories, files in them, links, then some random edits
			for i, nd := 0, w.r.Intn(4); i < nd; i++ {
				os.Mkdir(w.abs(w.randomExisting(0)+"/"+w.name()), 0755)
			}
			for i, nf := 0, 1+w.r.Intn(7); i < nf; i++ {
				os.WriteFile(w.abs(w.randomExisting(0)+"/"+w.name()), []byte(w.content()), 0644)
			}
			for i, nl := 0, w.r.Intn(4); i < nl; i++ {
				os.Symlink(w.symlinkTarget(), w.abs(w.randomExisting(0)+"/"+w.name()))
			}
			for i, ne := 0, w.r.Intn(3); i < ne; i++ {
				w.edit()
			}
			w.stamp()

			ops := w.genOps()
			// universe: every path an operation names, plus the entries a kind operation can stat
			seen := map[string]bool{}
			var universe []string
			add := func(p string) {
				if !seen[p] {
					seen[p] = true
					universe = append(universe, p)
				}
			}
			var warm []string
			for _, o := range ops {
				add(o.p)
				if o.code == "kind" {
					for _, nm := range readdirnamesOf(w.abs(o.p)) {
						if strings.ToLower(nm) == strings.ToLower(o.q) {
							add(o.p + "/" + nm)
						}
					}
				}
				if (o.code == "cr" || o.code == "rf") && w.r.Chance(1, 2) && !seen["warm:"+o.p] {
					seen["warm:"+o.p] = true
					warm = append(warm, o.p)
				}
			}
			fsBefore := w.snapshot(universe)
			w.focus = map[string]bool{}
			for _, p := range universe {
				w.focus[p] = true
				if p != "R" {
					w.focusList = append(w.focusList, p)
				}
			}

			// warm the content cache through a file system object that does not record
			caches := cache.MakeCacheSet()
			fs0, _ := fs.RealFS(fs.RealFSOptions{AbsWorkingDir: w.parent})
			for _, p := range warm {
				caches.FSCache.ReadFile(fs0, w.abs(p))
			}

			rfs, _ := fs.RealFS(fs.RealFSOptions{AbsWorkingDir: w.parent, WantWatchData: true})
			var answers, opWire []string
			for _, o := range ops {
				answers = append(answers, w.runOp(rfs, &caches.FSCache, o))
				opWire = append(opWire, o.wire())
				e.stat("op:" + o.code)
			}

			fsMid := "="
			if w.r.Chance(1, 8) { // the tree changes before WatchData() runs (H2)
				for i, k := 0, 1+w.r.Intn(2); i < k; i++ {
					w.edit()
				}
				w.stamp()
				fsMid = w.snapshot(universe)
				e.stat("case:edit-before-WatchData")
			}
			wd := rfs.WatchData()

			nEdits := w.r.Intn(4)
			for i := 0; i < nEdits; i++ {
				e.stat("edit:" + strings.SplitN(w.edit(), " ", 2)[0])
			}
			w.stamp()
			fsAfter := w.snapshot(universe)

			var keys []string
			for k := range wd.Paths {
				keys = append(keys, k)
			}
			sort.Strings(keys)
			var verdicts []string
			anyDirty := false
			for _, k := range keys {
				v := guard(func() string {
					if wd.Paths[k]() != "" {
						return "1"
					}
					return "0"
				})
				if v == "PANIC" {
					v = "P"
				}
				if v != "0" {
					anyDirty = true
				}
				verdicts = append(verdicts, w.canon(k)+"="+v)
			}
			vs := "-"
			if len(verdicts) > 0 {
				vs = strings.Join(verdicts, ",")
			}
			switch {
			case nEdits == 0 && fsMid == "=":
				e.stat("case:no-edit")
				if anyDirty {
					e.stat("case:no-edit-but-dirty")
				}
			case anyDirty:
				e.stat("case:dirty")
			default:
				e.stat("case:edited-but-clean")
			}
			warmWire := "-"
			if len(warm) > 0 {
				warmWire = strings.Join(warm, ",")
			}
			e.emit("watch\t"+fsBefore+"\t"+fsMid+"\t"+fsAfter+"\t"+warmWire+"\t"+strings.Join(opWire, ";"),
				strings.Join(answers, ";")+" # "+vs)
			os.RemoveAll(w.parent)
		}
	}
}
