package main

import (
	"encoding/hex"
	"fmt"
	"math"
	"regexp"
	"strconv"
	"strings"

	"github.com/evanw/esbuild/pkg/api"
	"github.com/evanw/esbuild/verifharness/gen"
)

// kernel "tsenum": random TypeScript enums (auto-increment, integer and string constant expressions,
// references to earlier members, non-constant members) are compiled by the real transform with the ts loader;
// the constants esbuild inlines at `E.member` use sites are compared with the values computed by the Lean model.

type enumExpr struct {
	wire  string  // prefix tokens for the model
	ts    string  // TypeScript source
	bound float64 // upper bound of |value| if numeric
	kind  int     // 0 number, 1 string, 2 unknown
	big   bool    // some numeric subexpression may leave the safe-integer range (the model gives up there)
}

func genEnumExpr(r *gen.Rand, depth int, kinds []int, nMembers int) enumExpr {
	if depth <= 0 || r.Chance(1, 3) {
		switch r.Intn(8) {
		case 0, 1, 2:
			v := int64(r.Intn(40)) - 8
			if r.Chance(1, 4) {
				v = int64(r.Intn(1 << 20))
			}
			if r.Chance(1, 8) {
				v = []int64{2147483647, -2147483648, 4294967295, 4294967296, 65535, 1 << 31, 255, 0, 1}[r.Intn(9)]
			}
			ts := fmt.Sprint(v)
			if v < 0 {
				ts = "(" + ts + ")"
			}
			return enumExpr{wire: fmt.Sprintf("n%d", v), ts: ts, bound: math.Abs(float64(v)), kind: 0}
		case 3:
			s := []string{"", "a", "xy", "q"}[r.Intn(4)]
			return enumExpr{wire: "s" + hexOrDash(s), ts: "\"" + s + "\"", kind: 1}
		case 4, 5, 6:
			if nMembers > 0 {
				i := r.Intn(nMembers)
				k := kinds[i]
				// the bound of a reference is the bound of the member it names (members reach 2^52; a fixed smaller
				// bound let `7 * M2` leave the safe-integer range unnoticed: the model gives up there, the real folder does not)
				bd := float64(uint64(1) << 40)
				if i < len(tsenumBounds) && tsenumBounds[i] > bd {
					bd = tsenumBounds[i]
				}
				return enumExpr{wire: fmt.Sprintf("r%d", i), ts: fmt.Sprintf("M%d", i), bound: bd, kind: k}
			}
			return enumExpr{wire: "n1", ts: "1", bound: 1, kind: 0}
		default:
			return enumExpr{wire: "o", ts: "g()", kind: 2}
		}
	}
	// TypeScript rejects arithmetic on strings (and esbuild folds ToNumber of constant strings, which the
	// model does not): string operands only ever meet `+` with another string
	nonString := func() enumExpr {
		for {
			x := genEnumExpr(r, depth-1, kinds, nMembers)
			if x.kind != 1 {
				return x
			}
		}
	}
	if r.Chance(1, 5) {
		a := nonString()
		if r.Bool() {
			k := a.kind
			if k == 1 {
				k = 2
			}
			return enumExpr{wire: "neg " + a.wire, ts: "-(" + a.ts + ")", bound: a.bound, kind: k, big: a.big}
		}
		k := a.kind
		if k == 1 {
			k = 2
		}
		return enumExpr{wire: "bnot " + a.wire, ts: "~(" + a.ts + ")", bound: 1 << 32, kind: k, big: a.big}
	}
	a := genEnumExpr(r, depth-1, kinds, nMembers)
	b := genEnumExpr(r, depth-1, kinds, nMembers)
	if a.kind == 1 && b.kind == 1 {
		return enumExpr{wire: "add " + a.wire + " " + b.wire, ts: "(" + a.ts + " + " + b.ts + ")", kind: 1}
	}
	if a.kind == 1 {
		a = nonString()
	}
	if b.kind == 1 {
		b = nonString()
	}
	ops := []struct{ w, t string }{{"add", "+"}, {"sub", "-"}, {"mul", "*"}, {"bor", "|"}, {"band", "&"}, {"bxor", "^"}, {"shl", "<<"}, {"shr", ">>"}, {"ushr", ">>>"}}
	op := ops[r.Intn(len(ops))]
	e := enumExpr{wire: op.w + " " + a.wire + " " + b.wire, ts: "(" + a.ts + " " + op.t + " " + b.ts + ")"}
	switch {
	case a.kind == 0 && b.kind == 0:
		e.kind = 0
	case op.w == "add" && a.kind == 1 && b.kind == 1:
		e.kind = 1
	default:
		e.kind = 2
	}
	switch op.w {
	case "add", "sub":
		e.bound = a.bound + b.bound
	case "mul":
		e.bound = a.bound * b.bound
	default:
		e.bound = 1 << 32
	}
	e.big = a.big || b.big || e.bound >= (1<<52)
	return e
}

func hexOrDash(s string) string {
	if s == "" {
		return "-"
	}
	return hex.EncodeToString([]byte(s))
}

// bounds of the members generated so far in the current enum (see the reference case of genEnumExpr)
var tsenumBounds []float64

var reEnumNum = regexp.MustCompile(`^(-?\d+(?:e\d+)?)( /\* \w+ \*/)?$`)
var reEnumStr = regexp.MustCompile(`^"([a-z]*)"( /\* \w+ \*/)?$`)

func init() {
	kernels["tsenum"] = func(r *gen.Rand, e *emitter, tier string) {
		for !e.full() {
			n := 1 + r.Intn(7)
			kinds := []int{}
			wires := []string{}
			var src strings.Builder
			src.WriteString("declare function g(): number;\nenum E {\n")
			ok := true
			tsenumBounds = tsenumBounds[:0]
			for i := 0; i < n; i++ {
				name := fmt.Sprintf("M%d", i)
				if r.Chance(1, 3) {
					prev := float64(0)
					if i > 0 {
						prev = tsenumBounds[i-1]
					}
					tsenumBounds = append(tsenumBounds, prev+1)
					wires = append(wires, name)
					fmt.Fprintf(&src, "  %s,\n", name)
					k := 0
					if i > 0 && kinds[i-1] != 0 {
						k = 2
					}
					kinds = append(kinds, k)
					e.stat("member:auto")
					continue
				}
				ex := genEnumExpr(r, 3, kinds, i)
				if ex.big || (ex.kind == 0 && ex.bound >= (1<<52)) {
					ok = false
					break
				}
				// a string or unknown operand deep inside a numeric-looking expression keeps the real folder
				// from folding: the generator's kind already says "unknown" for those
				wires = append(wires, name+"="+ex.wire)
				fmt.Fprintf(&src, "  %s = %s,\n", name, ex.ts)
				kinds = append(kinds, ex.kind)
				tsenumBounds = append(tsenumBounds, float64(ex.bound))
				e.stat([]string{"member:number", "member:string", "member:unknown"}[ex.kind])
			}
			if !ok {
				e.stat("skipped:too-large")
				continue
			}
			src.WriteString("}\nconsole.log(")
			for i := 0; i < n; i++ {
				if i > 0 {
					src.WriteString(", ")
				}
				fmt.Fprintf(&src, "E.M%d", i)
			}
			src.WriteString(");\n")
			res := api.Transform(src.String(), api.TransformOptions{Loader: api.LoaderTS, LogLevel: api.LogLevelSilent})
			if len(res.Errors) > 0 {
				e.stat("transform-error")
				continue
			}
			out := string(res.Code)
			i := strings.LastIndex(out, "console.log(")
			if i < 0 {
				e.emit("tsenum\t"+strings.Join(wires, ";"), "NO-LOG")
				continue
			}
			args := strings.TrimSuffix(strings.TrimSpace(out[i+len("console.log("):]), ");")
			vals := []string{}
			for _, a := range strings.Split(args, ", ") {
				if m := reEnumNum.FindStringSubmatch(a); m != nil {
					f, _ := strconv.ParseFloat(m[1], 64) // esbuild prints the shortest form, e.g. -27e3
					if f == 0 {
						f = 0 // the model has no signed zero
					}
					vals = append(vals, "n"+strconv.FormatFloat(f, 'f', 0, 64))
				} else if m := reEnumStr.FindStringSubmatch(a); m != nil {
					vals = append(vals, "s"+hexOrDash(m[1]))
				} else {
					vals = append(vals, "u")
				}
			}
			e.emit("tsenum\t"+strings.Join(wires, ";"), strings.Join(vals, " "))
		}
	}
}
