package main

import (
	"fmt"
	"strings"

	"github.com/evanw/esbuild/internal/linker"
	"github.com/evanw/esbuild/verifharness/gen"
)

func showPieces(ps []linker.VerifPiece) string {
	parts := make([]string, len(ps))
	for i, p := range ps {
		parts[i] = fmt.Sprintf("%s:%d:%d", hexBytes(p.Data), p.Kind, p.Index)
	}
	if len(parts) == 0 {
		return ""
	}
	return strings.Join(parts, " ")
}

func init() {
	kernels["pieces"] = func(r *gen.Rand, e *emitter, tier string) {
		for !e.full() {
			switch r.Intn(4) {
			case 3: // shifts of substituteFinalPaths (generated positions before / after every substituted path)
				piecesShiftsCase(r, e)
			case 0: // breakOutputIntoPieces on text with valid, invalid and truncated keys
				prefix := []string{"ab", "k", "QQ12", "aa", "aab"}[r.Intn(5)]
				nFiles, nChunks := r.Intn(4), r.Intn(4)
				var out []byte
				n := r.Intn(6)
				for i := 0; i < n; i++ {
					switch r.Intn(8) {
					case 0, 1, 2: // valid-looking key
						kind := "AC"[r.Intn(2)]
						out = append(out, fmt.Sprintf("%s%c%08d", prefix, kind, r.Intn(5))...)
						e.stat("break:key")
					case 3: // bad kind / bad digit / truncated
						s := fmt.Sprintf("%s%c%08d", prefix, "ACXc"[r.Intn(4)], r.Intn(3))
						b := []byte(s)
						if r.Bool() {
							b[len(prefix)+1+r.Intn(8)] = "x/:a"[r.Intn(4)]
						}
						if r.Chance(1, 3) {
							b = b[:len(b)-1-r.Intn(4)]
						}
						out = append(out, b...)
						e.stat("break:badkey")
					case 4: // partial prefix
						out = append(out, prefix[:1+r.Intn(len(prefix))]...)
					default:
						m := r.Intn(5)
						for j := 0; j < m; j++ {
							out = append(out, "abkQ1A0C \n"[r.Intn(10)])
						}
					}
				}
				e.emit(fmt.Sprintf("pieces\tbreak\t%s\t%d\t%d\t%s", hexBytes([]byte(prefix)), nFiles, nChunks, hexBytes(out)),
					guard(func() string { return showPieces(linker.VerifBreakOutputIntoPieces(prefix, nFiles, nChunks, out)) }))
			case 1: // substituteFinalPaths + accurateFinalByteCount (chunk pieces, public path)
				nChunks := 1 + r.Intn(3)
				paths := make([]string, nChunks)
				for i := range paths {
					paths[i] = []string{"a.js", "./b.js", "chunk-ABCDEFGH.js", "dir/x.js", ".///./c.js", "é.js"}[r.Intn(6)]
				}
				pub := []string{"/", "https://cdn/x", "https://cdn/x/", "p"}[r.Intn(4)]
				n := 1 + r.Intn(5)
				ps := make([]linker.VerifPiece, n)
				for i := range ps {
					m := r.Intn(6)
					d := make([]byte, m)
					for j := range d {
						d[j] = "ab\n\r;é"[r.Intn(6)]
					}
					ps[i] = linker.VerifPiece{Data: d}
					if i < n-1 {
						ps[i].Kind = 2
						ps[i].Index = uint32(r.Intn(nChunks))
					}
				}
				// the model receives the final import path per chunk index (computed by the real
				// pathBetweenChunks / joinWithPublicPath through a one-piece probe)
				finals := make([]string, nChunks)
				for i := range finals {
					j, _, _ := linker.VerifSubstituteAndCount("zz", paths, pub, []linker.VerifPiece{{Kind: 2, Index: uint32(i)}})
					finals[i] = hexBytes(j)
				}
				e.stat("subst")
				e.emit(fmt.Sprintf("pieces\tsubst\t%s\t%s", strings.Join(finals, " "), showPieces(ps)),
					guard(func() string {
						j, count, _ := linker.VerifSubstituteAndCount("zz", paths, pub, ps)
						return fmt.Sprintf("%s %d", hexBytes(j), count)
					}))
			case 2: // hash pre-image
				n := r.Intn(5)
				items := make([][]byte, n)
				strs := make([]string, n)
				for i := range items {
					m := r.Intn(5)
					if r.Chance(1, 20) {
						m = 255 + r.Intn(3)
					}
					items[i] = make([]byte, m)
					for j := range items[i] {
						items[i][j] = byte(r.Intn(256))
					}
					strs[i] = hexBytes(items[i])
				}
				arg := "."
				if n > 0 {
					arg = strings.Join(strs, " ")
				}
				e.stat("preimage")
				e.emit("pieces\tpreimage\t"+arg, guard(func() string {
					return hexBytes(linker.VerifHashPreimage(items, make([]bool, n), make([]uint32, n)))
				}))
			}
		}
	}
}

func runesOf(s string) string {
	rs := []rune(s)
	if len(rs) == 0 {
		return "-"
	}
	parts := make([]string, len(rs))
	for i, c := range rs {
		parts[i] = fmt.Sprint(int(c))
	}
	return strings.Join(parts, ",")
}

// piecesShiftsCase: real substituteFinalPaths on pieces whose data contains line terminators (LF, CR, CR LF also split
// across a piece boundary, U+2028/2029), astral and other non-ASCII characters, with ASCII and non-ASCII final paths.
func piecesShiftsCase(r *gen.Rand, e *emitter) {
	nChunks := 1 + r.Intn(3)
	paths := make([]string, nChunks)
	for i := range paths {
		paths[i] = []string{"a.js", "./b.js", "chunk-ABCDEFGH.js", "dir/x.js", "é.js", "страница-Q2.js", "資産😀.js"}[r.Intn(7)]
	}
	pub := []string{"/", "https://cdn/x/", "https://cdn.example/資産/"}[r.Intn(3)]
	finals := make([]string, nChunks)
	for i := range finals {
		j, _, _ := linker.VerifSubstituteAndCount("zz", paths, pub, []linker.VerifPiece{{Kind: 2, Index: uint32(i)}})
		finals[i] = string(j)
	}
	alphabet := []string{"a", "b", ";", "\n", "\r", "\r\n", "\u2028", "\u2029", "é", "😀", " ", "\""}
	n := 1 + r.Intn(5)
	ps := make([]linker.VerifPiece, n)
	ops := make([]string, n)
	for i := range ps {
		var sb strings.Builder
		m := r.Intn(6)
		for j := 0; j < m; j++ {
			sb.WriteString(alphabet[r.Intn(len(alphabet))])
		}
		if i > 0 && r.Chance(1, 4) { // LF right after a placeholder
			d := "\n" + sb.String()
			sb.Reset()
			sb.WriteString(d)
		}
		data := sb.String()
		ps[i] = linker.VerifPiece{Data: []byte(data)}
		if i < n-1 {
			ps[i].Kind = 2
			ps[i].Index = uint32(r.Intn(nChunks))
			key := fmt.Sprintf("zzC%08d", ps[i].Index)
			ops[i] = runesOf(data) + "/" + runesOf(key) + "/" + runesOf(finals[ps[i].Index])
		} else {
			ops[i] = runesOf(data) + "/x/x"
		}
	}
	e.stat("shifts")
	for _, f := range finals {
		if len(f) != len([]rune(f)) {
			e.stat("shifts:non-ascii-path")
			break
		}
	}
	e.emit("shifts\tshifts\t"+strings.Join(ops, " "), guard(func() string {
		_, _, shifts := linker.VerifSubstituteAndCount("zz", paths, pub, ps)
		out := make([]string, len(shifts))
		for i, s := range shifts {
			out[i] = fmt.Sprintf("%d:%d>%d:%d", s.Before.Lines, s.Before.Columns, s.After.Lines, s.After.Columns)
		}
		return strings.Join(out, " ")
	}))
}
