package main

// Kernel `lexnum`: the REAL js_lexer (NewLexer → Next → parseNumericLiteralOrDot) on generated literal texts
// against the Lean model Impl/LexNum.lean.
//
//	op:        lexnum\t<code points of the text from lexer.start, comma separated>
//	expected:  dot | dotdotdot | num <len> <float64 bits> <legacy> | big <len> <text> <legacy> | err <pos>
//
// The text is placed after an optional whitespace/comment prefix (so that lexer.start > 0 is exercised); positions
// are reported relative to lexer.start.

import (
	"fmt"
	"math"
	"strings"

	"github.com/evanw/esbuild/internal/config"
	"github.com/evanw/esbuild/internal/js_lexer"
	"github.com/evanw/esbuild/internal/logger"
	"github.com/evanw/esbuild/verifharness/gen"
)

func lexnumReal(prefix, text string) (out string) {
	log := logger.NewDeferLog(logger.DeferLogAll, nil)
	defer func() {
		if r := recover(); r != nil {
			if _, ok := r.(js_lexer.LexerPanic); !ok {
				out = "PANIC"
				return
			}
			for _, m := range log.Done() {
				if m.Kind == logger.Error && m.Data.Location != nil {
					out = fmt.Sprintf("err %d", m.Data.Location.Column-len(prefix))
					return
				}
			}
			out = "err ?"
		}
	}()
	lx := js_lexer.NewLexer(log, logger.Source{Contents: prefix + text}, config.TSOptions{})
	legacy := 0
	if lx.IsLegacyOctalLiteral {
		legacy = 1
	}
	if int(lx.Range().Loc.Start) != len(prefix) {
		return "other-start"
	}
	switch lx.Token {
	case js_lexer.TDot:
		return "dot"
	case js_lexer.TDotDotDot:
		return "dotdotdot"
	case js_lexer.TNumericLiteral:
		return fmt.Sprintf("num %d %016x %d", lx.Range().Len, math.Float64bits(lx.Number), legacy)
	case js_lexer.TBigIntegerLiteral:
		return fmt.Sprintf("big %d %s %d", lx.Range().Len, lx.Identifier.String, legacy)
	}
	return "other"
}

func lexnumDigits(r *gen.Rand, alphabet string, n int, first string) string {
	var b strings.Builder
	for i := 0; i < n; i++ {
		if i == 0 && first != "" {
			b.WriteByte(first[r.Intn(len(first))])
		} else {
			b.WriteByte(alphabet[r.Intn(len(alphabet))])
		}
	}
	return b.String()
}

// insert single separators strictly between digits with the given probability
func lexnumSep(r *gen.Rand, ds string, num, den int) string {
	var b strings.Builder
	for i := 0; i < len(ds); i++ {
		if i > 0 && r.Chance(num, den) {
			b.WriteByte('_')
		}
		b.WriteByte(ds[i])
	}
	return b.String()
}

func lexnumLen(r *gen.Rand) int {
	switch r.Intn(8) {
	case 0:
		return 1
	case 1:
		return 1 + r.Intn(3)
	case 2:
		return 8 + r.Intn(4) // around the 10-byte fast-path limit
	case 3:
		return 15 + r.Intn(6) // around 2^53 in decimal
	case 4:
		return 1 + r.Intn(40)
	case 5:
		return 300 + r.Intn(30) // overflow to +Inf
	default:
		return 1 + r.Intn(12)
	}
}

var lexnumBoundaryDec = []string{
	"9007199254740992", "9007199254740993", "9007199254740991", "9007199254740995", "18014398509481985", "4294967295", "4294967296", "999999999", "1000000000",
	"179769313486231570", "17976931348623157", "17976931348623158", "17976931348623159", "24703282292062327", "24703282292062328", "49406564584124654", "22250738585072014", "22250738585072011",
	"5", "1", "0", "123456789", "1234567890",
}

func lexnumExponent(r *gen.Rand) string {
	if r.Chance(1, 3) {
		return ""
	}
	e := "e"
	if r.Bool() {
		e = "E"
	}
	e += []string{"", "+", "-"}[r.Intn(3)]
	switch r.Intn(6) {
	case 0:
		e += []string{"308", "309", "307", "324", "323", "325", "292", "293", "340", "1000", "99999", "0", "00", "007"}[r.Intn(14)]
	case 1:
		e += lexnumSep(r, lexnumDigits(r, "0123456789", 1+r.Intn(4), ""), 1, 3)
	default:
		e += lexnumDigits(r, "0123456789", 1+r.Intn(2), "")
	}
	return e
}

func lexnumRadixDigits(r *gen.Rand, alphabet string, bitsPerDigit int) string {
	switch r.Intn(6) {
	case 0: // around 2^53 .. 2^64: exactly the rounding region
		nd := (53+bitsPerDigit-1)/bitsPerDigit + r.Intn(4)
		return lexnumDigits(r, alphabet, nd, alphabet[1:])
	case 1: // 2^53 + small, halfway cases: 1 followed by zeros and a low tail
		nd := (56+r.Intn(12))/bitsPerDigit + 1
		ds := []byte("1" + strings.Repeat("0", nd-1))
		for k := 0; k < 1+r.Intn(3); k++ {
			ds[len(ds)-1-r.Intn(lexnumMin(4, len(ds)-1))] = alphabet[r.Intn(len(alphabet))]
		}
		return string(ds)
	case 2: // overflow
		return lexnumDigits(r, alphabet, 1024/bitsPerDigit-2+r.Intn(5), alphabet[1:])
	case 3:
		return lexnumDigits(r, alphabet, 1+r.Intn(60), "")
	default:
		return lexnumDigits(r, alphabet, 1+r.Intn(12), "")
	}
}

// a valid literal (before mutation); the string describes the generator branch
func lexnumValid(r *gen.Rand) (string, string) {
	switch r.Intn(12) {
	case 0, 1: // decimal integer, maybe with separators, maybe bigint
		var ds string
		if r.Chance(1, 4) {
			ds = lexnumBoundaryDec[r.Intn(len(lexnumBoundaryDec))]
		} else {
			ds = lexnumDigits(r, "0123456789", lexnumLen(r), "123456789")
		}
		if r.Chance(1, 3) {
			ds = lexnumSep(r, ds, 1, 4)
		}
		if r.Chance(1, 4) {
			return ds + "n", "gen:dec-bigint"
		}
		return ds, "gen:dec-int"
	case 2, 3, 4: // decimal with fraction and/or exponent
		ip := lexnumDigits(r, "0123456789", 1+r.Intn(6), "123456789")
		switch r.Intn(5) {
		case 0:
			ip = "0"
		case 1:
			ip = lexnumBoundaryDec[r.Intn(len(lexnumBoundaryDec))]
		case 2:
			ip = lexnumDigits(r, "0123456789", lexnumLen(r), "123456789")
		}
		if r.Chance(1, 4) {
			ip = lexnumSep(r, ip, 1, 3)
		}
		fp := ""
		if r.Chance(2, 3) {
			fp = "."
			if r.Chance(4, 5) {
				f := lexnumDigits(r, "0123456789", lexnumLen(r), "")
				if r.Chance(1, 4) {
					f = lexnumSep(r, f, 1, 3)
				}
				fp += f
			}
		}
		if r.Chance(1, 8) && len(fp) > 1 {
			ip = "" // ".5"
		}
		return ip + fp + lexnumExponent(r), "gen:dec-float"
	case 5, 6: // hex
		ds := lexnumRadixDigits(r, "0123456789abcdefABCDEF", 4)
		if r.Chance(1, 3) {
			ds = lexnumSep(r, ds, 1, 4)
		}
		s := "0" + string("xX"[r.Intn(2)]) + ds
		if r.Chance(1, 5) {
			return s + "n", "gen:hex-bigint"
		}
		return s, "gen:hex"
	case 7: // binary
		ds := lexnumRadixDigits(r, "01", 1)
		if r.Chance(1, 3) {
			ds = lexnumSep(r, ds, 1, 6)
		}
		s := "0" + string("bB"[r.Intn(2)]) + ds
		if r.Chance(1, 5) {
			return s + "n", "gen:bin-bigint"
		}
		return s, "gen:bin"
	case 8: // octal
		ds := lexnumRadixDigits(r, "01234567", 3)
		if r.Chance(1, 3) {
			ds = lexnumSep(r, ds, 1, 4)
		}
		s := "0" + string("oO"[r.Intn(2)]) + ds
		if r.Chance(1, 5) {
			return s + "n", "gen:oct-bigint"
		}
		return s, "gen:oct"
	case 9: // legacy octal
		return "0" + lexnumRadixDigits(r, "01234567", 3), "gen:legacy-octal"
	case 10: // 08, 089.5, 0789 (NonOctalDecimalIntegerLiteral), maybe with fraction / exponent
		ds := lexnumDigits(r, "0123456789", r.Intn(5), "")
		if r.Bool() {
			ds = lexnumDigits(r, "01234567", r.Intn(4), "") + ds
		}
		ds = "0" + ds[:r.Intn(len(ds)+1)] + string("89"[r.Intn(2)]) + ds[lexnumMin(len(ds), r.Intn(len(ds)+1)):]
		if r.Chance(1, 6) {
			ds = "0" + lexnumDigits(r, "0123456789", 6+r.Intn(12), "") + "9"
		}
		if r.Chance(1, 3) {
			ds += "." + lexnumDigits(r, "0123456789", r.Intn(4), "")
		}
		if r.Chance(1, 4) {
			ds += lexnumExponent(r)
		}
		return ds, "gen:nonoctal-decimal"
	default: // dots
		return []string{".", "..", "...", "....", ".5", "..5", "...5", ".a", ".e1", "._1", ".5.", ".5e1", ".5_0", ".5n", ". .", ".é"}[r.Intn(16)], "gen:dots"
	}
}

var lexnumFollow = []string{"", "", "", " ", ";", ")", "n", "a", "_", "$", ".", ".5", "..", "é", "π", "€", " ", "\U0001D4B3", "5", "\n", "e", "e5", "\\u0061", "x", "in", "nn", "n1", "n_", "ª", "中", "\U0001F600", " ", "@", "/", "8", "9", "\x7f"}

func lexnumMutate(r *gen.Rand, s string) string {
	if len(s) == 0 {
		return s
	}
	b := []byte(s)
	i := r.Intn(len(b) + 1)
	switch r.Intn(7) {
	case 0: // insert an underscore anywhere (start, end, next to another one, next to . e x n)
		return string(b[:i]) + "_" + string(b[i:])
	case 1: // double underscore
		return string(b[:i]) + "__" + string(b[i:])
	case 2: // delete a character
		if i < len(b) {
			return string(b[:i]) + string(b[i+1:])
		}
		return string(b[:len(b)-1])
	case 3: // out-of-range digit / foreign letter
		return string(b[:i]) + string("0123456789abcdefABCDEFgGnN.eE+-xXoObB_"[r.Intn(38)]) + string(b[i:])
	case 4: // replace
		if i < len(b) {
			b[i] = "0123456789abcdefABCDEFgGnN.eE+-xXoObB_"[r.Intn(38)]
		}
		return string(b)
	case 5: // leading zero
		return "0" + s
	default: // truncate
		return string(b[:i])
	}
}

func init() {
	kernels["lexnum"] = func(r *gen.Rand, e *emitter, tier string) {
		fixed := []string{"1__0", "0x", "1_", ".e1", "08.5", "09n", "0b2", "0789.5", "0789e1", "0789", "089", "07.5", "0_1", "00n", "0n", "0_n", "1_n", "3in", "0x1fn", "0X1_Fn", "0b1e",
			"0x20000000000001", "0x20000000000003", "0x2000000000000180", "0x1fffffffffffff", "0x3fffffffffffff", "0o400000000000000001", "0400000000000000001", "0b" + strings.Repeat("1", 54),
			"1e309", "5e-324", "2.4703282292062327e-324", "2.4703282292062328e-324", "1.7976931348623158e308", "1.7976931348623159e308", "9007199254740993", "999999999", "1000000000", "1_000_000_0", "0.0000001",
			"1.", "1.e5", "1._5", "1_.5", "1e_5", "1e5_", "1e+_5", "1e+", "1e", "1.5_e1", "0e1", "0.5", "00", "00.5", "08_1", "08.1_2", "0e", "0_", "0b", "0o_7", "0x_f", "0xf_", "0xg", "0b1n", "0O17N"}
		for _, f := range fixed {
			if e.full() {
				break
			}
			e.stat("fixed")
			lexnumEmit(e, "", f)
		}
		for !e.full() {
			var text, g string
			switch r.Intn(10) {
			case 0: // raw soup
				n := 1 + r.Intn(10)
				alpha := "0123456789_.eE+-nxXbBoOaAfF"
				var b strings.Builder
				b.WriteByte("0123456789."[r.Intn(11)])
				for i := 0; i < n; i++ {
					b.WriteByte(alpha[r.Intn(len(alpha))])
				}
				text, g = b.String(), "gen:soup"
			case 1, 2, 3: // mutated valid literal
				text, g = lexnumValid(r)
				for k := 0; k < 1+r.Intn(2); k++ {
					text = lexnumMutate(r, text)
				}
				g += "+mut"
			default:
				text, g = lexnumValid(r)
			}
			if text == "" || !strings.ContainsRune("0123456789.", rune(text[0])) {
				continue
			}
			if r.Chance(1, 2) {
				text += lexnumFollow[r.Intn(len(lexnumFollow))]
			}
			prefix := ""
			if r.Chance(1, 4) {
				prefix = []string{" ", "  ", "\t", "/**/", " /*x*/ "}[r.Intn(5)]
			}
			e.stat(g)
			lexnumEmit(e, prefix, text)
		}
	}
}

func lexnumEmit(e *emitter, prefix, text string) {
	cps := make([]string, 0, len(text))
	for _, c := range text {
		cps = append(cps, fmt.Sprintf("%d", c))
	}
	res := lexnumReal(prefix, text)
	e.stat("res:" + strings.SplitN(res, " ", 2)[0])
	// which value path of the routine produced a number
	if strings.HasPrefix(res, "num ") {
		var n int
		var bits uint64
		var lg int
		fmt.Sscanf(res, "num %d %x %d", &n, &bits, &lg)
		lit := text[:n]
		v := math.Float64frombits(bits)
		switch {
		case len(lit) > 1 && lit[0] == '0' && strings.ContainsRune("xXbBoO", rune(lit[1])):
			if v >= 1<<53 {
				e.stat("path:radix>=2^53")
			} else {
				e.stat("path:radix<2^53")
			}
		case lg == 1 && !strings.ContainsAny(lit, "89"):
			if v >= 1<<53 {
				e.stat("path:legacy-octal>=2^53")
			} else {
				e.stat("path:legacy-octal<2^53")
			}
		case lg == 1:
			if strings.ContainsAny(lit, ".eE") || strings.ContainsAny(lit[:2], "89") {
				e.stat("path:nonoctal-decimal-floatbranch")
			} else {
				e.stat("path:nonoctal-decimal-intbranch")
			}
		case !strings.ContainsAny(lit, ".eE") && n < 10:
			e.stat("path:uint32-fast")
		default:
			e.stat("path:parsefloat")
		}
		if strings.Contains(lit, "_") {
			e.stat("num-with-separators")
		}
		if math.IsInf(v, 1) {
			e.stat("num-inf")
		}
	}
	e.emit("lexnum\t"+strings.Join(cps, ","), res)
}

func lexnumMin(a, b int) int {
	if a < b {
		return a
	}
	return b
}
