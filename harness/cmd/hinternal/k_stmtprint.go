package main

import (
	"fmt"
	"strings"

	"github.com/evanw/esbuild/internal/js_ast"
	"github.com/evanw/esbuild/verifharness/gen"
)

// kernel "stmtprint": the statement level of the printer (printStmt, printIf / dangling else, for heads, semicolons,
// statement-start parentheses) against the Lean model StmtPrint, and the statement grammar Spec/StmtGrammar.
//
//	print: a generated statement list is built as js_ast by hand and printed by the REAL js_printer (default options or
//	       MinifyWhitespace); the output is cut into tokens by the REAL js_lexer, line breaks between tokens are kept as
//	       `NL`; the model must give the same pieces. (Under MinifyWhitespace this also shows that no two tokens glue.)
//	round: the Lean reference parser reads the MODEL's tokens; the expected answer is the S-expression of what the REAL
//	       js_parser reads from the REAL printer's text (which must also be the tree that was printed).
//
// Identifier numbers 0..5 are the atoms of Spec/StmtGrammar.lean: `let`, `async`, `{}`, `function(){}`, `class{}`,
// `async function(){}`; names start at 6.
type sdecl struct {
	n int
	e *pexpr
}

type snode struct {
	kind  string // E Z B I J L D A R0 R T K0 K C0 C V X
	e     *pexpr
	n     int
	kids  []*snode
	dk    byte // v l c
	decls []sdecl
	// loop head (kind L): hk F G O W
	hk       byte
	initKind byte // N E V (for F); E V (for G / O)
	init     *pexpr
	test     *pexpr
	upd      *pexpr
	aw       bool
	val      *pexpr
}

func wireExpr(sb *strings.Builder, x *pexpr) { x.wire(sb) }

func wireDecls(sb *strings.Builder, dk byte, ds []sdecl) {
	fmt.Fprintf(sb, "%c %d ", dk, len(ds))
	for _, d := range ds {
		if d.e == nil {
			fmt.Fprintf(sb, "%d 0 ", d.n)
		} else {
			fmt.Fprintf(sb, "%d 1 ", d.n)
			d.e.wire(sb)
		}
	}
}

func wireOpt(sb *strings.Builder, x *pexpr) {
	if x == nil {
		sb.WriteString("0 ")
	} else {
		sb.WriteString("1 ")
		x.wire(sb)
	}
}

func (s *snode) wire(sb *strings.Builder) {
	sb.WriteString(s.kind + " ")
	switch s.kind {
	case "E", "R", "T", "X":
		s.e.wire(sb)
	case "B":
		wireList(sb, s.kids)
	case "I":
		s.e.wire(sb)
		s.kids[0].wire(sb)
	case "J":
		s.e.wire(sb)
		s.kids[0].wire(sb)
		s.kids[1].wire(sb)
	case "L":
		sb.WriteString(string(s.hk) + " ")
		switch s.hk {
		case 'F':
			switch s.initKind {
			case 'N':
				sb.WriteString("N ")
			case 'E':
				sb.WriteString("E ")
				s.init.wire(sb)
			case 'V':
				sb.WriteString("V ")
				wireDecls(sb, s.dk, s.decls)
			}
			wireOpt(sb, s.test)
			wireOpt(sb, s.upd)
		case 'G', 'O':
			if s.hk == 'O' {
				if s.aw {
					sb.WriteString("1 ")
				} else {
					sb.WriteString("0 ")
				}
			}
			if s.initKind == 'E' {
				sb.WriteString("E ")
				s.init.wire(sb)
			} else {
				fmt.Fprintf(sb, "V %c %d ", s.dk, s.n)
			}
			s.val.wire(sb)
		case 'W':
			s.test.wire(sb)
		}
		s.kids[0].wire(sb)
	case "D":
		s.kids[0].wire(sb)
		s.e.wire(sb)
	case "A":
		fmt.Fprintf(sb, "%d ", s.n)
		s.kids[0].wire(sb)
	case "K", "C":
		fmt.Fprintf(sb, "%d ", s.n)
	case "V":
		wireDecls(sb, s.dk, s.decls)
	}
}

func wireList(sb *strings.Builder, ss []*snode) {
	fmt.Fprintf(sb, "%d ", len(ss))
	for _, s := range ss {
		s.wire(sb)
	}
}

// ---- S-expressions (same text as Lean's showStmt); expressions with their comma chains re-associated to the left

func sx(x *pexpr) string { return x.normComma().sexp() }

func sexpDecls(dk byte, ds []sdecl) string {
	s := fmt.Sprintf("(V %c", dk)
	for _, d := range ds {
		if d.e == nil {
			s += fmt.Sprintf(" (%d)", d.n)
		} else {
			s += fmt.Sprintf(" (%d %s)", d.n, sx(d.e))
		}
	}
	return s + ")"
}

func sexpOpt(x *pexpr) string {
	if x == nil {
		return "-"
	}
	return sx(x)
}

func (s *snode) sexp() string {
	switch s.kind {
	case "E", "R", "T", "X":
		return "(" + s.kind + " " + sx(s.e) + ")"
	case "Z", "R0", "K0", "C0":
		return s.kind
	case "B":
		return "(B" + sexpList(s.kids) + ")"
	case "I":
		return "(I " + sx(s.e) + " " + s.yesSexp() + ")"
	case "J":
		return "(J " + sx(s.e) + " " + s.yesSexp() + " " + s.kids[1].sexp() + ")"
	case "D":
		return "(D " + s.kids[0].sexp() + " " + sx(s.e) + ")"
	case "A":
		return fmt.Sprintf("(A %d %s)", s.n, s.kids[0].sexp())
	case "K", "C":
		return fmt.Sprintf("(%s %d)", s.kind, s.n)
	case "V":
		return sexpDecls(s.dk, s.decls)
	case "L":
		fh := func() string {
			if s.initKind == 'E' {
				return "(E " + sx(s.init) + ")"
			}
			return fmt.Sprintf("(V %c %d)", s.dk, s.n)
		}
		h := ""
		switch s.hk {
		case 'F':
			i := "N"
			if s.initKind == 'E' {
				i = "(E " + sx(s.init) + ")"
			} else if s.initKind == 'V' {
				i = sexpDecls(s.dk, s.decls)
			}
			h = "(F " + i + " " + sexpOpt(s.test) + " " + sexpOpt(s.upd) + ")"
		case 'G':
			h = "(G " + fh() + " " + sx(s.val) + ")"
		case 'O':
			aw := "0"
			if s.aw {
				aw = "1"
			}
			h = "(O " + aw + " " + fh() + " " + sx(s.val) + ")"
		case 'W':
			h = "(W " + sx(s.test) + ")"
		}
		return "(L " + h + " " + s.kids[0].sexp() + ")"
	}
	panic("snode kind " + s.kind)
}

// yesSexp: the printer puts braces around a yes-branch that ends in an `if` without `else` (wrapToAvoidAmbiguousElse),
// so the text denotes a block with that one statement (Lean: normStmt)
func (s *snode) yesSexp() string {
	if s.kids[0].kind != "B" && stmtOpenIf(s.kids[0]) {
		return "(B " + s.kids[0].sexp() + ")"
	}
	return s.kids[0].sexp()
}

func sexpList(ss []*snode) string {
	out := ""
	for _, s := range ss {
		out += " " + s.sexp()
	}
	return out
}

// ---- generator

type stmtGen struct {
	r       *gen.Rand
	pg      *precGen
	next    int  // next fresh name (declarations, labels)
	module  bool // may use `export default` and `for await`; no `return`, no identifier `let`
	wild    bool // print-only: no validity constraints (break anywhere, `let` declarations as bodies, const without init)
	hasStar bool
}

// remap turns the identifiers 0..5 of precGen into names 6..11 or, sometimes, atoms; `leftmost` forces hazards at the
// start of the expression; assignment / update targets never become the literal atoms 2..5
func (g *stmtGen) remap(x *pexpr, target bool, leftSpine bool) {
	if x.kind == 'i' {
		switch {
		case leftSpine && g.r.Chance(1, 2), g.r.Chance(1, 10):
			a := g.r.Intn(6)
			if target && a >= 2 {
				a = g.r.Intn(2)
			}
			if g.module && a == 0 {
				a = 1
			}
			x.n = a
		default:
			x.n += 6
		}
		return
	}
	if x.kind == 'd' {
		x.n += 6 // property names are ordinary names
	}
	for i, k := range x.kids {
		isTarget := i == 0 && ((x.kind == 'u' && x.op.UnaryAssignTarget() != js_ast.AssignTargetNone) ||
			(x.kind == 'b' && x.op.BinaryAssignTarget() != js_ast.AssignTargetNone))
		left := leftSpine && i == 0 && !(x.kind == 'u' && x.op.IsPrefix()) && x.kind != 'w'
		g.remap(k, isTarget, left)
	}
}

func (g *stmtGen) expr() *pexpr {
	depth := g.r.Intn(4)
	if g.r.Chance(1, 30) {
		depth = 6
	}
	x := g.pg.expr(depth).clone()   // precGen shares sub-trees
	for !g.wild && !x.targetsOk() { // some special shapes of precGen have `new` / `?:` as assignment targets
		x = g.pg.expr(depth).clone()
	}
	g.remap(x, false, true)
	return x
}

// noComma: an AssignmentExpression (the printer would print a comma at LComma in parentheses: fine, but the tree the
// grammar derives has no bare comma there)
func (g *stmtGen) assignExpr() *pexpr {
	x := g.expr()
	for x.isComma() {
		x = x.kids[1]
	}
	return x
}

func (g *stmtGen) lhs() *pexpr {
	x := g.pg.target(g.r.Intn(3)).clone()
	g.remap(x, true, true)
	return x
}

func (x *pexpr) clone() *pexpr {
	y := *x
	y.kids = nil
	for _, k := range x.kids {
		y.kids = append(y.kids, k.clone())
	}
	return &y
}

func (g *stmtGen) fresh() int { g.next++; return g.next }

type sctx struct {
	inLoop     bool
	top        bool  // directly in the top-level list
	list       bool  // directly in a statement list (lexical declarations allowed)
	labels     []int // labels in scope
	loopLabels []int // labels that directly label a loop
}

func (g *stmtGen) decls(dk byte, forInit bool) []sdecl {
	n := 1 + g.r.Intn(3)
	ds := make([]sdecl, n)
	for i := range ds {
		ds[i].n = g.fresh()
		if dk == 'c' || g.r.Chance(2, 3) {
			if !(g.wild && g.r.Chance(1, 4)) {
				ds[i].e = g.assignExpr()
			}
		}
	}
	return ds
}

func (g *stmtGen) simple(c sctx) *snode {
	for {
		switch g.r.Intn(12) {
		case 0, 1, 2, 3, 4:
			return &snode{kind: "E", e: g.expr()}
		case 5:
			return &snode{kind: "Z"}
		case 6:
			if g.module && !g.wild {
				continue
			}
			if g.r.Chance(1, 3) {
				return &snode{kind: "R0"}
			}
			return &snode{kind: "R", e: g.expr()}
		case 7:
			return &snode{kind: "T", e: g.expr()}
		case 8:
			if len(c.labels) > 0 && g.r.Bool() {
				return &snode{kind: "K", n: c.labels[g.r.Intn(len(c.labels))]}
			}
			if c.inLoop || g.wild {
				return &snode{kind: "K0"}
			}
		case 9:
			if len(c.loopLabels) > 0 && c.inLoop && g.r.Bool() {
				return &snode{kind: "C", n: c.loopLabels[g.r.Intn(len(c.loopLabels))]}
			}
			if c.inLoop || g.wild {
				return &snode{kind: "C0"}
			}
		case 10:
			dk := byte('v')
			if c.list || g.wild {
				dk = "vlc"[g.r.Intn(3)]
			}
			return &snode{kind: "V", dk: dk, decls: g.decls(dk, false)}
		case 11:
			if (g.module && c.top && !g.hasStar) || (g.wild && g.r.Chance(1, 3)) {
				g.hasStar = true
				return &snode{kind: "X", e: g.assignExpr()}
			}
		}
	}
}

func (g *stmtGen) list(depth int, c sctx, max int) []*snode {
	n := g.r.Intn(max + 1)
	out := make([]*snode, n)
	c.list = true
	for i := range out {
		out[i] = g.stmt(depth, c)
	}
	return out
}

func (g *stmtGen) stmt(depth int, c sctx) *snode {
	if depth <= 0 || g.r.Chance(1, 3) {
		return g.simple(c)
	}
	d := depth - 1
	sub := c
	sub.top, sub.list = false, false
	switch g.r.Intn(12) {
	case 0, 1:
		return &snode{kind: "B", kids: g.list(d, sub, 3)}
	case 2, 3:
		return &snode{kind: "I", e: g.expr(), kids: []*snode{g.stmt(d, sub)}}
	case 4, 5, 6:
		// dangling-else situations: the yes-branch often ends in an if without else
		yes := g.stmt(d, sub)
		if g.r.Chance(1, 2) {
			yes = &snode{kind: "I", e: g.expr(), kids: []*snode{g.stmt(d, sub)}}
			switch g.r.Intn(4) {
			case 0:
				yes = &snode{kind: "A", n: g.fresh(), kids: []*snode{yes}}
			case 1:
				yes = &snode{kind: "L", hk: 'W', test: g.expr(), kids: []*snode{yes}}
			case 2:
				yes = &snode{kind: "J", e: g.expr(), kids: []*snode{g.stmt(d, sub), yes}}
			}
		}
		return &snode{kind: "J", e: g.expr(), kids: []*snode{yes, g.stmt(d, sub)}}
	case 7, 8:
		return g.loop(d, sub, nil)
	case 9:
		s := &snode{kind: "D", e: g.expr()}
		sub.inLoop = true
		s.kids = []*snode{g.stmt(d, sub)}
		return s
	case 10:
		l := g.fresh()
		sub.labels = append(append([]int{}, c.labels...), l)
		if g.r.Bool() {
			return &snode{kind: "A", n: l, kids: []*snode{g.loop(d, sub, &l)}}
		}
		return &snode{kind: "A", n: l, kids: []*snode{g.stmt(d, sub)}}
	default:
		return g.simple(c)
	}
}

func (g *stmtGen) loop(d int, c sctx, label *int) *snode {
	s := &snode{kind: "L"}
	opt := func() *pexpr {
		if g.r.Chance(1, 3) {
			return nil
		}
		return g.expr()
	}
	forHead := func() {
		if g.r.Chance(2, 3) {
			s.initKind = 'E'
			s.init = g.lhs()
			if g.r.Chance(1, 3) { // the hazards `for (async of`, `for (let of`, `for (let in`
				s.init = &pexpr{kind: 'i', n: g.r.Intn(2)}
				if g.module {
					s.init.n = 1
				}
			}
		} else {
			s.initKind = 'V'
			s.dk = "vlc"[g.r.Intn(3)]
			s.n = g.fresh()
		}
	}
	switch g.r.Intn(6) {
	case 0, 1:
		s.hk = 'F'
		s.initKind = "NEV"[g.r.Intn(3)]
		if s.initKind == 'E' {
			s.init = g.expr()
		} else if s.initKind == 'V' {
			s.dk = "vlc"[g.r.Intn(3)]
			s.decls = g.decls(s.dk, true)
		}
		s.test, s.upd = opt(), opt()
	case 2:
		s.hk = 'G'
		forHead()
		s.val = g.expr()
	case 3, 4:
		s.hk = 'O'
		s.aw = (g.module || g.wild) && g.r.Chance(1, 3)
		forHead()
		s.val = g.assignExpr()
	default:
		s.hk = 'W'
		s.test = g.expr()
	}
	c.inLoop = true
	if label != nil {
		c.loopLabels = append(append([]int{}, c.loopLabels...), *label)
	}
	s.kids = []*snode{g.stmt(d, c)}
	return s
}

// shape statistics: which printer branches a program exercises
func (s *snode) stats(e *emitter) {
	e.stat("stmt-" + s.kind)
	if s.kind == "L" {
		e.stat("loop-" + string(s.hk) + "-init-" + string(s.initKind))
		if s.init != nil && s.init.kind == 'i' && s.init.n < 2 && s.hk != 'F' {
			e.stat(fmt.Sprintf("forhead-atom-%d-%c-await=%v", s.init.n, s.hk, s.aw))
		}
	}
	if s.kind == "I" || s.kind == "J" {
		if s.kids[0].kind == "B" {
			e.stat("if-yes-block")
		} else if s.kind == "J" && stmtOpenIf(s.kids[0]) {
			e.stat("if-yes-wrapped-dangling-else")
		}
		if s.kind == "J" && (s.kids[1].kind == "I" || s.kids[1].kind == "J") {
			e.stat("else-if")
		}
	}
	if s.e != nil && (s.kind == "E" || s.kind == "X") {
		l := s.e
		for l.kind != 'i' && l.kind != 'n' && !(l.kind == 'u' && l.op.IsPrefix()) && l.kind != 'w' {
			l = l.kids[0]
		}
		if l.kind == 'i' && l.n < 6 {
			e.stat(fmt.Sprintf("%s-leftmost-atom-%d", s.kind, l.n))
		}
		if s.e.kind == 'x' && s.e.kids[0].kind == 'i' && s.e.kids[0].n == 0 {
			e.stat("E-let-bracket")
		}
	}
	for _, k := range s.kids {
		k.stats(e)
	}
}

func stmtOpenIf(s *snode) bool {
	switch s.kind {
	case "I":
		return true
	case "J":
		return stmtOpenIf(s.kids[1])
	case "L", "A":
		return stmtOpenIf(s.kids[0])
	}
	return false
}
