package main

// Kernel "stdio": the stdio service protocol (cmd/esbuild/stdio_protocol.go) and the read/framing loop of
// runService (cmd/esbuild/service.go). These live in "package main", which cannot be imported, so the REAL
// routines are run by the add-only test file cmd/esbuild/verif_codec_test.go (build tag verif): this kernel
// generates the whole batch of operations, runs
//
//	go test -tags verif -run TestVerifCodec -count=1 ./cmd/esbuild      (in $VERIF_REPO, default /repo)
//
// once, and uses its output lines as the expected answers.
//
// Everything below is generator code only (it decides which inputs are tried, never what the answer is):
// value trees, an encoder used to build well-formed decoder inputs (entries in generated order, duplicates and
// unsorted keys allowed), mutations, sessions of packets cut into read chunks.

import (
	"bufio"
	"bytes"
	"encoding/binary"
	"encoding/hex"
	"fmt"
	"os"
	"os/exec"
	"path/filepath"
	"strings"

	"github.com/evanw/esbuild/verifharness/gen"
)

type sval struct {
	kind  byte // 0 nil 1 bool 2 int 3 string 4 bytes 5 array 6 map
	b     bool
	n     int
	s     []byte
	items []*sval
	keys  [][]byte
}

var stdioKeyPool = [][]byte{
	{}, []byte("a"), []byte("ab"), []byte("abc"), []byte("b"), []byte("aB"), []byte("key"), []byte("command"),
	{0x7f}, {0x80}, {0xff}, {0xff, 0x00}, {0x00}, {0x00, 0x00}, []byte("error"), []byte("k\xc3\xa9"), []byte("A"), []byte("ba"),
}

func stdioBytes(r *gen.Rand) []byte {
	var n int
	switch r.Intn(10) {
	case 0:
		n = 0
	case 1:
		n = 250 + r.Intn(12) // second length byte becomes non-zero at 256
	case 2:
		n = 1
	default:
		n = r.Intn(12)
	}
	if r.Chance(1, 400) {
		n = 65530 + r.Intn(12) // third length byte becomes non-zero at 65536
	}
	b := make([]byte, n)
	for i := range b {
		switch r.Intn(4) {
		case 0:
			b[i] = byte(r.Intn(256))
		case 1:
			b[i] = byte(r.Intn(8)) // looks like kind bytes / small counts
		default:
			b[i] = byte('a' + r.Intn(26))
		}
	}
	return b
}

func stdioInt(r *gen.Rand) int {
	switch r.Intn(6) {
	case 0:
		xs := []int{0, 1, 2, 127, 128, 255, 256, 65535, 65536, 1<<24 - 1, 1 << 24, 1<<31 - 1, 1 << 31, 1<<32 - 1}
		return xs[r.Intn(len(xs))]
	case 1: // not representable on the wire: negative or ≥ 2^32
		xs := []int{-1, -2, -256, -1 << 31, -1<<31 - 1, 1 << 32, 1<<32 + 1, 1 << 40, -1 << 40, 1<<63 - 1, -1 << 63, -1 << 32}
		return xs[r.Intn(len(xs))]
	case 2:
		return int(uint32(r.U64()))
	case 3:
		return r.BoundaryInt()
	default:
		return r.Intn(1000)
	}
}

func stdioVal(r *gen.Rand, depth int) *sval {
	k := r.Intn(9)
	if depth <= 0 && k >= 5 {
		k = r.Intn(5)
	}
	switch k {
	case 0:
		return &sval{kind: 0}
	case 1:
		return &sval{kind: 1, b: r.Bool()}
	case 2:
		return &sval{kind: 2, n: stdioInt(r)}
	case 3:
		return &sval{kind: 3, s: stdioBytes(r)}
	case 4:
		return &sval{kind: 4, s: stdioBytes(r)}
	case 5, 6:
		v := &sval{kind: 5}
		n := r.Intn(5)
		for i := 0; i < n; i++ {
			v.items = append(v.items, stdioVal(r, depth-1))
		}
		return v
	default:
		v := &sval{kind: 6}
		n := r.Intn(6)
		for i := 0; i < n; i++ {
			var key []byte
			if r.Chance(3, 4) {
				key = stdioKeyPool[r.Intn(len(stdioKeyPool))]
			} else {
				key = stdioBytes(r)
			}
			v.keys = append(v.keys, key)
			v.items = append(v.items, stdioVal(r, depth-1))
		}
		return v
	}
}

// branch statistics over a generated value tree
func stdioValStats(e *emitter, pre string, v *sval) {
	e.stat(fmt.Sprintf("%s-kind-%d", pre, v.kind))
	switch v.kind {
	case 2:
		if v.n < 0 || v.n >= 1<<32 {
			e.stat(pre + "-int-outside-uint32")
		}
	case 3, 4:
		if len(v.s) >= 256 {
			e.stat(pre + "-len>=256")
		}
		if len(v.s) >= 65536 {
			e.stat(pre + "-len>=65536")
		}
	case 5:
		for _, it := range v.items {
			stdioValStats(e, pre, it)
		}
	case 6:
		dup, unsorted := false, false
		for i, k := range v.keys {
			for j := 0; j < i; j++ {
				if string(v.keys[j]) == string(k) {
					dup = true
				}
			}
			if i > 0 && string(v.keys[i-1]) > string(k) {
				unsorted = true
			}
			stdioValStats(e, pre, v.items[i])
		}
		if dup {
			e.stat(pre + "-map-duplicate-key")
		}
		if unsorted {
			e.stat(pre + "-map-unsorted")
		}
	}
}

func stdioSyntax(sb *strings.Builder, v *sval) {
	switch v.kind {
	case 0:
		sb.WriteByte('N')
	case 1:
		if v.b {
			sb.WriteByte('T')
		} else {
			sb.WriteByte('F')
		}
	case 2:
		fmt.Fprintf(sb, "I%d;", v.n)
	case 3:
		sb.WriteByte('S')
		sb.WriteString(hex.EncodeToString(v.s))
		sb.WriteByte(';')
	case 4:
		sb.WriteByte('B')
		sb.WriteString(hex.EncodeToString(v.s))
		sb.WriteByte(';')
	case 5:
		sb.WriteString("A(")
		for _, it := range v.items {
			stdioSyntax(sb, it)
		}
		sb.WriteByte(')')
	case 6:
		sb.WriteString("M(")
		for i, it := range v.items {
			sb.WriteString(hex.EncodeToString(v.keys[i]))
			sb.WriteByte(':')
			stdioSyntax(sb, it)
		}
		sb.WriteByte(')')
	}
}

func stdioU32(b []byte, v uint32) []byte {
	var t [4]byte
	binary.LittleEndian.PutUint32(t[:], v)
	return append(b, t[:]...)
}

// generator-side encoder: entries in the generated order (possibly unsorted / duplicated)
func stdioEnc(b []byte, v *sval) []byte {
	switch v.kind {
	case 0:
		return append(b, 0)
	case 1:
		if v.b {
			return append(b, 1, 1)
		}
		return append(b, 1, 0)
	case 2:
		return stdioU32(append(b, 2), uint32(v.n))
	case 3, 4:
		return append(stdioU32(append(b, v.kind), uint32(len(v.s))), v.s...)
	case 5:
		b = stdioU32(append(b, 5), uint32(len(v.items)))
		for _, it := range v.items {
			b = stdioEnc(b, it)
		}
		return b
	default:
		b = stdioU32(append(b, 6), uint32(len(v.items)))
		for i, it := range v.items {
			b = append(stdioU32(b, uint32(len(v.keys[i]))), v.keys[i]...)
			b = stdioEnc(b, it)
		}
		return b
	}
}

func stdioBody(id uint32, isRequest bool, v *sval) []byte {
	w := id << 1
	if !isRequest {
		w |= 1
	}
	return stdioEnc(stdioU32(nil, w), v)
}

func stdioID(r *gen.Rand) uint32 {
	switch r.Intn(5) {
	case 0:
		xs := []uint32{0, 1, 2, 1<<31 - 1, 1 << 31, 1<<31 + 1, 1<<32 - 1, 1 << 30}
		return xs[r.Intn(len(xs))]
	case 1:
		return uint32(r.U64())
	default:
		return uint32(r.Intn(1000))
	}
}

// A count of 2^32-1 after a kind byte 5/6 makes the real decoder call make() for 64 GiB (array) or ~300 GiB (map) and
// the Go run time then dies with an unrecoverable "fatal error: out of memory" (reported as a finding). To keep the batch
// alive, bodies in which the decoder would reach such a count are defused: stdioRisky walks the body the way the decoder
// does (generator-side filter only) and, when it meets a count ≥ 65536, every possible count field (conservatively: the
// four bytes after ANY byte 5 or 6) is clamped below 65536.
func stdioRisky(b []byte) bool {
	risky, _ := stdioWalk(b)
	return risky
}

// stdioWalk: generator-side walk over a packet body in the decoder's order. Returns whether a count ≥ 65536 is
// reached, and a label saying where the walk ended (used for the branch statistics only).
func stdioWalk(b []byte) (bool, string) {
	if len(b) < 4 {
		return false, "fail-id"
	}
	pos := 4
	risky := false
	why := ""
	stop := func(w string) bool {
		if why == "" {
			why = w
		}
		return false
	}
	u32 := func() (uint32, bool) {
		if len(b)-pos < 4 {
			return 0, false
		}
		v := binary.LittleEndian.Uint32(b[pos:])
		pos += 4
		return v, true
	}
	lps := func() bool {
		save := pos
		n, ok := u32()
		if !ok || uint64(len(b)-pos) < uint64(n) {
			pos = save
			return false
		}
		pos += int(n)
		return true
	}
	var visit func() bool
	visit = func() bool {
		if pos >= len(b) {
			return stop("panic-kind-byte-missing")
		}
		kind := b[pos]
		pos++
		switch kind {
		case 0:
			return true
		case 1:
			if pos >= len(b) {
				return stop("panic-bool-byte-missing")
			}
			pos++
			return true
		case 2:
			if _, ok := u32(); !ok {
				return stop("fail-int")
			}
			return true
		case 3, 4:
			if !lps() {
				return stop("fail-string-or-bytes")
			}
			return true
		case 5, 6:
			count, ok := u32()
			if !ok {
				return stop("fail-count")
			}
			if count >= 65536 {
				risky = true
				return stop("risky")
			}
			for i := 0; i < int(count); i++ {
				if kind == 6 && !lps() {
					return stop("fail-map-key")
				}
				if !visit() {
					return false
				}
			}
			return true
		}
		return stop("panic-invalid-kind")
	}
	if visit() {
		if pos != len(b) {
			why = "fail-trailing-bytes"
		} else {
			why = "ok"
		}
	}
	return risky, why
}

func stdioClamp(b []byte) (clamped bool) {
	for stdioRisky(b) {
		clamped = true
		for i := 0; i+4 < len(b); i++ {
			if (b[i] == 5 || b[i] == 6) && (b[i+3] != 0 || b[i+4] != 0) {
				b[i+3], b[i+4] = 0, 0
			}
		}
	}
	return
}

func stdioMutate(r *gen.Rand, e *emitter, in []byte) []byte {
	b := append([]byte{}, in...)
	n := 1 + r.Intn(2)
	for ; n > 0; n-- {
		switch r.Intn(9) {
		case 0: // truncate anywhere
			e.stat("mut-truncate")
			b = b[:r.Intn(len(b)+1)]
		case 1: // truncate just behind the id or just behind a byte (hits the unchecked bytes[0] reads)
			e.stat("mut-truncate-short")
			if len(b) > 4 {
				k := len(b) - 3
				if k > 3 {
					k = 3
				}
				b = b[:4+r.Intn(k)]
			}
		case 2:
			e.stat("mut-flip")
			if len(b) > 0 {
				b[r.Intn(len(b))] = byte(r.Intn(256))
			}
		case 3:
			e.stat("mut-kind")
			if len(b) > 4 {
				b[4+r.Intn(len(b)-4)] = byte(r.Intn(10))
			}
		case 4:
			e.stat("mut-insert")
			i := r.Intn(len(b) + 1)
			b = append(b[:i], append([]byte{byte(r.Intn(9))}, b[i:]...)...)
		case 5:
			e.stat("mut-delete")
			if len(b) > 0 {
				i := r.Intn(len(b))
				b = append(b[:i], b[i+1:]...)
			}
		case 6:
			e.stat("mut-append")
			for k := 1 + r.Intn(3); k > 0; k-- {
				b = append(b, byte(r.Intn(8)))
			}
		case 7: // ±1 on some byte (counts, lengths)
			e.stat("mut-plusminus")
			if len(b) > 0 {
				i := r.Intn(len(b))
				if r.Bool() {
					b[i]++
				} else {
					b[i]--
				}
			}
		case 8:
			e.stat("mut-random")
			b = make([]byte, r.Intn(16))
			for i := range b {
				if r.Bool() {
					b[i] = byte(r.Intn(8))
				} else {
					b[i] = byte(r.Intn(256))
				}
			}
		}
	}
	return b
}

var stdioSyncCommands = []string{"resolve", "rebuild", "watch", "serve", "cancel", "dispose"}
var stdioOtherCommands = []string{"ping", "", "Resolve", "resolv", "rebuilds", "x", "cancel ", "\xff\x00", "on-resolve", "serve-request"}

// never let a session run one of the asynchronous commands (they start real builds on other goroutines, where a
// type-assertion panic would kill the whole test process); checked on the flat stream as length-prefixed string tokens
var stdioForbidden = func() [][]byte {
	var out [][]byte
	for _, c := range []string{"build", "transform", "error", "format-msgs", "analyze-metafile"} {
		out = append(out, append(stdioU32([]byte{3}, uint32(len(c))), c...))
	}
	return out
}()

func stdioStr(s string) *sval { return &sval{kind: 3, s: []byte(s)} }

func stdioRequestValue(r *gen.Rand, e *emitter) *sval {
	m := &sval{kind: 6}
	add := func(k string, v *sval) { m.keys = append(m.keys, []byte(k)); m.items = append(m.items, v) }
	var cmd string
	if r.Chance(3, 4) {
		cmd = stdioSyncCommands[r.Intn(len(stdioSyncCommands))]
		e.stat("svc-cmd-" + cmd)
	} else {
		cmd = stdioOtherCommands[r.Intn(len(stdioOtherCommands))]
		e.stat("svc-cmd-invalid")
	}
	keyFirst := r.Bool()
	key := func() {
		switch r.Intn(50) {
		case 0:
			e.stat("svc-req-key-missing")
		case 1:
			e.stat("svc-req-key-not-int")
			add("key", stdioVal(r, 1))
		default:
			add("key", &sval{kind: 2, n: r.Intn(5)})
		}
	}
	if keyFirst {
		key()
	}
	switch r.Intn(60) {
	case 0:
		e.stat("svc-req-command-missing")
	case 1:
		e.stat("svc-req-command-not-string")
		add("command", &sval{kind: 4, s: []byte(cmd)})
	default:
		add("command", stdioStr(cmd))
	}
	if !keyFirst {
		key()
	}
	for k := r.Intn(3); k > 0; k-- {
		add(string(stdioKeyPool[r.Intn(len(stdioKeyPool))]), stdioVal(r, 1))
	}
	return m
}

// one session: the bytes of stdin and the chunk boundaries
func stdioSession(r *gen.Rand, e *emitter) [][]byte {
	for {
		var stream []byte
		var bounds []int // frame boundaries inside stream
		n := r.Intn(8)
		for i := 0; i < n; i++ {
			var body []byte
			switch r.Intn(40) {
			case 0:
				e.stat("svc-pkt-response")
				body = stdioBody(stdioID(r), false, stdioVal(r, 1))
			case 1:
				e.stat("svc-pkt-not-a-map")
				body = stdioBody(stdioID(r), true, stdioVal(r, 1))
			case 2, 9, 10:
				e.stat("svc-pkt-mutated")
				body = stdioMutate(r, e, stdioBody(stdioID(r), true, stdioRequestValue(r, e)))
			case 3, 5, 6:
				e.stat("svc-pkt-empty")
				body = []byte{}
			case 4, 7, 8:
				e.stat("svc-pkt-trailing")
				body = append(stdioBody(stdioID(r), true, stdioRequestValue(r, e)), byte(r.Intn(7)))
			default:
				e.stat("svc-pkt-request")
				body = stdioBody(stdioID(r), true, stdioRequestValue(r, e))
			}
			stdioClamp(body)
			stream = append(stdioU32(stream, uint32(len(body))), body...)
			bounds = append(bounds, len(stream))
		}
		if r.Bool() { // a partial packet at the end of stdin
			e.stat("svc-partial-tail")
			body := stdioBody(stdioID(r), true, stdioRequestValue(r, e))
			full := append(stdioU32(nil, uint32(len(body))), body...)
			stream = append(stream, full[:r.Intn(len(full))]...)
		}
		bad := false
		for _, f := range stdioForbidden {
			if bytes.Contains(stream, f) {
				bad = true
			}
		}
		if bad || len(stream) == 0 {
			if len(stream) == 0 && r.Chance(1, 4) {
				e.stat("svc-empty-stdin")
				return nil
			}
			continue
		}
		// cut into read chunks
		cuts := map[int]bool{}
		switch r.Intn(6) {
		case 0:
			e.stat("svc-chunks-one")
		case 1:
			e.stat("svc-chunks-bytewise")
			if len(stream) <= 200 {
				for i := 1; i < len(stream); i++ {
					cuts[i] = true
				}
			}
		case 2:
			e.stat("svc-chunks-at-frames")
			for _, b := range bounds {
				if r.Chance(2, 3) {
					cuts[b] = true
				}
			}
		case 3:
			e.stat("svc-chunks-inside-length")
			for _, b := range bounds {
				cuts[b+1+r.Intn(3)] = true
			}
			cuts[1+r.Intn(3)] = true
		default:
			e.stat("svc-chunks-random")
			for k := 1 + r.Intn(6); k > 0; k-- {
				cuts[r.Intn(len(stream)+1)] = true
			}
		}
		var chunks [][]byte
		last := 0
		for i := 1; i < len(stream); i++ {
			if cuts[i] {
				chunks = append(chunks, stream[last:i])
				last = i
			}
		}
		chunks = append(chunks, stream[last:])
		// runService reads into a 16 KiB buffer: no Read returns more than that
		var capped [][]byte
		for _, c := range chunks {
			for len(c) > 16*1024 {
				e.stat("svc-chunk-16KiB")
				capped = append(capped, c[:16*1024])
				c = c[16*1024:]
			}
			capped = append(capped, c)
		}
		return capped
	}
}

func stdioRunReal(ops []string) ([]string, error) {
	repo := os.Getenv("VERIF_REPO")
	if repo == "" {
		repo = "/repo"
	}
	dir, err := os.MkdirTemp("", "verif-stdio-")
	if err != nil {
		return nil, err
	}
	defer os.RemoveAll(dir)
	opsName, outName := filepath.Join(dir, "ops"), filepath.Join(dir, "out")
	if err := os.WriteFile(opsName, []byte(strings.Join(ops, "\n")+"\n"), 0644); err != nil {
		return nil, err
	}
	cmd := exec.Command("go", "test", "-tags", "verif", "-run", "^TestVerifCodec$", "-count=1", "./cmd/esbuild")
	cmd.Dir = repo
	cmd.Env = append(os.Environ(), "VERIF_OPS="+opsName, "VERIF_OUT="+outName,
		"GOFLAGS=-mod=mod", "GOPROXY=off", "GOSUMDB=off", "GOTOOLCHAIN=local")
	if msg, err := cmd.CombinedOutput(); err != nil {
		tail := string(msg)
		if len(tail) > 3000 {
			tail = tail[:3000]
		}
		return nil, fmt.Errorf("go test failed in %s: %v\n%s", repo, err, tail)
	}
	f, err := os.Open(outName)
	if err != nil {
		return nil, err
	}
	defer f.Close()
	var lines []string
	sc := bufio.NewScanner(f)
	sc.Buffer(make([]byte, 1<<20), 1<<28)
	for sc.Scan() {
		lines = append(lines, sc.Text())
	}
	return lines, sc.Err()
}

func init() {
	kernels["stdio"] = func(r *gen.Rand, e *emitter, tier string) {
		var ops []string
		var classes []string
		add := func(class, op string) { classes = append(classes, class); ops = append(ops, op) }
		for len(ops) < e.limit {
			switch r.Intn(20) {
			case 0, 1, 2, 3, 4: // encodePacket
				v := stdioVal(r, 3)
				stdioValStats(e, "enc", v)
				sb := &strings.Builder{}
				stdioSyntax(sb, v)
				req := 0
				if r.Bool() {
					req = 1
				}
				id := stdioID(r)
				if id >= 1<<31 {
					e.stat("enc-id>=2^31")
				}
				add("enc", fmt.Sprintf("stdio\tenc\t%d\t%d\t%s", id, req, sb.String()))
			case 5, 6, 7, 8: // decodePacket of a well-formed body (keys in any order, duplicates possible)
				v := stdioVal(r, 3)
				stdioValStats(e, "dec", v)
				body := stdioBody(stdioID(r), r.Bool(), v)
				if stdioClamp(body) {
					e.stat("clamped")
				}
				_, why := stdioWalk(body)
				e.stat("dec-wellformed-walk=" + why)
				add("dec-wellformed", "stdio\tdec\t"+hexBytes(body))
			case 9, 10, 11, 12, 13: // decodePacket of a damaged body
				body := stdioMutate(r, e, stdioBody(stdioID(r), r.Bool(), stdioVal(r, 2)))
				if stdioClamp(body) {
					e.stat("clamped")
				}
				_, why := stdioWalk(body)
				e.stat("dec-mutated-walk=" + why)
				add("dec-mutated", "stdio\tdec\t"+hexBytes(body))
			case 14: // the three primitives
				b := stdioBytes(r)
				if len(b) > 16 {
					b = b[:r.Intn(16)]
				}
				switch r.Intn(3) {
				case 0:
					add("ru32", "stdio\tru32\t"+hexBytes(b))
				case 1:
					add("wu32", fmt.Sprintf("stdio\twu32\t%s\t%d", hexBytes(b), uint32(stdioInt(r))))
				default:
					if r.Chance(2, 3) { // a length word that is at, just below or just above what follows
						payload := stdioBytes(r)
						n := len(payload) + r.Intn(3) - 1
						if n < 0 {
							n = 0
						}
						b = append(stdioU32(nil, uint32(n)), payload...)
					}
					add("lps", "stdio\tlps\t"+hexBytes(b))
				}
			default: // a whole session of runService
				chunks := stdioSession(r, e)
				if len(chunks) == 0 {
					add("svc", "stdio\tsvc\t-")
					break
				}
				hs := make([]string, len(chunks))
				for i, c := range chunks {
					hs[i] = hex.EncodeToString(c)
				}
				e.stats["svc-chunks-total"] += len(chunks)
				add("svc", "stdio\tsvc\t"+strings.Join(hs, ","))
			}
		}
		results, err := stdioRunReal(ops)
		if err != nil {
			fmt.Fprintln(os.Stderr, err)
			os.Exit(3)
		}
		if len(results) != len(ops) {
			fmt.Fprintf(os.Stderr, "stdio: %d operations but %d result lines\n", len(ops), len(results))
			os.Exit(3)
		}
		for i, op := range ops {
			res := results[i]
			class := classes[i]
			e.stat(class)
			switch {
			case class == "svc":
				switch {
				case strings.HasSuffix(res, "PANIC"):
					e.stat("svc=panic")
				case res == "-":
					e.stat("svc=no-response")
				default:
					e.stat("svc=responses")
				}
				if res != "-" {
					e.stats["svc-response-frames"] += strings.Count(res, " ") + 1
				}
			case strings.HasPrefix(class, "dec"):
				switch {
				case strings.HasPrefix(res, "ok"):
					e.stat(class + "=ok")
				default:
					e.stat(class + "=" + res)
				}
			case class == "ru32" || class == "lps":
				if strings.HasSuffix(res, "true") {
					e.stat(class + "=true")
				} else {
					e.stat(class + "=false")
				}
			}
			e.emit(op, res)
		}
	}
}
