package main

import (
	"fmt"
	"sort"

	"github.com/evanw/esbuild/internal/ast"
	"github.com/evanw/esbuild/internal/js_lexer"
	"github.com/evanw/esbuild/verifharness/gen"
)

func mpCount(r *gen.Rand) uint32 {
	switch r.Intn(10) {
	case 0:
		return uint32(r.Intn(100))
	case 1:
		return []uint32{4294967295, 2147483648, 4294967290, 2147483647}[r.Intn(4)] + uint32(r.Intn(3))
	default:
		return uint32(r.Intn(4)) // many ties
	}
}

func mpPickDistinct(r *gen.Rand, pool []string, k int) []string {
	idx := make([]int, len(pool))
	for i := range idx {
		idx[i] = i
	}
	for i := len(idx) - 1; i > 0; i-- {
		j := r.Intn(i + 1)
		idx[i], idx[j] = idx[j], idx[i]
	}
	if k > len(pool) {
		k = len(pool)
	}
	out := []string{}
	for _, i := range idx[:k] {
		out = append(out, pool[i])
	}
	return out
}

func mpGen(r *gen.Rand, e *emitter) *mpCase {
	c := &mpCase{}
	mode := "wellformed"
	switch x := r.Intn(20); {
	case x < 2:
		mode = "prelinked"
	case x < 4:
		mode = "weird"
	case x < 6:
		mode = "malformed"
	}
	e.stat("mode:" + mode)
	nSrc := 2 + r.Intn(5)
	c.syms = make([][]mpSym, nSrc)

	// reachable files: a shuffled subset of the sources, sometimes with the runtime, sometimes with a non-JS file
	order := []uint32{}
	for i := 1; i < nSrc; i++ {
		if r.Chance(5, 6) {
			order = append(order, uint32(i))
		}
	}
	if r.Chance(1, 3) {
		order = append(order, 0)
		e.stat("file:runtime")
	}
	for i := len(order) - 1; i > 0; i-- {
		j := r.Intn(i + 1)
		order[i], order[j] = order[j], order[i]
	}
	for _, src := range order {
		f := mpFile{src: src, isJS: true}
		if src != 0 && r.Chance(1, 8) {
			f.isJS = false
			e.stat("file:non-js")
		}
		if r.Chance(3, 5) {
			var fr ast.CharFreq
			big := r.Chance(1, 8)
			for i := range fr {
				fr[i] = int32(r.Intn(50)) - 10
				if big && r.Chance(1, 3) {
					fr[i] = []int32{2147483647, -2147483648, 2147483600, -2147483600, 1073741824}[r.Intn(5)]
				}
			}
			if big {
				e.stat("freq:int32-boundary")
			}
			f.freq = &fr
		} else {
			e.stat("freq:nil")
		}
		c.files = append(c.files, f)
	}
	// the minifier mangleProps will use (to put the names it is about to hand out into the pools)
	var sum ast.CharFreq
	for _, f := range c.files {
		if f.src != 0 && f.isJS && f.freq != nil {
			sum.Include(f.freq)
		}
	}
	m := ast.DefaultNameMinifierJS.ShuffleByCharFreq(sum)
	short := []string{}
	for _, i := range []int{0, 1, 2, 3, 4, 5, 6, 7, 53, 54, 55} {
		short = append(short, m.NumberToMinifiedName(i))
	}
	candPool := append([]string{"foo_", "bar_", "baz_", "qux_", "x_", "y_", "k1_", "k2_", "prop", "if_", "ünï_", "ZZ", "t1"}, short[:6]...)
	resPool := append([]string{"do", "if", "in", "length", "push", "t2", "__proto__", "new"}, short...)
	targetPool := append([]string{"t1", "t2", "foo_", "zz", "bar_"}, short...)
	if r.Chance(1, 30) { // enough properties to run past the one-letter names
		for i := 0; i < 70+r.Intn(60); i++ {
			candPool = append(candPool, fmt.Sprintf("p%d_", i))
		}
		e.stat("pool:many-names")
	}

	// tables and symbols
	for fi := range c.files {
		f := &c.files[fi]
		if r.Chance(1, 10) {
			continue // nil maps
		}
		f.reserved = mpPickDistinct(r, resPool, r.Intn(5))
		k := r.Intn(7)
		if r.Chance(1, 12) || len(candPool) > 40 {
			k = len(candPool)
		}
		for _, n := range mpPickDistinct(r, candPool, k) {
			if r.Chance(1, 4) { // an unrelated symbol in between
				c.syms[f.src] = append(c.syms[f.src], mpSym{name: "local" + n, link: ast.InvalidRef, count: mpCount(r)})
			}
			ref := ast.Ref{SourceIndex: f.src, InnerIndex: uint32(len(c.syms[f.src]))}
			c.syms[f.src] = append(c.syms[f.src], mpSym{name: n, link: ast.InvalidRef, count: mpCount(r)})
			f.mangled = append(f.mangled, [2]interface{}{n, ref})
		}
	}

	// stable source indices: an injective table
	perm := make([]uint32, nSrc+r.Intn(3))
	for i := range perm {
		perm[i] = uint32(i)
	}
	for i := len(perm) - 1; i > 0; i-- {
		j := r.Intn(i + 1)
		perm[i], perm[j] = perm[j], perm[i]
	}
	c.stable = perm[:nSrc]

	// cache
	switch x := r.Intn(20); {
	case x < 5:
		c.cacheNil = true
		e.stat("cache:nil")
	case x < 8:
		e.stat("cache:empty")
	default:
		e.stat("cache:entries")
		for _, k := range mpPickDistinct(r, append([]string{"other_", "unused_"}, candPool...), 1+r.Intn(6)) {
			if r.Chance(1, 4) {
				c.cache = append(c.cache, [2]interface{}{k, false})
			} else {
				c.cache = append(c.cache, [2]interface{}{k, targetPool[r.Intn(len(targetPool))]})
			}
		}
	}

	switch mode {
	case "prelinked":
		mpPrelink(r, e, c)
	case "weird":
		mpWeird(r, e, c)
	case "malformed":
		mpMalform(r, e, c)
	}

	// keys of interest: the cache keys, then every name that occurs anywhere, sorted
	seen := map[string]bool{}
	for _, kv := range c.cache {
		c.keys = append(c.keys, kv[0].(string))
		seen[kv[0].(string)] = true
	}
	rest := []string{}
	add := func(n string) {
		if !seen[n] {
			seen[n] = true
			rest = append(rest, n)
		}
	}
	for _, row := range c.syms {
		for _, s := range row {
			add(s.name)
		}
	}
	for _, f := range c.files {
		for _, en := range f.mangled {
			add(en[0].(string))
		}
	}
	sort.Strings(rest)
	c.keys = append(c.keys, rest...)
	mpStats(e, c, m)
	return c
}

// branch statistics computed from the case (not from the result)
func mpStats(e *emitter, c *mpCase, m ast.NameMinifier) {
	total := map[string]uint64{}
	occ := map[string]int{}
	reserved := map[string]bool{}
	for k := range js_lexer.Keywords {
		reserved[k] = true
	}
	cached := map[string]interface{}{}
	for _, kv := range c.cache {
		cached[kv[0].(string)] = kv[1]
		if s, ok := kv[1].(string); ok {
			reserved[s] = true
		} else {
			reserved[kv[0].(string)] = true
		}
	}
	for _, f := range c.files {
		if f.src == 0 || !f.isJS {
			continue
		}
		for _, n := range f.reserved {
			reserved[n] = true
		}
		for _, en := range f.mangled {
			n, ref := en[0].(string), en[1].(ast.Ref)
			if int(ref.SourceIndex) < len(c.syms) && int(ref.InnerIndex) < len(c.syms[ref.SourceIndex]) {
				total[n] += uint64(c.syms[ref.SourceIndex][ref.InnerIndex].count)
			}
			if occ[n] == 0 {
				e.stat("merge:first-occurrence")
			} else {
				e.stat("merge:later-occurrence")
			}
			occ[n]++
		}
	}
	fresh := 0
	byTotal := map[uint64]int{}
	for n, t := range total {
		if t >= 1<<32 {
			e.stat("count:uint32-wrap")
		}
		byTotal[t%(1<<32)]++
		if v, ok := cached[n]; ok && !c.cacheNil {
			if v == false {
				e.stat("assign:cached-false")
			} else {
				e.stat("assign:cached-string")
			}
		} else {
			fresh++
			e.stat("assign:fresh")
		}
	}
	for _, k := range byTotal {
		if k > 1 {
			e.stat("sort:tie-on-count")
		}
	}
	for i := 0; i < fresh+3; i++ {
		if reserved[m.NumberToMinifiedName(i)] {
			e.stat("skip:reserved-name")
		}
	}
	if fresh > 54 {
		e.stat("assign:two-letter-names")
	}
}
