package main

import (
	"encoding/hex"
	"fmt"
	"sort"
	"strconv"
	"strings"

	"github.com/evanw/esbuild/internal/ast"
	"github.com/evanw/esbuild/internal/js_ast"
	"github.com/evanw/esbuild/internal/js_lexer"
	"github.com/evanw/esbuild/internal/renamer"
	"github.com/evanw/esbuild/verifharness/gen"
)

// kernel "slots": real js_ast.Scope trees and []ast.Symbol built from generated shapes, run through the real
// renamer.AssignNestedScopeSlots (op "nested") and the real ComputeReservedNames + NewNumberRenamer +
// AddTopLevelSymbol + AssignNamesByScope + NameForSymbol (op "number"), against the Lean model Impl/Slots.lean.
//
// Shapes: deep chains, wide fans and mixed trees; every scope declares fresh symbols (members and generated);
// hoisted copies (the same ref also in a run of ancestors, possibly up to the module scope); label scopes with
// a fresh label symbol; all slot namespaces. A malformed stream on top: refs repeated in unrelated scopes,
// labels reused / of the wrong kind / also members, out-of-range refs (Go panic), symbols that already carry a
// slot, empty names with the JSX flag or a private kind (Go panic).

type slotShape struct {
	members   []int
	generated []int
	label     int // -1 = none
	children  []*slotShape
	parent    *slotShape
	depth     int
}

func (s *slotShape) all(out *[]*slotShape) {
	*out = append(*out, s)
	for _, c := range s.children {
		c.all(out)
	}
}

func (s *slotShape) wire(sb *strings.Builder) {
	if sb.Len() > 0 {
		sb.WriteByte('/')
	}
	l := "-"
	if s.label >= 0 {
		l = strconv.Itoa(s.label)
	}
	fmt.Fprintf(sb, "%s:%s:%s:%d", joinInts(s.members), joinInts(s.generated), l, len(s.children))
	for _, c := range s.children {
		c.wire(sb)
	}
}

func joinInts(xs []int) string {
	if len(xs) == 0 {
		return "-"
	}
	parts := make([]string, len(xs))
	for i, x := range xs {
		parts[i] = strconv.Itoa(x)
	}
	return strings.Join(parts, ",")
}

// build the real scope tree; member map keys are arbitrary distinct strings
func (s *slotShape) build(parent *js_ast.Scope) *js_ast.Scope {
	sc := &js_ast.Scope{Parent: parent, Members: map[string]js_ast.ScopeMember{}, Label: ast.LocRef{Ref: ast.InvalidRef}}
	for i, m := range s.members {
		sc.Members[fmt.Sprintf("k%d", i)] = js_ast.ScopeMember{Ref: ast.Ref{SourceIndex: 0, InnerIndex: uint32(m)}}
	}
	for _, g := range s.generated {
		sc.Generated = append(sc.Generated, ast.Ref{SourceIndex: 0, InnerIndex: uint32(g)})
	}
	if s.label >= 0 {
		sc.Label = ast.LocRef{Ref: ast.Ref{SourceIndex: 0, InnerIndex: uint32(s.label)}}
	}
	for _, c := range s.children {
		sc.Children = append(sc.Children, c.build(sc))
	}
	return sc
}

type slotGen struct {
	r      *gen.Rand
	e      *emitter
	kinds  []ast.SymbolKind // per symbol
	pinned []bool
	shape  string
}

var slotKindsDefault = []ast.SymbolKind{ast.SymbolHoisted, ast.SymbolHoistedFunction, ast.SymbolCatchIdentifier, ast.SymbolClass,
	ast.SymbolConst, ast.SymbolOther, ast.SymbolImport, ast.SymbolTSEnum, ast.SymbolArguments, ast.SymbolInjected}
var slotKindsPrivate = []ast.SymbolKind{ast.SymbolPrivateField, ast.SymbolPrivateMethod, ast.SymbolPrivateGet, ast.SymbolPrivateSet,
	ast.SymbolPrivateGetSetPair, ast.SymbolPrivateStaticField, ast.SymbolPrivateStaticMethod, ast.SymbolPrivateStaticGet,
	ast.SymbolPrivateStaticSet, ast.SymbolPrivateStaticGetSetPair}

func (g *slotGen) fresh(kind ast.SymbolKind, pinned bool) int {
	g.kinds = append(g.kinds, kind)
	g.pinned = append(g.pinned, pinned)
	return len(g.kinds) - 1
}

func (g *slotGen) freshDecl() int {
	r := g.r
	switch r.Intn(12) {
	case 0, 1:
		return g.fresh(slotKindsPrivate[r.Intn(len(slotKindsPrivate))], false)
	case 2:
		return g.fresh(ast.SymbolMangledProp, false)
	case 3:
		return g.fresh(ast.SymbolUnbound, false)
	case 4:
		return g.fresh(slotKindsDefault[r.Intn(len(slotKindsDefault))], true)
	case 5:
		if r.Chance(1, 3) {
			return g.fresh(ast.SymbolLabel, false) // a label-kind symbol as an ordinary member
		}
		fallthrough
	default:
		return g.fresh(slotKindsDefault[r.Intn(len(slotKindsDefault))], false)
	}
}

// tree shape only
func (g *slotGen) tree() *slotShape {
	r := g.r
	root := &slotShape{label: -1}
	budget := 1 + r.Intn(14)
	mode := r.Intn(5)
	switch mode {
	case 0:
		g.shape = "deep"
	case 1:
		g.shape = "wide"
	default:
		g.shape = "mixed"
	}
	if r.Chance(1, 25) {
		budget = 0
		g.shape = "module-only"
	}
	if r.Chance(1, 40) {
		budget = 30 + r.Intn(60)
		g.shape += "-large"
	}
	nodes := []*slotShape{root}
	for i := 0; i < budget; i++ {
		var p *slotShape
		switch mode {
		case 0:
			p = nodes[len(nodes)-1]
			if r.Chance(1, 6) {
				p = nodes[r.Intn(len(nodes))]
			}
		case 1:
			p = nodes[0]
			if r.Chance(1, 4) {
				p = nodes[r.Intn(len(nodes))]
			}
		default:
			p = nodes[r.Intn(len(nodes))]
			if r.Chance(1, 2) {
				p = nodes[len(nodes)-1-r.Intn(minInt(3, len(nodes)))]
			}
		}
		c := &slotShape{label: -1, parent: p, depth: p.depth + 1}
		p.children = append(p.children, c)
		nodes = append(nodes, c)
	}
	return root
}

func minInt(a, b int) int {
	if a < b {
		return a
	}
	return b
}

// well-formed declarations: fresh symbols per scope, hoisted copies along a run of ancestors, fresh labels
func (g *slotGen) declare(root *slotShape, emptyScopes bool) {
	r := g.r
	var nodes []*slotShape
	root.all(&nodes)
	for _, n := range nodes {
		k := r.Intn(4)
		if emptyScopes && r.Chance(1, 2) {
			k = 0
		}
		if r.Chance(1, 12) {
			k = 4 + r.Intn(5)
		}
		for i := 0; i < k; i++ {
			s := g.freshDecl()
			asGenerated := r.Chance(1, 3)
			if asGenerated {
				n.generated = append(n.generated, s)
			} else {
				n.members = append(n.members, s)
			}
			// hoisted copy: the same ref in a run of ancestors
			if n.parent != nil && r.Chance(1, 4) {
				g.e.stat("decl:hoisted-copy")
				up := 1 + r.Intn(n.depth)
				for a := n.parent; a != nil && up > 0; a, up = a.parent, up-1 {
					if r.Chance(1, 5) {
						a.generated = append(a.generated, s)
					} else {
						a.members = append(a.members, s)
					}
					if a.parent == nil {
						g.e.stat("decl:hoisted-to-module")
					}
				}
			}
			if r.Chance(1, 15) { // the same ref twice in one scope
				g.e.stat("decl:duplicate-in-scope")
				if r.Bool() {
					n.members = append(n.members, s)
				} else {
					n.generated = append(n.generated, s)
				}
			}
		}
		if n.parent != nil && r.Chance(1, 4) {
			n.label = g.fresh(ast.SymbolLabel, false)
			g.e.stat("decl:label")
		}
		// unsorted member order (the code sorts)
		for i := len(n.members) - 1; i > 0; i-- {
			j := r.Intn(i + 1)
			n.members[i], n.members[j] = n.members[j], n.members[i]
		}
	}
}

// malformed stream: break the preconditions in one of several ways; returns true if a Go panic is expected to be possible
func (g *slotGen) mangle(root *slotShape) {
	r := g.r
	var nodes []*slotShape
	root.all(&nodes)
	n := len(g.kinds)
	times := 1 + r.Intn(3)
	for t := 0; t < times; t++ {
		sc := nodes[r.Intn(len(nodes))]
		switch r.Intn(7) {
		case 0: // a ref repeated in an unrelated scope
			if n > 0 {
				g.e.stat("malformed:ref-in-unrelated-scope")
				s := r.Intn(n)
				if r.Bool() {
					sc.members = append(sc.members, s)
				} else {
					sc.generated = append(sc.generated, s)
				}
			}
		case 1: // label reused
			if n > 0 && sc.parent != nil {
				g.e.stat("malformed:label-any-symbol")
				sc.label = r.Intn(n)
			}
		case 2: // label also a member somewhere
			if sc.label >= 0 {
				g.e.stat("malformed:label-also-member")
				o := nodes[r.Intn(len(nodes))]
				o.members = append(o.members, sc.label)
			}
		case 3: // out of range ref
			g.e.stat("malformed:out-of-range")
			bad := n + r.Intn(3)
			switch r.Intn(3) {
			case 0:
				sc.members = append(sc.members, bad)
			case 1:
				sc.generated = append(sc.generated, bad)
			default:
				sc.label = bad
			}
		case 4: // label on the module scope (ignored by the code)
			if n > 0 {
				g.e.stat("malformed:module-label")
				root.label = r.Intn(n)
			}
		case 5: // kinds shuffled
			if n > 0 {
				g.e.stat("malformed:kind-changed")
				i := r.Intn(n)
				g.kinds[i] = []ast.SymbolKind{ast.SymbolLabel, ast.SymbolUnbound, ast.SymbolOther, ast.SymbolPrivateField, ast.SymbolMangledProp}[r.Intn(5)]
			}
		default: // same ref in two sibling subtrees
			if len(sc.children) >= 2 && n > 0 {
				g.e.stat("malformed:ref-in-two-siblings")
				s := r.Intn(n)
				a, b := sc.children[r.Intn(len(sc.children))], sc.children[r.Intn(len(sc.children))]
				a.members = append(a.members, s)
				b.generated = append(b.generated, s)
			}
		}
	}
}

func (g *slotGen) symbols() []ast.Symbol {
	syms := make([]ast.Symbol, len(g.kinds))
	for i := range syms {
		syms[i] = ast.Symbol{Kind: g.kinds[i], Link: ast.InvalidRef}
		if g.pinned[i] {
			syms[i].Flags |= ast.MustNotBeRenamed
		}
	}
	return syms
}

func slotDepth(s *slotShape) int {
	d := 0
	for _, c := range s.children {
		if x := 1 + slotDepth(c); x > d {
			d = x
		}
	}
	return d
}

func bucket(n int) string {
	switch {
	case n == 0:
		return "0"
	case n <= 2:
		return "1-2"
	case n <= 5:
		return "3-5"
	case n <= 12:
		return "6-12"
	default:
		return "13+"
	}
}

var slotNamePool = []string{"x", "x", "x", "y", "y", "x2", "x3", "x22", "foo", "foo", "foo2", "Foo", "a", "b", "a1", "a2", "a10", "a11",
	"do", "let", "static", "yield", "in", "a-b", "a_b", "1x", "_1x", "$", "_", "", "x y", "x-", "9", "if2", "arguments", "eval", "x1", "x02"}
var slotPrivatePool = []string{"#p", "#p", "#p", "#q", "#p2", "#p3", "#", "#-", "#_", "#1", "#_1", "p", "#a-b", "#a_b", "#x", "#foo"}

func hexName(s string) string {
	if s == "" {
		return "-"
	}
	return hex.EncodeToString([]byte(s))
}

func init() {
	kernels["slots"] = func(r *gen.Rand, e *emitter, tier string) {
		// the keyword table of the model against the Go tables
		kw := []string{}
		for k := range js_lexer.Keywords {
			kw = append(kw, k)
		}
		for k := range js_lexer.StrictModeReservedWords {
			kw = append(kw, k)
		}
		sort.Strings(kw)
		isKw := map[string]bool{}
		hk := make([]string, len(kw))
		for i, k := range kw {
			hk[i] = hexName(k)
			isKw[k] = true
		}
		e.stat("keywords")
		e.emit("slots\tkeywords", strings.Join(hk, ","))

		for !e.full() {
			g := &slotGen{r: r, e: e}
			root := g.tree()
			number := r.Chance(1, 2)
			g.declare(root, r.Chance(1, 4))
			malformed := r.Chance(1, 4)
			if malformed {
				g.mangle(root)
			}
			var sb strings.Builder
			root.wire(&sb)
			syms := g.symbols()
			var nodes []*slotShape
			root.all(&nodes)
			tag := "nested"
			if number {
				tag = "number"
			}
			e.stat(tag + ":shape:" + g.shape)
			e.stat(tag + ":depth:" + bucket(slotDepth(root)))
			e.stat(tag + ":scopes:" + bucket(len(nodes)-1))
			e.stat(tag + ":symbols:" + bucket(len(syms)))
			if malformed {
				e.stat(tag + ":malformed")
			} else {
				e.stat(tag + ":wellformed")
			}

			if !number {
				// ---------------------------------------------------------------- A: AssignNestedScopeSlots
				if r.Chance(1, 8) && len(syms) > 0 { // symbols that already carry a slot
					e.stat("nested:preassigned-slot")
					for k := 1 + r.Intn(3); k > 0; k-- {
						syms[r.Intn(len(syms))].NestedScopeSlot = ast.MakeIndex32(uint32(r.Intn(6)))
					}
				}
				parts := make([]string, len(syms))
				for i := range syms {
					ns := syms[i].SlotNamespace()
					e.stat(fmt.Sprintf("nested:ns=%d", ns))
					sl := "-"
					if syms[i].NestedScopeSlot.IsValid() {
						sl = strconv.Itoa(int(syms[i].NestedScopeSlot.GetIndex()))
					}
					parts[i] = fmt.Sprintf("%d.%s", ns, sl)
				}
				symField := "-"
				if len(parts) > 0 {
					symField = strings.Join(parts, ",")
				}
				module := root.build(nil)
				before := make([]int, len(syms))
				inModule := make([]bool, len(syms))
				inNested := make([]bool, len(syms))
				for i := range syms {
					before[i] = -1
					if syms[i].NestedScopeSlot.IsValid() {
						before[i] = int(syms[i].NestedScopeSlot.GetIndex())
					}
				}
				for _, n := range nodes {
					for _, list := range [][]int{n.members, n.generated, {n.label}} {
						for _, x := range list {
							if x >= 0 && x < len(syms) {
								if n.parent == nil {
									if x != n.label || n.label < 0 {
										inModule[x] = true
									}
								} else {
									inNested[x] = true
								}
							}
						}
					}
				}
				out := guard(func() string {
					counts := renamer.AssignNestedScopeSlots(module, syms)
					sl := make([]string, len(syms))
					for i := range syms {
						if syms[i].NestedScopeSlot.IsValid() {
							sl[i] = strconv.Itoa(int(syms[i].NestedScopeSlot.GetIndex()))
						} else {
							sl[i] = "-1"
						}
					}
					s := "-"
					if len(sl) > 0 {
						s = strings.Join(sl, ",")
					}
					assigned := [5]int{}
					for i := range syms {
						ns := syms[i].SlotNamespace()
						switch {
						case before[i] >= 0 && syms[i].NestedScopeSlot.IsValid() && int(syms[i].NestedScopeSlot.GetIndex()) == before[i]:
							e.stat("nested:branch:kept-existing-slot")
						case before[i] >= 0:
							e.stat("nested:branch:existing-slot-changed") // label overwrite or module-scope reset
						case syms[i].NestedScopeSlot.IsValid():
							assigned[ns]++
							if ns == ast.SlotMustNotBeRenamed {
								e.stat("nested:branch:pinned-symbol-got-label-slot")
							}
						case ns == ast.SlotMustNotBeRenamed && inNested[i]:
							e.stat("nested:branch:pinned-skipped")
						case inModule[i] && inNested[i]:
							e.stat("nested:branch:top-level-copy-skipped")
						}
					}
					for ns, c := range counts {
						if c > 0 {
							e.stat(fmt.Sprintf("nested:count>0:ns=%d", ns))
						}
						if int(c) < assigned[ns] {
							e.stat(fmt.Sprintf("nested:branch:siblings-reuse-slots:ns=%d", ns))
						}
					}
					return fmt.Sprintf("%s|%d,%d,%d,%d", s, counts[0], counts[1], counts[2], counts[3])
				})
				if out == "PANIC" {
					e.stat("nested:PANIC")
				} else {
					e.stat("nested:ok")
				}
				e.emit(fmt.Sprintf("slots\tnested\t%s\t%s", symField, sb.String()), out)
				continue
			}

			// ------------------------------------------------------------------ B: NumberRenamer
			// names: small pools so that collisions, numbered names and reserved words are frequent
			danger := map[int]bool{} // symbols whose renaming panics (empty name with JSX flag / private kind)
			narrow := r.Chance(1, 8) // nearly all symbols ask for the same name: long runs of numbered names
			if narrow {
				e.stat("number:narrow-name-pool")
			}
			for i := range syms {
				pool := slotNamePool
				if syms[i].Kind.IsPrivate() && !r.Chance(1, 10) {
					pool = slotPrivatePool
				}
				if narrow && !r.Chance(1, 6) {
					pool = pool[:3]
				}
				name := pool[r.Intn(len(pool))]
				if r.Chance(1, 20) {
					name = name + strconv.Itoa(r.Intn(4))
				}
				if r.Chance(1, 6) {
					syms[i].Flags |= ast.MustStartWithCapitalLetterForJSX
				}
				if name == "" && !r.Chance(1, 4) {
					name = "e"
				}
				if syms[i].Kind.IsPrivate() && name == "" {
					name = "#"
					if r.Chance(1, 3) {
						name = ""
					}
				}
				syms[i].OriginalName = name
				ns := syms[i].SlotNamespace()
				if name == "" && (ns == ast.SlotPrivateName || (ns == ast.SlotDefault && syms[i].Flags.Has(ast.MustStartWithCapitalLetterForJSX))) {
					danger[i] = true
				}
			}
			// a panic inside AssignNamesByScope happens on another goroutine and cannot be recovered here, so
			// symbols whose renaming panics are taken out of the tree (they stay in the top-level list below)
			for _, n := range nodes {
				n.members = filterInts(n.members, danger)
				n.generated = filterInts(n.generated, danger)
			}
			sb.Reset()
			root.wire(&sb)

			mode := "children"
			if r.Chance(1, 3) {
				mode = "module" // a file wrapped in a CommonJS closure: the module scope itself is renamed as a nested scope
			}
			// top-level symbols: the symbols of the module scope (unless mode=module) and sometimes others
			var top []int
			if mode == "children" {
				top = append(top, root.members...)
				top = append(top, root.generated...)
			}
			for k := r.Intn(3); k > 0 && len(syms) > 0; k-- {
				if r.Chance(1, 3) {
					top = append(top, r.Intn(len(syms)))
					e.stat("number:extra-top-level")
				}
			}
			for i := range danger {
				if r.Chance(1, 2) {
					top = append(top, i)
					e.stat("number:danger-top-level")
				}
			}
			if malformed && r.Chance(1, 8) {
				top = append(top, len(syms)+r.Intn(2))
				e.stat("number:top-out-of-range")
			}
			parts := make([]string, len(syms))
			for i := range syms {
				ns := syms[i].SlotNamespace()
				e.stat(fmt.Sprintf("number:ns=%d", ns))
				j := 0
				if syms[i].Flags.Has(ast.MustStartWithCapitalLetterForJSX) {
					j = 1
				}
				parts[i] = fmt.Sprintf("%d.%d.%s", ns, j, hexName(syms[i].OriginalName))
			}
			symField := "-"
			if len(parts) > 0 {
				symField = strings.Join(parts, ",")
			}
			for _, n := range nodes {
				if n.parent != nil && len(n.members) == 0 && len(n.generated) == 0 {
					e.stat("number:branch:scope-without-symbols")
					if len(n.children) > 0 {
						e.stat("number:branch:scope-without-symbols-with-children")
					}
				}
			}
			module := root.build(nil)
			symbols := ast.NewSymbolMap(1)
			symbols.SymbolsForSource[0] = syms
			e.stat("number:mode:" + mode)
			out := guard(func() string {
				reserved := renamer.ComputeReservedNames([]*js_ast.Scope{module}, symbols)
				// (the renamer keeps and mutates this map, so take the key set now)
				extra := []string{}
				for k := range reserved {
					if !isKw[k] {
						extra = append(extra, k)
					}
				}
				sort.Strings(extra)
				for i := range extra {
					extra[i] = hexName(extra[i])
				}
				e.stat("number:reserved-extra:" + bucket(len(extra)))
				nr := renamer.NewNumberRenamer(symbols, reserved)
				for _, t := range top {
					nr.AddTopLevelSymbol(ast.Ref{SourceIndex: 0, InnerIndex: uint32(t)})
				}
				var list []*js_ast.Scope
				if mode == "module" {
					list = []*js_ast.Scope{module}
				} else {
					// like part.Scopes in the linker: the scopes directly inside the module scope, and deeper ones
					// (which AssignNamesByScope must skip) in between
					for _, c := range module.Children {
						list = append(list, c)
						if r.Chance(1, 2) {
							var deeper func(s *js_ast.Scope)
							deeper = func(s *js_ast.Scope) {
								for _, d := range s.Children {
									list = append(list, d)
									e.stat("number:deeper-scope-in-list")
									deeper(d)
								}
							}
							deeper(c)
						}
					}
				}
				nr.AssignNamesByScope(map[uint32][]*js_ast.Scope{0: list})
				final := make([]string, len(syms))
				renamed, numbered := 0, 0
				for i := range syms {
					n := nr.NameForSymbol(ast.Ref{SourceIndex: 0, InnerIndex: uint32(i)})
					final[i] = hexName(n)
					o := syms[i].OriginalName
					if n != o {
						renamed++
						if len(n) > len(o) && n[len(n)-1] >= '0' && n[len(n)-1] <= '9' {
							numbered++
						}
						if len(n) > 0 && len(o) > 0 && n[0] != o[0] && n[0] >= 'A' && n[0] <= 'Z' && o[0] >= 'a' && o[0] <= 'z' {
							e.stat("number:branch:jsx-capitalised")
						}
						if strings.ContainsAny(o, "- ") || o == "" || (o[0] >= '0' && o[0] <= '9') {
							if strings.HasPrefix(n, "#") {
								e.stat("number:branch:private-made-identifier")
							} else {
								e.stat("number:branch:made-identifier")
							}
						}
						if len(n) >= 2 && (n[len(n)-1] >= '3' && n[len(n)-1] <= '9') && strings.HasPrefix(n, o) {
							e.stat("number:branch:suffix>=3")
						}
						if len(n) >= 3 && n[len(n)-2] >= '1' && n[len(n)-2] <= '9' && n[len(n)-1] >= '0' && n[len(n)-1] <= '9' && strings.HasPrefix(n, o) && len(n) == len(o)+2 {
							e.stat("number:branch:suffix>=10")
						}
					} else if ns := syms[i].SlotNamespace(); ns == ast.SlotDefault || ns == ast.SlotPrivateName {
						e.stat("number:branch:name-kept")
					} else {
						e.stat("number:branch:not-a-renamed-namespace")
					}
				}
				e.stat("number:renamed:" + bucket(renamed))
				e.stat("number:numbered:" + bucket(numbered))
				f, x := "-", "-"
				if len(final) > 0 {
					f = strings.Join(final, ",")
				}
				if len(extra) > 0 {
					x = strings.Join(extra, ",")
				}
				return f + "|" + x
			})
			if out == "PANIC" {
				e.stat("number:PANIC")
			} else {
				e.stat("number:ok")
			}
			e.emit(fmt.Sprintf("slots\tnumber\t%s\t%s\t%s\t%s", mode, symField, sb.String(), joinInts(top)), out)
		}
	}
}

func filterInts(xs []int, drop map[int]bool) []int {
	out := xs[:0]
	for _, x := range xs {
		if !drop[x] {
			out = append(out, x)
		}
	}
	return out
}
