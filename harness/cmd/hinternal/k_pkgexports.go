package main

import (
	"encoding/json"
	"fmt"
	"path"
	"regexp"
	"sort"
	"strconv"
	"strings"

	"github.com/evanw/esbuild/internal/ast"
	"github.com/evanw/esbuild/internal/cache"
	"github.com/evanw/esbuild/internal/config"
	"github.com/evanw/esbuild/internal/fs"
	"github.com/evanw/esbuild/internal/logger"
	"github.com/evanw/esbuild/internal/resolver"
	"github.com/evanw/esbuild/verifharness/gen"
)

// pkgexports kernel: the REAL resolver (resolver.NewResolver on fs.MockFS, exported API only) is run on
// generated package.json "exports" / "imports" maps × specifiers × condition sets. What it answers —
// the resolved file, or the class of refusal together with the path it names, read from the notes the
// resolver attaches to its error — is compared with lean/EsbuildModel/Impl/PkgExports.lean (`render`).
//
// The package directory holds no file besides package.json (probe 0), so a successful map lookup shows as
// "notfound <path>"; a second operation may then create exactly that file (probe 1) or that file + ".js"
// (probe 2: tells pjStatusInexact from pjStatusExact) — the path comes from the real resolver, never
// from the model.

type pjNode struct {
	kind  byte // 's' string, 'n' null, 'x' other, 'a' array, 'o' object
	str   string
	other string
	items []*pjNode
	keys  []string
}

func (n *pjNode) json(sb *strings.Builder) {
	switch n.kind {
	case 's':
		b, _ := json.Marshal(n.str)
		sb.Write(b)
	case 'n':
		sb.WriteString("null")
	case 'x':
		sb.WriteString(n.other)
	case 'a':
		sb.WriteByte('[')
		for i, it := range n.items {
			if i > 0 {
				sb.WriteString(", ")
			}
			it.json(sb)
		}
		sb.WriteByte(']')
	case 'o':
		sb.WriteByte('{')
		for i, it := range n.items {
			if i > 0 {
				sb.WriteString(", ")
			}
			b, _ := json.Marshal(n.keys[i])
			sb.Write(b)
			sb.WriteString(": ")
			it.json(sb)
		}
		sb.WriteByte('}')
	}
}

func (n *pjNode) wire(out *[]string) {
	switch n.kind {
	case 's':
		*out = append(*out, "S"+hexBytes([]byte(n.str)))
	case 'n':
		*out = append(*out, "N")
	case 'x':
		*out = append(*out, "X")
	case 'a':
		*out = append(*out, fmt.Sprintf("A%d", len(n.items)))
		for _, it := range n.items {
			it.wire(out)
		}
	case 'o':
		*out = append(*out, fmt.Sprintf("O%d", len(n.items)))
		for i, it := range n.items {
			*out = append(*out, "K"+hexBytes([]byte(n.keys[i])))
			it.wire(out)
		}
	}
}

type pjGen struct {
	r       *gen.Rand
	e       *emitter
	imports bool
	folder  bool // the targets being generated sit under a legacy folder key ("./lib/")
}

var pjSegs = []string{"a", "b", "ab", "x", "lib", "dist", "features", "internal", "a.b", "x.js", "index.js", "f-v2", "A", "q"}
var pjNasty = []string{"..", ".", "node_modules", "", "Node_Modules", "NODE_MODULES", "..a", ".hidden", "a..", "*"}
var pjConds = []string{"import", "require", "node", "default", "browser", "custom", "production", "development", "types", "module", "worker"}

func (g *pjGen) seg() string {
	if g.r.Chance(1, 9) {
		return g.r.Pick(pjNasty)
	}
	return g.r.Pick(pjSegs)
}

func (g *pjGen) sep() string {
	if g.r.Chance(1, 25) {
		return "\\"
	}
	return "/"
}

// a relative path of 0..3 segments
func (g *pjGen) relPath(max int) string {
	n := g.r.Intn(max + 1)
	s := ""
	for i := 0; i < n; i++ {
		if i > 0 {
			s += g.sep()
		}
		s += g.seg()
	}
	return s
}

func (g *pjGen) stringTarget(pattern bool) string {
	r := g.r
	if g.folder && r.Chance(2, 3) {
		if g.imports && r.Chance(1, 4) {
			return "other-pkg/"
		}
		return "./" + g.seg() + "/" + r.Pick([]string{"", "", g.seg() + "/"})
	}
	switch r.Intn(20) {
	case 0:
		return r.Pick([]string{"../x", "../", "..", "/abs/x.js", "/", "", ".", "./", ".x", "x", ".\\a", "./.", "./..", "./node_modules", "./*", "*", "./**", "./a/*/", "./*/*"})
	case 1, 2, 4, 5:
		if !g.imports && r.Chance(2, 3) {
			break
		}
		if g.imports { // bare specifier targets (PACKAGE_RESOLVE)
			return r.Pick([]string{"other-pkg", "other-pkg/sub", "@scope/p", "@scope/p/*", "other-pkg/*", "other-pkg/*.js", "zz*", "*", "other-pkg/", "..x", "other*pkg/*"})
		}
		return r.Pick([]string{"other-pkg", "x/y", "*"})
	case 3:
		return "./" + g.relPath(2) + "/"
	}
	s := "./" + g.relPath(3)
	if pattern || r.Chance(1, 6) {
		switch r.Intn(6) {
		case 0:
			s += "*"
		case 1:
			s += "/*"
		case 2:
			s += "/*.js"
		case 3:
			s += "/*/" + g.seg() + ".js"
		case 4:
			s += "/*/*.js"
		default:
			s = "./*" + strings.TrimPrefix(s, "./")
		}
	} else if r.Chance(1, 2) {
		s += ".js"
	}
	return s
}

func (g *pjGen) target(depth int, pattern bool) *pjNode {
	r := g.r
	k := r.Intn(20)
	if depth <= 0 && k >= 12 {
		k = r.Intn(12)
	}
	switch {
	case k < 9:
		return &pjNode{kind: 's', str: g.stringTarget(pattern)}
	case k < 11:
		return &pjNode{kind: 'n'}
	case k < 12:
		return &pjNode{kind: 'x', other: r.Pick([]string{"5", "true", "false", "0", "1.5"})}
	case k < 15:
		n := r.Intn(4)
		a := &pjNode{kind: 'a'}
		for i := 0; i < n; i++ {
			a.items = append(a.items, g.target(depth-1, pattern))
		}
		return a
	default:
		return g.condObject(depth-1, pattern)
	}
}

func (g *pjGen) condObject(depth int, pattern bool) *pjNode {
	r := g.r
	n := r.Intn(4)
	if r.Chance(1, 3) {
		n = 1 + r.Intn(2)
	}
	o := &pjNode{kind: 'o'}
	for i := 0; i < n; i++ {
		key := r.Pick(pjConds)
		switch r.Intn(30) {
		case 0:
			key = r.Pick([]string{"0", "1", "42", "01", "4294967294", "4294967295", "1.5", "-1"})
		case 1:
			key = r.Pick([]string{"./x", ".", "./*", ".x"})
		case 2:
			key = r.Pick([]string{"", "Default", "DEFAULT", "node-addons", "#x"})
		}
		o.keys = append(o.keys, key)
		o.items = append(o.items, g.target(depth, pattern))
	}
	return o
}

// a key of a subpath map: prefix is "./" for exports, "#" for imports
func (g *pjGen) subpathKey(prefix string) (key string, pattern bool) {
	r := g.r
	base := prefix + g.relPath(2)
	if base == prefix && r.Chance(3, 4) {
		base += g.seg()
	}
	switch r.Intn(12) {
	case 0, 1, 2, 3: // exact key
		if base == prefix && prefix == "./" && r.Bool() {
			return ".", false
		}
		return base, false
	case 4, 5, 6: // pattern without trailer
		if base != prefix && r.Bool() {
			base += "/"
		}
		return base + "*", true
	case 7, 8: // pattern with trailer
		if base != prefix && r.Bool() {
			base += "/"
		}
		return base + "*" + r.Pick([]string{".js", "/x", "-v2", ".b", "/index.js", "/", "x"}), true
	case 9: // legacy folder mapping
		if base == prefix {
			return base, false
		}
		return base + "/", false
	case 10: // several stars
		return base + "/*/" + g.seg() + "/*", true
	default:
		if r.Bool() {
			return ".", false
		}
		return base + "*", true
	}
}

func (g *pjGen) subpathMap(depth int) *pjNode {
	r := g.r
	prefix := "./"
	if g.imports {
		prefix = "#"
	}
	n := 1 + r.Intn(5)
	o := &pjNode{kind: 'o'}
	for i := 0; i < n; i++ {
		key, pattern := g.subpathKey(prefix)
		if r.Chance(1, 60) { // a key of the other sort: the parser rejects the whole object
			key = r.Pick([]string{"import", "default", "x", "./y", "."})
		}
		o.keys = append(o.keys, key)
		g.folder = strings.HasSuffix(key, "/") && !strings.Contains(key, "*")
		o.items = append(o.items, g.target(depth, pattern))
		g.folder = false
	}
	return o
}

// a request aimed at one of the keys of the map (or at nothing)
func (g *pjGen) request(m *pjNode) string {
	r := g.r
	prefix := "./"
	if g.imports {
		prefix = "#"
	}
	fill := func() string {
		switch r.Intn(12) {
		case 3: // a pattern match whose FIRST segment is forbidden (esbuild used not to look at it)
			f := r.Pick([]string{"..", ".", "node_modules", "../x", "./x", "node_modules/x", "../../x", "..\\x", "node_modules/a/b", "./a/b"})
			g.e.stat("gen-match-first-segment-forbidden")
			return f
		case 0:
			return r.Pick([]string{"..", ".", "node_modules", "../x", "./x", "node_modules/x", "a/../b", "a/./b", "a/node_modules/b", "a//b", "/a", "a/", "", "..\\x", "a\\..\\b", "Node_Modules/x", "..a/b"})
		case 1, 2:
			return g.relPath(3)
		}
		return g.seg()
	}
	if m != nil && m.kind == 'o' && len(m.keys) > 0 && !r.Chance(1, 8) {
		key := m.keys[r.Intn(len(m.keys))]
		if star := strings.IndexByte(key, '*'); star >= 0 {
			if r.Chance(1, 10) { // shorter than the key
				return key[:star] + key[star+1:]
			}
			if r.Chance(1, 12) {
				return key[:star]
			}
			return key[:star] + fill() + strings.ReplaceAll(key[star+1:], "*", fill())
		}
		if strings.HasSuffix(key, "/") && r.Chance(4, 5) {
			return key + fill()
		}
		if r.Chance(1, 10) {
			return key + "/"
		}
		return key
	}
	if r.Chance(1, 6) {
		if g.imports {
			return r.Pick([]string{"#", "#/x", "#/", "#a", "#x/", "#a/b"})
		}
		return r.Pick([]string{".", "./", "./a", "./x/"})
	}
	return prefix + g.seg() + "/" + g.relPath(2)
}

var pjNoteRes = []struct {
	class string
	re    *regexp.Regexp
}{
	{"notfound", regexp.MustCompile(`^The module ("(?:[^"\\]|\\.)*") was not found on the file system:$`)},
	{"invspec", regexp.MustCompile(`^The module specifier ("(?:[^"\\]|\\.)*") is invalid`)},
	{"invconfig", regexp.MustCompile(`^The package configuration has an invalid value here:$`)},
	{"invtarget", regexp.MustCompile(`^The package target ("(?:[^"\\]|\\.)*") is invalid`)},
	{"notexported", regexp.MustCompile(`^The path "(?:[^"\\]|\\.)*" cannot be imported from package "(?:[^"\\]|\\.)*" because it was explicitly disabled`)},
	{"notexported", regexp.MustCompile(`^The path "(?:[^"\\]|\\.)*" is not exported by package`)},
	{"importnotdefined", regexp.MustCompile(`^The package import ("(?:[^"\\]|\\.)*") is not defined in this "imports" map:$`)},
	{"dirimport", regexp.MustCompile(`^Importing the directory ("(?:[^"\\]|\\.)*") is forbidden by this package:$`)},
	{"nocond", regexp.MustCompile(`^The path "(?:[^"\\]|\\.)*" is not currently exported by package`)},
	{"remap", regexp.MustCompile(`^The remapped path ("(?:[^"\\]|\\.)*") could not be resolved:$`)},
	{"hash", regexp.MustCompile(`^This "imports" map was ignored because the module specifier "#" is invalid:$`)},
}

// classify what the real resolver answered; pkgDir is the directory of the package.json
func pjObserve(files map[string]string, sourceDir, spec string, kind ast.ImportKind, platform config.Platform, custom []string, pkgDir string) (class string, arg string) {
	mfs := fs.MockFS(files, fs.MockUnix, "/proj")
	log := logger.NewDeferLog(logger.DeferLogNoVerboseOrDebug, nil)
	opts := config.Options{Platform: platform, ExtensionOrder: []string{".js"}, ExtensionToLoader: map[string]config.Loader{".js": config.LoaderJS},
		MainFields: []string{"main"}, Conditions: custom}
	res := resolver.NewResolver(config.BuildCall, mfs, log, cache.MakeCacheSet(), &opts)
	rr, dm := res.Resolve(sourceDir, spec, kind)
	if rr != nil {
		p := rr.PathPair.Primary.Text
		if rr.PathPair.IsExternal {
			return "external", p
		}
		if !strings.HasPrefix(p, pkgDir+"/") {
			return "other", p
		}
		return "ok", p[len(pkgDir):]
	}
	l2 := logger.NewDeferLog(logger.DeferLogNoVerboseOrDebug, nil)
	dm.LogErrorMsg(l2, nil, logger.Range{}, "x", "", nil)
	msgs := l2.Done()
	if len(msgs) == 0 || len(msgs[0].Notes) == 0 {
		return "nonotes", ""
	}
	text := msgs[0].Notes[0].Text
	for _, c := range pjNoteRes {
		if m := c.re.FindStringSubmatch(text); m != nil {
			if len(m) > 1 {
				s, err := strconv.Unquote(m[1])
				if err != nil {
					return "unquote-failed", m[1]
				}
				return c.class, s
			}
			return c.class, ""
		}
	}
	return "unknown-note", text
}

// what a case exercises, read off the generated input only
func pjFeatures(root *pjNode, key string) []string {
	seen := map[string]bool{}
	var walk func(n *pjNode, depth int)
	walk = func(n *pjNode, depth int) {
		switch n.kind {
		case 'a':
			if depth > 0 {
				seen["array"] = true
				if len(n.items) == 0 {
					seen["array-empty"] = true
				}
			}
		case 'o':
			if depth > 0 {
				seen["conditions"] = true
				if depth > 2 {
					seen["conditions-nested"] = true
				}
			}
		case 'n':
			seen["null"] = true
		case 'x':
			seen["other"] = true
		case 's':
			if !strings.HasPrefix(n.str, "./") {
				seen["target-not-dot-slash"] = true
			}
			if strings.Contains(n.str, "*") {
				seen["target-star"] = true
			}
		}
		for _, it := range n.items {
			walk(it, depth+1)
		}
	}
	walk(root, 0)
	if root.kind == 'o' {
		for _, k := range root.keys {
			switch {
			case strings.Count(k, "*") > 1:
				seen["key-multi-star"] = true
			case strings.Contains(k, "*") && !strings.HasSuffix(k, "*"):
				seen["key-pattern-trailer"] = true
			case strings.Contains(k, "*"):
				seen["key-pattern"] = true
			case strings.HasSuffix(k, "/"):
				seen["key-folder"] = true
			}
			if k == key {
				seen["request-is-key"] = true
			}
		}
	}
	if strings.HasSuffix(key, "/") {
		seen["request-trailing-slash"] = true
	}
	out := []string{}
	for f := range seen {
		out = append(out, f)
	}
	sort.Strings(out)
	return out
}

// the refused pattern match has a forbidden segment in first position and nowhere else
func pjOnlyFirstSegmentForbidden(sub string) bool {
	segs := strings.FieldsFunc(sub, func(c rune) bool { return c == '/' || c == '\\' })
	if strings.HasPrefix(sub, "/") || strings.HasPrefix(sub, "\\") || len(segs) == 0 {
		return false
	}
	bad := func(x string) bool { return x == "." || x == ".." || x == "node_modules" }
	if !bad(segs[0]) {
		return false
	}
	for _, x := range segs[1:] {
		if bad(x) {
			return false
		}
	}
	return true
}

func pjFormat(class, arg string) string {
	switch class {
	case "invconfig", "notexported", "nocond", "hash", "nonotes":
		return class
	}
	return class + " " + hexBytes([]byte(arg))
}

// may a probe file be created at the package-relative path p ("./a/b.js") without disturbing anything?
func pjNicePath(p string) bool {
	if !strings.HasPrefix(p, "./") || strings.ContainsAny(p, "\\*") {
		return false
	}
	segs := strings.Split(p[2:], "/")
	for i, s := range segs {
		if s == "" || s == "." || s == ".." {
			return false
		}
		if i == 0 && (s == "package.json" || s == "zzself" || s == "zzsrc" || s == "node_modules" || s == "package.json.js") {
			return false
		}
	}
	return true
}

func init() {
	kernels["pkgexports"] = func(r *gen.Rand, e *emitter, tier string) {
		for !e.full() {
			g := &pjGen{r: r, e: e, imports: r.Chance(1, 4)}
			depth := 1 + r.Intn(3)
			var root *pjNode
			if g.imports {
				switch r.Intn(12) {
				case 0:
					root = g.target(depth, false)
					if root.kind == 'n' {
						root = &pjNode{kind: 'a'}
					}
				default:
					root = g.subpathMap(depth)
				}
			} else {
				switch r.Intn(12) {
				case 0:
					root = &pjNode{kind: 's', str: g.stringTarget(false)}
				case 1:
					root = g.target(depth, false)
					if root.kind == 'n' {
						root = &pjNode{kind: 'o'}
					}
				case 2:
					root = g.condObject(depth, false)
				default:
					root = g.subpathMap(depth)
				}
			}
			var sb strings.Builder
			root.json(&sb)
			var toks []string
			root.wire(&toks)
			tree := strings.Join(toks, " ")

			// several requests against the same map
			for q := 0; q < 3 && !e.full(); q++ {
				req := g.request(root)
				if req == "" {
					req = "."
				}
				if strings.ContainsAny(req, "?%") || strings.Contains(req[1:], "#") || strings.Contains(req, "*") {
					continue // "?", "#": retried without the suffix; "%": URL escapes; "*": refused as a glob before resolution
				}
				platform, pl := config.PlatformNode, "n"
				if r.Chance(1, 4) {
					platform, pl = config.PlatformBrowser, "b"
				}
				var custom []string
				for i := 0; i < r.Intn(3); i++ {
					custom = append(custom, r.Pick([]string{"custom", "production", "development", "worker", "types", "module", "import", "require"}))
				}
				customWire := "."
				if len(custom) > 0 {
					hs := make([]string, len(custom))
					for i, c := range custom {
						hs[i] = hexBytes([]byte(c))
					}
					customWire = strings.Join(hs, " ")
				}
				var kind ast.ImportKind
				var kindWire int
				switch r.Intn(6) {
				case 0:
					kind, kindWire = ast.ImportStmt, 0
				case 1:
					kind, kindWire = ast.ImportDynamic, 0
				case 2:
					kind, kindWire = ast.ImportRequire, 1
				case 3:
					kind, kindWire = ast.ImportRequireResolve, 1
				default:
					// a CSS @import uses only the default conditions; it looks at the relative path first,
					// which cannot exist if the request has no ".." segment
					kind, kindWire = ast.ImportAt, 2
					if strings.Contains(req, "..") {
						kind, kindWire = ast.ImportStmt, 0
					}
				}

				files := map[string]string{"/proj/zzsrc/index.js": ""}
				var pkgDir, sourceDir, spec, ei, key string
				if g.imports {
					ei = "I"
					pkgDir = "/proj"
					sourceDir = "/proj/zzsrc"
					files["/proj/package.json"] = "{\"name\": \"root\", \"imports\": " + sb.String() + "}"
					if !strings.HasPrefix(req, "#") {
						req = "#" + strings.TrimPrefix(strings.TrimPrefix(req, "./"), ".")
					}
					spec, key = req, req
				} else {
					ei = "E"
					pkgDir = "/proj/node_modules/dep"
					sourceDir = "/proj/zzsrc"
					files[pkgDir+"/package.json"] = "{\"name\": \"dep\", \"exports\": " + sb.String() + "}"
					if r.Chance(1, 6) { // self-reference from inside the package
						sourceDir = pkgDir + "/zzself"
						files[sourceDir+"/u.js"] = ""
						e.stat("self-reference")
					}
					if req != "." && !strings.HasPrefix(req, "./") {
						req = "./" + req
					}
					// esmParsePackageName("dep" + rest) gives subpath "." + rest
					spec, key = "dep"+req[1:], req
				}
				e.stat("map-" + ei + "-" + string(root.kind))
				for _, f := range pjFeatures(root, key) {
					e.stat("has-" + f)
				}
				op := func(probe int) string {
					names := make([]string, 0, len(files))
					for f := range files {
						names = append(names, f)
					}
					sort.Strings(names)
					for i, f := range names {
						names[i] = hexBytes([]byte(f))
					}
					return fmt.Sprintf("pkgexports\te2e\t%s\t%s\t%s\t%s\t%d\t%s\t%s\t%s", ei, hexBytes([]byte(pkgDir)), strings.Join(names, " "), pl, kindWire, customWire, hexBytes([]byte(key)), tree)
				}
				var class, arg string
				exp := guard(func() string {
					class, arg = pjObserve(files, sourceDir, spec, kind, platform, custom, pkgDir)
					return pjFormat(class, arg)
				})
				e.stat("r0-" + class)
				if class == "invspec" && pjOnlyFirstSegmentForbidden(arg) {
					e.stat("r0-invspec-only-first-segment-forbidden")
				}
				// end-to-end witness (Node itself as the oracle, c11-resolve replay) for requests Node's own condition set covers
				witness := func() map[string]interface{} {
					if pl != "n" || len(custom) > 0 || kindWire > 1 {
						return nil
					}
					rel := map[string]string{}
					for f, c := range files {
						rel[strings.TrimPrefix(f, "/proj/")] = c
					}
					// the file the map lookup points to is made to exist, so that "the map lets it through" is observable
					if class == "notfound" && pjNicePath(arg) {
						rel[strings.TrimPrefix(path.Join(pkgDir, arg), "/proj/")] = "module.exports = 1;\n"
					}
					importer := strings.TrimPrefix(sourceDir, "/proj/") + "/index.js"
					if _, ok := files[sourceDir+"/u.js"]; ok {
						importer = strings.TrimPrefix(sourceDir, "/proj/") + "/u.js"
					}
					return map[string]interface{}{"files": rel, "importer": importer, "spec": spec, "kind": []string{"import", "require"}[kindWire]}
				}
				if w := witness(); w != nil {
					e.emitW(op(0), exp, "c11-resolve", w)
				} else {
					e.emit(op(0), exp)
				}
				if class == "notfound" && pjNicePath(arg) && r.Bool() && !e.full() {
					probe := 1 + r.Intn(3)
					file := path.Join(pkgDir, arg)
					if probe == 2 {
						file += ".js"
					} else if probe == 3 {
						file += "/index.js"
					}
					files[file] = ""
					var class2 string
					exp2 := guard(func() string {
						c, a := pjObserve(files, sourceDir, spec, kind, platform, custom, pkgDir)
						class2 = c
						return pjFormat(c, a)
					})
					e.stat(fmt.Sprintf("r%d-%s", probe, class2))
					if w := witness(); w != nil {
						e.emitW(op(probe), exp2, "c11-resolve", w)
					} else {
						e.emit(op(probe), exp2)
					}
				}
			}
		}
	}
}
