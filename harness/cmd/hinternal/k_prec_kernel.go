package main

import (
	"encoding/json"
	"fmt"
	"os"
	"os/exec"
	"strings"

	"github.com/evanw/esbuild/verifharness/gen"
)

var precAlphabet = []string{"(", ")", "[", "]", ".", "?", ":", ",", "+", "-", "*", "%", "**", "<", "<=", ">", ">=", "<<", ">>",
	">>>", "==", "!=", "===", "!==", "&", "|", "^", "&&", "||", "??", "~", "!", "++", "--", "=", "+=", "-=", "*=", "%=",
	"**=", "<<=", ">>=", ">>>=", "|=", "&=", "^=", "??=", "||=", "&&=", "in", "instanceof", "typeof", "void", "delete", "new"}

func precRandTok(r *gen.Rand) string {
	switch r.Intn(5) {
	case 0, 1:
		return fmt.Sprintf("x%d", r.Intn(precIdents))
	case 2:
		return fmt.Sprint(r.Intn(10))
	default:
		return precAlphabet[r.Intn(len(precAlphabet))]
	}
}

func precMutate(r *gen.Rand, toks []string) []string {
	out := append([]string{}, toks...)
	for i, t := range out { // `/` in operand position would start a regular expression: outside the fragment
		if t == "/" {
			out[i] = "%"
		} else if t == "/=" {
			out[i] = "%="
		}
	}
	for n := 1 + r.Intn(2); n > 0 && len(out) > 0; n-- {
		i := r.Intn(len(out))
		switch r.Intn(6) {
		case 0:
			out = append(out[:i], out[i+1:]...)
		case 1:
			out = append(out[:i], append([]string{precRandTok(r)}, out[i:]...)...)
		case 2:
			out[i] = precRandTok(r)
		case 3:
			if i+1 < len(out) {
				out[i], out[i+1] = out[i+1], out[i]
			}
		default: // drop one pair of matching parentheses
			opens := []int{}
			for j, t := range out {
				if t == "(" {
					opens = append(opens, j)
				}
			}
			if len(opens) == 0 {
				break
			}
			a := opens[r.Intn(len(opens))]
			depth, b := 0, -1
			for j := a; j < len(out); j++ {
				if out[j] == "(" {
					depth++
				} else if out[j] == ")" {
					depth--
					if depth == 0 {
						b = j
						break
					}
				}
			}
			if b > a {
				out = append(out[:b], out[b+1:]...)
				out = append(out[:a], out[a+1:]...)
			}
		}
	}
	return out
}

type precNodeCase struct {
	Src    string `json:"src"`
	Accept bool   `json:"accept"`
	Err    string `json:"err"`
}

const precNodeScript = `const cs=JSON.parse(require('fs').readFileSync(process.argv[1],'utf8'));
const out=cs.map(c=>{try{new Function(c.src);return true}catch(e){if(e instanceof SyntaxError)return false;throw e}});
console.log(JSON.stringify(out));`

// precNodeCheck gives the sampled sources to V8; returns the cases where V8 and esbuild disagree
func precNodeCheck(cases []precNodeCase, e *emitter) []precNodeCase {
	if len(cases) == 0 {
		return nil
	}
	f, err := os.CreateTemp("", "prec-node-*.json")
	if err != nil {
		e.stat("node-unavailable")
		return nil
	}
	defer os.Remove(f.Name())
	js, _ := json.Marshal(cases)
	f.Write(js)
	f.Close()
	out, err := exec.Command("node", "-e", precNodeScript, f.Name()).Output()
	var verdicts []bool
	if err != nil || json.Unmarshal(out, &verdicts) != nil || len(verdicts) != len(cases) {
		e.stat("node-unavailable")
		return nil
	}
	var bad []precNodeCase
	for i, c := range cases {
		switch {
		case verdicts[i] == c.Accept && c.Accept:
			e.stat("node-agrees-accept")
		case verdicts[i] == c.Accept:
			e.stat("node-agrees-reject")
		case verdicts[i] && strings.HasPrefix(c.Err, "Invalid assignment target") && strings.Contains(c.Src, ")"):
			// V8 keeps `f() = 1` / `f()++` as run-time ReferenceErrors for web compatibility; ECMA-262 and esbuild reject them
			e.stat("node-webcompat-call-target")
		default:
			bad = append(bad, c)
		}
	}
	return bad
}

func init() {
	kernels["prec"] = func(r *gen.Rand, e *emitter, tier string) {
		var nodeCases []precNodeCase
		parseOp := func(toks []string, inOk bool, class string) string {
			text := strings.Join(toks, " ")
			var res, firstErr string
			skipped := ""
			func() {
				defer func() {
					if p := recover(); p != nil {
						if o, ok := p.(precOutside); ok {
							skipped = o.what
							return
						}
						panic(p)
					}
				}()
				res, firstErr = precRealParse(text, inOk)
			}()
			if skipped != "" {
				e.stat("parse-skip-outside-fragment")
				return "skipped"
			}
			if res != "reject" {
				if k := precKnownLenient(toks); k != "" {
					// esbuild accepts a sequence no ECMAScript grammar derives; the expected answer is the grammar's
					e.stat("parse-esbuild-lenient-" + k)
					res, firstErr = "reject", "lenient"
				}
			}
			if res == "reject" {
				e.stat("parse-" + class + "-reject")
			} else {
				e.stat("parse-" + class + "-accept")
			}
			in := "1"
			if !inOk {
				in = "0"
				e.stat("parse-forinit")
			}
			e.emit("prec\tparse\t"+in+"\t"+text, res)
			if len(nodeCases) < 3000 && r.Chance(1, 8) {
				src := text + ";"
				if !inOk {
					src = "for (" + text + ";;);"
				}
				nodeCases = append(nodeCases, precNodeCase{Src: src, Accept: res != "reject", Err: firstErr})
			}
			return res
		}
		for !e.full() {
			g := &precGen{r: r, illFormed: r.Chance(1, 25)}
			depth := 1 + r.Intn(5)
			if r.Chance(1, 40) {
				depth = 8
			}
			x := g.expr(depth)
			forbidIn := r.Chance(1, 3)
			var sb strings.Builder
			x.wire(&sb)
			fi := "0"
			if forbidIn {
				fi = "1"
				e.stat("print-forbidIn")
			}
			minify := r.Chance(1, 3)
			mn := "0"
			if minify {
				mn = "1"
				e.stat("print-minify-whitespace")
			}
			printed, ok := precRealPrint(x, forbidIn, minify, false)
			wf := x.targetsOk()
			if !wf {
				e.stat("print-illformed-target")
			} else {
				e.stat("print-wellformed")
			}
			precShapeStats(x, e)
			if wf {
				// end-to-end witness: the fully parenthesised program, in expression-statement or for-init position,
				// must come out valid (V8) and as a fixed point of a second compile (c13-syntax replay)
				src := "(" + x.fullParen() + ");\n"
				if forbidIn {
					src = "for ((" + x.fullParen() + "); x0 < 0; ) break;\n"
				}
				opt := "utf8"
				if minify {
					opt = "utf8,mw"
				}
				e.emitW("prec\tprint\t"+mn+"\t0\t"+fi+"\t"+strings.TrimSpace(sb.String()), printed, "c13-syntax",
					map[string]string{"source": src, "goal": "script", "opt_name": opt})
			} else {
				e.emit("prec\tprint\t"+mn+"\t0\t"+fi+"\t"+strings.TrimSpace(sb.String()), printed)
			}
			if !ok {
				continue
			}
			if r.Chance(1, 2) {
				// the same tree under MinifyWhitespace with the white space kept ("_" = blank between two tokens)
				spaced, _ := precRealPrint(x, forbidIn, true, true)
				e.stat("printsp")
				if strings.Contains(spaced, "_") {
					e.stat("printsp-has-blank")
				}
				for _, pat := range []string{"+ _ +", "+ _ ++", "- _ -", "- _ --", "-- _ >", "! _ --", " _ .", " _ in _ ", "typeof _ ", "new _ "} {
					if strings.Contains(" "+spaced+" ", " "+strings.TrimSpace(pat)+" ") || strings.Contains(spaced, pat) {
						e.stat("printsp-blank:" + strings.TrimSpace(pat))
					}
				}
				e.emit("prec\tprintsp\t"+fi+"\t"+strings.TrimSpace(sb.String()), spaced)
			}
			toks := strings.Fields(printed)
			if wf {
				// the printed form of a well-formed tree must parse back to the tree (checked against both parsers)
				want := x.normComma().sexp()
				if want != x.sexp() {
					e.stat("roundtrip-comma-reassociated")
				}
				if back := parseOp(toks, !forbidIn, "printed"); back != want {
					// the round trip itself failed on the real code: printer output does not parse back to the tree
					e.stat("ROUNDTRIP-FAILED")
					e.emit("prec\troundtrip-failed\t"+printed, want+" => "+back)
				}
				if r.Chance(1, 4) {
					parseOp(toks, forbidIn, "printed-other-in")
				}
			}
			if r.Chance(1, 2) {
				parseOp(precMutate(r, toks), r.Chance(3, 4), "mutated")
			}
			if r.Chance(1, 6) {
				n := 1 + r.Intn(8)
				rt := make([]string, n)
				for i := range rt {
					rt[i] = precRandTok(r)
				}
				parseOp(rt, r.Chance(3, 4), "random")
			}
		}
		for _, c := range precNodeCheck(nodeCases, e) {
			e.emit("prec\tnode-disagrees\t"+c.Src, fmt.Sprintf("esbuild-accept=%v", c.Accept))
		}
	}
}

// precShapeStats counts the parent/child operator situations the printer special-cases
func precShapeStats(x *pexpr, e *emitter) {
	for _, k := range x.kids {
		precShapeStats(k, e)
	}
	if x.foldLeaf {
		if precOpNames[x.op] == "UnOpNeg" {
			e.stat("leaf-negative-number")
		} else {
			e.stat("leaf-undefined")
		}
	}
	switch x.kind {
	case 'b':
		l, rgt := x.kids[0], x.kids[1]
		if precOpNames[x.op] == "BinOpPow" && l.foldLeaf {
			e.stat("pow-left-negative-or-undefined")
		}
		e.stat("bin-" + precOpNames[x.op])
		if l.kind == 'b' {
			e.stat("bin-left-is-binary")
		}
		if rgt.kind == 'b' {
			e.stat("bin-right-is-binary")
		}
		if precOpNames[x.op] == "BinOpPow" && l.kind == 'u' {
			e.stat("pow-left-unary")
		}
		if precOpNames[x.op] == "BinOpNullishCoalescing" && (l.kind == 'b' && (precOpNames[l.op] == "BinOpLogicalOr" || precOpNames[l.op] == "BinOpLogicalAnd") ||
			rgt.kind == 'b' && (precOpNames[rgt.op] == "BinOpLogicalOr" || precOpNames[rgt.op] == "BinOpLogicalAnd")) {
			e.stat("nullish-over-or-and")
		}
	case 'u':
		e.stat("un-" + precOpNames[x.op])
	case 'w':
		switch x.kids[0].kind {
		case 'k':
			e.stat("new-target-call")
		case 'd', 'x':
			e.stat("new-target-member")
		case 'w':
			e.stat("new-target-new")
		}
		e.stat(fmt.Sprintf("new-args-%d", len(x.kids)-1))
	case 'k':
		if x.kids[0].kind == 'w' {
			e.stat("call-target-new")
		}
		e.stat(fmt.Sprintf("call-args-%d", len(x.kids)-1))
	case 'c':
		e.stat("cond")
	case 'd', 'x':
		e.stat("member-target-" + string(x.kids[0].kind))
	}
}
