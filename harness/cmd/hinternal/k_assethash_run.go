package main

// the real build of one case of kernel `assethash` and its operation / expected lines (see k_assethash.go)

import (
	"fmt"
	"path/filepath"
	"sort"
	"strings"

	"github.com/evanw/esbuild/pkg/api"
	"github.com/evanw/esbuild/verifharness/gen"
)

func (p *ahProj) build(r *gen.Rand, e *emitter, c ahCase) {
	// the asset sources of this build: referenced from a reachable importer, or an entry point
	used := map[int]int{} // index into c.sources -> index on the wire
	var assets []ahSource
	use := func(si int) int {
		if w, ok := used[si]; ok {
			return w
		}
		used[si] = len(assets)
		assets = append(assets, c.sources[si])
		return len(assets) - 1
	}
	for _, x := range c.entries {
		if x.importer == -1 {
			for si, s := range c.sources {
				if s.rel == x.rel && s.suffix == "" {
					use(si)
				}
			}
		}
	}
	markerAsset := map[int]int{}
	var markers []int
	for _, ref := range c.refs {
		if c.reach[ref.importer] {
			markerAsset[ref.marker] = use(ref.src)
			markers = append(markers, ref.marker)
		}
	}

	outdir := r.Pick([]string{"out", "out", "out", "out/deep", "dist", "."})
	outbase := r.Pick([]string{"", "", "", "src", ".", "data", "img", ".."})
	entryNames := r.Pick(ahEntryNames)
	assetNames := r.Pick(ahAssetNames)
	publicPath := r.Pick(ahPublicPaths)
	opts := api.BuildOptions{AbsWorkingDir: p.cwd, Outbase: outbase, EntryNames: entryNames, AssetNames: assetNames,
		PublicPath: publicPath, Bundle: true, Write: false, Format: api.FormatESModule, LogLevel: api.LogLevelSilent, Loader: c.loaders}
	if c.outfile != "" {
		opts.Outfile = c.outfile
		outdir = ""
		e.stat("outfile")
	} else {
		opts.Outdir = outdir
	}
	var wireEntries []string
	for _, x := range c.entries {
		opts.EntryPointsAdvanced = append(opts.EntryPointsAdvanced, api.EntryPoint{InputPath: x.in, OutputPath: x.out})
		wireEntries = append(wireEntries, strings.Join([]string{opHex(x.in), opHex(x.out), opHex(filepath.Join(p.cwd, x.rel))}, ","))
		if x.importer == -1 && x.out != "" {
			e.stat("entry-asset-custom-out")
		}
	}
	res := api.Build(opts)

	absOutdir := filepath.Join(p.cwd, outdir)
	if c.outfile != "" {
		absOutdir = filepath.Dir(filepath.Join(p.cwd, c.outfile))
	}
	var wireAssets, wireRefs []string
	for _, a := range assets {
		l := c.loaderOf[ahLoaderKey(a.rel)]
		wireAssets = append(wireAssets, strings.Join([]string{opHex(filepath.Join(p.cwd, a.rel)), opHex(a.suffix), l[:1], hexBytes(p.bytes[a.rel])}, ","))
		e.stat("asset-loader-" + l)
	}
	var line string
	if len(res.Errors) == 0 {
		var files, got []string
		seen := map[int]bool{}
		sort.Slice(res.OutputFiles, func(i, j int) bool { return res.OutputFiles[i].Path < res.OutputFiles[j].Path })
		for _, f := range res.OutputFiles {
			if !ahIsChunk(f.Path) {
				files = append(files, opHex(f.Path)+":"+hexBytes(f.Contents))
				continue
			}
			chunkRel, err := filepath.Rel(absOutdir, f.Path)
			if err != nil {
				panic(err)
			}
			found := ahFindRefs(f.Path, string(f.Contents))
			for _, k := range markers {
				if s, ok := found[k]; ok {
					seen[k] = true
					wireRefs = append(wireRefs, fmt.Sprintf("%s,%d", opHex(chunkRel), markerAsset[k]))
					got = append(got, opHex(s))
				}
			}
		}
		for _, k := range markers {
			if !seen[k] {
				// the generator expected this reference in some chunk: make the case fail
				wireRefs = append(wireRefs, fmt.Sprintf("%s,%d", opHex("."), markerAsset[k]))
				got = append(got, fmt.Sprintf("MARKER-K%d-NOT-FOUND", k))
			}
		}
		sort.Strings(files)
		line = "OK files=" + strings.Join(files, " ") + " refs=" + strings.Join(got, " ")
		e.stat("build-ok")
		if len(files) < len(assets) {
			e.stat("build-ok-equal-files-merged")
		}
		e.stat(fmt.Sprintf("build-ok-assets-%d", len(assets)))
		e.stat(fmt.Sprintf("build-ok-refs-%d", ahMin(len(got), 4)))
	} else {
		var dup, other []string
		chunkClash := false
		for _, m := range res.Errors {
			const dupMsg = "Two output files share the same path but have different contents: "
			if strings.HasPrefix(m.Text, dupMsg) {
				q := filepath.Join(p.cwd, strings.TrimPrefix(m.Text, dupMsg))
				chunkClash = chunkClash || ahIsChunk(q)
				dup = append(dup, opHex(q))
			} else {
				other = append(other, m.Text)
			}
		}
		if chunkClash && len(other) == 0 {
			// two entry points named alike by the entry template (e.g. the JS stubs of img/a.png and img2/a.png
			// under "[name]"): chunks are outside this model
			e.stat("skipped-chunk-name-clash")
			return
		}
		line = "ERR dup=" + ahSortedUnique(dup)
		if len(other) > 0 {
			line += " OTHER=" + strings.Join(other, " / ")
		}
		e.stat("build-err-duplicate-asset-path")
	}
	p.stats(e, c, assets, entryNames, assetNames, publicPath, outbase)
	join := func(xs []string) string {
		if len(xs) == 0 {
			return "."
		}
		return strings.Join(xs, ";")
	}
	op := strings.Join([]string{"assethash", "build", opHex(p.cwd), opHex(outdir), opHex(c.outfile), opHex(outbase), opHex(entryNames),
		opHex(assetNames), opHex(publicPath), join(wireEntries), join(wireAssets), join(wireRefs)}, "\t")

	// end-to-end witness (search c18-hash: outdir "out", plain entry points, options by name, text files only)
	if w := p.witness(c, assets, outdir, outbase, entryNames, assetNames, publicPath); w != nil {
		e.emitW(op, line, "c18-hash", w)
		e.stat("witness")
	} else {
		e.emit(op, line)
	}
}
