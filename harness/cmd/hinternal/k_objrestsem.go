package main

import (
	"encoding/json"
	"fmt"
	"os"
	"os/exec"
	"path/filepath"
	"strings"

	"github.com/evanw/esbuild/pkg/api"
	"github.com/evanw/esbuild/verifharness/gen"
)

// kernel "objrestsem": validates the EVALUATORS of Impl/Lower3.lean (the theorems of Props/C05ObjRest.lean are
// about them) against Node: each generated statement is run (a) as written and (b) as esbuild emits it with
// object rest/spread unsupported (pkg/api Transform; the output contains the real runtime helpers
// __spreadValues, __spreadProps, __objRest, __restKey), inside a deterministic pseudo-random world: objects
// whose own keys / enumerability are fixed by the seed and whose every property read is logged (a Proxy with a
// `get` trap only, so that keys and attributes are those of an ordinary object), functions f0..f2, getters
// W.getter(n, this) in literals, Symbol.toPrimitive with the hint logged; the world may throw and may reassign
// v0..v3. Expected line: "<result>|<events>|<v0..v3>" for (a) ## the same for (b); the model prints
// execStmt of the statement and of its lowering in the same world (semDriver).

const objrestsemRunner = `
'use strict';
const fs = require('fs');
function mix(a, b) { return (a * 1000003 + b * 7919 + 12345) % 1000000007; }
const NAMES = ['a', 'b', 'c', 'd', 'x1', '__proto__'];
function makeWorld(seed) {
  const W = { log: [], res: null, bad: null };
  const objs = new Map(), ids = new WeakMap();
  const syms = [Symbol('Y0'), Symbol('Y1'), Symbol('Y2')];
  let getv = null, setv = null;
  function strKeys(i) {
    const c = mix(seed, 500 + i), rot = c % 6;
    const names = NAMES.slice(rot).concat(NAMES.slice(0, rot));
    return names.filter((nm, j) => nm === '__proto__' ? Math.floor(c / 64) % 8 === 0 : Math.floor(c / (6 * Math.pow(2, j))) % 2 === 0);
  }
  function symKeys(i) {
    const c = mix(seed, 600 + i);
    return [0, 1, 2].filter(j => Math.floor(c / Math.pow(2, j)) % 2 === 0);
  }
  function enumerable(i, k) {
    if (typeof k === 'string') return mix(seed, 700 + 10 * i + k.length + k.charCodeAt(0)) % 5 !== 0;
    return mix(seed, 800 + 10 * i + k) % 4 !== 0;
  }
  function keyName(k) { return typeof k === 'symbol' ? 'Y' + syms.indexOf(k) : String(k); }
  function obj(id) {
    let p = objs.get(id);
    if (!p) {
      const target = {};
      let mutated = false;
      for (const k of strKeys(id)) Object.defineProperty(target, k, { value: 0, writable: true, enumerable: enumerable(id, k), configurable: true });
      for (const j of symKeys(id)) Object.defineProperty(target, syms[j], { value: 0, writable: true, enumerable: enumerable(id, j), configurable: true });
      p = new Proxy(target, {
        get(t, k, receiver) {
          if (k === Symbol.toPrimitive) return function (hint) { return toPrim(this, hint); };
          if (typeof k === 'symbol' && syms.indexOf(k) < 0) { W.bad = 'get of ' + String(k); return undefined; }
          const n = W.log.length;
          W.log.push('get:O' + id + ':' + keyName(k));
          if (!mutated) {
            // objects 14 and 15 change while they are read (see testWorld in Impl/Lower3Wire.lean)
            mutated = true;
            const ks = strKeys(id), last = ks[ks.length - 1];
            if (id === 15 && last !== undefined) delete t[last];
            if (id === 14) {
              if (symKeys(id).indexOf(2) < 0) Object.defineProperty(t, syms[2], { value: 0, writable: true, enumerable: enumerable(id, 2), configurable: true });
            }
          }
          const v = decide(mix(seed, mix(n, 1 + id)));
          // an own "__proto__" property never holds an object (what __objRest does after such a key
          // changed the prototype of its target is only approximated by the model)
          return (k === '__proto__' && v !== null && typeof v === 'object') ? null : v;
        },
      });
      objs.set(id, p); ids.set(p, id);
    }
    return p;
  }
  function pickVal(c) {
    const q = Math.floor(c / 16);
    switch (c % 16) {
      case 0: return undefined;
      case 1: return null;
      case 2: return 0;
      case 3: return 7;
      case 4: return '';
      case 5: return 'a';
      case 6: return 'b';
      case 7: return 'c';
      case 8: return 'xy';
      case 9: return syms[q % 3];
      case 10: return obj(10 + q % 3);
      case 11: return obj(13 + q % 3);
      case 12: return obj(10 + q % 6);
      case 13: return 'd';
      case 14: return 'x1';
      default: return undefined;
    }
  }
  function decide(c) {
    if (Math.floor(c / 3) % 6 === 0) setv(Math.floor(c / 18) % 4, pickVal(Math.floor(c / 72)));
    if (c % 13 === 0) throw 99;
    return pickVal(Math.floor(c / 13));
  }
  function toPrim(self, hint) {
    if (!ids.has(self)) return '[object Object]';
    const id = ids.get(self);
    const n = W.log.length;
    if (hint === 'number') { W.bad = 'hint number'; return 0; }
    W.log.push('prim:' + (hint === 'string' ? 'S' : 'D') + ':O' + id);
    return decide(mix(seed, mix(n, 200 + id + (hint === 'default' ? 50 : 0))));
  }
  function fnId(f, re) {
    if (f === undefined) return '-';
    const m = re.exec(Function.prototype.toString.call(f));
    return m ? m[1] : '?';
  }
  function show(v) {
    if (v === undefined) return 'u';
    if (v === null) return 'n';
    if (typeof v === 'number') return Number.isSafeInteger(v) ? 'N' + String(v) : 'N?';
    if (typeof v === 'string') return 'S<' + v + '>';
    if (typeof v === 'symbol') return 'Y' + syms.indexOf(v);
    if (typeof v === 'object' && ids.has(v)) return 'O' + ids.get(v);
    if (typeof v === 'object') {
      const proto = Object.getPrototypeOf(v);
      const sp = proto === Object.prototype ? 'd' : proto === null ? 'n' : show(proto);
      const ss = [], ys = [];
      for (const k of Reflect.ownKeys(v)) {
        const d = Object.getOwnPropertyDescriptor(v, k);
        if (!d.enumerable || !d.configurable) W.bad = 'attributes of ' + keyName(k);
        const slot = 'value' in d ? 'D' + show(d.value) : 'A(' + fnId(d.get, /W\.getter\((\d+)/) + ',' + fnId(d.set, /W\.setter\((\d+)/) + ')';
        (typeof k === 'symbol' ? ys : ss).push(keyName(k) + ':' + slot);
      }
      return '{' + sp + '|' + ss.join(',') + '|' + ys.join(',') + '}';
    }
    W.bad = 'value of type ' + typeof v;
    return '?';
  }
  W.init = function (i) { return i % 2 === 1 ? obj(10 + mix(seed, 900 + i) % 6) : pickVal(mix(seed, 900 + i)); };
  W.access = function (g, s) { getv = g; setv = s; };
  W.call = function (f, a) {
    const n = W.log.length;
    W.log.push('call:' + f + ':' + show(a));
    return decide(mix(seed, mix(n, 100 + f)));
  };
  W.getter = function (g, self) {
    const n = W.log.length;
    W.log.push('getter:' + g + ':' + show(self));
    return decide(mix(seed, mix(n, 40 + g)));
  };
  W.setter = function (g, self, x) { W.bad = 'setter called'; };
  W.error = function (e) {
    if (e instanceof TypeError) W.res = 'E:TypeError';
    else if (e instanceof Error) W.res = 'E:OTHER:' + e.name + ':' + e.message;
    else W.res = 'E:throw:' + show(e);
  };
  W.finish = function (vars) {
    const vs = vars.map(show).join(',');
    if (W.bad) return 'HARNESS-ERROR:' + W.bad;
    return W.res + '|' + W.log.join(';') + '|' + vs;
  };
  return W;
}
function run(code, seed) {
  const W = makeWorld(seed);
  const body =
    '"use strict";\n' +
    'var v0 = W.init(0), v1 = W.init(1), v2 = W.init(2), v3 = W.init(3);\n' +
    'W.access(function (i) { return [v0, v1, v2, v3][i]; }, function (i, x) { if (i === 0) v0 = x; else if (i === 1) v1 = x; else if (i === 2) v2 = x; else v3 = x; });\n' +
    'function f0(a) { return W.call(0, a); } function f1(a) { return W.call(1, a); } function f2(a) { return W.call(2, a); }\n' +
    'try {\n' + code + '\nW.res = "V"; } catch (e) { W.error(e); }\n' +
    'return W.finish([v0, v1, v2, v3]);';
  try {
    return new Function('W', body)(W);
  } catch (e) {
    return 'HARNESS-ERROR:' + e;
  }
}
const cases = fs.readFileSync(process.argv[2], 'utf8').split('\n').filter(Boolean).map(JSON.parse);
const out = [];
for (const c of cases) out.push(run(c.src, c.seed) + ' ## ' + run(c.low, c.seed));
fs.writeFileSync(process.argv[3], out.join('\n') + '\n');
`

type o3semCase struct {
	Seed int    `json:"seed"`
	Src  string `json:"src"`
	Low  string `json:"low"`
	wire string
}

func init() {
	kernels["objrestsem"] = func(r *gen.Rand, e *emitter, tier string) {
		g := &o3gen{r: r, e: e, sem: true}
		cases := []o3semCase{}
		for len(cases) < e.limit {
			x := g.stmt()
			res := api.Transform(x.js, api.TransformOptions{
				Supported: map[string]bool{"object-rest-spread": false},
				LogLevel:  api.LogLevelSilent,
			})
			if len(res.Errors) > 0 {
				e.stat("transform-error")
				continue
			}
			cases = append(cases, o3semCase{Seed: r.Intn(1000000), Src: x.js, Low: string(res.Code), wire: x.wire})
		}
		dir, err := os.MkdirTemp("", "objrestsem")
		if err != nil {
			panic(err)
		}
		defer os.RemoveAll(dir)
		var sb strings.Builder
		for _, c := range cases {
			js, _ := json.Marshal(c)
			sb.Write(js)
			sb.WriteByte('\n')
		}
		os.WriteFile(filepath.Join(dir, "runner.js"), []byte(objrestsemRunner), 0644)
		os.WriteFile(filepath.Join(dir, "cases.jsonl"), []byte(sb.String()), 0644)
		if dump := os.Getenv("OBJRESTSEM_DUMP"); dump != "" {
			os.WriteFile(dump, []byte(sb.String()), 0644) // for debugging a disagreement: the JavaScript texts
		}
		cmd := exec.Command("node", filepath.Join(dir, "runner.js"), filepath.Join(dir, "cases.jsonl"), filepath.Join(dir, "out.txt"))
		if outb, err := cmd.CombinedOutput(); err != nil {
			panic(fmt.Sprintf("node failed: %v\n%s", err, outb))
		}
		outb, err := os.ReadFile(filepath.Join(dir, "out.txt"))
		if err != nil {
			panic(err)
		}
		lines := strings.Split(strings.TrimRight(string(outb), "\n"), "\n")
		if len(lines) != len(cases) {
			panic(fmt.Sprintf("node answered %d lines for %d cases", len(lines), len(cases)))
		}
		for i, c := range cases {
			line := lines[i]
			parts := strings.Split(line, " ## ")
			if strings.Contains(line, "HARNESS-ERROR:SyntaxError: Invalid destructuring assignment target") {
				// V8 rejects `f({a: (b, c)}, {d} = e)` (valid ECMAScript; esbuild prints the destructuring
				// assignment that was parenthesised in the source without parentheses): not comparable
				e.stat("node:skipped-v8-syntax-bug")
				continue
			}
			switch {
			case strings.Contains(line, "HARNESS-ERROR") || strings.Contains(line, "E:OTHER"):
				e.stat("node:harness-error")
			case len(parts) == 2 && parts[0] == parts[1]:
				e.stat("node:source-and-lowered-agree")
			default:
				e.stat("node:source-and-lowered-differ")
			}
			if len(parts) == 2 {
				switch {
				case strings.HasPrefix(parts[0], "V"):
					e.stat("node:result:completed")
				case strings.HasPrefix(parts[0], "E:TypeError"):
					e.stat("node:result:TypeError")
				case strings.HasPrefix(parts[0], "E:throw"):
					e.stat("node:result:host-throw")
				}
				for _, k := range []string{"get:", "getter:", "call:", "prim:S", "prim:D"} {
					if strings.Contains(parts[0], k) {
						e.stat("node:event:" + strings.TrimSuffix(k, ":"))
					}
					if strings.Contains(parts[1], k) && !strings.Contains(parts[0], k) {
						e.stat("node:event-only-in-lowered:" + strings.TrimSuffix(k, ":"))
					}
				}
				if strings.Contains(parts[0], "{") {
					e.stat("node:fresh-object-in-result")
				}
			}
			e.emit(fmt.Sprintf("objrestsem\t%d\t%s", c.Seed, c.wire), line)
		}
	}
}
