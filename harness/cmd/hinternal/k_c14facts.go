package main

// kernel "c14facts": the REAL routines behind the regenerated C14 facts against the model that is regenerated from
// their source text (Gen/OverrideCalls.lean, Gen/FeatureGates.lean, Gen/RuntimeGuards.lean).
//
// fix: bundler.applyOptionDefaults on random (UnsupportedJSFeatures, Overrides, OverridesMask) triples — the automatic
// fix of invalid `supported` overrides (fixInvalidUnsupportedJSFeatureOverrides calls) and the InlineScript default
// for non-browser platforms. The Lean side interprets the extracted calls and the extracted helper body.
//
//	op:       c14facts \t fix \t <browser 0|1> \t <features> \t <overrides> \t <mask>      (decimal uint64)
//	expected: <features> <overrides> <mask> after the call
//
// rt: js_parser.Parse(runtime.Source(unsupported)) with the same unsupported set, as bundler's parseRuntime does (which
// panics on any error). The Lean side selects the extracted text segments for that set and predicts an error iff a
// scanned syntax feature of the selected text is unsupported and is one the parser reports instead of lowering.
//
//	op:       c14facts \t rt \t <unsupported>          expected: ok | error

import (
	"fmt"

	"github.com/evanw/esbuild/internal/bundler"
	"github.com/evanw/esbuild/internal/compat"
	"github.com/evanw/esbuild/internal/config"
	"github.com/evanw/esbuild/internal/js_parser"
	"github.com/evanw/esbuild/internal/logger"
	"github.com/evanw/esbuild/internal/runtime"
	"github.com/evanw/esbuild/verifharness/gen"
)

func init() {
	kernels["c14facts"] = func(r *gen.Rand, e *emitter, tier string) {
		// the features that take part in an implication (either side), named here only to bias the generator and to
		// label the statistics; the expected values come from the real routine alone
		triggers := []struct {
			name string
			bit  compat.JSFeature
		}{
			{"AsyncAwait", compat.AsyncAwait}, {"Generator", compat.Generator}, {"ObjectAccessors", compat.ObjectAccessors},
			{"ClassField", compat.ClassField}, {"ClassStaticField", compat.ClassStaticField}, {"Class", compat.Class},
		}
		dependents := []compat.JSFeature{
			compat.AsyncGenerator, compat.ForAwait, compat.TopLevelAwait, compat.ClassPrivateAccessor, compat.ClassPrivateStaticAccessor,
			compat.ClassPrivateField, compat.ClassPrivateStaticField, compat.ClassPrivateBrandCheck, compat.ClassPrivateMethod,
			compat.ClassPrivateStaticMethod, compat.ClassStaticBlocks, compat.ClassStaticField, compat.ClassField,
		}
		sparse := func(k int) uint64 {
			var x uint64
			for i := 0; i < k; i++ {
				x |= 1 << uint(r.Intn(64))
			}
			return x
		}
		run := func(browser bool, f, o, m uint64) {
			opts := config.Options{
				UnsupportedJSFeatures:             compat.JSFeature(f),
				UnsupportedJSFeatureOverrides:     compat.JSFeature(o),
				UnsupportedJSFeatureOverridesMask: compat.JSFeature(m),
				Platform:                          config.PlatformNode,
			}
			pl := 0
			if browser {
				opts.Platform = config.PlatformBrowser
				pl = 1
			}
			fired := 0
			for _, t := range triggers {
				if compat.JSFeature(o).Has(t.bit) {
					e.stat("trigger-" + t.name)
					fired++
				}
			}
			switch {
			case fired == 0:
				e.stat("no-trigger")
			case fired > 1:
				e.stat("several-triggers")
			}
			if !browser {
				if compat.JSFeature(m).Has(compat.InlineScript) {
					e.stat("inline-script-overridden")
				} else {
					e.stat("inline-script-default")
				}
			} else {
				e.stat("browser")
			}
			e.emit(fmt.Sprintf("c14facts\tfix\t%d\t%d\t%d\t%d", pl, f, o, m), guard(func() string {
				bundler.VerifApplyOptionDefaults(&opts)
				return fmt.Sprintf("%d %d %d", uint64(opts.UnsupportedJSFeatures), uint64(opts.UnsupportedJSFeatureOverrides), uint64(opts.UnsupportedJSFeatureOverridesMask))
			}))
		}
		guardFeatures := []compat.JSFeature{compat.ForOf, compat.ConstAndLet, compat.ObjectExtensions, compat.ObjectAccessors}
		runRT := func(u uint64) {
			for _, g := range guardFeatures {
				if compat.JSFeature(u).Has(g) {
					e.stat("rt-else-branch")
				} else {
					e.stat("rt-then-branch")
				}
			}
			e.emit(fmt.Sprintf("c14facts\trt\t%d", u), guard(func() string {
				log := logger.NewDeferLog(logger.DeferLogAll, nil)
				js_parser.Parse(log, runtime.Source(compat.JSFeature(u)), js_parser.OptionsFromConfig(&config.Options{
					UnsupportedJSFeatures: compat.JSFeature(u),
					MinifySyntax:          r.Bool(),
					MinifyIdentifiers:     r.Bool(),
					TreeShaking:           true,
				}))
				if log.HasErrors() {
					return "error"
				}
				return "ok"
			}))
		}
		for !e.full() {
			browser := r.Chance(1, 2)
			if r.Chance(1, 12) { // parsing the runtime costs about a millisecond
				switch r.Intn(5) {
				case 0:
					e.stat("gen-rt-random")
					runRT(r.U64())
				case 1: // an ES target
					e.stat("gen-rt-es-target")
					y := 2015 + r.Intn(11)
					if r.Chance(1, 4) {
						y = 5
					}
					runRT(uint64(compat.UnsupportedJSFeatures(map[compat.Engine]compat.Semver{compat.ES: {Parts: []int{y}}})))
				case 2: // every combination of the guard features, plus a few others
					e.stat("gen-rt-guards")
					var u uint64
					for _, g := range guardFeatures {
						if r.Bool() {
							u |= uint64(g)
						}
					}
					runRT(u | sparse(r.Intn(3)))
				case 3: // one feature
					e.stat("gen-rt-single")
					runRT(1 << uint(r.Intn(61)))
				case 4:
					e.stat("gen-rt-boundary")
					b := []uint64{0, ^uint64(0), 1<<61 - 1}
					runRT(b[r.Intn(len(b))])
				}
				continue
			}
			switch r.Intn(8) {
			case 0: // arbitrary words (also bits above the last feature constant)
				e.stat("gen-random")
				run(browser, r.U64(), r.U64(), r.U64())
			case 1: // boundary words
				e.stat("gen-boundary")
				b := []uint64{0, ^uint64(0), 1, 1 << 63, uint64(compat.Class), uint64(compat.InlineScript)}
				run(browser, b[r.Intn(len(b))], b[r.Intn(len(b))], b[r.Intn(len(b))])
			case 2, 3, 4: // what pkg/api produces: overrides ⊆ mask, one to three `supported:X=false` on trigger features,
				// a few `supported:Y=true` on dependents (the invalid configuration the routine repairs)
				e.stat("gen-api-like")
				var o, m uint64
				for i, n := 0, 1+r.Intn(3); i < n; i++ {
					t := triggers[r.Intn(len(triggers))]
					o |= uint64(t.bit)
					m |= uint64(t.bit)
				}
				for i, n := 0, r.Intn(4); i < n; i++ {
					d := dependents[r.Intn(len(dependents))]
					m |= uint64(d) // supported:d=true → in the mask, not in the overrides
					o &^= uint64(d)
				}
				if r.Chance(1, 4) {
					m |= uint64(compat.InlineScript)
					if r.Bool() {
						o |= uint64(compat.InlineScript)
					}
				}
				target := sparse(r.Intn(12))
				if r.Chance(1, 3) {
					target = uint64(compat.UnsupportedJSFeatures(map[compat.Engine]compat.Semver{compat.ES: {Parts: []int{2015 + r.Intn(10)}}}))
				}
				f := uint64(compat.JSFeature(target).ApplyOverrides(compat.JSFeature(o), compat.JSFeature(m)))
				run(browser, f, o, m)
			case 5: // only dependents overridden: nothing may fire
				e.stat("gen-dependents-only")
				var o uint64
				for i, n := 0, 1+r.Intn(4); i < n; i++ {
					o |= uint64(dependents[r.Intn(len(dependents))])
				}
				o &^= uint64(compat.ClassField | compat.ClassStaticField)
				run(browser, sparse(r.Intn(6)), o, o|sparse(2))
			case 6: // sparse independent words
				e.stat("gen-sparse")
				run(browser, sparse(r.Intn(8)), sparse(r.Intn(8)), sparse(r.Intn(8)))
			case 7: // malformed operations: the driver must answer bad-op
				e.stat("gen-malformed")
				bad := []string{
					"c14facts\tfix\t2\t0\t0\t0", "c14facts\tfix\t0\t-1\t0\t0", "c14facts\tfix\t0\t0\t0", "c14facts\tfix\t1\tx\t0\t0",
					"c14facts\tfix\t0\t18446744073709551616\t0\t0", "c14facts", "c14facts\tfix\t0\t0\t0\t0\t0", "c14facts\tfix",
					"c14facts\trt", "c14facts\trt\t-3", "c14facts\trt\t18446744073709551616", "c14facts\trt\t1\t2", "c14facts\tzz\t1",
				}
				e.emit(bad[r.Intn(len(bad))], "bad-op")
			}
		}
	}
}
