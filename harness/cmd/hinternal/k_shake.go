package main

import (
	"fmt"
	"os"
	"path/filepath"
	"strconv"
	"strings"

	"github.com/evanw/esbuild/internal/linker"
	"github.com/evanw/esbuild/pkg/api"
	"github.com/evanw/esbuild/verifharness/gen"
)

// kernel "shake": real bundles are built with the tree-shaking observation hook installed; the hook reports
// the linker's part graph (flags, dependencies, statement-level imports) together with the IsLive marks it
// computed. The part graph goes to the Lean model (Impl/Shake.lean), which recomputes the marks.

func b01(b bool) string {
	if b {
		return "1"
	}
	return "0"
}

func dots(xs []int) string {
	if len(xs) == 0 {
		return "."
	}
	s := []string{}
	for _, x := range xs {
		s = append(s, strconv.Itoa(x))
	}
	return strings.Join(s, ".")
}

func shakeOpAndExpected(d linker.VerifShakeDump) (string, string, int) {
	fileIdx := map[int]int{}
	for i, f := range d.Files {
		fileIdx[f.SourceIndex] = i
	}
	partBase := map[int]int{}
	np := 0
	for _, f := range d.Files {
		partBase[f.SourceIndex] = np
		np += len(f.Parts)
	}
	ents := []string{}
	for _, e := range d.EntryPoints {
		ents = append(ents, strconv.Itoa(fileIdx[e]))
	}
	files := []string{}
	parts := []string{}
	liveF := []string{}
	liveP := []string{}
	for i, f := range d.Files {
		css := "n"
		if f.CSSSourceIndex >= 0 {
			css = strconv.Itoa(fileIdx[f.CSSSourceIndex])
		}
		ci := []int{}
		for _, g := range f.CSSImports {
			ci = append(ci, fileIdx[g])
		}
		files = append(files, fmt.Sprintf("%s,%s,%s", b01(f.IsEntryPoint), css, dots(ci)))
		if f.IsLive {
			liveF = append(liveF, strconv.Itoa(i))
		}
		for pi, p := range f.Parts {
			deps := []int{}
			for _, dp := range p.Deps {
				if _, ok := fileIdx[dp[0]]; !ok {
					continue // the runtime file is not part of the dump
				}
				deps = append(deps, partBase[dp[0]]+dp[1])
			}
			imps := []string{}
			for _, im := range p.StmtImports {
				t := "x"
				if im.Target >= 0 {
					if _, ok := fileIdx[im.Target]; !ok {
						continue
					}
					t = strconv.Itoa(fileIdx[im.Target])
				}
				imps = append(imps, fmt.Sprintf("%s:%s:%s", t, b01(im.SideEffects), b01(im.ExternalNoSideEffects)))
			}
			is := "."
			if len(imps) > 0 {
				is = strings.Join(imps, "+")
			}
			parts = append(parts, fmt.Sprintf("%d,%s,%s,%s,%s", i, b01(p.CanBeRemovedIfUnused), b01(p.ForceTreeShaking), dots(deps), is))
			if p.IsLive {
				liveP = append(liveP, strconv.Itoa(partBase[f.SourceIndex]+pi))
			}
		}
	}
	j := func(xs []string, sep string) string {
		if len(xs) == 0 {
			return "-"
		}
		return strings.Join(xs, sep)
	}
	op := fmt.Sprintf("shake\t%s\t%s\t%s\t%s\t%s", b01(d.TreeShaking), b01(d.IgnoreDCEAnnotations), j(ents, ","), j(files, ";"), j(parts, ";"))
	return op, "files=" + j(liveF, ",") + " parts=" + j(liveP, ","), np
}

func init() {
	kernels["shake"] = func(r *gen.Rand, e *emitter, tier string) {
		dir, err := os.MkdirTemp("", "verif-shake-")
		if err != nil {
			panic(err)
		}
		defer os.RemoveAll(dir)
		for !e.full() {
			var g *gen.Graph
			ents := 1
			switch r.Intn(3) {
			case 0:
				g = gen.GenShakeGraph(r, gen.ShakeOpts{Modules: 1 + r.Intn(4), EmptyFunc: r.Bool()})
				e.stat("graph:shake-templates")
			default:
				ents = 1 + r.Intn(2)
				g = gen.GenGraph(r, gen.GraphOpts{Modules: ents + r.Intn(6), Entries: ents, AllowCJS: r.Chance(1, 3), AllowDyn: r.Chance(1, 3), AllowCycle: r.Bool(), AllowStar: r.Bool(), SideEffectFreeDecls: true, PkgSideEffectsFalse: r.Chance(1, 2), AvoidInPlaceOrder: true})
				e.stat("graph:module-graph")
			}
			if r.Chance(1, 4) {
				g.Files["st.css"] = "@import \"./st2.css\";\n.a { color: red }\n"
				g.Files["st2.css"] = ".b { color: blue }\n"
				g.Files[g.Entries[0]] = "import \"./st.css\";\n" + g.Files[g.Entries[0]]
				e.stat("graph:css")
			}
			if r.Chance(1, 5) {
				g.Files[g.Entries[0]] = "import \"ext-pkg\";\nimport { extv } from \"ext-pkg2\";\n" + g.Files[g.Entries[0]]
				e.stat("graph:external")
			}
			os.RemoveAll(dir)
			for rel, c := range g.Files {
				p := filepath.Join(dir, rel)
				os.MkdirAll(filepath.Dir(p), 0755)
				os.WriteFile(p, []byte(c), 0644)
			}
			bo := api.BuildOptions{AbsWorkingDir: dir, EntryPoints: g.Entries[:ents], Bundle: true, Outdir: "out", Write: false, LogLevel: api.LogLevelSilent,
				Format: api.FormatESModule, External: []string{"ext-pkg", "ext-pkg2"}}
			switch r.Intn(5) {
			case 0:
				bo.TreeShaking = api.TreeShakingFalse
				e.stat("opt:shake=false")
			case 1:
				bo.IgnoreAnnotations = true
				e.stat("opt:ignore-annotations")
			case 2:
				bo.Format = api.FormatCommonJS
				bo.MinifySyntax = true
			case 3:
				bo.Splitting = ents > 1
				bo.MinifySyntax = r.Bool()
			}
			var dump *linker.VerifShakeDump
			linker.VerifSetTreeShakingObserver(func(d linker.VerifShakeDump) { dd := d; dump = &dd })
			res := api.Build(bo)
			linker.VerifSetTreeShakingObserver(nil)
			if dump == nil {
				e.stat("no-dump")
				if len(res.Errors) > 0 {
					e.stat("build-error")
				}
				continue
			}
			op, exp, np := shakeOpAndExpected(*dump)
			e.stat(fmt.Sprintf("files=%d", len(dump.Files)))
			if np > 40 {
				e.stat("parts>40")
			}
			if strings.Count(exp, ",") < np-1 {
				e.stat("out:some-part-dead")
			}
			e.emit(op, exp)
		}
	}
}
