package main

import (
	"encoding/json"
	"fmt"
	"os"
	"path/filepath"
	"sort"
	"strings"

	"github.com/evanw/esbuild/internal/linker"
	"github.com/evanw/esbuild/pkg/api"
	"github.com/evanw/esbuild/verifharness/gen"
)

// kernel "cjswrap": real builds (api.Build) with the exports observation hook installed. The hook reports, after
// scanImportsAndExports, every reachable JS file (the runtime included) with the read-only inputs of steps 1-2
// (import records, export-star records, entry-point / lazy-export / export-keyword bits, the options) and the
// results (ExportsKind, Wrap, DidWrapDependencies, ForceIncludeExportsForEntryPoint, NeedsExportsVariable).
// The ExportsKind BEFORE linking is taken from the metafile ("format" of every input is written by the bundler
// from the parser's AST before the linker clones it). The Lean model (Impl/CjsWrap.lean) recomputes the results.

type cwMeta struct {
	Inputs map[string]struct {
		Format string `json:"format"`
	} `json:"inputs"`
}

// cjsWrapOpAndExpected turns a dump into the operation line and the expected answer ("" = not expressible, skip)
func cjsWrapOpAndExpected(d linker.VerifExportsDump, metafile string, stat func(string)) (string, string) {
	var meta cwMeta
	if err := json.Unmarshal([]byte(metafile), &meta); err != nil || meta.Inputs == nil {
		stat("skip:no-metafile")
		return "", ""
	}
	// table positions: ascending source index (position 0 is the runtime)
	byIndex := append([]linker.VerifWrapFile{}, d.WrapFiles...)
	sort.Slice(byIndex, func(i, j int) bool { return byIndex[i].SourceIndex < byIndex[j].SourceIndex })
	pos := map[int]int{}
	for i, f := range byIndex {
		pos[f.SourceIndex] = i
	}
	order := []string{}
	for _, f := range d.WrapFiles {
		order = append(order, fmt.Sprint(pos[f.SourceIndex]))
	}
	entries := []string{}
	files := []string{}
	results := []string{}
	j := func(xs []string) string {
		if len(xs) == 0 {
			return "-"
		}
		return strings.Join(xs, ",")
	}
	for i, f := range byIndex {
		var kind string
		if f.IsRuntime {
			if f.ExportsKind != 2 {
				stat("skip:runtime-not-esm")
				return "", ""
			}
			kind = "e"
		} else if in, ok := meta.Inputs[f.Path]; !ok {
			stat("skip:not-in-metafile")
			return "", ""
		} else {
			switch in.Format {
			case "cjs":
				kind = "c"
			case "esm":
				kind = "e"
			default:
				kind = "n"
			}
		}
		stat("initial-kind:" + kind)
		if f.IsUserEntryPoint {
			entries = append(entries, fmt.Sprint(i))
		}
		recs := []string{}
		for _, rc := range f.Records {
			k := "o"
			switch rc.Kind {
			case 1:
				k = "s"
			case 2:
				k = "r"
			case 3:
				k = "d"
			}
			t := "x"
			if rc.Target >= 0 {
				p, ok := pos[rc.Target]
				if !ok || !rc.TargetIsJS {
					stat("skip:target-not-js")
					return "", ""
				}
				t = fmt.Sprint(p)
				stat("record:" + k + map[bool]string{true: "+ns", false: ""}[rc.Star || rc.DefaultAlias])
				if rc.Target == f.SourceIndex {
					stat("record:self")
				}
				if byIndex[p].IsRuntime {
					stat("record:to-runtime")
				}
				if byIndex[p].IsEntryPoint {
					stat("record:to-entry-point")
				}
			} else {
				stat("record:external-" + k)
			}
			recs = append(recs, fmt.Sprintf("%s:%s:%s:%s", k, t, b01(rc.Star), b01(rc.DefaultAlias)))
		}
		stars := []string{}
		for _, s := range f.ExportStarRecords {
			stars = append(stars, fmt.Sprint(s))
			if s >= 0 && s < len(f.Records) {
				if tg := f.Records[s].Target; tg < 0 {
					stat("star:external")
				} else if tg == f.SourceIndex {
					stat("star:self")
				} else {
					stat("star:internal")
				}
			}
		}
		files = append(files, fmt.Sprintf("%s;%s%s%s%s;%s;%s", kind, b01(f.IsRuntime), b01(f.IsEntryPoint), b01(f.HasLazyExport), b01(f.HasExportKeyword), j(recs), j(stars)))
		rk := "nced"[f.ExportsKind : f.ExportsKind+1]
		rw := "NCE"[f.Wrap : f.Wrap+1]
		results = append(results, fmt.Sprintf("%s:%s:%s:%s:%s", rk, rw, b01(f.DidWrapDependencies), b01(f.ForceIncludeExports), b01(f.NeedsExportsVariable)))
		// branch statistics on the real result
		if !f.IsRuntime {
			stat("result:kind-" + kind + "->" + rk)
			stat("result:wrap-" + rw)
			if f.IsEntryPoint {
				stat("result:entry-wrap-" + rw + "-kind-" + rk)
			}
			if f.IsEntryPoint && !f.IsUserEntryPoint {
				stat("file:dynamic-import-entry-point")
			}
			if f.HasLazyExport {
				stat("file:lazy-export-kind-" + kind + "->" + rk)
			}
			if f.DidWrapDependencies && !f.IsRuntime {
				stat("result:did-wrap-dependencies")
			}
			if f.ForceIncludeExports {
				stat("result:force-include-exports")
			}
			if f.NeedsExportsVariable {
				stat("result:needs-exports-variable")
			} else {
				stat("result:no-exports-variable")
			}
		} else if f.DidWrapDependencies {
			stat("result:runtime-reached-by-wrapping")
		}
	}
	o := d.WrapOpts
	op := fmt.Sprintf("cjswrap\tlink\t%d:%d:%s:%s\t%s\t%s\t%s", o.OutputFormat, o.Mode, b01(o.CodeSplitting), b01(o.HasGlobalName), j(entries), j(order), strings.Join(files, "|"))
	return op, strings.Join(results, "|")
}

func init() {
	kernels["cjswrap"] = func(r *gen.Rand, e *emitter, tier string) {
		dir, err := os.MkdirTemp("", "verif-cjswrap-")
		if err != nil {
			panic(err)
		}
		defer os.RemoveAll(dir)
		for !e.full() {
			// malformed operations and synthetic tables that make the Go code index out of range (model: PANIC);
			// the latter have no real run behind them, they only pin the model's answer
			if r.Chance(1, 60) {
				bads := [][2]string{{"cjswrap\tlink\t3:2:0:0\t0\t0", "bad-op"}, {"cjswrap\tlink\t4:2:0:0\t0\t0\te;0100;-;-", "bad-op"},
					{"cjswrap\tlink\t3:2:0:0\t0\t0\tq;0100;-;-", "bad-op"}, {"cjswrap\tlink\t3:2:0:0\t0\t0\te;010;-;-", "bad-op"},
					{"cjswrap\tlink\t3:2:0:0\t0\t0\te;0100;s:0:1;-", "bad-op"}, {"cjswrap\tlink\t3:2:0:0\t0\t0\te;0100;z:0:1:0;-", "bad-op"},
					{"cjswrap\tlink\t3:2:0:0\ta\t0\te;0100;-;-", "bad-op"}, {"cjswrap\tnope", "bad-op"},
					{"cjswrap\tlink\t3:2:0:0\t0\t0\te;0100;r:1:0:0;-", "PANIC"}, {"cjswrap\tlink\t3:2:0:0\t1\t0\te;0100;-;-", "PANIC"},
					{"cjswrap\tlink\t3:2:0:0\t0\t0,1\te;0100;-;-", "PANIC"}, {"cjswrap\tlink\t3:2:0:0\t0\t0\te;0101;-;0", "PANIC"}}
				b := bads[r.Intn(len(bads))]
				e.emit(b[0], b[1])
				e.stat("synthetic:" + b[1])
				continue
			}
			bo := api.BuildOptions{AbsWorkingDir: dir, Bundle: true, Outdir: "out", Write: false, LogLevel: api.LogLevelSilent,
				Format: api.FormatESModule, External: []string{"ext-pkg"}, Metafile: true}
			switch r.Intn(8) {
			case 0, 1:
				bo.Format = api.FormatCommonJS
			case 2:
				bo.Format = api.FormatIIFE
			case 3:
				bo.Format = api.FormatIIFE
				bo.GlobalName = "G"
			case 4, 5:
				bo.Splitting = true
			}
			if r.Chance(1, 3) {
				bo.Target = api.ES2016 // async functions are lowered with a runtime helper
			}
			g := genCjsWrapGraph(r, bo.Format == api.FormatESModule && bo.Target != api.ES2016, bo.Format == api.FormatCommonJS && r.Chance(1, 2))
			bo.EntryPoints = g.entries
			if r.Chance(1, 12) {
				// no bundling: one file goes through the linker alone (convert-format / pass-through mode)
				bo.Bundle, bo.Splitting, bo.External = false, false, nil
				bo.EntryPoints = g.entries[:1]
				if r.Chance(1, 3) {
					bo.Format = api.FormatDefault
				}
				if r.Chance(1, 2) {
					for p := range g.files {
						if strings.HasSuffix(p, ".json") || strings.HasSuffix(p, ".txt") {
							bo.EntryPoints = []string{p}
						}
					}
				}
				e.stat("build:no-bundle")
			}
			os.RemoveAll(dir)
			for rel, c := range g.files {
				p := filepath.Join(dir, rel)
				os.MkdirAll(filepath.Dir(p), 0755)
				os.WriteFile(p, []byte(c), 0644)
			}
			var dump *linker.VerifExportsDump
			linker.VerifSetExportsObserver(func(d linker.VerifExportsDump) { dd := d; dump = &dd })
			res := api.Build(bo)
			linker.VerifSetExportsObserver(nil)
			if dump == nil {
				e.stat("no-dump")
				if len(res.Errors) > 0 {
					e.stat("no-dump:" + res.Errors[0].Text)
				}
				continue
			}
			if len(res.Errors) > 0 {
				e.stat("build:link-error")
				e.stat("build:link-error:" + res.Errors[0].Text)
			} else {
				e.stat("build:ok")
			}
			op, exp := cjsWrapOpAndExpected(*dump, res.Metafile, e.stat)
			if op == "" {
				continue
			}
			for k, v := range g.stats {
				e.stats[k] += v
			}
			e.stat(fmt.Sprintf("opts:format=%d,mode=%d,splitting=%v,global=%v", dump.WrapOpts.OutputFormat, dump.WrapOpts.Mode, dump.WrapOpts.CodeSplitting, dump.WrapOpts.HasGlobalName))
			e.stat(fmt.Sprintf("files=%d", len(dump.WrapFiles)))
			e.emit(op, exp)
			// the hypotheses of the theorems of Props/C02Wrap.lean (well-formed, fresh, ReachableFiles covers the table,
			// the runtime is ESM, no file starts as dynamic-fallback), evaluated by the driver on the real table
			if r.Chance(1, 4) && !e.full() {
				e.emit("cjswrap\thyp\t"+strings.SplitN(op, "\t", 3)[2], "ok")
				e.stat("hypotheses-checked")
			}
		}
	}
}
