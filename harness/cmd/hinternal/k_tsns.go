package main

import (
	"fmt"
	"strconv"
	"strings"

	"github.com/evanw/esbuild/internal/ast"
	"github.com/evanw/esbuild/internal/compat"
	"github.com/evanw/esbuild/internal/config"
	"github.com/evanw/esbuild/internal/helpers"
	"github.com/evanw/esbuild/internal/js_ast"
	"github.com/evanw/esbuild/internal/js_parser"
	"github.com/evanw/esbuild/internal/logger"
	"github.com/evanw/esbuild/verifharness/gen"
)

// kernel "tsns": how esbuild compiles TypeScript namespaces and enums (closures, export rewriting, merging).
// A program of the model's source language (Spec/TsNsSyntax.lean) is generated, printed as TypeScript, parsed
// and visited by the REAL js_parser.Parse (TypeScript on; minify-syntax, arrow / let+const / logical-assignment
// support drawn per case); the statements of the resulting AST are written as a canonical token text in which
// every symbol is `name#k` (k = order of first occurrence, symbol links followed; unbound symbols by name only).
// The model (Impl/TsNs.lean `compile`) must print the same text, or `error` when the parser reports an error.

type tnExpr struct {
	k    byte // n s i d a p c
	n    int
	s    string
	a, b *tnExpr
}

type tnMember struct {
	k        byte // L F N E X I T D
	kind     byte // v l c
	exported bool
	dotted   bool
	name     string
	init     *tnExpr
	body     []*tnMember
	vals     []tnEnumVal
	head     string
	path     []string
}

type tnEnumVal struct {
	name string
	init *tnExpr
}

func (e *tnExpr) wire(sb *strings.Builder) {
	switch e.k {
	case 'n':
		fmt.Fprintf(sb, "n %d ", e.n)
	case 's':
		fmt.Fprintf(sb, "s '%s ", e.s)
	case 'i':
		fmt.Fprintf(sb, "i %s ", e.s)
	case 'd':
		sb.WriteString("d ")
		e.a.wire(sb)
		sb.WriteString(e.s + " ")
	case 'a':
		sb.WriteString("a ")
		e.a.wire(sb)
		e.b.wire(sb)
	case 'p':
		fmt.Fprintf(sb, "p '%s ", e.s)
		e.a.wire(sb)
	case 'c':
		sb.WriteString("c ")
		e.a.wire(sb)
	}
}

func (e *tnExpr) ts() string {
	switch e.k {
	case 'n':
		return strconv.Itoa(e.n)
	case 's':
		return "\"" + e.s + "\""
	case 'i':
		return e.s
	case 'd':
		return e.a.ts() + "." + e.s
	case 'a':
		return "(" + e.a.ts() + " + " + e.b.ts() + ")"
	case 'p':
		return "p(\"" + e.s + "\", " + e.a.ts() + ")"
	case 'c':
		return e.a.ts() + "()"
	}
	return "?"
}

func tnWireMembers(ms []*tnMember, sb *strings.Builder) {
	sb.WriteString("[ ")
	for _, m := range ms {
		switch m.k {
		case 'L':
			fmt.Fprintf(sb, "L %c %s %s ", m.kind, b01(m.exported), m.name)
			if m.init == nil {
				sb.WriteString("- ")
			} else {
				m.init.wire(sb)
			}
		case 'F':
			fmt.Fprintf(sb, "F %s %s ", b01(m.exported), m.name)
			m.init.wire(sb)
		case 'N':
			fmt.Fprintf(sb, "N %s %s %s ", b01(m.exported), b01(m.dotted), m.name)
			tnWireMembers(m.body, sb)
		case 'E':
			fmt.Fprintf(sb, "E %s %s [ ", b01(m.exported), m.name)
			for _, v := range m.vals {
				sb.WriteString(v.name + " ")
				if v.init == nil {
					sb.WriteString("- ")
				} else {
					v.init.wire(sb)
				}
			}
			sb.WriteString("] ")
		case 'X':
			sb.WriteString("X ")
			m.init.wire(sb)
		case 'I':
			fmt.Fprintf(sb, "I %s %s [ ", m.name, m.head)
			for _, p := range m.path {
				sb.WriteString(p + " ")
			}
			sb.WriteString("] ")
		case 'T':
			fmt.Fprintf(sb, "T %s ", b01(m.exported))
		case 'D':
			sb.WriteString("D ")
		}
	}
	sb.WriteString("] ")
}

var tnTypeNo int

func tnPrintMembers(ms []*tnMember, indent string, sb *strings.Builder) {
	for _, m := range ms {
		ex := ""
		if m.exported {
			ex = "export "
		}
		switch m.k {
		case 'L':
			kw := map[byte]string{'v': "var", 'l': "let", 'c': "const"}[m.kind]
			if m.init == nil {
				fmt.Fprintf(sb, "%s%s%s %s;\n", indent, ex, kw, m.name)
			} else {
				fmt.Fprintf(sb, "%s%s%s %s = %s;\n", indent, ex, kw, m.name, m.init.ts())
			}
		case 'F':
			fmt.Fprintf(sb, "%s%sfunction %s() { return %s; }\n", indent, ex, m.name, m.init.ts())
		case 'N':
			name := m.name
			body := m.body
			for len(body) == 1 && body[0].k == 'N' && body[0].dotted {
				name += "." + body[0].name
				body = body[0].body
			}
			fmt.Fprintf(sb, "%s%snamespace %s {\n", indent, ex, name)
			tnPrintMembers(body, indent+"  ", sb)
			fmt.Fprintf(sb, "%s}\n", indent)
		case 'E':
			fmt.Fprintf(sb, "%s%senum %s {\n", indent, ex, m.name)
			for _, v := range m.vals {
				if v.init == nil {
					fmt.Fprintf(sb, "%s  %s,\n", indent, v.name)
				} else {
					fmt.Fprintf(sb, "%s  %s = %s,\n", indent, v.name, v.init.ts())
				}
			}
			fmt.Fprintf(sb, "%s}\n", indent)
		case 'X':
			fmt.Fprintf(sb, "%s%s;\n", indent, m.init.ts())
		case 'I':
			fmt.Fprintf(sb, "%sexport import %s = %s;\n", indent, m.name, strings.Join(append([]string{m.head}, m.path...), "."))
		case 'T':
			tnTypeNo++
			if tnTypeNo%2 == 0 {
				fmt.Fprintf(sb, "%s%stype T%d = number;\n", indent, ex, tnTypeNo)
			} else {
				fmt.Fprintf(sb, "%s%sinterface T%d { x: number }\n", indent, ex, tnTypeNo)
			}
		case 'D':
			tnTypeNo++
			fmt.Fprintf(sb, "%sexport declare function dg%d(): void;\n", indent, tnTypeNo)
		}
	}
}

// TypeScript's rule: a namespace is instantiated unless it holds only types and uninstantiated namespaces
func tnInstantiated(ms []*tnMember) bool {
	for _, m := range ms {
		switch m.k {
		case 'T':
		case 'N':
			if tnInstantiated(m.body) {
				return true
			}
		default:
			return true
		}
	}
	return false
}

// ---- generator -------------------------------------------------------------------------------------------

type tnGen struct {
	r      *gen.Rand
	ms     bool
	let    bool
	e      *emitter
	probes int
	inEnum bool
	topEnum bool
	enumUsed map[string]bool // tame: member names of an enum name are distinct over all its blocks (TS2300)
	wild   bool // also draw shapes the model calls an error (redeclarations)
	tame   bool // values stay primitives where the evaluators need it (kernel tsnsrun)
}

var tnLower = []string{"a", "b", "c", "d", "f", "g"}
var tnUpper = []string{"N", "M", "K", "E"}
var tnEnumNames = []string{"A", "B", "C", "D"}

var tnVars = []string{"a", "b", "c", "d"}
var tnFuncs = []string{"f", "g"}

func (g *tnGen) tamePath(last []string) *tnExpr {
	r := g.r
	e := &tnExpr{k: 'i', s: r.Pick(tnUpper)}
	for n := r.Intn(2); n > 0; n-- {
		e = &tnExpr{k: 'd', a: e, s: r.Pick(tnUpper)}
	}
	return &tnExpr{k: 'd', a: e, s: r.Pick(last)}
}

func (g *tnGen) atom() *tnExpr {
	r := g.r
	if g.tame {
		switch r.Intn(8) {
		case 0:
			return &tnExpr{k: 'n', n: r.Intn(12)}
		case 1:
			return &tnExpr{k: 's', s: []string{"", "x", "y", "s:a"}[r.Intn(4)]}
		case 2, 3, 4:
			return &tnExpr{k: 'i', s: r.Pick(tnVars)}
		case 5:
			return &tnExpr{k: 'i', s: r.Pick(tnEnumNames)}
		case 6:
			return g.tamePath(tnEnumNames)
		default:
			return g.tamePath(tnVars)
		}
	}
	switch r.Intn(10) {
	case 0, 1:
		n := []int{0, 1, 2, 3, 5, 7, 10, 100, 65535, 2147483647, 2147483648, 4294967295, 4294967296}[r.Intn(13)]
		if n > 4294967295 && g.ms && !g.inEnum {
			n = 4294967295 // larger numbers are folded only inside the const-local prefix (not modelled)
		}
		return &tnExpr{k: 'n', n: n}
	case 2:
		return &tnExpr{k: 's', s: []string{"", "x", "y", "s:a", "0"}[r.Intn(5)]}
	case 3, 4, 5:
		return &tnExpr{k: 'i', s: r.Pick(tnLower)}
	case 6:
		return &tnExpr{k: 'i', s: r.Pick(tnUpper)}
	case 7:
		return &tnExpr{k: 'i', s: r.Pick(tnEnumNames)}
	default:
		// a path: N.a, N.M.b, E.A
		e := &tnExpr{k: 'i', s: r.Pick(tnUpper)}
		for n := 1 + r.Intn(2); n > 0; n-- {
			pool := tnLower
			switch r.Intn(3) {
			case 0:
				pool = tnUpper
			case 1:
				pool = tnEnumNames
			}
			e = &tnExpr{k: 'd', a: e, s: r.Pick(pool)}
		}
		return e
	}
}

func (g *tnGen) expr(depth int, inEnum bool) *tnExpr {
	r := g.r
	if depth <= 0 {
		return g.atom()
	}
	switch r.Intn(10) {
	case 0, 1:
		if g.tame { // `+` only on constants: literals and enum members
			lit := func() *tnExpr {
				if r.Bool() {
					return &tnExpr{k: 'n', n: r.Intn(9)}
				}
				if inEnum && r.Bool() {
					return &tnExpr{k: 'i', s: r.Pick(tnEnumNames)}
				}
				return &tnExpr{k: 's', s: []string{"x", "", "q"}[r.Intn(3)]}
			}
			if !inEnum {
				return g.atom()
			}
			a, b := lit(), lit()
			if a.k == 'i' || b.k == 'i' { // a member that is not defined yet is `undefined`: keep the sum a string
				if r.Bool() {
					a = &tnExpr{k: 's', s: "w"}
				} else {
					b = &tnExpr{k: 's', s: "w"}
				}
			}
			return &tnExpr{k: 'a', a: a, b: b}
		}
		return &tnExpr{k: 'a', a: g.expr(depth-1, inEnum), b: g.expr(depth-1, inEnum)}
	case 2:
		g.probes++
		return &tnExpr{k: 'p', s: fmt.Sprintf("t%d", g.probes), a: g.expr(depth-1, inEnum)}
	case 3:
		if g.tame && g.inEnum && g.topEnum {
			// known difference (reported): a module-level enum is bound only after its closure returns, a function
			// called from an initialiser that reads the enum by name sees undefined
			return g.atom()
		}
		if g.tame {
			if r.Bool() {
				return &tnExpr{k: 'c', a: &tnExpr{k: 'i', s: r.Pick(tnFuncs)}}
			}
			return &tnExpr{k: 'c', a: g.tamePath(tnFuncs)}
		}
		return &tnExpr{k: 'c', a: g.atom()}
	default:
		return g.atom()
	}
}

// an initialiser that is certainly not a compile-time constant
func (g *tnGen) nonConstInit() *tnExpr {
	g.probes++
	return &tnExpr{k: 'p', s: fmt.Sprintf("t%d", g.probes), a: g.expr(1, false)}
}

func (g *tnGen) enumVals(self string) []tnEnumVal {
	r := g.r
	n := r.Intn(5)
	vals := []tnEnumVal{}
	used := map[string]bool{}
	for i := 0; i < n; i++ {
		name := r.Pick(tnEnumNames)
		if r.Chance(1, 8) && !g.tame {
			name = self
		} else if r.Chance(1, 8) && !g.tame {
			name = r.Pick(tnLower)
		}
		if used[name] && !(g.wild && r.Chance(1, 6)) {
			continue
		}
		if g.tame {
			if g.enumUsed == nil {
				g.enumUsed = map[string]bool{}
			}
			if g.enumUsed[self+"."+name] {
				continue
			}
			g.enumUsed[self+"."+name] = true
		}
		used[name] = true
		v := tnEnumVal{name: name}
		switch r.Intn(6) {
		case 0, 1:
		case 2:
			v.init = &tnExpr{k: 'n', n: r.Intn(12)}
		case 3:
			v.init = &tnExpr{k: 's', s: []string{"s", "", "q:" + name}[r.Intn(3)]}
		default:
			g.inEnum = true
			v.init = g.expr(2, true)
			g.inEnum = false
		}
		vals = append(vals, v)
	}
	return vals
}

func (g *tnGen) members(depth int, top bool, selfName string) []*tnMember {
	r := g.r
	n := r.Intn(6)
	if top {
		n = 2 + r.Intn(5)
	}
	out := []*tnMember{}
	used := map[string]bool{} // lower-case names declared here (no duplicates unless wild)
	nsNames := map[string]bool{}
	expOf := map[string]bool{} // tame: all blocks of a name agree on `export` (TS2395)
	tameName := func(name string, exp bool) (bool, bool) {
		if !g.tame {
			return exp, true
		}
		if name == selfName {
			// known difference (reported): a sibling block's export named like the namespace itself
			return exp, false
		}
		if e, ok := expOf[name]; ok {
			return e, true
		}
		expOf[name] = exp
		return exp, true
	}
	for i := 0; i < n; i++ {
		exp := !top && r.Chance(3, 5)
		switch r.Intn(13) {
		case 0, 1, 2:
			name := r.Pick(tnLower)
			if g.tame {
				name = r.Pick(tnVars)
			} else if !top && r.Chance(1, 10) {
				name = selfName
			}
			if used[name] && !(g.wild && r.Chance(1, 4)) {
				continue
			}
			used[name] = true
			m := &tnMember{k: 'L', exported: exp, name: name, kind: 'v'}
			if g.let {
				m.kind = "vlc"[r.Intn(3)]
			}
			if g.ms && !exp {
				m.kind = 'v'
			}
			if r.Chance(4, 5) || m.kind == 'c' {
				if g.ms && m.kind == 'c' {
					m.init = g.nonConstInit()
				} else {
					m.init = g.expr(1, false)
				}
			}
			if g.wild && r.Chance(1, 12) && m.kind == 'c' {
				m.init = nil
			}
			out = append(out, m)
		case 3, 4:
			name := r.Pick(tnLower)
			if g.tame {
				name = r.Pick(tnFuncs)
			}
			if used[name] {
				continue
			}
			used[name] = true
			body := g.expr(1, false)
			if g.tame {
				body = g.atom() // no calls inside functions: no recursion
			}
			out = append(out, &tnMember{k: 'F', exported: exp, name: name, init: body})
		case 5, 6, 7:
			name := r.Pick(tnUpper)
			if g.wild && r.Chance(1, 20) {
				name = r.Pick(tnLower)
			}
			var okName bool
			if exp, okName = tameName(name, exp); !okName {
				continue
			}
			m := &tnMember{k: 'N', exported: exp, name: name}
			nsNames[name] = true
			if depth > 0 {
				m.body = g.members(depth-1, false, name)
			}
			// dotted spelling: exactly one member, an exported namespace
			if len(m.body) == 1 && m.body[0].k == 'N' && m.body[0].exported && r.Chance(2, 3) {
				m.body[0].dotted = true
			}
			out = append(out, m)
		case 8, 9:
			name := r.Pick(tnUpper)
			if g.tame && !top && nsNames[name] && g.let {
				// known difference (reported): inside a namespace an enum block after a namespace block of the same
				// name is declared too late (temporal dead zone); not generated for the behaviour kernel
				continue
			}
			var okName bool
			if exp, okName = tameName(name, exp); !okName {
				continue
			}
			g.topEnum = top
			out = append(out, &tnMember{k: 'E', exported: exp, name: name, vals: g.enumVals(name)})
		case 10:
			var e *tnExpr
			if r.Bool() {
				g.probes++
				e = &tnExpr{k: 'p', s: fmt.Sprintf("t%d", g.probes), a: g.expr(1, false)}
			} else if g.tame {
				e = g.expr(1, false)
				g.probes++
				e = &tnExpr{k: 'p', s: fmt.Sprintf("t%d", g.probes), a: e}
			} else {
				e = &tnExpr{k: 'c', a: g.atom()}
			}
			out = append(out, &tnMember{k: 'X', init: e})
		case 11:
			if top || g.ms || g.tame { // under minify an alias of an enum constant becomes an inlined const (not modelled)
				continue
			}
			name := r.Pick(tnLower)
			if used[name] {
				continue
			}
			used[name] = true
			m := &tnMember{k: 'I', exported: true, name: name, head: r.Pick(tnUpper)}
			for k := r.Intn(3); k > 0; k-- {
				pool := tnUpper
				if r.Bool() {
					pool = tnLower
				}
				m.path = append(m.path, r.Pick(pool))
			}
			out = append(out, m)
		default:
			if r.Bool() || top {
				out = append(out, &tnMember{k: 'T', exported: exp})
			} else {
				out = append(out, &tnMember{k: 'D', exported: true})
			}
		}
	}
	return out
}

// ---- the real parser and the canonical text of its AST -----------------------------------------------------

type tnSer struct {
	syms []ast.Symbol
	seen map[ast.Ref]int
	tok  []string
	bad  string
}

func (s *tnSer) ref(r ast.Ref) string {
	for s.syms[r.InnerIndex].Link != ast.InvalidRef {
		r = s.syms[r.InnerIndex].Link
	}
	sym := s.syms[r.InnerIndex]
	if sym.Kind == ast.SymbolUnbound {
		return sym.OriginalName
	}
	k, ok := s.seen[r]
	if !ok {
		k = len(s.seen)
		s.seen[r] = k
	}
	return fmt.Sprintf("%s#%d", sym.OriginalName, k)
}

func (s *tnSer) w(t ...string) { s.tok = append(s.tok, t...) }

func (s *tnSer) binary(op string, e *js_ast.EBinary) {
	s.w("(" + op)
	s.expr(e.Left)
	s.expr(e.Right)
	s.w(")")
}

func (s *tnSer) expr(x js_ast.Expr) {
	switch e := x.Data.(type) {
	case *js_ast.ENumber:
		if e.Value == float64(int64(e.Value)) {
			s.w(strconv.FormatInt(int64(e.Value), 10))
		} else {
			s.w(fmt.Sprintf("%v", e.Value))
		}
	case *js_ast.EString:
		s.w("\"" + helpers.UTF16ToString(e.Value) + "\"")
	case *js_ast.EUndefined:
		s.w("undef")
	case *js_ast.EIdentifier:
		s.w(s.ref(e.Ref))
	case *js_ast.EDot:
		s.w("(.")
		s.expr(e.Target)
		s.w(e.Name, ")")
	case *js_ast.EIndex:
		s.w("([]")
		s.expr(e.Target)
		s.expr(e.Index)
		s.w(")")
	case *js_ast.EBinary:
		switch e.Op {
		case js_ast.BinOpAssign:
			s.binary("=", e)
		case js_ast.BinOpLogicalOr:
			s.binary("||", e)
		case js_ast.BinOpLogicalOrAssign:
			s.binary("||=", e)
		case js_ast.BinOpAdd:
			s.binary("+", e)
		case js_ast.BinOpComma:
			s.binary(",", e)
		default:
			s.bad = fmt.Sprintf("binary op %d", e.Op)
		}
	case *js_ast.EObject:
		if len(e.Properties) != 0 {
			s.bad = "object with properties"
		}
		s.w("{}")
	case *js_ast.ECall:
		if e.CanBeUnwrappedIfUnused {
			s.w("(call!")
		} else {
			s.w("(call")
		}
		s.expr(e.Target)
		for _, a := range e.Args {
			s.expr(a)
		}
		s.w(")")
	case *js_ast.EArrow:
		if len(e.Args) != 1 {
			s.bad = "arrow arity"
			return
		}
		s.w("(arrow", s.ref(e.Args[0].Binding.Data.(*js_ast.BIdentifier).Ref), b01(e.PreferExpr), "[")
		s.stmts(e.Body.Block.Stmts)
		s.w("]", ")")
	case *js_ast.EFunction:
		if len(e.Fn.Args) != 1 || e.Fn.Name != nil {
			s.bad = "function expression shape"
			return
		}
		s.w("(fn", s.ref(e.Fn.Args[0].Binding.Data.(*js_ast.BIdentifier).Ref), "[")
		s.stmts(e.Fn.Body.Block.Stmts)
		s.w("]", ")")
	case *js_ast.EInlinedEnum:
		s.w("(inl")
		s.expr(e.Value)
		s.w(e.Comment, ")")
	default:
		s.bad = fmt.Sprintf("expr %T", x.Data)
	}
}

func (s *tnSer) stmts(list []js_ast.Stmt) {
	for _, st := range list {
		switch d := st.Data.(type) {
		case *js_ast.SLocal:
			kind := map[js_ast.LocalKind]string{js_ast.LocalVar: "var", js_ast.LocalLet: "let", js_ast.LocalConst: "const"}[d.Kind]
			if kind == "" {
				s.bad = "local kind"
			}
			s.w("(local", kind, b01(d.IsExport), "[")
			for _, dc := range d.Decls {
				id, ok := dc.Binding.Data.(*js_ast.BIdentifier)
				if !ok {
					s.bad = "binding"
					continue
				}
				s.w("(", s.ref(id.Ref))
				if dc.ValueOrNil.Data != nil {
					s.w("=")
					s.expr(dc.ValueOrNil)
				}
				s.w(")")
			}
			s.w("]", ")")
		case *js_ast.SExpr:
			s.w("(expr")
			s.expr(d.Value)
			s.w(")")
		case *js_ast.SReturn:
			if d.ValueOrNil.Data == nil {
				s.bad = "empty return"
				continue
			}
			s.w("(ret")
			s.expr(d.ValueOrNil)
			s.w(")")
		case *js_ast.SFunction:
			body := d.Fn.Body.Block.Stmts
			if len(body) != 1 || d.IsExport || len(d.Fn.Args) != 0 {
				s.bad = "function shape"
				continue
			}
			ret, ok := body[0].Data.(*js_ast.SReturn)
			if !ok || ret.ValueOrNil.Data == nil {
				s.bad = "function body"
				continue
			}
			s.w("(func", s.ref(d.Fn.Name.Ref))
			s.expr(ret.ValueOrNil)
			s.w(")")
		case *js_ast.SEmpty, *js_ast.STypeScript:
		default:
			s.bad = fmt.Sprintf("stmt %T", st.Data)
		}
	}
}

func tnFeatures(arrow, let, la bool) compat.JSFeature {
	var f compat.JSFeature
	if !arrow {
		f |= compat.Arrow
	}
	if !let {
		f |= compat.ConstAndLet
	}
	if !la {
		f |= compat.LogicalAssignment
	}
	return f
}

// tnCompileReal: "ok <text>" | "error" | "bad:<why>"
func tnCompileReal(src string, ms, arrow, let, la bool) string {
	return guard(func() string {
		log := logger.NewDeferLog(logger.DeferLogNoVerboseOrDebug, nil)
		opts := js_parser.OptionsFromConfig(&config.Options{
			MinifySyntax:          ms,
			UnsupportedJSFeatures: tnFeatures(arrow, let, la),
			TS:                    config.TSOptions{Parse: true},
		})
		tree, ok := js_parser.Parse(log, logger.Source{Index: 0, KeyPath: logger.Path{Text: "<stdin>"}, PrettyPaths: logger.PrettyPaths{Abs: "<stdin>", Rel: "<stdin>"}, Contents: src}, opts)
		if !ok || log.HasErrors() {
			return "error"
		}
		s := &tnSer{syms: tree.Symbols, seen: map[ast.Ref]int{}}
		for _, part := range tree.Parts {
			s.stmts(part.Stmts)
		}
		if s.bad != "" {
			return "bad:" + s.bad
		}
		return "ok " + strings.Join(s.tok, " ")
	})
}

func tnProgram(g *tnGen) ([]*tnMember, string, string) {
	ms := g.members(2+g.r.Intn(2), true, "")
	var sb, wire strings.Builder
	sb.WriteString("declare function p(tag: string, v: any): any;\n")
	tnPrintMembers(ms, "", &sb)
	tnWireMembers(ms, &wire)
	return ms, sb.String(), strings.TrimSpace(wire.String())
}

func init() {
	kernels["tsns"] = func(r *gen.Rand, e *emitter, tier string) {
		for !e.full() {
			ms, arrow, let, la := r.Bool(), r.Chance(3, 4), r.Chance(3, 4), r.Chance(2, 3)
			g := &tnGen{r: r, ms: ms, let: let, e: e, wild: r.Chance(1, 6)}
			_, src, wire := tnProgram(g)
			real := tnCompileReal(src, ms, arrow, let, la)
			if strings.HasPrefix(real, "bad:") {
				e.stat("skipped-" + real)
				continue
			}
			opts := b01(ms) + b01(arrow) + b01(let) + b01(la)
			e.stat("opts:" + opts)
			if real == "error" {
				e.stat("result:error")
			} else {
				e.stat("result:ok")
				for _, probe := range []string{"(inl", "(||=", "(fn", "(arrow", "(call!", "(,", "(ret", "(+", "local let", "local const", "([]", "undef", "_N#", "_M#", "_E#", "_K#"} {
					if strings.Contains(real, probe) {
						e.stat("shape:" + probe)
					}
				}
			}
			e.emit("tsns\tcompile\t"+opts+"\t"+wire, real)
		}
	}
}
