package main

import (
	"fmt"
	"sort"
	"strconv"
	"strings"

	"github.com/evanw/esbuild/internal/ast"
	"github.com/evanw/esbuild/internal/js_lexer"
	"github.com/evanw/esbuild/internal/renamer"
	"github.com/evanw/esbuild/verifharness/gen"
)

// kernel "rename": the real NameMinifier (default and shuffled by random character frequencies) and the real
// AssignNamesByFrequency (through the verif hook) against the Lean model. The alphabets are read off the real
// minifier: name(i) for i < |head| are the head characters, name(|head|*(1+j)) = head[0] tail[j].

func alphabets(m ast.NameMinifier) (string, string) {
	head := ""
	for i := 0; ; i++ {
		n := m.NumberToMinifiedName(i)
		if len(n) != 1 {
			break
		}
		head += n
	}
	tail := ""
	for j := 0; ; j++ {
		n := m.NumberToMinifiedName(len(head) * (1 + j))
		if len(n) != 2 {
			break
		}
		tail += n[1:]
	}
	return head, tail
}

func init() {
	kernels["rename"] = func(r *gen.Rand, e *emitter, tier string) {
		kw := []string{}
		for k := range js_lexer.Keywords {
			kw = append(kw, k)
		}
		sort.Strings(kw)
		for !e.full() {
			m := ast.DefaultNameMinifierJS
			if r.Chance(2, 3) {
				var freq ast.CharFreq
				for i := range freq {
					freq[i] = int32(r.Intn(50)) - 10
				}
				m = m.ShuffleByCharFreq(freq)
				e.stat("alphabet:shuffled")
			}
			head, tail := alphabets(m)
			if r.Chance(1, 2) {
				var i int
				switch r.Intn(4) {
				case 0:
					i = r.Intn(60)
				case 1:
					i = r.Intn(54 * 65 * 2)
				case 2:
					i = []int{53, 54, 55, 54 * 64, 54*64 + 53, 54*64 + 54, 54 * 65, 54*65 - 1, 54*65 + 1, 54 * 64 * 65, 54 * (64*64 + 64), 54*(64*64+64) + 54}[r.Intn(12)]
				default:
					i = int(r.U64() % (1 << 40))
				}
				e.stat("name")
				e.emit(fmt.Sprintf("rename\tname\t%s\t%s\t%d", head, tail, i), m.NumberToMinifiedName(i))
				continue
			}
			ns := r.Intn(3)
			n := r.Intn(12)
			if r.Chance(1, 6) {
				n = 60 + r.Intn(80) // past the single-letter names
			}
			counts := make([]uint32, n)
			caps := make([]bool, n)
			cs, ps := []string{}, []string{}
			for i := range counts {
				counts[i] = uint32(r.Intn(4))
				caps[i] = ns == 0 && r.Chance(1, 4)
				cs = append(cs, strconv.Itoa(int(counts[i])))
				if caps[i] {
					ps = append(ps, "1")
				} else {
					ps = append(ps, "0")
				}
			}
			reserved := []string{}
			if ns == 1 {
				reserved = kw // labels avoid keywords
			} else if ns == 0 {
				// keywords plus "free identifiers": short names the minifier is about to hand out
				reserved = append(reserved, "do", "if", "in", "of", "as")
				for k, c := 0, r.Intn(40); k < c; k++ {
					reserved = append(reserved, m.NumberToMinifiedName(r.Intn(120)))
				}
				if r.Chance(1, 3) {
					for _, c := range "ABCDEFGHIJKLMNOPQRSTUVWXYZ_$" {
						reserved = append(reserved, string(c))
					}
					e.stat("assign:all-capitals-reserved")
				}
			}
			var got []string
			if ns == 1 {
				got = renamer.VerifAssignNames(m, nil, ns, counts, caps)
			} else {
				got = renamer.VerifAssignNames(m, reserved, ns, counts, caps)
			}
			res := "-"
			if len(reserved) > 0 {
				res = strings.Join(reserved, ",")
			}
			j := func(xs []string) string {
				if len(xs) == 0 {
					return "-"
				}
				return strings.Join(xs, ",")
			}
			e.stat(fmt.Sprintf("assign:ns=%d", ns))
			e.emit(fmt.Sprintf("rename\tassign\t%s\t%s\t%d\t%s\t%s\t%s", head, tail, ns, res, j(cs), j(ps)), j(got))
		}
	}
}
