package main

import (
	"fmt"
	"strings"

	"github.com/evanw/esbuild/internal/linker"
	"github.com/evanw/esbuild/verifharness/gen"
)

// kernel "chunkhash": the real appendIsolatedHashesForImportedChunks (through a recording hash) on generated
// chunk graphs: DAGs, cycles, self imports, duplicate imports, shared dependencies, asset pieces.
func init() {
	kernels["chunkhash"] = func(r *gen.Rand, e *emitter, tier string) {
		for !e.full() {
			n := 1 + r.Intn(7)
			imports := make([][]uint32, n)
			dynamic := make([][]bool, n)
			assets := make([][]string, n)
			iso := make([][]byte, n)
			shape := r.Intn(5)
			for i := 0; i < n; i++ {
				k := r.Intn(4)
				for j := 0; j < k; j++ {
					var t int
					switch shape {
					case 0: // DAG: only larger indices
						if i+1 >= n {
							continue
						}
						t = i + 1 + r.Intn(n-i-1)
					case 1: // ring plus chords
						if j == 0 {
							t = (i + 1) % n
						} else {
							t = r.Intn(n)
						}
					default:
						t = r.Intn(n)
					}
					imports[i] = append(imports[i], uint32(t))
					dynamic[i] = append(dynamic[i], r.Chance(1, 3))
				}
				if r.Chance(1, 4) {
					m := 1 + r.Intn(2)
					for j := 0; j < m; j++ {
						assets[i] = append(assets[i], []string{"a.png", "img/b-ABCD1234.svg", "x", "é.bin", "assets/deep/dir/file.woff2"}[r.Intn(5)])
					}
				}
				w := 8
				iso[i] = make([]byte, w)
				for j := range iso[i] {
					iso[i][j] = byte(r.Intn(256))
				}
			}
			idx := r.Intn(n)
			hasCycle := shape != 0
			if hasCycle {
				e.stat("graph:general")
			} else {
				e.stat("graph:dag")
			}
			parts := make([]string, n)
			for i := 0; i < n; i++ {
				im := "-"
				if len(imports[i]) > 0 {
					s := make([]string, len(imports[i]))
					for j, t := range imports[i] {
						s[j] = fmt.Sprint(t)
					}
					im = strings.Join(s, ",")
				}
				as := "-"
				if len(assets[i]) > 0 {
					s := make([]string, len(assets[i]))
					for j, a := range assets[i] {
						s[j] = hexBytes([]byte(a))
					}
					as = strings.Join(s, "+")
					e.stat("assets")
				}
				parts[i] = im + "/" + as + "/" + hexBytes(iso[i])
			}
			e.emit(fmt.Sprintf("chunkhash\tfinal\t%s\t%d", strings.Join(parts, " "), idx), guard(func() string {
				return hexBytes(linker.VerifFinalHashPreimage(imports, dynamic, assets, iso, uint32(idx)))
			}))
		}
	}
}
