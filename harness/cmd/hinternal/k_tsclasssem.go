package main

import (
	"encoding/json"
	"fmt"
	"os"
	"os/exec"
	"path/filepath"
	"strings"

	"github.com/evanw/esbuild/verifharness/gen"
)

// kernel "tsclasssem": validates the SEMANTICS of Spec/TsClass.lean (the theorems of Props/C06TsClass.lean are about
// it) against Node 20.
//
//	src 11 <plain program>   the program is plain JavaScript (no parameter properties, no declare): its text is run
//	                         as it is, without esbuild; the model prints run Mode.js of it
//	src <mode> <program>     a TypeScript program inside the hypotheses of the theorems: what esbuild emits for the
//	                         mode is run; the model prints run <mode> of the SOURCE (TypeScript meaning)
//	out <mode> <program>     any program, the shapes of the recorded defects included: what esbuild emits is run; the
//	                         model prints run Mode.js of what IT says esbuild emits (meaning of the emitted forms)
//
// Trace: probe calls, setter calls, the static own properties of every class when its definition is finished, the
// own properties of every object `new` returns; then whether the program completed or threw.
const tcsemRunner = `
'use strict';
const fs = require('fs');
function run(code) {
  const L = [];
  const key = k => k[0] === 'a' ? String(100 + Number(k.slice(1))) : k.slice(1);
  const val = v => v === undefined ? 'u' : typeof v === 'number' ? String(v) : 'o';
  const own = o => Object.getOwnPropertyNames(o).filter(k => /^[xa]\d+$/.test(k)).map(k => key(k) + '=' + val(o[k])).join(',');
  const P = k => { L.push('p' + k); return k; };
  const K = c => { L.push('c[' + own(c) + ']'); return c; };
  const M = o => { L.push('m[' + own(o) + ']'); return o; };
  const T = (k, v) => { L.push('s' + key(k) + '=' + val(v)); };
  let f;
  try { f = new Function('P', 'K', 'M', 'T', code); } catch (e) { return 'HARNESS-ERROR:syntax:' + e.message; }
  try { f(P, K, M, T); return 'ok|' + L.join(';'); } catch (e) {
    if (e instanceof SyntaxError || e instanceof RangeError) return 'HARNESS-ERROR:' + e;
    return 'threw|' + L.join(';');
  }
}
const cases = fs.readFileSync(process.argv[2], 'utf8').split('\n').filter(Boolean).map(JSON.parse);
fs.writeFileSync(process.argv[3], cases.map(c => run(c.code)).join('\n') + '\n');
`

type tcsemCase struct {
	Code string `json:"code"`
	op   string
	kind string
}

func init() {
	kernels["tsclasssem"] = func(r *gen.Rand, e *emitter, tier string) {
		cases := []tcsemCase{}
		for len(cases) < e.limit {
			kind := r.Intn(3)
			g := &tcGen{r: r, stat: func(string) {}}
			switch kind {
			case 0: // plain JavaScript, run as written
				g.plainOnly = true
				prog := g.program()
				cases = append(cases, tcsemCase{Code: tcText(prog, false), op: "tsclasssem\tsrc\t11\t" + tcWire(prog), kind: "src-plain-js"})
			case 1: // TypeScript inside the hypotheses: esbuild's output against the meaning of the source
				g.safe = true
				prog := g.program()
				useDefine, _, target, mode := tcPickMode(r)
				out, errText := tcTransform(tcText(prog, true), useDefine, target)
				if errText != "" {
					e.stat("transform-error")
					continue
				}
				cases = append(cases, tcsemCase{Code: out, op: "tsclasssem\tsrc\t" + mode + "\t" + tcWire(prog), kind: "src-ts-" + mode})
			default: // anything: esbuild's output against the meaning of the model's output
				prog := g.program()
				useDefine, _, target, mode := tcPickMode(r)
				out, errText := tcTransform(tcText(prog, true), useDefine, target)
				if errText != "" {
					e.stat("transform-error")
					continue
				}
				cases = append(cases, tcsemCase{Code: out, op: "tsclasssem\tout\t" + mode + "\t" + tcWire(prog), kind: "out-" + mode})
			}
		}
		dir, err := os.MkdirTemp("", "tsclasssem")
		if err != nil {
			panic(err)
		}
		defer os.RemoveAll(dir)
		var sb strings.Builder
		for _, c := range cases {
			js, _ := json.Marshal(c)
			sb.Write(js)
			sb.WriteByte('\n')
		}
		os.WriteFile(filepath.Join(dir, "runner.js"), []byte(tcsemRunner), 0644)
		os.WriteFile(filepath.Join(dir, "cases.jsonl"), []byte(sb.String()), 0644)
		if dump := os.Getenv("TSCLASSSEM_DUMP"); dump != "" {
			os.WriteFile(dump, []byte(sb.String()), 0644)
		}
		cmd := exec.Command("node", filepath.Join(dir, "runner.js"), filepath.Join(dir, "cases.jsonl"), filepath.Join(dir, "out.txt"))
		if outb, err := cmd.CombinedOutput(); err != nil {
			panic(fmt.Sprintf("node failed: %v\n%s", err, outb))
		}
		outb, err := os.ReadFile(filepath.Join(dir, "out.txt"))
		if err != nil {
			panic(err)
		}
		lines := strings.Split(strings.TrimRight(string(outb), "\n"), "\n")
		if len(lines) != len(cases) {
			panic(fmt.Sprintf("node answered %d lines for %d cases", len(lines), len(cases)))
		}
		for i, c := range cases {
			line := lines[i]
			e.stat("kind:" + c.kind)
			switch {
			case strings.HasPrefix(line, "HARNESS-ERROR"):
				e.stat("node:harness-error")
			case strings.HasPrefix(line, "ok|"):
				e.stat("node:completed")
			default:
				e.stat("node:threw")
			}
			for _, k := range []string{"p", "s", "c[", "m["} {
				if strings.Contains(line, "|"+k) || strings.Contains(line, ";"+k) {
					e.stat("node:event:" + k)
				}
			}
			e.emit(c.op, line)
		}
	}
}
