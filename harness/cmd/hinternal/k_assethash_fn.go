package main

// Kernel `assethashfn` (property C18, assets): the functions behind the name of an emitted asset and the string its
// importers receive, one by one and at high volume (model: lean/EsbuildModel/Impl/AssetHash.lean):
//
//	hash … xxhash.New + Write + bundler.HashForFileName(Sum(nil))        (the [hash] of an asset)
//	jpp  … linker.joinWithPublicPath
//	pbc  … linker.pathBetweenChunks (public path, or fs.Rel of two RELATIVE paths)
//	imp  … linker.substituteFinalPaths on one asset piece with the modifyPath of generateChunksInParallel
//
// All strings travel as hex bytes. Every operation calls the REAL routine (linker hooks: verif_hooks_assethash.go).

import (
	"strings"

	"github.com/evanw/esbuild/internal/bundler"
	"github.com/evanw/esbuild/internal/fs"
	"github.com/evanw/esbuild/internal/linker"
	"github.com/evanw/esbuild/internal/xxhash"
	"github.com/evanw/esbuild/verifharness/gen"
)

var ahFnSegs = []string{"a", "b", "assets", "js", "x.y", "..", "..", ".", "", "_.._", "a b", "q-AAAAAAAA", "c\\d", "..."}
var ahFnFiles = []string{"a.png", "a-QH5AQSJV.png", "noext", ".hidden", "x.module.css", "b\\c.bin", "[hash].png", "..", "."}

func ahFnRelDir(r *gen.Rand) string {
	n := r.Intn(4)
	var parts []string
	for i := 0; i < n; i++ {
		parts = append(parts, r.Pick(ahFnSegs))
	}
	s := strings.Join(parts, "/")
	switch r.Intn(10) {
	case 0:
		s = "./" + s
	case 1:
		s = "/" + s
	case 2:
		s += "/"
	}
	return s
}

func ahFnRelPath(r *gen.Rand) string {
	d := ahFnRelDir(r)
	f := r.Pick(ahFnFiles)
	if d == "" {
		return f
	}
	if strings.HasSuffix(d, "/") {
		return d + f
	}
	return d + "/" + f
}

func init() {
	kernels["assethashfn"] = func(r *gen.Rand, e *emitter, tier string) {
		fsys, err := fs.RealFS(fs.RealFSOptions{AbsWorkingDir: "/"})
		if err != nil {
			panic(err)
		}
		pubs := append([]string{"", "", "", "a", "/", "//", "http://h/p", "http://h/p/", "..", "a/./", "\\"}, ahPublicPaths...)
		for !e.full() {
			switch r.Intn(4) {
			case 0:
				n := ahLens[r.Intn(len(ahLens))]
				if r.Chance(1, 3) {
					n = r.Intn(200)
				}
				b := make([]byte, n)
				for i := range b {
					if r.Chance(1, 3) {
						b[i] = byte(r.Intn(256))
					} else {
						b[i] = byte(r.Intn(2)) * 255
					}
				}
				switch {
				case n < 32:
					e.stat("hash-short(<32)")
				case n%32 == 0:
					e.stat("hash-blocks-only")
				default:
					e.stat("hash-blocks-and-tail")
				}
				e.emit("assethash\thash\t"+hexBytes(b), guard(func() string {
					h := xxhash.New()
					h.Write(b)
					return bundler.HashForFileName(h.Sum(nil))
				}))
			case 1:
				pub := r.Pick(pubs)
				rel := r.Pick([]string{"", "./", ".//", "././", "./.", ".", "/", "./../", "..//", ".///././/"}) + ahFnRelPath(r)
				if strings.HasPrefix(rel, "./") {
					e.stat("jpp-strips-dot-slash")
				} else {
					e.stat("jpp-verbatim")
				}
				e.emit("assethash\tjpp\t"+opHex(pub)+"\t"+opHex(rel), opHex(linker.VerifJoinWithPublicPath(pub, rel)))
			case 2:
				pub := ""
				if r.Chance(1, 4) {
					pub = r.Pick(pubs)
				}
				from, to := ahFnRelDir(r), ahFnRelPath(r)
				if r.Chance(1, 3) {
					// a target below the directory, as for a chunk beside its asset
					to = strings.TrimSuffix(from, "/") + "/" + r.Pick(ahFnFiles)
				}
				res, ok := linker.VerifPathBetweenChunks(fsys, pub, from, to)
				exp := "err"
				if ok {
					exp = "ok " + opHex(res)
				}
				switch {
				case pub != "":
					e.stat("pbc-public-path")
				case !ok:
					e.stat("pbc-rel-fails")
				case strings.HasPrefix(res, "../"):
					e.stat("pbc-rel-up")
				default:
					e.stat("pbc-rel-down")
				}
				e.emit("assethash\tpbc\t"+opHex(pub)+"\t"+opHex(from)+"\t"+opHex(to), exp)
			default:
				pub := ""
				if r.Chance(1, 3) {
					pub = r.Pick(pubs)
				}
				outdir := "/" + strings.TrimPrefix(ahFnRelDir(r), "/")
				chunkRel := ahFnRelPath(r)
				if r.Chance(1, 2) {
					chunkRel = "./" + r.Pick([]string{"", "js/", "a/b/", "../"}) + "main.js"
				}
				assetAbs := fsys.Join(outdir, ahFnRelPath(r))
				if r.Chance(1, 8) {
					assetAbs = "/" + ahFnRelPath(r)
				}
				sfx := ""
				if r.Chance(1, 4) {
					sfx = r.Pick(ahSuffixes)
				}
				res, ok := linker.VerifAssetImportPath(fsys, pub, outdir, chunkRel, assetAbs, sfx)
				exp := "err"
				if ok {
					exp = "ok " + opHex(res)
				}
				switch {
				case pub != "":
					e.stat("imp-public-path")
				case !ok:
					e.stat("imp-rel-fails")
				default:
					e.stat("imp-relative")
				}
				e.emit("assethash\timp\t"+opHex(pub)+"\t"+opHex(outdir)+"\t"+opHex(chunkRel)+"\t"+opHex(assetAbs)+"\t"+opHex(sfx), exp)
			}
		}
	}
}
