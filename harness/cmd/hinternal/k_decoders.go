package main

import (
	"fmt"
	"strconv"
	"strings"
	"unsafe"

	"github.com/evanw/esbuild/internal/helpers"
	"github.com/evanw/esbuild/internal/js_parser"
	"github.com/evanw/esbuild/internal/logger"
	"github.com/evanw/esbuild/internal/sourcemap"
	"github.com/evanw/esbuild/verifharness/gen"
)

// kernel "decoders": decoders of untrusted input that index into slices.
//
//	maps  the real js_parser.ParseSourceMap on generated (index) source maps: accepted mappings, the warning, nil or a recovered panic
//	sort  the sort ParseSourceMap applies (sort.Stable with the reflexive mappingArray.Less), through a verif export
//	find  the real sourcemap.SourceMap.Find
//	wdec/wall/enc/u2s/uval/ueq/nbmp/s2u  internal/helpers/utf.go on arbitrary bytes / UTF-16 units

type decSection struct {
	lineOff, colOff        int32
	hasV                   bool
	units                  []uint16
	ns, nc, nn             int
	jsonMap                string
	hasMap, offsetIsObject bool
}

// jsonStringUTF16 writes units as a JSON string: printable ASCII raw, everything else as \uXXXX (sometimes raw UTF-8)
func jsonStringUTF16(r *gen.Rand, units []uint16) string {
	sb := strings.Builder{}
	sb.WriteByte('"')
	for _, u := range units {
		switch {
		case u == '"' || u == '\\':
			sb.WriteByte('\\')
			sb.WriteByte(byte(u))
		case u >= 0x20 && u < 0x7F && !r.Chance(1, 40):
			sb.WriteByte(byte(u))
		case u >= 0x80 && (u < 0xD800 || u > 0xDFFF) && r.Bool():
			sb.WriteString(string(rune(u)))
		default:
			sb.WriteString(fmt.Sprintf("\\u%04X", u))
		}
	}
	sb.WriteByte('"')
	return sb.String()
}

var decJunk = []uint16{' ', '!', '"', '\\', '=', '-', '_', '.', 0x2C + 256, 0x3B + 512, 0x41 + 256, 0x67 + 256, 0x80, 0xFF, 0x2028, 0xD800, 0xDC00, 0xFFFF, 0}

// target: a mostly-valid absolute value for a coordinate in [lo, hi)
func decTarget(r *gen.Rand, cur, lo, hi int) int {
	switch r.Intn(12) {
	case 0:
		return lo - 1 - r.Intn(3)
	case 1:
		return hi + r.Intn(3)
	case 2:
		return cur
	case 3:
		return 2147483647 - r.Intn(3)
	case 4:
		return cur + r.BoundaryInt()
	default:
		if hi <= lo {
			return lo
		}
		return lo + r.Intn(hi-lo)
	}
}

func appendVLQ(units []uint16, v int) []uint16 {
	for _, b := range sourcemap.VerifEncodeVLQ(nil, v) {
		units = append(units, uint16(b))
	}
	return units
}

// genMappings writes segments the way an encoder would, with controlled damage. clean = no damage at all.
func genMappings(r *gen.Rand, e *emitter, ns, nn int, colOff int32, nseg int, clean bool, shuffle bool) ([]uint16, bool) {
	var units []uint16
	col, src, ol, oc, nm := int(colOff), 0, 0, 0, 0
	negDelta := false
	firstLine := true
	for k := 0; k < nseg; k++ {
		nf := []int{4, 4, 4, 5, 5, 1}[r.Intn(6)]
		if !clean && r.Chance(1, 25) {
			nf = []int{0, 2, 3, 6}[r.Intn(4)]
		}
		// generated column
		var ncol int
		if clean {
			if shuffle && r.Chance(1, 2) {
				lo := 0
				if firstLine && int(colOff) > 0 {
					lo = int(colOff)
				}
				ncol = lo + r.Intn(12)
			} else {
				ncol = col + r.Intn(4)*r.Intn(2)
			}
		} else {
			lo := 0
			if firstLine {
				lo = int(colOff)
			}
			ncol = decTarget(r, col, lo, lo+40)
			if r.Chance(2, 3) && ncol < col && ncol >= lo {
				ncol = col + r.Intn(5)
			}
		}
		if nf >= 1 {
			if ncol < col {
				negDelta = true
			}
			units = appendVLQ(units, ncol-col)
			col = ncol
		}
		if nf >= 2 {
			t := src
			if !clean {
				t = decTarget(r, src, 0, ns)
			} else if ns > 0 {
				t = r.Intn(ns)
			}
			units = appendVLQ(units, t-src)
			src = t
		}
		if nf >= 3 {
			t := ol + r.Intn(3)
			if !clean {
				t = decTarget(r, ol, 0, 1000)
			}
			units = appendVLQ(units, t-ol)
			ol = t
		}
		if nf >= 4 {
			t := r.Intn(80)
			if !clean {
				t = decTarget(r, oc, 0, 200)
			}
			units = appendVLQ(units, t-oc)
			oc = t
		}
		if nf >= 5 {
			t := nm
			if !clean {
				t = decTarget(r, nm, 0, nn)
			} else if nn > 0 {
				t = r.Intn(nn)
			} else {
				t = -1 // cannot be valid: skip the field
			}
			if t >= 0 || !clean {
				units = appendVLQ(units, t-nm)
				nm = t
			}
		}
		if nf >= 6 {
			units = appendVLQ(units, r.Intn(5))
		}
		// separator
		if k+1 < nseg || r.Chance(1, 4) {
			switch x := r.Intn(20); {
			case x < 13:
				units = append(units, ',')
			case x < 18:
				for q := 1 + r.Intn(2)*r.Intn(3); q > 0; q-- {
					units = append(units, ';')
				}
				col = 0
				firstLine = false
			case x < 19 && !clean:
				units = append(units, decJunk[r.Intn(len(decJunk))])
			default:
				if clean {
					units = append(units, ',')
				}
			}
		}
	}
	if !clean {
		// damage: truncation, overlong continuation runs, high bytes, junk
		for q := r.Intn(3) * r.Intn(2); q > 0 && len(units) > 0; q-- {
			i := r.Intn(len(units))
			switch r.Intn(6) {
			case 0:
				units = units[:i]
				e.stat("maps-dmg:truncate")
			case 1:
				units[i] = decJunk[r.Intn(len(decJunk))]
				e.stat("maps-dmg:junk")
			case 2:
				units[i] += 256 * uint16(1+r.Intn(255))
				e.stat("maps-dmg:highbyte")
			case 3:
				run := make([]uint16, 1+r.Intn(9))
				for j := range run {
					run[j] = uint16("ghijklmnopqrstuvwxyz0123456789+/"[r.Intn(32)])
				}
				if r.Bool() {
					run = append(run, uint16("ABCDEFGHIJKLMNOPQRSTUVWXYZabcdef"[r.Intn(32)]))
				}
				units = append(units[:i], append(run, units[i:]...)...)
				e.stat("maps-dmg:contrun")
			case 4:
				units = append(units[:i], append([]uint16{uint16(",;"[r.Intn(2)])}, units[i:]...)...)
				e.stat("maps-dmg:sep")
			default:
				units = append(units[:i], units[i+1:]...)
				e.stat("maps-dmg:delete")
			}
		}
	}
	return units, negDelta
}

func genDecSection(r *gen.Rand, e *emitter, idx int, prevLine int32, flat bool, long bool) decSection {
	s := decSection{hasMap: true, offsetIsObject: true}
	s.hasV = r.Chance(9, 10)
	s.ns, s.nn = 1+r.Intn(3), r.Intn(3)
	if r.Chance(1, 12) {
		s.ns = 0
	}
	s.nc = r.Intn(5)
	if r.Chance(1, 3) {
		s.nc = 0
	}
	if !flat {
		switch r.Intn(10) {
		case 0:
			s.lineOff = int32(r.Intn(7) - 3)
		case 1:
			s.lineOff = 2147483647 - int32(r.Intn(3))
		case 2:
			s.lineOff = -2147483648 + int32(r.Intn(2))
		case 3:
			s.lineOff = prevLine
		default:
			s.lineOff = prevLine + int32(r.Intn(4))
		}
		switch r.Intn(8) {
		case 0:
			s.colOff = int32(r.Intn(9) - 4)
		case 1:
			s.colOff = 2147483647 - int32(r.Intn(40))
		default:
			s.colOff = int32(r.Intn(10))
		}
	}
	clean := long || r.Chance(1, 2)
	nseg := r.Intn(7)
	if long {
		nseg = 22 + r.Intn(140)
	}
	if nseg == 0 && r.Bool() {
		nseg = 1
	}
	var neg bool
	s.units, neg = genMappings(r, e, s.ns, s.nn, s.colOff, nseg, clean, long || r.Chance(1, 3))
	if neg {
		e.stat("maps-gen:negative-column-delta")
	}
	if !s.hasV {
		e.stat("maps-sec:no-version-3")
	}
	if s.ns == 0 {
		e.stat("maps-sec:no-sources")
	}
	if len(s.units) == 0 {
		e.stat("maps-sec:no-mappings")
	}
	if s.nc > 0 {
		e.stat("maps-sec:has-sourcesContent")
	}
	if s.nc > s.ns {
		e.stat("maps-sec:sourcesContent-longer-than-sources")
	}
	if idx > 0 && s.lineOff < prevLine {
		e.stat("maps-sec:offset-before-previous-section")
	}
	if s.lineOff < 0 || s.colOff < 0 {
		e.stat("maps-sec:negative-offset")
	}
	if s.lineOff > 2147483000 {
		e.stat("maps-sec:line-offset-near-int32-max")
	}
	props := []string{}
	switch {
	case s.hasV:
		props = append(props, `"version": 3`)
	case r.Bool():
		props = append(props, `"version": `+[]string{"2", `"3"`, "3.5", "null"}[r.Intn(4)])
	}
	srcs := []string{}
	for k := 0; k < s.ns; k++ {
		switch r.Intn(8) {
		case 0:
			srcs = append(srcs, "null")
		case 1:
			srcs = append(srcs, `"%XY/bad escape `+strconv.Itoa(k)+`"`)
		case 2:
			srcs = append(srcs, `"file:///abs/s`+strconv.Itoa(k)+`.js"`)
		case 3:
			srcs = append(srcs, `"\uD800\u0000:\\x//..//?#"`)
		default:
			srcs = append(srcs, fmt.Sprintf(`"s%d_%d.js"`, idx, k))
		}
	}
	if s.ns > 0 || r.Bool() {
		props = append(props, `"sources": [`+strings.Join(srcs, ", ")+`]`)
	} else {
		props = append(props, `"sources": "x"`)
	}
	if r.Chance(1, 4) {
		props = append(props, `"sourceRoot": `+[]string{`""`, `"root"`, `"a/b/"`, `"http://x/y/z"`, `"%"`, `"\uDC00/"`, "7"}[r.Intn(7)])
	}
	cont := []string{}
	for k := 0; k < s.nc; k++ {
		if r.Chance(1, 5) {
			cont = append(cont, "null")
		} else {
			cont = append(cont, fmt.Sprintf(`"c%d_%d"`, idx, k))
		}
	}
	if s.nc > 0 || r.Bool() {
		props = append(props, `"sourcesContent": [`+strings.Join(cont, ", ")+`]`)
	}
	nms := []string{}
	for k := 0; k < s.nn; k++ {
		if r.Chance(1, 6) {
			nms = append(nms, "0")
		} else {
			nms = append(nms, fmt.Sprintf(`"n%d"`, k))
		}
	}
	if s.nn > 0 || r.Bool() {
		props = append(props, `"names": [`+strings.Join(nms, ", ")+`]`)
	}
	switch {
	case len(s.units) > 0 || r.Bool():
		props = append(props, `"mappings": `+jsonStringUTF16(r, s.units))
	case r.Bool():
		props = append(props, `"mappings": 5`)
	}
	// property order does not matter to the parser
	for i := len(props) - 1; i > 0; i-- {
		j := r.Intn(i + 1)
		props[i], props[j] = props[j], props[i]
	}
	s.jsonMap = "{" + strings.Join(props, ", ") + "}"
	return s
}

func decMapsCase(r *gen.Rand, e *emitter) {
	flat := r.Chance(1, 3)
	long := r.Chance(1, 10)
	n := 1
	if !flat {
		n = r.Intn(4)
		if long {
			n = 1 + r.Intn(2)
		}
	}
	secs := []string{}
	wire := []string{}
	var prevLine int32
	for i := 0; i < n; i++ {
		s := genDecSection(r, e, i, prevLine, flat, long)
		prevLine = s.lineOff + int32(r.Intn(3))
		if flat {
			secs = append(secs, s.jsonMap)
		} else {
			off := fmt.Sprintf(`{"line": %d, "column": %d}`, s.lineOff, s.colOff)
			item := fmt.Sprintf(`{"offset": %s, "map": %s}`, off, s.jsonMap)
			if r.Chance(1, 12) { // no offset at all: 0,0
				item = fmt.Sprintf(`{"map": %s}`, s.jsonMap)
				s.lineOff, s.colOff = 0, 0
			} else if r.Chance(1, 20) { // no map: the section is dropped
				item = fmt.Sprintf(`{"offset": %s}`, off)
				s.hasMap = false
			}
			secs = append(secs, item)
		}
		if s.hasMap {
			wire = append(wire, fmt.Sprintf("%d:%d:%s:%s:%d:%d:%d", s.lineOff, s.colOff, b01(s.hasV), hexU16(s.units), s.ns, s.nc, s.nn))
		}
	}
	text := `{"version": 3, "sections": [` + strings.Join(secs, ", ") + `]}`
	if flat {
		text = secs[0]
	}
	out := guard(func() string {
		log := logger.NewDeferLog(logger.DeferLogAll, nil)
		sm := js_parser.ParseSourceMap(log, logger.Source{Contents: text, KeyPath: logger.Path{Text: "/x.js.map", Namespace: "file"}, PrettyPaths: logger.PrettyPaths{Abs: "/x.js.map", Rel: "x.js.map"}})
		msgs := log.Done()
		if sm == nil {
			for _, m := range msgs {
				const pre = `Bad "mappings" data in source map at character `
				if strings.HasPrefix(m.Data.Text, pre) {
					rest := m.Data.Text[len(pre):]
					colon := strings.Index(rest, ": ")
					txt := rest[colon+2:]
					if strings.HasPrefix(txt, "Invalid character after mapping") {
						txt = "Invalid character after mapping"
					}
					length := -1
					if m.Data.Location != nil {
						length = m.Data.Location.Length
					}
					return fmt.Sprintf("err %s %d %s", rest[:colon], length, txt)
				}
			}
			if len(msgs) > 0 {
				return "other-error " + msgs[0].Data.Text
			}
			return "nil"
		}
		sb := strings.Builder{}
		fmt.Fprintf(&sb, "map %d %d %d ", len(sm.Sources), len(sm.SourcesContent), len(sm.Names))
		for i, m := range sm.Mappings {
			if i > 0 {
				sb.WriteByte(';')
			}
			name := "-"
			if m.OriginalName.IsValid() {
				name = strconv.Itoa(int(m.OriginalName.GetIndex()))
			}
			fmt.Fprintf(&sb, "%d:%d:%d:%d:%d:%s", m.GeneratedLine, m.GeneratedColumn, m.SourceIndex, m.OriginalLine, m.OriginalColumn, name)
		}
		// the consumers' safety conditions, checked on the real result as well
		for _, m := range sm.Mappings {
			if m.SourceIndex < 0 || int(m.SourceIndex) >= len(sm.Sources) || (m.OriginalName.IsValid() && int(m.OriginalName.GetIndex()) >= len(sm.Names)) {
				e.stat("maps-UNSAFE-INDEX")
			}
		}
		sorted := true
		for i := 1; i < len(sm.Mappings); i++ {
			a, b := sm.Mappings[i-1], sm.Mappings[i]
			if !(a.GeneratedLine < b.GeneratedLine || (a.GeneratedLine == b.GeneratedLine && a.GeneratedColumn <= b.GeneratedColumn)) {
				sorted = false
			}
		}
		if !sorted {
			e.stat("maps-result-not-sorted")
		}
		if len(sm.Mappings) > 20 {
			e.stat("maps-result:more-than-20-mappings")
		}
		return sb.String()
	})
	op := "-"
	if len(wire) > 0 {
		op = strings.Join(wire, "|")
	}
	kind := out
	if i := strings.IndexByte(out, ' '); i >= 0 {
		kind = out[:i]
		if kind == "err" {
			f := strings.SplitN(out, " ", 4)
			t := f[3]
			if j := strings.Index(t, ":"); j >= 0 {
				t = t[:j]
			}
			kind = "err:" + t
		}
	}
	e.stat("maps:" + kind)
	e.stat(fmt.Sprintf("maps-sections=%d", len(wire)))
	e.emit("decoders\tmaps\t"+op, out)
}

// ---- sort / find ----

func genKeys(r *gen.Rand, n int) []sourcemap.Mapping {
	ms := make([]sourcemap.Mapping, n)
	lines, cols := 1+r.Intn(4), 1+r.Intn(6)
	if r.Chance(1, 4) {
		cols = 1 + r.Intn(200)
	}
	mode := r.Intn(5)
	for i := range ms {
		l, c := int32(r.Intn(lines)), int32(r.Intn(cols))
		switch mode {
		case 0: // already sorted runs
			l, c = int32(i*lines/(n+1)), int32(i%cols)
		case 1: // reversed
			l, c = int32((n-i)*lines/(n+1)), int32((n-i)%cols)
		case 2: // all equal
			l, c = 1, 1
		}
		ms[i] = sourcemap.Mapping{GeneratedLine: l, GeneratedColumn: c, SourceIndex: int32(i)}
	}
	return ms
}

func wireKeys(ms []sourcemap.Mapping) string {
	if len(ms) == 0 {
		return "-"
	}
	parts := make([]string, len(ms))
	for i, m := range ms {
		parts[i] = fmt.Sprintf("%d:%d:%d", m.GeneratedLine, m.GeneratedColumn, m.SourceIndex)
	}
	return strings.Join(parts, ",")
}

func decSortCase(r *gen.Rand, e *emitter) {
	n := r.Intn(45)
	switch r.Intn(6) {
	case 0:
		n = 19 + r.Intn(4)
	case 1:
		n = 38 + r.Intn(6)
	case 2:
		n = 60 + r.Intn(200)
	}
	ms := genKeys(r, n)
	op := "decoders\tsort\t" + wireKeys(ms)
	out := guard(func() string {
		js_parser.VerifSortMappings(ms)
		if len(ms) == 0 {
			return "-"
		}
		parts := make([]string, len(ms))
		for i, m := range ms {
			parts[i] = strconv.Itoa(int(m.SourceIndex))
		}
		return strings.Join(parts, ",")
	})
	switch {
	case n <= 20:
		e.stat("sort:n<=20")
	case n <= 40:
		e.stat("sort:n<=40")
	default:
		e.stat("sort:n>40")
	}
	e.emit(op, out)
}

func decFindCase(r *gen.Rand, e *emitter) {
	n := r.Intn(12)
	if r.Chance(1, 5) {
		n = r.Intn(70)
	}
	ms := genKeys(r, n)
	if r.Chance(4, 5) {
		js_parser.VerifSortMappings(ms)
	}
	line, col := int32(r.Intn(6)-1), int32(r.Intn(9)-1)
	if r.Chance(1, 10) {
		line, col = int32(r.BoundaryInt()), int32(r.BoundaryInt())
	}
	op := fmt.Sprintf("decoders\tfind\t%s\t%d\t%d", wireKeys(ms), line, col)
	out := guard(func() string {
		sm := &sourcemap.SourceMap{Mappings: ms}
		m := sm.Find(line, col)
		if m == nil {
			return "nil"
		}
		idx := (uintptr(unsafe.Pointer(m)) - uintptr(unsafe.Pointer(&ms[0]))) / unsafe.Sizeof(ms[0])
		return strconv.Itoa(int(idx))
	})
	if out == "nil" {
		e.stat("find:nil")
	} else {
		e.stat("find:hit")
	}
	e.emit(op, out)
}

// ---- WTF-8 / UTF-16 ----

func genCodePoint(r *gen.Rand) rune {
	switch r.Intn(10) {
	case 0:
		return rune(r.Intn(0x80))
	case 1:
		return rune(0x80 + r.Intn(0x780))
	case 2:
		return rune(0x800 + r.Intn(0xD000))
	case 3:
		return rune(0xD800 + r.Intn(0x800)) // surrogate code points (WTF-8 only)
	case 4:
		return rune(0xE000 + r.Intn(0x2000))
	case 5:
		return rune(0x10000 + r.Intn(0x100000))
	case 6:
		return []rune{0, 0x7F, 0x80, 0x7FF, 0x800, 0xD7FF, 0xD800, 0xDBFF, 0xDC00, 0xDFFF, 0xE000, 0xFFFD, 0xFEFF, 0xFFFF, 0x10000, 0x10FFFF}[r.Intn(16)]
	default:
		return rune(0x20 + r.Intn(0x5F))
	}
}

// genWTF8 produces byte strings with every class of malformed sequence
func genWTF8(r *gen.Rand, e *emitter) []byte {
	var b []byte
	n := r.Intn(7)
	for k := 0; k < n; k++ {
		switch r.Intn(16) {
		case 0, 1, 2, 3, 4, 5: // a generalized-UTF-8 encoding of a code point (surrogates included)
			b = append(b, helpers.VerifEncodeWTF8Rune(4, genCodePoint(r))...)
		case 6: // lone continuation bytes
			for q := 1 + r.Intn(3); q > 0; q-- {
				b = append(b, byte(0x80+r.Intn(0x40)))
			}
		case 7: // invalid lead bytes
			b = append(b, []byte{0xC0, 0xC1, 0xF5, 0xF8, 0xFB, 0xFC, 0xFE, 0xFF}[r.Intn(8)])
		case 8: // overlong forms
			b = append(b, [][]byte{{0xC0, 0x80}, {0xC1, 0xBF}, {0xE0, 0x80, 0x80}, {0xE0, 0x9F, 0xBF}, {0xF0, 0x80, 0x80, 0x80}, {0xF0, 0x8F, 0xBF, 0xBF}}[r.Intn(6)]...)
		case 9: // beyond U+10FFFF
			b = append(b, [][]byte{{0xF4, 0x90, 0x80, 0x80}, {0xF5, 0x80, 0x80, 0x80}, {0xF7, 0xBF, 0xBF, 0xBF}, {0xF4, 0x8F, 0xBF, 0xBF}}[r.Intn(4)]...)
		case 10: // a lead byte followed by fewer continuation bytes than it announces, then something else
			lead := []byte{0xC3, 0xE2, 0xED, 0xF0, 0xF4, 0xDF, 0xEF}[r.Intn(7)]
			b = append(b, lead)
			for q := r.Intn(3); q > 0; q-- {
				b = append(b, byte(0x80+r.Intn(0x40)))
			}
			if r.Bool() {
				b = append(b, byte(0x20+r.Intn(0x5F)))
			}
		case 11: // surrogate pair encoded as two 3-byte sequences (CESU-8)
			b = append(b, 0xED, byte(0xA0+r.Intn(0x10)), byte(0x80+r.Intn(0x40)), 0xED, byte(0xB0+r.Intn(0x10)), byte(0x80+r.Intn(0x40)))
		case 12: // second/third/fourth byte not a continuation byte
			enc := helpers.VerifEncodeWTF8Rune(4, rune(0x800+r.Intn(0x10F000)))
			enc[1+r.Intn(len(enc)-1)] = []byte{0x00, 0x7F, 0xC0, 0xFF, 0x41}[r.Intn(5)]
			b = append(b, enc...)
		case 13:
			b = append(b, byte(r.Intn(256)))
		default:
			b = append(b, byte(0x20+r.Intn(0x5F)))
		}
	}
	if r.Chance(1, 4) && len(b) > 0 { // truncated tail
		b = b[:len(b)-1-r.Intn(decMin(len(b), 3))]
	}
	return b
}

func decGenUnits(r *gen.Rand) []uint16 {
	n := r.Intn(7)
	var u []uint16
	for k := 0; k < n; k++ {
		switch r.Intn(8) {
		case 0:
			u = append(u, uint16(0xD800+r.Intn(0x400))) // high
		case 1:
			u = append(u, uint16(0xDC00+r.Intn(0x400))) // low
		case 2:
			u = append(u, uint16(0xD800+r.Intn(0x400)), uint16(0xDC00+r.Intn(0x400))) // pair
		case 3:
			u = append(u, []uint16{0xD800, 0xDBFF, 0xDC00, 0xDFFF, 0xD7FF, 0xE000, 0xFFFF, 0, 0x7F, 0x80, 0x7FF, 0x800}[r.Intn(12)])
		case 4:
			u = append(u, uint16(r.Intn(65536)))
		default:
			u = append(u, uint16(0x20+r.Intn(0x5F)))
		}
	}
	return u
}

func decUtfCase(r *gen.Rand, e *emitter) {
	switch r.Intn(9) {
	case 0: // DecodeWTF8Rune
		b := genWTF8(r, e)
		out := guard(func() string {
			c, w := helpers.DecodeWTF8Rune(string(b))
			if len(b) > 0 && len(b) < decSeqLen(b[0]) {
				e.stat("wdec:input-ends-inside-announced-sequence")
			}
			switch {
			case w == 0 && len(b) > 0:
				e.stat("wdec:width0-nonempty")
			case c == 0xFFFD && w == 1:
				e.stat("wdec:error")
			default:
				e.stat(fmt.Sprintf("wdec:width%d", w))
			}
			return fmt.Sprintf("%d %d", c, w)
		})
		e.emit("decoders\twdec\t"+hexBytes(b), out)
	case 1: // the consumer loop i += width (harness loop around the real decoder, with a round limit)
		b := genWTF8(r, e)
		if decEndsTruncated(b) {
			e.stat("wall:input-ends-with-truncated-sequence")
		}
		out := guard(func() string {
			s := string(b)
			var cps []string
			var u16 []uint16
			for i := 0; i < len(s); {
				c, w := helpers.DecodeWTF8Rune(s[i:])
				if w == 0 {
					e.stat("wall:stuck")
					return "S " + listOrDash(cps)
				}
				cps = append(cps, strconv.Itoa(int(c)))
				if c <= 0xFFFF {
					u16 = append(u16, uint16(c))
				} else {
					c -= 0x10000
					u16 = append(u16, uint16(0xD800+((c>>10)&0x3FF)), uint16(0xDC00+(c&0x3FF)))
				}
				i += w
			}
			e.stat("wall:runes")
			return "R " + listOrDash(cps) + " " + hexU16(u16)
		})
		e.emit("decoders\twall\t"+hexBytes(b), out)
	case 2: // encodeWTF8Rune on any int32 and any buffer length
		c := genCodePoint(r)
		if r.Chance(1, 4) {
			c = rune(int32(r.BoundaryInt()))
		}
		plen := 4
		if r.Chance(1, 5) {
			plen = r.Intn(6)
		}
		out := guard(func() string { return hexBytes(helpers.VerifEncodeWTF8Rune(plen, c)) })
		if c < 0 || c > 0x10FFFF {
			e.stat("enc:rune-out-of-range")
		}
		if out == "PANIC" {
			e.stat("enc:panic-short-buffer")
		} else {
			e.stat(fmt.Sprintf("enc:width%d", len(out)/2))
		}
		e.emit(fmt.Sprintf("decoders\tenc\t%d\t%d", plen, c), out)
	case 3:
		u := decGenUnits(r)
		e.stat("u2s")
		e.emit("decoders\tu2s\t"+hexU16(u), guard(func() string { return hexBytes([]byte(helpers.UTF16ToString(u))) }))
	case 4:
		u := decGenUnits(r)
		out := guard(func() string {
			s, bad, ok := helpers.UTF16ToStringWithValidation(u)
			if ok {
				e.stat("uval:ok")
				return "ok " + hexBytes([]byte(s))
			}
			e.stat("uval:bad")
			return fmt.Sprintf("bad %d", bad)
		})
		e.emit("decoders\tuval\t"+hexU16(u), out)
	case 5, 6: // UTF16EqualsString: equal, prefix, extension, one byte changed, unrelated
		u := decGenUnits(r)
		b := []byte(helpers.UTF16ToString(u))
		switch r.Intn(6) {
		case 0:
			if len(b) > 0 {
				b = b[:r.Intn(len(b))]
			}
		case 1:
			b = append(b, genWTF8(r, e)...)
		case 2:
			if len(b) > 0 {
				b[r.Intn(len(b))] ^= byte(1 << uint(r.Intn(8)))
			}
		case 3:
			b = genWTF8(r, e)
		}
		out := guard(func() string { return fmt.Sprintf("%v", helpers.UTF16EqualsString(u, string(b))) })
		e.stat("ueq:" + out)
		e.emit("decoders\tueq\t"+hexU16(u)+"\t"+hexBytes(b), out)
	case 7:
		u := decGenUnits(r)
		out := guard(func() string { return fmt.Sprintf("%v", helpers.ContainsNonBMPCodePointUTF16(u)) })
		e.stat("nbmp:" + out)
		e.emit("decoders\tnbmp\t"+hexU16(u), out)
	default:
		b := genWTF8(r, e)
		e.stat("s2u")
		e.emit("decoders\ts2u\t"+hexBytes(b), guard(func() string { return hexU16(helpers.StringToUTF16(string(b))) }))
	}
}

// decSeqLen: number of bytes the lead byte announces (1 for ASCII and for bytes that cannot start a sequence)
func decSeqLen(s0 byte) int {
	switch {
	case s0&0xE0 == 0xC0:
		return 2
	case s0&0xF0 == 0xE0:
		return 3
	case s0&0xF8 == 0xF0:
		return 4
	}
	return 1
}

// decEndsTruncated: the last 1..3 bytes are a lead byte followed only by continuation bytes, fewer than it announces
func decEndsTruncated(b []byte) bool {
	for k := 1; k <= 3 && k <= len(b); k++ {
		lead := b[len(b)-k]
		if lead&0xC0 == 0x80 {
			continue // a continuation byte: look further back
		}
		return decSeqLen(lead) > k
	}
	return false
}

func listOrDash(xs []string) string {
	if len(xs) == 0 {
		return "-"
	}
	return strings.Join(xs, ",")
}

func init() {
	kernels["decoders"] = func(r *gen.Rand, e *emitter, tier string) {
		for !e.full() {
			switch x := r.Intn(20); {
			case x < 9:
				decMapsCase(r, e)
			case x < 11:
				decSortCase(r, e)
			case x < 13:
				decFindCase(r, e)
			default:
				decUtfCase(r, e)
			}
		}
	}
}

func decMin(a, b int) int {
	if a < b {
		return a
	}
	return b
}
