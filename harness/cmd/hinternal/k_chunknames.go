package main

import (
	"encoding/hex"
	"fmt"
	"sort"
	"strings"
	"sync"

	"github.com/evanw/esbuild/internal/linker"
	"github.com/evanw/esbuild/pkg/api"
	"github.com/evanw/esbuild/verifharness/gen"
)

// kernel "chunknames": real builds (bundle, splitting on/off, --minify-identifiers on/off, several output formats)
// run with the chunk-level renaming observation hook installed (internal/linker/verif_observe_chunknames.go). For
// every JS chunk the hook reports what renameSymbolsInChunk read and the final name the returned renamer gives to
// every symbol the chunk can mention. The inputs go to the Lean model (Impl/ChunkNames.lean), which recomputes
// the names; one operation per chunk.

// cnIndex numbers the refs of a dump densely in the order (stable source index, inner index).
func cnIndex(d *linker.VerifCNDump) (map[[2]uint32]int, []int) {
	order := make([]int, len(d.Syms))
	for i := range order {
		order[i] = i
	}
	sort.Slice(order, func(a, b int) bool {
		x, y := d.Syms[order[a]], d.Syms[order[b]]
		if x.Stable != y.Stable {
			return x.Stable < y.Stable
		}
		return x.Ref[1] < y.Ref[1]
	})
	idx := map[[2]uint32]int{}
	for pos, i := range order {
		idx[d.Syms[i].Ref] = pos
	}
	return idx, order
}

func cnScope(w *natw, s *linker.VerifCNScope, ix func([2]uint32) uint64) {
	w.n(uint64(len(s.Members)))
	for _, m := range s.Members {
		w.n(ix(m))
	}
	w.n(uint64(len(s.Generated)))
	for _, g := range s.Generated {
		w.n(ix(g))
	}
	if s.HasLabel {
		w.n(1)
		w.n(ix(s.Label))
	} else {
		w.n(0)
	}
	w.n(uint64(len(s.Children)))
	for i := range s.Children {
		cnScope(w, &s.Children[i], ix)
	}
}

func cnASCII(s string) bool {
	for i := 0; i < len(s); i++ {
		if s[i] >= 0x80 {
			return false
		}
	}
	return true
}

// cnOpAndExpected serialises one chunk; ok=false when the chunk cannot be expressed on the wire (non-ASCII name).
func cnOpAndExpected(d *linker.VerifCNDump, e *emitter) (op string, exp string, ok bool) {
	idx, order := cnIndex(d)
	n := uint64(len(d.Syms))
	ix := func(r [2]uint32) uint64 {
		if i, ok := idx[r]; ok {
			return uint64(i)
		}
		return n // InvalidRef or a ref the hook never saw: out of range for the model as it is for Go
	}
	var ws, wf, wi natw
	ws.n(n)
	names := make([]string, 0, len(order))
	for _, i := range order {
		s := d.Syms[i]
		if !cnASCII(s.Name) || !cnASCII(s.Final) {
			return "", "", false
		}
		ws.n(uint64(s.Ns))
		ws.b(s.JSX)
		ws.name(s.Name)
		if s.HasLink {
			ws.n(1)
			ws.n(ix(s.Link))
		} else {
			ws.n(0)
		}
		if s.HasAlias {
			ws.n(1)
			ws.n(ix(s.Alias))
		} else {
			ws.n(0)
		}
		if s.Slot >= 0 {
			ws.n(1)
			ws.n(uint64(s.Slot))
		} else {
			ws.n(0)
		}
		switch {
		case s.Panicked:
			names = append(names, "!")
		case s.Final == "":
			names = append(names, "-")
		default:
			names = append(names, hex.EncodeToString([]byte(s.Final)))
		}
		e.stat(fmt.Sprintf("sym:ns=%d", s.Ns))
		if s.HasLink {
			e.stat("sym:linked")
		}
		if s.HasAlias {
			e.stat("sym:namespace-alias")
		}
		if s.JSX {
			e.stat("sym:jsx-capital")
		}
		if s.Final != s.Name && !s.HasLink {
			e.stat("sym:renamed")
		}
	}
	wf.n(uint64(len(d.Files)))
	for fi := range d.Files {
		f := &d.Files[fi]
		wf.n(uint64(f.Wrap))
		e.stat(fmt.Sprintf("file:wrap=%d", f.Wrap))
		if f.HasWrapper {
			wf.n(ix(f.WrapperRef))
		} else {
			wf.n(n)
		}
		wf.b(f.UsesExports)
		wf.n(ix(f.ExportsRef))
		wf.b(f.UsesModule)
		wf.n(ix(f.ModuleRef))
		for _, c := range f.SlotCounts {
			wf.n(uint64(c))
		}
		cnScope(&wf, &f.Module, ix)
		wf.n(uint64(len(f.Parts)))
		for pi := range f.Parts {
			p := &f.Parts[pi]
			wf.b(p.Live)
			if p.Live {
				e.stat("part:live")
			} else {
				e.stat("part:dead")
			}
			wf.n(uint64(len(p.Declared)))
			for _, ds := range p.Declared {
				wf.n(ix(ds.Ref))
				wf.b(ds.IsTopLevel)
				if !ds.IsTopLevel {
					e.stat("part:declared-not-top-level")
				}
			}
			wf.n(uint64(len(p.Uses)))
			for _, u := range p.Uses {
				wf.n(ix(u.Ref))
				wf.n(uint64(u.Count))
			}
			wf.n(uint64(len(p.Scopes)))
			for _, path := range p.Scopes {
				wf.n(uint64(len(path)))
				for _, st := range path {
					wf.n(uint64(st))
				}
				switch {
				case len(path) == 0:
					e.stat("scope:module-itself")
				case len(path) == 1:
					e.stat("scope:outermost")
				default:
					e.stat("scope:deeper-skipped")
				}
			}
			wf.n(uint64(len(p.Stmts)))
			for _, st := range p.Stmts {
				wf.n(uint64(st.Kind))
				wf.b(st.Ext)
				wf.n(ix(st.Ns))
				if st.HasDefault {
					wf.n(1)
					wf.n(ix(st.Default))
				} else {
					wf.n(0)
				}
				wf.n(uint64(len(st.Items)))
				for _, it := range st.Items {
					wf.n(ix(it))
				}
				if f.Wrap == 1 && st.Ext && d.KeepESM {
					e.stat(fmt.Sprintf("cjs-hoisted-external-stmt:kind=%d", st.Kind))
				}
			}
		}
	}
	for _, r := range d.Imports {
		wi.n(ix(r))
	}
	if len(d.Imports) > 0 {
		e.stat("chunk:has-cross-chunk-imports")
	}
	head, tail := alphabets(d.Minifier)
	var fl natw
	fl.b(d.Minify)
	fl.b(d.CJSNode)
	fl.b(d.Bundling)
	fl.b(d.KeepESM)
	op = strings.Join([]string{"chunknames", fl.String(), head, tail, ws.String(), wf.String(), ccDash(wi.String())}, "\t")
	exp = ccDash(strings.Join(names, ",")) + "|hyp=ok"
	return op, exp, true
}

var cnMutex sync.Mutex

var cnTopNames = []string{"foo", "a", "b", "foo2", "x", "x2", "value", "e", "t", "foo3", "a2"}
var cnFree = []string{"a", "b", "c", "e", "t", "n", "r", "i", "foo2", "foo3", "x2", "a2", "value2", "aa", "ab", "A", "B"}

// cnBody: statements for the top level of a module that declare `names` and nest scopes which shadow them
func cnBody(r *gen.Rand, e *emitter, sb *strings.Builder, names []string, strict bool) {
	pick := func() string { return cnTopNames[r.Intn(len(cnTopNames))] }
	for k := 0; k < 1+r.Intn(4); k++ {
		n := names[r.Intn(len(names))]
		switch r.Intn(12) {
		case 0:
			p, q := pick(), pick()
			if p == q {
				q = q + "_"
			}
			fmt.Fprintf(sb, "function fn_%d_%s(%s, %s) { let %s = %s + 1; { let %s = 2; console.log(%s, %s); } return %s; }\n", k, n, p, q, n+"_in", p, p, p, n, q)
			e.stat("gen:function-params-shadow")
		case 1:
			fmt.Fprintf(sb, "{ var hoisted_%s = 1; let %s = 2; console.log(%s, hoisted_%s); }\n", n, n, n, n)
			e.stat("gen:block-with-hoisted-var")
		case 2:
			fmt.Fprintf(sb, "try { throw 1 } catch (%s) { let %s = %s; console.log(%s); }\n", pick(), "c_"+n, n, n)
			e.stat("gen:catch-binding")
		case 3:
			l := pick()
			fmt.Fprintf(sb, "%s: for (let %s = 0; %s < 1; %s++) { inner_%d: { if (%s) break %s; break inner_%d; } }\n", l, l, l, l, k, l, l, k)
			e.stat("gen:labels-named-like-variables")
		case 4:
			fmt.Fprintf(sb, "class K_%d_%s { #%s = 1; #b = 2; static %s(%s) { return %s.#%s + %s.#b; } }\nconsole.log(K_%d_%s);\n", k, n, n, n, n, n, n, n, k, n)
			e.stat("gen:class-private-names")
		case 5:
			p := pick()
			fmt.Fprintf(sb, "function ev_%d(%s) { let %s = 1; return eval(\"%s\"); }\nconsole.log(ev_%d);\n", k, p, p+"q", p, k)
			e.stat("gen:direct-eval-in-function")
		case 6:
			f := cnFree[r.Intn(len(cnFree))]
			fmt.Fprintf(sb, "console.log(typeof %s, %s);\n", f, n)
			e.stat("gen:free-global-read")
		case 7:
			f := cnFree[r.Intn(len(cnFree))]
			fmt.Fprintf(sb, "function fg_%d(%s) { return typeof %s + %s; }\nconsole.log(fg_%d);\n", k, n, f, n, k)
			e.stat("gen:free-global-read-nested")
		case 8:
			p := pick()
			fmt.Fprintf(sb, "const fe_%d = function %s(%s_) { return (%s_ => %s_ + %s)(%s); };\nconsole.log(fe_%d);\n", k, p, p, n, n, p, p, k)
			e.stat("gen:named-function-expression+arrow")
		case 9:
			if !strict {
				p := pick()
				fmt.Fprintf(sb, "function w_%d(o, %s) { with (o) { var wv_%s = %s; return %s; } }\nconsole.log(w_%d);\n", k, p, p, p, n, k)
				e.stat("gen:with-statement")
			}
		case 10:
			fmt.Fprintf(sb, "if (%s) { function blockfn_%d() { return %s; } console.log(blockfn_%d); }\n", n, k, n, k)
			e.stat("gen:function-in-block")
		default:
			p := pick()
			fmt.Fprintf(sb, "for (var %s_i = 0, %s_l = 1; %s_i < %s_l; %s_i++) { let %s = %s; console.log(%s); }\n", p, p, p, p, p, p, n, p)
			e.stat("gen:loop-scope")
		}
	}
}

// cnProject: files and entry points that are all about names colliding across the files of a chunk
func cnProject(r *gen.Rand, e *emitter) (map[string]string, []string) {
	files := map[string]string{}
	nSh := 1 + r.Intn(4)
	nCj := r.Intn(3)
	nEnt := 1 + r.Intn(3)
	shExports := make([][]string, nSh)
	for i := 0; i < nSh; i++ {
		var sb strings.Builder
		names := []string{}
		for _, k := range []int{r.Intn(len(cnTopNames)), r.Intn(len(cnTopNames)), r.Intn(len(cnTopNames))} {
			n := cnTopNames[k]
			dup := false
			for _, m := range names {
				dup = dup || m == n
			}
			if !dup {
				names = append(names, n)
			}
		}
		if i > 0 && r.Chance(1, 3) {
			j := r.Intn(i)
			al := shExports[j][r.Intn(len(shExports[j]))]
			loc := cnTopNames[r.Intn(len(cnTopNames))]
			ok := true
			for _, m := range names {
				ok = ok && m != loc
			}
			if ok {
				fmt.Fprintf(&sb, "import { %s as %s } from \"./s%d.js\";\nconsole.log(%s);\n", al, loc, j, loc)
				e.stat("gen:shared-imports-shared")
			}
		}
		if r.Chance(1, 6) {
			fmt.Fprintf(&sb, "import * as ns_%d from \"ext-pkg\";\nimport %s_ext, { it as it_%d } from \"ext-pkg\";\nconsole.log(ns_%d, %s_ext, it_%d);\n", i, names[0], i, i, names[0], i)
			e.stat("gen:esm-external-import")
		}
		for k, n := range names {
			kind := []string{"let", "var", "const", "function", "class"}[r.Intn(5)]
			switch kind {
			case "function":
				fmt.Fprintf(&sb, "function %s(%s) { return %s; }\n", n, names[(k+1)%len(names)], names[(k+1)%len(names)])
			case "class":
				fmt.Fprintf(&sb, "class %s { m(%s) { return %s; } }\n", n, n, n)
			default:
				fmt.Fprintf(&sb, "%s %s = %d;\n", kind, n, i*10+k)
			}
			al := fmt.Sprintf("%s_%d", n, i)
			fmt.Fprintf(&sb, "export { %s as %s };\n", n, al)
			shExports[i] = append(shExports[i], al)
		}
		if r.Chance(1, 4) {
			// a user symbol named like the wrapper esbuild generates for this file or for a neighbour
			// (init_s0 / require_c0): which of the two keeps the name depends on the order of registration
			w := []string{fmt.Sprintf("init_s%d", i), fmt.Sprintf("init_s%d", r.Intn(nSh)), "require_c0", "require_c1", fmt.Sprintf("s%d_exports", i), "s0_default"}[r.Intn(6)]
			fmt.Fprintf(&sb, "%s %s = %d;\nconsole.log(%s);\n", []string{"let", "var", "const"}[r.Intn(3)], w, i, w)
			e.stat("gen:user-symbol-named-like-wrapper")
		}
		cnBody(r, e, &sb, names, true)
		if r.Chance(1, 5) {
			fmt.Fprintf(&sb, "export default function () { return %s; }\n", names[0])
			e.stat("gen:anonymous-default-export")
		}
		fmt.Fprintf(&sb, "console.log(\"s%d\", %s);\n", i, strings.Join(names, ", "))
		files[fmt.Sprintf("s%d.js", i)] = sb.String()
	}
	for i := 0; i < nCj; i++ {
		var sb strings.Builder
		names := []string{cnTopNames[r.Intn(len(cnTopNames))], "foo"}
		if names[0] == "foo" {
			names = names[:1]
		}
		if r.Chance(1, 3) {
			fmt.Fprintf(&sb, "import ext_%d, { named as %s_n, foo as foo_%d } from \"ext-pkg\";\nimport * as extns_%d from \"ext-pkg2\";\nimport \"ext-pkg3\";\nconsole.log(ext_%d, %s_n, extns_%d, foo_%d);\n", i, names[0], i, i, i, names[0], i, i)
			// bindings named like top-level symbols of files that come later in the chunk: once hoisted out of the
			// CommonJS wrapper they share a scope with those
			d, n1, n2 := cnTopNames[r.Intn(len(cnTopNames))], cnTopNames[r.Intn(len(cnTopNames))], cnTopNames[r.Intn(len(cnTopNames))]
			if d != n1 && d != n2 && n1 != n2 && d != "foo" && n1 != "foo" && n2 != "foo" && d != names[0] && n1 != names[0] && n2 != names[0] {
				fmt.Fprintf(&sb, "import %s, { it as %s } from \"ext-pkg4\";\nimport * as %s from \"ext-pkg5\";\nconsole.log(%s, %s, %s);\n", d, n1, n2, d, n1, n2)
				e.stat("gen:cjs-external-import-bindings-named-like-top-level-symbols")
			}
			if r.Chance(1, 3) {
				// an export keyword makes the file an ES module (wrapped as ESM when required)
				fmt.Fprintf(&sb, "export * from \"ext-pkg3\";\nexport { q as q_%d } from \"ext-pkg\";\n", i)
				e.stat("gen:esm-file-with-exports-assignments")
			} else {
				e.stat("gen:cjs-file-with-external-import-statements")
			}
		}
		for k, n := range names {
			fmt.Fprintf(&sb, "var %s = %d;\n", n, k)
		}
		if r.Chance(1, 3) {
			sb.WriteString(gen.NewScopeGen(r.Fork()).Program())
			e.stat("gen:cjs-file-scopegen-program")
		} else {
			cnBody(r, e, &sb, names, false)
		}
		if r.Bool() {
			fmt.Fprintf(&sb, "exports.c_%d = %s;\n", i, names[0])
		} else {
			fmt.Fprintf(&sb, "module.exports = { c_%d: %s };\n", i, names[0])
		}
		files[fmt.Sprintf("c%d.js", i)] = sb.String()
	}
	if r.Chance(1, 6) {
		for k, v := range gen.NewScopeGen(r.Fork()).Module() {
			if k != "package.json" {
				files[k] = v
			}
		}
		e.stat("gen:scopegen-module-pair")
	}
	entries := []string{}
	for j := 0; j < nEnt; j++ {
		var sb, body strings.Builder
		names := []string{cnTopNames[r.Intn(len(cnTopNames))]}
		for k := 0; k < 1+r.Intn(4); k++ {
			i := r.Intn(nSh)
			al := shExports[i][r.Intn(len(shExports[i]))]
			switch r.Intn(9) {
			case 0, 1, 2:
				loc := fmt.Sprintf("%s_%d", cnTopNames[r.Intn(len(cnTopNames))], k)
				if r.Bool() {
					loc = strings.TrimSuffix(al, fmt.Sprintf("_%d", i)) // the original name again
					if loc == names[0] || strings.Contains(sb.String(), " "+loc+" }") {
						loc = al
					}
				}
				fmt.Fprintf(&sb, "import { %s as %s } from \"./s%d.js\";\n", al, loc, i)
				fmt.Fprintf(&body, "console.log(%s);\n", loc)
			case 3:
				fmt.Fprintf(&sb, "import * as nsimp_%d from \"./s%d.js\";\n", k, i)
				fmt.Fprintf(&body, "console.log(nsimp_%d.%s, nsimp_%d);\n", k, al, k)
				e.stat("gen:namespace-import")
			case 4:
				if nCj > 0 {
					c := r.Intn(nCj)
					fmt.Fprintf(&sb, "import cj_%d, { c_%d as cjn_%d } from \"./c%d.js\";\n", k, c, k, c)
					fmt.Fprintf(&body, "console.log(cj_%d, cjn_%d);\n", k, k)
					e.stat("gen:import-from-cjs")
				}
			case 5:
				fmt.Fprintf(&body, "console.log(require(\"./s%d.js\"));\n", i)
				e.stat("gen:require-esm")
			case 6:
				fmt.Fprintf(&body, "import(\"./s%d.js\").then(%s => console.log(%s));\n", i, names[0], names[0])
				e.stat("gen:dynamic-import")
			case 7:
				if _, ok := files["main.js"]; ok {
					fmt.Fprintf(&sb, "import \"./main.js\";\n")
				} else if nCj > 0 {
					fmt.Fprintf(&body, "console.log(require(\"./c%d.js\"));\n", r.Intn(nCj))
				}
			default:
				fmt.Fprintf(&sb, "export { %s as re_%d } from \"./s%d.js\";\n", al, k, i)
			}
		}
		fmt.Fprintf(&sb, "let %s = %d;\nexport { %s as own_%d };\n", names[0], j, names[0], j)
		sb.WriteString(body.String())
		cnBody(r, e, &sb, names, true)
		if r.Chance(1, 5) {
			w := []string{"init_s0", "init_s1", "require_c0", "require_c1", "s0_exports", "exports", "module", "require", "Promise"}[r.Intn(9)]
			fmt.Fprintf(&sb, "function wrapperlike_%d(%s) { return %s; }\nconsole.log(wrapperlike_%d);\n", j, w, w, j)
			if w != "exports" && w != "module" && w != "require" {
				fmt.Fprintf(&sb, "let %s = %d;\nconsole.log(%s);\n", w, j, w)
			}
			e.stat("gen:entry-symbol-named-like-wrapper-or-reserved")
		}
		name := fmt.Sprintf("e%d.js", j)
		if r.Chance(1, 8) {
			name = fmt.Sprintf("e%d.jsx", j)
			comp := []string{"Comp", "A", "foo"}[r.Intn(3)]
			fmt.Fprintf(&sb, "function %s() { return null; }\nlet Other = %s;\nconsole.log(<%s x={1}><Other/></%s>);\n", comp, comp, strings.Title(comp), strings.Title(comp))
			if comp == "foo" {
				sb.WriteString("const Foo = foo;\n")
			}
			ji := r.Intn(nSh)
			fmt.Fprintf(&sb, "import { %s as Jsx_%d } from \"./s%d.js\";\nconsole.log(<Jsx_%d/>);\n", shExports[ji][r.Intn(len(shExports[ji]))], j, ji, j)
			e.stat("gen:jsx-element-names")
		} else if r.Chance(1, 8) {
			name = fmt.Sprintf("e%d.ts", j)
			fmt.Fprintf(&sb, "namespace NS_%d { export const %s = 1; export namespace Inner { export let %s = %s + 1; } }\nenum En_%d { %s = 1, B = %s * 2 }\nconsole.log(NS_%d, En_%d);\n", j, names[0], names[0], names[0], j, "A", "A", j, j)
			e.stat("gen:ts-namespace-enum")
		}
		files[name] = sb.String()
		entries = append(entries, name)
	}
	return files, entries
}

func cnCorrupt(r *gen.Rand, op string) string {
	args := strings.Split(op, "\t")
	k := 4 + r.Intn(2)
	switch r.Intn(6) {
	case 0:
		return strings.Join(args[:len(args)-1], "\t")
	case 1:
		args[k] = args[k] + ",x"
	case 2:
		if i := strings.LastIndex(args[k], ","); i > 0 {
			args[k] = args[k][:i]
		} else {
			args[k] = ""
		}
	case 3:
		args[k] = args[k] + ",7"
	case 4:
		args[6] = "1,,2"
	default:
		args[1] = "2,0,0,0"
	}
	return strings.Join(args, "\t")
}

func init() {
	kernels["chunknames"] = func(r *gen.Rand, e *emitter, tier string) {
		for !e.full() {
			var files map[string]string
			var entries []string
			if r.Chance(1, 5) {
				ents := 1 + r.Intn(3)
				g := gen.GenGraph(r, gen.GraphOpts{Modules: ents + 1 + r.Intn(5), Entries: ents, AllowCJS: r.Chance(1, 2), AllowDyn: r.Chance(1, 2),
					AllowCycle: r.Chance(1, 3), AllowStar: r.Chance(2, 3), SideEffectFreeDecls: r.Bool(), CollidingNames: true, AvoidInPlaceOrder: true})
				files, entries = g.Files, g.Entries[:ents]
				e.stat("graph:module-graph")
			} else {
				files, entries = cnProject(r, e)
				e.stat("graph:name-collision-templates")
			}
			fs := files
			plugin := api.Plugin{Name: "mem", Setup: func(b api.PluginBuild) {
				b.OnResolve(api.OnResolveOptions{Filter: `.*`}, func(a api.OnResolveArgs) (api.OnResolveResult, error) {
					if strings.HasPrefix(a.Path, "ext-pkg") {
						return api.OnResolveResult{Path: a.Path, External: true}, nil
					}
					return api.OnResolveResult{Path: strings.TrimPrefix(a.Path, "./"), Namespace: "v"}, nil
				})
				b.OnLoad(api.OnLoadOptions{Filter: `.*`, Namespace: "v"}, func(a api.OnLoadArgs) (api.OnLoadResult, error) {
					c, ok := fs[a.Path]
					if !ok {
						return api.OnLoadResult{}, fmt.Errorf("no such file %s", a.Path)
					}
					l := api.LoaderJS
					switch {
					case strings.HasSuffix(a.Path, ".jsx"):
						l = api.LoaderJSX
					case strings.HasSuffix(a.Path, ".ts"):
						l = api.LoaderTS
					case strings.HasSuffix(a.Path, ".json"):
						l = api.LoaderJSON
					case strings.HasSuffix(a.Path, ".txt"):
						l = api.LoaderText
					}
					return api.OnLoadResult{Contents: &c, Loader: l}, nil
				})
			}}
			eps := make([]string, len(entries))
			for i, en := range entries {
				eps[i] = "./" + en
			}
			bo := api.BuildOptions{EntryPoints: eps, Bundle: true, Outdir: "/out", Write: false,
				LogLevel: api.LogLevelSilent, Format: api.FormatESModule, Plugins: []api.Plugin{plugin}}
			switch r.Intn(8) {
			case 0, 1, 2:
				bo.Splitting = true
				e.stat("opt:splitting")
			case 3:
				bo.Format = api.FormatCommonJS
				e.stat("opt:format=cjs")
			case 4:
				bo.Format = api.FormatIIFE
				e.stat("opt:format=iife")
			case 5:
				bo.Format = api.FormatCommonJS
				bo.Platform = api.PlatformNode
				e.stat("opt:format=cjs+platform=node")
			}
			for _, en := range entries {
				if strings.HasSuffix(en, ".jsx") && r.Chance(2, 3) {
					bo.JSX = api.JSXPreserve
					e.stat("opt:jsx=preserve")
				}
			}
			if r.Chance(1, 10) && !bo.Splitting {
				bo.Bundle = false
				e.stat("opt:no-bundle")
			}
			if r.Chance(2, 5) {
				bo.MinifyIdentifiers = true
				e.stat("opt:minify-identifiers")
			}
			if r.Chance(1, 4) {
				bo.MinifySyntax = true
			}
			if r.Chance(1, 6) {
				bo.TreeShaking = api.TreeShakingFalse
				if !bo.Bundle && bo.Format != api.FormatESModule {
					bo.TreeShaking = api.TreeShakingDefault
				}
			}
			if r.Chance(1, 4) && bo.Platform == 0 {
				bo.Platform = api.PlatformNode
			}
			dumps := []linker.VerifCNDump{}
			linker.VerifSetChunkNamesObserver(func(d linker.VerifCNDump) {
				cnMutex.Lock()
				dumps = append(dumps, d)
				cnMutex.Unlock()
			})
			var res api.BuildResult
			panicked := guard(func() string { res = api.Build(bo); return "" }) == "PANIC"
			linker.VerifSetChunkNamesObserver(nil)
			if panicked {
				e.stat("esbuild-panic")
				e.emit("chunknames\tesbuild-panicked", "esbuild panicked during this build")
				continue
			}
			if len(res.Errors) > 0 {
				e.stat("build-error")
				continue
			}
			if len(dumps) == 0 {
				e.stat("build-without-js-chunk")
				continue
			}
			sort.Slice(dumps, func(i, j int) bool { return dumps[i].ChunkIndex < dumps[j].ChunkIndex })
			for i := range dumps {
				d := &dumps[i]
				if e.full() {
					break
				}
				if d.Bad != "" {
					e.stat("hook-could-not-describe-chunk")
					e.emit("chunknames\thook-failed", d.Bad)
					continue
				}
				op, exp, ok := cnOpAndExpected(d, e)
				if !ok {
					e.stat("skipped:non-ascii-name")
					continue
				}
				if d.Minify {
					e.stat("chunk:minify")
				} else {
					e.stat("chunk:number")
				}
				nf := len(d.Files)
				if nf > 5 {
					nf = 5
				}
				e.stat(fmt.Sprintf("chunk:files=%d", nf))
				e.emit(op, exp)
				if r.Chance(1, 40) && !e.full() {
					e.emit(cnCorrupt(r, op), "bad-op")
					e.stat("malformed-op")
				}
			}
		}
	}
}
