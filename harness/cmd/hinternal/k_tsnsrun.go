package main

import (
	"encoding/json"
	"fmt"
	"os"
	"os/exec"
	"path/filepath"
	"strings"

	"github.com/evanw/esbuild/pkg/api"
	"github.com/evanw/esbuild/verifharness/gen"
)

// kernel "tsnsrun": behaviour.  A generated program (values stay primitives where the evaluators need it) is
// compiled by the REAL pkg/api Transform (loader ts; minify-syntax / arrow / let / logical-assignment drawn per
// case) and the output is run in Node: probe trace, outcome (ok / TypeError / ReferenceError) and, after a normal
// end, the object graph below the module-level namespace / enum names (own keys in Object.keys order, objects
// numbered by first visit).  Two operations per program, both expecting Node's result:
//   tsns run  : the model's compiled program under the JavaScript semantics of Spec/TsNsJs.lean
//   tsns spec : the source program under the TypeScript semantics of Spec/TsNamespaces.lean
// (programs on which the two are known to differ are not generated; see the package report for that list).

const tsnsRunner = `
const fs = require('fs');
const cases = JSON.parse(fs.readFileSync(process.argv[2], 'utf8'));
function show(v) {
  if (v === undefined) return 'u';
  if (typeof v === 'number') return String(v);
  if (typeof v === 'string') return "'" + v;
  if (typeof v === 'function') return 'fn:' + v.name.replace(/\d+$/, '');
  return '?';
}
function dump(v, seen) {
  if (v !== null && typeof v === 'object') {
    const i = seen.indexOf(v);
    if (i >= 0) return '@' + i;
    seen.push(v);
    const me = seen.length - 1;
    const parts = [];
    for (const k of Object.keys(v)) parts.push(k + ':' + dump(v[k], seen));
    return '@' + me + '{' + parts.join(',') + '}';
  }
  return show(v);
}
const out = [];
for (const c of cases) {
  const T = [];
  const p = (tag, v) => { T.push([tag, v]); return v; };
  let outcome = 'ok', res = null;
  try {
    const tail = '; return [' + c.names.map(n => 'typeof ' + n + " === 'undefined' ? undefined : " + n).join(', ') + '];';
    res = new Function('p', c.code + tail)(p);
  } catch (e) { outcome = e && e.name ? e.name : 'throw'; }
  let line = 'trace[' + T.map(([t, v]) => t + '=' + dump(v, [])).join(';') + '] ' + outcome;
  if (outcome === 'ok') { const seen = []; c.names.forEach((n, i) => { line += ' ' + n + '=' + dump(res[i], seen); }); }
  out.push(line);
}
fs.writeFileSync(process.argv[3], out.join('\n') + '\n');
`

type tsnsRunCase struct {
	Code  string   `json:"code"`
	Names []string `json:"names"`
}

func tsnsTopNames(ms []*tnMember) []string {
	names := []string{}
	seen := map[string]bool{}
	for _, m := range ms {
		if (m.k == 'N' || m.k == 'E') && !seen[m.name] {
			seen[m.name] = true
			names = append(names, m.name)
		}
	}
	return names
}

func init() {
	kernels["tsnsrun"] = func(r *gen.Rand, e *emitter, tier string) {
		dir, err := os.MkdirTemp("", "tsnsrun")
		if err != nil {
			panic(err)
		}
		defer os.RemoveAll(dir)
		runner := filepath.Join(dir, "runner.js")
		os.WriteFile(runner, []byte(tsnsRunner), 0644)
		for !e.full() {
			type pending struct{ opts, wire string }
			batch := []tsnsRunCase{}
			pend := []pending{}
			for len(batch) < 150 {
				ms, arrow, let, la := r.Bool(), r.Chance(3, 4), r.Chance(3, 4), r.Chance(2, 3)
				g := &tnGen{r: r, ms: ms, let: let, e: e, tame: true}
				mem, src, wire := tnProgram(g)
				res := api.Transform(src, api.TransformOptions{Loader: api.LoaderTS, MinifySyntax: ms,
					Supported: map[string]bool{"arrow": arrow, "const-and-let": let, "logical-assignment": la}, LogLevel: api.LogLevelSilent})
				if len(res.Errors) > 0 {
					e.stat("transform-error")
					continue
				}
				batch = append(batch, tsnsRunCase{Code: string(res.Code), Names: tsnsTopNames(mem)})
				pend = append(pend, pending{b01(ms) + b01(arrow) + b01(let) + b01(la), wire})
			}
			js, _ := json.Marshal(batch)
			in, out := filepath.Join(dir, "cases.json"), filepath.Join(dir, "out.txt")
			os.WriteFile(in, js, 0644)
			if o, err := exec.Command("node", runner, in, out).CombinedOutput(); err != nil {
				fmt.Fprintln(os.Stderr, "node:", err, string(o))
				e.stat("node-error")
				return
			}
			data, _ := os.ReadFile(out)
			lines := strings.Split(strings.TrimRight(string(data), "\n"), "\n")
			for i, pd := range pend {
				if i >= len(lines) || e.full() {
					break
				}
				switch {
				case strings.Contains(lines[i], "] ok"):
					e.stat("outcome:ok")
				case strings.Contains(lines[i], "TypeError"):
					e.stat("outcome:TypeError")
				case strings.Contains(lines[i], "ReferenceError"):
					e.stat("outcome:ReferenceError")
				default:
					e.stat("outcome:other")
				}
				if strings.Contains(lines[i], "=") && strings.Contains(lines[i], "trace[t") {
					e.stat("trace-nonempty")
				}
				e.emit("tsns\trun\t"+pd.opts+"\t"+pd.wire, lines[i])
				e.emit("tsns\tspec\t"+pd.opts+"\t"+pd.wire, lines[i])
			}
		}
	}
}
