package main

import (
	"fmt"
	"sort"
	"strings"
	"sync"
	"time"

	"github.com/evanw/esbuild/pkg/api"
	"github.com/evanw/esbuild/verifharness/gen"
)

// kernel "watchloop": the real pkg/api watcher (setWatchData, tryToFindDirtyPath, the start goroutine, stop) on a
// hand-built watcher whose predicates are scripted closures (api.VerifWatcher, verif_hooks.go).
//
// The scan order of the real code comes from Go's map iteration and math/rand seeded with the clock, so the model is
// compared as TRACE INCLUSION: every line carries the state before the step (read through the hook) and, when the
// poll refilled itemsToScan, the order the real code produced (the array behind the slice); the model must accept that
// order (a permutation of the keys), make the same predicate calls in the same order, return the same path and end in
// the same state. Because of that the op lines of a seed differ from run to run in the ORDER fields only.
//
//   poll : one tryToFindDirtyPath (state, scripted answers, answers that flip in the middle of the poll)
//   set  : one setWatchData
//   loop : one run of the real goroutine (start … shouldStop) with a scripted rebuild callback; all predicate calls are
//          logged; the model replays the log. These runs sleep 100 ms per iteration, so they run concurrently.

type wlFlip struct {
	c         int
	path, ans string
}

type wlScen struct {
	r       *gen.Rand
	v       *api.VerifWatcher
	prefix  string
	keys    []string          // sorted keys of the current watch data
	world   map[string]string // what each predicate answers now ("" = clean)
	flips   []wlFlip
	flipPos int
	counter int
	calls   []string
	serial  int
	// loop mode
	loopMode bool
	rl       *gen.Rand
	global   int
	stopAt   int
	dirtyDen int
	lastSnap []string
	log      []string
	rebuilds []string
	sets     bool
	minN     int
}

var wlOdd = []string{"/a b/ü.js", "C\\x\\y.ts", "日本/語.css", "/p/../q", "/A", "/a", "x y", "#", "p0/"}

func (s *wlScen) name(i int) string {
	if i < len(wlOdd) && s.prefix == "o" {
		return wlOdd[i]
	}
	return fmt.Sprintf("%s%d", s.prefix, i)
}

func (s *wlScen) dirtyAnswer(r *gen.Rand, p string) string {
	switch r.Intn(4) {
	case 0:
		return p + "/sub" // a directory predicate reports an entry of the directory
	case 1:
		return "Z"
	}
	return p
}

// the predicate stored for path p
func (s *wlScen) predicate(p string) func() string {
	return func() string {
		if s.loopMode {
			g := s.global
			s.global++
			ans := ""
			if s.rl.Intn(s.dirtyDen) == 0 {
				ans = s.dirtyAnswer(s.rl, p)
			}
			entry := p + "=" + ans
			snap := s.v.Backing()
			if !wlEqual(snap, s.lastSnap) || g == 0 {
				entry += "@" + wlList(snap)
				s.lastSnap = snap
			}
			s.log = append(s.log, entry)
			if g+1 == s.stopAt {
				s.v.RequestStop()
			}
			return ans
		}
		c := s.counter
		s.counter++
		for s.flipPos < len(s.flips) && s.flips[s.flipPos].c <= c {
			f := s.flips[s.flipPos]
			s.world[f.path] = f.ans
			s.flipPos++
		}
		s.calls = append(s.calls, p)
		return s.world[p]
	}
}

func wlEqual(a, b []string) bool {
	if len(a) != len(b) {
		return false
	}
	for i := range a {
		if a[i] != b[i] {
			return false
		}
	}
	return true
}

func wlList(l []string) string {
	if len(l) == 0 {
		return "-"
	}
	return strings.Join(l, ",")
}

func (s *wlScen) state() string {
	items, recent, per := s.v.State()
	return wlList(items) + "\t" + wlList(recent) + "\t" + fmt.Sprint(per)
}

func (s *wlScen) stateOut() string {
	items, recent, per := s.v.State()
	return wlList(items) + "|" + wlList(recent) + "|" + fmt.Sprint(per)
}

func (s *wlScen) mapOf(keys []string) map[string]func() string {
	m := make(map[string]func() string, len(keys))
	for _, k := range keys {
		m[k] = s.predicate(k)
	}
	return m
}

// sizes: 0, tiny, around minItemCountPerIter = 64, medium, around 64*20 = 1280 where itemsPerIteration starts to grow
func wlSize(r *gen.Rand, class int) int {
	switch class {
	case 0:
		if r.Chance(1, 12) {
			return 0
		}
		return 1 + r.Intn(12)
	case 1:
		return 60 + r.Intn(11)
	case 2:
		return 13 + r.Intn(47)
	case 3:
		return 71 + r.Intn(130)
	case 4: // itemsPerIteration = ⌈n/20⌉ leaves 64 at n = 1281; the rounding matters at multiples of 20
		return 1260 + 20*r.Intn(4) + r.Intn(3) - 1
	}
	return 1300 + 20*r.Intn(70) + r.Intn(3) - 1
}

func wlClass(r *gen.Rand) int {
	x := r.Intn(100)
	switch {
	case x < 50:
		return 0
	case x < 70:
		return 1
	case x < 80:
		return 2
	case x < 97:
		return 3
	case x < 99:
		return 4
	}
	return 5
}

func (s *wlScen) freshKeys(n int) []string {
	base := s.serial
	s.serial += s.r.Intn(3)
	keys := make([]string, 0, n)
	for i := 0; i < n; i++ {
		keys = append(keys, s.name(base+i))
	}
	sort.Strings(keys)
	return keys
}

// a mutation of the current key set: some removed, some added
func (s *wlScen) mutatedKeys(minN int) []string {
	r := s.r
	if s.loopMode {
		r = s.rl
	}
	var keys []string
	drop := r.Intn(3)
	for _, k := range s.keys {
		if drop > 0 && len(s.keys)-1 >= minN && r.Chance(1, 1+len(s.keys)/2) {
			drop--
			continue
		}
		keys = append(keys, k)
	}
	for add := r.Intn(3); add > 0 || len(keys) < minN; add-- {
		s.serial++
		k := fmt.Sprintf("%sn%d", s.prefix, s.serial)
		keys = append(keys, k)
	}
	sort.Strings(keys)
	out := keys[:0]
	for i, k := range keys {
		if i == 0 || k != keys[i-1] {
			out = append(out, k)
		}
	}
	return out
}

func wlPerIterOf(n int) int {
	p := (n + 19) / 20
	if p < 64 {
		p = 64
	}
	return p
}

func (s *wlScen) worldLine() string {
	var ps []string
	for p, a := range s.world {
		if a != "" {
			ps = append(ps, p+"="+a)
		}
	}
	sort.Strings(ps)
	return wlList(ps)
}

func (s *wlScen) randomKey() string {
	if len(s.keys) == 0 {
		return s.prefix + "ghost"
	}
	return s.keys[s.r.Intn(len(s.keys))]
}

// edits of the world between two polls
func (s *wlScen) edit(e *emitter) {
	r := s.r
	_, recent, _ := s.v.State()
	if r.Chance(1, 2) {
		for p := range s.world {
			delete(s.world, p)
		}
	}
	switch x := r.Intn(100); {
	case x < 30:
		e.stat("world-quiet")
	case x < 62:
		e.stat("world-one-or-two")
		for i := 1 + r.Intn(2); i > 0; i-- {
			p := s.randomKey()
			s.world[p] = s.dirtyAnswer(r, p)
		}
	case x < 80 && len(recent) > 0:
		e.stat("world-recent-dirty")
		p := recent[r.Intn(len(recent))]
		s.world[p] = s.dirtyAnswer(r, p)
		if r.Chance(1, 3) {
			q := s.randomKey()
			s.world[q] = s.dirtyAnswer(r, q)
		}
	default:
		e.stat("world-many")
		den := 2 + r.Intn(6)
		for i, p := range s.keys {
			if i > 400 {
				break
			}
			if r.Intn(den) == 0 {
				s.world[p] = s.dirtyAnswer(r, p)
			}
		}
	}
	if len(recent) >= 8 && r.Chance(2, 3) {
		// let the scan (not the recent list) find the next dirty path, so that the recent list fills up and evicts
		for _, p := range recent {
			delete(s.world, p)
		}
		e.stat("world-recent-cleaned")
	}
	// answers that change while the poll runs
	s.flips = s.flips[:0]
	s.flipPos = 0
	if r.Chance(1, 4) {
		items, _, per := s.v.State()
		span := len(recent) + 2
		if len(items) == 0 {
			span += len(s.keys)
		} else if per < len(items) {
			span += per
		} else {
			span += len(items)
		}
		for i := 1 + r.Intn(3); i > 0; i-- {
			var p string
			if len(recent) > 0 && r.Chance(1, 2) {
				p = recent[r.Intn(len(recent))]
			} else {
				p = s.randomKey()
			}
			ans := ""
			if r.Chance(2, 3) {
				ans = s.dirtyAnswer(r, p)
			}
			s.flips = append(s.flips, wlFlip{c: r.Intn(span), path: p, ans: ans})
		}
		sort.SliceStable(s.flips, func(i, j int) bool { return s.flips[i].c < s.flips[j].c })
		e.stat("world-flips")
	}
}

func (s *wlScen) flipLine() string {
	var fs []string
	for _, f := range s.flips {
		fs = append(fs, fmt.Sprintf("%d:%s=%s", f.c, f.path, f.ans))
	}
	return wlList(fs)
}

// one tryToFindDirtyPath; false if it panicked
func (s *wlScen) poll(e *emitter) bool {
	s.edit(e)
	pre := s.state()
	items, recent, _ := s.v.State()
	refilled := len(items) == 0
	base, flips := s.worldLine(), s.flipLine()
	s.counter, s.calls = 0, nil
	ret := guard(func() string { return "ok:" + s.v.TryToFindDirtyPath() })
	order := "-"
	if refilled {
		order = wlList(s.v.Backing())
		e.stat("poll-refill")
	}
	op := fmt.Sprintf("watchloop\tpoll\t%s\t%s\t%s\t%s\t%s", wlList(s.keys), pre, order, base, flips)
	if ret == "PANIC" {
		e.stat("poll-PANIC")
		e.emit(op, "PANIC")
		return false
	}
	ret = ret[3:]
	_, recentAfter, _ := s.v.State()
	switch {
	case ret == "":
		e.stat("poll-clean")
	case len(s.calls) <= len(recent):
		e.stat("poll-hit-recent")
	case len(recentAfter) == 16 && len(recent) >= 16:
		e.stat("poll-hit-scan-evict")
	default:
		e.stat("poll-hit-scan")
	}
	if len(items) > 0 {
		e.stat("poll-mid-round")
	}
	e.emit(op, ret+"|"+s.stateOut()+"|"+wlList(s.calls))
	return true
}

func (s *wlScen) setData(e *emitter, keys []string) {
	pre := s.state()
	old := wlList(s.keys)
	s.v.SetWatchData(s.mapOf(keys))
	s.keys = keys
	e.emit(fmt.Sprintf("watchloop\tset\t%s\t%s\t%s", old, pre, wlList(keys)), s.stateOut())
}

// overwrite the private lists: consistent states in the middle of a round, and inconsistent ones (paths that are not
// keys → nil func call, more than 16 recent items, duplicates, itemsPerIteration 0)
func (s *wlScen) inject(e *emitter) {
	r := s.r
	pick := func(n int, distinct bool) []string {
		var out []string
		if len(s.keys) == 0 {
			return out
		}
		perm := r.Intn(len(s.keys))
		for i := 0; i < n; i++ {
			if distinct {
				if i >= len(s.keys) {
					break
				}
				out = append(out, s.keys[(perm+i*7)%len(s.keys)])
				if len(s.keys)%7 == 0 {
					out[len(out)-1] = s.keys[(perm+i)%len(s.keys)]
				}
			} else {
				out = append(out, s.randomKey())
			}
		}
		return out
	}
	per := []int{0, 1, 3, 64, wlPerIterOf(len(s.keys)), 100}[r.Intn(6)]
	items := pick(r.Intn(len(s.keys)+1), true)
	recent := pick(r.Intn(17), true)
	switch r.Intn(10) {
	case 0:
		e.stat("inject-ghost-recent")
		recent = append(recent, s.prefix+"ghost")
	case 1:
		e.stat("inject-ghost-item")
		items = append(items, s.prefix+"ghost")
		if r.Bool() {
			items[0], items[len(items)-1] = items[len(items)-1], items[0]
		}
	case 2, 3:
		e.stat("inject-long-recent")
		recent = pick(17+r.Intn(6), r.Bool())
	case 4:
		e.stat("inject-duplicates")
		items = pick(r.Intn(len(s.keys)+3), false)
		recent = pick(r.Intn(17), false)
	default:
		e.stat("inject-consistent")
	}
	s.v.Inject(items, recent, per)
}

type wlLoopResult struct {
	op, exp string
	stats   []string
}

// one run of the real goroutine
func wlRunLoop(r *gen.Rand, id int) wlLoopResult {
	s := &wlScen{r: r, prefix: fmt.Sprintf("L%d_", id), world: map[string]string{}}
	var res wlLoopResult
	stat := func(k string) { res.stats = append(res.stats, k) }
	class := []int{0, 0, 0, 0, 1, 1, 2, 3}[r.Intn(8)]
	n := wlSize(r, class)
	if n == 0 {
		n = 1
	}
	if n > 140 {
		n = 140
	}
	delay := []int{0, 0, 0, 7, 25, -3}[r.Intn(6)]
	s.sets = r.Bool()
	nreb := 0
	s.v = api.VerifNewWatcher(delay, func() map[string]func() string {
		nreb++
		var keys []string
		if s.rl.Chance(1, 3) {
			keys = s.keys
		} else {
			keys = s.mutatedKeys(s.minN)
		}
		s.keys = keys
		s.rebuilds = append(s.rebuilds, wlList(keys))
		m := s.mapOf(keys)
		if s.sets {
			s.v.SetWatchData(m)
		}
		return m
	})
	s.keys = s.freshKeys(n)
	s.v.SetWatchData(s.mapOf(s.keys))
	// warm up without the goroutine: a few hits so that recentItems is not empty, and possibly a round in progress
	dummy := &emitter{stats: map[string]int{}}
	for i := r.Intn(6); i > 0; i-- {
		s.edit(dummy)
		s.counter, s.calls = 0, nil
		s.v.TryToFindDirtyPath()
	}
	if r.Chance(1, 3) {
		s.v.SetWatchData(s.mapOf(s.keys))
	}
	items, recent, _ := s.v.State()
	if len(items) > 0 {
		stat("loop-start-mid-round")
	}
	if len(recent) > 0 {
		stat("loop-start-with-recent")
	}
	pre := s.state()
	keys0 := wlList(s.keys)
	m := n
	if m > 64 {
		m = 64
	}
	s.minN = (n + 1) / 2
	s.stopAt = 1 + r.Intn(5*m)
	s.dirtyDen = 2 * m
	if r.Chance(1, 4) {
		s.dirtyDen = 1 + m/2
	}
	s.rl = r.Fork()
	s.loopMode = true
	t0 := time.Now()
	s.v.Start()
	done := make(chan struct{})
	go func() { s.v.Wait(); close(done) }()
	select {
	case <-done:
	case <-time.After(60 * time.Second):
		s.v.RequestStop()
		<-done
		res.op, res.exp = "watchloop\tloop\ttimeout", "TIMEOUT"
		return res
	}
	elapsed := time.Since(t0)
	if nreb > 0 {
		stat("loop-rebuilt")
	} else {
		stat("loop-no-rebuild")
	}
	if nreb > 1 {
		stat("loop-rebuilt-twice+")
	}
	if delay > 0 {
		stat("loop-delay")
	}
	if s.sets {
		stat("loop-rebuild-sets-data")
	}
	if elapsed < 100*time.Millisecond {
		stat("loop-ERROR-faster-than-one-interval")
	}
	setsFlag := 0
	if s.sets {
		setsFlag = 1
	}
	rebuilds := "-"
	if len(s.rebuilds) > 0 {
		rebuilds = strings.Join(s.rebuilds, ";")
	}
	res.op = fmt.Sprintf("watchloop\tloop\t%d\t%d\t%s\t%s\t%d\t%s\t%s", delay, setsFlag, keys0, pre, s.stopAt,
		strings.Join(s.log, ";"), rebuilds)
	res.exp = fmt.Sprintf("%s|rebuilds=%d", s.stateOut(), nreb)
	return res
}

func init() {
	kernels["watchloop"] = func(r *gen.Rand, e *emitter, tier string) {
		// the step cases first; then the runs of the real goroutine, concurrently (they sleep 100 ms per iteration)
		nLoop := e.limit / 60
		if nLoop < 3 {
			nLoop = 3
		}
		if nLoop > e.limit {
			nLoop = e.limit
		}
		scen := 0
		for e.n < e.limit-nLoop {
			scen++
			s := &wlScen{r: r, world: map[string]string{}, prefix: []string{"p", "p", "q", "o"}[r.Intn(4)]}
			s.v = api.VerifNewWatcher(0, func() map[string]func() string { return nil })
			class := wlClass(r)
			e.stat(fmt.Sprintf("scenario-size-class-%d", class))
			steps := 10 + r.Intn(50)
			if class >= 4 {
				steps = 25 + r.Intn(20)
			}
			if r.Chance(3, 4) { // otherwise: polls on a watcher that never got data
				s.setData(e, s.freshKeys(wlSize(r, class)))
			} else {
				e.stat("scenario-no-initial-data")
			}
			for ; steps > 0 && e.n < e.limit-nLoop; steps-- {
				switch x := r.Intn(100); {
				case x < 78:
					if !s.poll(e) {
						steps = 0
					}
				case x < 90:
					switch r.Intn(10) {
					case 0, 1, 2:
						e.stat("set-same-keys")
						s.setData(e, s.keys)
					case 3, 4, 5, 6:
						e.stat("set-mutated-keys")
						s.setData(e, s.mutatedKeys(0))
					case 7:
						e.stat("set-nil")
						s.setData(e, nil)
					default:
						e.stat("set-fresh-keys")
						s.setData(e, s.freshKeys(wlSize(r, class)))
					}
				default:
					if class < 4 {
						s.inject(e)
					}
				}
			}
		}
		// a panic inside the real goroutine cannot be recovered here: keep what has been produced so far
		e.ops.Flush()
		e.exp.Flush()
		loopRes := make([]wlLoopResult, nLoop)
		var wg sync.WaitGroup
		sem := make(chan struct{}, 256)
		for i := 0; i < nLoop; i++ {
			fr := r.Fork()
			wg.Add(1)
			go func(i int, fr *gen.Rand) {
				defer wg.Done()
				sem <- struct{}{}
				loopRes[i] = wlRunLoop(fr, i)
				<-sem
			}(i, fr)
		}
		wg.Wait()
		for _, lr := range loopRes {
			for _, k := range lr.stats {
				e.stat(k)
			}
			e.stat("loop")
			e.emit(lr.op, lr.exp)
		}
	}
}
