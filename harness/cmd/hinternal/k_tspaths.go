package main

import (
	"encoding/json"
	"fmt"
	"os"
	"path"
	"runtime/debug"
	"sort"
	"strings"

	"github.com/evanw/esbuild/internal/ast"
	"github.com/evanw/esbuild/internal/cache"
	"github.com/evanw/esbuild/internal/config"
	"github.com/evanw/esbuild/internal/fs"
	"github.com/evanw/esbuild/internal/logger"
	"github.com/evanw/esbuild/internal/resolver"
	"github.com/evanw/esbuild/verifharness/gen"
)

// tspaths kernel: tsconfig "paths"/"baseUrl" and the package.json "browser" map, observed through the REAL
// resolver (resolver.NewResolver + Resolve on fs.MockFS). One operation = a whole little world (files,
// package.json contents, tsconfig.json contents) + (source directory, import path); the answer is the
// resolved file, "disabled <path>", "none" or "PANIC". The Lean side (Impl/ResolveWalk.lean) rebuilds the
// world from the same description: it parses the raw "paths"/"browser" properties itself.

type tsItem struct {
	s         string
	notString bool
}
type tsProp struct {
	key      string
	notArray bool
	items    []tsItem
}
type tsRaw struct {
	file     string
	extends  []string
	baseURL  *string
	hasPaths bool
	paths    []tsProp
}
type bProp struct {
	key  string
	kind byte // 'S' string, 'f' false, 't' true, 'x' other
	s    string
}
type pkgRaw struct {
	dir        string
	main       *string
	hasBrowser bool
	browser    []bProp
}
type tsWorld struct {
	browser bool
	exts    []string
	files   map[string]bool // plain files
	pkgs    []pkgRaw
	tss     []tsRaw
	taken   map[string]bool // every file path of the world
	dirs    map[string]bool // every directory of the world
}

func jstr(s string) string { b, _ := json.Marshal(s); return string(b) }

func (t *tsRaw) json() string {
	parts := []string{}
	if len(t.extends) == 1 {
		parts = append(parts, `"extends": `+jstr(t.extends[0]))
	} else if len(t.extends) > 1 {
		xs := []string{}
		for _, x := range t.extends {
			xs = append(xs, jstr(x))
		}
		parts = append(parts, `"extends": [`+strings.Join(xs, ", ")+`]`)
	}
	co := []string{}
	if t.baseURL != nil {
		co = append(co, `"baseUrl": `+jstr(*t.baseURL))
	}
	if t.hasPaths {
		props := []string{}
		for _, p := range t.paths {
			if p.notArray {
				props = append(props, jstr(p.key)+`: "not-an-array"`)
				continue
			}
			items := []string{}
			for _, it := range p.items {
				if it.notString {
					items = append(items, "42")
				} else {
					items = append(items, jstr(it.s))
				}
			}
			props = append(props, jstr(p.key)+`: [`+strings.Join(items, ", ")+`]`)
		}
		co = append(co, `"paths": {`+strings.Join(props, ", ")+`}`)
	}
	parts = append(parts, `"compilerOptions": {`+strings.Join(co, ", ")+`}`)
	return "{" + strings.Join(parts, ", ") + "}"
}

func (p *pkgRaw) json() string {
	parts := []string{`"name": ` + jstr(path.Base(p.dir))}
	if p.main != nil {
		parts = append(parts, `"main": `+jstr(*p.main))
	}
	if p.hasBrowser {
		props := []string{}
		for _, b := range p.browser {
			v := ""
			switch b.kind {
			case 'S':
				v = jstr(b.s)
			case 'f':
				v = "false"
			case 't':
				v = "true"
			default:
				v = "0"
			}
			props = append(props, jstr(b.key)+": "+v)
		}
		parts = append(parts, `"browser": {`+strings.Join(props, ", ")+`}`)
	}
	return "{" + strings.Join(parts, ", ") + "}"
}

func hx(s string) string { return hexBytes([]byte(s)) }

// wire: see the comment above `step` in lean/EsbuildModel/Impl/ResolveWalk.lean
func (w *tsWorld) wire() string {
	t := []string{}
	if w.browser {
		t = append(t, "B")
	} else {
		t = append(t, "N")
	}
	for _, e := range w.exts {
		t = append(t, "E"+hx(e))
	}
	fl := []string{}
	for f := range w.files {
		fl = append(fl, f)
	}
	sort.Strings(fl)
	for _, f := range fl {
		t = append(t, "F"+hx(f))
	}
	for _, p := range w.pkgs {
		t = append(t, "P"+hx(p.dir))
		if p.main != nil {
			t = append(t, "M"+hx(*p.main))
		}
		if p.hasBrowser {
			t = append(t, "R")
			for _, b := range p.browser {
				t = append(t, "K"+hx(b.key))
				if b.kind == 'S' {
					t = append(t, "S"+hx(b.s))
				} else {
					t = append(t, string(b.kind))
				}
			}
		}
	}
	for _, c := range w.tss {
		t = append(t, "T"+hx(c.file))
		for _, x := range c.extends {
			t = append(t, "X"+hx(x))
		}
		if c.baseURL != nil {
			t = append(t, "U"+hx(*c.baseURL))
		}
		if c.hasPaths {
			t = append(t, "Q")
			for _, p := range c.paths {
				t = append(t, "K"+hx(p.key))
				if p.notArray {
					t = append(t, "V")
					continue
				}
				t = append(t, "A")
				for _, it := range p.items {
					if it.notString {
						t = append(t, "J")
					} else {
						t = append(t, "I"+hx(it.s))
					}
				}
			}
		}
	}
	return strings.Join(t, " ")
}

// allFiles: the input of fs.MockFS
func (w *tsWorld) mockInput() map[string]string {
	m := map[string]string{}
	for f := range w.files {
		m[f] = ""
	}
	for i := range w.pkgs {
		m[path.Join(w.pkgs[i].dir, "package.json")] = w.pkgs[i].json()
	}
	for i := range w.tss {
		m[w.tss[i].file] = w.tss[i].json()
	}
	return m
}

// claim reserves a file path unless it would make some path both a file and a directory
func (w *tsWorld) claim(p string) bool {
	if p == "" || p[0] != '/' || path.Clean(p) != p || p == "/" {
		return false
	}
	if w.taken == nil {
		w.taken = map[string]bool{}
		w.dirs = map[string]bool{}
	}
	if w.taken[p] || w.dirs[p] {
		return false
	}
	for d := path.Dir(p); d != "/"; d = path.Dir(d) {
		if w.taken[d] {
			return false
		}
	}
	w.taken[p] = true
	for d := path.Dir(p); d != "/"; d = path.Dir(d) {
		w.dirs[d] = true
	}
	return true
}

// addFile adds a plain file (never a package.json / tsconfig.json, those come from addPkg / addTs)
func (w *tsWorld) addFile(p string) bool {
	if w.files[p] {
		return true
	}
	if strings.HasSuffix(p, "/package.json") || strings.HasSuffix(p, "/tsconfig.json") || !w.claim(p) {
		return false
	}
	w.files[p] = true
	return true
}

func (w *tsWorld) addPkg(p pkgRaw) bool {
	if !w.claim(path.Join(p.dir, "package.json")) {
		return false
	}
	w.pkgs = append(w.pkgs, p)
	return true
}

func (w *tsWorld) addTs(t tsRaw) bool {
	if !w.claim(t.file) {
		return false
	}
	w.tss = append(w.tss, t)
	return true
}

// tsNotes: what the REAL resolver says it did (its debug notes), turned into branch statistics
func tsNotes(e *emitter, log logger.Log, importPath string) {
	probeOf, first := "", ""
	last := ""
	for _, m := range log.Peek() {
		for _, n := range m.Notes {
			t := strings.TrimLeft(n.Text, " ")
			switch {
			case strings.HasPrefix(t, "Found an exact match for"):
				e.stat("real:paths:exact-match")
			case strings.HasPrefix(t, "Found a fuzzy match for"):
				e.stat("real:paths:pattern-match")
			case strings.HasPrefix(t, "Ignoring substitution"):
				e.stat("real:paths:d.ts-skipped")
			case strings.HasPrefix(t, "Found main field"):
				e.stat("real:main-field-found")
			case strings.HasPrefix(t, "Searching for ") && strings.Contains(t, "in \"node_modules\" directories"):
				e.stat("real:loadNodeModules-called")
			case strings.HasPrefix(t, "Matching "):
				e.stat("real:paths:matchTSConfigPaths-called")
			case strings.HasPrefix(t, "Checking for ") && strings.Contains(t, "in the \"browser\" map"):
				fmt.Sscanf(t, "Checking for %q", &probeOf)
				if first == "" {
					first = probeOf
				}
				e.stat("real:browser:checkPath-called")
			case strings.HasPrefix(t, "Checking for ") && !strings.HasPrefix(t, "Checking for file") && !strings.HasPrefix(t, "Checking for a package"):
				fmt.Sscanf(t, "Checking for %q", &last)
			case strings.HasPrefix(t, "No \"browser\" map found"):
				e.stat("real:browser:no-scope")
			case strings.HasPrefix(t, "Found ") && (strings.Contains(t, " mapping to ") || strings.Contains(t, "marked as disabled")):
				form := "index+ext"
				switch {
				case last == probeOf:
					form = "exact"
				case strings.HasSuffix(last, "/index") && last != probeOf:
					form = "index"
				case strings.HasPrefix(last, probeOf) && !strings.Contains(last[len(probeOf):], "/"):
					form = "ext"
				}
				if probeOf != first {
					form = "second-checkPath:" + form
				}
				if first == importPath {
					form = "package-kind:" + form
				} else {
					form = "absolute-kind:" + form
				}
				if strings.Contains(t, "disabled") {
					e.stat("real:browser:hit-disabled:" + form)
				} else {
					e.stat("real:browser:hit-remapped:" + form)
				}
				first, probeOf = "", ""
			case strings.HasPrefix(t, "Failed to find ") && !strings.Contains(t, "file"):
				e.stat("real:browser:miss")
				first, probeOf = "", ""
			}
		}
	}
}

func (w *tsWorld) run(e *emitter, sourceDir, importPath string) string {
	return guard(func() string {
		mfs := fs.MockFS(w.mockInput(), fs.MockUnix, "/proj")
		log := logger.NewDeferLog(logger.DeferLogAll, nil)
		log.Level = logger.LevelVerbose
		defer tsNotes(e, log, importPath)
		opts := config.Options{
			Platform:       config.PlatformNeutral,
			ExtensionOrder: w.exts,
			MainFields:     []string{"main"},
			ExtensionToLoader: map[string]config.Loader{".js": config.LoaderJS, ".jsx": config.LoaderJSX, ".json": config.LoaderJSON,
				".ts": config.LoaderTS, ".tsx": config.LoaderTSX},
		}
		if w.browser {
			opts.Platform = config.PlatformBrowser
		}
		res := resolver.NewResolver(config.BuildCall, mfs, log, cache.MakeCacheSet(), &opts)
		rr, _ := res.Resolve(sourceDir, importPath, ast.ImportStmt)
		if rr == nil {
			return "none"
		}
		if rr.PathPair.IsExternal {
			return "external"
		}
		if rr.PathPair.Primary.IsDisabled() {
			return "disabled " + hx(rr.PathPair.Primary.Text)
		}
		return "ok " + hx(rr.PathPair.Primary.Text)
	})
}

func (w *tsWorld) emit(e *emitter, sourceDir, importPath string) string {
	op := fmt.Sprintf("tspaths\tresolve\t%s\t%s\t%s", w.wire(), hx(sourceDir), hx(importPath))
	if os.Getenv("VERIF_TSPATHS_TRACE") != "" { // to find an operation on which the real resolver does not return
		fmt.Fprintf(os.Stderr, "case %d: %s\n", e.n, op)
		for f, c := range w.mockInput() {
			if c != "" {
				fmt.Fprintf(os.Stderr, "  %s = %s\n", f, c)
			}
		}
	}
	out := w.run(e, sourceDir, importPath)
	e.emit(op, out)
	return out
}

func pickS(r *gen.Rand, xs ...string) string { return xs[r.Intn(len(xs))] }
func strp(s string) *string                  { return &s }

func tsPickExts(r *gen.Rand) []string {
	switch r.Intn(8) {
	case 0:
		return []string{}
	case 1:
		return []string{".json"}
	case 2:
		return []string{".json", ".js"}
	case 3:
		return []string{".jsx", ".js", ".json"}
	case 4:
		return []string{".js", ".json"}
	default:
		return []string{".js"}
	}
}

var tsFallbackPool = []string{"./lib/*", "lib/*", "./gen/*.js", "*", "./*", "../proj/lib/*", "/proj/gen/*", "/proj/gen/*/", "./lib/*/index.js",
	"./lib/fixed", "lib/fixed.js", "./types/*.d.ts", "./types/*.D.TS", "./lib/*.d.Ts", "${configDir}/lib/*", "${configDir}gen/*", "./lib/**", "*/*",
	"./lib/*", "./gen/*", "gen/*", "/proj/lib/*", "./lib/x*y", "..", ".", "", "c:/x/*", ".\\lib\\*", "./src/../lib/*"}

// substitute a fallback the way a human would expect it (only used to decide which files to create)
func tsExpand(f, sub string, bases []string) []string {
	p := strings.Replace(f, "*", sub, 1)
	if strings.HasPrefix(p, "${configDir}") {
		p = path.Join("/proj", "./"+p[12:])
	}
	if strings.HasPrefix(p, "/") {
		return []string{path.Clean(p)}
	}
	out := []string{}
	for _, b := range bases {
		out = append(out, path.Join(b, p))
	}
	return out
}

func tsResolveBase(dir, v string) string {
	if strings.HasPrefix(v, "${configDir}") {
		return path.Join("/proj", "./"+v[12:])
	}
	if strings.HasPrefix(v, "/") {
		return path.Clean(v)
	}
	return path.Join(dir, v)
}

// populate: create some of the files the candidates could name
func (w *tsWorld) populate(r *gen.Rand, abs string, den int) {
	if !r.Chance(1, den) || !strings.HasPrefix(abs, "/proj") {
		return
	}
	abs = strings.ToLower(abs) // fs.MockFS looks entries up case-insensitively; keep every file name lower case
	switch r.Intn(7) {
	case 0, 1:
		w.addFile(abs + ".js")
	case 2:
		w.addFile(abs)
	case 3:
		w.addFile(abs + "/index.js")
	case 4:
		if strings.HasSuffix(abs, ".js") {
			w.addFile(strings.TrimSuffix(abs, ".js") + ".ts")
		} else {
			w.addFile(abs + ".json")
		}
	case 5:
		if w.addPkg(pkgRaw{dir: abs, main: strp(pickS(r, "./m.js", "m", "./missing.js", "./d"))}) {
			w.addFile(abs + "/m.js")
			if r.Bool() {
				w.addFile(abs + "/index.js")
			}
		}
	default:
		w.addFile(abs + ".jsx")
	}
}

func tsGenKeys(r *gen.Rand, spec string) []string {
	n := len(spec)
	keys := []string{}
	for k := r.Intn(7); k > 0; k-- {
		key := ""
		switch r.Intn(12) {
		case 0, 1, 2, 3: // a pattern that matches properly
			i := r.Intn(n + 1)
			j := i + r.Intn(n-i+1)
			key = spec[:i] + "*" + spec[j:]
		case 4: // prefix and suffix overlap inside the specifier
			if n >= 2 {
				i := 1 + r.Intn(n)
				j := r.Intn(i)
				key = spec[:i] + "*" + spec[j:]
			} else {
				key = spec + "*" + spec
			}
		case 5:
			key = spec
		case 6:
			i := r.Intn(n + 1)
			key = pickS(r, "z"+spec[:i]+"*", spec[:i]+"*z", spec[:i]+"z*"+spec[i:])
		case 7:
			key = "*"
		case 8:
			key = pickS(r, spec+"**", "*/*", "*"+spec+"*")
		case 9:
			key = pickS(r, spec+"x", spec[:r.Intn(n+1)], "")
		default: // same prefix as an earlier key, other suffix
			if len(keys) > 0 && strings.Contains(keys[0], "*") {
				pre := keys[0][:strings.IndexByte(keys[0], '*')]
				key = pre + "*" + spec[len(spec)-r.Intn(n+1):]
			} else {
				key = spec[:r.Intn(n+1)] + "*"
			}
		}
		keys = append(keys, key)
	}
	return keys
}

func tsGenProps(r *gen.Rand, keys []string) []tsProp {
	props := []tsProp{}
	seen := map[string]bool{}
	for _, k := range keys {
		if seen[k] && !r.Chance(1, 4) {
			continue // duplicate JSON keys only sometimes
		}
		seen[k] = true
		p := tsProp{key: k}
		if r.Chance(1, 25) {
			p.notArray = true
		} else {
			for m := r.Intn(4); m > 0; m-- {
				if r.Chance(1, 30) {
					p.items = append(p.items, tsItem{notString: true})
				} else {
					p.items = append(p.items, tsItem{s: tsFallbackPool[r.Intn(len(tsFallbackPool))]})
				}
			}
		}
		props = append(props, p)
	}
	return props
}

func tsSubstrings(s string) []string {
	out := []string{""}
	seen := map[string]bool{"": true}
	for i := 0; i < len(s); i++ {
		for j := i + 1; j <= len(s); j++ {
			if !seen[s[i:j]] {
				seen[s[i:j]] = true
				out = append(out, s[i:j])
			}
		}
	}
	return out
}

func tsPathsCase(r *gen.Rand, e *emitter) {
	w := &tsWorld{files: map[string]bool{}}
	w.browser = r.Chance(1, 4)
	w.exts = tsPickExts(r)
	w.addFile("/proj/src/index.js")
	w.addFile("/proj/src/sub/index.js")
	spec := pickS(r, "a", "ab", "aba", "abab", "ba", "a/b", "ab/ba", "b/a/b", "@s/ab", "lib/a", "a.d.ts", "ab.js", "x-a-y", "aab", "a/", "a//b", "a/./b")
	if r.Chance(1, 12) {
		spec = "/proj/virt/" + pickS(r, "a", "ab", "aba")
	}
	// where "paths" and "baseUrl" live
	outer := tsRaw{file: "/proj/tsconfig.json"}
	var base *tsRaw
	layout := r.Intn(10)
	bases := []string{"/proj"}
	baseVals := []string{".", "./src", "./lib", "lib", "/proj/lib", "..", "${configDir}/lib", "${configDir}", "", "./"}
	props := tsGenProps(r, tsGenKeys(r, spec))
	switch {
	case layout < 6: // everything in /proj/tsconfig.json
		outer.hasPaths = !r.Chance(1, 10)
		outer.paths = props
		if r.Bool() {
			outer.baseURL = strp(baseVals[r.Intn(len(baseVals))])
		}
		e.stat("layout:single")
	default: // "paths" (and maybe "baseUrl") inherited from /proj/cfg/base.json
		b := tsRaw{file: "/proj/cfg/base.json", hasPaths: !r.Chance(1, 10), paths: props}
		if r.Chance(1, 3) {
			b.baseURL = strp(baseVals[r.Intn(len(baseVals))])
		}
		if r.Chance(1, 3) {
			outer.baseURL = strp(baseVals[r.Intn(len(baseVals))])
		}
		if r.Chance(1, 6) { // the outer file overrides "paths" as well
			outer.hasPaths = true
			outer.paths = tsGenProps(r, tsGenKeys(r, spec))
		}
		outer.extends = []string{pickS(r, "./cfg/base.json", "./cfg/base.json", "./cfg/base", "./cfg/../cfg/base.json", "/proj/cfg/base.json", "./cfg/missing.json")}
		if r.Chance(1, 8) {
			outer.extends = append(outer.extends, "./cfg/second.json")
			s2 := tsRaw{file: "/proj/cfg/second.json"}
			if r.Bool() {
				s2.baseURL = strp(baseVals[r.Intn(len(baseVals))])
			}
			if r.Chance(1, 3) {
				s2.hasPaths = true
				s2.paths = tsGenProps(r, tsGenKeys(r, spec))
			}
			if r.Chance(1, 4) {
				s2.extends = []string{"./base.json"}
			}
			w.addTs(s2)
			if s2.baseURL != nil {
				bases = append(bases, tsResolveBase("/proj/cfg", *s2.baseURL))
			}
		}
		if r.Chance(1, 12) {
			b.extends = []string{pickS(r, "../tsconfig.json", "./base.json")} // a cycle
		}
		base = &b
		bases = append(bases, "/proj/cfg")
		if b.baseURL != nil {
			bases = append(bases, tsResolveBase("/proj/cfg", *b.baseURL))
		}
		e.stat("layout:extends")
	}
	if outer.baseURL != nil {
		bases = append(bases, tsResolveBase("/proj", *outer.baseURL))
	}
	w.addTs(outer)
	if base != nil {
		w.addTs(*base)
	}
	if r.Chance(1, 8) { // a nearer tsconfig.json shadows the one in /proj
		n := tsRaw{file: "/proj/src/sub/tsconfig.json"}
		if r.Bool() {
			n.hasPaths = true
			n.paths = tsGenProps(r, tsGenKeys(r, spec))
			bases = append(bases, "/proj/src/sub")
		}
		w.addTs(n)
	}
	// files that candidates may name
	subs := tsSubstrings(spec)
	tmpl := map[string]bool{}
	for _, c := range w.tss {
		for _, p := range c.paths {
			for _, it := range p.items {
				if !it.notString {
					tmpl[it.s] = true
				}
			}
		}
	}
	tl := []string{}
	for t := range tmpl {
		tl = append(tl, t)
	}
	sort.Strings(tl)
	for _, t := range tl {
		for _, sub := range subs {
			for _, abs := range tsExpand(t, sub, bases) {
				w.populate(r, abs, 3)
			}
		}
	}
	// competitors: baseUrl lookup and node_modules
	for _, b := range bases {
		w.populate(r, path.Join(b, spec), 3)
	}
	if !strings.HasPrefix(spec, "/") {
		w.populate(r, path.Join("/proj/node_modules", spec), 2)
		w.populate(r, path.Join("/proj/src/node_modules", spec), 6)
	} else {
		w.populate(r, path.Clean(spec), 2)
	}
	// a browser map over the library directories (interplay with directory index remapping)
	if w.browser && r.Chance(1, 3) {
		p := pkgRaw{dir: "/proj", hasBrowser: true}
		for k := r.Intn(4); k > 0; k-- {
			sub := subs[r.Intn(len(subs))]
			key := pickS(r, "./lib/"+sub+"/index.js", "./lib/"+sub+".js", "./lib/"+sub, "./gen/"+sub+".js", "lib/"+sub+"/index", spec)
			val := pickS(r, "./lib/"+sub+"/browser.js", "./src/index.js", "./lib/fixed.js", "")
			if r.Chance(1, 4) {
				p.browser = append(p.browser, bProp{key: key, kind: 'f'})
			} else {
				p.browser = append(p.browser, bProp{key: key, kind: 'S', s: val})
				w.addFile(path.Join("/proj", val))
			}
		}
		w.addPkg(p)
	}
	src := "/proj/src"
	switch r.Intn(20) {
	case 0, 1, 2:
		src = "/proj/src/sub"
	case 3, 4:
		src = "/proj/node_modules/dep"
		w.addFile("/proj/node_modules/dep/index.js")
	case 5:
		src = "/proj/missing"
	}
	// classification of the case for the branch statistics (on the generated keys of the defining file)
	exact, nmatch, overlap, tie := false, 0, false, false
	plen := map[int]int{}
	for _, p := range props {
		if p.key == spec {
			exact = true
		}
		if i := strings.IndexByte(p.key, '*'); i >= 0 && strings.Count(p.key, "*") == 1 {
			pre, suf := p.key[:i], p.key[i+1:]
			if strings.HasPrefix(spec, pre) && strings.HasSuffix(spec, suf) {
				nmatch++
				plen[len(pre)]++
				if len(pre)+len(suf) > len(spec) {
					overlap = true
				}
			}
		}
	}
	for _, c := range plen {
		if c > 1 {
			tie = true
		}
	}
	out := w.emit(e, src, spec)
	e.stat("paths:result:" + strings.SplitN(out, " ", 2)[0])
	e.stat("paths:from:" + src)
	if strings.HasPrefix(spec, "/") {
		e.stat("paths:absolute-import")
	}
	anyBase := outer.baseURL != nil || (base != nil && base.baseURL != nil)
	if !anyBase {
		e.stat("paths:no-baseUrl (filter of non-relative substitutions applies)")
	}
	if outer.baseURL != nil && base != nil && base.hasPaths && !outer.hasPaths {
		e.stat("paths:baseUrl-overridden-paths-inherited")
	}
	for _, p := range props {
		for _, it := range p.items {
			switch {
			case it.notString:
				e.stat("paths:item:not-a-string")
			case strings.HasPrefix(it.s, "${configDir}"):
				e.stat("paths:item:configDir-template")
			case strings.HasPrefix(it.s, "/"):
				e.stat("paths:item:absolute")
			case strings.Count(it.s, "*") > 1:
				e.stat("paths:item:two-stars")
			case !strings.HasPrefix(it.s, "."):
				e.stat("paths:item:non-relative")
			}
		}
		if p.notArray {
			e.stat("paths:value:not-an-array")
		}
		if strings.Count(p.key, "*") > 1 {
			e.stat("paths:key:two-stars")
		}
	}
	if exact {
		e.stat("paths:exact-key")
	}
	e.stat(fmt.Sprintf("paths:matching-patterns:%d", nmatch))
	if overlap {
		e.stat("paths:overlap-present")
	}
	if tie {
		e.stat("paths:prefix-tie")
	}
	if strings.HasPrefix(out, "ok ") {
		p := string(mustUnhex(strings.TrimPrefix(out, "ok ")))
		switch {
		case strings.Contains(p, "/node_modules/"):
			e.stat("paths:won:node_modules")
		default:
			e.stat("paths:won:paths-or-baseurl")
		}
	}
}

func mustUnhex(h string) []byte {
	if h == "-" {
		return nil
	}
	b := make([]byte, len(h)/2)
	fmt.Sscanf(h, "%x", &b)
	return b
}

var tsRootKeys = []string{"./src/a", "./src/a.js", "src/a.js", "./src/b.js", "./src/sub", "./src/sub/index.js", "./src/sub/index", "./src/sub/a.js",
	"./lib/b", "./lib/b/index.js", "./lib/b/index", "lib/b/index.js", "./lib/c.js", "pkg", "pkg/lib/x", "pkg/lib/x.js", "pkg2", "@s/p", "./pkg", "./pkg.js",
	"./src/pkg", "./src/sub/pkg", "./src/sub/pkg/index", "./pkg/index.js", "a", "./a", "./index", "./index.js", "./src/index.js", ".", "./", "src", "./src", "./src/",
	"./src/d", "./src/d.jsx", "./src/c.json", "src/sub/e", "./pkg/lib/x", "./src/pkg/lib/x", "pkg/index", "./src/pkg2"}
var tsRootVals = []string{"./src/b.js", "./src/a", "./lib/c.js", "./lib/b", "pkg", "pkg2", "pkg/lib/x", "./missing.js", "", "./src/sub", "@s/p", "lib/c.js", "./src"}
var tsSubKeys = []string{"./a.js", "./a", "./index.js", "./e", "pkg", "./pkg", "../a.js", "./index", "./e.js", "a.js", "pkg/lib/x", "./pkg/lib/x"}
var tsSubVals = []string{"./e.js", "./a.js", "pkg2", "./missing", "../b.js", "./index.js"}
var tsPkgKeys = []string{"./index.js", "./index", "./main.js", "./main", "./lib/x.js", "./lib/x", "./lib", "./lib/index.js", "lib/x.js", "index.js", "./browser.js",
	"pkg2", "./lib/y.json", "lib", "./lib/index", "main.js", "./lib/", "lib/index"}
var tsPkgVals = []string{"./browser.js", "./lib/x.js", "./lib", "./main.js", "./missing", "pkg2", "@s/p", "./lib/y.json", "lib/x.js"}

// tsTargetKeys: keys that have a chance to apply to (src, spec) for a browser map in scopeDir
func tsTargetKeys(scopeDir, src, spec string) []string {
	out := []string{}
	forms := func(rel string) {
		out = append(out, rel, "./"+rel, rel+".js", "./"+rel+".js", "./"+rel+"/index", "./"+rel+"/index.js", rel+"/index.js", "./"+rel+".json", rel+"/index", "./"+rel+".jsx")
	}
	under := func(abs string) {
		if abs == scopeDir {
			out = append(out, "./index", "./index.js", "index.js", "index", ".")
		} else if strings.HasPrefix(abs, scopeDir+"/") {
			forms(abs[len(scopeDir)+1:])
		}
	}
	if resolver.IsPackagePath(spec) {
		out = append(out, spec, spec+".js", spec+"/index", spec+"/index.js", "./"+spec, "./"+spec+"/index")
		if strings.HasPrefix(src, scopeDir+"/") {
			rel := src[len(scopeDir)+1:]
			out = append(out, "./"+rel+"/"+spec, "./"+rel+"/"+spec+"/index", "./"+rel+"/"+spec+".js")
		}
		under(path.Join("/proj/node_modules", spec))
	} else {
		under(path.Join(src, spec))
	}
	return out
}

func tsGenMap(r *gen.Rand, keys, vals []string, max int, target []string) []bProp {
	out := []bProp{}
	for k := r.Intn(max + 1); k > 0; k-- {
		b := bProp{key: keys[r.Intn(len(keys))]}
		if len(target) > 0 && r.Bool() {
			b.key = target[r.Intn(len(target))]
		}
		switch r.Intn(10) {
		case 0, 1:
			b.kind = 'f'
		case 2:
			b.kind = pickS(r, "t", "x")[0]
		default:
			b.kind = 'S'
			b.s = vals[r.Intn(len(vals))]
		}
		// a key below "node_modules/" whose value is a PACKAGE path can send the real resolver into unbounded
		// recursion (fatal stack overflow, see the package report): such keys only get `false` or a relative file
		if strings.Contains(b.key, "node_modules") && b.kind == 'S' && resolver.IsPackagePath(b.s) {
			if r.Bool() {
				b.kind = 'f'
			} else {
				b.s = "./" + b.s
			}
		}
		out = append(out, b)
	}
	return out
}

func tsBrowserCase(r *gen.Rand, e *emitter) {
	w := &tsWorld{files: map[string]bool{}}
	w.browser = !r.Chance(1, 10)
	w.exts = tsPickExts(r)
	maybe := func(p string) {
		if r.Chance(5, 6) {
			w.addFile(p)
		}
	}
	w.addFile("/proj/src/index.js")
	w.addFile("/proj/src/sub/index.js")
	for _, f := range []string{"/proj/src/a.js", "/proj/src/b.js", "/proj/src/c.json", "/proj/src/d.jsx", "/proj/src/sub/a.js", "/proj/src/sub/e.js",
		"/proj/lib/b/index.js", "/proj/lib/b/browser.js", "/proj/lib/c.js", "/proj/index.js",
		"/proj/node_modules/pkg/index.js", "/proj/node_modules/pkg/main.js", "/proj/node_modules/pkg/browser.js", "/proj/node_modules/pkg/lib/x.js",
		"/proj/node_modules/pkg/lib/index.js", "/proj/node_modules/pkg/lib/y.json", "/proj/node_modules/pkg2/index.js", "/proj/node_modules/@s/p/index.js"} {
		maybe(f)
	}
	w.addFile("/proj/lib/b/keep.js")
	w.addFile("/proj/node_modules/pkg/lib/keep.js")
	if r.Chance(1, 5) {
		w.addFile("/proj/src/node_modules/pkg/index.js")
	}
	if r.Chance(1, 6) {
		w.addFile("/proj/src/pkg.js")
	}
	if r.Chance(1, 6) {
		w.addFile("/proj/src/sub/pkg/index.js")
	}
	src := pickS(r, "/proj/src", "/proj/src", "/proj/src", "/proj/src/sub", "/proj/src/sub", "/proj/lib/b", "/proj/node_modules/pkg", "/proj/node_modules/pkg/lib", "/proj")
	var spec string
	switch src {
	case "/proj/node_modules/pkg":
		spec = pickS(r, "./index", "./main", "./main.js", "./lib/x", "./lib/x.js", "./lib", "./lib/", "pkg2", ".", "./browser.js", "pkg/lib/x")
	case "/proj/node_modules/pkg/lib":
		spec = pickS(r, "./x", "./x.js", "../main", "..", ".", "./", "./y.json", "./index", "pkg2", "../lib/x")
	case "/proj/lib/b":
		spec = pickS(r, ".", "./", "./index", "./index.js", "../c", "../c.js", "../b", "pkg", "./browser", "..")
	case "/proj/src/sub":
		spec = pickS(r, "./a", "./a.js", "./e", ".", "./", "./index", "../a", "../a.js", "..", "pkg", "pkg/lib/x", "./pkg", "pkg2", "a.js", "../sub", "../sub/")
	case "/proj":
		spec = pickS(r, "./src/a", "./src/a.js", "./src", "./src/", "./lib/b", "./lib/b/", "./lib/b/index", "pkg", ".", "./index", "a", "src/a.js", "./src/sub")
	default:
		spec = pickS(r, "./a", "./a.js", "./b", "./b.js", "./c", "./c.json", "./d", "./sub", "./sub/", "./sub/a", "./sub/index", ".", "./", "..", "../lib/b",
			"../lib/b/index", "../lib/b/index.js", "../lib/c", "../lib/c.js", "pkg", "pkg/", "pkg/lib/x", "pkg/lib/x.js", "pkg/lib", "pkg/lib/", "pkg/main", "pkg/index",
			"pkg2", "@s/p", "a", "./index", "./index.js", "pkg/lib/y.json", "pkg/lib/y", "./pkg", "src/a.js", "../src/a", "./sub/pkg", "pkg/missing")
	}
	// Browserify's "./dir/pkg" entry seen from BELOW a node_modules directory of the scope (must not apply there)
	crossPackage := strings.HasPrefix(src, "/proj/node_modules/") && resolver.IsPackagePath(spec) && r.Bool()
	if r.Chance(5, 6) || crossPackage {
		p := pkgRaw{dir: "/proj"}
		if r.Chance(5, 6) || crossPackage {
			p.hasBrowser = true
			p.browser = tsGenMap(r, tsRootKeys, tsRootVals, 5, tsTargetKeys("/proj", src, spec))
		}
		if crossPackage {
			p.browser = append(p.browser, bProp{key: "./" + src[len("/proj/"):] + "/" + spec + pickS(r, "", "", "/index"), kind: 'S', s: pickS(r, "./src/a.js", "./lib/c.js")})
			e.stat("browser:cross-package-entry")
		}
		if r.Chance(1, 3) {
			p.main = strp(pickS(r, "./index.js", "./src/a.js", "src", "./lib/b"))
		}
		w.addPkg(p)
	}
	if r.Chance(1, 3) {
		p := pkgRaw{dir: "/proj/src/sub"}
		if r.Bool() {
			p.hasBrowser = true
			p.browser = tsGenMap(r, tsSubKeys, tsSubVals, 3, tsTargetKeys("/proj/src/sub", src, spec))
		}
		if r.Chance(1, 3) {
			p.main = strp(pickS(r, "./a.js", "./e", "a"))
		}
		w.addPkg(p)
	}
	if r.Chance(1, 4) {
		w.addPkg(pkgRaw{dir: "/proj/lib/b", main: strp(pickS(r, "./browser.js", "./index.js", "./keep", "../c.js"))})
	}
	if r.Chance(5, 6) {
		p := pkgRaw{dir: "/proj/node_modules/pkg"}
		if r.Chance(3, 4) && !crossPackage {
			p.hasBrowser = true
			p.browser = tsGenMap(r, tsPkgKeys, tsPkgVals, 4, tsTargetKeys("/proj/node_modules/pkg", src, spec))
		}
		if r.Chance(2, 3) {
			p.main = strp(pickS(r, "./main.js", "main", "./lib", "lib/x", "./lib/x.js", "./missing", "", "./index", "."))
		}
		w.addPkg(p)
	}
	if r.Chance(1, 4) {
		w.addPkg(pkgRaw{dir: "/proj/node_modules/pkg2", main: strp(pickS(r, "./index.js", "index"))})
	}
	if r.Chance(1, 6) { // tsconfig in the same world: paths before the browser map of packages
		t := tsRaw{file: "/proj/tsconfig.json", hasPaths: true}
		t.baseURL = strp(".")
		t.paths = []tsProp{{key: pickS(r, "pkg", "pkg/*", "p*", "@s/*"), items: []tsItem{{s: pickS(r, "./lib/c.js", "./lib/b", "./src/*", "./lib/*")}}}}
		w.addTs(t)
	}
	out := w.emit(e, src, spec)
	kind := "relative"
	if resolver.IsPackagePath(spec) {
		kind = "package"
	}
	e.stat("browser:" + kind + ":result:" + strings.SplitN(out, " ", 2)[0])
	if !w.browser {
		e.stat("browser:platform-not-browser")
	}
	e.stat("browser:from:" + src)
}

func init() {
	kernels["tspaths"] = func(r *gen.Rand, e *emitter, tier string) {
		// safety net: a runaway recursion of the real resolver must die quickly instead of eating the machine's memory
		debug.SetMaxStack(48 << 20)
		for !e.full() {
			switch k := r.Intn(500); {
			case k == 0: // a malformed operation: the model driver has to refuse it
				e.emit("tspaths\tresolve\t"+pickS(r, "B Zzz", "B M2f", "N K2f", "B F2", "Q")+"\t2f\t2f", "bad-op")
				e.stat("malformed-op")
			case k%5 < 3:
				tsPathsCase(r, e)
			default:
				tsBrowserCase(r, e)
			}
		}
	}
}
