package main

import (
	"fmt"
	"strings"

	"github.com/evanw/esbuild/verifharness/gen"
)

// Generator of module graphs for kernel "exportmatch": small graphs over a tiny pool of export names, so that names
// collide all the time. Shapes produced on purpose: export-star cycles (self stars, 2- and 3-cycles), diamonds, an own
// export shadowing a star export (at the root and in the middle of a star path), the same name from two star sources
// (really ambiguous, or the same binding through two paths), re-export chains with renames in both syntaxes
// (`export {x as y} from` and `import {x as l}; export {l as y}`), chains that run into a cycle or into a missing name,
// one local binding exported under two names, `export * as ns from` / `import * as ns; export {ns}`, default exports
// and their re-export, and (mixed mode) CommonJS files, files without exports, external stars/imports, TypeScript
// files re-exporting missing names.

type emMod struct {
	path     string
	lines    []string
	used     map[string]bool // export aliases already taken
	reserved []string        // export names of the named re-exports
	cjs      bool
	empty    bool
	ts       bool
}

type emGraph struct {
	files   map[string]string
	entry   string
	nmods   int
	stats   map[string]int
	hasMix  bool
	pathsOf []string
}

var emNames = []string{"a", "b", "c", "d", "default"}

func (m *emMod) add(format string, args ...interface{}) {
	m.lines = append(m.lines, fmt.Sprintf(format, args...))
}

// freeAlias picks an export name not used yet in the module ("" if none of the tries is free)
func (m *emMod) freeAlias(r *gen.Rand) string {
	for k := 0; k < 4; k++ {
		a := emNames[r.Intn(len(emNames))]
		if !m.used[a] {
			m.used[a] = true
			return a
		}
	}
	return ""
}

func genExportMatchGraph(r *gen.Rand, mixed bool) *emGraph {
	g := &emGraph{files: map[string]string{}, stats: map[string]int{}}
	n := 1 + r.Intn(7)
	if r.Chance(1, 10) {
		n = 8 + r.Intn(3)
	}
	g.nmods = n
	mods := make([]*emMod, n)
	for i := range mods {
		m := &emMod{path: fmt.Sprintf("m%d.js", i), used: map[string]bool{}}
		if mixed && i > 0 {
			switch r.Intn(8) {
			case 0:
				m.cjs = true
				m.path = fmt.Sprintf("m%d.cjs", i)
			case 1:
				m.empty = true
			case 2:
				m.ts = true
				m.path = fmt.Sprintf("m%d.ts", i)
			}
		}
		mods[i] = m
	}
	other := func(i int) *emMod { // target of an import: forward mostly, sometimes backward or self
		switch {
		case r.Chance(1, 6):
			return mods[r.Intn(i+1)]
		case i+1 < n && r.Chance(3, 4):
			return mods[i+1+r.Intn(n-i-1)]
		default:
			return mods[r.Intn(n)]
		}
	}
	uid := 0
	fresh := func(p string) string { uid++; return fmt.Sprintf("%s%d", p, uid) }
	// a planted shape now and then (they also arise by chance, but rarely with all their ingredients)
	plant := -1
	if n >= 4 && r.Chance(1, 3) {
		plant = r.Intn(8)
	}
	for i, m := range mods {
		if m.cjs {
			m.add("exports.%s = %d;", emNames[r.Intn(4)], i)
			if r.Bool() {
				m.add("exports.%s = %d;", emNames[r.Intn(4)], i+10)
			}
			g.stats["gen:cjs-module"]++
			continue
		}
		if m.empty {
			m.add("console.log(%d);", i)
			g.stats["gen:empty-module"]++
			continue
		}
		// local exports
		for k := r.Intn(3); k > 0; k-- {
			a := m.freeAlias(r)
			if a == "" {
				continue
			}
			switch {
			case a == "default":
				m.add("export default %d;", i)
			case r.Chance(1, 4):
				// one binding under two export names
				l := fresh("L")
				b := m.freeAlias(r)
				if b == "" || b == "default" {
					if b == "default" {
						delete(m.used, "default")
					}
					m.add("let %s = %d; export { %s as %s };", l, i, l, a)
				} else {
					m.add("let %s = %d; export { %s as %s, %s as %s };", l, i, l, a, l, b)
					g.stats["gen:two-names-one-binding"]++
				}
			default:
				m.add("export let %s = %d;", a, i)
			}
		}
		// reserve the names of the named re-exports (their sources are chosen in the second pass)
		for k := r.Intn(3); k > 0; k-- {
			if a := m.freeAlias(r); a != "" {
				m.reserved = append(m.reserved, a)
			}
		}
	}
	// a name to import from t: mostly one that t declares itself (its star exports may add more)
	nameOf := func(t *emMod) string {
		if len(t.used) > 0 && r.Chance(4, 5) {
			keys := []string{}
			for _, nm := range emNames {
				if t.used[nm] {
					keys = append(keys, nm)
				}
			}
			return keys[r.Intn(len(keys))]
		}
		if r.Chance(1, 8) {
			return "zz" // surely missing
		}
		return emNames[r.Intn(len(emNames))]
	}
	for i, m := range mods {
		if m.cjs || m.empty {
			continue
		}
		// named re-exports
		for _, a := range m.reserved {
			t := other(i)
			x := nameOf(t)
			switch r.Intn(6) {
			case 0:
				l := fresh("I")
				m.add("import { %s as %s } from \"./%s\"; export { %s as %s };", x, l, t.path, l, a)
				g.stats["gen:import-then-export"]++
			case 1:
				if a != "default" || true {
					m.add("export * as %s from \"./%s\";", a, t.path)
					g.stats["gen:export-star-as"]++
				}
			case 2:
				l := fresh("N")
				m.add("import * as %s from \"./%s\"; export { %s as %s };", l, t.path, l, a)
				g.stats["gen:import-star-then-export"]++
			default:
				m.add("export { %s as %s } from \"./%s\";", x, a, t.path)
				g.stats["gen:export-from"]++
			}
		}
		// export stars
		ns := r.Intn(3)
		if r.Chance(1, 8) {
			ns = 3 + r.Intn(2)
		}
		for k := 0; k < ns; k++ {
			t := other(i)
			if mixed && r.Chance(1, 10) {
				m.add("export * from \"ext-pkg\";")
				g.stats["gen:star-external"]++
				continue
			}
			m.add("export * from \"./%s\";", t.path)
			if t == m {
				g.stats["gen:star-self"]++
			}
		}
		// plain imports (every name is also used once so that no loader drops it)
		for k := r.Intn(4); k > 0; k-- {
			t := other(i)
			l := fresh("V")
			switch r.Intn(7) {
			case 0:
				m.add("import * as %s from \"./%s\"; console.log(%s);", l, t.path, l)
			case 1:
				m.add("import %s from \"./%s\"; console.log(%s);", l, t.path, l)
			case 2:
				if mixed {
					m.add("import { %s as %s } from \"ext-pkg\"; console.log(%s);", emNames[r.Intn(4)], l, l)
					g.stats["gen:import-external"]++
					break
				}
				fallthrough
			default:
				m.add("import { %s as %s } from \"./%s\"; console.log(%s);", nameOf(t), l, t.path, l)
			}
		}
	}
	// planted shapes use fresh files p*.js imported from m0
	pl := func(name, src string) { g.files[name] = src }
	switch plant {
	case 0: // two star paths to one binding exported under two names (different export locations)
		pl("pd.js", "let x = 1; export { x as a, x as b };\n")
		pl("pb.js", "export { a as n } from \"./pd.js\";\n")
		pl("pc.js", "export { b as n } from \"./pd.js\";\n")
		pl("pa.js", "export * from \"./pb.js\";\nexport * from \"./pc.js\";\n")
		mods[0].add("import { n as PN } from \"./pa.js\"; import * as PA from \"./pa.js\"; console.log(PN, PA);")
		g.stats["plant:two-locs-one-binding"]++
	case 1: // re-export cycle entered through a star next to a real binding
		pl("ps.js", "export { a as e } from \"./pt.js\";\n")
		pl("pt.js", "export * from \"./ps2.js\";\nexport * from \"./ps3.js\";\n")
		pl("ps2.js", "export { e as a } from \"./ps.js\";\n")
		pl("ps3.js", "export let a = 1;\n")
		mods[0].add("import { e as PE } from \"./ps.js\"; import * as PS from \"./pt.js\"; console.log(PE, PS);")
		g.stats["plant:mixed-cycle"]++
	case 2: // star diamond over a star cycle with shadowing in the middle
		pl("pa.js", "export * from \"./pb.js\";\nexport * from \"./pc.js\";\nexport let own = 1;\n")
		pl("pb.js", "export * from \"./pd.js\";\nexport let a = 2;\n")
		pl("pc.js", "export * from \"./pd.js\";\nexport * from \"./pa.js\";\n")
		pl("pd.js", "export let a = 4, b = 5, own = 6;\nexport default 7;\n")
		mods[0].add("import { a as PA1, b as PB1, own as PO1 } from \"./pa.js\"; import * as PN1 from \"./pc.js\"; console.log(PA1, PB1, PO1, PN1);")
		g.stats["plant:diamond-cycle-shadow"]++
	case 3: // pure re-export cycle and a chain into a missing name
		pl("pa.js", "export { x as y } from \"./pb.js\";\nexport { q as r } from \"./pb.js\";\n")
		pl("pb.js", "export { y as x } from \"./pa.js\";\nexport { nope as q } from \"./pc.js\";\n")
		pl("pc.js", "export let other = 1;\n")
		mods[0].add("import { y as PY, r as PR } from \"./pa.js\"; console.log(PY, PR);")
		g.stats["plant:cycle-and-missing"]++
	case 4: // long rename chain ending in a namespace and in a default
		pl("p1.js", "export { b as a } from \"./p2.js\";\nexport { default as d1 } from \"./p2.js\";\n")
		pl("p2.js", "import { c as K } from \"./p3.js\"; export { K as b };\nexport { default } from \"./p3.js\";\n")
		pl("p3.js", "export * as c from \"./p4.js\";\nexport { v as default } from \"./p4.js\";\n")
		pl("p4.js", "export let v = 1;\n")
		mods[0].add("import { a as PA2, d1 as PD2 } from \"./p1.js\"; console.log(PA2, PD2);")
		g.stats["plant:long-chain"]++
	case 5: // really ambiguous star exports, seen through another star and through a named re-export
		pl("pa.js", "export * from \"./pb.js\";\nexport * from \"./pc.js\";\n")
		pl("pb.js", "export let a = 1, b = 2;\n")
		pl("pc.js", "export let a = 3;\nexport { b } from \"./pb.js\";\n")
		pl("pe.js", "export * from \"./pa.js\";\nexport { a as viaNamed } from \"./pa.js\";\n")
		mods[0].add("import { a as PA3, b as PB3 } from \"./pa.js\"; import { a as PA4, viaNamed as PV4 } from \"./pe.js\"; import * as PN4 from \"./pe.js\"; console.log(PA3, PB3, PA4, PV4, PN4);")
		g.stats["plant:ambiguous"]++
	case 6: // the two ways of re-exporting a namespace object collide
		pl("pm.js", "export let v = 1;\n")
		pl("pb.js", "export * as ns from \"./pm.js\";\n")
		pl("pc.js", "import * as ns from \"./pm.js\";\nexport { ns };\n")
		pl("pa.js", "export * from \"./pb.js\";\nexport * from \"./pc.js\";\n")
		mods[0].add("import { ns as PNS } from \"./pa.js\"; import * as PALL from \"./pa.js\"; console.log(PNS, PALL);")
		g.stats["plant:namespace-twice"]++
	case 7: // wide star fan with duplicates
		var sb strings.Builder
		for k := 0; k < 5; k++ {
			fmt.Fprintf(&sb, "export * from \"./pf%d.js\";\n", k%4)
			if k < 4 {
				pl(fmt.Sprintf("pf%d.js", k), fmt.Sprintf("export let a = %d;\nexport let u%d = 1;\nexport * from \"./pa.js\";\n", k/2, k))
			}
		}
		pl("pa.js", sb.String())
		mods[0].add("import { a as PA5, u1 as PU5 } from \"./pa.js\"; console.log(PA5, PU5);")
		g.stats["plant:fan"]++
	}
	// the entry reaches every module
	for i := 1; i < n; i++ {
		mods[0].add("import \"./%s\";", mods[i].path)
	}
	for _, m := range mods {
		g.files[m.path] = strings.Join(m.lines, "\n") + "\n"
	}
	g.files["package.json"] = "{\"type\": \"module\"}\n"
	g.entry = mods[0].path
	return g
}
