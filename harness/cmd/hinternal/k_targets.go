package main

// Kernel "targets" (C14): from the option TEXT to the feature set.
//   cli     cli.ParseTransformOptions(["--target=<text>"])                      → Target, Engines or which item is refused
//   vf      api.VerifValidateFeatures(target, engines) (= validateFeatures)     → JS / CSS feature masks, prefix data, target text, errors
//   cliv    the composition of the two
//   sup     api.VerifValidateSupported(map)                                     → the four masks and the refused names
//   suparg  cli.ParseTransformOptions(["--supported:<text>"])
//   cmpsv   compat.CompareSemver
//   pretty  config.PrettyPrintTargetEnvironment
// Texts travel as code points (6 hex digits each, "-" = empty); only well-formed UTF-8 is generated.

import (
	"fmt"
	"io/ioutil"
	"os"
	"regexp"
	"sort"
	"strings"

	"github.com/evanw/esbuild/internal/compat"
	"github.com/evanw/esbuild/internal/config"
	"github.com/evanw/esbuild/internal/css_ast"
	"github.com/evanw/esbuild/pkg/api"
	"github.com/evanw/esbuild/pkg/cli"
	"github.com/evanw/esbuild/verifharness/gen"
)

var tgTargetNames = []string{"DefaultTarget", "ESNext", "ES5", "ES2015", "ES2016", "ES2017", "ES2018", "ES2019", "ES2020", "ES2021", "ES2022", "ES2023", "ES2024", "ES2025", "ES2026"}
var tgEngineConsts = []string{"EngineChrome", "EngineDeno", "EngineEdge", "EngineFirefox", "EngineHermes", "EngineIE", "EngineIOS", "EngineNode", "EngineOpera", "EngineRhino", "EngineSafari"}
var tgEngineTexts = []string{"chrome", "deno", "edge", "firefox", "hermes", "ie", "ios", "node", "opera", "rhino", "safari"}

func tgHex(s string) string {
	if s == "" {
		return "-"
	}
	var sb strings.Builder
	for _, c := range s {
		fmt.Fprintf(&sb, "%06x", c)
	}
	return sb.String()
}

func tgJoinOrDot(xs []string) string {
	if len(xs) == 0 {
		return "."
	}
	return strings.Join(xs, ",")
}

func tgHexList(xs []string) string {
	if len(xs) == 0 {
		return "."
	}
	ys := make([]string, len(xs))
	for i, x := range xs {
		ys[i] = tgHex(x)
	}
	return strings.Join(ys, ",")
}

// tgBoundaries reads every version literal of js_table.go and css_table.go, per engine (lower-case name)
func tgBoundaries() map[string][][3]int {
	repo := os.Getenv("VERIF_REPO")
	if repo == "" {
		repo = "/repo"
	}
	out := map[string][][3]int{}
	seen := map[string]bool{}
	vre := regexp.MustCompile(`v\{(\d+), (\d+), (\d+)\}`)
	endRe := regexp.MustCompile(`end: v\{(\d+), (\d+), (\d+)\}`)
	ere := regexp.MustCompile(`\b(Chrome|Deno|Edge|ES|Firefox|Hermes|IE|IOS|Node|Opera|Rhino|Safari)\b`)
	for _, f := range []string{"internal/compat/js_table.go", "internal/compat/css_table.go"} {
		data, err := ioutil.ReadFile(repo + "/" + f)
		if err != nil {
			continue
		}
		for _, line := range strings.Split(string(data), "\n") {
			em := ere.FindString(line)
			if em == "" {
				continue
			}
			for _, m := range endRe.FindAllStringSubmatch(line, -1) {
				var v [3]int
				fmt.Sscan(m[1], &v[0])
				fmt.Sscan(m[2], &v[1])
				fmt.Sscan(m[3], &v[2])
				out["end:"+strings.ToLower(em)] = append(out["end:"+strings.ToLower(em)], v)
			}
			for _, m := range vre.FindAllStringSubmatch(line, -1) {
				var v [3]int
				fmt.Sscan(m[1], &v[0])
				fmt.Sscan(m[2], &v[1])
				fmt.Sscan(m[3], &v[2])
				key := fmt.Sprint(strings.ToLower(em), v)
				if !seen[key] {
					seen[key] = true
					out[strings.ToLower(em)] = append(out[strings.ToLower(em)], v)
				}
			}
		}
	}
	return out
}

var tgPres = []string{"-alpha", "-beta.1", "-0", "-00", "-1.2", "-rc.10", "-rc.9", "-rc", "-rc.9.x", "-99999999999999999999", "-9223372036854775807",
	"-A.b", "-a", "-b", "-1", "-2", "-10", "-01", "-x.1.y", "-x.2.y", "-x.1"}
var tgBadPres = []string{"-", "-a..b", "-a.", "-.a", "-a-b", "-a_b", "-α", "alpha", "-a b", "+build", "-a+b", ".", "-a.b."}

func tgNum(r *gen.Rand, n int) string {
	s := fmt.Sprint(n)
	if r.Chance(1, 12) {
		s = strings.Repeat("0", 1+r.Intn(3)) + s
	}
	return s
}

// tgVersion: a version text for an engine; mostly valid, centred on the boundaries of the tables
func tgVersion(r *gen.Rand, e *emitter, bounds [][3]int, ends [][3]int) string {
	if len(ends) > 0 && r.Chance(1, 6) {
		// exactly the exclusive END of a closed range, its pre-release, and the last version before it
		e.stat("version:range-end")
		v := ends[r.Intn(len(ends))]
		switch r.Intn(6) {
		case 0:
			return fmt.Sprintf("%d.%d.%d-rc.1", v[0], v[1], v[2])
		case 1:
			if v[1] == 0 && v[2] == 0 && v[0] > 0 {
				return fmt.Sprintf("%d.99.99", v[0]-1)
			}
		case 2:
			if v[1] == 0 && v[2] == 0 {
				return fmt.Sprint(v[0])
			}
		case 3:
			if v[2] == 0 {
				return fmt.Sprintf("%d.%d", v[0], v[1])
			}
		}
		return fmt.Sprintf("%d.%d.%d", v[0], v[1], v[2])
	}
	if r.Chance(1, 9) {
		e.stat("version:malformed")
		bad := []string{"", ".", "1.", "1..2", "1.2.3.4", "1.2.", ".1", "v1", "1,2", " 1", "1 ", "+1", "-1", "1e3", "1.x", "１", "1\n", "1.2.3\n", "\n1",
			"99999999999999999999", "9223372036854775808", "1.2.3.", "1.2-", "x", "1.-a", "1.2.3-a..b", "0x10", "1_0", "١"}
		return bad[r.Intn(len(bad))]
	}
	if r.Chance(1, 14) {
		e.stat("version:int-range")
		big := []string{"9223372036854775807", "9223372036854775808", "99999999999999999999", "18446744073709551616", "65536", "256", "4294967296"}
		switch r.Intn(4) {
		case 0:
			return big[r.Intn(len(big))]
		case 1:
			return tgNum(r, r.Intn(130)) + "." + big[r.Intn(len(big))]
		case 2:
			return tgNum(r, r.Intn(130)) + "." + big[r.Intn(len(big))] + "." + tgNum(r, r.Intn(30))
		default:
			return tgNum(r, r.Intn(130)) + "." + tgNum(r, r.Intn(30)) + "." + big[r.Intn(len(big))]
		}
	}
	var v [3]int
	if len(bounds) > 0 && r.Chance(3, 4) {
		e.stat("version:near-boundary")
		v = bounds[r.Intn(len(bounds))]
		switch r.Intn(8) {
		case 0:
			v[2]++
		case 1:
			if v[2] > 0 {
				v[2]--
			} else if v[1] > 0 {
				v[1]--
				v[2] = 99
			} else if v[0] > 0 {
				v[0]--
				v[1], v[2] = 99, 99
			}
		case 2:
			v[1]++
		case 3:
			if v[1] > 0 {
				v[1]--
			}
		case 4:
			v[0]++
		case 5:
			if v[0] > 0 {
				v[0]--
			}
		}
	} else {
		e.stat("version:random")
		v = [3]int{r.Intn(160), r.Intn(30), r.Intn(30)}
		if r.Chance(1, 4) {
			v[1], v[2] = 0, 0
		}
	}
	n := 3
	if v[2] == 0 && r.Chance(2, 3) {
		n = 2
		if v[1] == 0 && r.Chance(2, 3) {
			n = 1
		}
	} else if r.Chance(1, 10) {
		n = 1 + r.Intn(3) // drop non-zero components too
	}
	parts := []string{}
	for i := 0; i < n; i++ {
		parts = append(parts, tgNum(r, v[i]))
	}
	s := strings.Join(parts, ".")
	e.stat(fmt.Sprintf("version:components-%d", n))
	if r.Chance(1, 6) {
		e.stat("version:prerelease")
		s += tgPres[r.Intn(len(tgPres))]
	} else if r.Chance(1, 25) {
		e.stat("version:bad-prerelease")
		s += tgBadPres[r.Intn(len(tgBadPres))]
	}
	return s
}

func tgMixCase(r *gen.Rand, s string) string {
	b := []byte(s)
	for i := range b {
		if b[i] >= 'a' && b[i] <= 'z' && r.Chance(1, 3) {
			b[i] -= 32
		}
	}
	return string(b)
}

// tgItem: one comma-separated item of --target=
func tgItem(r *gen.Rand, e *emitter, bounds map[string][][3]int) string {
	switch k := r.Intn(20); {
	case k < 4:
		e.stat("item:es")
		es := []string{"esnext", "es5", "es6", "es2015", "es2016", "es2017", "es2018", "es2019", "es2020", "es2021", "es2022", "es2023", "es2024", "es2025", "es2026"}
		s := es[r.Intn(len(es))]
		if r.Chance(1, 3) {
			e.stat("item:es-mixed-case")
			s = tgMixCase(r, s)
		}
		return s
	case k < 5:
		e.stat("item:es-invalid")
		bad := []string{"es", "es7", "es2014", "es2027", "es3", "es2015.1", "es2020 ", " es2020", "es-2020", "esNext1", "es20200", "eſ6", "es６", "ecmascript2020", "ES", "es2020-pre", "es05", "es06", "next"}
		return bad[r.Intn(len(bad))]
	case k < 6:
		e.stat("item:engine-invalid")
		bad := []string{"", "Chrome58", "CHROME58", "iOS12", "netscape4", "chromium90", " chrome58", "chrom58", "58", "node", "ie", "ios", "chrome", "Kie9", "İe9", "i", "io", "iexplorer9", "nodejs12", "opera mini", "safari-15"}
		s := bad[r.Intn(len(bad))]
		for _, t := range tgEngineTexts {
			if s == t {
				e.stat("item:missing-version")
			}
		}
		return s
	default:
		e.stat("item:engine")
		i := r.Intn(len(tgEngineTexts))
		return tgEngineTexts[i] + tgVersion(r, e, bounds[tgEngineTexts[i]], bounds["end:"+tgEngineTexts[i]])
	}
}

func tgPrefixName(d css_ast.D, inv map[css_ast.D]string) string {
	text, ok := inv[d]
	if !ok {
		return fmt.Sprintf("D#%d", d)
	}
	var sb strings.Builder
	sb.WriteString("D")
	for _, p := range strings.Split(text, "-") {
		if p != "" {
			sb.WriteString(strings.ToUpper(p[:1]) + p[1:])
		}
	}
	return sb.String()
}

const tgVersionNote = "All version numbers passed to esbuild must be in the format \"X\", \"X.Y\", or \"X.Y.Z\" where X, Y, and Z are non-negative integers."

// tgRunVF runs the real validateFeatures and canonicalises everything it returns and logs
func tgRunVF(target api.Target, engines []api.Engine, inv map[css_ast.D]string, e *emitter) string {
	js, css, prefix, env, msgs, panicked := api.VerifValidateFeatures(target, engines)
	if panicked != "" {
		e.stat("vf:panic:" + panicked)
		return "PANIC " + panicked
	}
	pf := []string{}
	for d, p := range prefix {
		pf = append(pf, fmt.Sprintf("%s:%d", tgPrefixName(d, inv), uint8(p)))
	}
	sort.Strings(pf)
	pfs := "."
	if len(pf) > 0 {
		pfs = strings.Join(pf, ",")
		e.stat("vf:some-prefix")
	}
	errs := []string{}
	if len(msgs)%2 != 0 {
		return "unexpected-log " + strings.Join(msgs, " | ")
	}
	for i := 0; i < len(msgs); i += 2 {
		found := false
		for _, en := range engines {
			if msgs[i] == fmt.Sprintf("Invalid version: %q", en.Version) && msgs[i+1] == tgVersionNote {
				errs = append(errs, en.Version)
				found = true
				break
			}
		}
		if !found {
			return "unexpected-log " + strings.Join(msgs, " | ")
		}
	}
	if len(errs) > 0 {
		e.stat("vf:invalid-version")
	}
	for i := range errs {
		errs[i] = tgHex(errs[i])
	}
	sort.Strings(errs) // logger.Log.Done() sorts: compare as a sorted list
	if js != 0 {
		e.stat("vf:some-js-unsupported")
	}
	if css != 0 {
		e.stat("vf:some-css-unsupported")
	}
	if env == "" {
		e.stat("vf:empty-env")
	}
	return fmt.Sprintf("js=%d css=%d pfx=%s env=%s errs=%s", uint64(js), uint16(css), pfs, tgHex(env), tgJoinOrDot(errs))
}

// tgRunCli runs the real --target= parser; ok=false: the expected line is final
func tgRunCli(text string, e *emitter) (string, api.TransformOptions, bool) {
	arg := "--target=" + text
	opts, err := cli.ParseTransformOptions([]string{arg})
	if err != nil {
		items := []string{}
		if text != "" {
			items = strings.Split(text, ",")
		}
		for i, v := range items {
			if err.Error() == fmt.Sprintf("Target %q is missing a version number in %q", v, arg) {
				e.stat("cli:missing-version")
				return fmt.Sprintf("missing %d", i), opts, false
			}
			if err.Error() == fmt.Sprintf("Invalid target %q in %q", v, arg) {
				e.stat("cli:invalid-target")
				return fmt.Sprintf("invalid %d", i), opts, false
			}
		}
		return "unexpected-error " + err.Error(), opts, false
	}
	es := []string{}
	for _, en := range opts.Engines {
		name := fmt.Sprintf("Engine#%d", en.Name)
		if int(en.Name) < len(tgEngineConsts) {
			name = tgEngineConsts[en.Name]
		}
		es = append(es, name+":"+tgHex(en.Version))
	}
	ess := "."
	if len(es) > 0 {
		ess = strings.Join(es, ",")
	}
	tn := fmt.Sprintf("Target#%d", opts.Target)
	if int(opts.Target) < len(tgTargetNames) {
		tn = tgTargetNames[opts.Target]
	}
	e.stat(fmt.Sprintf("cli:ok-engines-%d", len(es)))
	if opts.Target != api.DefaultTarget {
		e.stat("cli:ok-with-es-target")
	}
	return "ok " + tn + " " + ess, opts, true
}

func tgSemver(r *gen.Rand, e *emitter) (compat.Semver, string) {
	n := 1 + r.Intn(3)
	if r.Chance(1, 10) {
		n = r.Intn(5)
	}
	parts := []int{}
	strs := []string{}
	for i := 0; i < n; i++ {
		p := r.Intn(3)
		if r.Chance(1, 5) {
			p = r.Intn(200)
		}
		parts = append(parts, p)
		strs = append(strs, fmt.Sprint(p))
	}
	pre := ""
	switch k := r.Intn(10); {
	case k < 5:
		pre = tgPres[r.Intn(len(tgPres))]
	case k < 6:
		ascii := []string{"-", "-a..b", "-a.", "-.a", "-a-b", "alpha", "a.b", ".", "-a.b.", "--a", "-.", "-..", "-1.", "-1..1"}
		pre = ascii[r.Intn(len(ascii))]
		e.stat("cmpsv:malformed-pre")
	}
	ps := "."
	if len(strs) > 0 {
		ps = strings.Join(strs, ",")
	}
	return compat.Semver{Parts: parts, PreRelease: pre}, ps + "/" + tgHex(pre)
}

func init() {
	kernels["targets"] = func(r *gen.Rand, e *emitter, tier string) {
		bounds := tgBoundaries()
		if len(bounds) == 0 {
			e.stat("boundaries-unavailable")
		}
		inv := map[css_ast.D]string{}
		for text, d := range css_ast.KnownDeclarations {
			inv[d] = text
		}
		jsNames := []string{}
		for k := range compat.StringToJSFeature {
			jsNames = append(jsNames, k)
		}
		sort.Strings(jsNames)
		cssNames := []string{}
		for k := range compat.StringToCSSFeature {
			cssNames = append(cssNames, k)
		}
		sort.Strings(cssNames)
		for !e.full() {
			switch k := r.Intn(20); {
			case k < 5: // cli
				n := 1 + r.Intn(4)
				if r.Chance(1, 15) {
					n = 0
				}
				items := []string{}
				for i := 0; i < n; i++ {
					items = append(items, tgItem(r, e, bounds))
				}
				text := strings.Join(items, ",")
				if r.Chance(1, 25) {
					text += ","
				}
				if r.Chance(1, 30) {
					text = strings.Replace(text, ",", ", ", 1)
				}
				exp, _, _ := tgRunCli(text, e)
				e.stat("op:cli")
				e.emit("targets\tcli\t"+tgHex(text), exp)
			case k < 9: // cliv: text → features
				n := 1 + r.Intn(4)
				items := []string{}
				for i := 0; i < n; i++ {
					it := tgItem(r, e, bounds)
					for r.Chance(9, 10) && (strings.HasPrefix(it, "es") && len(it) < 3 || it == "" || strings.ContainsAny(it, " ")) {
						it = tgItem(r, e, bounds)
					}
					items = append(items, it)
				}
				text := strings.Join(items, ",")
				exp, opts, ok := tgRunCli(text, e)
				if ok {
					exp = tgRunVF(opts.Target, opts.Engines, inv, e)
					if !strings.HasPrefix(exp, "PANIC") && !strings.HasPrefix(exp, "unexpected") {
						// is the printed target environment a fixed point of parse + validate?
						stable := 1
						_, _, _, env, _, _ := api.VerifValidateFeatures(opts.Target, opts.Engines)
						if env != "" {
							text := strings.NewReplacer("\"", "", " ", "").Replace(env)
							exp2, opts2, ok2 := tgRunCli(text, e)
							_ = exp2
							if !ok2 {
								stable = 0
							} else {
								a := tgRunVF(opts.Target, opts.Engines, inv, e)
								b := tgRunVF(opts2.Target, opts2.Engines, inv, e)
								if i := strings.Index(a, " errs="); i < 0 || !strings.HasPrefix(b, a[:i]) || !strings.HasSuffix(b, " errs=.") {
									stable = 0
								}
							}
						}
						if stable == 0 {
							e.stat("cliv:reparse-unstable")
						} else {
							e.stat("cliv:reparse-stable")
						}
						exp += fmt.Sprintf(" stable=%d", stable)
					}
				}
				e.stat("op:cliv")
				e.emit("targets\tcliv\t"+tgHex(text), exp)
			case k < 14: // vf
				t := r.Intn(len(tgTargetNames))
				if r.Chance(1, 40) {
					t = len(tgTargetNames) + r.Intn(4)
				}
				n := r.Intn(5)
				engines := []api.Engine{}
				wire := []string{}
				for i := 0; i < n; i++ {
					ei := r.Intn(len(tgEngineTexts))
					b := bounds[tgEngineTexts[ei]]
					en := bounds["end:"+tgEngineTexts[ei]]
					if r.Chance(1, 40) {
						ei = len(tgEngineTexts) + r.Intn(3)
					}
					if i > 0 && r.Chance(1, 3) { // duplicate engine
						ei = int(engines[r.Intn(len(engines))].Name)
						if ei < len(tgEngineTexts) {
							b = bounds[tgEngineTexts[ei]]
							en = bounds["end:"+tgEngineTexts[ei]]
						}
						e.stat("vf:duplicate-engine")
					}
					v := tgVersion(r, e, b, en)
					engines = append(engines, api.Engine{Name: api.EngineName(ei), Version: v})
					wire = append(wire, fmt.Sprintf("%d:%s", ei, tgHex(v)))
				}
				ws := "."
				if len(wire) > 0 {
					ws = strings.Join(wire, ",")
				}
				e.stat("op:vf")
				e.stat(fmt.Sprintf("vf:engines-%d", n))
				e.emit(fmt.Sprintf("targets\tvf\t%d\t%s", t, ws), tgRunVF(api.Target(t), engines, inv, e))
			case k < 16: // sup
				m := map[string]bool{}
				wire := []string{}
				for i, n := 0, r.Intn(6); i < n; i++ {
					var name string
					switch r.Intn(6) {
					case 0:
						bad := []string{"", "Arrow", "arrow ", "arrows", "nesting2", "bigInt", "class_field", "inline-scripts", "hwb ", "é", "ARROW", "DArrow", "InlineStyle", "ImportMeta"}
						name = bad[r.Intn(len(bad))]
					case 1, 2:
						name = cssNames[r.Intn(len(cssNames))]
					default:
						name = jsNames[r.Intn(len(jsNames))]
					}
					if _, dup := m[name]; dup {
						continue
					}
					v := r.Bool()
					m[name] = v
					b := "0"
					if v {
						b = "1"
					}
					wire = append(wire, tgHex(name)+":"+b)
				}
				jf, jm, cf, cm, msgs := api.VerifValidateSupported(m)
				bad := []string{}
				for _, msg := range msgs {
					for k := range m {
						if msg == fmt.Sprintf("%q is not a valid feature name for the \"supported\" setting", k) {
							bad = append(bad, tgHex(k))
						}
					}
				}
				if len(bad) != len(msgs) {
					bad = append(bad, "unexpected-log")
				}
				sort.Strings(bad)
				bs, ws := ".", "."
				if len(bad) > 0 {
					bs = strings.Join(bad, ",")
					e.stat("sup:refused-name")
				}
				if len(wire) > 0 {
					ws = strings.Join(wire, ",")
				}
				if jm != 0 {
					e.stat("sup:js")
				}
				if cm != 0 {
					e.stat("sup:css")
				}
				e.stat("op:sup")
				e.emit("targets\tsup\t"+ws, fmt.Sprintf("js=%d jsmask=%d css=%d cssmask=%d bad=%s", uint64(jf), uint64(jm), uint16(cf), uint16(cm), bs))
			case k < 17: // suparg
				names := []string{"arrow", "nesting", "", "a b", "x=y", "bigint"}
				vals := []string{"=true", "=false", "", "=", "=TRUE", "=1", "=false=x", "=true ", "= true", "=no"}
				text := names[r.Intn(len(names))] + vals[r.Intn(len(vals))]
				opts, err := cli.ParseTransformOptions([]string{"--supported:" + text})
				exp := ""
				if err != nil {
					switch {
					case strings.HasPrefix(err.Error(), "Missing \"=\" in "):
						exp = "missing-eq"
					case strings.HasPrefix(err.Error(), "Invalid value "):
						exp = "invalid-value"
					default:
						exp = "unexpected-error " + err.Error()
					}
				} else if len(opts.Supported) == 1 {
					for k, v := range opts.Supported {
						b := 0
						if v {
							b = 1
						}
						exp = fmt.Sprintf("ok %s %d", tgHex(k), b)
					}
				} else {
					exp = "unexpected-map"
				}
				e.stat("op:suparg")
				e.stat("suparg:" + strings.SplitN(exp, " ", 2)[0])
				e.emit("targets\tsuparg\t"+tgHex(text), exp)
			case k < 19: // cmpsv
				a, aw := tgSemver(r, e)
				b, bw := tgSemver(r, e)
				if r.Chance(1, 4) {
					b.Parts = append([]int{}, a.Parts...)
					bw = strings.SplitN(aw, "/", 2)[0] + "/" + tgHex(b.PreRelease)
				}
				if r.Chance(1, 3) && a.PreRelease != "" {
					// b's tag is a small edit of a's: same numbers written differently, one more identifier, a neighbour
					e.stat("cmpsv:edited-tag")
					ids := strings.Split(strings.TrimPrefix(a.PreRelease, "-"), ".")
					i := r.Intn(len(ids))
					switch r.Intn(5) {
					case 0:
						ids[i] = "0" + ids[i]
					case 1:
						ids = append(ids, []string{"0", "x", "1"}[r.Intn(3)])
					case 2:
						ids[i] = ids[i] + []string{"0", "a", "9"}[r.Intn(3)]
					case 3:
						ids[i] = strings.TrimLeft(ids[i], "0")
					default:
						ids = ids[:len(ids)-1]
					}
					b.Parts = append([]int{}, a.Parts...)
					b.PreRelease = "-" + strings.Join(ids, ".")
					if len(ids) == 0 {
						b.PreRelease = ""
					}
					bw = strings.SplitN(aw, "/", 2)[0] + "/" + tgHex(b.PreRelease)
				}
				c := compat.CompareSemver(a, b)
				switch {
				case c < 0:
					e.stat("cmpsv:lt")
				case c > 0:
					e.stat("cmpsv:gt")
				default:
					e.stat("cmpsv:eq")
				}
				e.stat("op:cmpsv")
				e.emit("targets\tcmpsv\t"+aw+"\t"+bw, fmt.Sprint(c))
			default: // pretty
				envs := []string{"", "\"es2020\"", "\"chrome58\", \"firefox57\"", "\"esnext\"", "x"}
				env := envs[r.Intn(len(envs))]
				mask := uint64(0)
				switch r.Intn(4) {
				case 1:
					mask = 1 << uint(r.Intn(64))
				case 2:
					mask = r.U64()
				case 3:
					mask = r.U64() & r.U64() & r.U64()
				}
				e.stat("op:pretty")
				e.emit(fmt.Sprintf("targets\tpretty\t%s\t%d", tgHex(env), mask), tgHex(config.PrettyPrintTargetEnvironment(env, compat.JSFeature(mask))))
			}
		}
	}
}
