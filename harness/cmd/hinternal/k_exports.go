package main

import (
	"fmt"
	"strings"

	"github.com/evanw/esbuild/internal/ast"
	"github.com/evanw/esbuild/internal/cache"
	"github.com/evanw/esbuild/internal/config"
	"github.com/evanw/esbuild/internal/fs"
	"github.com/evanw/esbuild/internal/logger"
	"github.com/evanw/esbuild/internal/resolver"
	"github.com/evanw/esbuild/verifharness/gen"
)

// exports kernel: which subpath pattern of an "exports" map does the REAL resolver pick for a
// specifier, and with which left-over subpath? Every pattern key i maps to "./t<i>/*" so that the
// resolved path reveals (key, subpath).
func init() {
	kernels["exports"] = func(r *gen.Rand, e *emitter, tier string) {
		segs := []string{"a", "b", "ab", "a/b", "x", "features", "f", "internal", "a.b", "x.js"}
		for !e.full() {
			// pattern keys: "./" + prefix + "*" + trailer  (single star)
			n := 1 + r.Intn(5)
			keys := []string{}
			seen := map[string]bool{}
			for i := 0; i < n; i++ {
				pre := ""
				for j := 0; j < r.Intn(3); j++ {
					pre += segs[r.Intn(len(segs))] + "/"
				}
				trailer := ""
				if r.Bool() {
					trailer = []string{".js", "/x", "-v2", ".b", "/index.js"}[r.Intn(5)]
				}
				k := "./" + pre + "*" + trailer
				if !seen[k] {
					seen[k] = true
					keys = append(keys, k)
				}
			}
			// a match key that has a chance to match several of them
			base := keys[r.Intn(len(keys))]
			star := strings.IndexByte(base, '*')
			mk := base[:star] + []string{"a", "ab", "a/b", "features/x", "x.js", "q-v2", "a.b", "b"}[r.Intn(8)] + base[star+1:]
			if r.Chance(1, 5) {
				mk = "./" + segs[r.Intn(len(segs))] + "/" + segs[r.Intn(len(segs))]
			}
			files := map[string]string{"/proj/src/index.js": ""}
			entries := []string{}
			for i, k := range keys {
				entries = append(entries, fmt.Sprintf("%q: \"./t%d/*.js\"", k, i))
				// every possible subpath that this key could produce for mk (suffixes of mk): create them all
				for a := 0; a <= len(mk); a++ {
					for b := a; b <= len(mk); b++ {
						sub := mk[a:b]
						if sub != "" && !strings.Contains(sub, "..") && !strings.HasPrefix(sub, "/") && !strings.HasSuffix(sub, "/") {
							files[fmt.Sprintf("/proj/node_modules/dep/t%d/%s.js", i, sub)] = ""
						}
					}
				}
			}
			// a path that is both a file and a directory prefix of another file would confuse the mock FS
			conflict := false
			for p := range files {
				for q := range files {
					if strings.HasPrefix(q, p+"/") {
						conflict = true
					}
				}
			}
			if conflict {
				continue
			}
			// random JSON key order is the order of `keys` (already random)
			files["/proj/node_modules/dep/package.json"] = "{\"name\": \"dep\", \"exports\": {" + strings.Join(entries, ", ") + "}}"
			spec := "dep" + mk[1:]
			hexKeys := make([]string, len(keys))
			for i, k := range keys {
				hexKeys[i] = hexBytes([]byte(k))
			}
			e.stat(fmt.Sprintf("keys-%d", len(keys)))
			e.emit(fmt.Sprintf("exports\tselect\t%s\t%s", strings.Join(hexKeys, " "), hexBytes([]byte(mk))), guard(func() string {
				mfs := fs.MockFS(files, fs.MockUnix, "/proj")
				log := logger.NewDeferLog(logger.DeferLogNoVerboseOrDebug, nil)
				opts := config.Options{Platform: config.PlatformNode, ExtensionOrder: []string{".js"}, MainFields: []string{"main"}}
				res := resolver.NewResolver(config.BuildCall, mfs, log, cache.MakeCacheSet(), &opts)
				rr, _ := res.Resolve("/proj/src", spec, ast.ImportRequire)
				if rr == nil {
					return "none"
				}
				p := rr.PathPair.Primary.Text
				const pre = "/proj/node_modules/dep/t"
				if !strings.HasPrefix(p, pre) {
					return "other:" + p
				}
				rest := p[len(pre):]
				slash := strings.IndexByte(rest, '/')
				var idx int
				fmt.Sscan(rest[:slash], &idx)
				return hexBytes([]byte(keys[idx])) + " " + hexBytes([]byte(strings.TrimSuffix(rest[slash+1:], ".js")))
			}))
		}
	}
}

func pickSep(r *gen.Rand) string {
	if r.Bool() {
		return "/"
	}
	return ""
}
