package main

import (
	"fmt"
	"strconv"
	"strings"

	"github.com/evanw/esbuild/internal/ast"
	"github.com/evanw/esbuild/internal/config"
	"github.com/evanw/esbuild/internal/js_ast"
	"github.com/evanw/esbuild/internal/js_parser"
	"github.com/evanw/esbuild/internal/logger"
)

// the REAL side of kernel stmtmangle: parse with MinifySyntax, print the body of function `t` in the wire form

type smReal struct {
	symbols []ast.Symbol
}

func (p *smReal) id(ref ast.Ref) string {
	ref = ast.FollowSymbols(ast.SymbolMap{SymbolsForSource: [][]ast.Symbol{p.symbols}}, ref)
	name := p.symbols[ref.InnerIndex].OriginalName
	if len(name) >= 2 {
		if k, err := strconv.Atoi(name[1:]); err == nil {
			return strconv.Itoa(k)
		}
	}
	return "(NAME " + name + ")"
}

func (p *smReal) expr(sb *strings.Builder, e js_ast.Expr) {
	switch x := e.Data.(type) {
	case *js_ast.EIdentifier:
		if x.MustKeepDueToWithStmt || x.CanBeRemovedIfUnused || x.CallCanBeUnwrappedIfUnused {
			sb.WriteString("(FLAGS)")
		}
		sb.WriteString("i:" + p.id(x.Ref))
	case *js_ast.EUnary:
		name := map[js_ast.OpCode]string{js_ast.UnOpNot: "not", js_ast.UnOpNeg: "neg", js_ast.UnOpPos: "pos", js_ast.UnOpCpl: "cpl", js_ast.UnOpVoid: "void"}[x.Op]
		if x.Op == js_ast.UnOpTypeof {
			name = "typeof0"
			if x.WasOriginallyTypeofIdentifier {
				name = "typeof1"
			}
		}
		if name == "" {
			name = fmt.Sprintf("(OTHER-UNOP %d)", x.Op)
		}
		sb.WriteString("u:" + name + " ")
		p.expr(sb, x.Value)
	case *js_ast.EBinary:
		name, ok := mjBinOpNames[x.Op]
		if !ok {
			name = fmt.Sprintf("(OTHER-BINOP %d)", x.Op)
		}
		sb.WriteString("b:" + name + " ")
		p.expr(sb, x.Left)
		sb.WriteString(" ")
		p.expr(sb, x.Right)
	case *js_ast.EIf:
		sb.WriteString("if ")
		p.expr(sb, x.Test)
		sb.WriteString(" ")
		p.expr(sb, x.Yes)
		sb.WriteString(" ")
		p.expr(sb, x.No)
	case *js_ast.ECall:
		if x.OptionalChain != js_ast.OptionalChainNone || x.Kind != js_ast.NormalCall {
			sb.WriteString("(FLAGS)")
		}
		sb.WriteString("c:" + strconv.Itoa(len(x.Args)) + " ")
		p.expr(sb, x.Target)
		for _, a := range x.Args {
			sb.WriteString(" ")
			p.expr(sb, a)
		}
	case *js_ast.EDot:
		if x.OptionalChain != js_ast.OptionalChainNone {
			sb.WriteString("(FLAGS)")
		}
		u := make([]uint16, len(x.Name))
		for i := 0; i < len(x.Name); i++ {
			u[i] = uint16(x.Name[i])
		}
		sb.WriteString("d:" + mjHex(u) + " ")
		p.expr(sb, x.Target)
	case *js_ast.EIndex:
		sb.WriteString("x ")
		p.expr(sb, x.Target)
		sb.WriteString(" ")
		p.expr(sb, x.Index)
	default:
		mjPrint(sb, e) // literals, NIL, OTHER
	}
}

func (p *smReal) decls(sb *strings.Builder, ds []js_ast.Decl) {
	for _, d := range ds {
		b, ok := d.Binding.Data.(*js_ast.BIdentifier)
		if !ok {
			sb.WriteString(" (OTHER-BINDING)")
			continue
		}
		if d.ValueOrNil.Data == nil {
			sb.WriteString(" v:" + p.id(b.Ref))
		} else {
			sb.WriteString(" w:" + p.id(b.Ref) + " ")
			p.expr(sb, d.ValueOrNil)
		}
	}
}

func smKindName(k js_ast.LocalKind) string {
	switch k {
	case js_ast.LocalVar:
		return "var"
	case js_ast.LocalLet:
		return "let"
	case js_ast.LocalConst:
		return "const"
	}
	return "(OTHER-KIND)"
}

func (p *smReal) optE(sb *strings.Builder, e js_ast.Expr) {
	if e.Data == nil {
		sb.WriteString(" o-")
	} else {
		sb.WriteString(" o+ ")
		p.expr(sb, e)
	}
}

func (p *smReal) lab(l *ast.LocRef) string {
	if l == nil {
		return "-"
	}
	return p.id(l.Ref)
}

func (p *smReal) stmts(sb *strings.Builder, ss []js_ast.Stmt) {
	sb.WriteString("B:" + strconv.Itoa(len(ss)))
	for _, s := range ss {
		sb.WriteString(" ")
		p.stmt(sb, s)
	}
}

func (p *smReal) stmt(sb *strings.Builder, s js_ast.Stmt) {
	switch x := s.Data.(type) {
	case *js_ast.SEmpty:
		sb.WriteString("E")
	case *js_ast.SExpr:
		if x.Value.Data == nil {
			// an expression statement without expression (mangleIf can leave one): printed as nothing by js_printer
			sb.WriteString("E")
			return
		}
		sb.WriteString("X ")
		p.expr(sb, x.Value)
	case *js_ast.SLocal:
		if x.IsExport {
			sb.WriteString("(EXPORT)")
		}
		sb.WriteString("D:" + smKindName(x.Kind) + ":" + strconv.Itoa(len(x.Decls)))
		p.decls(sb, x.Decls)
	case *js_ast.SIf:
		if x.NoOrNil.Data == nil {
			sb.WriteString("I0 ")
		} else {
			sb.WriteString("I1 ")
		}
		p.expr(sb, x.Test)
		sb.WriteString(" ")
		p.stmt(sb, x.Yes)
		if x.NoOrNil.Data != nil {
			sb.WriteString(" ")
			p.stmt(sb, x.NoOrNil)
		}
	case *js_ast.SBlock:
		p.stmts(sb, x.Stmts)
	case *js_ast.SReturn:
		if x.ValueOrNil.Data == nil {
			sb.WriteString("R0")
		} else {
			sb.WriteString("R1 ")
			p.expr(sb, x.ValueOrNil)
		}
	case *js_ast.SThrow:
		sb.WriteString("T ")
		p.expr(sb, x.Value)
	case *js_ast.SBreak:
		sb.WriteString("K:" + p.lab(x.Label))
	case *js_ast.SContinue:
		sb.WriteString("C:" + p.lab(x.Label))
	case *js_ast.SLabel:
		sb.WriteString("L:" + p.id(x.Name.Ref) + " ")
		p.stmt(sb, x.Stmt)
	case *js_ast.SFor:
		sb.WriteString("F ")
		switch i := x.InitOrNil.Data.(type) {
		case nil:
			sb.WriteString("i-")
		case *js_ast.SExpr:
			sb.WriteString("iX ")
			p.expr(sb, i.Value)
		case *js_ast.SLocal:
			sb.WriteString("iD:" + smKindName(i.Kind) + ":" + strconv.Itoa(len(i.Decls)))
			p.decls(sb, i.Decls)
		default:
			sb.WriteString("(OTHER-INIT)")
		}
		p.optE(sb, x.TestOrNil)
		p.optE(sb, x.UpdateOrNil)
		sb.WriteString(" ")
		p.stmt(sb, x.Body)
	case *js_ast.SWhile:
		sb.WriteString("W ")
		p.expr(sb, x.Test)
		sb.WriteString(" ")
		p.stmt(sb, x.Body)
	case *js_ast.SDoWhile:
		sb.WriteString("O ")
		p.stmt(sb, x.Body)
		sb.WriteString(" ")
		p.expr(sb, x.Test)
	case *js_ast.SFunction:
		id := p.id(x.Fn.Name.Ref)
		sb.WriteString("f:" + id + ":" + id)
	default:
		fmt.Fprintf(sb, "(OTHER-STMT %T)", s.Data)
	}
}

// smRunReal parses the source with MinifySyntax and returns (wire of t's body, a let/const symbol has use count 1)
func smRunReal(src string) (out string, singleUse bool) {
	out = guard(func() string {
		log := logger.NewDeferLog(logger.DeferLogAll, nil)
		opts := js_parser.OptionsFromConfig(&config.Options{MinifySyntax: true})
		tree, ok := js_parser.Parse(log, logger.Source{Contents: src, KeyPath: logger.Path{Text: "/x.js", Namespace: "file"},
			PrettyPaths: logger.PrettyPaths{Abs: "/x.js", Rel: "x.js"}}, opts)
		msgs := log.Done()
		if !ok {
			return "PARSE-ERROR"
		}
		for _, m := range msgs {
			if m.Kind == logger.Error {
				return "PARSE-ERROR " + m.Data.Text
			}
		}
		p := &smReal{symbols: tree.Symbols}
		for _, s := range tree.Symbols {
			if (s.Kind == ast.SymbolConst || s.Kind == ast.SymbolOther) && s.UseCountEstimate == 1 && strings.HasPrefix(s.OriginalName, "x") {
				singleUse = true
			}
		}
		for _, part := range tree.Parts {
			for _, s := range part.Stmts {
				if f, ok := s.Data.(*js_ast.SFunction); ok && f.Fn.Name != nil && tree.Symbols[f.Fn.Name.Ref.InnerIndex].OriginalName == "t" {
					var sb strings.Builder
					p.stmts(&sb, f.Fn.Body.Block.Stmts)
					return sb.String()
				}
			}
		}
		return "NO-FUNCTION"
	})
	return
}
