package main

import (
	"crypto/sha256"
	"fmt"
	"os"
	"path/filepath"
	"sort"
	"strings"
	"time"

	"github.com/evanw/esbuild/pkg/api"
	"github.com/evanw/esbuild/verifharness/gen"
)

// kernel "writes": real build contexts on real directories. Before and after every Rebuild the directory tree
// is snapshotted (content hash + mtime); the observed creations/modifications/deletions are compared with the
// effects the Lean model (Impl/Writes.lean) derives from the previous table, the reported outputs and the flags.

type fileSnap struct {
	hash  [32]byte
	mtime int64
}

func snapTree(root string) map[string]fileSnap {
	out := map[string]fileSnap{}
	filepath.Walk(root, func(p string, info os.FileInfo, err error) error {
		if err != nil || info.IsDir() {
			return nil
		}
		b, _ := os.ReadFile(p)
		out[p] = fileSnap{hash: sha256.Sum256(b), mtime: info.ModTime().UnixNano()}
		return nil
	})
	return out
}

type idTable struct{ ids map[string]int }

func (t *idTable) id(s string) int {
	if v, ok := t.ids[s]; ok {
		return v
	}
	v := len(t.ids) + 1
	t.ids[s] = v
	return v
}

func init() {
	kernels["writes"] = func(r *gen.Rand, e *emitter, tier string) {
		root, err := os.MkdirTemp("", "verif-writes-")
		if err != nil {
			panic(err)
		}
		defer os.RemoveAll(root)
		for !e.full() {
			dir := filepath.Join(root, "p")
			os.RemoveAll(dir)
			src := filepath.Join(dir, "src")
			os.MkdirAll(src, 0755)
			nEnt := 1 + r.Intn(2)
			entries := []string{}
			for i := 0; i < nEnt; i++ {
				entries = append(entries, filepath.Join(src, fmt.Sprintf("e%d.js", i)))
			}
			useAsset := r.Bool()
			version := 0
			broken := false
			assetOn := useAsset
			writeSources := func() {
				for i, p := range entries {
					body := fmt.Sprintf("import { u } from \"./util.js\";\nconsole.log(\"e%d\", %d, u);\n", i, version)
					if assetOn && i == 0 {
						body = "import asset from \"./data.txt\";\nconsole.log(asset);\n" + body
					}
					if broken && i == 0 {
						body += "let let = ;\n"
					}
					os.WriteFile(p, []byte(body), 0644)
				}
				os.WriteFile(filepath.Join(src, "util.js"), []byte(fmt.Sprintf("export const u = %d;\n", version/2)), 0644)
				os.WriteFile(filepath.Join(src, "data.txt"), []byte(fmt.Sprintf("asset v%d\n", version/3)), 0644)
			}
			writeSources()
			outdir := filepath.Join(dir, "out")
			intoSrc := r.Chance(1, 3)
			if intoSrc {
				outdir = src // outputs land on the entry points themselves
				e.stat("case:outdir-is-srcdir")
			}
			allow := r.Chance(1, 3)
			write := r.Chance(5, 6)
			opts := api.BuildOptions{AbsWorkingDir: dir, EntryPoints: entries, Outdir: outdir, Bundle: true, Write: write, AllowOverwrite: allow,
				LogLevel: api.LogLevelSilent, Loader: map[string]api.Loader{".txt": api.LoaderFile}, Format: api.FormatESModule}
			if r.Chance(1, 4) {
				opts.OutExtension = map[string]string{".js": ".mjs"}
			}
			if r.Chance(1, 4) {
				opts.AssetNames = "[name]" // no hash: the asset output is called like its source
			}
			var cancelNext bool
			var ctx api.BuildContext
			opts.Plugins = []api.Plugin{{Name: "cancel", Setup: func(b api.PluginBuild) {
				b.OnLoad(api.OnLoadOptions{Filter: `util\.js$`}, func(a api.OnLoadArgs) (api.OnLoadResult, error) {
					if cancelNext {
						cancelNext = false
						go ctx.Cancel()
						time.Sleep(30 * time.Millisecond)
					}
					return api.OnLoadResult{}, nil
				})
			}}}
			c, cerr := api.Context(opts)
			if cerr != nil {
				e.stat("context-error")
				continue
			}
			ctx = c
			paths := &idTable{ids: map[string]int{}}
			contents := &idTable{ids: map[string]int{}}
			type tableEntry struct{ path, content int }
			old := []tableEntry{}
			steps := 2 + r.Intn(5)
			for s := 0; s < steps && !e.full(); s++ {
				// mutate the project
				cancelled := false
				switch r.Intn(7) {
				case 0:
					broken = !broken
				case 1:
					if useAsset {
						assetOn = !assetOn
					}
				case 2:
					cancelNext = true
					cancelled = true
				default:
					version++
				}
				if intoSrc && allow && write {
					// the previous build replaced the entry points: put sources back so the step is meaningful
				}
				writeSources()
				inputs := []int{}
				for _, p := range append(append([]string{}, entries...), filepath.Join(src, "util.js"), filepath.Join(src, "data.txt")) {
					inputs = append(inputs, paths.id(p))
				}
				sort.Ints(inputs)
				time.Sleep(2 * time.Millisecond) // mtime resolution
				before := snapTree(dir)
				res := ctx.Rebuild()
				after := snapTree(dir)
				// observed effects
				del, wr := []int{}, []string{}
				for p := range before {
					if _, ok := after[p]; !ok {
						del = append(del, paths.id(p))
					}
				}
				afterContent := map[string]string{}
				for p, a := range after {
					b, ok := before[p]
					if !ok || b.hash != a.hash || b.mtime != a.mtime {
						bs, _ := os.ReadFile(p)
						afterContent[p] = string(bs)
						wr = append(wr, fmt.Sprintf("%d:%d", paths.id(p), contents.id(string(bs))))
					}
				}
				sort.Ints(del)
				sort.Slice(wr, func(i, j int) bool { return lessPair(wr[i], wr[j]) })
				hasErr := len(res.Errors) > 0
				// the request as the model sees it
				outs := []string{}
				same := []int{}
				next := []tableEntry{}
				failedScanLink := hasErr && !cancelled
				for _, f := range res.OutputFiles {
					pid, cid := paths.id(f.Path), contents.id(string(f.Contents))
					outs = append(outs, fmt.Sprintf("%d:%d", pid, cid))
					next = append(next, tableEntry{pid, cid})
					if b, ok := before[f.Path]; ok && b.hash == sha256.Sum256(f.Contents) {
						same = append(same, pid)
					}
				}
				if hasErr && len(res.OutputFiles) == 0 {
					// The model derives input-clobbering itself from the outputs, which a failed build does not
					// report. Reconstruct them for the one failure cause this harness provokes on purpose.
					refusing := false
					for _, m := range res.Errors {
						if strings.HasPrefix(m.Text, "Refusing to overwrite input file") {
							refusing = true
						}
					}
					if refusing {
						failedScanLink = false
						for _, p := range entries {
							outs = append(outs, fmt.Sprintf("%d:%d", paths.id(p), 0))
						}
						e.stat("step:refused-to-overwrite")
					}
				}
				if hasErr {
					next = nil
				}
				sort.Ints(same)
				oldS := []string{}
				for _, t := range old {
					oldS = append(oldS, fmt.Sprintf("%d:%d", t.path, t.content))
				}
				nextS := []string{}
				for _, t := range next {
					nextS = append(nextS, fmt.Sprintf("%d:%d", t.path, t.content))
				}
				jn := func(xs []string) string {
					if len(xs) == 0 {
						return "-"
					}
					return strings.Join(xs, ",")
				}
				ji := func(xs []int) string {
					if len(xs) == 0 {
						return "-"
					}
					s := []string{}
					for _, x := range xs {
						s = append(s, fmt.Sprint(x))
					}
					return strings.Join(s, ",")
				}
				// the model lists written outputs in output order; observed ones are sorted: send outputs sorted
				sort.Slice(outs, func(i, j int) bool { return lessPair(outs[i], outs[j]) })
				sort.Slice(nextS, func(i, j int) bool { return lessPair(nextS[i], nextS[j]) })
				sort.Slice(oldS, func(i, j int) bool { return lessPair(oldS[i], oldS[j]) })
				op := fmt.Sprintf("writes\t%s\t%s\t%s\t%s\t%s\t%s\t%s\t%s", jn(oldS), ji(inputs), jn(outs), b01(failedScanLink), b01(cancelled && hasErr), b01(allow), b01(write), ji(same))
				exp := fmt.Sprintf("err=%s del=%s wr=%s next=%s", b01(hasErr), ji(del), jn(wr), jn(nextS))
				e.emit(op, exp)
				if hasErr {
					e.stat("step:error")
				} else {
					e.stat("step:ok")
				}
				if len(del) > 0 {
					e.stat("step:deleted-something")
				}
				if cancelled && hasErr {
					e.stat("step:cancelled")
				}
				if !write {
					e.stat("step:write-disabled")
				}
				old = next
			}
			ctx.Dispose()
		}
	}
}

func lessPair(a, b string) bool {
	var a1, a2, b1, b2 int
	fmt.Sscanf(a, "%d:%d", &a1, &a2)
	fmt.Sscanf(b, "%d:%d", &b1, &b2)
	if a1 != b1 {
		return a1 < b1
	}
	return a2 < b2
}
