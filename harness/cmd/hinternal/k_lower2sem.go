package main

import (
	"encoding/json"
	"fmt"
	"os"
	"os/exec"
	"path/filepath"
	"strings"

	"github.com/evanw/esbuild/pkg/api"
	"github.com/evanw/esbuild/verifharness/gen"
)

// kernel "lower2sem": validates the two EVALUATORS of Impl/Lower2.lean (the theorems of Props/C05Assign.lean are
// about them) against Node: each generated expression is run (a) as written and (b) as esbuild emits it with
// logical assignment, the exponent operator, template literals, nullish coalescing and optional chaining
// unsupported (pkg/api Transform), inside a deterministic pseudo-random world (Proxy objects logging get/set,
// functions f0..f2 logging calls, Symbol.toPrimitive logging conversions; the world may throw and may reassign
// v0..v3). Expected line: "<result>|<events>|<v0..v3>" for (a) ## the same for (b); the model prints evalS and
// evalT∘lower in the same world (semDriver). BigInt is left out (the model stops there).

var l2noBig = false

const lower2semRunner = `
'use strict';
const fs = require('fs');
function mix(a, b) { return (a * 1000003 + b * 7919 + 12345) % 1000000007; }
function makeWorld(seed) {
  const W = { log: [], skip: false, res: [] };
  const proxies = new Map(), ids = new WeakMap(), fns = new Map(), fnIds = new WeakMap();
  const tplIds = new Map(), tplCount = new Map();
  let getv = null, setv = null;
  function obj(id) {
    let p = proxies.get(id);
    if (!p) {
      p = new Proxy({}, {
        get(t, k) {
          if (k === Symbol.toPrimitive) return function (hint) { return toPrim('O', id, hint); };
          // assumption of the model: looking up "call" on a callee is not observable
          if (k === 'call') return undefined;
          const n = W.log.length;
          W.log.push('get:O' + id + ':' + String(k));
          return decide(mix(seed, mix(n, 1 + id)));
        },
        set(t, k, v) {
          const n = W.log.length;
          W.log.push('set:O' + id + ':' + String(k) + ':' + show(v));
          decide(mix(seed, mix(n, 40 + id)));
          return true;
        },
        deleteProperty(t, k) {
          const n = W.log.length;
          W.log.push('del:O' + id + ':' + String(k));
          return !!decide(mix(seed, mix(n, 500 + id)));
        },
      });
      proxies.set(id, p); ids.set(p, id);
    }
    return p;
  }
  function fnv(id) {
    let g = fns.get(id);
    if (!g) {
      g = function (...args) {
        const n = W.log.length;
        W.log.push('callf:' + id + ':' + show(this) + ':' + args.map(show).join(','));
        return decide(mix(seed, mix(n, 400 + id)));
      };
      g[Symbol.toPrimitive] = function (hint) { return toPrim('F', id, hint); };
      Object.freeze(g);
      fns.set(id, g); fnIds.set(g, id);
    }
    return g;
  }
  function pickVal(c) {
    const q = Math.floor(c / 16);
    switch (c % 16) {
      case 0: return undefined;
      case 1: return null;
      case 2: return 0;
      case 3: return 2;
      case 4: return fnv(q % 3);
      case 5: return '';
      case 6: return 'ab';
      case 7: return '1';
      case 8: return obj(10 + q % 3);
      case 9: return fnv(q % 3);
      case 10: return obj(15 + q % 2);
      case 11: return NaN;
      case 12: return fnv(q % 3);
      case 13: return 3;
      case 14: return obj(13 + q % 2);
      default: return fnv(q % 3);
    }
  }
  function decide(c) {
    if (Math.floor(c / 3) % 6 === 0) setv(Math.floor(c / 18) % 4, pickVal(Math.floor(c / 72)));
    if (c % 13 === 0) throw 99;
    return pickVal(Math.floor(c / 13));
  }
  function toPrim(kind, id, hint) {
    const n = W.log.length, off = kind === 'F' ? 50 : 0;
    if (hint === 'string') { W.log.push('prims:' + kind + id); return decide(mix(seed, mix(n, 200 + off + id))); }
    if (hint === 'number') { W.log.push('primn:' + kind + id); return decide(mix(seed, mix(n, 300 + off + id))); }
    W.log.push('primdefault:' + kind + id);
    return 0;
  }
  function show(v) {
    if (v === undefined) return 'u';
    if (v === null) return 'n';
    if (typeof v === 'number') {
      if (v !== v) return 'NaN';
      if (!Number.isSafeInteger(v)) { W.skip = true; return 'N?'; }
      return 'N' + String(v);
    }
    if (typeof v === 'string') {
      if (/[0-9]{16}/.test(v) || v.indexOf('e+') >= 0 || v.indexOf('Infinity') >= 0) W.skip = true;
      return 'S<' + v + '>';
    }
    if (typeof v === 'boolean') return v ? 'b1' : 'b0';
    if (typeof v === 'object' && ids.has(v)) return 'O' + ids.get(v);
    if (typeof v === 'function' && fnIds.has(v)) return 'F' + fnIds.get(v);
    if (Array.isArray(v) && Array.isArray(v.raw) && /^t[0-9]+$/.test(v[0])) {
      // a template strings array: the site is spelled by its first string, arrays of one site are numbered by identity
      if (!tplIds.has(v)) {
        const c = tplCount.get(v[0]) || 0;
        tplCount.set(v[0], c + 1);
        tplIds.set(v, 'T' + v[0].slice(1) + '#' + c);
      }
      return tplIds.get(v);
    }
    W.skip = true;
    return '?' + typeof v;
  }
  W.init = function (i) { return i % 2 === 1 ? obj(10 + mix(seed, 900 + i) % 7) : i === 0 ? fnv(mix(seed, 900) % 3) : pickVal(mix(seed, 900 + i)); };
  W.access = function (g, s) { getv = g; setv = s; };
  W.call = function (f, a) {
    const n = W.log.length;
    W.log.push('call:' + f + ':' + show(a));
    return decide(mix(seed, mix(n, 100 + f)));
  };
  W.thisObj = obj(17);
  W.result = function (r) { W.res.push('V:' + show(r)); };
  W.error = function (e) {
    if (e instanceof TypeError) W.res.push('E:TypeError');
    else if (e instanceof Error) W.res.push('E:OTHER:' + e.name + ':' + e.message);
    else W.res.push('E:throw:' + show(e));
  };
  W.finish = function (vars) {
    const vs = vars.map(show).join(',');
    if (W.skip) return 'SKIP';
    return W.res.join(',') + '|' + W.log.join(';') + '|' + vs;
  };
  return W;
}
function run(code, seed) {
  const W = makeWorld(seed);
  const body =
    'var v0 = W.init(0), v1 = W.init(1), v2 = W.init(2), v3 = W.init(3), r;\n' +
    'W.access(function (i) { return [v0, v1, v2, v3][i]; }, function (i, x) { if (i === 0) v0 = x; else if (i === 1) v1 = x; else if (i === 2) v2 = x; else v3 = x; });\n' +
    'function f0(a) { return W.call(0, a); } function f1(a) { return W.call(1, a); } function f2(a) { return W.call(2, a); }\n' +
    code + '\n' +
    'for (var i_ = 0; i_ < 2; i_++) { try { once.call(W.thisObj); W.result(r); } catch (e) { W.error(e); } }\n' +
    'return W.finish([v0, v1, v2, v3]);';
  try {
    return new Function('W', body)(W);
  } catch (e) {
    return 'HARNESS-ERROR:' + e;
  }
}
const cases = fs.readFileSync(process.argv[2], 'utf8').split('\n').filter(Boolean).map(JSON.parse);
const out = [];
for (const c of cases) out.push(run(c.src, c.seed) + ' ## ' + run(c.low, c.seed));
fs.writeFileSync(process.argv[3], out.join('\n') + '\n');
`

type l2semCase struct {
	Seed int    `json:"seed"`
	Src  string `json:"src"`
	Low  string `json:"low"`
	wire string
}

func init() {
	kernels["lower2sem"] = func(r *gen.Rand, e *emitter, tier string) {
		l2noBig = true
		defer func() { l2noBig = false }()
		cases := []l2semCase{}
		for len(cases) < e.limit {
			l2site = 0
			x := genL2(r, e, 1+r.Intn(5))
			src := "function once() { r = " + x.js + "; }"
			res := api.Transform(src, api.TransformOptions{
				Supported: map[string]bool{"logical-assignment": false, "exponent-operator": false, "template-literal": false,
					"nullish-coalescing": false, "optional-chain": false},
				LogLevel: api.LogLevelSilent,
			})
			if len(res.Errors) > 0 {
				e.stat("transform-error")
				continue
			}
			cases = append(cases, l2semCase{Seed: r.Intn(1000000), Src: src, Low: string(res.Code), wire: x.wire})
		}
		dir, err := os.MkdirTemp("", "lower2sem")
		if err != nil {
			panic(err)
		}
		defer os.RemoveAll(dir)
		var sb strings.Builder
		for _, c := range cases {
			js, _ := json.Marshal(c)
			sb.Write(js)
			sb.WriteByte('\n')
		}
		os.WriteFile(filepath.Join(dir, "runner.js"), []byte(lower2semRunner), 0644)
		os.WriteFile(filepath.Join(dir, "cases.jsonl"), []byte(sb.String()), 0644)
		cmd := exec.Command("node", filepath.Join(dir, "runner.js"), filepath.Join(dir, "cases.jsonl"), filepath.Join(dir, "out.txt"))
		if outb, err := cmd.CombinedOutput(); err != nil {
			panic(fmt.Sprintf("node failed: %v\n%s", err, outb))
		}
		outb, err := os.ReadFile(filepath.Join(dir, "out.txt"))
		if err != nil {
			panic(err)
		}
		lines := strings.Split(strings.TrimRight(string(outb), "\n"), "\n")
		if len(lines) != len(cases) {
			panic(fmt.Sprintf("node answered %d lines for %d cases", len(lines), len(cases)))
		}
		for i, c := range cases {
			line := lines[i]
			parts := strings.Split(line, " ## ")
			switch {
			case strings.Contains(line, "SKIP"):
				e.stat("node:skip-number-out-of-range")
			case strings.Contains(line, "HARNESS-ERROR") || strings.Contains(line, "E:OTHER"):
				e.stat("node:harness-error")
			case len(parts) == 2 && parts[0] == parts[1]:
				e.stat("node:source-and-lowered-agree")
			default:
				e.stat("node:source-and-lowered-differ")
			}
			if len(parts) == 2 {
				switch {
				case strings.HasPrefix(parts[0], "V:"):
					e.stat("node:result:value")
				case strings.HasPrefix(parts[0], "E:TypeError"):
					e.stat("node:result:TypeError")
				case strings.HasPrefix(parts[0], "E:throw"):
					e.stat("node:result:host-throw")
				}
				if strings.Contains(parts[0], "#1") {
					e.stat("node:template-array-not-cached")
				}
				if strings.Contains(parts[0], "#0") {
					e.stat("node:template-array-passed")
				}
				for _, k := range []string{"get:", "set:", "call:", "prims:", "primn:", "callf:", "del:", "callf:0:O", "callf:1:O", "callf:2:O"} {
					if strings.Contains(parts[0], k) {
						e.stat("node:event:" + strings.TrimSuffix(k, ":"))
					}
				}
			}
			e.emit(fmt.Sprintf("lower2sem\t%d\t%s", c.Seed, c.wire), line)
		}
	}
}
