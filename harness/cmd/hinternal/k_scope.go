package main

import (
	"fmt"
	"os"
	"reflect"
	"sort"
	"strconv"
	"strings"

	"github.com/evanw/esbuild/internal/ast"
	"github.com/evanw/esbuild/internal/config"
	"github.com/evanw/esbuild/internal/js_ast"
	"github.com/evanw/esbuild/internal/js_parser"
	"github.com/evanw/esbuild/internal/logger"
	"github.com/evanw/esbuild/verifharness/gen"
)

// kernel "scope": the scope analysis that feeds the renamers (internal/js_parser/js_parser.go:
// pushScopeForParsePass / popScope, declareSymbol + canMergeSymbols, hoistSymbols, findSymbol and the
// scope-related steps of the visit pass), against the Lean model Impl/Scopes.lean.
//
// op "src": a generated PROGRAM (functions, arrows, function expressions, classes with methods / static
// blocks / private names, blocks, try/catch/finally, labels, with, if-function, for/switch scopes,
// var/let/const/function/class declarations with colliding names, "use strict", import/export, direct eval)
// is written as SOURCE TEXT and parsed with the real js_parser.Parse; the harness also writes the
// sequence of scope pushes / declarations / references the parser is expected to make for that text (the
// "item" form the model runs on). Compared: the whole resulting scope tree (kind, strictness, members,
// generated symbols, label, direct-eval flag, children), the whole symbol table (kind, name, link,
// must-not-be-renamed), the symbol every reference was bound to, the redeclaration errors in order.
//
// op "ops": the same item form, but arbitrary (also ill-shaped nests: bodies without argument scopes,
// declaration kinds in scopes where the parser never puts them, every pair of symbol kinds colliding),
// executed directly on the real unexported routines through js_parser.VerifRunScopeOps.

var scopeNameTable = []string{"arguments", "eval", "a", "b", "c", "d", "e", "f", "g", "h"}
var scopePrivTable = []string{"#p", "#q", "#r"}

const scopePrivBase = 20
const scopeInnerBase = 1000

// names derived from private names ("q_get", "q_set", "q_fn")
const scopePrivDerivedBase = 9000

func scopeNameID(s string) int {
	for i, n := range scopeNameTable {
		if n == s {
			return i
		}
	}
	for i, n := range scopePrivTable {
		if n == s {
			return scopePrivBase + i
		}
	}
	switch s {
	case "require":
		return 50
	case "exports":
		return 51
	case "module":
		return 52
	case "_this":
		return 53
	case "import_x":
		return 54
	}
	for i, n := range scopePrivTable {
		for j, suf := range []string{"_get", "_set", "_fn"} {
			if s == n[1:]+suf {
				return scopePrivDerivedBase + i*3 + j
			}
		}
	}
	if strings.HasPrefix(s, "_") {
		// "_" + name: the inner class name; nested when a renamed symbol is redeclared as a class ("__g")
		if id := scopeNameID(s[1:]); id >= 0 && id < scopePrivDerivedBase-scopeInnerBase {
			return scopeInnerBase + id
		}
	}
	return -1
}

func scopeNameOf(id int) string {
	if id >= scopePrivBase && id < scopePrivBase+len(scopePrivTable) {
		return scopePrivTable[id-scopePrivBase]
	}
	return scopeNameTable[id]
}

// ---------------------------------------------------------------------------------------------
// dump of the real result

func scopeDumpTree(sb *strings.Builder, s *js_ast.Scope) {
	fmt.Fprintf(sb, "(%d %d %d m", uint8(s.Kind), uint8(s.StrictMode), b2i(s.ContainsDirectEval))
	type kv struct {
		k int
		v uint32
	}
	var ms []kv
	for name, m := range s.Members {
		ms = append(ms, kv{scopeNameID(name), m.Ref.InnerIndex})
	}
	sort.Slice(ms, func(i, j int) bool { return ms[i].k < ms[j].k })
	for i, m := range ms {
		if i > 0 {
			sb.WriteByte(',')
		}
		fmt.Fprintf(sb, "%d=%d", m.k, m.v)
	}
	sb.WriteString(" g")
	for i, g := range s.Generated {
		if i > 0 {
			sb.WriteByte(',')
		}
		fmt.Fprintf(sb, "%d", g.InnerIndex)
	}
	sb.WriteString(" l")
	if s.Label.Ref != ast.InvalidRef {
		fmt.Fprintf(sb, "%d", s.Label.Ref.InnerIndex)
	}
	for _, c := range s.Children {
		sb.WriteByte(' ')
		scopeDumpTree(sb, c)
	}
	sb.WriteByte(')')
}


func scopeDumpSymbols(sb *strings.Builder, syms []ast.Symbol, n int) {
	for i := 0; i < n && i < len(syms); i++ {
		s := syms[i]
		if i > 0 {
			sb.WriteByte(',')
		}
		link := "-"
		if s.Link != ast.InvalidRef {
			link = strconv.Itoa(int(s.Link.InnerIndex))
		}
		fmt.Fprintf(sb, "%d.%d.%s.%d", uint8(s.Kind), scopeNameID(s.OriginalName), link, b2i(s.Flags.Has(ast.MustNotBeRenamed)))
	}
}

// branch statistics read off a real result line (which parts of the modelled routines left a trace)
func scopeResultStats(e *emitter, prefix string, out string) {
	i := strings.Index(out, "|S:")
	if i < 0 {
		return
	}
	linked, pinned, unbound, hoistedVar := false, false, false, false
	for _, sym := range strings.Split(out[i+3:], ",") {
		f := strings.Split(sym, ".")
		if len(f) < 4 {
			continue
		}
		if f[2] != "-" {
			linked = true
		}
		if f[3] == "1" && f[0] != "5" {
			pinned = true
		}
		if f[0] == "0" && f[1] != "50" {
			unbound = true
		}
	}
	tree := out[strings.Index(out, "|T:"):i]
	for j := 0; j+2 < len(tree); j++ {
		if tree[j] == ' ' && tree[j+1] == 'g' && tree[j+2] >= '0' && tree[j+2] <= '9' {
			hoistedVar = true
		}
	}
	if linked {
		e.stat(prefix + ":result-has-merged-symbols")
	}
	if pinned {
		e.stat(prefix + ":result-has-pinned-symbols")
	}
	if unbound {
		e.stat(prefix + ":result-has-unbound-symbols")
	}
	if hoistedVar {
		e.stat(prefix + ":result-has-generated-symbols")
	}
	if strings.Contains(tree, " l") {
		for j := 0; j+2 < len(tree); j++ {
			if tree[j] == ' ' && tree[j+1] == 'l' && tree[j+2] >= '0' && tree[j+2] <= '9' {
				e.stat(prefix + ":result-has-label")
				break
			}
		}
	}
}

func scopeErrors(msgs []logger.Msg) string {
	var out []string
	for _, m := range msgs {
		if m.Kind != logger.Error {
			continue
		}
		t := m.Data.Text
		if strings.HasPrefix(t, "The symbol \"") && strings.HasSuffix(t, "\" has already been declared") {
			name := t[len("The symbol \"") : len(t)-len("\" has already been declared")]
			out = append(out, strconv.Itoa(scopeNameID(name)))
		}
	}
	if len(out) == 0 {
		return "-"
	}
	// the log is sorted by location when it is read: compare the errors as a multiset
	sort.Slice(out, func(i, j int) bool { a, _ := strconv.Atoi(out[i]); b, _ := strconv.Atoi(out[j]); return a < b })
	return strings.Join(out, ",")
}

// every identifier expression of the tree with its source offset (reflection walk over the statements)
func scopeCollectIdents(v reflect.Value, out map[int32]uint32, seen map[uintptr]bool) {
	switch v.Kind() {
	case reflect.Ptr:
		if v.IsNil() {
			return
		}
		if seen[v.Pointer()] {
			return
		}
		seen[v.Pointer()] = true
		scopeCollectIdents(v.Elem(), out, seen)
	case reflect.Interface:
		if !v.IsNil() {
			scopeCollectIdents(v.Elem(), out, seen)
		}
	case reflect.Slice, reflect.Array:
		for i := 0; i < v.Len(); i++ {
			scopeCollectIdents(v.Index(i), out, seen)
		}
	case reflect.Struct:
		if e, ok := v.Interface().(js_ast.Expr); ok {
			if id, ok := e.Data.(*js_ast.EIdentifier); ok {
				if _, dup := out[e.Loc.Start]; !dup {
					out[e.Loc.Start] = id.Ref.InnerIndex
				}
				return
			}
			if id, ok := e.Data.(*js_ast.EImportIdentifier); ok {
				if _, dup := out[e.Loc.Start]; !dup {
					out[e.Loc.Start] = id.Ref.InnerIndex
				}
				return
			}
		}
		for i := 0; i < v.NumField(); i++ {
			f := v.Field(i)
			if f.CanInterface() {
				scopeCollectIdents(f, out, seen)
			}
		}
	}
}

// ---------------------------------------------------------------------------------------------
// program generator: source text + item form

type scopeProg struct {
	r       *gen.Rand
	e       *emitter
	src     strings.Builder
	items   []string
	refOffs []int
	budget  int
	esm     bool
	names   []int // name ids used by this program (small, so that names collide)
	labels  int
	feat    map[string]bool
}

func (g *scopeProg) w(s string)   { g.src.WriteString(s) }
func (g *scopeProg) tok(s string) { g.items = append(g.items, s) }
func (g *scopeProg) f(s string)   { g.feat[s] = true }

func (g *scopeProg) name() int {
	r := g.r
	if r.Chance(1, 14) {
		return 0 // arguments
	}
	if r.Chance(1, 40) {
		return 1 // eval
	}
	return g.names[r.Intn(len(g.names))]
}

// a name that is not "arguments"/"eval" (for places where those are syntax errors or lexer panics)
func (g *scopeProg) plainName() int { return g.names[g.r.Intn(len(g.names))] }

func (g *scopeProg) ref(id int) {
	g.refOffs = append(g.refOffs, g.src.Len())
	g.w(scopeNameOf(id))
	g.tok(fmt.Sprintf("r%d", id))
}

func (g *scopeProg) decl(k string, id int) {
	g.w(scopeNameOf(id))
	g.tok(fmt.Sprintf("d%s%d", k, id))
}

// an expression that references a name (or not)
func (g *scopeProg) expr(strict bool, depth int) {
	r := g.r
	switch r.Intn(8) {
	case 0:
		g.w("0")
	case 1:
		if depth > 0 && g.budget > 0 {
			g.budget--
			g.fnExpr(strict, depth-1)
			return
		}
		g.ref(g.name())
	case 2:
		if depth > 0 && g.budget > 0 {
			g.budget--
			g.arrow(strict, depth-1)
			return
		}
		g.ref(g.name())
	case 3:
		if depth > 0 && g.budget > 0 && r.Chance(1, 3) {
			g.budget--
			g.classExpr(depth - 1)
			return
		}
		g.w("typeof ")
		g.ref(g.name())
	default:
		g.ref(g.name())
	}
}

// a test that is not a constant (a constant test makes branches dead code, which changes use counts)
func (g *scopeProg) test() {
	g.ref(g.name()) // not `typeof x`: that is known to be truthy
}

func (g *scopeProg) params(strict bool, depth int) {
	r := g.r
	n := r.Intn(4)
	for i := 0; i < n; i++ {
		if i > 0 {
			g.w(", ")
		}
		switch r.Intn(7) {
		case 0: // default value
			g.f("param-default")
			g.decl("p", g.name())
			g.w(" = ")
			g.expr(strict, depth)
		case 1: // object pattern
			g.f("param-pattern")
			g.w("{")
			g.decl("p", g.plainName())
			if r.Bool() {
				g.w(", x: ")
				g.decl("p", g.plainName())
			}
			g.w("}")
		case 2:
			if i == n-1 {
				g.w("...")
			}
			g.decl("p", g.name())
		default:
			g.decl("p", g.name())
		}
	}
}

// the tokens of an arrow's parameter list: top-level `dp` tokens moved behind everything else
func scopeParamsLast(toks []string) []string {
	var rest, decls []string
	depth := 0
	for _, t := range toks {
		if strings.HasPrefix(t, "(") {
			depth++
		} else if t == ")" {
			depth--
		} else if depth == 0 && strings.HasPrefix(t, "dp") {
			decls = append(decls, t)
			continue
		}
		rest = append(rest, t)
	}
	return append(rest, decls...)
}

func (g *scopeProg) fnBody(strict bool, depth int, allowDirective bool) bool {
	r := g.r
	g.w("{ ")
	useStrict := allowDirective && !strict && r.Chance(1, 6)
	if useStrict {
		g.f("use-strict-fn")
		g.tok("(F!")
		g.w("\"use strict\"; ")
		strict = true
	} else {
		g.tok("(F")
	}
	g.stmts(strict, depth, true, false)
	g.w("}")
	g.tok(")")
	return useStrict
}

// `function NAME?(params) { body }` after the keyword and name have been written
func (g *scopeProg) fnRest(strict bool, depth int, simple bool) {
	g.w("(")
	if simple {
		n := g.r.Intn(3)
		for i := 0; i < n; i++ {
			if i > 0 {
				g.w(", ")
			}
			g.decl("p", g.name())
		}
	} else {
		g.params(strict, depth)
	}
	g.w(") ")
	g.tok("da0")
	g.fnBody(strict, depth, simple)
	g.tok(")")
}

func (g *scopeProg) fnExpr(strict bool, depth int) {
	r := g.r
	g.f("fn-expr")
	g.w("(")
	switch r.Intn(4) {
	case 0:
		g.w("async function")
	case 1:
		g.w("function*")
	default:
		g.w("function")
	}
	g.tok("(A")
	if r.Chance(2, 3) {
		g.w(" ")
		g.decl("F", g.plainName())
	}
	g.fnRest(strict, depth, r.Chance(1, 2))
	g.w(")")
}

func (g *scopeProg) arrow(strict bool, depth int) {
	r := g.r
	g.f("arrow")
	g.w("((")
	g.tok("(A")
	mark := len(g.items)
	g.params(strict, depth)
	// the parser reads the parameter list as expressions first (scopes of default values are pushed) and
	// declares all parameters afterwards
	g.items = append(g.items[:mark], scopeParamsLast(g.items[mark:])...)
	g.w(") => ")
	if r.Bool() {
		g.tok("(F")
		g.w("(")
		g.expr(strict, depth)
		g.w(")")
		g.tok(")")
	} else {
		g.fnBody(strict, depth, false)
	}
	g.tok(")")
	g.w(")")
}

func (g *scopeProg) classTail(depth int, inner int) {
	r := g.r
	g.tok("(N")
	if inner >= 0 {
		g.tok(fmt.Sprintf("dI%d", inner))
	} else {
		g.tok("dJ")
	}
	if r.Chance(1, 6) {
		g.w(" extends ")
		g.w("(")
		g.expr(true, depth)
		g.w(")")
	}
	g.w(" { ")
	g.tok("(C")
	n := r.Intn(4)
	for i := 0; i < n && g.budget > 0; i++ {
		g.budget--
		switch r.Intn(9) {
		case 0:
			g.f("class-static-block")
			g.w("static { ")
			g.tok("(S")
			g.stmts(true, depth, true, false)
			g.tok(")")
			g.w("} ")
		case 1:
			g.f("class-private")
			p := scopePrivBase + r.Intn(len(scopePrivTable))
			switch r.Intn(8) {
			case 0:
				g.decl("h", p)
				g.w("; ")
			case 1:
				g.w("static ")
				g.decl("H", p)
				g.w("; ")
			case 2:
				g.privMethod("", "j", p, false, 2)
			case 3:
				g.privMethod("static ", "J", p, false, 2)
			case 4:
				g.privMethod("get ", "G", p, false, 0)
			case 5:
				g.privMethod("set ", "S", p, true, 1)
			case 6:
				g.privMethod("static get ", "T", p, false, 0)
			case 7:
				g.privMethod("static set ", "U", p, true, 1)
			}
		default:
			g.f("class-method")
			if r.Chance(1, 5) {
				g.w("static ")
			}
			g.w("m" + strconv.Itoa(i))
			g.tok("(A")
			g.fnRest(true, depth, r.Bool())
			g.w(" ")
		}
	}
	g.tok(")")
	g.tok(")")
	g.w("}")
}

// a private method / accessor: the parser declares the name AFTER the function scopes, followed by one
// more symbol (`p_fn`, `p_get`, `p_set`) that is not declared in any scope
func (g *scopeProg) privMethod(prefix string, k string, p int, param bool, suffix int) {
	g.w(prefix)
	g.w(scopeNameOf(p))
	g.tok("(A")
	if param {
		g.w("(")
		g.decl("p", scopeNameID("a"))
		g.w(") {} ")
	} else {
		g.w("() {} ")
	}
	g.tok("da0")
	g.tok("(F")
	g.tok(")")
	g.tok(")")
	g.tok(fmt.Sprintf("d%s%d", k, p))
	g.tok(fmt.Sprintf("n%d", scopePrivDerivedBase+(p-scopePrivBase)*3+suffix))
}

func (g *scopeProg) classExpr(depth int) {
	g.f("class-expr")
	g.w("(class")
	inner := -1
	if g.r.Chance(2, 3) {
		inner = g.plainName()
		g.w(" " + scopeNameOf(inner))
	}
	g.classTailExpr(depth, inner)
	g.w(")")
}

func (g *scopeProg) classTailExpr(depth int, inner int) {
	// same as classTail but with the dX item (parse pass) before the dI item (visit pass)
	mark := len(g.items)
	g.classTail(depth, inner)
	if inner >= 0 {
		// items[mark] = "(N", items[mark+1] = "dI.."
		rest := append([]string{}, g.items[mark+1:]...)
		g.items = append(g.items[:mark+1], fmt.Sprintf("n%d", inner))
		g.items = append(g.items, rest...)
	}
}

func (g *scopeProg) stmts(strict bool, depth int, fnTop bool, moduleTop bool) {
	n := g.r.Intn(5)
	if moduleTop {
		n = 1 + g.r.Intn(7)
	}
	for i := 0; i < n && g.budget > 0; i++ {
		g.budget--
		g.stmt(strict, depth, moduleTop)
		g.w(" ")
	}
}

func (g *scopeProg) declNames(k string, strict bool, depth int, init bool) {
	n := 1 + g.r.Intn(2)
	for i := 0; i < n; i++ {
		if i > 0 {
			g.w(", ")
		}
		if k != "v" {
			g.decl(k, g.plainNameOrArgs())
		} else {
			n := g.name()
			if n == 0 {
				g.f("var-arguments")
			}
			g.decl(k, n)
		}
		if init || g.r.Chance(1, 3) {
			g.w(" = ")
			g.expr(strict, depth)
		}
	}
}

// let/const/class names: "let eval" is fine in sloppy mode, keep it rare
func (g *scopeProg) plainNameOrArgs() int {
	if g.r.Chance(1, 20) {
		return 0
	}
	return g.plainName()
}

func (g *scopeProg) fnDecl(strict bool, depth int) {
	r := g.r
	k := "f"
	switch r.Intn(6) {
	case 0:
		g.f("async-fn-decl")
		g.w("async function ")
		k = "g"
	case 1:
		g.f("generator-decl")
		g.w("function* ")
		k = "g"
	default:
		g.w("function ")
	}
	name := g.name()
	g.w(scopeNameOf(name))
	g.tok("(A")
	g.fnRest(strict, depth, r.Chance(2, 3))
	g.tok(fmt.Sprintf("d%s%d", k, name))
}

func (g *scopeProg) stmt(strict bool, depth int, moduleTop bool) {
	r := g.r
	nested := depth > 0 && g.budget > 0
	switch r.Intn(22) {
	case 0, 1:
		g.f("var")
		g.w("var ")
		g.declNames("v", strict, depth-1, false)
		g.w(";")
	case 2:
		g.f("let")
		g.w("let ")
		g.declNames("l", strict, depth-1, false)
		g.w(";")
	case 3:
		g.f("const")
		g.w("const ")
		g.declNames("c", strict, depth-1, true)
		g.w(";")
	case 4, 5, 6:
		if !nested {
			g.ref(g.name())
			g.w(";")
			return
		}
		g.f("fn-decl")
		g.fnDecl(strict, depth-1)
	case 7:
		if !nested {
			g.ref(g.name())
			g.w(";")
			return
		}
		g.f("class-decl")
		name := g.plainName()
		g.w("class ")
		g.decl("C", name)
		g.classTail(depth-1, name)
	case 8, 9, 10:
		if !nested {
			g.ref(g.name())
			g.w(";")
			return
		}
		g.f("block")
		g.w("{ ")
		g.tok("(B")
		g.stmts(strict, depth-1, false, false)
		g.tok(")")
		g.w("}")
	case 11, 12:
		if !nested {
			g.ref(g.name())
			g.w(";")
			return
		}
		g.w("try { 0; ") // an empty try block makes the catch block dead code (use counts)
		g.tok("(B")
		g.stmts(strict, depth-1, false, false)
		g.tok(")")
		g.w("} ")
		hasCatch := r.Chance(4, 5)
		if hasCatch {
			g.w("catch ")
			g.tok("(K")
			switch r.Intn(5) {
			case 0:
				g.f("catch-no-binding")
			case 1:
				g.f("catch-pattern")
				g.w("({")
				g.decl("q", g.plainName())
				if r.Bool() {
					g.w(", y: ")
					g.decl("q", g.plainName())
				}
				g.w("}) ")
			default:
				g.f("catch-ident")
				g.w("(")
				g.decl("k", g.plainName())
				g.w(") ")
			}
			g.w("{ ")
			g.tok("(B")
			g.stmts(strict, depth-1, false, false)
			g.tok(")")
			g.w("} ")
			g.tok(")")
		}
		if !hasCatch || r.Chance(1, 4) {
			g.f("finally")
			g.w("finally { ")
			g.tok("(B")
			g.stmts(strict, depth-1, false, false)
			g.tok(")")
			g.w("}")
		}
	case 13:
		if !nested {
			g.ref(g.name())
			g.w(";")
			return
		}
		g.f("label")
		l := g.plainName()
		g.w(fmt.Sprintf("%s: ", scopeNameOf(l)))
		g.tok(fmt.Sprintf("(L%d", l))
		if !strict && !g.esm && r.Chance(1, 3) {
			g.f("label-fn")
			name := g.name()
			g.w("function " + scopeNameOf(name))
			g.tok("(A")
			g.fnRest(strict, depth-1, true)
			g.tok(fmt.Sprintf("df%d", name))
		} else {
			g.budget--
			g.stmt(strict, depth-1, false)
		}
		g.tok(")")
	case 14:
		if !nested || ((strict || g.esm) && !r.Chance(1, 10)) {
			g.ref(g.name())
			g.w(";")
			return
		}
		g.f("with")
		g.w("with (")
		g.expr(strict, 0)
		g.w(") ")
		g.tok("(W")
		g.budget--
		g.stmtNoDecl(strict, depth-1, "with")
		g.tok(")")
	case 15:
		if !nested || strict || g.esm {
			g.ref(g.name())
			g.w(";")
			return
		}
		g.f("if-fn")
		g.w("if (")
		g.test()
		g.w(") ")
		name := g.name()
		g.w("function " + scopeNameOf(name))
		g.tok("(B")
		g.tok("(A")
		g.fnRest(strict, depth-1, true)
		g.tok(fmt.Sprintf("df%d", name))
		g.tok(")")
		if r.Chance(1, 3) {
			name := g.name()
			g.w(" else function " + scopeNameOf(name))
			g.tok("(B")
			g.tok("(A")
			g.fnRest(strict, depth-1, true)
			g.tok(fmt.Sprintf("df%d", name))
			g.tok(")")
		}
	case 16:
		if !nested {
			g.ref(g.name())
			g.w(";")
			return
		}
		g.f("for")
		g.tok("(B")
		switch r.Intn(5) {
		case 0:
			g.w("for (var ")
			g.decl("v", g.name())
			g.w(" = 0; ")
			g.ref(g.name())
			g.w("; ) ")
		case 1:
			g.w("for (let ")
			g.decl("l", g.plainName())
			g.w(" = 0; ")
			g.ref(g.name())
			g.w("; ) ")
		case 2:
			g.w("for (const ")
			g.decl("c", g.plainName())
			g.w(" of ")
			g.ref(g.name())
			g.w(") ")
		case 3:
			g.w("for (var ")
			g.decl("v", g.name())
			g.w(" in ")
			g.ref(g.name())
			g.w(") ")
		default:
			g.w("for (;;) ")
		}
		g.budget--
		g.stmtNoDecl(strict, depth-1, "for")
		g.tok(")")
	case 17:
		if !nested {
			g.ref(g.name())
			g.w(";")
			return
		}
		g.f("switch")
		g.w("switch (")
		g.test()
		g.w(") { ")
		g.tok("(B")
		nc := r.Intn(3)
		for i := 0; i < nc; i++ {
			g.w(fmt.Sprintf("case %d: ", i))
			g.stmts(strict, depth-1, false, false)
			g.tok(";") // every case body is a statement list of its own
		}
		if r.Bool() {
			g.w("default: ")
			g.stmts(strict, depth-1, false, false)
		}
		g.tok(")")
		g.w("}")
	case 18:
		if r.Chance(1, 3) {
			g.f("direct-eval")
			g.refOffs = append(g.refOffs, g.src.Len())
			g.w("eval(\"\");")
			g.tok("e")
			return
		}
		g.ref(g.name())
		g.w(" = 1;")
	case 19:
		if moduleTop && g.esm {
			g.f("import")
			switch r.Intn(3) {
			case 0:
				g.tok("g54")
				g.w("import ")
				g.decl("i", g.plainName())
				g.w(" from \"x\";")
			case 1:
				g.w("import * as ")
				g.decl("i", g.plainName())
				g.w(" from \"x\";")
			default:
				g.tok("g54")
				g.w("import {x as ")
				g.decl("i", g.plainName())
				if r.Bool() {
					g.w(", y as ")
					g.decl("i", g.plainName())
				}
				g.w("} from \"x\";")
			}
			return
		}
		g.expr(strict, depth-1)
		g.w(";")
	default:
		g.expr(strict, depth-1)
		g.w(";")
	}
}

// the body of with / for: any statement except a bare lexical declaration or function declaration
func (g *scopeProg) stmtNoDecl(strict bool, depth int, ctx string) {
	r := g.r
	switch r.Intn(4) {
	case 0:
		g.ref(g.name())
		g.w(";")
	case 1:
		// a `var` directly in the body (for `with`: declared in the ScopeWith itself)
		g.f(ctx + "-body-var")
		n := g.name()
		if n == 0 {
			g.f("var-arguments")
		}
		g.w("var ")
		g.decl("v", n)
		g.w(";")
	default:
		g.f(ctx + "-body-block")
		g.w("{ ")
		g.tok("(B")
		if depth > 0 {
			g.stmts(strict, depth-1, false, false)
		}
		g.tok(")")
		g.w("}")
	}
}

func genScopeProg(r *gen.Rand, e *emitter) *scopeProg {
	g := &scopeProg{r: r, e: e, feat: map[string]bool{}}
	g.budget = 3 + r.Intn(28)
	nn := 1 + r.Intn(4)
	for i := 0; i < nn; i++ {
		g.names = append(g.names, 2+r.Intn(len(scopeNameTable)-2))
	}
	g.esm = r.Chance(1, 4)
	strict := g.esm
	if r.Chance(1, 6) {
		g.w("\"use strict\"; ")
		strict = true
		g.tok("!")
		g.f("use-strict-top")
	}
	depth := 1 + r.Intn(5)
	g.stmts(strict, depth, true, true)
	if g.esm {
		g.w("export {};")
		g.f("esm")
	}
	return g
}

// ---------------------------------------------------------------------------------------------
// the real run

func scopeParseReal(src string, refOffs []int) string {
	return guard(func() string {
		log := logger.NewDeferLog(logger.DeferLogAll, nil)
		opts := js_parser.OptionsFromConfig(&config.Options{})
		tree, ok := js_parser.Parse(log, logger.Source{Contents: src, KeyPath: logger.Path{Text: "/x.js", Namespace: "file"},
			PrettyPaths: logger.PrettyPaths{Abs: "/x.js", Rel: "x.js"}}, opts)
		msgs := log.Done()
		if !ok {
			return "PARSE-ERROR"
		}
		idents := map[int32]uint32{}
		seen := map[uintptr]bool{}
		for i := range tree.Parts {
			scopeCollectIdents(reflect.ValueOf(tree.Parts[i].Stmts), idents, seen)
		}
		var sb strings.Builder
		sb.WriteString("E:")
		sb.WriteString(scopeErrors(msgs))
		// highest symbol the scope tree or a reference mentions
		sb.WriteString("|R:")
		for i, off := range refOffs {
			if i > 0 {
				sb.WriteByte(',')
			}
			if ref, ok := idents[int32(off)]; ok {
				fmt.Fprintf(&sb, "%d", ref)
			} else {
				sb.WriteByte('?')
			}
		}
		if len(refOffs) == 0 {
			sb.WriteByte('-')
		}
		sb.WriteString("|T:")
		scopeDumpTree(&sb, tree.ModuleScope)
		sb.WriteString("|S:")
		// the last symbol is the `require_x` wrapper symbol toAST always appends
		n := len(tree.Symbols)
		if n > 0 && strings.HasPrefix(tree.Symbols[n-1].OriginalName, "require_") {
			n--
		}
		scopeDumpSymbols(&sb, tree.Symbols, n)
		return sb.String()
	})
}

func init() {
	kernels["scope"] = func(r *gen.Rand, e *emitter, tier string) {
		if src := os.Getenv("SCOPE_DEBUG_SRC"); src != "" {
			fmt.Println(scopeParseReal(src, nil))
			return
		}
		scopeRunMerge(e) // 7840 cases, exhaustive
		for !e.full() {
			switch r.Intn(4) {
			case 0:
				scopeRunOps(e, r.Fork())
				continue
			case 1:
				scopeRunCore(e, r.Fork())
				continue
			}
			g := genScopeProg(r, e)
			src := g.src.String()
			out := scopeParseReal(src, g.refOffs)
			for k := range g.feat {
				e.stat("src:" + k)
			}
			if out == "PARSE-ERROR" {
				e.stat("src:PARSE-ERROR")
				if os.Getenv("SCOPE_DEBUG") != "" {
					fmt.Fprintln(os.Stderr, "PARSE-ERROR:", src)
				}
				continue
			}
			if strings.HasPrefix(out, "E:-") {
				e.stat("src:no-redeclaration-error")
			} else {
				e.stat("src:redeclaration-error")
			}
			scopeResultStats(e, "src", out)
			items := strings.Join(g.items, " ")
			if items == "" {
				items = "-"
			}
			op := "src"
			if i := strings.Index(out, "|T:"); strings.Contains(out[:i], "?") {
				// an identifier is missing from the tree: the statement that contained it was dropped (a
				// block-level function overwritten by a later one that collides with it); the references are
				// not compared for this program
				e.stat("src:refs-not-compared")
				op = "srcnr"
				out = out[:strings.Index(out, "|R:")] + "|R:*" + out[i:]
			}
			e.emit(fmt.Sprintf("scope\t%s\t%d\t%s\t%s", op, b2i(g.esm), items, hexBytes([]byte(src))), out)
		}
	}
}

// ---------------------------------------------------------------------------------------------
// op "ops": arbitrary item trees on the real routines (js_parser.VerifRunScopeOps)

type scopeOpsGen struct {
	r     *gen.Rand
	toks  []string
	ops   []js_parser.VerifScopeOp
	names []int
	wild  bool
	n     int
}

var scopeOpsLetters = map[uint8]string{0: "B", 1: "W", 2: "L", 3: "N", 4: "C", 5: "K", 6: "E", 7: "A", 8: "F", 9: "S"}

func (g *scopeOpsGen) name() int {
	if g.r.Chance(1, 10) {
		return 0
	}
	return g.names[g.r.Intn(len(g.names))]
}

func (g *scopeOpsGen) declKind(scope uint8) uint8 {
	r := g.r
	if g.wild || r.Chance(1, 12) {
		return uint8(r.Intn(28))
	}
	switch scope {
	case 7: // arguments scope
		return []uint8{1, 1, 1, 2}[r.Intn(4)]
	case 5:
		return []uint8{3, 3, 27}[r.Intn(3)]
	case 4:
		return uint8(8 + r.Intn(10))
	}
	return []uint8{1, 1, 1, 2, 2, 2, 4, 6, 22, 27, 27, 21}[r.Intn(12)]
}

func (g *scopeOpsGen) push(kind uint8, us bool) {
	t := "(" + scopeOpsLetters[kind]
	if us {
		t += "!"
	}
	g.toks = append(g.toks, t)
	g.ops = append(g.ops, js_parser.VerifScopeOp{Op: '(', Kind: kind, UseStrict: us})
}

func (g *scopeOpsGen) pop() {
	g.toks = append(g.toks, ")")
	g.ops = append(g.ops, js_parser.VerifScopeOp{Op: ')'})
}

func (g *scopeOpsGen) body(scope uint8, depth int) {
	r := g.r
	n := r.Intn(6)
	for i := 0; i < n && g.n > 0; i++ {
		g.n--
		switch r.Intn(12) {
		case 0, 1, 2, 3:
			k := g.declKind(scope)
			nm := g.name()
			g.toks = append(g.toks, fmt.Sprintf("D%d.%d", k, nm))
			g.ops = append(g.ops, js_parser.VerifScopeOp{Op: 'd', Kind: k, Name: scopeNameOf(nm)})
		case 4, 5:
			nm := g.name()
			g.toks = append(g.toks, fmt.Sprintf("r%d", nm))
			g.ops = append(g.ops, js_parser.VerifScopeOp{Op: 'r', Name: scopeNameOf(nm)})
		case 6:
			if scope == 7 || g.wild {
				g.toks = append(g.toks, "da0")
				g.ops = append(g.ops, js_parser.VerifScopeOp{Op: 'a'})
			}
		case 7:
			if r.Chance(1, 4) {
				nm := g.name()
				if r.Bool() {
					g.toks = append(g.toks, fmt.Sprintf("n%d", nm))
					g.ops = append(g.ops, js_parser.VerifScopeOp{Op: 'n', Name: scopeNameOf(nm)})
				} else {
					g.toks = append(g.toks, fmt.Sprintf("g%d", nm))
					g.ops = append(g.ops, js_parser.VerifScopeOp{Op: 'g', Name: scopeNameOf(nm)})
				}
			}
		default:
			if depth <= 0 {
				continue
			}
			us := r.Chance(1, 8)
			if g.wild {
				k := uint8(r.Intn(10))
				g.push(k, us)
				g.body(k, depth-1)
				g.pop()
				continue
			}
			switch r.Intn(8) {
			case 0, 1, 2:
				g.push(0, false)
				g.body(0, depth-1)
				g.pop()
			case 3, 4:
				// function: arguments scope with parameters, then the body
				g.push(7, false)
				g.body(7, 0)
				if r.Chance(9, 10) {
					g.toks = append(g.toks, "da0")
					g.ops = append(g.ops, js_parser.VerifScopeOp{Op: 'a'})
				}
				g.push(8, us)
				g.body(8, depth-1)
				g.pop()
				g.pop()
			case 5:
				g.push(5, false)
				g.body(5, 0)
				g.push(0, false)
				g.body(0, depth-1)
				g.pop()
				g.pop()
			case 6:
				k := []uint8{1, 2, 9}[r.Intn(3)]
				g.push(k, false)
				g.body(k, depth-1)
				g.pop()
			default:
				g.push(3, false)
				g.push(4, false)
				g.body(4, depth-1)
				g.pop()
				g.pop()
			}
		}
	}
}

func scopeRunOps(e *emitter, r *gen.Rand) {
	g := &scopeOpsGen{r: r}
	g.wild = r.Chance(1, 4)
	g.n = 2 + r.Intn(30)
	nn := 1 + r.Intn(3)
	for i := 0; i < nn; i++ {
		g.names = append(g.names, 2+r.Intn(len(scopeNameTable)-2))
	}
	esm := r.Chance(1, 4)
	us := r.Chance(1, 6)
	g.body(6, 1+r.Intn(5))
	out := guard(func() string {
		log := logger.NewDeferLog(logger.DeferLogAll, nil)
		res := js_parser.VerifRunScopeOps(log, g.ops, esm, us)
		msgs := log.Done()
		var sb strings.Builder
		sb.WriteString("E:")
		sb.WriteString(scopeErrors(msgs))
		sb.WriteString("|R:")
		for i, ref := range res.Refs {
			if i > 0 {
				sb.WriteByte(',')
			}
			fmt.Fprintf(&sb, "%d", ref.InnerIndex)
		}
		if len(res.Refs) == 0 {
			sb.WriteByte('-')
		}
		sb.WriteString("|T:")
		scopeDumpTree(&sb, res.ModuleScope)
		sb.WriteString("|S:")
		scopeDumpSymbols(&sb, res.Symbols, len(res.Symbols))
		sb.WriteString("|D:")
		for i, ref := range res.DeclRefs {
			if i > 0 {
				sb.WriteByte(',')
			}
			fmt.Fprintf(&sb, "%d", ref.InnerIndex)
		}
		if len(res.DeclRefs) == 0 {
			sb.WriteByte('-')
		}
		return sb.String()
	})
	if g.wild {
		e.stat("ops:wild")
	} else {
		e.stat("ops:shaped")
	}
	switch {
	case out == "PANIC":
		e.stat("ops:PANIC")
	case strings.HasPrefix(out, "E:-"):
		e.stat("ops:no-error")
	default:
		e.stat("ops:error")
	}
	scopeResultStats(e, "ops", out)
	toks := g.toks
	if us {
		toks = append([]string{"!"}, toks...)
	}
	items := strings.Join(toks, " ")
	if items == "" {
		items = "-"
	}
	e.emit(fmt.Sprintf("scope\tops\t%d\t%s", b2i(esm), items), out)
}

var scopeMergeNames = []string{"forbidden", "replaceWithNew", "overwriteWithNew", "keepExisting", "becomePrivateGetSetPair", "becomePrivateStaticGetSetPair"}

// op "merge": canMergeSymbols on every (scope kind, existing kind, new kind)
func scopeRunMerge(e *emitter) {
	for sk := 0; sk < 10 && !e.full(); sk++ {
		for ex := 0; ex < 28 && !e.full(); ex++ {
			for nw := 0; nw < 28 && !e.full(); nw++ {
				m := js_parser.VerifCanMergeSymbols(uint8(sk), uint8(ex), uint8(nw))
				e.stat("merge:" + scopeMergeNames[m])
				e.emit(fmt.Sprintf("scope\tmerge\t%d\t%d\t%d", sk, ex, nw), strconv.Itoa(m))
			}
		}
	}
}

// ---------------------------------------------------------------------------------------------
// op "core": programs of the fragment of Spec/JsScopes.lean as source text; the model translates the program to items
// itself (Impl/ScopesSyntax.lean) and evaluates the property statements on the run

type coreGen struct {
	r       *gen.Rand
	src     strings.Builder
	toks    []string
	refOffs []int
	names   []int
	budget  int
	feat    map[string]bool
}

func (g *coreGen) w(s string)   { g.src.WriteString(s) }
func (g *coreGen) tok(s string) { g.toks = append(g.toks, s) }
func (g *coreGen) f(s string)   { g.feat[s] = true }

func (g *coreGen) name() int {
	if g.r.Chance(1, 7) {
		return 0
	}
	return g.names[g.r.Intn(len(g.names))]
}
func (g *coreGen) plain() int { return g.names[g.r.Intn(len(g.names))] }

func (g *coreGen) fnHead(letter string, name string, strictOK bool) bool {
	r := g.r
	n := r.Intn(3)
	ps := make([]string, n)
	pn := make([]string, n)
	for i := range ps {
		id := g.name()
		ps[i] = strconv.Itoa(id)
		pn[i] = scopeNameOf(id)
	}
	g.w("(" + strings.Join(pn, ", ") + ") ")
	us := strictOK && r.Chance(1, 6)
	t := "(" + letter + name + ":" + strings.Join(ps, ".")
	if us {
		t += "!"
	}
	g.tok(t)
	return us
}

func (g *coreGen) body(us bool, depth int) {
	g.w("{ ")
	if us {
		g.f("use-strict-fn")
		g.w("\"use strict\"; ")
	}
	g.stmts(depth)
	g.w("}")
	g.tok(")")
}

func (g *coreGen) stmts(depth int) {
	n := g.r.Intn(5)
	for i := 0; i < n && g.budget > 0; i++ {
		g.budget--
		g.stmt(depth)
		g.w(" ")
	}
}

func (g *coreGen) stmt(depth int) {
	r := g.r
	nested := depth > 0 && g.budget > 0
	switch r.Intn(16) {
	case 0, 1, 2:
		g.f("var")
		n := g.name()
		g.w("var " + scopeNameOf(n) + ";")
		g.tok(fmt.Sprintf("v%d", n))
	case 3:
		g.f("let")
		n := g.name()
		g.w("let " + scopeNameOf(n) + ";")
		g.tok(fmt.Sprintf("l%d", n))
	case 4:
		g.f("const")
		n := g.name()
		g.w("const " + scopeNameOf(n) + " = 0;")
		g.tok(fmt.Sprintf("c%d", n))
	case 5:
		if r.Chance(1, 2) {
			g.f("class")
			n := g.plain()
			g.w("class " + scopeNameOf(n) + " {}")
			g.tok(fmt.Sprintf("K%d", n))
			return
		}
		fallthrough
	case 6, 7:
		n := g.name()
		g.refOffs = append(g.refOffs, g.src.Len())
		g.w(scopeNameOf(n) + ";")
		g.tok(fmt.Sprintf("r%d", n))
	case 8, 9, 10:
		if !nested {
			g.stmt(0)
			return
		}
		g.f("fn-decl")
		n := g.name()
		letter := "D"
		switch r.Intn(6) {
		case 0:
			g.f("generator")
			g.w("function* ")
			letter = "G"
		case 1:
			g.f("async")
			g.w("async function ")
			letter = "G"
		default:
			g.w("function ")
		}
		g.w(scopeNameOf(n))
		us := g.fnHead(letter, strconv.Itoa(n), true)
		g.body(us, depth-1)
	case 11, 12:
		if !nested {
			g.stmt(0)
			return
		}
		g.f("block")
		g.w("{ ")
		g.tok("(B")
		g.stmts(depth - 1)
		g.w("}")
		g.tok(")")
	case 13:
		if !nested {
			g.stmt(0)
			return
		}
		g.w("try { 0; ")
		g.tok("(T")
		g.stmts(depth - 1)
		g.w("} catch ")
		g.tok(")")
		switch r.Intn(4) {
		case 0:
			g.f("catch-none")
			g.tok("(H-")
		case 1:
			g.f("catch-pattern")
			a, b := g.plain(), g.plain()
			if r.Bool() {
				g.w("({" + scopeNameOf(a) + "}) ")
				g.tok(fmt.Sprintf("(Hp%d", a))
			} else {
				g.w("({" + scopeNameOf(a) + ", x: " + scopeNameOf(b) + "}) ")
				g.tok(fmt.Sprintf("(Hp%d.%d", a, b))
			}
		default:
			g.f("catch-ident")
			a := g.plain()
			g.w("(" + scopeNameOf(a) + ") ")
			g.tok(fmt.Sprintf("(Hi%d", a))
		}
		g.w("{ ")
		g.stmts(depth - 1)
		g.w("}")
		g.tok(")")
	case 14:
		if !nested {
			g.stmt(0)
			return
		}
		g.f("fn-expr")
		name := "-"
		g.w("(function")
		if r.Chance(2, 3) {
			n := g.plain()
			name = strconv.Itoa(n)
			g.w(" " + scopeNameOf(n))
		}
		us := g.fnHead("E", name, true)
		g.body(us, depth-1)
		g.w(");")
	default:
		if !nested {
			g.stmt(0)
			return
		}
		g.f("arrow")
		g.w("(")
		g.fnHead("A", "", false)
		g.w("=> ")
		g.body(false, depth-1)
		g.w(");")
	}
}

func scopeRunCore(e *emitter, r *gen.Rand) {
	g := &coreGen{r: r, feat: map[string]bool{}}
	g.budget = 2 + r.Intn(26)
	nn := 1 + r.Intn(3)
	for i := 0; i < nn; i++ {
		g.names = append(g.names, 2+r.Intn(len(scopeNameTable)-2))
	}
	module := r.Chance(1, 5)
	strict := r.Chance(1, 6)
	if strict {
		g.w("\"use strict\"; ")
	}
	depth := 1 + r.Intn(5)
	n := 1 + r.Intn(6)
	for i := 0; i < n && g.budget > 0; i++ {
		g.budget--
		g.stmt(depth)
		g.w(" ")
	}
	if module {
		g.w("export {};")
	}
	src := g.src.String()
	out := scopeParseReal(src, g.refOffs)
	if out == "PARSE-ERROR" {
		e.stat("core:PARSE-ERROR")
		if os.Getenv("SCOPE_DEBUG") != "" {
			fmt.Fprintln(os.Stderr, "PARSE-ERROR:", src)
		}
		return
	}
	for k := range g.feat {
		e.stat("core:" + k)
	}
	if module {
		e.stat("core:module")
	}
	if strict {
		e.stat("core:strict")
	}
	if i := strings.Index(out, "|T:"); strings.Contains(out[:i], "?") {
		e.stat("core:refs-dropped")
		return
	}
	scopeResultStats(e, "core", out)
	if strings.HasPrefix(out, "E:-") {
		e.stat("core:accepted")
		out += "|P:ok"
	} else {
		e.stat("core:rejected")
		out += "|P:ok-rejected"
	}
	prog := strings.Join(g.toks, " ")
	if prog == "" {
		prog = "-"
	}
	e.emit(fmt.Sprintf("scope\tcore\t%d\t%d\t%s\t%s", b2i(module), b2i(strict), prog, hexBytes([]byte(src))), out)
}
