package main

import (
	"fmt"
	"strconv"
	"strings"

	"github.com/evanw/esbuild/verifharness/gen"
)

// generator of kernel stmtmangle: function bodies over expressions that the expression visitor leaves alone

type smGen struct {
	r       *gen.Rand
	mask    int
	nextLet int
	lets    []int // let / const names in scope (declared earlier in an enclosing list)
	labels  []smLabel
	loops   int
	fnNext  int
}

type smLabel struct {
	id     int
	isLoop bool
}

func (g *smGen) id(k int) *mjNode     { return &mjNode{kind: mjIdent, id: k} }
func (g *smGen) num(v float64) *mjNode { return &mjNode{kind: mjNum, num: v} }
func (g *smGen) str(s string) *mjNode  { return &mjNode{kind: mjStr, str: mjU16(s)} }

func (g *smGen) ident() *mjNode {
	if g.r.Chance(1, 5) {
		return g.id(6 + g.r.Intn(3)) // a `var` name of this function (declared or not: then it is a global x6..x8)
	}
	return g.id(g.r.Intn(6))
}

func (g *smGen) atom() *mjNode {
	switch g.r.Intn(8) {
	case 0:
		return g.num([]float64{0, 1, 2, 42}[g.r.Intn(4)])
	case 1:
		return g.str([]string{"", "a", "ab"}[g.r.Intn(3)])
	case 2:
		return &mjNode{kind: []mjKind{mjNull, mjUndef, mjBool, mjBool}[g.r.Intn(4)], b: g.r.Chance(1, 2)}
	}
	return g.ident()
}

func (g *smGen) call() *mjNode {
	kids := []*mjNode{g.id(g.r.Intn(6))}
	if len(g.lets) > 0 && g.r.Chance(1, 4) {
		x := g.lets[g.r.Intn(len(g.lets))]
		kids = append(kids, g.id(x), g.id(x)) // always two uses: no single-use substitution
		return &mjNode{kind: mjCall, kids: kids}
	}
	for i := g.r.Intn(3); i > 0; i-- {
		kids = append(kids, g.atom())
	}
	return &mjNode{kind: mjCall, kids: kids}
}

func (g *smGen) eff() *mjNode {
	if g.r.Chance(1, 6) {
		return &mjNode{kind: mjDot, str: mjU16([]string{"p", "q"}[g.r.Intn(2)]), kids: []*mjNode{g.id(g.r.Intn(6))}}
	}
	return g.call()
}

func (g *smGen) simple() *mjNode {
	if g.r.Chance(1, 2) {
		return g.ident()
	}
	return g.call()
}

// a value expression that visitExpr leaves unchanged under MinifySyntax
func (g *smGen) val() *mjNode {
	switch g.r.Intn(12) {
	case 0, 1:
		return g.atom()
	case 2:
		return &mjNode{kind: mjUnary, op: "not", kids: []*mjNode{g.simple()}}
	case 3:
		return &mjNode{kind: mjBinary, op: []string{"and", "or"}[g.r.Intn(2)], kids: []*mjNode{g.simple(), g.simple()}}
	case 4:
		return &mjNode{kind: mjBinary, op: "comma", kids: []*mjNode{g.call(), g.atom()}}
	case 5:
		return &mjNode{kind: mjBinary, op: []string{"seq", "sne"}[g.r.Intn(2)], kids: []*mjNode{g.id(g.r.Intn(3)), g.id(3 + g.r.Intn(3))}}
	case 6:
		return &mjNode{kind: mjUnary, op: "typeof1", kids: []*mjNode{g.id(g.r.Intn(6))}}
	}
	return g.eff()
}

// the test of an if / loop: sometimes a constant (with or without side effects)
func (g *smGen) test() *mjNode {
	switch g.r.Intn(10) {
	case 0:
		return g.num([]float64{0, 1}[g.r.Intn(2)])
	case 1:
		return &mjNode{kind: []mjKind{mjNull, mjUndef, mjBool, mjBool}[g.r.Intn(4)], b: g.r.Chance(1, 2)}
	case 2:
		return &mjNode{kind: mjBinary, op: "comma", kids: []*mjNode{g.call(), g.num(float64(g.r.Intn(2)))}}
	case 3:
		return &mjNode{kind: mjUnary, op: "not", kids: []*mjNode{g.simple()}}
	case 4:
		return g.str([]string{"", "a"}[g.r.Intn(2)])
	}
	return g.val()
}

func (g *smGen) decls(dk string) []smDecl {
	ds := []smDecl{}
	for i := 1 + g.r.Intn(2); i > 0; i-- {
		d := smDecl{}
		switch dk {
		case "var":
			d.name = 6 + g.r.Intn(3)
			if g.r.Chance(2, 3) {
				d.init = g.val()
			}
		case "let":
			d.name = g.nextLet
			g.nextLet++
			if g.r.Chance(3, 4) {
				d.init = g.val()
			}
		default: // const: never a literal initialiser (inlined constants are not modelled)
			d.name = g.nextLet
			g.nextLet++
			d.init = g.eff()
		}
		ds = append(ds, d)
	}
	return ds
}

// a statement; asBody: the single-statement body of an if / loop / label (no let / const / function)
func (g *smGen) stmt(depth int, asBody bool, top bool) *smNode {
	for {
		switch g.r.Intn(24) {
		case 0, 1, 2, 3:
			if g.r.Chance(1, 6) {
				return &smNode{kind: "X", e: g.atom()} // removable expression statement
			}
			return &smNode{kind: "X", e: g.val()}
		case 4, 5:
			return &smNode{kind: "D", dk: "var", decls: g.decls("var")}
		case 6:
			if asBody {
				continue
			}
			n := &smNode{kind: "D", dk: []string{"let", "let", "const"}[g.r.Intn(3)]}
			n.decls = g.decls(n.dk)
			for _, d := range n.decls {
				g.lets = append(g.lets, d.name)
			}
			return n
		case 7, 8, 9, 10:
			if depth <= 0 {
				continue
			}
			n := &smNode{kind: "I", e: g.test(), kids: []*smNode{g.body(depth - 1)}}
			if g.r.Chance(2, 5) {
				switch n.kids[0].kind {
				case "I", "L", "F", "W": // dangling else: the source form needs braces
					n.kids[0] = &smNode{kind: "B", kids: []*smNode{n.kids[0]}}
				}
				n.kids = append(n.kids, g.body(depth-1))
			}
			return n
		case 11:
			if depth <= 0 {
				continue
			}
			return g.block(depth-1, g.r.Intn(4))
		case 12, 13:
			n := &smNode{kind: "R"}
			if g.r.Chance(2, 3) {
				n.hasE = true
				n.e = g.val()
				if g.r.Chance(1, 8) {
					n.e = &mjNode{kind: mjUnary, op: "void", kids: []*mjNode{g.call()}}
				}
			}
			return n
		case 14:
			return &smNode{kind: "T", e: g.val()}
		case 15, 16:
			k := []string{"K", "C"}[g.r.Intn(2)]
			if len(g.labels) > 0 && g.r.Chance(1, 3) {
				l := g.labels[g.r.Intn(len(g.labels))]
				if k == "C" && !l.isLoop {
					k = "K"
				}
				return &smNode{kind: k, lab: l.id}
			}
			if g.loops == 0 {
				continue
			}
			return &smNode{kind: k, lab: -1}
		case 17:
			if depth <= 0 || len(g.labels) >= 3 {
				continue
			}
			l := smLabel{id: len(g.labels), isLoop: g.r.Chance(1, 2)}
			g.labels = append(g.labels, l)
			var b *smNode
			if l.isLoop {
				b = g.loop(depth - 1)
			} else {
				b = g.body(depth - 1)
			}
			g.labels = g.labels[:len(g.labels)-1]
			return &smNode{kind: "L", lab: l.id, kids: []*smNode{b}}
		case 18, 19, 20:
			if depth <= 0 {
				continue
			}
			return g.loop(depth - 1)
		case 21:
			if !top {
				continue
			}
			g.fnNext++
			return &smNode{kind: "f", lab: 11 + g.fnNext}
		case 22:
			return &smNode{kind: "E"}
		}
	}
}

func (g *smGen) loop(depth int) *smNode {
	g.loops++
	defer func() { g.loops-- }()
	switch g.r.Intn(4) {
	case 0:
		return &smNode{kind: "W", e: g.test(), kids: []*smNode{g.body(depth)}}
	case 1:
		return &smNode{kind: "O", e: g.test(), kids: []*smNode{g.body(depth)}}
	}
	n := &smNode{kind: "F"}
	saved := len(g.lets)
	switch g.r.Intn(5) {
	case 0:
		n.init = &smNode{kind: "X", e: g.val()}
	case 1:
		n.init = &smNode{kind: "D", dk: "var", decls: g.decls("var")}
	case 2:
		n.init = &smNode{kind: "D", dk: "let", decls: g.decls("let")}
		for _, d := range n.init.decls {
			g.lets = append(g.lets, d.name)
		}
	}
	if g.r.Chance(2, 3) {
		n.hasE = true
		n.e = g.test()
	}
	if g.r.Chance(1, 3) {
		n.hasU = true
		n.e2 = g.eff()
	}
	n.kids = []*smNode{g.body(depth)}
	g.lets = g.lets[:saved]
	return n
}

func (g *smGen) block(depth int, n int) *smNode {
	saved := len(g.lets)
	b := &smNode{kind: "B", kids: g.list(depth, n, false)}
	g.lets = g.lets[:saved]
	return b
}

func (g *smGen) body(depth int) *smNode {
	if g.r.Chance(3, 5) {
		return g.block(depth, 1+g.r.Intn(3))
	}
	return g.stmt(depth, true, false)
}

func (g *smGen) list(depth int, n int, top bool) []*smNode {
	ss := []*smNode{}
	for i := 0; i < n; i++ {
		ss = append(ss, g.stmt(depth, false, top))
	}
	return ss
}

// end-to-end witness: the function is run for six value streams; completion and call log are reported
func smWitnessProgram(ss []*smNode, mask int) string {
	args, sets := []string{}, []string{}
	for k := 0; k < 6; k++ {
		if (mask>>k)&1 == 1 {
			sets = append(sets, fmt.Sprintf("globalThis.u%d = mk(\"u%d\");", k, k))
			args = append(args, "0")
		} else {
			args = append(args, fmt.Sprintf("mk(\"v%d\")", k))
		}
	}
	return smSource(ss, mask) +
		"var vals = [0, 1, \"\", \"a\", null, void 0, true, false, 2];\n" +
		"var log, cnt, budget, run;\n" +
		"function show(v) { return typeof v == \"function\" ? \"fn:\" + v.nm : typeof v + \":\" + String(v); }\n" +
		"function mk(name) { var f = function () { if (--budget < 0) throw \"budget\"; log.push(name + \"(\" + [].map.call(arguments, show).join(\",\") + \")\"); cnt = (cnt * 7 + 3) % 11; return vals[cnt % vals.length]; }; f.nm = name; f.p = vals[(run + name.length) % vals.length]; f.q = 1; return f; }\n" +
		"var out = [];\n" +
		"for (run = 0; run < 6; run++) {\n  log = []; cnt = run; budget = 60;\n  globalThis.hh = mk(\"hh\"); globalThis.x6 = run; globalThis.x7 = mk(\"x7\"); globalThis.x8 = void 0;\n  " + strings.Join(sets, " ") + "\n" +
		"  var res;\n  try { res = \"ret:\" + show(t(" + strings.Join(args, ", ") + ")); } catch (e) { res = \"throw:\" + show(e); }\n" +
		"  out.push(res + \"|\" + log.join(\";\"));\n}\np(1, out.join(\"\\n\"));\n"
}

func smHasCall(n *mjNode) bool {
	if n.kind == mjCall {
		return true
	}
	for _, k := range n.kids {
		if smHasCall(k) {
			return true
		}
	}
	return false
}

// every loop evaluates a call in its test on every iteration: the call budget of the witness program ends it
func smTerminates(ss []*smNode) bool {
	for _, n := range ss {
		switch n.kind {
		case "F":
			if !n.hasE || !smHasCall(n.e) {
				return false
			}
		case "W", "O":
			if !smHasCall(n.e) {
				return false
			}
		}
		if !smTerminates(n.kids) {
			return false
		}
	}
	return true
}

func smShape(out string) string {
	if len(out) > 4 && out[:2] == "B:" {
		toks := strings.SplitN(out, " ", 3)
		if len(toks) >= 2 {
			return toks[0] + ":" + strings.SplitN(toks[1], ":", 2)[0]
		}
		return toks[0]
	}
	return out
}

func init() {
	kernels["stmtmangle"] = func(r *gen.Rand, e *emitter, tier string) {
		for !e.full() {
			if r.Chance(1, 400) {
				// malformed operations
				bad := []string{"stmtmangle\tfn\t0\t1\tB:1 Q", "stmtmangle\tfn\tx\t1\tB:0", "stmtmangle\tfn\t0\t1\tB:2 E", "stmtmangle\tnope", "stmtmangle\tfn\t0\t1\tX i:0"}
				e.stat("malformed")
				e.emit(bad[r.Intn(len(bad))], "bad-op")
				continue
			}
			g := &smGen{r: r, nextLet: 20}
			switch r.Intn(4) {
			case 0:
				g.mask = 0
			case 1:
				g.mask = 63
			default:
				g.mask = r.Intn(64)
			}
			ss := g.list(1+r.Intn(3), 1+r.Intn(6), true)
			for ss[0].kind == "X" && ss[0].e.kind == mjStr { // would be a directive
				ss[0] = g.stmt(1, false, true)
			}
			// x6..x8 that the body does not declare with `var` are unbound globals
			declared := map[int]bool{}
			var walk func(n *smNode)
			walk = func(n *smNode) {
				if n.kind == "D" && n.dk == "var" {
					for _, d := range n.decls {
						declared[d.name] = true
					}
				}
				if n.init != nil {
					walk(n.init)
				}
				for _, k := range n.kids {
					walk(k)
				}
			}
			for _, s := range ss {
				walk(s)
			}
			for k := 6; k <= 8; k++ {
				if !declared[k] {
					g.mask |= 1 << k
				}
			}
			src := smSource(ss, g.mask)
			out, single := smRunReal(src)
			if strings.HasPrefix(out, "PARSE-ERROR") || out == "NO-FUNCTION" || out == "PANIC" {
				e.stat("skip:" + strings.SplitN(out, " ", 2)[0])
				continue
			}
			if single {
				e.stat("skip:single-use-let")
				continue
			}
			in := smProgramWire(ss)
			if in == out {
				e.stat("unchanged")
			} else {
				e.stat("changed")
			}
			e.stat("out:" + smShape(out))
			smStats(e, ss, out)
			if smTerminates(ss) {
				e.stat("witness")
				e.emitW("stmtmangle\tfn\t"+strconv.Itoa(g.mask)+"\t1\t"+in, out, "c03-prog",
					map[string]string{"source": smWitnessProgram(ss, g.mask), "opt_name": "ms"})
			} else {
				e.emit("stmtmangle\tfn\t"+strconv.Itoa(g.mask)+"\t1\t"+in, out)
			}
		}
	}
}

// coarse branch evidence: which statement kinds went in, which rewrites are visible in the output
func smStats(e *emitter, ss []*smNode, out string) {
	var walk func(n *smNode)
	walk = func(n *smNode) {
		e.stat("in:" + n.kind)
		for _, k := range n.kids {
			walk(k)
		}
	}
	for _, s := range ss {
		walk(s)
	}
	for _, m := range []struct{ tok, name string }{{"b:comma", "merged-comma"}, {" if ", "cond-expr"}, {"b:and", "and"}, {"b:or", "or"}, {"u:not", "not"}, {"F iX", "for-init-expr"}, {"F iD:var", "for-init-var"}, {"I1 ", "if-else-left"}, {"I0 ", "if-left"}, {"L:", "label-left"}, {"K:", "break-left"}, {"C:", "continue-left"}, {"R0", "bare-return-left"}, {"D:var", "var-left"}, {"D:let", "let-left"}, {"D:const", "const-left"}, {" f:", "fn-left"}, {"O ", "dowhile-left"}, {"T ", "throw-left"}} {
		if strings.Contains(out, m.tok) {
			e.stat("seen:" + m.name)
		}
	}
}
